import MpVerif.C04.Lemmas
import MpVerif.C04.Chains
import MpVerif.C04.Shared
import MpVerif.Gen.ValCvt
import MpVerif.C04.Builder
/-!
# C04 — property theorems

All statements are about the model in `Model.lean` (tied to the real `ValuePresolver` on every run:
the real link graph of every generated conversion is loaded into the compiled model, the
well-formedness hypotheses used below are evaluated on it, and every real pre/postsolve result
is compared with the model's).  They hold for EVERY graph (any number/kind/order of entries), every
vector length and every call history.
-/
namespace MpVerif.C04

/-! ## Primal values / variable suffixes come back exactly (H1–H3 = `Graph.wfVars`) -/

/-- Postsolve of ANY kind (solution, basis, IIS, generic suffix) on ANY graph whose first entry is the
    copy link of the `n` original variables and where no other entry has the variable nodes on its
    source side: original variable `j` receives exactly the solver's value `x[j]`; a shorter solver
    vector is zero-filled, a longer one cut off — whatever the nodes contained before (`prev`). -/
theorem C04_primal (g : Graph) (sv dv n : Nat) (k : Kind) (inputs : List (Nat × List Val)) (x : List Val)
    (prev S' : St) (hwf : g.wfVars sv dv n = true) (hx : inputs.lookup dv = some x)
    (hrun : runFrom g prev ⟨.post, k, inputs⟩ = some S') :
    readNode S' sv n = (List.range n).map (fun j => x.getD j 0) := by
  unfold Graph.wfVars at hwf
  cases hes : g.entries with
  | nil => simp [hes] at hwf
  | cons e rest =>
    cases e with
    | m2m s d => simp [hes] at hwf
    | r2s cs ct vs sd => simp [hes] at hwf
    | copy s d =>
      simp only [hes, Bool.and_eq_true, beq_iff_eq, bne_iff_ne, ne_eq, decide_eq_true_eq, List.all_eq_true,
        Bool.not_eq_eq_eq_not, Bool.not_true] at hwf
      obtain ⟨⟨⟨⟨hs, hd⟩, hne⟩, hn⟩, hrest⟩ := hwf
      subst hs hd
      simp only [runFrom, hes, runPost_cons] at hrun
      cases hB : runPost k rest (loadInto (clean prev) g.size inputs) with
      | none => simp [hB] at hrun
      | some S1 =>
        simp only [hB, Option.bind_some, postEntry, Option.some.injEq] at hrun
        subst hrun
        unfold readNode
        apply List.map_congr_left
        intro j hj
        have hj' : j < n := List.mem_range.mp hj
        have h1 := copyRange_spec S1 dv 0 sv 0 n (fun h => hne h.symm) j hj'
        simp only [Nat.zero_add] at h1
        rw [h1]
        have h2 : S1 (dv, j) = loadInto (clean prev) g.size inputs (dv, j) := by
          apply runPost_frame k rest _ S1 (dv, j) _ hB
          intro e he
          have := (hrest e he).1.2
          exact srcNodes_not_postWrites e dv j this
        rw [h2, loadInto_of_lookup _ _ _ _ _ hx]
        simp only [resized]
        rw [if_pos (by omega)]

/-- **Exactly one value per original variable**: the vector handed back to the modelling system is the WHOLE source variable node
    (`readNode S' sv (g.size sv)`, what `RunPostsolve` returns), it has exactly `n` entries and entry `j` is the solver's `x[j]`. -/
theorem C04_primal_exact (g : Graph) (sv dv n : Nat) (k : Kind) (inputs : List (Nat × List Val)) (x : List Val)
    (prev S' : St) (hwf : g.wfVarsExact sv dv n = true) (hx : inputs.lookup dv = some x)
    (hrun : runFrom g prev ⟨.post, k, inputs⟩ = some S') :
    readNode S' sv (g.size sv) = (List.range n).map (fun j => x.getD j 0) ∧ (readNode S' sv (g.size sv)).length = n := by
  simp only [Graph.wfVarsExact, Bool.and_eq_true, beq_iff_eq] at hwf
  have h := C04_primal g sv dv n k inputs x prev S' hwf.1 hx hrun
  rw [hwf.2]
  exact ⟨h, by simp [readNode]⟩

/-- the same vector written as "take `n` of the zero-padded solver vector" -/
theorem C04_primal_take (x : List Val) (n : Nat) :
    (List.range n).map (fun j => x.getD j 0) = (x ++ List.replicate n 0).take n := by
  apply List.ext_getElem
  · simp
  · intro i h1 h2
    simp only [List.getElem_map, List.getElem_range, List.getElem_take]
    by_cases hi : i < x.length
    · simp [List.getD_eq_getElem?_getD, List.getElem_append_left hi, hi]
    · have : i - x.length < n := by simp at h1; omega
      simp [List.getD_eq_getElem?_getD, List.getElem_append_right (Nat.le_of_not_lt hi), hi]

/-- Postsolve can only raise for the IIS kind (unknown slack status); all other transfers always return. -/
theorem C04_post_total (g : Graph) (prev : St) (k : Kind) (hk : k ≠ .iis) (inputs : List (Nat × List Val)) :
    ∃ S', runFrom g prev ⟨.post, k, inputs⟩ = some S' := by
  simp only [runFrom]
  exact runPost_total k hk _ _

/-! ## Values sent to the solver land on the images of the original variables -/

/-- Presolve of ANY kind (warm start before clamping, basis, priorities, generic suffix): solver variable
    `j < n` receives exactly the value given for original variable `j` (zero if the given vector is shorter). -/
theorem C04_presolve_vars (g : Graph) (sv dv n : Nat) (k : Kind) (inputs : List (Nat × List Val)) (x : List Val)
    (prev S' : St) (hwf : g.wfVars sv dv n = true) (hsz : n ≤ g.size sv) (hx : inputs.lookup sv = some x)
    (hrun : runFrom g prev ⟨.pre, k, inputs⟩ = some S') :
    readNode S' dv n = (List.range n).map (fun j => x.getD j 0) := by
  unfold Graph.wfVars at hwf
  cases hes : g.entries with
  | nil => simp [hes] at hwf
  | cons e rest =>
    cases e with
    | m2m s d => simp [hes] at hwf
    | r2s cs ct vs sd => simp [hes] at hwf
    | copy s d =>
      simp only [hes, Bool.and_eq_true, beq_iff_eq, bne_iff_ne, ne_eq, decide_eq_true_eq, List.all_eq_true,
        Bool.not_eq_eq_eq_not, Bool.not_true] at hwf
      obtain ⟨⟨⟨⟨hs, hd⟩, hne⟩, hn⟩, hrest⟩ := hwf
      subst hs hd
      simp only [runFrom, hes, runPre_cons, Option.some.injEq] at hrun
      subst hrun
      unfold readNode
      apply List.map_congr_left
      intro j hj
      have hj' : j < n := List.mem_range.mp hj
      rw [runPre_frame k rest _ (dv, j)]
      · simp only [preEntry]
        have h1 := copyRange_spec (loadInto (clean prev) g.size inputs) sv 0 dv 0 n hne j hj'
        simp only [Nat.zero_add] at h1
        rw [h1, loadInto_of_lookup _ _ _ _ _ hx]
        simp only [resized]
        rw [if_pos (by omega)]
      · intro e he
        have := (hrest e he).2 j hj
        simpa using this

/-- `ValuePresolver::PresolveSolution` then moves the warm start into the variable bounds -/
theorem C04_warmstart_clamped (lbs ubs : List (Option Val)) (x : List Val) (j : Nat) (hj : j < x.length) :
    (clampVec lbs ubs x).getD j 0 = clampVal (lbs.getD j none) (ubs.getD j none) (x.getD j 0) := by
  simp [clampVec, List.getD_eq_getElem?_getD, hj]

/-! ## Duals, basis statuses, IIS flags, presolve images: the per-graph certificate is sound

`tracePost` / `tracePre` (Trace.lean) are run by the check on the REAL link graph of every conversion, for every
original variable and constraint, and must return the origin the property demands (solver row `r` for a
linear constraint delivered as row `r`; `rev (slack)` for the basis status of a range constraint converted to
equality-plus-slack; …).  The theorems below say that such a certificate determines the transferred value
for EVERY solver answer (all vector lengths) and EVERY history. -/

theorem loaded_zero (prev : St) (sizes : Nat → Nat) (inputs : List (Nat × List Val)) (zero : Cell → Bool)
    (hz : ∀ c, zero c = true → inputs.lookup c.1 = none) :
    ∀ c, zero c = true → loadInto (clean prev) sizes inputs c = 0 := by
  intro c hc
  rw [loadInto_of_not_lookup _ _ _ _ (hz c hc)]
  rfl

/-- Postsolve: if the certificate for cell `c` is `o`, then after ANY postsolve call of kind `k` that returns,
    `c` holds `o` evaluated on the loaded solver vectors. -/
theorem C04_postsolve_origin (g : Graph) (k : Kind) (inputs : List (Nat × List Val)) (prev S' : St)
    (zero : Cell → Bool) (hz : ∀ c, zero c = true → inputs.lookup c.1 = none) (c : Cell) (o : Origin)
    (ht : tracePost k zero g.entries c = some o)
    (hrun : runFrom g prev ⟨.post, k, inputs⟩ = some S') :
    S' c = o.eval (loadInto (clean prev) g.size inputs) :=
  tracePost_sound k zero _ (loaded_zero prev g.size inputs zero hz) g.entries c o S' ht hrun

/-- Presolve: the same for the values handed to the solver (`tracePre` takes the reversed entry list). -/
theorem C04_presolve_origin (g : Graph) (k : Kind) (inputs : List (Nat × List Val)) (prev S' : St)
    (zero : Cell → Bool) (hz : ∀ c, zero c = true → inputs.lookup c.1 = none) (c : Cell) (o : Origin)
    (ht : tracePre k zero g.entries.reverse c = some o)
    (hrun : runFrom g prev ⟨.pre, k, inputs⟩ = some S') :
    S' c = o.eval (loadInto (clean prev) g.size inputs) := by
  simp only [runFrom, Option.some.injEq] at hrun
  subst hrun
  have := tracePre_sound k zero _ (loaded_zero prev g.size inputs zero hz) g.entries.reverse c o ht
  simpa using this

/-- Dual value: a constraint whose certificate (kind `sol`) is solver row `r` of group node `dc` receives exactly
    `pi[r]` (zero if the solver's dual vector is shorter), also when the row is the equality of an
    equality-plus-slack pair (`r2sPostOrigin .sol` ignores the slack). -/
theorem C04_dual (g : Graph) (inputs : List (Nat × List Val)) (prev S' : St) (zero : Cell → Bool)
    (hz : ∀ c, zero c = true → inputs.lookup c.1 = none) (c : Cell) (dc r : Nat) (pi : List Val)
    (ht : tracePost .sol zero g.entries c = some (.init (dc, r)))
    (hpi : inputs.lookup dc = some pi) (hr : r < g.size dc)
    (hrun : runFrom g prev ⟨.post, .sol, inputs⟩ = some S') :
    S' c = pi.getD r 0 := by
  rw [C04_postsolve_origin g .sol inputs prev S' zero hz c _ ht hrun]
  simp [Origin.eval, loadInto_of_lookup _ _ _ _ _ hpi, resized, hr]

/-- Basis status with the slack mapping: certificate `rev (slack variable s)` ⇒ the range constraint receives the
    slack's status with low ↔ upp exchanged (the solver's status of the equality row is forgotten). -/
theorem C04_basis_slack (g : Graph) (inputs : List (Nat × List Val)) (prev S' : St) (zero : Cell → Bool)
    (hz : ∀ c, zero c = true → inputs.lookup c.1 = none) (c : Cell) (dv s : Nat) (varstt : List Val)
    (ht : tracePost .basis zero g.entries c = some (.rev (.init (dv, s))))
    (hv : inputs.lookup dv = some varstt) (hs : s < g.size dv)
    (hrun : runFrom g prev ⟨.post, .basis, inputs⟩ = some S') :
    S' c = revBasis (varstt.getD s 0) := by
  rw [C04_postsolve_origin g .basis inputs prev S' zero hz c _ ht hrun]
  simp [Origin.eval, loadInto_of_lookup _ _ _ _ _ hv, resized, hs]

/-- IIS flag with the slack mapping: slack low(1) ↦ upp(3), upp(3) ↦ low(1), fix(2) ↦ fix(2),
    slack not in the IIS (0) ↦ the flag of the equality row. -/
theorem C04_iis_slack (g : Graph) (inputs : List (Nat × List Val)) (prev S' : St) (zero : Cell → Bool)
    (hz : ∀ c, zero c = true → inputs.lookup c.1 = none) (c : Cell) (dv s dc r : Nat) (iv ic : List Val)
    (ht : tracePost .iis zero g.entries c = some (.iis (.init (dv, s)) (.init (dc, r))))
    (hv : inputs.lookup dv = some iv) (hs : s < g.size dv)
    (hc : inputs.lookup dc = some ic) (hr : r < g.size dc)
    (hrun : runFrom g prev ⟨.post, .iis, inputs⟩ = some S') :
    S' c = (if iv.getD s 0 = 1 then 3 else if iv.getD s 0 = 3 then 1 else if iv.getD s 0 = 2 then 2
            else if iv.getD s 0 = 0 then ic.getD r 0 else 0) := by
  rw [C04_postsolve_origin g .iis inputs prev S' zero hz c _ ht hrun]
  simp only [Origin.eval, loadInto_of_lookup _ _ _ _ _ hv, loadInto_of_lookup _ _ _ _ _ hc, resized, hs, hr, if_true, iisVal]
  generalize iv.getD s 0 = a
  generalize ic.getD r 0 = b
  by_cases h0 : a = 0
  · subst h0; simp
  · by_cases h1 : a = 1
    · subst h1; simp
    · by_cases h3 : a = 3
      · subst h3; simp
      · by_cases h2 : a = 2
        · subst h2; simp
        · simp [h0, h1, h2, h3]

/-- **H4 chain, plain form**: an original constraint linked by a copy entry to an intermediate constraint that a later copy
    entry links to solver row `row`; nobody else writes the two cells after them.  Then for every kind the certificate
    is the solver row itself: dual, basis status, IIS flag, generic suffix of the row, unchanged. -/
theorem C04_chain_copy_copy (k : Kind) (zero : Cell → Bool) (A M T : List Entry) (s1 d1 s2 d2 : Rng) (j1 j2 : Nat)
    (hj1 : j1 < d1.len) (hj2 : j2 < d2.len) (hn1 : s1.node ≠ d1.node) (hn2 : s2.node ≠ d2.node)
    (hmid : (d1.node, d1.beg + j1) = (s2.node, s2.beg + j2))
    (hA : ∀ e ∈ A, e.postWrites (s1.node, s1.beg + j1) = false)
    (hM : ∀ e ∈ M, e.postWrites (d1.node, d1.beg + j1) = false)
    (hT : ∀ e ∈ T, e.postWrites (d2.node, d2.beg + j2) = false) :
    tracePost k zero (A ++ .copy s1 d1 :: (M ++ .copy s2 d2 :: T)) (s1.node, s1.beg + j1)
      = some (.init (d2.node, d2.beg + j2)) := by
  rw [tracePost_skip k zero A _ _ hA, tracePost_copy_head k zero s1 d1 _ j1 hj1 hn1,
      tracePost_skip k zero M _ _ hM, hmid, tracePost_copy_head k zero s2 d2 _ j2 hj2 hn2,
      tracePost_none_written k zero T _ hT]

/-- **H4 chain, slack form**: original constraint —copy→ range constraint `cs` —Range2Slack→ (equality `ct`, slack `vs`),
    `ct` —copy→ solver row; nobody else writes `cs` after the Range2Slack entry, `ct` between it and the final copy,
    the row and the slack variable.  The certificate is the documented slack mapping `r2sPostOrigin`
    (dual: the row's; basis: reversed slack status; IIS: slack flag exchanged, else the row's). -/
theorem C04_chain_copy_slack_copy (k : Kind) (zero : Cell → Bool) (A M N T : List Entry) (s1 d1 s2 d2 : Rng) (j1 j2 : Nat)
    (cs ct vs : Cell) (sd : SlackData)
    (hj1 : j1 < d1.len) (hj2 : j2 < d2.len) (hn1 : s1.node ≠ d1.node) (hn2 : s2.node ≠ d2.node)
    (hcs : (d1.node, d1.beg + j1) = cs) (hct : ct = (s2.node, s2.beg + j2))
    (hzero : zero cs = true) (hdist : r2sDistinct cs ct vs = true)
    (hA : ∀ e ∈ A, e.postWrites (s1.node, s1.beg + j1) = false)
    (hM : ∀ e ∈ M, e.postWrites cs = false)
    (hfresh : ∀ e ∈ N ++ .copy s2 d2 :: T, e.postWrites cs = false)
    (hN : ∀ e ∈ N, e.postWrites ct = false)
    (hT : ∀ e ∈ T, e.postWrites (d2.node, d2.beg + j2) = false)
    (hvs : ∀ e ∈ N ++ .copy s2 d2 :: T, e.postWrites vs = false) :
    tracePost k zero (A ++ .copy s1 d1 :: (M ++ .r2s cs ct vs sd :: (N ++ .copy s2 d2 :: T))) (s1.node, s1.beg + j1)
      = some (r2sPostOrigin k (.init (d2.node, d2.beg + j2)) (.init vs)) := by
  rw [tracePost_skip k zero A _ _ hA, tracePost_copy_head k zero s1 d1 _ j1 hj1 hn1, hcs,
      tracePost_skip k zero M _ _ hM]
  have hw : (Entry.r2s cs ct vs sd).postWrites cs = true := by simp [Entry.postWrites]
  have hall : (N ++ .copy s2 d2 :: T).all (fun e' => !e'.postWrites cs) = true := by
    simp only [List.all_eq_true, Bool.not_eq_eq_eq_not, Bool.not_true]; exact hfresh
  simp only [tracePost, hw, if_true, hzero, hdist, hall, Bool.and_self]
  rw [tracePost_skip k zero N _ _ hN, hct, tracePost_copy_head k zero s2 d2 _ j2 hj2 hn2,
      tracePost_none_written k zero T _ hT, tracePost_none_written k zero _ vs hvs]

/-- **Presolve image, plain chain** (lists in REVERSED registration order, as `tracePre` takes them): the solver row reached
    through two copy entries receives, in every kind (warm-start dual, basis status, lazy flag, generic suffix), exactly the
    value given for the original constraint. -/
theorem C04_prechain_copy_copy (k : Kind) (zero : Cell → Bool) (A M T : List Entry) (s1 d1 s2 d2 : Rng) (j1 j2 : Nat)
    (hj1 : j1 < s1.len) (hj2 : j2 < s2.len) (hn1 : s1.node ≠ d1.node) (hn2 : s2.node ≠ d2.node)
    (hmid : (s2.node, s2.beg + j2) = (d1.node, d1.beg + j1))
    (hT : ∀ e ∈ T, e.preWrites (d2.node, d2.beg + j2) = false)
    (hM : ∀ e ∈ M, e.preWrites (d1.node, d1.beg + j1) = false)
    (hA : ∀ e ∈ A, e.preWrites (s1.node, s1.beg + j1) = false) :
    tracePre k zero (T ++ .copy s2 d2 :: (M ++ .copy s1 d1 :: A)) (d2.node, d2.beg + j2)
      = some (.init (s1.node, s1.beg + j1)) := by
  rw [tracePre_skip k zero T _ _ hT, tracePre_copy_head k zero s2 d2 _ j2 hj2 hn2, hmid,
      tracePre_skip k zero M _ _ hM, tracePre_copy_head k zero s1 d1 _ j1 hj1 hn1,
      tracePre_none_written k zero A _ hA]

/-- **Presolve image, slack chain**: the equality row `ct` of an equality-plus-slack pair receives the original constraint's
    value for warm-start duals, lazy flags and generic suffixes, and the status `equ` (5) for a basis; the slack variable
    receives the reversed basis status (`r2sPreSlackOrigin`). -/
theorem C04_prechain_slack (k : Kind) (zero : Cell → Bool) (A M N : List Entry) (s1 d1 : Rng) (j1 : Nat)
    (cs ct vs : Cell) (sd : SlackData) (c : Cell) (hc : c = ct ∨ c = vs)
    (hj1 : j1 < s1.len) (hn1 : s1.node ≠ d1.node) (hcs : cs = (d1.node, d1.beg + j1))
    (hzero : zero c = true) (hdist : r2sDistinct cs ct vs = true)
    (hN : ∀ e ∈ N, e.preWrites c = false)
    (hfresh : ∀ e ∈ M ++ .copy s1 d1 :: A, e.preWrites c = false)
    (hM : ∀ e ∈ M, e.preWrites cs = false)
    (hA : ∀ e ∈ A, e.preWrites (s1.node, s1.beg + j1) = false) :
    tracePre k zero (N ++ .r2s cs ct vs sd :: (M ++ .copy s1 d1 :: A)) c
      = (if c = ct then some (r2sPreTargetOrigin k (.init (s1.node, s1.beg + j1)))
         else r2sPreSlackOrigin k (.init (s1.node, s1.beg + j1))) := by
  rw [tracePre_skip k zero N _ _ hN]
  have hw : (Entry.r2s cs ct vs sd).preWrites c = true := by
    rcases hc with h | h <;> simp [Entry.preWrites, h]
  have hall : (M ++ .copy s1 d1 :: A).all (fun e' => !e'.preWrites c) = true := by
    simp only [List.all_eq_true, Bool.not_eq_eq_eq_not, Bool.not_true]; exact hfresh
  simp only [tracePre, hw, if_true, hzero, hdist, hall, Bool.and_self]
  rw [tracePre_skip k zero M _ _ hM, hcs, tracePre_copy_head k zero s1 d1 _ j1 hj1 hn1,
      tracePre_none_written k zero A _ hA]

/-- Warm start: the slack variable of a converted range constraint receives the lower slack of the constraint the
    entry carries, at the presolved point (then `clampVec` moves it into `[0, ub-lb]`).  Which constraint the REAL
    converter puts there is checked per run (`rangecon.used` vs `rangecon.own`): before /repo 0119379 it was an unrelated
    linear constraint for quadratic range constraints (finding C04-quadrange-slack-warmstart, fixed). -/
theorem C04_warmstart_slack_entry (S : St) (cs ct vs : Cell) (sd : SlackData) (hd : ct ≠ vs) (h0 : S vs = 0) :
    (preEntry .sol (.r2s cs ct vs sd) S) vs = lowerSlack (S.setNum ct (S cs)) vs.1 sd := by
  simp [preEntry, St.setNum_other _ _ (Ne.symm hd), h0]

/-! ## Items shared by several original items (a functional constraint used by several constraints, …)

The converter links EVERY user of a shared item to it by One2Many entries.  The decidable certificates
`m2mSourcesRev` (who writes the shared item in a presolve run) and `reachPost` (is the user linked to the shared item)
are evaluated on the real graph for every original constraint whose expression contains the shared expression. -/

/-- Presolve (suffixes such as `.funcpieces`, lazy flags, basis, warm-start duals): a solver item `t` that is fed (through
    copies) only by One2Many entries receives `foldl setNumVal 0` = the max among non-zero of the values given for ALL
    linked users, in any kind. -/
theorem C04_shared_presolve_max (g : Graph) (k : Kind) (inputs : List (Nat × List Val)) (prev S' : St)
    (zero : Cell → Bool) (hz : ∀ c, zero c = true → inputs.lookup c.1 = none) (t : Cell) (us : List Cell)
    (h : m2mSourcesRev zero g.entries.reverse t = some us) (hsrc : srcsUnwritten g.entries us = true)
    (hrun : runFrom g prev ⟨.pre, k, inputs⟩ = some S') :
    S' t = (us.map (fun u => loadInto (clean prev) g.size inputs u)).foldl setNumVal 0 := by
  simp only [runFrom, Option.some.injEq] at hrun
  subst hrun
  have hsrc' : ∀ u ∈ us, ∀ e ∈ g.entries.reverse, e.preWrites u = false := by
    intro u hu e he
    simp only [srcsUnwritten, List.all_eq_true, Bool.not_eq_eq_eq_not, Bool.not_true] at hsrc
    exact hsrc u hu e (List.mem_reverse.mp he)
  have := m2mSourcesRev_sound k zero (loadInto (clean prev) g.size inputs)
    (loaded_zero prev g.size inputs zero hz) g.entries.reverse t us h hsrc'
  rw [List.reverse_reverse] at this
  exact this

/-- `foldl setNumVal 0` is the max among the non-zero values: it dominates every non-zero contribution (and is then
    non-zero), and it is one of the contributions or 0. -/
theorem C04_shared_max_spec (vs : List Val) :
    (∀ v ∈ vs, v ≠ 0 → vs.foldl setNumVal 0 ≠ 0 ∧ v ≤ vs.foldl setNumVal 0) ∧
    (vs.foldl setNumVal 0 = 0 ∨ vs.foldl setNumVal 0 ∈ vs) :=
  ⟨fun v hv h => foldSet_mem vs 0 v hv h, foldSet_in vs 0⟩

/-- Postsolve (IIS flags, basis statuses, duals, generic suffixes).  Split the entry list at the first entry that writes the
    shared item `t` in a postsolve run: `A` (registered before, run after) and `B`.  If `B` gives `t` the origin `o`
    (certificate, e.g. the solver's general constraint `r`) and `A` links user `u` to `t` (`reachPost`), then a non-zero
    solver value reaches `u`: it ends non-zero and at least that value (max among non-zero) — for EVERY linked user. -/
theorem C04_shared_postsolve_reaches (g : Graph) (k : Kind) (inputs : List (Nat × List Val)) (prev S' : St)
    (zero : Cell → Bool) (hz : ∀ c, zero c = true → inputs.lookup c.1 = none) (u t : Cell) (o : Origin)
    (hA : reachPost (g.entries.takeWhile (fun e => !e.postWrites t)) u t = true)
    (hB : tracePost k zero (g.entries.dropWhile (fun e => !e.postWrites t)) t = some o)
    (hv : o.eval (loadInto (clean prev) g.size inputs) ≠ 0)
    (hrun : runFrom g prev ⟨.post, k, inputs⟩ = some S') :
    S' u ≠ 0 ∧ o.eval (loadInto (clean prev) g.size inputs) ≤ S' u := by
  simp only [runFrom] at hrun
  rw [← List.takeWhile_append_dropWhile (p := fun e => !e.postWrites t) (l := g.entries), runPost_append] at hrun
  cases hB1 : runPost k (g.entries.dropWhile (fun e => !e.postWrites t)) (loadInto (clean prev) g.size inputs) with
  | none => simp [hB1] at hrun
  | some S1 =>
    simp only [hB1, Option.bind_some] at hrun
    have ht1 := tracePost_sound k zero _ (loaded_zero prev g.size inputs zero hz) _ t o S1 hB hB1
    have hnw : ∀ e ∈ g.entries.takeWhile (fun e => !e.postWrites t), e.postWrites t = false := by
      intro e he
      have := mem_takeWhile_true _ _ e he
      simpa using this
    have := reachPost_sound k S1 _ u t S' hA hnw hrun (by rw [ht1]; exact hv)
    rw [ht1] at this
    exact this

/-- two users of one shared item: nodes 0 src_cons (2 constraints), 1 _sin (1 functional constraint), 2 dest_cons(6) -/
def sharedGraph : Graph :=
  { entries := [.m2m ⟨0, 0, 1⟩ ⟨1, 0, 1⟩, .m2m ⟨0, 1, 1⟩ ⟨1, 0, 1⟩, .copy ⟨1, 0, 1⟩ ⟨2, 0, 1⟩], sizes := [2, 1, 1] }

example : m2mSourcesRev (fun c => c.1 ≠ 0) sharedGraph.entries.reverse (2, 0) = some [(0, 0), (0, 1)] := by decide
example : reachPost (sharedGraph.entries.takeWhile (fun e => !e.postWrites (1, 0))) (0, 1) (1, 0) = true := by decide
example : tracePost .iis (fun c => c.1 ≠ 2) (sharedGraph.entries.dropWhile (fun e => !e.postWrites (1, 0))) (1, 0) = some (.init (2, 0)) := by decide
example : (runFrom sharedGraph ⟨fun _ => 0⟩ ⟨.pre, .generic, [(0, [5, 9])]⟩).map (fun S => readNode S 2 1) = some [9] := by decide
example : (runFrom sharedGraph ⟨fun _ => 0⟩ ⟨.post, .iis, [(2, [4])]⟩).map (fun S => readNode S 0 2) = some [4, 4] := by decide
/-! That EVERY user of a shared item is linked to it is a property of the converter, validated per run (certificates `sources` /
    `reach` + oracle).  It FAILS on the unchanged tree for AMPL defined variables (`ProblemFlattener::VisitCommonExpr`, known finding
    C04-common-expr-reuse-not-linked): the graph then has the shape below, and the model shows what is lost. -/

/-- second user's link missing: `.funcpieces` 5/9 arrives as 5, and the IIS flag of the shared constraint does not reach the second user -/
theorem C04_counterexample_shared_link_missing :
    let g : Graph := { sharedGraph with entries := [.m2m ⟨0, 0, 1⟩ ⟨1, 0, 1⟩, .copy ⟨1, 0, 1⟩ ⟨2, 0, 1⟩] }
    (runFrom g ⟨fun _ => 0⟩ ⟨.pre, .generic, [(0, [5, 9])]⟩).map (fun S => readNode S 2 1) = some [5] ∧
    (runFrom g ⟨fun _ => 0⟩ ⟨.post, .iis, [(2, [4])]⟩).map (fun S => readNode S 0 2) = some [4, 0] := by
  decide

/-- the same model converted with the second user's link missing (seeded change C04-4): the value 9 and the IIS flag are lost -/
example : (runFrom { sharedGraph with entries := [.m2m ⟨0, 0, 1⟩ ⟨1, 0, 1⟩, .copy ⟨1, 0, 1⟩ ⟨2, 0, 1⟩] } ⟨fun _ => 0⟩
    ⟨.pre, .generic, [(0, [5, 9])]⟩).map (fun S => readNode S 2 1) = some [5] := by decide

/-! ### The full-strength IIS statement is false on the code as it exists

    theorem C04_iis_total : ∀ g prev inputs, ∃ S', runFrom g prev ⟨.post, .iis, inputs⟩ = some S'

`RangeCon2Slack::PostsolveIISEntry` raises ("Unknown IIS status for a range constraint slack") when the
solver reports a status other than non/low/fix/upp for a range-slack variable; then NO item receives an IIS
flag.  `C04_post_total` is the proved partial statement (all kinds except IIS); `C04_iis_returns_partial`
the IIS part under the hypothesis; the counterexample is replayed against the real code by the check. -/

/-- the graph of `lb <= body <= ub` converted to `body + s = ub`: nodes 0 src_vars, 1 src_cons, 2 _linrange,
    3 _lineq, 4 dest_vars, 5 dest_cons(3) -/
def exampleGraph : Graph :=
  { entries := [.copy ⟨0, 0, 2⟩ ⟨4, 0, 2⟩, .copy ⟨1, 0, 1⟩ ⟨2, 0, 1⟩,
                .r2s (2, 0) (3, 0) (4, 2) ⟨[(1, 0), (1, 1)], [], 1⟩, .copy ⟨3, 0, 1⟩ ⟨5, 0, 1⟩],
    sizes := [2, 1, 1, 1, 3, 1] }

theorem C04_counterexample_iis_unknown_slack_status :
    runFrom exampleGraph ⟨fun _ => 0⟩ ⟨.post, .iis, [(4, [0, 0, 4]), (5, [1])]⟩ = none := by
  decide

/-- IIS postsolve returns whenever every loaded value is one of non/low/fix/upp … stated for the entry: -/
theorem C04_iis_returns_partial (S : St) (cs ct vs : Cell) (sd : SlackData)
    (h : S vs = 0 ∨ S vs = 1 ∨ S vs = 2 ∨ S vs = 3) : ∃ S', postEntry .iis (.r2s cs ct vs sd) S = some S' := by
  simp only [postEntry, iisVal]
  rcases h with h | h | h | h <;> simp [h]

/-! ### Non-vacuity: the hypotheses hold and the certificates compute on the example graph -/

/-- non-trivial instance of the hypotheses of `C04_primal_exact` (graph of a converted range constraint, a solver vector that is
    too SHORT and one that is too LONG, dirty nodes before the call) -/
example : exampleGraph.wfVarsExact 0 4 2 = true ∧
    (runFrom exampleGraph ⟨fun _ => 7⟩ ⟨.post, .sol, [(4, [9]), (5, [1])]⟩).map (fun S => readNode S 0 (exampleGraph.size 0)) = some [9, 0] ∧
    (runFrom exampleGraph ⟨fun _ => 7⟩ ⟨.post, .sol, [(4, [9, 8, 6, 5, 4])]⟩).map (fun S => readNode S 0 (exampleGraph.size 0)) = some [9, 8] := by
  decide



example : exampleGraph.inBounds = true := by decide
example : exampleGraph.wfVars 0 4 2 = true := by decide
example : tracePost .sol (fun c => c.1 < 4) exampleGraph.entries (1, 0) = some (.init (5, 0)) := by decide
example : tracePost .basis (fun c => c.1 < 4) exampleGraph.entries (1, 0) = some (.rev (.init (4, 2))) := by decide
example : tracePost .iis (fun c => c.1 < 4) exampleGraph.entries (1, 0) = some (.iis (.init (4, 2)) (.init (5, 0))) := by decide
example : tracePre .basis (fun c => 2 ≤ c.1) exampleGraph.entries.reverse (4, 2) = some (.rev (.init (1, 0))) := by decide
example : tracePre .basis (fun c => 2 ≤ c.1) exampleGraph.entries.reverse (5, 0) = some (.const 5) := by decide
example : tracePre .sol (fun c => 2 ≤ c.1) exampleGraph.entries.reverse (5, 0) = some (.init (1, 0)) := by decide
example : (runFrom exampleGraph ⟨fun _ => 7⟩ ⟨.post, .basis, [(4, [1, 3, 4]), (5, [5])]⟩).map
    (fun S => (readNode S 0 2, readNode S 1 1)) = some ([1, 3], [3]) := by decide

/-! ## Ties to the source: definitions REGENERATED from the current tree (`translators/gen_valcvt.py` → `MpVerif/Gen/ValCvt.lean`)

Every run of the check regenerates `Gen.ValCvt` from include/mp/valcvt*.h and include/mp/flat/redef/std/range_con.h; the theorems below
say that the hand model's functions ARE the generated ones, so all theorems of this file speak about the code as it is now, and a change
of one of these functions breaks a proof obligation (not only a sampled comparison). -/

open MpVerif.Gen in
/-- `ValueNode::SetNum` (both instantiations, `vector<int>` and `vector<double>`) is the model's `setNumVal`; in particular the
    int and the double rule are the same function, which is why one exact-rational state models both arrays. -/
theorem C04_gen_setNum (cur v : Val) : setNumVal cur v = ValCvt.setNumInt cur v ∧ setNumVal cur v = ValCvt.setNumDbl cur v := by
  constructor <;> rfl

open MpVerif.Gen in
/-- `RangeCon2Slack::ReverseBasisLowUpp` is the model's `revBasis`. -/
theorem C04_gen_revBasis (v : Val) : revBasis v = ValCvt.reverseBasisLowUpp v := by
  unfold revBasis ValCvt.reverseBasisLowUpp
  by_cases h3 : v = 3
  · subst h3; simp
  · by_cases h4 : v = 4
    · subst h4; simp
    · have h3' : ¬ (3 : Val) = v := fun h => h3 h.symm
      have h4' : ¬ (4 : Val) = v := fun h => h4 h.symm
      simp [h3, h4, h3', h4']

open MpVerif.Gen in
/-- the `switch` of `RangeCon2Slack::PostsolveIISEntry` (labels, assignments, raising default) is the model's `iisVal`. -/
theorem C04_gen_iisVal (slk tgt : Val) :
    iisVal slk tgt = if slk ≠ 0 then switchTable ValCvt.iisCases slk else some tgt := by
  unfold iisVal switchTable ValCvt.iisCases
  by_cases h0 : slk = 0
  · simp [h0]
  · simp only [ne_eq, h0, not_false_eq_true, if_true]
    by_cases h1 : slk = 1
    · subst h1; simp [List.find?]
    · by_cases h3 : slk = 3
      · subst h3; simp [List.find?]
      · by_cases h2 : slk = 2
        · subst h2; simp [List.find?]
        · have e1 : ¬ (1 : Val) = slk := fun h => h1 h.symm
          have e3 : ¬ (3 : Val) = slk := fun h => h3 h.symm
          have e2 : ¬ (2 : Val) = slk := fun h => h2 h.symm
          simp [List.find?, h1, h2, h3, e1, e2, e3]

namespace GenTie
open MpVerif.Gen
/-- the generated program of `RangeCon2Slack::Presolve<kind>Entry` -/
def genPre : Kind → List R2SStmt
  | .generic => ValCvt.presolveGenericDblEntry
  | .sol => ValCvt.presolveSolutionEntry
  | .basis => ValCvt.presolveBasisEntry
  | .iis => ValCvt.presolveIISEntry
  | .lazy => ValCvt.presolveLazyUserCutFlagsEntry
/-- … and of `Postsolve<kind>Entry` (the IIS method has control flow and is `execR2SIIS`) -/
def genPost : Kind → List R2SStmt
  | .generic => ValCvt.postsolveGenericDblEntry
  | .sol => ValCvt.postsolveSolutionEntry
  | .basis => ValCvt.postsolveBasisEntry
  | .iis => []
  | .lazy => ValCvt.postsolveLazyUserCutFlagsEntry
end GenTie

open MpVerif.Gen in
/-- the `GenericInt` and `GenericDbl` entry methods are the same programs (the model has one `generic` kind) -/
theorem C04_gen_generic_int_eq_dbl :
    ValCvt.presolveGenericIntEntry = ValCvt.presolveGenericDblEntry ∧
    ValCvt.postsolveGenericIntEntry = ValCvt.postsolveGenericDblEntry := by decide

open MpVerif.Gen in
/-- **Presolve of a `RangeCon2Slack` entry, every kind**: the model's `preEntry` equals the generated method body. -/
theorem C04_gen_r2s_presolve (k : Kind) (cs ct vs : Cell) (sd : SlackData) (S : St) :
    preEntry k (.r2s cs ct vs sd) S = execR2S ValCvt.reverseBasisLowUpp ⟨cs, ct, vs, sd⟩ (GenTie.genPre k) S [] := by
  cases k <;>
    simp [preEntry, GenTie.genPre, ValCvt.presolveGenericDblEntry, ValCvt.presolveSolutionEntry, ValCvt.presolveBasisEntry,
      ValCvt.presolveIISEntry, ValCvt.presolveLazyUserCutFlagsEntry, execR2S, evalR2S, R2SCells.cell, ← C04_gen_revBasis]

open MpVerif.Gen in
/-- **Postsolve of a `RangeCon2Slack` entry, every kind** (IIS: the generated if/switch/else). -/
theorem C04_gen_r2s_postsolve (k : Kind) (cs ct vs : Cell) (sd : SlackData) (S : St) :
    postEntry k (.r2s cs ct vs sd) S =
      (if k = .iis then execR2SIIS ValCvt.iisCases ValCvt.postsolveIISEntry ⟨cs, ct, vs, sd⟩ S
       else some (execR2S ValCvt.reverseBasisLowUpp ⟨cs, ct, vs, sd⟩ (GenTie.genPost k) S [])) := by
  cases k
  · simp [postEntry, GenTie.genPost, ValCvt.postsolveGenericDblEntry, execR2S, evalR2S, R2SCells.cell]
  · simp [postEntry, GenTie.genPost, ValCvt.postsolveSolutionEntry, execR2S, evalR2S, R2SCells.cell]
  · simp [postEntry, GenTie.genPost, ValCvt.postsolveBasisEntry, execR2S, evalR2S, R2SCells.cell, ← C04_gen_revBasis]
  · simp only [postEntry, if_true, execR2SIIS, ValCvt.postsolveIISEntry, R2SCells.cell, C04_gen_iisVal]
    by_cases h0 : S vs = 0 <;> simp [h0]
  · simp [postEntry, GenTie.genPost, ValCvt.postsolveLazyUserCutFlagsEntry, execR2S]

open MpVerif.Gen in
/-- `ValueNode::Add(n)`: the range handed out lies inside the new declared size, which only grows (backs `Graph.inBounds`). -/
theorem C04_gen_nodeAdd_inBounds (sz n : Int) (hsz : 0 ≤ sz) (hn : 0 < n) :
    let r := ValCvt.nodeAdd sz n
    r.1.1 = sz ∧ r.1.2 = sz + n ∧ 0 ≤ r.1.1 ∧ r.1.1 < r.1.2 ∧ r.1.2 ≤ r.2 ∧ sz ≤ r.2 := by
  have : ¬ (sz + n < 0) := by omega
  simp only [ValCvt.nodeAdd, ValCvt.indexRangeCtor, this, if_false]
  refine ⟨trivial, trivial, ?_, ?_, ?_, ?_⟩ <;> omega

open MpVerif.Gen in
/-- `ValueNode::Select(pos, n)` with `pos ≥ 0` or `pos = -k` (k-th from the end, `k ≤ sz`): the range lies inside the new size,
    which is `max sz (pos+n)`. -/
theorem C04_gen_nodeSelect_inBounds (sz pos n : Int) (hsz : 0 ≤ sz) (hn : 0 < n) (hpos : -sz ≤ pos) :
    let r := ValCvt.nodeSelect sz pos n
    0 ≤ r.1.1 ∧ r.1.1 < r.1.2 ∧ r.1.2 = r.1.1 + n ∧ r.1.2 ≤ r.2 ∧ sz ≤ r.2 ∧ (r.2 = sz ∨ r.2 = r.1.2) := by
  simp only [ValCvt.nodeSelect, ValCvt.indexRangeCtor]
  by_cases hp : pos < 0
  · have h1 : ¬ (sz + pos + n < 0) := by omega
    simp only [hp, if_true, h1, if_false]
    by_cases h2 : sz < sz + pos + n <;> simp only [h2, if_true, if_false] <;>
      refine ⟨?_, ?_, trivial, ?_, ?_, ?_⟩ <;> first | omega | simp
  · have h1 : ¬ (pos + n < 0) := by omega
    simp only [hp, if_false, h1]
    by_cases h2 : sz < pos + n <;> simp only [h2, if_true, if_false] <;>
      refine ⟨?_, ?_, trivial, ?_, ?_, ?_⟩ <;> first | omega | simp


/-! ## `mip:round`: the only documented modification of the returned values (source-tied to `StdBackend::DoRound`) -/

theorem absVal_eq_zero (z : Val) (h : absVal z = 0) : z = 0 := by
  unfold absVal at h
  split at h
  · grind
  · exact h

theorem map_getD_range (x : List Val) : (List.range x.length).map (fun j => x.getD j 0) = x := by
  apply List.ext_getElem
  · simp
  · intro i h1 h2
    simp [List.getD_eq_getElem?_getD, h2]

open MpVerif.Gen in
/-- `const bool fAssign = round() & 1;` is the model's `roundAssign` (bit 1 of the option; `round() && 1` would be `r ≠ 0`) -/
theorem C04_gen_doRound_assign (r : Int) : ValCvt.doRoundAssign r ↔ roundAssign r = true := by
  simp [ValCvt.doRoundAssign, roundAssign]

open MpVerif.Gen in
/-- the loop body of `DoRound` (round, test the deviation, assign only `if (fAssign)`) is the model's `roundElem` -/
theorem C04_gen_doRound_elem (fAssign isInt : Bool) (x : Val) : ValCvt.doRoundElem fAssign isInt x = roundElem fAssign isInt x := by
  unfold ValCvt.doRoundElem roundElem
  cases isInt <;> cases fAssign <;> simp
  intro h
  have := absVal_eq_zero _ h.symm
  grind

open MpVerif.Gen in
/-- the whole option table `mip:round` = 0..7: values are assigned exactly for the odd options, the message is extended exactly for
    options ≥ 4 and says "rounded" (not "would be rounded") exactly for the odd ones; rounding is attempted only for a non-zero option on a
    MIP, inside `if (IsProblemSolvedOrFeasible())`, on `sol.primal`, over `min(fInt.size(), sol.size())` entries -/
theorem C04_gen_round_option_table :
    (¬ ValCvt.doRoundAssign 0) ∧ ValCvt.doRoundAssign 1 ∧ (¬ ValCvt.doRoundAssign 2) ∧ ValCvt.doRoundAssign 3 ∧
    (¬ ValCvt.doRoundAssign 4) ∧ ValCvt.doRoundAssign 5 ∧ (¬ ValCvt.doRoundAssign 6) ∧ ValCvt.doRoundAssign 7 ∧
    (¬ ValCvt.roundMsgFlag 0) ∧ (¬ ValCvt.roundMsgFlag 1) ∧ (¬ ValCvt.roundMsgFlag 2) ∧ (¬ ValCvt.roundMsgFlag 3) ∧
    ValCvt.roundMsgFlag 4 ∧ ValCvt.roundMsgFlag 5 ∧ ValCvt.roundMsgFlag 6 ∧ ValCvt.roundMsgFlag 7 ∧
    (¬ ValCvt.roundMsgReally 4) ∧ ValCvt.roundMsgReally 5 ∧ (¬ ValCvt.roundMsgReally 6) ∧ ValCvt.roundMsgReally 7 ∧
    (∀ r isMIP, ValCvt.roundGuard r isMIP ↔ (r ≠ 0 ∧ isMIP = true)) ∧
    ValCvt.roundCallSite = ("IsProblemSolvedOrFeasible", "primal") ∧ ValCvt.doRoundBound = "min(fInt.size,sol.size)" := by
  unfold ValCvt.doRoundAssign ValCvt.roundMsgFlag ValCvt.roundMsgReally
  refine ⟨by decide, by decide, by decide, by decide, by decide, by decide, by decide, by decide, by decide, by decide, by decide, by decide,
    by decide, by decide, by decide, by decide, by decide, by decide, by decide, by decide, ?_, by decide, by decide⟩
  intro r isMIP
  rfl

/-- **Report-only options keep every value**: for every even `mip:round` (0, 2, 4, 6, …) the vector written for the original variables is
    exactly the postsolved solver vector. -/
theorem C04_round_report_only_keeps_values (r : Int) (hr : r % 2 = 0) (isMIP solved : Bool) (isInt : List Bool) (x : List Val) :
    roundStep r isMIP solved isInt x = x := by
  unfold roundStep
  split
  · have hA : roundAssign r = false := by simp [roundAssign, hr]
    have : (fun j => if j < isInt.length then roundElem (roundAssign r) (isInt.getD j false) (x.getD j 0) else x.getD j 0)
        = (fun j => x.getD j 0) := by
      funext j
      simp [hA, roundElem]
    rw [this]
    exact map_getD_range x
  · rfl

/-- **With bit 1 set** (odd option, MIP, solved/feasible) exactly the integer variables are rounded (`std::round`), every other variable keeps
    the solver's value; the vector never changes its length. -/
theorem C04_round_rounds_only_integers (r : Int) (hr : r % 2 = 1) (isInt : List Bool) (x : List Val) (j : Nat) (hj : j < x.length) :
    (roundStep r true true isInt x).length = x.length ∧
    (roundStep r true true isInt x).getD j 0 =
      (if j < isInt.length ∧ isInt.getD j false = true then roundHalfAway (x.getD j 0) else x.getD j 0) := by
  have hr0 : r ≠ 0 := by intro h; rw [h] at hr; simp at hr
  have hA : roundAssign r = true := by simp [roundAssign, hr]
  unfold roundStep
  simp only [hr0, ne_eq, not_false_eq_true, and_self, if_true]
  refine ⟨by simp, ?_⟩
  simp only [List.getD_eq_getElem?_getD, List.getElem?_map, List.getElem?_range hj, Option.map_some, Option.getD_some, hA, roundElem]
  by_cases h1 : j < isInt.length
  · by_cases h2 : (isInt[j]?.getD false) = true <;> simp [h1, h2]
  · simp [h1]

theorem C04_round_length (r : Int) (isMIP solved : Bool) (isInt : List Bool) (x : List Val) :
    (roundStep r isMIP solved isInt x).length = x.length := by
  unfold roundStep
  split <;> simp

/-- **End to end**: with a report-only option the values written for the original variables are exactly the solver's values (all lengths). -/
theorem C04_primal_written_report_only (g : Graph) (sv dv n : Nat) (inputs : List (Nat × List Val)) (x : List Val) (prev S' : St)
    (r : Int) (hr : r % 2 = 0) (isMIP solved : Bool) (isInt : List Bool)
    (hwf : g.wfVarsExact sv dv n = true) (hx : inputs.lookup dv = some x)
    (hrun : runFrom g prev ⟨.post, .sol, inputs⟩ = some S') :
    roundStep r isMIP solved isInt (readNode S' sv (g.size sv)) = (List.range n).map (fun j => x.getD j 0) := by
  rw [C04_round_report_only_keeps_values r hr]
  exact (C04_primal_exact g sv dv n .sol inputs x prev S' hwf hx hrun).1

/-! ### structure ties: what exists in the source is what the model covers -/

open MpVerif.Gen in
/-- the value kinds (`LIST_PRESOLVE_METHODS`): the five numeric kinds of the model (+`GenericInt` = `generic`) and `Names` (C19) -/
theorem C04_gen_kinds : ValCvt.presolveKinds = ["GenericDbl", "GenericInt", "Solution", "Basis", "IIS", "LazyUserCutFlags", "Names"] := by decide

open MpVerif.Gen in
/-- the link classes: `copy` = CopyLink; `m2m` = Many2ManyLink and its two subclasses (which inherit every pre/postsolve method) -/
theorem C04_gen_link_classes : ValCvt.linkClasses =
    [("CopyLink", "BasicLink"), ("Many2ManyLink", "BasicLink"), ("One2ManyLink", "Many2ManyLink"), ("Many2OneLink", "Many2ManyLink")] := by decide

open MpVerif.Gen in
/-- every kind of `CopyLink` presolves by `CopySrcDest` and postsolves by `CopyDestSrc`; every kind of `Many2ManyLink` by
    `DistributeFromSrc2Dest` / `CollectFromDest2Src` — the model's `copy` / `m2m` entries ignore the kind for exactly this reason -/
theorem C04_gen_link_methods_uniform :
    ValCvt.linkMethodHelper = (["CopyLink", "Many2ManyLink"].flatMap fun c =>
      (["Postsolve", "Presolve"].flatMap fun d =>
        (["Basis", "GenericDbl", "GenericInt", "IIS", "LazyUserCutFlags", "Names", "Solution"].map fun k =>
          (c, d ++ k, if c = "CopyLink" then (if d = "Presolve" then "CopySrcDest" else "CopyDestSrc")
                      else (if d = "Presolve" then "DistributeFromSrc2Dest" else "CollectFromDest2Src"))))) := by decide

open MpVerif.Gen in
/-- presolve helpers run the entries of a range forwards and copy/distribute `first → second`; postsolve helpers run backwards and
    copy `second → first` / collect into `first` (`copyRange … s→d` / `d→s`, `distrAll` / `collectAll`, `runPost` on the reversed list) -/
theorem C04_gen_helper_shape : ValCvt.helperShape =
    [("CollectFromDest2Src", "bwd", "Collect", ["first", "second"]), ("CopyDestSrc", "bwd", "Copy", ["second", "first"]),
     ("CopySrcDest", "fwd", "Copy", ["first", "second"]), ("DistributeFromSrc2Dest", "fwd", "Distr", ["first", "second"])] ∧
    ValCvt.m2mWrites = [("Collect", "nr1"), ("Distr", "nr2")] := by decide

open MpVerif.Gen in
/-- `RunPresolve` / `RunPostsolve`: clean ALL nodes, load the argument, run the link ranges forwards / backwards, return the other side
    (= `runFrom`: `loadInto (clean prev)`, `runPre` / `runPost`) -/
theorem C04_gen_run_skeleton :
    ValCvt.runPresolveSkeleton = ["call:CleanUpValueNodes", "assign:src_:=mv", "loop:fwd:brl_", "return:dest_"] ∧
    ValCvt.runPostsolveSkeleton = ["call:CleanUpValueNodes", "assign:dest_:=mv", "loop:bwd:brl_", "return:src_"] := by decide

open MpVerif.Gen in
/-- `RangeCon2Slack` defines exactly one `Presolve<K>Entry` and one `Postsolve<K>Entry` per kind -/
theorem C04_gen_r2s_methods : ValCvt.r2sEntryMethods =
    ["PostsolveBasisEntry", "PostsolveGenericDblEntry", "PostsolveGenericIntEntry", "PostsolveIISEntry", "PostsolveLazyUserCutFlagsEntry",
     "PostsolveNamesEntry", "PostsolveSolutionEntry", "PresolveBasisEntry", "PresolveGenericDblEntry", "PresolveGenericIntEntry",
     "PresolveIISEntry", "PresolveLazyUserCutFlagsEntry", "PresolveNamesEntry", "PresolveSolutionEntry"] := by decide

/-! ### The control structure as a generated PROGRAMME (round 7): semantic tie instead of the string comparisons above

`ValCvt.runTables` is regenerated from `ValuePresolverImpl::RunPresolve / RunPostsolve`, the 28 methods of `CopyLink` / `Many2ManyLink`
with the range helpers they call, `Distr` / `Collect` (written parameter) and the macro-generated loops of `BasicIndivEntryLink`.
`execRun` (RunLang.lean) interprets it on link RANGES (`brl_` as it is: a list of (link, entries of its index range)); the theorem says
that this is `runFromReg` on the flattened entry list — for every range list, sizes, memory and call. -/

theorem foldl_congr_mem {α β : Type} (f g : β → α → β) (l : List α) (S : β) (h : ∀ e ∈ l, ∀ S, f S e = g S e) :
    l.foldl f S = l.foldl g S := by
  induction l generalizing S with
  | nil => rfl
  | cons a l ih =>
    simp only [List.foldl_cons]
    rw [h a (by simp)]
    exact ih _ (fun e he => h e (by simp [he]))

theorem runEntriesPost_of_total (k : Kind) (f : St → Entry → St) (l : List Entry) (S : St)
    (h : ∀ e ∈ l, ∀ S, postEntry k e S = some (f S e)) : runEntriesPost k l S = some (l.foldl f S) := by
  induction l generalizing S with
  | nil => rfl
  | cons a l ih =>
    simp only [runEntriesPost, List.foldl_cons]
    rw [h a (by simp)]
    exact ih _ (fun e he => h e (by simp [he]))

open MpVerif.Gen in
theorem C04_gen_link_progs_copy (d : Dir) (k : Kind) : lookupProg ValCvt.runTables .copyLink (methodName d k) =
    some (match d with | .pre => ⟨.fwd, .copy, .first, .second⟩ | .post => ⟨.bwd, .copy, .second, .first⟩) := by
  cases d <;> cases k <;> decide

open MpVerif.Gen in
theorem C04_gen_link_progs_m2m (d : Dir) (k : Kind) : lookupProg ValCvt.runTables .m2mLink (methodName d k) =
    some (match d with | .pre => ⟨.fwd, .distr, .first, .second⟩ | .post => ⟨.bwd, .collect, .first, .second⟩) := by
  cases d <;> cases k <;> decide

open MpVerif.Gen in
theorem C04_gen_indiv_loops (d : Dir) (k : Kind) : lookupIndiv ValCvt.runTables (methodName d k) =
    some (match d with | .pre => .fwd | .post => .bwd, methodName d k ++ "Entry") := by
  cases d <;> cases k <;> decide

theorem LRange.wf_mem {r : LRange} (h : r.wf = true) {e : Entry} (he : e ∈ r.entries) : e.cls = r.cls := by
  simp only [LRange.wf, List.all_eq_true, beq_iff_eq] at h
  exact h e he

open MpVerif.Gen in
theorem execRange_pre (k : Kind) (r : LRange) (hwf : r.wf = true) (S : St) :
    execRange ValCvt.runTables (methodName .pre k) .pre k r S = some (r.entries.foldl (fun S e => preEntry k e S) S) := by
  unfold execRange
  cases hc : r.cls with
  | r2sLink => simp only [C04_gen_indiv_loops, if_true, orderBy]
  | copyLink =>
    simp only [C04_gen_link_progs_copy, orderBy, Option.some.injEq]
    apply foldl_congr_mem
    intro e he S
    have := LRange.wf_mem hwf he
    rw [hc] at this
    cases e with
    | copy s d => rfl
    | m2m s d => cases this
    | r2s a b c d => cases this
  | m2mLink =>
    simp only [C04_gen_link_progs_m2m, orderBy, Option.some.injEq]
    apply foldl_congr_mem
    intro e he S
    have := LRange.wf_mem hwf he
    rw [hc] at this
    cases e with
    | copy s d => cases this
    | m2m s d => rfl
    | r2s a b c d => cases this

open MpVerif.Gen in
theorem execRange_post (k : Kind) (r : LRange) (hwf : r.wf = true) (S : St) :
    execRange ValCvt.runTables (methodName .post k) .post k r S = runEntriesPost k r.entries.reverse S := by
  unfold execRange
  cases hc : r.cls with
  | r2sLink => simp only [C04_gen_indiv_loops, if_true, orderBy]
  | copyLink =>
    simp only [C04_gen_link_progs_copy, orderBy]
    symm
    apply runEntriesPost_of_total
    intro e he S
    have := LRange.wf_mem hwf (List.mem_reverse.mp he)
    rw [hc] at this
    cases e with
    | copy s d => rfl
    | m2m s d => cases this
    | r2s a b c d => cases this
  | m2mLink =>
    simp only [C04_gen_link_progs_m2m, orderBy]
    symm
    apply runEntriesPost_of_total
    intro e he S
    have := LRange.wf_mem hwf (List.mem_reverse.mp he)
    rw [hc] at this
    cases e with
    | copy s d => cases this
    | m2m s d => rfl
    | r2s a b c d => cases this

open MpVerif.Gen in
theorem execRanges_pre (k : Kind) (rs : List LRange) (hwf : ∀ r ∈ rs, r.wf = true) (S : St) :
    execRanges ValCvt.runTables (methodName .pre k) .pre k rs S = some ((rs.map (·.entries)).flatten.foldl (fun S e => preEntry k e S) S) := by
  induction rs generalizing S with
  | nil => rfl
  | cons r rs ih =>
    simp only [execRanges, execRange_pre k r (hwf r (by simp)), Option.bind_some, List.map_cons, List.flatten_cons, List.foldl_append]
    exact ih (fun r' hr' => hwf r' (by simp [hr'])) _

open MpVerif.Gen in
theorem execRanges_post (k : Kind) (rs : List LRange) (hwf : ∀ r ∈ rs, r.wf = true) (S : St) :
    execRanges ValCvt.runTables (methodName .post k) .post k rs S = runEntriesPost k (rs.map (fun r => r.entries.reverse)).flatten S := by
  induction rs generalizing S with
  | nil => rfl
  | cons r rs ih =>
    simp only [execRanges, execRange_post k r (hwf r (by simp)), List.map_cons, List.flatten_cons, runEntriesPost_append]
    congr 1
    funext S'
    exact ih (fun r' hr' => hwf r' (by simp [hr'])) _

open MpVerif.Gen in
/-- every public method `<dir><kind>(mv)` of `ValuePresolverImpl` calls the run function of ITS direction and passes the pointer of the
    `BasicLink` method of the SAME name (direction and kind) -/
theorem C04_gen_entry_points (d : Dir) (k : Kind) : lookupEntry ValCvt.runTables (methodName d k) =
    some (match d with | .pre => "RunPresolve" | .post => "RunPostsolve", methodName d k) := by
  cases d <;> cases k <;> decide

open MpVerif.Gen in
theorem C04_gen_run_progs : runProg ValCvt.runTables "RunPresolve" = some ValCvt.runTables.runPre ∧
    runProg ValCvt.runTables "RunPostsolve" = some ValCvt.runTables.runPost := by
  constructor <;> decide

open MpVerif.Gen in
/-- **The translated control structure IS the model's run**: interpreting the programmes generated from `RunPresolve` / `RunPostsolve`,
    the `CopyLink` / `Many2ManyLink` methods and helpers, `Distr` / `Collect` and `BasicIndivEntryLink`'s loops on any list of link ranges
    (each range holding entries of its link's class) gives exactly `runFromReg` on the flattened entry list: clean the registered nodes
    first, load, presolve ranges and entries forwards `first → second` / postsolve ranges and entries backwards `second → first`
    (`Collect` writing `first`), for every kind, memory and argument. -/
theorem C04_gen_run_is_runFromReg (sizes : List Nat) (ranges : List LRange) (hwf : ∀ r ∈ ranges, r.wf = true) (prev : St) (c : Call) :
    execRun ValCvt.runTables sizes ranges prev c = runFromReg ⟨(ranges.map (·.entries)).flatten, sizes⟩ prev c := by
  unfold execRun runFromReg
  cases hd : c.dir with
  | pre =>
    simp only [C04_gen_entry_points, C04_gen_run_progs]
    show execStmts ValCvt.runTables _ ranges (methodName .pre c.kind) c [.cleanNodes, .load .src, .loopRanges .fwd, .ret .dest] prev = _
    simp only [execStmts, hd, Dir.inSide, Dir.outSide, if_true, orderBy, execRanges_pre c.kind ranges hwf, Option.bind_some, runPre]
  | post =>
    simp only [C04_gen_entry_points, C04_gen_run_progs]
    show execStmts ValCvt.runTables _ ranges (methodName .post c.kind) c [.cleanNodes, .load .dest, .loopRanges .bwd, .ret .src] prev = _
    simp only [execStmts, hd, Dir.inSide, Dir.outSide, if_true, orderBy,
      execRanges_post c.kind ranges.reverse (fun r hr => hwf r (List.mem_reverse.mp hr)), runPost]
    have hfl : (ranges.reverse.map (fun r => r.entries.reverse)).flatten = ((ranges.map (·.entries)).flatten).reverse := by
      rw [List.reverse_flatten, List.map_reverse, List.map_map]
      rfl
    rw [hfl]
    cases runEntriesPost c.kind ((ranges.map (·.entries)).flatten).reverse
        (loadInto (cleanReg ⟨(ranges.map (·.entries)).flatten, sizes⟩ prev) (Graph.size ⟨(ranges.map (·.entries)).flatten, sizes⟩) c.inputs) <;> rfl

open MpVerif.Gen in
/-- the `GenericInt` methods use the same programmes as the `GenericDbl` ones (the model has one `generic` kind) -/
theorem C04_gen_run_generic_int_same :
    (∀ d, lookupProg ValCvt.runTables .copyLink (dirName d ++ "GenericInt") = lookupProg ValCvt.runTables .copyLink (methodName d .generic)) ∧
    (∀ d, lookupProg ValCvt.runTables .m2mLink (dirName d ++ "GenericInt") = lookupProg ValCvt.runTables .m2mLink (methodName d .generic)) ∧
    (∀ d, (lookupIndiv ValCvt.runTables (dirName d ++ "GenericInt")).map (·.1) = (lookupIndiv ValCvt.runTables (methodName d .generic)).map (·.1)) ∧
    (∀ d, lookupEntry ValCvt.runTables (dirName d ++ "GenericInt") =
      some (match d with | .pre => "RunPresolve" | .post => "RunPostsolve", dirName d ++ "GenericInt")) := by
  refine ⟨fun d => ?_, fun d => ?_, fun d => ?_, fun d => ?_⟩ <;> cases d <;> decide

/-- non-vacuity: the example graph as three well-formed link ranges (CopyLink with two entries, RangeCon2Slack, CopyLink) -/
example : (let rs : List LRange := [⟨.copyLink, exampleGraph.entries.take 2⟩, ⟨.r2sLink, (exampleGraph.entries.drop 2).take 1⟩,
                                    ⟨.copyLink, exampleGraph.entries.drop 3⟩]
    (rs.all LRange.wf, (rs.map (·.entries)).flatten.length == exampleGraph.entries.length)) = (true, true) := by decide

/-! ### non-trivial instances of the hypotheses of the certificate / chain theorems -/

/-- `C04_basis_slack` applied: the range constraint of the example graph gets the reversed status of its slack (solver: slack `upp`=4) -/
example (S' : St) (h : runFrom exampleGraph ⟨fun _ => 9⟩ ⟨.post, .basis, [(4, [1, 3, 4]), (5, [5])]⟩ = some S') : S' (1, 0) = 3 := by
  have := C04_basis_slack exampleGraph [(4, [1, 3, 4]), (5, [5])] ⟨fun _ => 9⟩ S' (fun c => decide (c.1 < 4))
    (by intro c hc; have : c.1 < 4 := by simpa using hc
        have h4 : (c.1 == 4) = false := by simp; omega
        have h5 : (c.1 == 5) = false := by simp; omega
        simp [List.lookup, h4, h5]) (1, 0) 4 2 [1, 3, 4] (by decide) (by decide) (by decide) h
  simpa [revBasis] using this

/-- `C04_chain_copy_slack_copy` applied to the example graph (A = [variable copy], M = N = T = []) -/
example (k : Kind) : tracePost k (fun c => decide (c.1 < 4)) exampleGraph.entries (1, 0)
    = some (r2sPostOrigin k (.init (5, 0)) (.init (4, 2))) := by
  have := C04_chain_copy_slack_copy k (fun c => decide (c.1 < 4)) [.copy ⟨0, 0, 2⟩ ⟨4, 0, 2⟩] [] [] [] ⟨1, 0, 1⟩ ⟨2, 0, 1⟩ ⟨3, 0, 1⟩ ⟨5, 0, 1⟩ 0 0
    (2, 0) (3, 0) (4, 2) ⟨[(1, 0), (1, 1)], [], 1⟩ (by decide) (by decide) (by decide) (by decide) rfl rfl (by decide) (by decide)
    (by decide) (by decide) (by decide) (by decide) (by decide) (by decide)
  simpa [exampleGraph] using this

/-- `C04_shared_presolve_max` / `C04_shared_postsolve_reaches` applied to the shared graph: both users count -/
example (S' : St) (h : runFrom sharedGraph ⟨fun _ => 2⟩ ⟨.pre, .generic, [(0, [5, 9])]⟩ = some S') : S' (2, 0) = 9 := by
  have := C04_shared_presolve_max sharedGraph .generic [(0, [5, 9])] ⟨fun _ => 2⟩ S' (fun c => decide (c.1 ≠ 0))
    (by intro c hc; have : c.1 ≠ 0 := by simpa using hc
        have h0 : (c.1 == 0) = false := by simp [this]
        simp [List.lookup, h0]) (2, 0) [(0, 0), (0, 1)] (by decide) (by decide) h
  rw [this]; decide

/-! ## History independence -/

/-- On the IDEALISED machine (`runFrom`: `clean` zeroes all memory) the result trivially does not depend on earlier contents — this is
    true by construction and claims nothing about the code.  The RESULT about the faithful machine (`runFromReg`: only the REGISTERED
    nodes are cleaned) is `C04_history_independent_registered` / `C04_history_independent_session_registered` below. -/
theorem C04_history_independent_step (g : Graph) (prev prev' : St) (c : Call) :
    runFrom g prev c = runFrom g prev' c := rfl

/-- For every sequence of pre/postsolve calls of any kinds (including calls that raise) from any initial
    node contents, every call returns what it returns on a fresh presolver. -/
theorem C04_history_independent (g : Graph) (s0 : St) (cs : List Call) :
    session g s0 cs = cs.map (runFrom g ⟨fun _ => 0⟩) := by
  induction cs generalizing s0 with
  | nil => rfl
  | cons c cs ih =>
    simp only [session, List.map_cons]
    rw [ih]
    rfl

/-- The node contents after a call that RAISED are whatever the exception left behind: with ANY function `dirt` describing them,
    every later call still returns what it returns on a fresh presolver. -/
def sessionD (g : Graph) (dirt : St → Call → St) : St → List Call → List (Option St)
  | _, [] => []
  | prev, c :: cs =>
    let r := runFrom g prev c
    r :: sessionD g dirt (r.getD (dirt prev c)) cs

theorem C04_history_independent_any_dirt (g : Graph) (dirt : St → Call → St) (s0 : St) (cs : List Call) :
    sessionD g dirt s0 cs = cs.map (runFrom g ⟨fun _ => 0⟩) := by
  induction cs generalizing s0 with
  | nil => rfl
  | cons c cs ih =>
    simp only [sessionD, List.map_cons]
    rw [ih]
    rfl

/-- a history of five calls of different kinds and directions, one of them raising, from dirty nodes -/
example : (session exampleGraph ⟨fun _ => 3⟩
      [⟨.post, .iis, [(4, [0, 0, 4]), (5, [1])]⟩, ⟨.pre, .basis, [(0, [1, 3]), (1, [4])]⟩, ⟨.post, .sol, [(4, [1, 2, 3]), (5, [7])]⟩,
       ⟨.pre, .generic, [(0, [2, 2]), (1, [6])]⟩, ⟨.post, .basis, [(4, [1, 3, 4]), (5, [5])]⟩]).map (fun r => r.map (fun S => (readNode S 0 2, readNode S 1 1, readNode S 4 3, readNode S 5 1)))
    = [none, some ([1, 3], [4], [1, 3, 3], [5]), some ([1, 2], [7], [1, 2, 3], [7]), some ([2, 2], [6], [2, 2, 6], [6]), some ([1, 3], [3], [1, 3, 4], [5])] := by
  decide

/-- **IIS postsolve returns** when every range-slack variable is read-only in the run and carries one of the statuses
    non / low / fix / upp (the guard the real `switch` has; the error branch is `C04_counterexample_iis_unknown_slack_status`). -/
theorem C04_iis_total_partial (es : List Entry) (S : St)
    (h : ∀ e ∈ es, ∀ cs ct vs sd, e = .r2s cs ct vs sd →
      (∀ e' ∈ es, e'.postWrites vs = false) ∧ (S vs = 0 ∨ S vs = 1 ∨ S vs = 2 ∨ S vs = 3)) :
    ∃ S', runPost .iis es S = some S' := by
  induction es with
  | nil => exact ⟨S, rfl⟩
  | cons e B ih =>
    have hB : ∀ e' ∈ B, ∀ cs ct vs sd, e' = .r2s cs ct vs sd →
        (∀ e'' ∈ B, e''.postWrites vs = false) ∧ (S vs = 0 ∨ S vs = 1 ∨ S vs = 2 ∨ S vs = 3) := by
      intro e' he' cs ct vs sd heq
      have := h e' (List.mem_cons_of_mem _ he') cs ct vs sd heq
      exact ⟨fun e'' he'' => this.1 e'' (List.mem_cons_of_mem _ he''), this.2⟩
    obtain ⟨S1, h1⟩ := ih hB
    rw [runPost_cons, h1]
    simp only [Option.bind_some]
    cases e with
    | copy s d => exact ⟨_, rfl⟩
    | m2m s d => exact ⟨_, rfl⟩
    | r2s cs ct vs sd =>
      have hh := h _ (List.mem_cons_self ..) cs ct vs sd rfl
      have hfr : S1 vs = S vs :=
        runPost_frame .iis B S S1 vs (fun e' he' => hh.1 e' (List.mem_cons_of_mem _ he')) h1
      exact C04_iis_returns_partial S1 cs ct vs sd (by rw [hfr]; exact hh.2)

/-- instance: the example graph with slack status `upp` (3) -/
example : (runFrom exampleGraph ⟨fun _ => 0⟩ ⟨.post, .iis, [(4, [0, 0, 3]), (5, [2])]⟩).map (fun S => readNode S 1 1) = some [1] := by decide



/-! ## Node registration and clean-up, tied to the source (`gen_valcvt.py`: constructors / destructor / `Register` / `Deregister` /
`CleanUpValueNodes` / `CleanUpAndRealloc`) -/

open MpVerif.Gen in
/-- EVERY `ValueNode` constructor (plain, move, copy — an implicit or defaulted one makes the translator fail) puts the node into
    `val_nodes_`, and only the destructor takes it out. -/
theorem C04_gen_ctors_register (reg : List Nat) (id n : Nat) :
    (n ∈ execRegOps ValCvt.ctorPlain reg id ↔ n = id ∨ n ∈ reg) ∧
    (n ∈ execRegOps ValCvt.ctorMove reg id ↔ n = id ∨ n ∈ reg) ∧
    (n ∈ execRegOps ValCvt.ctorCopy reg id ↔ n = id ∨ n ∈ reg) ∧
    (n ∈ execRegOps ValCvt.dtor reg id ↔ n ∈ reg ∧ n ≠ id) := by
  have hins : n ∈ execRegOps [.insert] reg id ↔ n = id ∨ n ∈ reg := by
    simp only [execRegOps]
    by_cases h : id ∈ reg
    · simp only [h, if_true]
      constructor
      · exact Or.inr
      · rintro (h1 | h1)
        · rw [h1]; exact h
        · exact h1
    · simp [h]
  refine ⟨hins, hins, hins, ?_⟩
  simp [ValCvt.dtor, execRegOps]

/-- the registered set after the `k` constructor calls that create nodes `0 … k-1` (nodes live as long as the presolver) -/
def regAfter : Nat → List Nat
  | 0 => []
  | k + 1 => execRegOps MpVerif.Gen.ValCvt.ctorPlain (regAfter k) k

/-- … is exactly the model's `Graph.registered` (the indices of `Graph.sizes`) -/
theorem C04_gen_registered_is_ctor_set (g : Graph) (n : Nat) : g.registered n = true ↔ n ∈ regAfter g.sizes.length := by
  have h : ∀ k, n ∈ regAfter k ↔ n < k := by
    intro k
    induction k with
    | zero => simp [regAfter]
    | succ k ih =>
      simp only [regAfter]
      rw [(C04_gen_ctors_register (regAfter k) k n).1, ih]
      omega
  simp [Graph.registered, h]

open MpVerif.Gen in
/-- `CleanUpValueNodes` runs over `val_nodes_` and `CleanUpAndRealloc` leaves both numeric arrays all-zero with the declared length; every
    other node's memory is untouched — the model's `cleanReg`. -/
theorem C04_gen_cleanup_zeroes_registered (reg : List Nat) (size : Nat → Nat) (mem : Nat → NodeArrays) (n : Nat) :
    execClean ValCvt.cleanUpValueNodes reg size mem n =
      (if n ∈ reg then ⟨List.replicate (size n) 0, List.replicate (size n) 0⟩ else mem n) ∧
    ValCvt.cleanUpValueNodes.over = "val_nodes_" := by
  refine ⟨?_, by decide⟩
  unfold execClean
  by_cases h : n ∈ reg
  · simp [h, ValCvt.cleanUpValueNodes, execNodeOps, resizeList]
  · simp [h]

/-! ## History independence as a RESULT: `CleanUpValueNodes` zeroes only the registered nodes (`Registered.lean`)

`runFromReg` cleans exactly the registered value nodes (the indices of `Graph.sizes` = the `val_nodes_` dump of the real presolver) and
leaves every other cell as the previous calls left it.  That the result does not depend on those leftovers needs that every node a
link entry touches is registered — `Graph.nodesRegistered`, checked on every real graph (`wf2`, and by pointer in the recording driver).
(`C04_built_nodes_registered` states it for the hand-written Builder model, whose ops presuppose that the nodes exist: documentation of the
invariant, not evidence about the code.)  `runFrom` (used by the theorems above) is `runFromReg` on an all-zero memory. -/

/-- the nodes a call's result lives on: the registered ones and those named in the call's argument -/
def callNodes (g : Graph) (c : Call) (n : Nat) : Bool := g.registered n || (c.inputs.lookup n).isSome

theorem C04_runFrom_is_runFromReg_on_zero_memory (g : Graph) (prev : St) (c : Call) :
    runFrom g prev c = runFromReg g ⟨fun _ => 0⟩ c := by
  have : cleanReg g ⟨fun _ => 0⟩ = clean prev := by
    unfold cleanReg clean
    congr 1
    funext x
    simp
  simp only [runFrom, runFromReg, this]
  rfl

/-- **One transfer is independent of everything before it**: whatever the memory contained (`prev`, `prev'`: leftovers of ANY earlier
    calls, including raising ones), the two runs both raise or return states that agree on every registered node and every node named
    in the argument — provided every node a link entry touches is registered. -/
theorem C04_history_independent_registered (g : Graph) (hreg : g.nodesRegistered = true) (prev prev' : St) (c : Call) :
    OptAgree (callNodes g c) (runFromReg g prev c) (runFromReg g prev' c) := by
  have hes : ∀ e ∈ g.entries, e.nodes.all (callNodes g c) = true := by
    intro e he
    have h1 := (List.all_eq_true.mp hreg) e he
    rw [List.all_eq_true] at h1 ⊢
    intro n hn
    simp [callNodes, h1 n hn]
  have h0 : AgreeOn (callNodes g c) (loadInto (cleanReg g prev) g.size c.inputs) (loadInto (cleanReg g prev') g.size c.inputs) := by
    intro x hx
    simp only [loadInto]
    cases hl : c.inputs.lookup x.1 with
    | some v => rfl
    | none =>
      simp only [callNodes, hl, Option.isSome_none, Bool.or_false] at hx
      simp [cleanReg, hx]
  unfold runFromReg
  cases c.dir with
  | pre => exact agree_runPre c.kind g.entries hes _ _ h0
  | post => exact agree_runPost c.kind g.entries hes _ _ h0

/-- … hence every theorem stated for `runFrom` holds for the faithful `runFromReg` from ANY memory, on the nodes that matter. -/
theorem C04_runFromReg_agrees_with_fresh (g : Graph) (hreg : g.nodesRegistered = true) (prev : St) (c : Call) :
    OptAgree (callNodes g c) (runFromReg g prev c) (runFrom g prev c) := by
  rw [C04_runFrom_is_runFromReg_on_zero_memory]
  exact C04_history_independent_registered g hreg prev _ c

/-- a whole session on the faithful machine; `dirt` = what a raising call leaves behind -/
def sessionReg (g : Graph) (dirt : St → Call → St) : St → List Call → List (Option St)
  | _, [] => []
  | prev, c :: cs =>
    let r := runFromReg g prev c
    r :: sessionReg g dirt (r.getD (dirt prev c)) cs

/-- every result of a session agrees with the corresponding call on a fresh presolver -/
def SessionAgree (g : Graph) : List (Option St) → List Call → Prop
  | [], [] => True
  | r :: rs, c :: cs => OptAgree (callNodes g c) r (runFrom g ⟨fun _ => 0⟩ c) ∧ SessionAgree g rs cs
  | _, _ => False

/-- **Every call of every history** returns what it returns on a fresh presolver (on the nodes that matter). -/
theorem C04_history_independent_session_registered (g : Graph) (hreg : g.nodesRegistered = true) (dirt : St → Call → St)
    (s0 : St) (cs : List Call) : SessionAgree g (sessionReg g dirt s0 cs) cs := by
  induction cs generalizing s0 with
  | nil => trivial
  | cons c cs ih =>
    simp only [sessionReg, SessionAgree]
    exact ⟨C04_runFromReg_agrees_with_fresh g hreg s0 c, ih _⟩

/-- the hypothesis is necessary: an entry on an UNREGISTERED node (here node 7 of a graph with 2 registered nodes) makes the result
    depend on what earlier calls left there -/
theorem C04_counterexample_unregistered_node_keeps_history :
    let g : Graph := ⟨[.copy ⟨7, 0, 1⟩ ⟨1, 0, 1⟩], [1, 1]⟩
    g.nodesRegistered = false ∧
    (runFromReg g ⟨fun _ => 5⟩ ⟨.pre, .generic, []⟩).map (fun S => readNode S 1 1) = some [5] ∧
    (runFromReg g ⟨fun _ => 0⟩ ⟨.pre, .generic, []⟩).map (fun S => readNode S 1 1) = some [0] := by
  decide

example : exampleGraph.nodesRegistered = true ∧ sharedGraph.nodesRegistered = true := by decide

/-! ## The graph as the constructors build it (`Builder.lean`): registration, bounds and certificates are established, not assumed -/

/-- For EVERY sequence of constructor calls (`ValueNode` ctor, `Add`, `ConvertVars`, `~AutoLinkScope`, `ConvertRange`,
    `AddAllUnbridged` — with the `is_bridged_` discipline of `ConstraintKeeper`): every node an entry touches is registered and every
    range lies inside the declared node size. -/
theorem C04_built_nodes_registered (isDest : Nat → Bool) (ops : List BOp) (st : BState)
    (h : build isDest ops ⟨[], [], []⟩ = some st) :
    st.graph.nodesRegistered = true ∧ ∀ e ∈ st.entries, e.inside st.sizes := by
  have hI := Inv.build ops (Inv.empty isDest) h
  refine ⟨?_, hI.inside⟩
  simp only [Graph.nodesRegistered, BState.graph, List.all_eq_true, Graph.registered, decide_eq_true_eq]
  exact hI.registered

/-- … and a postsolve trace certificate EXISTS for every cell whose history does not pass through a Many2Many-family entry (for those,
    max-among-non-zero applies: `C04_shared_postsolve_reaches`): in particular for every original variable and every constraint converted
    by 1:1 steps and `RangeCon2Slack`.  Existence of SOME origin only; which one: `C04_built_deliver_origin`. -/
theorem C04_built_certificates_exist (isDest : Nat → Bool) (ops : List BOp) (st : BState)
    (h : build isDest ops ⟨[], [], []⟩ = some st) (k : Kind) (c : Cell) (hm : hitsM2M st.entries c = false) :
    ∃ o, tracePost k (fun c => !isDest c.1) st.entries c = some o :=
  tracePost_exists k _ st.entries c (Inv.build ops (Inv.empty isDest) h).wf hm

/-- … and for the items the converters hand to the solver the certificate is not just some origin but THE slot: when
    `AddAllUnbridged` delivers item `c` to target node `dn` (declared size `slot` at that moment), then after every continuation of the
    construction the postsolve origin of `c` — for every value kind — is solver item `(dn, slot)`. -/
theorem C04_built_deliver_origin (isDest : Nat → Bool) (ops0 ops1 : List BOp) (st0 st1 st2 : BState) (c : Cell) (dn : Nat) (k : Kind)
    (h0 : build isDest ops0 ⟨[], [], []⟩ = some st0) (h1 : st0.apply isDest (.deliver c dn) = some st1)
    (h2 : build isDest ops1 st1 = some st2) :
    tracePost k (fun c => !isDest c.1) st2.entries c = some (.init (dn, st0.size dn)) :=
  deliver_origin isDest ops0 ops1 st0 st1 st2 c dn k h0 h1 h2

open MpVerif.Gen in
/-- the Builder's `newItem` sizes a node exactly as the translated `ValueNode::Add` does -/
theorem C04_gen_builder_newItem_is_nodeAdd (isDest : Nat → Bool) (st : BState) (node n : Nat) (hn : node < st.sizes.length) :
    ∃ sizes', BOp.effect isDest st (.newItem node n) = some (sizes', [], []) ∧
      ((sizes'.getD node 0 : Nat) : Int) = (ValCvt.nodeAdd (st.size node) n).2 := by
  refine ⟨growTo st.sizes node (st.size node + n), by simp [BOp.effect, hn], ?_⟩
  rw [growTo_getD]
  simp only [hn, and_self, if_true, ValCvt.nodeAdd, BState.size]
  have : max (st.sizes.getD node 0) (st.sizes.getD node 0 + n) = st.sizes.getD node 0 + n := by omega
  rw [this]; simp

/-- the example graph is what the constructors build for `lb ≤ x0 + x1 ≤ ub` with the range type not accepted -/
example : (build (fun n => n == 4 || n == 5)
      [.newNode, .newNode, .newNode, .newNode, .newNode, .newNode, .copyVars 0 4 2, .newItem 1 1, .autoLink (1, 0) [⟨2, 0, 1⟩],
       .range2slack (2, 0) 3 4 ⟨[(1, 0), (1, 1)], [], 1⟩, .deliver (3, 0) 5] ⟨[], [], []⟩).map (fun st => (st.entries.length, st.sizes))
    = some (4, [2, 1, 1, 1, 3, 1]) := by decide

example : traceWF (fun c => decide (c.1 < 4)) exampleGraph.entries = true ∧ hitsM2M exampleGraph.entries (1, 0) = false := by decide

/-! ## Frame: nothing is invented -/

/-- A cell no entry writes in a postsolve run keeps the loaded value (zero for non-terminal nodes). -/
theorem C04_post_frame (k : Kind) (es : List Entry) (S S' : St) (c : Cell)
    (hw : ∀ e ∈ es, e.postWrites c = false) (h : runPost k es S = some S') : S' c = S c :=
  runPost_frame k es S S' c hw h

theorem C04_pre_frame (k : Kind) (es : List Entry) (S : St) (c : Cell)
    (hw : ∀ e ∈ es, e.preWrites c = false) : runPre k es S c = S c :=
  runPre_frame k es S c hw

end MpVerif.C04

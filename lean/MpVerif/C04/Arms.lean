import MpVerif.C04.Model
/-!
# C04 — which arms of the model does the correspondence stream exercise?  (instrumentation only; no theorem uses this file)

`armsOfCall` steps through a run with the model's own `preEntry` / `postEntry` for the state and records, before each entry,
which `match`/`if` arm of the model the entry takes on the current state (entry kind × direction × value kind, `setNumVal`
arms inside Many2Many-family entries and `RangeCon2Slack`, `iisVal` / `revBasis` arms, `resized` arms of the load, `clampVal` arms).
-/
namespace MpVerif.C04

abbrev Counts := List (String × Nat)

def Counts.bump (c : Counts) (k : String) : Counts :=
  match c with
  | [] => [(k, 1)]
  | (k', n) :: rest => if k' = k then (k', n + 1) :: rest else (k', n) :: Counts.bump rest k

def kindName : Kind → String
  | .generic => "generic" | .sol => "sol" | .basis => "basis" | .iis => "iis" | .lazy => "lazy"

/-- arm of `setNumVal cur v` -/
def snArm (cur v : Val) : String :=
  if cur = 0 then (if v = 0 then "setNum:cur0:v0" else "setNum:cur0:assign")
  else if cur < v ∧ v ≠ 0 then "setNum:replace-larger"
  else if v = 0 then "setNum:keep:v0" else "setNum:keep:not-larger"

def revArm (v : Val) : String := if v = 3 then "revBasis:low->upp" else if v = 4 then "revBasis:upp->low" else "revBasis:other"

def iisArm (slk : Val) : String :=
  if slk = 0 then "iisVal:slack0->row" else if slk = 1 then "iisVal:low->upp" else if slk = 3 then "iisVal:upp->low"
  else if slk = 2 then "iisVal:fix" else "iisVal:raise"

/-- arms of a Many2Many-family entry: the loops of `distrAll` (presolve) / `collectAll` (postsolve) with a local state -/
def m2mArms (pre : Bool) (s d : Rng) (S : St) (c : Counts) : Counts :=
  let step := fun (acc : St × Counts) (w r : Cell) =>
    let v := acc.1 r
    (acc.1.setNum w v, acc.2.bump (snArm (acc.1 w) v))
  let res :=
    if pre then
      (List.range s.len).foldl (fun acc a => (List.range d.len).foldl (fun acc b => step acc (d.node, d.beg + b) (s.node, s.beg + a)) acc) (S, c)
    else
      (List.range s.len).foldl (fun acc a => (List.range d.len).foldl (fun acc b => step acc (s.node, s.beg + a) (d.node, d.beg + b)) acc) (S, c)
  let c := res.2
  let c := if s.len > 1 then c.bump "m2m:many-sources" else c
  if d.len > 1 then c.bump "m2m:many-targets" else c

def r2sArms (pre : Bool) (k : Kind) (cs ct vs : Cell) (sd : SlackData) (S : St) (c : Counts) : Counts :=
  if pre then
    match k with
    | .generic => (c.bump (snArm (S ct) (S cs))).bump (snArm (S vs) (S cs))
    | .sol => ((c.bump (snArm (S ct) (S cs))).bump (snArm (S vs) (lowerSlack (S.setNum ct (S cs)) vs.1 sd))).bump
                (if sd.quad.isEmpty then "lowerSlack:linear" else "lowerSlack:quadratic")
    | .basis => ((c.bump (revArm (S cs))).bump (snArm (S vs) (revBasis (S cs)))).bump (snArm (S ct) 5)
    | .iis => c.bump "r2s:pre:iis:noop"
    | .lazy => c.bump (snArm (S ct) (S cs))
  else
    match k with
    | .generic => (c.bump (snArm (S cs) (S ct))).bump (snArm ((S.setNum cs (S ct)) cs) (S vs))
    | .sol => c.bump (snArm (S cs) (S ct))
    | .basis => (c.bump (revArm (S vs))).bump (snArm (S cs) (revBasis (S vs)))
    | .iis => c.bump (iisArm (S vs))
    | .lazy => c.bump "r2s:post:lazy:noop"

def entryArms (pre : Bool) (k : Kind) (e : Entry) (S : St) (c : Counts) : Counts :=
  let tag := (if pre then "pre:" else "post:") ++ kindName k
  match e with
  | .copy s d =>
    let c := c.bump ("entry:copy:" ++ tag)
    if s.len > 1 then c.bump "copy:range" else c.bump "copy:single"
  | .m2m s d => m2mArms pre s d S (c.bump ("entry:m2m:" ++ tag))
  | .r2s cs ct vs sd => r2sArms pre k cs ct vs sd S (c.bump ("entry:r2s:" ++ tag))

def loadArms (g : Graph) (inputs : List (Nat × List Val)) (c : Counts) : Counts :=
  inputs.foldl (fun c inp =>
    let sz := g.size inp.1
    if inp.2.length < sz then c.bump "load:zero-filled" else if inp.2.length = sz then c.bump "load:exact" else c.bump "load:cut-off") c

def armsOfCall (g : Graph) (call : Call) (c : Counts) : Counts :=
  let S0 := loadInto (clean ⟨fun _ => 0⟩) g.size call.inputs
  let c := loadArms g call.inputs c
  match call.dir with
  | .pre =>
    (g.entries.foldl (fun (acc : St × Counts) e => (preEntry call.kind e acc.1, entryArms true call.kind e acc.1 acc.2)) (S0, c)).2
  | .post =>
    let r := g.entries.reverse.foldl (fun (acc : Option St × Counts) e =>
      match acc.1 with
      | none => acc
      | some S => (postEntry call.kind e S, entryArms false call.kind e S acc.2)) (some S0, c)
    match r.1 with
    | none => r.2.bump "run:post:raise"
    | some _ => r.2

def clampArm (lb ub : Option Val) (x : Val) : String :=
  match lb with
  | some l => if x < l then "clamp:below-lb" else
      (match ub with | some u => if u < x then "clamp:above-ub" else "clamp:inside" | none => "clamp:inside-no-ub")
  | none => (match ub with | some u => if u < x then "clamp:above-ub" else "clamp:inside-no-lb" | none => "clamp:free")

def clampArms (lbs ubs : List (Option Val)) (x : List Val) (c : Counts) : Counts :=
  (List.range x.length).foldl (fun c i => c.bump (clampArm (lbs.getD i none) (ubs.getD i none) (x.getD i 0))) c

end MpVerif.C04

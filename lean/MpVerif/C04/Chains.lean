import MpVerif.C04.Lemmas
import MpVerif.C04.Trace
/-! Soundness of the symbolic origin functions `tracePost` / `tracePre` (for every loaded state). -/
namespace MpVerif.C04

theorem postWrites_copy_decomp (s d : Rng) (c : Cell) (h : (Entry.copy s d).postWrites c = true) :
    c = (s.node, s.beg + (c.2 - s.beg)) ∧ c.2 - s.beg < d.len := by
  simp only [Entry.postWrites] at h
  rw [Rng.has_iff] at h
  obtain ⟨h1, h2, h3⟩ := h
  simp only at h2 h3
  constructor
  · have : s.beg + (c.2 - s.beg) = c.2 := by omega
    rw [this, ← h1]
  · omega

theorem preWrites_copy_decomp (s d : Rng) (c : Cell) (h : (Entry.copy s d).preWrites c = true) :
    c = (d.node, d.beg + (c.2 - d.beg)) ∧ c.2 - d.beg < s.len := by
  simp only [Entry.preWrites] at h
  rw [Rng.has_iff] at h
  obtain ⟨h1, h2, h3⟩ := h
  simp only at h2 h3
  constructor
  · have : d.beg + (c.2 - d.beg) = c.2 := by omega
    rw [this, ← h1]
  · omega

theorem r2sDistinct_ne {cs ct vs : Cell} (h : r2sDistinct cs ct vs = true) : cs ≠ ct ∧ cs ≠ vs ∧ ct ≠ vs := by
  simp only [r2sDistinct, Bool.and_eq_true, bne_iff_ne, ne_eq] at h
  obtain ⟨⟨h1, h2⟩, h3⟩ := h
  refine ⟨?_, ?_, ?_⟩
  · intro h; exact h1 (by rw [h])
  · intro h; exact h2 (by rw [h])
  · intro h; exact h3 (by rw [h])

/-- **Soundness of `tracePost`.** Whatever the solver-side vectors were (`S0` = any loaded state that is zero
    on the cells `zero` claims), if the postsolve run returns, cell `c` holds the value of the traced origin. -/
theorem tracePost_sound (k : Kind) (zero : Cell → Bool) (S0 : St) (hz : ∀ c, zero c = true → S0 c = 0)
    (es : List Entry) : ∀ (c : Cell) (o : Origin) (S' : St),
      tracePost k zero es c = some o → runPost k es S0 = some S' → S' c = o.eval S0 := by
  induction es with
  | nil =>
    intro c o S' ht hr
    simp only [tracePost, Option.some.injEq] at ht
    simp only [runPost_nil, Option.some.injEq] at hr
    subst ht hr
    rfl
  | cons e B ih =>
    intro c o S' ht hr
    rw [runPost_cons] at hr
    cases hB : runPost k B S0 with
    | none => simp [hB] at hr
    | some S1 =>
      simp only [hB, Option.bind_some] at hr
      cases e with
      | copy s d =>
        simp only [tracePost] at ht
        by_cases hw : (Entry.copy s d).postWrites c = true
        · simp only [hw, if_true] at ht
          by_cases hne : s.node ≠ d.node
          · simp only [hne, ne_eq, not_false_eq_true, if_true] at ht
            obtain ⟨hc, hj⟩ := postWrites_copy_decomp s d c hw
            simp only [postEntry, Option.some.injEq] at hr
            subst hr
            rw [hc, copyRange_spec S1 d.node d.beg s.node s.beg d.len (fun h => hne h.symm) _ hj]
            exact ih _ _ _ ht hB
          · simp [hne] at ht
        · have hw' : (Entry.copy s d).postWrites c = false := by simpa using hw
          simp only [hw', Bool.false_eq_true, if_false] at ht
          rw [postEntry_frame k _ S1 S' c hw' hr]
          exact ih _ _ _ ht hB
      | m2m s d =>
        simp only [tracePost] at ht
        by_cases hw : (Entry.m2m s d).postWrites c = true
        · simp [hw] at ht
        · have hw' : (Entry.m2m s d).postWrites c = false := by simpa using hw
          simp only [hw', Bool.false_eq_true, if_false] at ht
          rw [postEntry_frame k _ S1 S' c hw' hr]
          exact ih _ _ _ ht hB
      | r2s cs ct vs sd =>
        simp only [tracePost] at ht
        by_cases hw : (Entry.r2s cs ct vs sd).postWrites c = true
        · simp only [hw, if_true] at ht
          have hc : c = cs := by simpa [Entry.postWrites] using hw
          subst hc
          by_cases hcond : (zero c && r2sDistinct c ct vs && B.all (fun e' => !e'.postWrites c)) = true
          · simp only [hcond, if_true] at ht
            simp only [Bool.and_eq_true, List.all_eq_true, Bool.not_eq_eq_eq_not, Bool.not_true] at hcond
            obtain ⟨⟨hzero, hdist⟩, hnw⟩ := hcond
            obtain ⟨hne1, hne2, _⟩ := r2sDistinct_ne hdist
            have h0 : S1 c = 0 := by
              rw [runPost_frame k B S0 S1 c hnw hB]; exact hz c hzero
            cases hot : tracePost k zero B ct with
            | none => simp [hot] at ht
            | some ot =>
              cases hos : tracePost k zero B vs with
              | none => simp [hot, hos] at ht
              | some os =>
                simp only [hot, hos, Option.some.injEq] at ht
                subst ht
                have e1 := ih ct ot S1 hot hB
                have e2 := ih vs os S1 hos hB
                cases k with
                | generic =>
                  simp only [postEntry, Option.some.injEq] at hr
                  subst hr
                  simp [r2sPostOrigin, Origin.eval, St.setNum_other _ _ (Ne.symm hne2), h0, e1, e2]
                | sol =>
                  simp only [postEntry, Option.some.injEq] at hr
                  subst hr
                  simp [r2sPostOrigin, h0, e1]
                | basis =>
                  simp only [postEntry, Option.some.injEq] at hr
                  subst hr
                  simp [r2sPostOrigin, Origin.eval, h0, e2]
                | iis =>
                  simp only [postEntry, Option.map_eq_some_iff] at hr
                  obtain ⟨v, hv, hr⟩ := hr
                  subst hr
                  simp [r2sPostOrigin, Origin.eval, h0, ← e1, ← e2, hv]
                | lazy =>
                  simp only [postEntry, Option.some.injEq] at hr
                  subst hr
                  simp [r2sPostOrigin, Origin.eval, h0]
          · simp [hcond] at ht
        · have hw' : (Entry.r2s cs ct vs sd).postWrites c = false := by simpa using hw
          simp only [hw', Bool.false_eq_true, if_false] at ht
          rw [postEntry_frame k _ S1 S' c hw' hr]
          exact ih _ _ _ ht hB

/-- **Soundness of `tracePre`** (`L` = reversed registration order). -/
theorem tracePre_sound (k : Kind) (zero : Cell → Bool) (S0 : St) (hz : ∀ c, zero c = true → S0 c = 0)
    (L : List Entry) : ∀ (c : Cell) (o : Origin),
      tracePre k zero L c = some o → runPre k L.reverse S0 c = o.eval S0 := by
  induction L with
  | nil =>
    intro c o ht
    simp only [tracePre, Option.some.injEq] at ht
    subst ht
    rfl
  | cons e B ih =>
    intro c o ht
    rw [List.reverse_cons, runPre_snoc]
    cases e with
    | copy s d =>
      simp only [tracePre] at ht
      by_cases hw : (Entry.copy s d).preWrites c = true
      · simp only [hw, if_true] at ht
        by_cases hne : s.node ≠ d.node
        · simp only [hne, ne_eq, not_false_eq_true, if_true] at ht
          obtain ⟨hc, hj⟩ := preWrites_copy_decomp s d c hw
          simp only [preEntry]
          rw [hc, copyRange_spec _ s.node s.beg d.node d.beg s.len hne _ hj]
          exact ih _ _ ht
        · simp [hne] at ht
      · have hw' : (Entry.copy s d).preWrites c = false := by simpa using hw
        simp only [hw', Bool.false_eq_true, if_false] at ht
        rw [preEntry_frame k _ _ c hw']
        exact ih _ _ ht
    | m2m s d =>
      simp only [tracePre] at ht
      by_cases hw : (Entry.m2m s d).preWrites c = true
      · simp [hw] at ht
      · have hw' : (Entry.m2m s d).preWrites c = false := by simpa using hw
        simp only [hw', Bool.false_eq_true, if_false] at ht
        rw [preEntry_frame k _ _ c hw']
        exact ih _ _ ht
    | r2s cs ct vs sd =>
      simp only [tracePre] at ht
      by_cases hw : (Entry.r2s cs ct vs sd).preWrites c = true
      · simp only [hw, if_true] at ht
        by_cases hcond : (zero c && r2sDistinct cs ct vs && B.all (fun e' => !e'.preWrites c)) = true
        · simp only [hcond, if_true] at ht
          simp only [Bool.and_eq_true, List.all_eq_true, Bool.not_eq_eq_eq_not, Bool.not_true] at hcond
          obtain ⟨⟨hzero, hdist⟩, hnw⟩ := hcond
          obtain ⟨hne1, hne2, hne3⟩ := r2sDistinct_ne hdist
          have h0 : runPre k B.reverse S0 c = 0 := by
            rw [runPre_frame k B.reverse S0 c (fun e he => hnw e (List.mem_reverse.mp he))]; exact hz c hzero
          cases hocs : tracePre k zero B cs with
          | none => simp [hocs] at ht
          | some ocs =>
            simp only [hocs] at ht
            have e1 := ih cs ocs hocs
            have hcc : c = ct ∨ c = vs := by
              simpa [Entry.preWrites] using hw
            by_cases hct : c = ct
            · subst hct
              simp only [if_true, Option.some.injEq] at ht
              subst ht
              cases k <;>
                simp [preEntry, r2sPreTargetOrigin, Origin.eval, St.setNum_other _ _ hne3, h0, e1]
            · have hvs : c = vs := by
                cases hcc with
                | inl h => exact absurd h hct
                | inr h => exact h
              subst hvs
              simp only [hct, if_false] at ht
              cases k with
              | generic =>
                simp only [r2sPreSlackOrigin, Option.some.injEq] at ht
                subst ht
                simp [preEntry, St.setNum_other _ _ (Ne.symm hne3), h0, e1]
              | sol => simp [r2sPreSlackOrigin] at ht
              | basis =>
                simp only [r2sPreSlackOrigin, Option.some.injEq] at ht
                subst ht
                simp [preEntry, Origin.eval, St.setNum_other _ _ (Ne.symm hne3), h0, e1]
              | iis =>
                simp only [r2sPreSlackOrigin, Option.some.injEq] at ht
                subst ht
                simp [preEntry, Origin.eval, h0]
              | lazy =>
                simp only [r2sPreSlackOrigin, Option.some.injEq] at ht
                subst ht
                simp [preEntry, Origin.eval, St.setNum_other _ _ (Ne.symm hne3), h0]
        · simp [hcond] at ht
      · have hw' : (Entry.r2s cs ct vs sd).preWrites c = false := by simpa using hw
        simp only [hw', Bool.false_eq_true, if_false] at ht
        rw [preEntry_frame k _ _ c hw']
        exact ih _ _ ht

/-! ### certificates of explicit chains (H4 of the design) -/

theorem tracePost_skip (k : Kind) (zero : Cell → Bool) (A B : List Entry) (c : Cell)
    (h : ∀ e ∈ A, e.postWrites c = false) : tracePost k zero (A ++ B) c = tracePost k zero B c := by
  induction A with
  | nil => rfl
  | cons e A ih =>
    have he := h e (List.mem_cons_self ..)
    have ih' := ih (fun e' he' => h e' (List.mem_cons_of_mem _ he'))
    cases e <;> simp only [List.cons_append, tracePost, he, Bool.false_eq_true, if_false, ih']

theorem tracePost_none_written (k : Kind) (zero : Cell → Bool) (A : List Entry) (c : Cell)
    (h : ∀ e ∈ A, e.postWrites c = false) : tracePost k zero A c = some (.init c) := by
  have := tracePost_skip k zero A [] c h
  simpa [tracePost] using this

theorem tracePost_copy_head (k : Kind) (zero : Cell → Bool) (s d : Rng) (B : List Entry) (j : Nat)
    (hj : j < d.len) (hne : s.node ≠ d.node) :
    tracePost k zero (.copy s d :: B) (s.node, s.beg + j) = tracePost k zero B (d.node, d.beg + j) := by
  have hw : (Entry.copy s d).postWrites (s.node, s.beg + j) = true := by
    simp only [Entry.postWrites]; rw [Rng.has_iff]; simp; omega
  simp only [tracePost, hw, if_true, hne, ne_eq, not_false_eq_true]
  congr 2
  simp

theorem tracePre_skip (k : Kind) (zero : Cell → Bool) (A B : List Entry) (c : Cell)
    (h : ∀ e ∈ A, e.preWrites c = false) : tracePre k zero (A ++ B) c = tracePre k zero B c := by
  induction A with
  | nil => rfl
  | cons e A ih =>
    have he := h e (List.mem_cons_self ..)
    have ih' := ih (fun e' he' => h e' (List.mem_cons_of_mem _ he'))
    cases e <;> simp only [List.cons_append, tracePre, he, Bool.false_eq_true, if_false, ih']

theorem tracePre_none_written (k : Kind) (zero : Cell → Bool) (A : List Entry) (c : Cell)
    (h : ∀ e ∈ A, e.preWrites c = false) : tracePre k zero A c = some (.init c) := by
  have := tracePre_skip k zero A [] c h
  simpa [tracePre] using this

theorem tracePre_copy_head (k : Kind) (zero : Cell → Bool) (s d : Rng) (B : List Entry) (j : Nat)
    (hj : j < s.len) (hne : s.node ≠ d.node) :
    tracePre k zero (.copy s d :: B) (d.node, d.beg + j) = tracePre k zero B (s.node, s.beg + j) := by
  have hw : (Entry.copy s d).preWrites (d.node, d.beg + j) = true := by
    simp only [Entry.preWrites]; rw [Rng.has_iff]; simp; omega
  simp only [tracePre, hw, if_true, hne, ne_eq, not_false_eq_true]
  congr 2
  simp

end MpVerif.C04

import MpVerif.C04.Lemmas
namespace MpVerif.C04
end MpVerif.C04

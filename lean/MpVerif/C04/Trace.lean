import MpVerif.C04.Model
/-!
# C04 — symbolic origin of a cell (decidable per-graph certificate, used by the driver)

`tracePost k zero es c` follows cell `c` backwards through a postsolve run of the entry list `es`
(registration order) and returns, when every step is a `copy` or a `RangeCon2Slack` step on a cell
nobody else writes, the expression over the LOADED solver-side values that `c` ends up with.
`tracePre` does the same for a presolve run (it takes the REVERSED entry list).
Soundness (for every loaded state, i.e. every solver answer) is proved in `Chains.lean`.
`zero c = true` must imply that the loaded state is zero at `c` (cells of nodes that are not loaded).
-/
namespace MpVerif.C04

inductive Origin
  | init (c : Cell)            -- loaded value of cell `c`
  | const (v : Val)
  | smax (a b : Origin)        -- `setNumVal a b`
  | rev (a : Origin)           -- `revBasis a`
  | iis (slk tgt : Origin)     -- `iisVal slk tgt` (0 if it raises; then the run raises as well)
deriving Repr, DecidableEq

def Origin.eval (S0 : St) : Origin → Val
  | .init c => S0 c
  | .const v => v
  | .smax a b => setNumVal (a.eval S0) (b.eval S0)
  | .rev a => revBasis (a.eval S0)
  | .iis s t => (iisVal (s.eval S0) (t.eval S0)).getD 0

def Origin.show : Origin → String
  | .init c => s!"init:{c.1}:{c.2}"
  | .const v => s!"const:{v.num}/{v.den}"
  | .smax a b => s!"smax({a.show},{b.show})"
  | .rev a => s!"rev({a.show})"
  | .iis s t => s!"iis({s.show},{t.show})"

/-- what `Postsolve<k>Entry` of `RangeCon2Slack` leaves in a fresh source cell, given the origins of the
    target constraint `ot` and of the slack variable `os` -/
def r2sPostOrigin (k : Kind) (ot os : Origin) : Origin :=
  match k with
  | .generic => .smax ot os
  | .sol => ot
  | .basis => .rev os
  | .iis => .iis os ot
  | .lazy => .const 0

def r2sDistinct (cs ct vs : Cell) : Bool := cs.1 != ct.1 && cs.1 != vs.1 && ct.1 != vs.1

def tracePost (k : Kind) (zero : Cell → Bool) : List Entry → Cell → Option Origin
  | [], c => some (.init c)
  | .copy s d :: B, c =>
    if (Entry.copy s d).postWrites c then
      (if s.node ≠ d.node then tracePost k zero B (d.node, d.beg + (c.2 - s.beg)) else none)
    else tracePost k zero B c
  | .m2m s d :: B, c =>
    if (Entry.m2m s d).postWrites c then none else tracePost k zero B c
  | .r2s cs ct vs sd :: B, c =>
    if (Entry.r2s cs ct vs sd).postWrites c then
      (if zero cs && r2sDistinct cs ct vs && B.all (fun e' => !e'.postWrites cs) then
        match tracePost k zero B ct, tracePost k zero B vs with
        | some ot, some os => some (r2sPostOrigin k ot os)
        | _, _ => none
      else none)
    else tracePost k zero B c

/-- what `Presolve<k>Entry` of `RangeCon2Slack` leaves in the fresh target-constraint cell -/
def r2sPreTargetOrigin (k : Kind) (ocs : Origin) : Origin :=
  match k with
  | .generic => ocs
  | .sol => ocs
  | .lazy => ocs
  | .basis => .const 5
  | .iis => .const 0

/-- … and in the fresh slack-variable cell (`none` for the warm-start slack, which is computed from the primal values) -/
def r2sPreSlackOrigin (k : Kind) (ocs : Origin) : Option Origin :=
  match k with
  | .generic => some ocs
  | .basis => some (.rev ocs)
  | .iis => some (.const 0)
  | .lazy => some (.const 0)
  | .sol => none

/-- the list is the REVERSED registration order (head = the entry that runs last in a presolve run) -/
def tracePre (k : Kind) (zero : Cell → Bool) : List Entry → Cell → Option Origin
  | [], c => some (.init c)
  | .copy s d :: B, c =>
    if (Entry.copy s d).preWrites c then
      (if s.node ≠ d.node then tracePre k zero B (s.node, s.beg + (c.2 - d.beg)) else none)
    else tracePre k zero B c
  | .m2m s d :: B, c =>
    if (Entry.m2m s d).preWrites c then none else tracePre k zero B c
  | .r2s cs ct vs sd :: B, c =>
    if (Entry.r2s cs ct vs sd).preWrites c then
      (if zero c && r2sDistinct cs ct vs && B.all (fun e' => !e'.preWrites c) then
        match tracePre k zero B cs with
        | some ocs => if c = ct then some (r2sPreTargetOrigin k ocs) else r2sPreSlackOrigin k ocs
        | none => none
      else none)
    else tracePre k zero B c

/-! ## Shared items: One2Many / Many2One links from every user (max among non-zero)

`m2mSourcesRev zero L t` (L = REVERSED registration order): follows `t` back through copy entries to a cell that is zero when
loaded and written only by Many2Many-family entries with a single source cell on another node; returns those source cells in
execution order.
`reachPost es u t` (registration order): some Many2Many-family entry has `u` on its source side and `t` on its target side,
and no copy entry overwrites `u` after it in a postsolve run. -/

def m2mSourcesRev (zero : Cell → Bool) : List Entry → Cell → Option (List Cell)
  | [], t => if zero t then some [] else none
  | .copy s d :: B, t =>
    if (Entry.copy s d).preWrites t then
      (if s.node ≠ d.node then m2mSourcesRev zero B (s.node, s.beg + (t.2 - d.beg)) else none)   -- the copy overwrites: follow its source
    else m2mSourcesRev zero B t
  | .r2s cs ct vs sd :: B, t => if (Entry.r2s cs ct vs sd).preWrites t then none else m2mSourcesRev zero B t
  | .m2m s d :: B, t =>
    if (Entry.m2m s d).preWrites t then
      (if s.len = 1 ∧ s.node ≠ d.node then (m2mSourcesRev zero B t).map (fun us => us ++ [(s.node, s.beg)]) else none)
    else m2mSourcesRev zero B t

def reachPost : List Entry → Cell → Cell → Bool
  | [], _, _ => false
  | .copy s d :: B, u, t => if (Entry.copy s d).postWrites u then false else reachPost B u t
  | .r2s _ _ _ _ :: B, u, t => reachPost B u t
  | .m2m s d :: B, u, t =>
    if s.has u && s.node != d.node then (d.has t || reachPost B u t)
    else if s.has u then false else reachPost B u t

/-- no entry writes any of the cells `us` in a presolve run (they keep their loaded values) -/
def srcsUnwritten (es : List Entry) (us : List Cell) : Bool := us.all (fun u => es.all (fun e => !e.preWrites u))

/-- no entry writes `t` in a postsolve run (it keeps the solver's value) -/
def nobodyPostWrites (es : List Entry) (t : Cell) : Bool := es.all (fun e => !e.postWrites t)

/-- cells of nodes that a call does not load are zero after `CleanUpValueNodes` -/
def notLoaded (inputs : List (Nat × List Val)) : Cell → Bool := fun c => (inputs.lookup c.1).isNone

end MpVerif.C04

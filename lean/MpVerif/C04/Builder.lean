import MpVerif.C04.Registered
import MpVerif.C04.Chains
/-!
# C04 — how the link graph is built: the constructors, and the invariants they establish

The converter builds the graph only through

* `ValueNode` constructors (every constructor registers the node: `newNode`),
* `ValueNode::Add / Select` (hand out a range inside the — growing — declared size: `newItem`, and inside the ops below),
* `ProblemFlattener::ConvertVars` (`copyVars`),
* the destructor of `AutoLinkScope` after ONE item has been converted (`autoLink`: a single single-index target → `CopyLink`, otherwise one
  `One2ManyLink` entry per target),
* `RangeConstraintConverter::ConvertRange` (`range2slack`: fresh equality constraint and fresh slack variable, autolinking off),
* `ConstraintKeeper::AddAllUnbridged` (`deliver`: copy to a fresh cell of a target terminal node).

`ConstraintKeeper::ConvertAllFrom` converts an item only if `!IsBridged()` and `ConvertConstraint` then marks it bridged;
`AddAllUnbridged` delivers only `!IsBridged()` items.  The model keeps the `bridged` flags and refuses an op on a bridged source
(the C++ `assert(!cnt.IsBridged())`), so the SOURCE side of every conversion is used once.

Proved for EVERY sequence of ops: every node an entry touches is registered, every range lies inside the declared size, and the
graph satisfies `traceWF` — from which a trace certificate exists for every cell unless the item was split by a Many2Many-family entry
(`tracePost_exists`).
-/
namespace MpVerif.C04

/-! ### the condition under which certificates exist -/

/-- copy entries connect different nodes; the source of a `RangeCon2Slack` entry is zero when loaded, its three cells are on different
    nodes, and no entry registered later writes it in a postsolve run -/
def traceWF (zero : Cell → Bool) : List Entry → Bool
  | [] => true
  | .copy s d :: B => s.node != d.node && traceWF zero B
  | .m2m _ _ :: B => traceWF zero B
  | .r2s cs ct vs _ :: B => zero cs && r2sDistinct cs ct vs && B.all (fun e' => !e'.postWrites cs) && traceWF zero B

/-- following `c` back through a postsolve run reaches a Many2Many-family entry (the item was converted into several items / shares
    items: max-among-non-zero applies, `reachPost`) -/
def hitsM2M : List Entry → Cell → Bool
  | [], _ => false
  | .copy s d :: B, c =>
    if (Entry.copy s d).postWrites c then hitsM2M B (d.node, d.beg + (c.2 - s.beg)) else hitsM2M B c
  | .m2m s d :: B, c => if (Entry.m2m s d).postWrites c then true else hitsM2M B c
  | .r2s cs ct vs sd :: B, c =>
    if (Entry.r2s cs ct vs sd).postWrites c then (hitsM2M B ct || hitsM2M B vs) else hitsM2M B c

/-- **A certificate exists** for every cell of a `traceWF` graph whose history does not pass through a Many2Many-family entry. -/
theorem tracePost_exists (k : Kind) (zero : Cell → Bool) (es : List Entry) : ∀ c : Cell,
    traceWF zero es = true → hitsM2M es c = false → ∃ o, tracePost k zero es c = some o := by
  induction es with
  | nil => intro c _ _; exact ⟨_, rfl⟩
  | cons e B ih =>
    intro c hwf hm
    cases e with
    | copy s d =>
      simp only [traceWF, Bool.and_eq_true, bne_iff_ne, ne_eq] at hwf
      simp only [hitsM2M] at hm
      simp only [tracePost]
      by_cases hw : (Entry.copy s d).postWrites c = true
      · simp only [hw, if_true] at hm ⊢
        have hne : s.node ≠ d.node := hwf.1
        rw [if_pos hne]
        exact ih _ hwf.2 hm
      · have hw' : (Entry.copy s d).postWrites c = false := by simpa using hw
        simp only [hw', Bool.false_eq_true, if_false] at hm ⊢
        exact ih _ hwf.2 hm
    | m2m s d =>
      simp only [traceWF] at hwf
      simp only [hitsM2M] at hm
      simp only [tracePost]
      by_cases hw : (Entry.m2m s d).postWrites c = true
      · simp only [hw, if_true] at hm
        exact absurd hm (by decide)
      · have hw' : (Entry.m2m s d).postWrites c = false := by simpa using hw
        simp only [hw', Bool.false_eq_true, if_false] at hm ⊢
        exact ih _ hwf hm
    | r2s cs ct vs sd =>
      simp only [traceWF, Bool.and_eq_true] at hwf
      obtain ⟨⟨⟨hz, hd⟩, hall⟩, hB⟩ := hwf
      simp only [hitsM2M] at hm
      simp only [tracePost]
      by_cases hw : (Entry.r2s cs ct vs sd).postWrites c = true
      · simp only [hw, if_true, Bool.or_eq_false_iff] at hm ⊢
        simp only [hz, hd, hall, Bool.and_self, if_true]
        obtain ⟨ot, hot⟩ := ih ct hB hm.1
        obtain ⟨os, hos⟩ := ih vs hB hm.2
        rw [hot, hos]
        exact ⟨_, rfl⟩
      · have hw' : (Entry.r2s cs ct vs sd).postWrites c = false := by simpa using hw
        simp only [hw', Bool.false_eq_true, if_false] at hm ⊢
        exact ih _ hB hm

/-! ### `traceWF` of an extended entry list -/

def r2sSources : List Entry → List Cell
  | [] => []
  | .r2s cs _ _ _ :: B => cs :: r2sSources B
  | _ :: B => r2sSources B

theorem traceWF_append (zero : Cell → Bool) (es new : List Entry) :
    traceWF zero (es ++ new) = true ↔
      traceWF zero es = true ∧ (∀ cs ∈ r2sSources es, ∀ e ∈ new, e.postWrites cs = false) ∧ traceWF zero new = true := by
  induction es with
  | nil => simp [r2sSources, traceWF]
  | cons e B ih =>
    cases e with
    | copy s d => simp only [List.cons_append, traceWF, Bool.and_eq_true, r2sSources, ih, and_assoc]
    | m2m s d => simp only [List.cons_append, traceWF, r2sSources, ih]
    | r2s cs ct vs sd =>
      simp only [List.cons_append, traceWF, Bool.and_eq_true, r2sSources, ih, List.all_append, List.all_eq_true,
        Bool.not_eq_eq_eq_not, Bool.not_true, List.mem_cons, forall_eq_or_imp]
      constructor
      · intro h
        obtain ⟨⟨⟨hz, hd⟩, hB, hN⟩, hw, hr, hn⟩ := h
        exact ⟨⟨⟨⟨hz, hd⟩, hB⟩, hw⟩, ⟨hN, hr⟩, hn⟩
      · intro h
        obtain ⟨⟨⟨⟨hz, hd⟩, hB⟩, hw⟩, ⟨hN, hr⟩, hn⟩ := h
        exact ⟨⟨⟨hz, hd⟩, hB, hN⟩, hw, hr, hn⟩

/-! ### the builder -/

structure BState where
  sizes : List Nat          -- one entry per constructed (= registered) value node: its declared size
  entries : List Entry
  bridged : List Cell       -- items whose `is_bridged_` flag is set (converted or delivered)

def BState.size (st : BState) (n : Nat) : Nat := st.sizes.getD n 0
def BState.graph (st : BState) : Graph := ⟨st.entries, st.sizes⟩

inductive BOp
  | newNode                                              -- `ValueNode::ValueNode` (RegisterMe)
  | newItem (node n : Nat)                               -- `ValueNode::Add(n)`: an item nobody is linked to yet
  | copyVars (sv dv n : Nat)                             -- `ProblemFlattener::ConvertVars`
  | autoLink (src : Cell) (targets : List Rng)           -- `~AutoLinkScope()` (targets obtained by `Add` / `Select`)
  | range2slack (cs : Cell) (tn vn : Nat) (sd : SlackData)   -- `RangeConstraintConverter::ConvertRange`
  | deliver (c : Cell) (dn : Nat)                        -- `ConstraintKeeper::AddAllUnbridged`, one item

/-- declared size after `Add`/`Select` made `[.., upto)` part of node `n` -/
def growTo (sizes : List Nat) (n upto : Nat) : List Nat :=
  sizes.mapIdx (fun i s => if i = n then max s upto else s)

/-- what an op appends: (new sizes, new entries, newly bridged cells); `none` = the C++ would not do this
    (range of a node that does not exist, source already bridged / on a target terminal node, same node on both sides) -/
def BOp.effect (isDest : Nat → Bool) (st : BState) : BOp → Option (List Nat × List Entry × List Cell)
  | .newNode => some (st.sizes ++ [0], [], [])
  | .newItem node n => if node < st.sizes.length then some (growTo st.sizes node (st.size node + n), [], []) else none
  | .copyVars sv dv n =>
    if sv < st.sizes.length ∧ dv < st.sizes.length ∧ sv ≠ dv ∧ isDest sv = false then
      some (growTo (growTo st.sizes sv (st.size sv + n)) dv (st.size dv + n),
            [.copy ⟨sv, st.size sv, n⟩ ⟨dv, st.size dv, n⟩],
            (List.range n).map (fun j => (sv, st.size sv + j)))
    else none
  | .autoLink src targets =>
    if src.1 < st.sizes.length ∧ src.2 < st.size src.1 ∧ ¬ src ∈ st.bridged ∧ isDest src.1 = false ∧
        targets.all (fun t => decide (t.node < st.sizes.length) && t.node != src.1 && decide (0 < t.len)) = true then
      let sizes' := targets.foldl (fun sz t => growTo sz t.node (t.beg + t.len)) st.sizes
      let new := match targets with
        | [t] => if t.len = 1 then [Entry.copy ⟨src.1, src.2, 1⟩ t] else [Entry.m2m ⟨src.1, src.2, 1⟩ t]
        | ts => ts.map (fun t => Entry.m2m ⟨src.1, src.2, 1⟩ t)
      some (sizes', new, [src])
    else none
  | .range2slack cs tn vn sd =>
    if cs.1 < st.sizes.length ∧ cs.2 < st.size cs.1 ∧ ¬ cs ∈ st.bridged ∧ isDest cs.1 = false ∧
        tn < st.sizes.length ∧ vn < st.sizes.length ∧ cs.1 ≠ tn ∧ cs.1 ≠ vn ∧ tn ≠ vn then
      some (growTo (growTo st.sizes tn (st.size tn + 1)) vn (st.size vn + 1),
            [.r2s cs (tn, st.size tn) (vn, st.size vn) sd], [cs])
    else none
  | .deliver c dn =>
    if c.1 < st.sizes.length ∧ c.2 < st.size c.1 ∧ ¬ c ∈ st.bridged ∧ isDest c.1 = false ∧ dn < st.sizes.length ∧ c.1 ≠ dn ∧ isDest dn = true then
      some (growTo st.sizes dn (st.size dn + 1), [.copy ⟨c.1, c.2, 1⟩ ⟨dn, st.size dn, 1⟩], [c])
    else none

def BState.apply (isDest : Nat → Bool) (st : BState) (op : BOp) : Option BState :=
  (op.effect isDest st).map (fun r => ⟨r.1, st.entries ++ r.2.1, st.bridged ++ r.2.2⟩)

def build (isDest : Nat → Bool) : List BOp → BState → Option BState
  | [], st => some st
  | op :: ops, st => (st.apply isDest op).bind (build isDest ops)

/-! ### the invariant -/

def Entry.inside (sizes : List Nat) : Entry → Prop
  | .copy s d => s.beg + s.len ≤ sizes.getD s.node 0 ∧ d.beg + d.len ≤ sizes.getD d.node 0
  | .m2m s d => s.beg + s.len ≤ sizes.getD s.node 0 ∧ d.beg + d.len ≤ sizes.getD d.node 0
  | .r2s cs ct vs _ => cs.2 < sizes.getD cs.1 0 ∧ ct.2 < sizes.getD ct.1 0 ∧ vs.2 < sizes.getD vs.1 0

structure Inv (isDest : Nat → Bool) (st : BState) : Prop where
  registered : ∀ e ∈ st.entries, ∀ n ∈ e.nodes, n < st.sizes.length
  inside : ∀ e ∈ st.entries, e.inside st.sizes
  sources : ∀ e ∈ st.entries, ∀ c, e.postWrites c = true → c ∈ st.bridged ∧ isDest c.1 = false
  bridgedIn : ∀ c ∈ st.bridged, c.2 < st.sizes.getD c.1 0
  wf : traceWF (fun c => !isDest c.1) st.entries = true

/-- sizes only grow, nodes are only added -/
def SizesGrow (a b : List Nat) : Prop := a.length ≤ b.length ∧ ∀ n, a.getD n 0 ≤ b.getD n 0

theorem growTo_length (sizes : List Nat) (n u : Nat) : (growTo sizes n u).length = sizes.length := by
  simp [growTo]

theorem growTo_getD (sizes : List Nat) (n u m : Nat) :
    (growTo sizes n u).getD m 0 = if m = n ∧ m < sizes.length then max (sizes.getD m 0) u else sizes.getD m 0 := by
  unfold growTo
  by_cases hm : m < sizes.length
  · simp only [List.getD_eq_getElem?_getD, List.getElem?_mapIdx, List.getElem?_eq_getElem hm, Option.map_some, Option.getD_some, hm, and_true]
  · have : sizes.length ≤ m := Nat.le_of_not_lt hm
    simp [List.getD_eq_getElem?_getD, List.getElem?_mapIdx, List.getElem?_eq_none this, hm]

theorem growTo_grows (sizes : List Nat) (n u : Nat) : SizesGrow sizes (growTo sizes n u) := by
  refine ⟨by simp [growTo_length], fun m => ?_⟩
  rw [growTo_getD]
  split
  · exact Nat.le_max_left _ _
  · exact Nat.le_refl _

theorem SizesGrow.trans {a b c : List Nat} (h1 : SizesGrow a b) (h2 : SizesGrow b c) : SizesGrow a c :=
  ⟨Nat.le_trans h1.1 h2.1, fun n => Nat.le_trans (h1.2 n) (h2.2 n)⟩

theorem SizesGrow.refl (a : List Nat) : SizesGrow a a := ⟨Nat.le_refl _, fun _ => Nat.le_refl _⟩

theorem Entry.inside_mono {a b : List Nat} (h : SizesGrow a b) (e : Entry) (he : e.inside a) : e.inside b := by
  cases e with
  | copy s d => exact ⟨Nat.le_trans he.1 (h.2 _), Nat.le_trans he.2 (h.2 _)⟩
  | m2m s d => exact ⟨Nat.le_trans he.1 (h.2 _), Nat.le_trans he.2 (h.2 _)⟩
  | r2s cs ct vs sd => exact ⟨Nat.lt_of_lt_of_le he.1 (h.2 _), Nat.lt_of_lt_of_le he.2.1 (h.2 _), Nat.lt_of_lt_of_le he.2.2 (h.2 _)⟩

/-- what a step must satisfy so that the invariant is preserved -/
structure GoodStep (isDest : Nat → Bool) (st : BState) (sizes' : List Nat) (new : List Entry) (srcs : List Cell) : Prop where
  grow : SizesGrow st.sizes sizes'
  registered : ∀ e ∈ new, ∀ n ∈ e.nodes, n < sizes'.length
  inside : ∀ e ∈ new, e.inside sizes'
  writes : ∀ e ∈ new, ∀ c, e.postWrites c = true → c ∈ srcs
  fresh : ∀ c ∈ srcs, ¬ c ∈ st.bridged
  notDest : ∀ c ∈ srcs, isDest c.1 = false
  srcIn : ∀ c ∈ srcs, c.2 < sizes'.getD c.1 0
  wfNew : traceWF (fun c => !isDest c.1) new = true

theorem r2sSources_postWrites (es : List Entry) : ∀ cs ∈ r2sSources es, ∃ e ∈ es, e.postWrites cs = true := by
  induction es with
  | nil => intro cs h; cases h
  | cons e B ih =>
    intro cs h
    cases e with
    | copy s d => obtain ⟨e', he', hw⟩ := ih cs h; exact ⟨e', List.mem_cons_of_mem _ he', hw⟩
    | m2m s d => obtain ⟨e', he', hw⟩ := ih cs h; exact ⟨e', List.mem_cons_of_mem _ he', hw⟩
    | r2s cs0 ct vs sd =>
      simp only [r2sSources, List.mem_cons] at h
      rcases h with h | h
      · exact ⟨_, List.mem_cons_self .., by simp [Entry.postWrites, h]⟩
      · obtain ⟨e', he', hw⟩ := ih cs h; exact ⟨e', List.mem_cons_of_mem _ he', hw⟩

theorem Inv.step {isDest : Nat → Bool} {st : BState} (hI : Inv isDest st) {sizes' : List Nat} {new : List Entry} {srcs : List Cell}
    (g : GoodStep isDest st sizes' new srcs) : Inv isDest ⟨sizes', st.entries ++ new, st.bridged ++ srcs⟩ where
  registered := by
    intro e he n hn
    rcases List.mem_append.mp he with h | h
    · exact Nat.lt_of_lt_of_le (hI.registered e h n hn) g.grow.1
    · exact g.registered e h n hn
  inside := by
    intro e he
    rcases List.mem_append.mp he with h | h
    · exact Entry.inside_mono g.grow e (hI.inside e h)
    · exact g.inside e h
  sources := by
    intro e he c hw
    rcases List.mem_append.mp he with h | h
    · have := hI.sources e h c hw
      exact ⟨List.mem_append_left _ this.1, this.2⟩
    · have hc := g.writes e h c hw
      exact ⟨List.mem_append_right _ hc, g.notDest c hc⟩
  bridgedIn := by
    intro c hc
    rcases List.mem_append.mp hc with h | h
    · exact Nat.lt_of_lt_of_le (hI.bridgedIn c h) (g.grow.2 _)
    · exact g.srcIn c h
  wf := by
    rw [traceWF_append]
    refine ⟨hI.wf, ?_, g.wfNew⟩
    intro cs hcs e he
    obtain ⟨e0, he0, hw0⟩ := r2sSources_postWrites st.entries cs hcs
    have hb := (hI.sources e0 he0 cs hw0).1
    cases hpw : e.postWrites cs with
    | false => rfl
    | true => exact absurd hb (g.fresh cs (g.writes e he cs hpw))


/-! ### every op is a good step -/

theorem growTo_ge (sizes : List Nat) (n u : Nat) (hn : n < sizes.length) : u ≤ (growTo sizes n u).getD n 0 := by
  rw [growTo_getD]; simp [hn, Nat.le_max_right]

theorem traceWF_of_forall (zero : Cell → Bool) (l : List Entry)
    (h : ∀ e ∈ l, (∃ s d, e = Entry.copy s d ∧ s.node ≠ d.node) ∨ (∃ s d, e = Entry.m2m s d)) : traceWF zero l = true := by
  induction l with
  | nil => rfl
  | cons e B ih =>
    have hB := ih (fun e' he' => h e' (List.mem_cons_of_mem _ he'))
    rcases h e (List.mem_cons_self ..) with ⟨s, d, he, hne⟩ | ⟨s, d, he⟩
    · subst he; simp [traceWF, hne, hB]
    · subst he; simp [traceWF, hB]

/-- the entries `~AutoLinkScope()` adds for source `src` -/
def autoNew (src : Cell) (targets : List Rng) : List Entry :=
  match targets with
  | [t] => if t.len = 1 then [Entry.copy ⟨src.1, src.2, 1⟩ t] else [Entry.m2m ⟨src.1, src.2, 1⟩ t]
  | ts => ts.map (fun t => Entry.m2m ⟨src.1, src.2, 1⟩ t)

theorem autoNew_mem (src : Cell) (targets : List Rng) (e : Entry) (he : e ∈ autoNew src targets) :
    ∃ t ∈ targets, (e = Entry.copy ⟨src.1, src.2, 1⟩ t ∧ t.len = 1) ∨ e = Entry.m2m ⟨src.1, src.2, 1⟩ t := by
  unfold autoNew at he
  rcases targets with _ | ⟨t, _ | ⟨t2, rest⟩⟩
  · simp at he
  · by_cases h1 : t.len = 1
    · simp only [h1, if_true, List.mem_singleton] at he
      exact ⟨t, List.mem_cons_self .., Or.inl ⟨he, h1⟩⟩
    · simp only [h1, if_false, List.mem_singleton] at he
      exact ⟨t, List.mem_cons_self .., Or.inr he⟩
  · simp only [List.mem_map] at he
    obtain ⟨t', ht', he'⟩ := he
    exact ⟨t', ht', Or.inr he'.symm⟩

theorem foldGrow_grows (targets : List Rng) (sizes : List Nat) :
    SizesGrow sizes (targets.foldl (fun sz t => growTo sz t.node (t.beg + t.len)) sizes) := by
  induction targets generalizing sizes with
  | nil => exact SizesGrow.refl _
  | cons t ts ih => simp only [List.foldl_cons]; exact (growTo_grows sizes _ _).trans (ih _)

theorem foldGrow_ge (targets : List Rng) (sizes : List Nat) (t : Rng) (ht : t ∈ targets) (hn : t.node < sizes.length) :
    t.beg + t.len ≤ (targets.foldl (fun sz t => growTo sz t.node (t.beg + t.len)) sizes).getD t.node 0 := by
  induction targets generalizing sizes with
  | nil => cases ht
  | cons t0 ts ih =>
    simp only [List.foldl_cons]
    rcases List.mem_cons.mp ht with h | h
    · subst h
      exact Nat.le_trans (growTo_ge sizes _ _ hn) ((foldGrow_grows ts _).2 _)
    · exact ih _ h (by simpa [growTo_length] using hn)

theorem copy1_postWrites (a : Cell) (d : Rng) (hd : d.len = 1) (c : Cell) :
    (Entry.copy ⟨a.1, a.2, 1⟩ d).postWrites c = true → c = a := by
  simp only [Entry.postWrites]
  rw [Rng.has_iff]
  intro ⟨h1, h2, h3⟩
  simp only [hd] at h3
  have : c.2 = a.2 := by simp at h2 h3; omega
  exact Prod.ext h1 this

theorem m2m1_postWrites (a : Cell) (d : Rng) (c : Cell) :
    (Entry.m2m ⟨a.1, a.2, 1⟩ d).postWrites c = true → c = a := by
  simp only [Entry.postWrites]
  rw [Rng.has_iff]
  intro ⟨h1, h2, h3⟩
  have : c.2 = a.2 := by simp at h2 h3; omega
  exact Prod.ext h1 this

theorem GoodStep.noEntries {isDest : Nat → Bool} {st : BState} {sizes' : List Nat} (h : SizesGrow st.sizes sizes') :
    GoodStep isDest st sizes' [] [] where
  grow := h
  registered := by intro e he; cases he
  inside := by intro e he; cases he
  writes := by intro e he; cases he
  fresh := by intro c hc; cases hc
  notDest := by intro c hc; cases hc
  srcIn := by intro c hc; cases hc
  wfNew := rfl

theorem append_zero_grows (sizes : List Nat) : SizesGrow sizes (sizes ++ [0]) := by
  refine ⟨by simp, fun n => ?_⟩
  by_cases hn : n < sizes.length
  · simp [List.getD_eq_getElem?_getD, List.getElem?_append_left hn]
  · have : sizes.getD n 0 = 0 := by simp [List.getD_eq_getElem?_getD, List.getElem?_eq_none (Nat.le_of_not_lt hn)]
    rw [this]; exact Nat.zero_le _

theorem BOp.goodStep {isDest : Nat → Bool} {st : BState} (hI : Inv isDest st) (op : BOp) {r : List Nat × List Entry × List Cell}
    (h : op.effect isDest st = some r) : GoodStep isDest st r.1 r.2.1 r.2.2 := by
  cases op with
  | newNode =>
    simp only [BOp.effect, Option.some.injEq] at h
    subst h
    exact GoodStep.noEntries (append_zero_grows _)
  | newItem node n =>
    simp only [BOp.effect] at h
    by_cases hc : node < st.sizes.length
    · simp only [hc, if_true, Option.some.injEq] at h
      subst h
      exact GoodStep.noEntries (growTo_grows _ _ _)
    · simp [hc] at h
  | copyVars sv dv n =>
    simp only [BOp.effect] at h
    by_cases hc : sv < st.sizes.length ∧ dv < st.sizes.length ∧ sv ≠ dv ∧ isDest sv = false
    · rw [if_pos hc] at h
      simp only [Option.some.injEq] at h
      subst h
      obtain ⟨hsv, hdv, hne, hnd⟩ := hc
      have hg1 := growTo_grows st.sizes sv (st.size sv + n)
      have hg2 := growTo_grows (growTo st.sizes sv (st.size sv + n)) dv (st.size dv + n)
      have hsz_sv : st.size sv + n ≤ (growTo (growTo st.sizes sv (st.size sv + n)) dv (st.size dv + n)).getD sv 0 :=
        Nat.le_trans (growTo_ge st.sizes sv _ hsv) (hg2.2 sv)
      have hsz_dv : st.size dv + n ≤ (growTo (growTo st.sizes sv (st.size sv + n)) dv (st.size dv + n)).getD dv 0 :=
        growTo_ge _ dv _ (by simpa [growTo_length] using hdv)
      refine { grow := hg1.trans hg2, registered := ?_, inside := ?_, writes := ?_, fresh := ?_, notDest := ?_, srcIn := ?_, wfNew := ?_ }
      · intro e he n' hn'
        simp only [List.mem_singleton] at he; subst he
        simp only [Entry.nodes, List.mem_cons, List.not_mem_nil, or_false] at hn'
        rcases hn' with h | h <;> subst h <;> simp [growTo_length, hsv, hdv]
      · intro e he
        simp only [List.mem_singleton] at he; subst he
        exact ⟨hsz_sv, hsz_dv⟩
      · intro e he c hw
        simp only [List.mem_singleton] at he; subst he
        simp only [Entry.postWrites] at hw
        rw [Rng.has_iff] at hw
        obtain ⟨h1, h2, h3⟩ := hw
        simp only at h2 h3
        refine List.mem_map.mpr ⟨c.2 - st.size sv, List.mem_range.mpr (by omega), ?_⟩
        have : st.size sv + (c.2 - st.size sv) = c.2 := by omega
        rw [this]
        exact Prod.ext h1.symm rfl
      · intro c hc hb
        obtain ⟨j, _, hj⟩ := List.mem_map.mp hc
        subst hj
        have := hI.bridgedIn _ hb
        simp only [BState.size] at this
        omega
      · intro c hc
        obtain ⟨j, _, hj⟩ := List.mem_map.mp hc
        subst hj; exact hnd
      · intro c hc
        obtain ⟨j, hj, hj'⟩ := List.mem_map.mp hc
        subst hj'
        have := List.mem_range.mp hj
        exact Nat.lt_of_lt_of_le (by omega) hsz_sv
      · simp [traceWF, hne]
    · rw [if_neg hc] at h; cases h
  | autoLink src targets =>
    simp only [BOp.effect] at h
    by_cases hc : src.1 < st.sizes.length ∧ src.2 < st.size src.1 ∧ ¬ src ∈ st.bridged ∧ isDest src.1 = false ∧
        targets.all (fun t => decide (t.node < st.sizes.length) && t.node != src.1 && decide (0 < t.len)) = true
    · rw [if_pos hc] at h
      simp only [Option.some.injEq] at h
      subst h
      obtain ⟨hs1, hs2, hnb, hnd, hall⟩ := hc
      have hT : ∀ t ∈ targets, t.node < st.sizes.length ∧ t.node ≠ src.1 ∧ 0 < t.len := by
        intro t ht
        have := (List.all_eq_true.mp hall) t ht
        simpa [and_assoc] using this
      have hgrow := foldGrow_grows targets st.sizes
      have hnew : ∀ e, e ∈ (match targets with
          | [t] => if t.len = 1 then [Entry.copy ⟨src.1, src.2, 1⟩ t] else [Entry.m2m ⟨src.1, src.2, 1⟩ t]
          | ts => ts.map (fun t => Entry.m2m ⟨src.1, src.2, 1⟩ t)) → e ∈ autoNew src targets := fun e he => he
      refine { grow := hgrow, registered := ?_, inside := ?_, writes := ?_, fresh := ?_, notDest := ?_, srcIn := ?_, wfNew := ?_ }
      · intro e he n hn
        obtain ⟨t, ht, hcase⟩ := autoNew_mem src targets e (hnew e he)
        have hlen : st.sizes.length ≤ _ := hgrow.1
        rcases hcase with ⟨he', _⟩ | he' <;> subst he' <;>
          simp only [Entry.nodes, List.mem_cons, List.not_mem_nil, or_false] at hn <;>
          rcases hn with h | h <;> subst h
        · exact Nat.lt_of_lt_of_le hs1 hlen
        · exact Nat.lt_of_lt_of_le (hT t ht).1 hlen
        · exact Nat.lt_of_lt_of_le hs1 hlen
        · exact Nat.lt_of_lt_of_le (hT t ht).1 hlen
      · intro e he
        obtain ⟨t, ht, hcase⟩ := autoNew_mem src targets e (hnew e he)
        have hsrc : src.2 + 1 ≤ (targets.foldl (fun sz t => growTo sz t.node (t.beg + t.len)) st.sizes).getD src.1 0 :=
          Nat.le_trans hs2 (hgrow.2 _)
        have htg := foldGrow_ge targets st.sizes t ht (hT t ht).1
        rcases hcase with ⟨he', _⟩ | he' <;> subst he' <;> exact ⟨hsrc, htg⟩
      · intro e he c hw
        obtain ⟨t, ht, hcase⟩ := autoNew_mem src targets e (hnew e he)
        rcases hcase with ⟨he', hl⟩ | he' <;> subst he'
        · exact List.mem_singleton.mpr (copy1_postWrites src t hl c hw)
        · exact List.mem_singleton.mpr (m2m1_postWrites src t c hw)
      · intro c hc; rw [List.mem_singleton.mp hc]; exact hnb
      · intro c hc; rw [List.mem_singleton.mp hc]; exact hnd
      · intro c hc; rw [List.mem_singleton.mp hc]; exact Nat.lt_of_lt_of_le hs2 (hgrow.2 _)
      · apply traceWF_of_forall
        intro e he
        obtain ⟨t, ht, hcase⟩ := autoNew_mem src targets e (hnew e he)
        rcases hcase with ⟨he', _⟩ | he'
        · exact Or.inl ⟨_, _, he', fun h => (hT t ht).2.1 h.symm⟩
        · exact Or.inr ⟨_, _, he'⟩
    · rw [if_neg hc] at h; cases h
  | range2slack cs tn vn sd =>
    simp only [BOp.effect] at h
    by_cases hc : cs.1 < st.sizes.length ∧ cs.2 < st.size cs.1 ∧ ¬ cs ∈ st.bridged ∧ isDest cs.1 = false ∧
        tn < st.sizes.length ∧ vn < st.sizes.length ∧ cs.1 ≠ tn ∧ cs.1 ≠ vn ∧ tn ≠ vn
    · rw [if_pos hc] at h
      simp only [Option.some.injEq] at h
      subst h
      obtain ⟨h1, h2, hnb, hnd, htn, hvn, hn1, hn2, hn3⟩ := hc
      have hg1 := growTo_grows st.sizes tn (st.size tn + 1)
      have hg2 := growTo_grows (growTo st.sizes tn (st.size tn + 1)) vn (st.size vn + 1)
      have hg := hg1.trans hg2
      have htn' : st.size tn + 1 ≤ (growTo (growTo st.sizes tn (st.size tn + 1)) vn (st.size vn + 1)).getD tn 0 :=
        Nat.le_trans (growTo_ge st.sizes tn _ htn) (hg2.2 tn)
      have hvn' : st.size vn + 1 ≤ (growTo (growTo st.sizes tn (st.size tn + 1)) vn (st.size vn + 1)).getD vn 0 :=
        growTo_ge _ vn _ (by simpa [growTo_length] using hvn)
      refine { grow := hg, registered := ?_, inside := ?_, writes := ?_, fresh := ?_, notDest := ?_, srcIn := ?_, wfNew := ?_ }
      · intro e he n hn
        simp only [List.mem_singleton] at he; subst he
        simp only [Entry.nodes, List.mem_cons, List.not_mem_nil, or_false] at hn
        rcases hn with h | h | h <;> subst h <;> simp [growTo_length, h1, htn, hvn]
      · intro e he
        simp only [List.mem_singleton] at he; subst he
        exact ⟨Nat.lt_of_lt_of_le h2 (hg.2 _), htn', hvn'⟩
      · intro e he c hw
        simp only [List.mem_singleton] at he; subst he
        have : c = cs := by simpa [Entry.postWrites] using hw
        exact List.mem_singleton.mpr this
      · intro c hc; rw [List.mem_singleton.mp hc]; exact hnb
      · intro c hc; rw [List.mem_singleton.mp hc]; exact hnd
      · intro c hc; rw [List.mem_singleton.mp hc]; exact Nat.lt_of_lt_of_le h2 (hg.2 _)
      · simp [traceWF, hnd, r2sDistinct, hn1, hn2, hn3]
    · rw [if_neg hc] at h; cases h
  | deliver c dn =>
    simp only [BOp.effect] at h
    by_cases hc : c.1 < st.sizes.length ∧ c.2 < st.size c.1 ∧ ¬ c ∈ st.bridged ∧ isDest c.1 = false ∧ dn < st.sizes.length ∧ c.1 ≠ dn ∧ isDest dn = true
    · rw [if_pos hc] at h
      simp only [Option.some.injEq] at h
      subst h
      obtain ⟨h1, h2, hnb, hnd, hdn, hne, _⟩ := hc
      have hg := growTo_grows st.sizes dn (st.size dn + 1)
      refine { grow := hg, registered := ?_, inside := ?_, writes := ?_, fresh := ?_, notDest := ?_, srcIn := ?_, wfNew := ?_ }
      · intro e he n hn
        simp only [List.mem_singleton] at he; subst he
        simp only [Entry.nodes, List.mem_cons, List.not_mem_nil, or_false] at hn
        rcases hn with h | h <;> subst h <;> simp [growTo_length, h1, hdn]
      · intro e he
        simp only [List.mem_singleton] at he; subst he
        exact ⟨Nat.le_trans h2 (hg.2 _), growTo_ge _ dn _ hdn⟩
      · intro e he c' hw
        simp only [List.mem_singleton] at he; subst he
        exact List.mem_singleton.mpr (copy1_postWrites c _ rfl c' hw)
      · intro c' hc'; rw [List.mem_singleton.mp hc']; exact hnb
      · intro c' hc'; rw [List.mem_singleton.mp hc']; exact hnd
      · intro c' hc'; rw [List.mem_singleton.mp hc']; exact Nat.lt_of_lt_of_le h2 (hg.2 _)
      · simp [traceWF, hne]
    · rw [if_neg hc] at h; cases h

/-! ### the invariant holds for every graph the constructors can build -/

theorem Inv.empty (isDest : Nat → Bool) : Inv isDest ⟨[], [], []⟩ where
  registered := by intro e he; cases he
  inside := by intro e he; cases he
  sources := by intro e he; cases he
  bridgedIn := by intro c hc; cases hc
  wf := rfl

theorem Inv.apply {isDest : Nat → Bool} {st st' : BState} (hI : Inv isDest st) (op : BOp) (h : st.apply isDest op = some st') :
    Inv isDest st' := by
  simp only [BState.apply, Option.map_eq_some_iff] at h
  obtain ⟨r, hr, hst⟩ := h
  subst hst
  exact hI.step (op.goodStep hI hr)

theorem Inv.build {isDest : Nat → Bool} (ops : List BOp) : ∀ {st st' : BState}, Inv isDest st → build isDest ops st = some st' → Inv isDest st' := by
  induction ops with
  | nil => intro st st' hI h; simp only [MpVerif.C04.build, Option.some.injEq] at h; subst h; exact hI
  | cons op ops ih =>
    intro st st' hI h
    simp only [MpVerif.C04.build] at h
    cases h1 : st.apply isDest op with
    | none => simp [h1] at h
    | some st1 =>
      simp only [h1, Option.bind_some] at h
      exact ih (hI.apply op h1) h


/-! ### the origin of a delivered item -/

theorem build_entries_prefix (isDest : Nat → Bool) (ops : List BOp) : ∀ {st st' : BState}, build isDest ops st = some st' →
    ∃ rest, st'.entries = st.entries ++ rest := by
  induction ops with
  | nil => intro st st' h; simp only [MpVerif.C04.build, Option.some.injEq] at h; subst h; exact ⟨[], by simp⟩
  | cons op ops ih =>
    intro st st' h
    simp only [MpVerif.C04.build] at h
    cases h1 : st.apply isDest op with
    | none => simp [h1] at h
    | some st1 =>
      simp only [h1, Option.bind_some] at h
      obtain ⟨rest, hr⟩ := ih h
      simp only [BState.apply, Option.map_eq_some_iff] at h1
      obtain ⟨r, _, hst1⟩ := h1
      subst hst1
      exact ⟨r.2.1 ++ rest, by rw [hr]; simp⟩

/-- **The certificate of a delivered item is the slot it was delivered to**: if `AddAllUnbridged` delivers item `c` to target node `dn`
    (whose declared size is then `slot`), then in EVERY later state of the construction the postsolve origin of `c` is exactly solver
    item `(dn, slot)` — for every value kind. -/
theorem deliver_origin (isDest : Nat → Bool) (ops0 ops1 : List BOp) (st0 st1 st2 : BState) (c : Cell) (dn : Nat) (k : Kind)
    (h0 : build isDest ops0 ⟨[], [], []⟩ = some st0) (h1 : st0.apply isDest (.deliver c dn) = some st1)
    (h2 : build isDest ops1 st1 = some st2) :
    tracePost k (fun c => !isDest c.1) st2.entries c = some (.init (dn, st0.size dn)) := by
  have hI0 := Inv.build ops0 (Inv.empty isDest) h0
  have hI1 := hI0.apply _ h1
  have hI2 := Inv.build ops1 hI1 h2
  simp only [BState.apply, Option.map_eq_some_iff] at h1
  obtain ⟨r, hr, hst1⟩ := h1
  simp only [BOp.effect] at hr
  by_cases hc : c.1 < st0.sizes.length ∧ c.2 < st0.size c.1 ∧ ¬ c ∈ st0.bridged ∧ isDest c.1 = false ∧ dn < st0.sizes.length ∧ c.1 ≠ dn ∧ isDest dn = true
  · rw [if_pos hc] at hr
    simp only [Option.some.injEq] at hr
    subst hr
    subst hst1
    obtain ⟨_, _, hnb, _, _, hne, hdest⟩ := hc
    obtain ⟨rest, hrest⟩ := build_entries_prefix isDest ops1 h2
    simp only at hrest
    rw [hrest, List.append_assoc]
    rw [tracePost_skip k _ st0.entries _ c (fun e he => by
      cases hw : e.postWrites c with
      | false => rfl
      | true => exact absurd (hI0.sources e he c hw).1 hnb)]
    have hcopy := tracePost_copy_head k (fun c => !isDest c.1) ⟨c.1, c.2, 1⟩ ⟨dn, st0.size dn, 1⟩ rest 0 (Nat.zero_lt_one) hne
    simp only [Nat.add_zero, List.singleton_append] at hcopy ⊢
    rw [hcopy]
    apply tracePost_none_written
    intro e he
    cases hw : e.postWrites (dn, st0.size dn) with
    | false => rfl
    | true =>
      have hmem : e ∈ st2.entries := by rw [hrest]; simp [he]
      have := (hI2.sources e hmem _ hw).2
      simp [hdest] at this
  · rw [if_neg hc] at hr; cases hr

end MpVerif.C04

import MpVerif.C10.Model
/-! # C10 — helper lemmas: `documented c = k` as interval membership -/
namespace MpVerif.C10
open MpVerif.Gen.Status

theorem doc_solved (c : Int) : documented c = .solved ↔ 0 ≤ c ∧ c ≤ 99 := by
  unfold documented; repeat' split
  all_goals first | (simp only [reduceCtorEq, false_iff]; omega) | (simp only [true_iff]; omega)
theorem doc_uncertain (c : Int) : documented c = .uncertain ↔ 100 ≤ c ∧ c ≤ 199 := by
  unfold documented; repeat' split
  all_goals first | (simp only [reduceCtorEq, false_iff]; omega) | (simp only [true_iff]; omega)
theorem doc_infeasible (c : Int) : documented c = .infeasible ↔ 200 ≤ c ∧ c ≤ 299 := by
  unfold documented; repeat' split
  all_goals first | (simp only [reduceCtorEq, false_iff]; omega) | (simp only [true_iff]; omega)
theorem doc_unboundedFeas (c : Int) : documented c = .unboundedFeas ↔ 300 ≤ c ∧ c ≤ 349 := by
  unfold documented; repeat' split
  all_goals first | (simp only [reduceCtorEq, false_iff]; omega) | (simp only [true_iff]; omega)
theorem doc_unboundedNoFeas (c : Int) : documented c = .unboundedNoFeas ↔ 350 ≤ c ∧ c ≤ 399 := by
  unfold documented; repeat' split
  all_goals first | (simp only [reduceCtorEq, false_iff]; omega) | (simp only [true_iff]; omega)
theorem doc_limitFeas (c : Int) : documented c = .limitFeas ↔ 400 ≤ c ∧ c ≤ 449 := by
  unfold documented; repeat' split
  all_goals first | (simp only [reduceCtorEq, false_iff]; omega) | (simp only [true_iff]; omega)
theorem doc_limitInfUnb (c : Int) : documented c = .limitInfUnb ↔ 450 ≤ c ∧ c ≤ 469 := by
  unfold documented; repeat' split
  all_goals first | (simp only [reduceCtorEq, false_iff]; omega) | (simp only [true_iff]; omega)
theorem doc_limitNoFeas (c : Int) : documented c = .limitNoFeas ↔ 470 ≤ c ∧ c ≤ 499 := by
  unfold documented; repeat' split
  all_goals first | (simp only [reduceCtorEq, false_iff]; omega) | (simp only [true_iff]; omega)
theorem doc_failure (c : Int) : documented c = .failure ↔ 500 ≤ c ∧ c ≤ 999 := by
  unfold documented; repeat' split
  all_goals first | (simp only [reduceCtorEq, false_iff]; omega) | (simp only [true_iff]; omega)
theorem doc_unclassified (c : Int) : documented c = .unclassified ↔ c < 0 ∨ 999 < c := by
  unfold documented; repeat' split
  all_goals first | (simp only [reduceCtorEq, false_iff]; omega) | (simp only [true_iff]; omega)

theorem candidate_iff (c : Int) :
    candidate c = true ↔ (0 ≤ c ∧ c ≤ 99) ∨ (300 ≤ c ∧ c ≤ 349) ∨ (400 ≤ c ∧ c ≤ 449) := by
  unfold candidate
  simp only [Bool.or_eq_true, decide_eq_true_eq, doc_solved, doc_unboundedFeas, doc_limitFeas, or_assoc]

/-- rewrite every `documented c = k` into arithmetic -/
macro "c10_doc" : tactic => `(tactic| simp only [doc_solved, doc_uncertain, doc_infeasible, doc_unboundedFeas,
  doc_unboundedNoFeas, doc_limitFeas, doc_limitInfUnb, doc_limitNoFeas, doc_failure, doc_unclassified,
  candidate_iff] at *)

end MpVerif.C10

import MpVerif.C10.Model
/-! # C10 — helper lemmas: `documented c = k` as interval membership -/
namespace MpVerif.C10
open MpVerif.Gen.Status

theorem doc_solved (c : Int) : documented c = .solved ↔ 0 ≤ c ∧ c ≤ 99 := by
  unfold documented; repeat' split
  all_goals first | (simp only [reduceCtorEq, false_iff]; omega) | (simp only [true_iff]; omega)
theorem doc_uncertain (c : Int) : documented c = .uncertain ↔ 100 ≤ c ∧ c ≤ 199 := by
  unfold documented; repeat' split
  all_goals first | (simp only [reduceCtorEq, false_iff]; omega) | (simp only [true_iff]; omega)
theorem doc_infeasible (c : Int) : documented c = .infeasible ↔ 200 ≤ c ∧ c ≤ 299 := by
  unfold documented; repeat' split
  all_goals first | (simp only [reduceCtorEq, false_iff]; omega) | (simp only [true_iff]; omega)
theorem doc_unboundedFeas (c : Int) : documented c = .unboundedFeas ↔ 300 ≤ c ∧ c ≤ 349 := by
  unfold documented; repeat' split
  all_goals first | (simp only [reduceCtorEq, false_iff]; omega) | (simp only [true_iff]; omega)
theorem doc_unboundedNoFeas (c : Int) : documented c = .unboundedNoFeas ↔ 350 ≤ c ∧ c ≤ 399 := by
  unfold documented; repeat' split
  all_goals first | (simp only [reduceCtorEq, false_iff]; omega) | (simp only [true_iff]; omega)
theorem doc_limitFeas (c : Int) : documented c = .limitFeas ↔ 400 ≤ c ∧ c ≤ 449 := by
  unfold documented; repeat' split
  all_goals first | (simp only [reduceCtorEq, false_iff]; omega) | (simp only [true_iff]; omega)
theorem doc_limitInfUnb (c : Int) : documented c = .limitInfUnb ↔ 450 ≤ c ∧ c ≤ 469 := by
  unfold documented; repeat' split
  all_goals first | (simp only [reduceCtorEq, false_iff]; omega) | (simp only [true_iff]; omega)
theorem doc_limitNoFeas (c : Int) : documented c = .limitNoFeas ↔ 470 ≤ c ∧ c ≤ 499 := by
  unfold documented; repeat' split
  all_goals first | (simp only [reduceCtorEq, false_iff]; omega) | (simp only [true_iff]; omega)
theorem doc_failure (c : Int) : documented c = .failure ↔ 500 ≤ c ∧ c ≤ 999 := by
  unfold documented; repeat' split
  all_goals first | (simp only [reduceCtorEq, false_iff]; omega) | (simp only [true_iff]; omega)
theorem doc_unclassified (c : Int) : documented c = .unclassified ↔ c < 0 ∨ 999 < c := by
  unfold documented; repeat' split
  all_goals first | (simp only [reduceCtorEq, false_iff]; omega) | (simp only [true_iff]; omega)

theorem candidate_iff (c : Int) :
    candidate c = true ↔ (0 ≤ c ∧ c ≤ 99) ∨ (300 ≤ c ∧ c ≤ 349) ∨ (400 ≤ c ∧ c ≤ 449) := by
  unfold candidate
  simp only [Bool.or_eq_true, decide_eq_true_eq, doc_solved, doc_unboundedFeas, doc_limitFeas, or_assoc]

/-- a bit test written with `&&&` and a power-of-two mask is `testBit` -/
theorem land_pow_ne_zero (w i : Nat) : (w &&& 2^i ≠ 0) ↔ w.testBit i = true := by
  constructor
  · intro h
    apply Classical.byContradiction; intro hb
    apply h
    apply Nat.eq_of_testBit_eq
    intro j
    rw [Nat.testBit_and, Nat.testBit_two_pow, Nat.zero_testBit]
    by_cases hij : i = j
    · subst hij; simp at hb; simp [hb]
    · simp [hij]
  · intro h h0
    have : (w &&& 2^i).testBit i = true := by rw [Nat.testBit_and, Nat.testBit_two_pow]; simp [h]
    rw [h0] at this; simp at this

theorem land_mask_decide (w i : Nat) : decide (w &&& 2^i ≠ 0) = w.testBit i := by
  cases h : w.testBit i
  · have hn : ¬ (w &&& 2^i ≠ 0) := fun hh => by have := (land_pow_ne_zero w i).mp hh; rw [h] at this; cases this
    exact decide_eq_false hn
  · exact decide_eq_true ((land_pow_ne_zero w i).mpr h)

theorem land_mask_decide_eq (w i : Nat) : decide (w &&& 2^i = 0) = !w.testBit i := by
  cases h : w.testBit i
  · have hn : ¬ (w &&& 2^i ≠ 0) := fun hh => by have := (land_pow_ne_zero w i).mp hh; rw [h] at this; cases this
    have : w &&& 2^i = 0 := Classical.byContradiction hn
    simp [this]
  · have := (land_pow_ne_zero w i).mpr h
    simp [this]

/-- rewrite every `documented c = k` into arithmetic -/
macro "c10_doc" : tactic => `(tactic| simp only [doc_solved, doc_uncertain, doc_infeasible, doc_unboundedFeas,
  doc_unboundedNoFeas, doc_limitFeas, doc_limitInfUnb, doc_limitNoFeas, doc_failure, doc_unclassified,
  candidate_iff] at *)

end MpVerif.C10

import MpVerif.C10.Model
import MpVerif.Gen.StatusReport
import MpVerif.Gen.StatusFlags
/-!
# C10 — the report assembled **only** from definitions regenerated from the source

`reportGen` / `extrasGen` contain no hand-written decision: every field is a definition of `MpVerif.Gen.Status`
(gen_status.py) or `MpVerif.Gen.StatusReport` (gen_report.py).  `C10_report_model_eq_generated` and
`C10_extras_eq_generated` prove the hand models `report` / `extras` equal to them.
-/
namespace MpVerif.C10
open MpVerif.Gen.Status MpVerif.Gen.StatusReport

def reportGen (a : Answer) : Report where
  objectiveShown := objectiveWritten a                    -- guards of every write of "…objective {}" (gen_status.py)
  codeWritten := solFileCodeFinal a                       -- SolveCode() through every forwarding hop down to `objno N <sol.status()>`
  primalPassed := handlePrimalPassed a                    -- `sol.primal.empty() ? 0 : sol.primal.data()` after FlatBackend::GetSolution
  dualPassed := handleDualPassed a
  objValuePassed := handleObjValuePassed a                -- guard of `obj_value = sol.objvals[0]` (NaN otherwise)
  altCodes := if a.solStub then List.replicate a.nAlt (solFileCodeAlt a) else []

def extrasGen (a : Answer) : Extras where
  feasrelaxShown := feasrelaxWordGuard a                  -- guard of the step `write feasrelax `
  origObjShown := origObjGuard a                          -- guard of the step `write \nOriginal objective = {}`
  kappaSuffix := kappaSuffixGuard a
  unbddSuffix := unbddGuard a
  dunbddSuffix := dunbddGuard a
  iisSuffix := iisGuard a
  solCheckWarning := a.solViolates && !solCheckSkippedGuard a

/-- the places where the reporting code consults a status predicate, and what the model does with each -/
def predicateUseSites : List (String × String) := [
  ("FlatBackend::GetSolution", "IsProblemInfeasible"),                -- flag handed to the value postsolver (solution check is skipped): `solCheckSkipped`
  ("MIPBackend::CalculateAndReportIIS", "IsProblemIndiffInfOrUnb"),   -- `extras.iisSuffix`
  ("MIPBackend::CalculateAndReportIIS", "IsProblemInfOrUnb"),
  ("MIPBackend::ReportRays", "IsProblemIndiffInfOrUnb"),              -- `extras.unbddSuffix`, `extras.dunbddSuffix`
  ("MIPBackend::ReportRays", "IsProblemInfeasible"),
  ("MIPBackend::ReportRays", "IsProblemUnbounded"),
  ("StdBackend::IsProblemInfOrUnb", "IsProblemIndiffInfOrUnb"),       -- inside the generated predicate
  ("StdBackend::ModifySolveCodeAndMessageAfterRounding", "IsSolStatusRetrieved"),  -- guards an empty block (no effect)
  ("StdBackend::ReportSolution2AMPL", "IsProblemSolvedOrFeasible"),   -- `msgTable`
  ("StdBackend::ReportStandardSuffixes", "IsProblemSolved")]          -- `extras.kappaSuffix`

/-- guard of a step of the generated `AppSolutionHandlerImpl::HandleSolution` table (false if the step does not exist) -/
def appGuard (label : String) (x : AppCtx) : Bool :=
  match Gen.StatusFlags.appTable.find? (fun p => p.1 == label) with
  | some p => p.2 x
  | none => false

/-- guard of a step of the generated rounding table (false if the step does not exist) -/
def roundGuard (label : String) (x : RoundCtx) : Bool :=
  match Gen.StatusFlags.roundTable.find? (fun p => p.1 == label) with
  | some p => p.2 x
  | none => false

end MpVerif.C10

import MpVerif.C10.Model
/-! Line driver for C10.  No logic of its own: every answer is a call of a model / generated function.

  enum NAME                 ↦ `enum NAME <value of the translated enumerator expression>`
  pred C                    ↦ `pred C b1 … b7`   (order of `Gen.Status.predTable`)
  class C                   ↦ `class C <classify C> <documented C> <candidate C>`
  table                     ↦ one `row FIRST LAST <description>` line per pre-registered entry, then `end-table`
  doctable                  ↦ the hand-written documented table, same format
  markers CODE NOBJ FR ORIG KAPPA EXTRA NALTREPORTED ALTOBJ WARNINGS ↦ `markers … | <recognisable message pieces in order>`
  addres CANREPLACE a:b a:b … ↦ `addres … | <resulting registry a:b…, new entries marked +>` or `error`
  app AMPL WANTSOL ↦ `app … | sol=<.sol written> msg=<message on stdout> primal=<vector printed> dual=<…>`
  raybits RAYS ↦ `raybits R | <need_ray_primal> <need_ray_dual>`
  extras CODE NOBJ FEASRELAX ORIGOBJ KAPPA RAYP RAYD IIS SOLVIOLATES ↦ `extras … | <Extras>`
  report CODE NOBJ PR DU NALT STUB ↦ `report CODE NOBJ PR DU NALT STUB | <Report>`
-/
open MpVerif.C10 MpVerif.Gen.Status

def parseBool (s : String) : Option Bool :=
  if s == "1" then some true else if s == "0" then some false else none

def handle (out : IO.FS.Stream) (ws : List String) : IO Unit := do
  match ws with
  | ["enum", name] =>
    match enumTable.find? (fun r => r.1 == name) with
    | some r => out.putStrLn s!"enum {name} {r.2.1}"
    | none => out.putStrLn "bad-op"
  | ["pred", c] =>
    match c.toInt? with
    | some c =>
      let bits := predTable.map (fun p => b2s (p.2 c))
      out.putStrLn s!"pred {c} {" ".intercalate bits}"
    | none => out.putStrLn "bad-op"
  | ["class", c] =>
    match c.toInt? with
    | some c => out.putStrLn s!"class {c} {(classify c).toStr} {(documented c).toStr} {b2s (candidate c)}"
    | none => out.putStrLn "bad-op"
  | ["table"] =>
    for r in registry do
      out.putStrLn s!"row {r.1} {r.2.1} {r.2.2}"
    out.putStrLn "end-table"
  | ["doctable"] =>
    for r in documentedTable do
      out.putStrLn s!"row {r.1} {r.2.1} {r.2.2.1}"
    for r in documentedSingles do
      out.putStrLn s!"row {r.1} {r.1} {r.2}"
    out.putStrLn "end-table"
  | ["report", c, n, p, d, k, st] =>
    match c.toInt?, n.toNat?, parseBool p, parseBool d, k.toNat?, parseBool st with
    | some c, some n, some p, some d, some k, some st =>
      let a : Answer := { code := c, nObj := n, hasPrimal := p, hasDual := d, nAlt := k, solStub := st }
      out.putStrLn s!"report {c} {n} {b2s p} {b2s d} {k} {b2s st} | {(report a).toStr}"
    | _, _, _, _, _, _ => out.putStrLn "bad-op"
  | ["extras", c, n, fr, og, ka, rp, rd, ii, sv] =>
    match c.toInt?, n.toNat?, parseBool fr, parseBool og, parseBool ka, parseBool rp, parseBool rd, parseBool ii, parseBool sv with
    | some c, some n, some fr, some og, some ka, some rp, some rd, some ii, some sv =>
      let a : Answer := { code := c, nObj := n, hasPrimal := true, hasDual := true, feasrelax := fr, origObj := og,
                          kappaOpt := ka, rayPrimalOpt := rp, rayDualOpt := rd, iisOpt := ii, solViolates := sv }
      out.putStrLn s!"extras {c} {n} {b2s fr} {b2s og} {b2s ka} {b2s rp} {b2s rd} {b2s ii} {b2s sv} | {(extras a).toStr}"
    | _, _, _, _, _, _, _, _, _ => out.putStrLn "bad-op"
  | ["markers", c, n, fr, og, ka, ex, k, ao, w] =>
    match c.toInt?, n.toNat?, parseBool fr, parseBool og, parseBool ka, parseBool ex, k.toNat?, parseBool ao, parseBool w with
    | some c, some n, some fr, some og, some ka, some ex, some k, some ao, some w =>
      let a : Answer := { code := c, nObj := n, hasPrimal := true, hasDual := true, feasrelax := fr, origObj := og, kappaOpt := ka,
                          extraMsg := ex, nAlt := k, solStub := true, altObj := ao, hasWarnings := w }
      out.putStrLn s!"markers {c} {n} {b2s fr} {b2s og} {b2s ka} {b2s ex} {k} {b2s ao} {b2s w} | {",".intercalate (msgMarkers a)}"
    | _, _, _, _, _, _, _, _, _ => out.putStrLn "bad-op"
  | "addres" :: cr :: toks =>
    match parseBool cr with
    | some cr =>
      let ents := toks.filterMap (fun t => match t.splitOn ":" with
        | [a, b] => match a.toInt?, b.toInt? with
          | some a, some b => some (a, b)
          | _, _ => none
        | _ => none)
      if ents.length != toks.length then out.putStrLn "bad-op" else
      let sm : List RegRow := ents.map (fun e => (e.1, e.2, "new"))
      let res := match addResults registry sm cr with
        | none => " error"
        | some reg => String.join (reg.map (fun (r : RegRow) => s!" {r.1}:{r.2.1}" ++ (if r.2.2 == "new" then "+" else "")))
      out.putStrLn s!"addres {b2s cr}{String.join (toks.map (fun t => " " ++ t))} |{res}"
    | none => out.putStrLn "bad-op"
  | ["app", am, w] =>
    match parseBool am, w.toNat? with
    | some am, some w =>
      let x : AppCtx := { ampl := am, wantsol := w }
      out.putStrLn s!"app {b2s am} {w} | sol={b2s (solFileWritten x)} msg={b2s (messagePrinted x)} primal={b2s (primalPrinted x)} dual={b2s (dualPrinted x)}"
    | _, _ => out.putStrLn "bad-op"
  | ["raybits", r] =>
    match r.toNat? with
    | some r => out.putStrLn s!"raybits {r} | {b2s (rayPrimalOfOption r)} {b2s (rayDualOfOption r)}"
    | none => out.putStrLn "bad-op"
  | _ => out.putStrLn "bad-op"

partial def loop (h : IO.FS.Stream) (out : IO.FS.Stream) : IO Unit := do
  let line ← h.getLine
  if line.isEmpty then return ()
  handle out (line.trimAscii.toString.splitOn " ")
  loop h out

def main : IO Unit := do
  let out ← IO.getStdout
  loop (← IO.getStdin) out

/-! Line driver for C10 (stub; replaced when the model is written). -/
def main : IO Unit := pure ()

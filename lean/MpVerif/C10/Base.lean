/-! # C10 — base types shared by the generated file `MpVerif/Gen/Status.lean` and the model -/
namespace MpVerif.C10

/-- What the (scripted) solver answers to the driver:
the solve code it reports through `SetStatus`, how many objective values it returns,
and whether it returns a primal / a dual vector.  `feasrelax` is the driver option
(only decorates the message: "feasrelax objective ..."). -/
structure Answer where
  code : Int
  nObj : Nat
  hasPrimal : Bool
  hasDual : Bool
  feasrelax : Bool := false
  /-- number of intermediate / pool solutions the backend reports through `ReportIntermediateSolution` -/
  nAlt : Nat := 0
  /-- option `sol:stub` given (then each intermediate solution is written to `<solstub>N.sol`) -/
  solStub : Bool := false
  /-- feasrelax: the solver also returned the original objective value -/
  origObj : Bool := false
  /-- options `alg:kappa` ≠ 0, `alg:rays` bit 1 / bit 2, `alg:iisfind` ≠ 0 -/
  kappaOpt : Bool := false
  rayPrimalOpt : Bool := false
  rayDualOpt : Bool := false
  iisOpt : Bool := false
  /-- round 4: the remaining atoms the reporting code branches on -/
  roundOpt : Bool := false      -- option mip:round ≠ 0
  isMIP : Bool := false         -- the model has integer variables
  extraMsg : Bool := false      -- the backend added lines through AddToSolverMessage
  countSol : Bool := false      -- option sol:count (multiple solutions wanted without a stub)
  altObj : Bool := true         -- the intermediate solutions carried objective values
  altChkFailed : Bool := false  -- some intermediate solution failed the solution check
  hasWarnings : Bool := false   -- GetWarnings() is non-empty
  solViolates : Bool := false   -- the reported solution violates the model (the automatic solution check would warn)
  timesOpt : Bool := false
  timingOpt : Bool := false
deriving Repr

/-- number of `ReportIntermediateSolution` calls (`kIntermSol_`): the backend reports its pool only when
    `need_multiple_solutions()` = a solution stub or sol:count is given -/
def Answer.nAltReported (a : Answer) : Nat := if a.solStub || a.countSol then a.nAlt else 0

end MpVerif.C10

namespace MpVerif.C10
/-- how the driver was invoked, as far as `AppSolutionHandlerImpl::HandleSolution` is concerned:
`-AMPL` given, value of option `wantsol` (bit sum 1 write .sol, 2 print primal, 4 print dual, 8 suppress message),
size of the banner already printed, whether anything was printed after it -/
structure AppCtx where
  ampl : Bool
  wantsol : Nat
  bannerSize : Nat := 0
  hasOutput : Bool := false
deriving Repr
end MpVerif.C10

namespace MpVerif.C10
/-- what `StdBackend::RoundSolution` sees: value of option `mip:round` (bit sum 1 assign rounded values, 2 "modify
solve_result", 4 modify solve_message), number of integer variables with a fractional value (`rndres.first`),
whether a status was set -/
structure RoundCtx where
  round : Nat
  nRounded : Nat
  retrieved : Bool := true
deriving Repr
end MpVerif.C10

namespace MpVerif.C10
/-! Boolean integer comparisons used by the generated predicates (so that unfolding an
enumerator does not leave a stale `Decidable` instance behind). -/
def leB (a b : Int) : Bool := decide (a ≤ b)
def ltB (a b : Int) : Bool := decide (a < b)
def geB (a b : Int) : Bool := decide (a ≥ b)
def gtB (a b : Int) : Bool := decide (a > b)
def eqB (a b : Int) : Bool := decide (a = b)
def neB (a b : Int) : Bool := decide (a ≠ b)
theorem leB_iff (a b : Int) : leB a b = true ↔ a ≤ b := by simp [leB]
theorem ltB_iff (a b : Int) : ltB a b = true ↔ a < b := by simp [ltB]
theorem geB_iff (a b : Int) : geB a b = true ↔ a ≥ b := by simp [geB]
theorem gtB_iff (a b : Int) : gtB a b = true ↔ a > b := by simp [gtB]
theorem eqB_iff (a b : Int) : eqB a b = true ↔ a = b := by simp [eqB]
theorem neB_iff (a b : Int) : neB a b = true ↔ a ≠ b := by simp [neB]
theorem leB_false (a b : Int) : leB a b = false ↔ ¬ a ≤ b := by simp [leB]
theorem ltB_false (a b : Int) : ltB a b = false ↔ ¬ a < b := by simp [ltB]
theorem geB_false (a b : Int) : geB a b = false ↔ ¬ a ≥ b := by simp [geB]
theorem gtB_false (a b : Int) : gtB a b = false ↔ ¬ a > b := by simp [gtB]
theorem eqB_false (a b : Int) : eqB a b = false ↔ ¬ a = b := by simp [eqB]
theorem neB_false (a b : Int) : neB a b = false ↔ ¬ a ≠ b := by simp [neB]
end MpVerif.C10

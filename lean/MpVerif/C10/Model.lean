import MpVerif.Gen.Status
/-!
# C10 — model

* `documented` / `documentedTable`: the classification written **by hand** from
  `doc/source/features-guide.rst`, section "Solve result codes" (the `-!` listing).
* `classify`: the driver's classification of a code through the pre-registered solve result
  table (`Gen.Status.registry`, generated from `SolveResultRegistry::SolveResultRegistry()`).
* `report`: hand model of the decision part of `StdBackend::ReportSolution2AMPL`
  (+ `FlatBackend::GetSolution`, `SolutionWriterImpl::HandleSolution`): what is shown in the
  solve message and what is passed to the `.sol` writer.

Core Lean only (the driver links this file).
-/
namespace MpVerif.C10
open MpVerif.Gen.Status

/-- The nine documented classes (+ "no class": codes outside 0..999). -/
inductive Class where
  | solved | uncertain | infeasible | unboundedFeas | unboundedNoFeas
  | limitFeas | limitInfUnb | limitNoFeas | failure | unclassified
deriving DecidableEq, Repr

def Class.toStr : Class → String
  | .solved => "solved" | .uncertain => "uncertain" | .infeasible => "infeasible"
  | .unboundedFeas => "unbounded-feas" | .unboundedNoFeas => "unbounded-nofeas"
  | .limitFeas => "limit-feas" | .limitInfUnb => "limit-inf-unb" | .limitNoFeas => "limit-nofeas"
  | .failure => "failure" | .unclassified => "none"

/-- features-guide.rst:
```
  0- 99 solved …   100-199 solved? …   200-299 infeasible
300-349 unbounded, feasible solution returned    350-399 unbounded, no feasible solution returned
400-449 limit, feasible …   450-469 limit, problem is either infeasible or unbounded
470-499 limit, no solution returned   500-999 failure, no solution returned
``` -/
def documented (c : Int) : Class :=
  if 0 ≤ c ∧ c ≤ 99 then .solved
  else if 100 ≤ c ∧ c ≤ 199 then .uncertain
  else if 200 ≤ c ∧ c ≤ 299 then .infeasible
  else if 300 ≤ c ∧ c ≤ 349 then .unboundedFeas
  else if 350 ≤ c ∧ c ≤ 399 then .unboundedNoFeas
  else if 400 ≤ c ∧ c ≤ 449 then .limitFeas
  else if 450 ≤ c ∧ c ≤ 469 then .limitInfUnb
  else if 470 ≤ c ∧ c ≤ 499 then .limitNoFeas
  else if 500 ≤ c ∧ c ≤ 999 then .failure
  else .unclassified

/-- The documented `-!` listing (range rows), with the class each row stands for. -/
def documentedTable : List (Int × Int × String × Class) := [
  (0, 99, "solved: optimal for an optimization problem, feasible for a satisfaction problem", .solved),
  (100, 199, "solved? solution candidate returned but error likely", .uncertain),
  (200, 299, "infeasible", .infeasible),
  (300, 349, "unbounded, feasible solution returned", .unboundedFeas),
  (350, 399, "unbounded, no feasible solution returned", .unboundedNoFeas),
  (400, 449, "limit, feasible: stopped, e.g., on iterations or Ctrl-C", .limitFeas),
  (450, 469, "limit, problem is either infeasible or unbounded", .limitInfUnb),
  (470, 499, "limit, no solution returned", .limitNoFeas),
  (500, 999, "failure, no solution returned", .failure)]

/-- documented single codes of the listing -/
def documentedSingles : List (Int × String) := [
  (150, "solved? MP solution check failed (option sol:chk:fail)"),
  (550, "failure: numeric issue, no feasible solution")]

/-- A solution candidate is indicated: solved, unbounded-with-solution, limit-with-solution. -/
def candidate (c : Int) : Bool :=
  documented c = .solved || documented c = .unboundedFeas || documented c = .limitFeas

/-- class announced by a description of the registry (the source has a trailing blank) -/
def classOfDescr (d : String) : Class :=
  match documentedTable.find? (fun r => d == r.2.2.1 || d == r.2.2.1 ++ " ") with
  | some r => r.2.2.2
  | none => .unclassified

/-- range rows of the pre-registered table with their class -/
def rangeRows : List (Int × Int × Class) :=
  (registry.filter (fun r => r.1 != r.2.1)).map (fun r => (r.1, r.2.1, classOfDescr r.2.2))

def lookup : List (Int × Int × Class) → Int → Class
  | [], _ => .unclassified
  | (a, b, k) :: rest, c => if a ≤ c ∧ c ≤ b then k else lookup rest c

/-- the class the registered table gives a code: first range row containing it -/
def classify (c : Int) : Class := lookup rangeRows c

/-- how many range rows contain `c` -/
def rowsContaining (c : Int) : Nat :=
  (rangeRows.filter (fun r => decide (r.1 ≤ c ∧ c ≤ r.2.1))).length

/-- The class each enumerator of `mp::sol::Status` announces by its name and its comment in
`common.h` (written by hand; `NOT_SET`, `UNKNOWN` are "don't register" codes outside 0..999;
`SPECIFIC`/`INTERRUPTED` = 600 are "codes not fitting in above categories", in the failure range). -/
def nameClassTable : List (String × Class) := [
  ("NOT_SET", .unclassified),
  ("UNKNOWN", .unclassified),
  ("SOLVED", .solved),
  ("SOLVED_LAST", .solved),
  ("UNCERTAIN", .uncertain),
  ("UNCERTAIN_LAST", .uncertain),
  ("MP_SOLUTION_CHECK", .uncertain),
  ("MP_SOLUTION_CHECK_LAST", .uncertain),
  ("INFEASIBLE", .infeasible),
  ("INFEASIBLE_LAST", .infeasible),
  ("INFEASIBLE_NO_IIS", .infeasible),
  ("INFEASIBLE_IIS", .infeasible),
  ("INFEASIBLE_IIS_FAILED", .infeasible),
  ("UNBOUNDED_FEAS", .unboundedFeas),
  ("UNBOUNDED_FEAS_LAST", .unboundedFeas),
  ("UNBOUNDED", .unboundedFeas),
  ("UNBOUNDED_NO_FEAS", .unboundedNoFeas),
  ("UNBOUNDED_NO_FEAS_LAST", .unboundedNoFeas),
  ("LIMIT_FEAS", .limitFeas),
  ("LIMIT_FEAS_NEW", .limitFeas),
  ("LIMIT_FEAS_LAST", .limitFeas),
  ("LIMIT", .limitFeas),
  ("LIMIT_FEAS_INTERRUPT", .limitFeas),
  ("LIMIT_FEAS_TIME", .limitFeas),
  ("LIMIT_FEAS_ITER", .limitFeas),
  ("LIMIT_FEAS_NODES", .limitFeas),
  ("LIMIT_FEAS_BESTOBJ_BESTBND", .limitFeas),
  ("LIMIT_FEAS_GAP", .limitFeas),
  ("LIMIT_FEAS_BESTOBJ", .limitFeas),
  ("LIMIT_FEAS_BESTBND", .limitFeas),
  ("LIMIT_FEAS_NUMSOLS", .limitFeas),
  ("LIMIT_FEAS_WORK", .limitFeas),
  ("LIMIT_FEAS_SOFTMEM", .limitFeas),
  ("LIMIT_FEAS_FAILURE", .limitFeas),
  ("LIMIT_INF_UNB", .limitInfUnb),
  ("LIMIT_INF_UNB_LAST", .limitInfUnb),
  ("INF_OR_UNB", .limitInfUnb),
  ("LIMIT_NO_FEAS", .limitNoFeas),
  ("LIMIT_NO_FEAS_NEW", .limitNoFeas),
  ("LIMIT_NO_FEAS_LAST", .limitNoFeas),
  ("LIMIT_NO_FEAS_INTERRUPT", .limitNoFeas),
  ("LIMIT_NO_FEAS_TIME", .limitNoFeas),
  ("LIMIT_NO_FEAS_ITER", .limitNoFeas),
  ("LIMIT_NO_FEAS_NODES", .limitNoFeas),
  ("LIMIT_NO_FEAS_CUTOFF", .limitNoFeas),
  ("LIMIT_NO_FEAS_BESTBND", .limitNoFeas),
  ("LIMIT_NO_FEAS_WORK", .limitNoFeas),
  ("LIMIT_NO_FEAS_SOFTMEM", .limitNoFeas),
  ("FAILURE", .failure),
  ("FAILURE_LAST", .failure),
  ("NUMERIC", .failure),
  ("SPECIFIC", .failure),
  ("INTERRUPTED", .failure)]

def nameClass (n : String) : Option Class :=
  (nameClassTable.find? (fun r => r.1 == n)).map (·.2)

/-! ## reporting -/

/-- What `ReportSolution2AMPL` produces, as far as the property is concerned. -/
structure Report where
  /-- the solve message contains "objective <value>" -/
  objectiveShown : Bool
  /-- status passed to `HandleSolution`, written as `objno N <code>` by the `.sol` writer -/
  codeWritten : Int
  /-- a primal / dual vector is passed on (non-null pointer) and therefore written -/
  primalPassed : Bool
  dualPassed : Bool
  /-- the `obj_value` argument is a number (not NaN) -/
  objValuePassed : Bool
  /-- the codes on the `objno N <code>` lines of `<solstub>1.sol`, `<solstub>2.sol`, … -/
  altCodes : List Int
deriving DecidableEq, Repr

/-- Hand model of `StdBackend::ReportSolution2AMPL`:
```
  if (IsProblemSolvedOrFeasible()) { if (sol.objvals.size()) { … write "objective {}" …
       (one value: obj_value = sol.objvals[0]) } }
  HandleSolution(SolveCode(), msg, sol.primal.empty()?0:…, sol.dual.empty()?0:…, obj_value)
```
(`GetSolution` of `FlatBackend` clears the post-solved vectors when the solver gave none.) -/
def report (a : Answer) : Report where
  objectiveShown := isProblemSolvedOrFeasible a.code && decide (a.nObj > 0)
  codeWritten := a.code
  primalPassed := a.hasPrimal
  dualPassed := a.hasDual
  objValuePassed := isProblemSolvedOrFeasible a.code && decide (a.nObj = 1)
  -- ReportIntermediateSolution: HandleFeasibleSolution(SolveCode(), …) -> SolutionWriterImpl::HandleFeasibleSolution
  -- writes `<solution_stub><n>.sol` with that status iff a solution stub is set
  altCodes := if a.solStub then List.replicate a.nAlt a.code else []

/-- Further observable uses of the classification in the reporting code
(`ReportSolution2AMPL`, `StdBackend::ReportStandardSuffixes`, `MIPBackend::ReportRays`,
`MIPBackend::CalculateAndReportIIS`). -/
structure Extras where
  /-- message has "; feasrelax objective <v>" (single-objective branch, option alg:feasrelax) -/
  feasrelaxShown : Bool
  /-- message has "Original objective = <v>" -/
  origObjShown : Bool
  /-- suffix `.kappa` returned:  `if (IsProblemSolved() && exportKappa()) ReportKappa()` -/
  kappaSuffix : Bool
  /-- suffix `.unbdd`:  `need_ray_primal() && (IsProblemUnbounded() || IsProblemIndiffInfOrUnb())` -/
  unbddSuffix : Bool
  /-- suffix `.dunbdd`: `need_ray_dual() && (IsProblemInfeasible() || IsProblemIndiffInfOrUnb())` -/
  dunbddSuffix : Bool
  /-- suffix `.iis`: `(IsProblemInfOrUnb() || IsProblemIndiffInfOrUnb()) && exportIIS` -/
  iisSuffix : Bool
  /-- the message carries the solution-check warning: `FlatBackend::GetSolution` passes `IsProblemInfeasible()` to the
      postsolver as "known infeasible", which skips the check -/
  solCheckWarning : Bool
deriving DecidableEq, Repr

def extras (a : Answer) : Extras where
  feasrelaxShown := isProblemSolvedOrFeasible a.code && decide (a.nObj = 1) && a.feasrelax
  origObjShown := isProblemSolvedOrFeasible a.code && decide (a.nObj = 1) && a.origObj
  kappaSuffix := isProblemSolved a.code && a.kappaOpt
  unbddSuffix := a.rayPrimalOpt && (isProblemUnbounded a.code || isProblemIndiffInfOrUnb a.code)
  dunbddSuffix := a.rayDualOpt && (isProblemInfeasible a.code || isProblemIndiffInfOrUnb a.code)
  iisSuffix := (isProblemInfOrUnb a.code || isProblemIndiffInfOrUnb a.code) && a.iisOpt
  solCheckWarning := a.solViolates && !isProblemInfeasible a.code


/-! ## Round 4: composition of the solve message, reporting steps, registry insertion (hand model; proved equal to
the definitions regenerated from the source in `MpVerif.Gen.StatusReport`, see `C10_gen_*` in Props) -/

/-- a solution candidate with objective values is being reported -/
def objGuard (a : Answer) : Bool := isProblemSolvedOrFeasible a.code && decide (a.nObj ≠ 0)

/-- `StdBackend::ReportSolution2AMPL`, step by step in source order: label and guard.
`write <fmt>` appends to the solve message. -/
def msgTable : List (String × (Answer → Bool)) := [
  ("write {}: {}", fun _ => true),                                   -- "<solver>: <status text>"
  ("write ; objective {}", fun a => isProblemSolvedOrFeasible a.code && decide (a.nObj ≠ 0) && decide (a.nObj > 1)),
  ("write \nIndividual objective values:", fun a => isProblemSolvedOrFeasible a.code && decide (a.nObj ≠ 0) && decide (a.nObj > 1)),
  ("each: write \n\t_sobj[{}] = {}", fun a => isProblemSolvedOrFeasible a.code && decide (a.nObj ≠ 0) && decide (a.nObj > 1)),
  ("set obj_value", fun a => isProblemSolvedOrFeasible a.code && decide (a.nObj ≠ 0) && (!decide (a.nObj > 1))),
  ("write ; ", fun a => isProblemSolvedOrFeasible a.code && decide (a.nObj ≠ 0) && (!decide (a.nObj > 1))),
  ("write feasrelax ", fun a => isProblemSolvedOrFeasible a.code && decide (a.nObj ≠ 0) && (!decide (a.nObj > 1)) && a.feasrelax),
  ("write objective {}", fun a => isProblemSolvedOrFeasible a.code && decide (a.nObj ≠ 0) && (!decide (a.nObj > 1))),
  ("write \nOriginal objective = {}", fun a => isProblemSolvedOrFeasible a.code && decide (a.nObj ≠ 0) && (!decide (a.nObj > 1)) && a.origObj),
  ("call RoundSolution", fun a => isProblemSolvedOrFeasible a.code && (a.roundOpt && a.isMIP)),
  ("write \nkappa value: {}", fun a => (a.kappaOpt && true)),
  ("write \n", fun a => a.extraMsg),
  ("write <solver_msg_extra_>", fun a => a.extraMsg),
  ("write \n{} alternative solution(s)\n  with objective values {}..{}\n  written to '{}1.sol' ... '{}{}.sol'.\n", fun a => decide (a.nAltReported ≠ 0) && a.altObj),
  ("write \n{} alternative solution(s)\n  written to '{}1.sol' ... '{}{}.sol'.\n", fun a => decide (a.nAltReported ≠ 0) && (!a.altObj)),
  ("write {} alternative solution checks failed.\n", fun a => decide (a.nAltReported ≠ 0) && a.altChkFailed),
  ("write \n{}", fun a => a.hasWarnings),
  ("call HandleSolution", fun _ => true)
]

/-- the steps executed for an answer, in order -/
def msgSteps (a : Answer) : List String := (msgTable.filter (fun p => p.2 a)).map (·.1)

/-- labels of the steps that put the objective value into the message -/
def objectiveLabels : List String := ["write ; objective {}", "write objective {}"]

/-- short names of the pieces the harness can recognise in a real message, in the order of `msgTable` -/
def marker (label : String) : Option String :=
  if label = "write {}: {}" then some "status"
  else if label = "write ; objective {}" ∨ label = "write objective {}" then some "objective"
  else if label = "write \nIndividual objective values:" then some "individual"
  else if label = "write feasrelax " then some "feasrelax"
  else if label = "write \nOriginal objective = {}" then some "original"
  else if label = "write \nkappa value: {}" then some "kappa"
  else if label = "write <solver_msg_extra_>" then some "extra"
  else if label = "write \n{} alternative solution(s)\n  with objective values {}..{}\n  written to '{}1.sol' ... '{}{}.sol'.\n" then some "alt"
  else if label = "write \n{} alternative solution(s)\n  written to '{}1.sol' ... '{}{}.sol'.\n" then some "alt"
  else if label = "write \n{}" then some "warnings"
  else none

/-- the recognisable pieces of the message for an answer, in order -/
def msgMarkers (a : Answer) : List String := (msgSteps a).filterMap marker

/-- the reporting sequence: `ReportResults` = suffixes, then the solution; `ReportSolution` = to AMPL (.sol), then via solver -/
def stepsReportResults : List String := ["ReportSuffixes", "ReportSolution"]
def stepsReportSolution : List String := ["ReportSolution2AMPL", "ReportSolutionViaSolver"]
def stepsReportSuffixes : List String := ["ReportStandardSuffixes", "ReportCustomSuffixes"]

/-- the status predicates of `StdBackend` covered by `Gen.Status.predTable` -/
def predicateNames : List String := ["IsProblemIndiffInfOrUnb", "IsProblemInfOrUnb", "IsProblemInfeasible", "IsProblemSolved",
  "IsProblemSolvedOrFeasible", "IsProblemUnbounded", "IsSolStatusRetrieved"]

/-! ### the solve result registry (`std::set<RegEntry>`, `SolveResultRegistry::AddSolveResults`) -/

/-- `RegEntry::operator<`: by first code; among entries starting at the same code the wider range first
    ("range 100-199 before range 100-149 before single code 100") -/
def regLt (x y : Int × Int) : Bool := decide (x.1 < y.1) || (decide (x.1 = y.1) && decide (x.2 > y.2))

/-- entries are "the same key" for the set iff neither is less -/
def regEquiv (x y : Int × Int) : Bool := !regLt x y && !regLt y x

abbrev RegRow := Int × Int × String

/-- ordered insertion into the set; an equivalent key already present is *kept* (`std::set::insert` does not overwrite) -/
def regInsert : List RegRow → RegRow → List RegRow
  | [], e => [e]
  | r :: rs, e =>
    if regLt (e.1, e.2.1) (r.1, r.2.1) then e :: r :: rs
    else if regLt (r.1, r.2.1) (e.1, e.2.1) then r :: regInsert rs e
    else r :: rs

def regPresent (reg : List RegRow) (e : RegRow) : Bool := reg.any (fun r => regEquiv (r.1, r.2.1) (e.1, e.2.1))

/-- `AddSolveResults(sm, ifCanReplace)`: entries of `sm` one after the other; `none` = error raised
    ("Duplicated solve code range") -/
def addResults (reg : List RegRow) (sm : List RegRow) (canReplace : Bool) : Option (List RegRow) :=
  match sm with
  | [] => some reg
  | e :: rest =>
    if !canReplace && regPresent reg e then none
    else addResults (regInsert reg e) rest canReplace


/-! ## Round 7: where the solve message and the .sol file appear (`AppSolutionHandlerImpl::HandleSolution`), and the
option bits of `alg:rays` (hand model; proved equal to `MpVerif.Gen.StatusFlags`, see `C10_gen_app_*`, `C10_gen_ray_bits`) -/

/-- the .sol file (message + `objno N code`) is written: under `-AMPL`, or when wantsol has bit 1 -/
def solFileWritten (x : AppCtx) : Bool := x.ampl || x.wantsol.testBit 0
/-- the solve message is printed on stdout: stand-alone run whose wantsol has not bit 8 -/
def messagePrinted (x : AppCtx) : Bool := !x.ampl && !x.wantsol.testBit 3
def primalPrinted (x : AppCtx) : Bool := !x.ampl && x.wantsol.testBit 1
def dualPrinted (x : AppCtx) : Bool := !x.ampl && x.wantsol.testBit 2

/-- `alg:rays`: bit 1 = return `.unbdd`, bit 2 = return `.dunbdd` -/
def rayPrimalOfOption (rays : Nat) : Bool := rays.testBit 0
def rayDualOfOption (rays : Nat) : Bool := rays.testBit 1


/-! ## Round 8: what rounding (`mip:round`) may do to the code and the message (hand model; proved equal to the
definitions generated from `RoundSolution` / `ModifySolveCodeAndMessageAfterRounding` / `DoRound`, see `C10_gen_round_*`) -/

/-- the note "N integer variable(s) [would be] rounded to integer" is appended: something was fractional and bit 4 is set -/
def roundNoteShown (x : RoundCtx) : Bool := decide (x.nRounded ≠ 0) && x.round.testBit 2
/-- the note says "would be rounded": bit 1 (assign) is not set -/
def roundNoteWouldBe (x : RoundCtx) : Bool := roundNoteShown x && !x.round.testBit 0
/-- the rounded values replace the solver's: bit 1 -/
def roundValuesAssigned (x : RoundCtx) : Bool := x.round.testBit 0
/-- rounding never changes the solve code — also not with bit 2 ("Modify solve_result" in the option text): the block
    `if (round() & 2 && IsSolStatusRetrieved()) { }` is empty -/
def roundChangesCode (_ : RoundCtx) : Bool := false

/-- the rounding note is in the final message: `ReportSolution2AMPL` calls `RoundSolution` (candidate code, MIP, option set) and the note is shown -/
def roundNoteInMessage (a : Answer) (x : RoundCtx) : Bool :=
  (isProblemSolvedOrFeasible a.code && (a.roundOpt && a.isMIP)) && roundNoteShown x

def b2s (b : Bool) : String := if b then "1" else "0"

def Report.toStr (r : Report) : String :=
  s!"objShown={b2s r.objectiveShown} code={r.codeWritten} primal={b2s r.primalPassed} dual={b2s r.dualPassed} objval={b2s r.objValuePassed} alt={",".intercalate (r.altCodes.map toString)}"

def Extras.toStr (r : Extras) : String :=
  s!"fr={b2s r.feasrelaxShown} orig={b2s r.origObjShown} kappa={b2s r.kappaSuffix} unbdd={b2s r.unbddSuffix} dunbdd={b2s r.dunbddSuffix} iis={b2s r.iisSuffix} chk={b2s r.solCheckWarning}"

end MpVerif.C10

import MpVerif.C10.Lemmas
/-!
# C10 — solve-result codes are classified and reported as documented

Property theorems only.  `Gen.Status.*` (enumerators of `mp::sol::Status`, the
`StdBackend::IsProblem*` range predicates, the pre-registered solve result table and the guard
structure of `ReportSolution2AMPL`) are *regenerated on every run* from the working tree by
`translators/gen_status.py`, so every theorem is re-checked against the code as it is now.
`documented`, `documentedTable`, `candidate` are written by hand from
`doc/source/features-guide.rst`.

All theorems quantify over **every** `c : Int` (not only −200..999) and every answer.

(Version for the tree with repo_patches/C10-fix-*.diff applied: every statement at full strength.)
-/
namespace MpVerif.C10
open MpVerif.Gen.Status

/-! ## 1. The enumeration `mp::sol::Status` -/

/-- translator's reading of every enumerator expression = the value clang computed -/
theorem C10_enum_values : ∀ r ∈ enumTable, r.2.1 = r.2.2 := by decide

/-- every enumerator lies in the documented class its name announces
    (`LIMIT_FEAS_TIME` in 400–449, `INFEASIBLE_IIS` in 200–299, `NUMERIC` in 500–999 …;
    `NOT_SET`, `UNKNOWN` outside 0..999).  A new enumerator with an unknown name fails this. -/
theorem C10_enum_class : ∀ r ∈ enumTable, nameClass r.1 = some (documented r.2.1) := by decide

/-- the range delimiters `X` / `X_LAST` are the documented bounds -/
theorem C10_enum_bounds :
    (SOLVED, SOLVED_LAST) = (0, 99) ∧ (UNCERTAIN, UNCERTAIN_LAST) = (100, 199) ∧
    (INFEASIBLE, INFEASIBLE_LAST) = (200, 299) ∧ (UNBOUNDED_FEAS, UNBOUNDED_FEAS_LAST) = (300, 349) ∧
    (UNBOUNDED_NO_FEAS, UNBOUNDED_NO_FEAS_LAST) = (350, 399) ∧ (LIMIT_FEAS, LIMIT_FEAS_LAST) = (400, 449) ∧
    (LIMIT_INF_UNB, LIMIT_INF_UNB_LAST) = (450, 469) ∧ (LIMIT_NO_FEAS, LIMIT_NO_FEAS_LAST) = (470, 499) ∧
    (FAILURE, FAILURE_LAST) = (500, 999) ∧ NOT_SET = -200 ∧ UNKNOWN = -1 ∧
    MP_SOLUTION_CHECK = 150 ∧ NUMERIC = 550 := by decide

/-! ## 2. The pre-registered solve result table (what `-!` prints) -/

/-- the range rows registered by `SolveResultRegistry()` are exactly the documented rows: same bounds,
    and the description is the documented one (modulo the trailing blank of the source) -/
theorem C10_registry_rows : rangeRows = documentedTable.map (fun r => (r.1, r.2.1, r.2.2.2)) := by decide

theorem C10_rangeRows_eq : rangeRows =
    [(0, 99, .solved), (100, 199, .uncertain), (200, 299, .infeasible), (300, 349, .unboundedFeas),
     (350, 399, .unboundedNoFeas), (400, 449, .limitFeas), (450, 469, .limitInfUnb),
     (470, 499, .limitNoFeas), (500, 999, .failure)] := by decide

/-- **classification = documented ranges**, for every integer -/
theorem C10_ranges (c : Int) : classify c = documented c := by
  unfold classify; rw [C10_rangeRows_eq]
  simp only [lookup, documented]
  repeat' split
  all_goals first | rfl | omega

/-- the range rows are pairwise disjoint and cover exactly 0..999 -/
theorem C10_ranges_partition (c : Int) :
    rowsContaining c = if 0 ≤ c ∧ c ≤ 999 then 1 else 0 := by
  unfold rowsContaining; rw [C10_rangeRows_eq]
  simp only [List.filter]
  repeat' split
  all_goals first | rfl | (simp only [decide_eq_true_eq, decide_eq_false_iff_not] at *; omega)

/-- every single code pre-registered is a documented single code with the documented text -/
theorem C10_registry_singles : ∀ r ∈ registry, r.1 = r.2.1 →
    (r.1, r.2.2) ∈ documentedSingles ∨ (r.1, r.2.2) ∈ documentedSingles.map (fun s => (s.1, s.2 ++ " ")) := by
  decide

/-! ## 3. The range predicates of `StdBackend` -/

theorem C10_solved_iff (c : Int) : isProblemSolved c = true ↔ documented c = .solved := by
  c10_doc; c10_unfold_gen <;> omega

theorem C10_indiffInfOrUnb_iff (c : Int) :
    isProblemIndiffInfOrUnb c = true ↔ documented c = .limitInfUnb := by
  c10_doc; c10_unfold_gen <;> omega

theorem C10_unbounded_iff (c : Int) :
    isProblemUnbounded c = true ↔ documented c = .unboundedFeas ∨ documented c = .unboundedNoFeas := by
  c10_doc; c10_unfold_gen <;> omega

theorem C10_infOrUnb_iff (c : Int) :
    isProblemInfOrUnb c = true ↔
      documented c = .infeasible ∨ documented c = .unboundedFeas ∨ documented c = .unboundedNoFeas
      ∨ documented c = .limitInfUnb := by
  c10_doc; c10_unfold_gen <;> omega

theorem C10_retrieved_iff (c : Int) : isSolStatusRetrieved c = true ↔ c ≠ -200 := by
  c10_unfold_gen; omega

theorem C10_infeasible_iff (c : Int) : isProblemInfeasible c = true ↔ documented c = .infeasible := by
  c10_doc; c10_unfold_gen <;> omega

theorem C10_solvedOrFeasible_iff (c : Int) : isProblemSolvedOrFeasible c = true ↔ candidate c = true := by
  c10_doc; c10_unfold_gen <;> omega

/-- solved ⇒ solved-or-feasible; infeasible ⇒ inf-or-unb; unbounded ⇒ inf-or-unb; indiff ⇒ inf-or-unb -/
theorem C10_predicate_inclusions (c : Int) :
    (isProblemSolved c = true → isProblemSolvedOrFeasible c = true) ∧
    (isProblemInfeasible c = true → isProblemInfOrUnb c = true) ∧
    (isProblemUnbounded c = true → isProblemInfOrUnb c = true) ∧
    (isProblemIndiffInfOrUnb c = true → isProblemInfOrUnb c = true) ∧
    (isProblemSolved c = true → isProblemInfOrUnb c = false) := by
  refine ⟨?_, ?_, ?_, ?_, ?_⟩
  all_goals (intro h; try rw [Bool.eq_false_iff]; try intro h2); c10_unfold_gen; omega

/-! ## 4. What is reported -/

/-- the hand model of `ReportSolution2AMPL` agrees with the guard structure extracted from the source -/
theorem C10_report_model_eq_generated (a : Answer) : report a = reportGen a := by
  unfold report reportGen
  have h : objectiveWritten a = (isProblemSolvedOrFeasible a.code && decide (a.nObj > 0)) := by
    unfold objectiveWritten
    cases isProblemSolvedOrFeasible a.code <;> by_cases h0 : a.nObj = 0 <;> by_cases h1 : a.nObj > 1 <;>
      simp [h0, h1] <;> omega
  rw [h]; rfl

/-- the code written to the `.sol` file is the code the backend reported -/
theorem C10_code_echo (a : Answer) : (report a).codeWritten = a.code := rfl

/-- … also in every numbered file `<solstub>N.sol` written for an intermediate / pool solution
    (`ReportIntermediateSolution`), for every code and any number of such solutions -/
theorem C10_alt_code_echo (a : Answer) : ∀ c ∈ (report a).altCodes, c = a.code := by
  unfold report
  intro c hc
  by_cases h : a.solStub = true
  · simp only [h, if_true] at hc; exact (List.mem_replicate.mp hc).2
  · simp only [h] at hc; simp at hc

/-- one numbered file per reported intermediate solution iff a solution stub is set -/
theorem C10_alt_files_count (a : Answer) :
    (report a).altCodes.length = if a.solStub = true then a.nAlt else 0 := by
  unfold report
  by_cases h : a.solStub = true <;> simp [h]

/-- the same through the generated forwarding chain (BackendWithModelManager → model manager → writer) -/
theorem C10_chain_forwards_code (a : Answer) : finalCodeWritten a = a.code ∧ altCodeWritten a = a.code := by
  constructor <;> c10_unfold_gen

/-- primal / dual vectors are passed on exactly when the solver returned them -/
theorem C10_vectors_echo (a : Answer) :
    (report a).primalPassed = a.hasPrimal ∧ (report a).dualPassed = a.hasDual := ⟨rfl, rfl⟩

/-- **the objective value appears exactly when a solution candidate is indicated** (and a value exists) -/
theorem C10_objective_iff (a : Answer) :
    (report a).objectiveShown = true ↔ (candidate a.code = true ∧ a.nObj > 0) := by
  unfold report
  simp only [Bool.and_eq_true, decide_eq_true_eq, C10_solvedOrFeasible_iff a.code]
/-- the objective value is never shown without objective values, whatever the code -/
theorem C10_no_objective_no_value (a : Answer) (h : a.nObj = 0) : (report a).objectiveShown = false := by
  unfold report; simp [h]

/-! ## 5. Other observable uses of the classification (message variants, suffixes) -/

/-- "feasrelax objective" / "Original objective" appear only together with the objective value, i.e. exactly for
    candidate codes (single objective) -/
theorem C10_feasrelax_shown_iff (a : Answer) :
    ((extras a).feasrelaxShown = true ↔ (candidate a.code = true ∧ a.nObj = 1 ∧ a.feasrelax = true)) ∧
    ((extras a).origObjShown = true ↔ (candidate a.code = true ∧ a.nObj = 1 ∧ a.origObj = true)) := by
  unfold extras
  simp only [Bool.and_eq_true, decide_eq_true_eq, C10_solvedOrFeasible_iff a.code, and_assoc, and_self]

/-- suffix `.kappa` exactly for solved codes (when requested) -/
theorem C10_kappa_suffix_iff (a : Answer) :
    (extras a).kappaSuffix = true ↔ (documented a.code = .solved ∧ a.kappaOpt = true) := by
  unfold extras
  simp only [Bool.and_eq_true, C10_solved_iff a.code]

/-- suffix `.unbdd` exactly for unbounded (300–399) and undecided (450–469) codes (when requested) -/
theorem C10_unbdd_suffix_iff (a : Answer) :
    (extras a).unbddSuffix = true ↔ (a.rayPrimalOpt = true ∧
      (documented a.code = .unboundedFeas ∨ documented a.code = .unboundedNoFeas ∨ documented a.code = .limitInfUnb)) := by
  unfold extras
  simp only [Bool.and_eq_true, Bool.or_eq_true, C10_unbounded_iff a.code, C10_indiffInfOrUnb_iff a.code, or_assoc]

/-- suffix `.dunbdd` exactly for infeasible (200–299) and undecided (450–469) codes (when requested) -/
theorem C10_dunbdd_suffix_iff (a : Answer) :
    (extras a).dunbddSuffix = true ↔ (a.rayDualOpt = true ∧
      (documented a.code = .infeasible ∨ documented a.code = .limitInfUnb)) := by
  unfold extras
  simp only [Bool.and_eq_true, Bool.or_eq_true, C10_infeasible_iff a.code, C10_indiffInfOrUnb_iff a.code]

/-- an IIS is computed and returned exactly for infeasible / unbounded / undecided codes (when requested) -/
theorem C10_iis_suffix_iff (a : Answer) :
    (extras a).iisSuffix = true ↔ ((documented a.code = .infeasible ∨ documented a.code = .unboundedFeas ∨
      documented a.code = .unboundedNoFeas ∨ documented a.code = .limitInfUnb) ∧ a.iisOpt = true) := by
  unfold extras
  simp only [Bool.and_eq_true, Bool.or_eq_true, C10_infOrUnb_iff a.code, C10_indiffInfOrUnb_iff a.code, or_assoc, or_self]

/-! ## non-vacuity (concrete instances; named so that a failure is attributed to them) -/
theorem C10_witness_solved : isProblemSolved 0 = true ∧ isProblemSolved 99 = true ∧ isProblemSolved 100 = false := by decide
theorem C10_witness_ranges : classify 402 = .limitFeas ∧ classify 1000 = .unclassified ∧ classify (-1) = .unclassified := by decide
theorem C10_witness_objective :
    (report { code := 0, nObj := 1, hasPrimal := true, hasDual := true }).objectiveShown = true ∧ (report { code := 250, nObj := 1, hasPrimal := true, hasDual := false }).objectiveShown = false ∧
    (report { code := 0, nObj := 0, hasPrimal := true, hasDual := true }).objectiveShown = false := by decide
theorem C10_witness_fixed : (report { code := 402, nObj := 1, hasPrimal := true, hasDual := false }).objectiveShown = true ∧ (report { code := 300, nObj := 1, hasPrimal := false, hasDual := false }).objectiveShown = true ∧
    isProblemInfeasible 299 = true := by decide
theorem C10_witness_code : (report { code := 567, nObj := 0, hasPrimal := false, hasDual := true }).codeWritten = 567 := by decide
theorem C10_witness_alt :
    (report { code := 402, nObj := 1, hasPrimal := true, hasDual := true, nAlt := 2, solStub := true }).altCodes = [402, 402] ∧
    (report { code := 402, nObj := 1, hasPrimal := true, hasDual := true, nAlt := 2, solStub := false }).altCodes = [] := by decide
theorem C10_witness_infeasible : ∃ c, documented c = .infeasible ∧ isProblemInfeasible c = true := ⟨200, by decide⟩

end MpVerif.C10

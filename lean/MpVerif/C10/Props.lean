import MpVerif.C10.Lemmas
import MpVerif.C10.ModelGen
/-!
# C10 — solve-result codes are classified and reported as documented

Property theorems only.  `Gen.Status.*` (enumerators of `mp::sol::Status`, the
`StdBackend::IsProblem*` range predicates, the pre-registered solve result table and the guard
structure of `ReportSolution2AMPL`) are *regenerated on every run* from the working tree by
`translators/gen_status.py`, so every theorem is re-checked against the code as it is now.
`documented`, `documentedTable`, `candidate` are written by hand from
`doc/source/features-guide.rst`.

All theorems quantify over **every** `c : Int` (not only −200..999) and every answer.

(Version for the tree with repo_patches/C10-fix-*.diff applied: every statement at full strength.)

Statement audit (round 4): every theorem with a hypothesis, and every `↔`, is followed by `example`s exhibiting concrete
non-trivial instances (both directions for `↔`).  Theorems about the hand model (`report`, `extras`, `msgTable`, `regLt`,
`addResults`) are transferred to the definitions regenerated from the source by the `C10_gen_*` /
`C10_report_model_eq_generated` theorems; `C10_code_echo_generated` states the code clause directly about them.
Totalised definitions: `classify`/`lookup` return `.unclassified` when no row contains the code — this is also the
documented answer (`C10_ranges`, `C10_ranges_partition` show it is not a default hiding an overlap); `nameClass` returns
`none` for an unknown enumerator and `C10_enum_class` demands `some`; the predicates `assert(IsSolStatusRetrieved())`
in the source: `C10_not_set_unclassified` covers the excluded code −200 (NDEBUG behaviour: no class at all).
-/
namespace MpVerif.C10
open MpVerif.Gen.Status

/-! ## 1. The enumeration `mp::sol::Status` -/

/-- translator's reading of every enumerator expression = the value clang computed -/
theorem C10_enum_values : ∀ r ∈ enumTable, r.2.1 = r.2.2 := by decide

/-- every enumerator lies in the documented class its name announces
    (`LIMIT_FEAS_TIME` in 400–449, `INFEASIBLE_IIS` in 200–299, `NUMERIC` in 500–999 …;
    `NOT_SET`, `UNKNOWN` outside 0..999).  A new enumerator with an unknown name fails this. -/
theorem C10_enum_class : ∀ r ∈ enumTable, nameClass r.1 = some (documented r.2.1) := by decide

/-- the range delimiters `X` / `X_LAST` are the documented bounds -/
theorem C10_enum_bounds :
    (SOLVED, SOLVED_LAST) = (0, 99) ∧ (UNCERTAIN, UNCERTAIN_LAST) = (100, 199) ∧
    (INFEASIBLE, INFEASIBLE_LAST) = (200, 299) ∧ (UNBOUNDED_FEAS, UNBOUNDED_FEAS_LAST) = (300, 349) ∧
    (UNBOUNDED_NO_FEAS, UNBOUNDED_NO_FEAS_LAST) = (350, 399) ∧ (LIMIT_FEAS, LIMIT_FEAS_LAST) = (400, 449) ∧
    (LIMIT_INF_UNB, LIMIT_INF_UNB_LAST) = (450, 469) ∧ (LIMIT_NO_FEAS, LIMIT_NO_FEAS_LAST) = (470, 499) ∧
    (FAILURE, FAILURE_LAST) = (500, 999) ∧ NOT_SET = -200 ∧ UNKNOWN = -1 ∧
    MP_SOLUTION_CHECK = 150 ∧ NUMERIC = 550 := by decide

/-! ## 2. The pre-registered solve result table (what `-!` prints) -/

/-- the range rows registered by `SolveResultRegistry()` are exactly the documented rows: same bounds,
    and the description is the documented one (modulo the trailing blank of the source) -/
theorem C10_registry_rows : rangeRows = documentedTable.map (fun r => (r.1, r.2.1, r.2.2.2)) := by decide

theorem C10_rangeRows_eq : rangeRows =
    [(0, 99, .solved), (100, 199, .uncertain), (200, 299, .infeasible), (300, 349, .unboundedFeas),
     (350, 399, .unboundedNoFeas), (400, 449, .limitFeas), (450, 469, .limitInfUnb),
     (470, 499, .limitNoFeas), (500, 999, .failure)] := by decide

/-- **classification = documented ranges**, for every integer -/
theorem C10_ranges (c : Int) : classify c = documented c := by
  unfold classify; rw [C10_rangeRows_eq]
  simp only [lookup, documented]
  repeat' split
  all_goals first | rfl | omega

/-- the range rows are pairwise disjoint and cover exactly 0..999 -/
theorem C10_ranges_partition (c : Int) :
    rowsContaining c = if 0 ≤ c ∧ c ≤ 999 then 1 else 0 := by
  unfold rowsContaining; rw [C10_rangeRows_eq]
  simp only [List.filter]
  repeat' split
  all_goals first | rfl | (simp only [decide_eq_true_eq, decide_eq_false_iff_not] at *; omega)

/-- every single code pre-registered is a documented single code with the documented text -/
theorem C10_registry_singles : ∀ r ∈ registry, r.1 = r.2.1 →
    (r.1, r.2.2) ∈ documentedSingles ∨ (r.1, r.2.2) ∈ documentedSingles.map (fun s => (s.1, s.2 ++ " ")) := by
  decide

/-! ## 3. The range predicates of `StdBackend` -/

theorem C10_solved_iff (c : Int) : isProblemSolved c = true ↔ documented c = .solved := by
  c10_doc; c10_unfold_gen <;> omega

theorem C10_indiffInfOrUnb_iff (c : Int) :
    isProblemIndiffInfOrUnb c = true ↔ documented c = .limitInfUnb := by
  c10_doc; c10_unfold_gen <;> omega

theorem C10_unbounded_iff (c : Int) :
    isProblemUnbounded c = true ↔ documented c = .unboundedFeas ∨ documented c = .unboundedNoFeas := by
  c10_doc; c10_unfold_gen <;> omega

theorem C10_infOrUnb_iff (c : Int) :
    isProblemInfOrUnb c = true ↔
      documented c = .infeasible ∨ documented c = .unboundedFeas ∨ documented c = .unboundedNoFeas
      ∨ documented c = .limitInfUnb := by
  c10_doc; c10_unfold_gen <;> omega

theorem C10_retrieved_iff (c : Int) : isSolStatusRetrieved c = true ↔ c ≠ -200 := by
  c10_unfold_gen; omega

theorem C10_infeasible_iff (c : Int) : isProblemInfeasible c = true ↔ documented c = .infeasible := by
  c10_doc; c10_unfold_gen <;> omega

theorem C10_solvedOrFeasible_iff (c : Int) : isProblemSolvedOrFeasible c = true ↔ candidate c = true := by
  c10_doc; c10_unfold_gen <;> omega

/-- decide one predicate value from an interval hypothesis in the context -/
macro "c10_pred" : tactic => `(tactic| first
  | (c10_unfold_gen; omega)
  | (rw [Bool.eq_false_iff]; intro hh; c10_unfold_gen; omega))

/-- all six range predicates at once: the vector of answers is a function of the documented class
    (so "limit, no solution" 470–499 and "failure" 500–999, which have no predicate of their own, are exactly the
    codes in 0..999 on which every predicate is false, together with "solved?" 100–199) -/
theorem C10_predicates_by_class (c : Int) :
    (isProblemSolved c, isProblemSolvedOrFeasible c, isProblemInfeasible c, isProblemUnbounded c,
     isProblemIndiffInfOrUnb c, isProblemInfOrUnb c) =
    (match documented c with
     | .solved => (true, true, false, false, false, false)
     | .unboundedFeas => (false, true, false, true, false, true)
     | .unboundedNoFeas => (false, false, false, true, false, true)
     | .limitFeas => (false, true, false, false, false, false)
     | .infeasible => (false, false, true, false, false, true)
     | .limitInfUnb => (false, false, false, false, true, true)
     | .uncertain | .limitNoFeas | .failure | .unclassified => (false, false, false, false, false, false)) := by
  have hcases : c < 0 ∨ (0 ≤ c ∧ c ≤ 99) ∨ (100 ≤ c ∧ c ≤ 199) ∨ (200 ≤ c ∧ c ≤ 299) ∨ (300 ≤ c ∧ c ≤ 349) ∨ (350 ≤ c ∧ c ≤ 399) ∨
      (400 ≤ c ∧ c ≤ 449) ∨ (450 ≤ c ∧ c ≤ 469) ∨ (470 ≤ c ∧ c ≤ 499) ∨ (500 ≤ c ∧ c ≤ 999) ∨ 999 < c := by omega
  rcases hcases with h | h | h | h | h | h | h | h | h | h | h
  case inl => rw [(doc_unclassified c).mpr (Or.inl h)]; simp only [Prod.mk.injEq]; refine ⟨?_, ?_, ?_, ?_, ?_, ?_⟩ <;> c10_pred
  case inr.inl => rw [(doc_solved c).mpr h]; simp only [Prod.mk.injEq]; refine ⟨?_, ?_, ?_, ?_, ?_, ?_⟩ <;> c10_pred
  case inr.inr.inl => rw [(doc_uncertain c).mpr h]; simp only [Prod.mk.injEq]; refine ⟨?_, ?_, ?_, ?_, ?_, ?_⟩ <;> c10_pred
  case inr.inr.inr.inl => rw [(doc_infeasible c).mpr h]; simp only [Prod.mk.injEq]; refine ⟨?_, ?_, ?_, ?_, ?_, ?_⟩ <;> c10_pred
  case inr.inr.inr.inr.inl => rw [(doc_unboundedFeas c).mpr h]; simp only [Prod.mk.injEq]; refine ⟨?_, ?_, ?_, ?_, ?_, ?_⟩ <;> c10_pred
  case inr.inr.inr.inr.inr.inl => rw [(doc_unboundedNoFeas c).mpr h]; simp only [Prod.mk.injEq]; refine ⟨?_, ?_, ?_, ?_, ?_, ?_⟩ <;> c10_pred
  case inr.inr.inr.inr.inr.inr.inl => rw [(doc_limitFeas c).mpr h]; simp only [Prod.mk.injEq]; refine ⟨?_, ?_, ?_, ?_, ?_, ?_⟩ <;> c10_pred
  case inr.inr.inr.inr.inr.inr.inr.inl => rw [(doc_limitInfUnb c).mpr h]; simp only [Prod.mk.injEq]; refine ⟨?_, ?_, ?_, ?_, ?_, ?_⟩ <;> c10_pred
  case inr.inr.inr.inr.inr.inr.inr.inr.inl => rw [(doc_limitNoFeas c).mpr h]; simp only [Prod.mk.injEq]; refine ⟨?_, ?_, ?_, ?_, ?_, ?_⟩ <;> c10_pred
  case inr.inr.inr.inr.inr.inr.inr.inr.inr.inl => rw [(doc_failure c).mpr h]; simp only [Prod.mk.injEq]; refine ⟨?_, ?_, ?_, ?_, ?_, ?_⟩ <;> c10_pred
  case inr.inr.inr.inr.inr.inr.inr.inr.inr.inr => rw [(doc_unclassified c).mpr (Or.inr h)]; simp only [Prod.mk.injEq]; refine ⟨?_, ?_, ?_, ?_, ?_, ?_⟩ <;> c10_pred

/-- the code −200 (`NOT_SET`, excluded by the `assert`s of the source) and every other code outside 0..999 has no class -/
theorem C10_not_set_unclassified :
    documented NOT_SET = .unclassified ∧ isSolStatusRetrieved NOT_SET = false ∧
    (∀ c : Int, (c < 0 ∨ 999 < c) → (isProblemSolved c, isProblemSolvedOrFeasible c, isProblemInfeasible c, isProblemUnbounded c,
        isProblemIndiffInfOrUnb c, isProblemInfOrUnb c) = (false, false, false, false, false, false)) := by
  refine ⟨by decide, by decide, ?_⟩
  intro c hc
  have := C10_predicates_by_class c
  have hd : documented c = .unclassified := (doc_unclassified c).mpr hc
  rw [hd] at this; exact this

-- instances for the `↔` theorems above (one per direction)
example : isProblemSolved 57 = true ∧ documented 57 = .solved := by decide
example : isProblemSolved 100 = false ∧ documented 100 ≠ .solved := by decide
example : isProblemSolvedOrFeasible 430 = true ∧ candidate 430 = true := by decide
example : isProblemSolvedOrFeasible 350 = false ∧ candidate 350 = false := by decide
example : isProblemInfeasible 299 = true ∧ documented 299 = .infeasible := by decide
example : isProblemInfeasible 300 = false ∧ documented 300 ≠ .infeasible := by decide
example : isProblemUnbounded 399 = true ∧ isProblemUnbounded 400 = false := by decide
example : isProblemIndiffInfOrUnb 469 = true ∧ isProblemIndiffInfOrUnb 470 = false := by decide
example : isProblemInfOrUnb 455 = true ∧ isProblemInfOrUnb 420 = false := by decide
example : isSolStatusRetrieved (-200) = false ∧ isSolStatusRetrieved (-199) = true := by decide

/-- solved ⇒ solved-or-feasible; infeasible ⇒ inf-or-unb; unbounded ⇒ inf-or-unb; indiff ⇒ inf-or-unb -/
theorem C10_predicate_inclusions (c : Int) :
    (isProblemSolved c = true → isProblemSolvedOrFeasible c = true) ∧
    (isProblemInfeasible c = true → isProblemInfOrUnb c = true) ∧
    (isProblemUnbounded c = true → isProblemInfOrUnb c = true) ∧
    (isProblemIndiffInfOrUnb c = true → isProblemInfOrUnb c = true) ∧
    (isProblemSolved c = true → isProblemInfOrUnb c = false) := by
  refine ⟨?_, ?_, ?_, ?_, ?_⟩
  all_goals (intro h; try rw [Bool.eq_false_iff]; try intro h2); c10_unfold_gen; omega

/-! ## 4. What is reported -/

/-- the hand model `report` equals `reportGen`, which consists only of definitions regenerated from the source:
    objective guard, code through all forwarding hops down to the `objno` line, the pointer arguments of
    `HandleSolution` after `FlatBackend::GetSolution`, the guard of `obj_value`, codes of the numbered files -/
theorem C10_report_model_eq_generated (a : Answer) : report a = reportGen a := by
  unfold report reportGen
  have h : objectiveWritten a = (isProblemSolvedOrFeasible a.code && decide (a.nObj > 0)) := by
    unfold objectiveWritten
    cases isProblemSolvedOrFeasible a.code <;> by_cases h0 : a.nObj = 0 <;> by_cases h1 : a.nObj > 1 <;>
      simp [h0, h1] <;> omega
  have hv : Gen.StatusReport.handleObjValuePassed a = (isProblemSolvedOrFeasible a.code && decide (a.nObj = 1)) := by
    unfold Gen.StatusReport.handleObjValuePassed Gen.StatusReport.objValueSetGuard
    cases isProblemSolvedOrFeasible a.code <;> by_cases h0 : a.nObj = 0 <;> by_cases h1 : a.nObj > 1 <;>
      simp [h0, h1] <;> omega
  have hp : Gen.StatusReport.handlePrimalPassed a = a.hasPrimal := by
    unfold Gen.StatusReport.handlePrimalPassed Gen.StatusReport.solPrimalNonEmpty; cases a.hasPrimal <;> rfl
  have hd : Gen.StatusReport.handleDualPassed a = a.hasDual := by
    unfold Gen.StatusReport.handleDualPassed Gen.StatusReport.solDualNonEmpty; cases a.hasDual <;> rfl
  rw [h, hv, hp, hd]; rfl

/-- the hand model `extras` equals `extrasGen` (all six guards regenerated from the source) -/
theorem C10_extras_eq_generated (a : Answer) : extras a = extrasGen a := by
  unfold extras extrasGen
  have hf : Gen.StatusReport.feasrelaxWordGuard a = (isProblemSolvedOrFeasible a.code && decide (a.nObj = 1) && a.feasrelax) := by
    unfold Gen.StatusReport.feasrelaxWordGuard
    cases isProblemSolvedOrFeasible a.code <;> by_cases h0 : a.nObj = 0 <;> by_cases h1 : a.nObj > 1 <;>
      simp [h0, h1] <;> omega
  have ho : Gen.StatusReport.origObjGuard a = (isProblemSolvedOrFeasible a.code && decide (a.nObj = 1) && a.origObj) := by
    unfold Gen.StatusReport.origObjGuard
    cases isProblemSolvedOrFeasible a.code <;> by_cases h0 : a.nObj = 0 <;> by_cases h1 : a.nObj > 1 <;>
      simp [h0, h1] <;> omega
  rw [hf, ho]; rfl

/-- every place where the reporting code consults a status predicate is one the model accounts for
    (a new use site, or one that disappears, breaks this) -/
theorem C10_gen_predicate_use_sites : Gen.StatusReport.predicateUseSites = predicateUseSites := by decide

/-- the code written to the `.sol` file is the code the backend reported -/
theorem C10_code_echo (a : Answer) : (report a).codeWritten = a.code := rfl

/-- … also in every numbered file `<solstub>N.sol` written for an intermediate / pool solution
    (`ReportIntermediateSolution`), for every code and any number of such solutions -/
theorem C10_alt_code_echo (a : Answer) : ∀ c ∈ (report a).altCodes, c = a.code := by
  unfold report
  intro c hc
  by_cases h : a.solStub = true
  · simp only [h, if_true] at hc; exact (List.mem_replicate.mp hc).2
  · simp only [h] at hc; simp at hc

/-- one numbered file per reported intermediate solution iff a solution stub is set -/
theorem C10_alt_files_count (a : Answer) :
    (report a).altCodes.length = if a.solStub = true then a.nAlt else 0 := by
  unfold report
  by_cases h : a.solStub = true <;> simp [h]

/-- the same through the generated forwarding chain (BackendWithModelManager → model manager → AppSolutionHandler →
    SolutionWriter → SolutionAdapter → `objno N <status>`), for the final file and for the numbered files -/
theorem C10_chain_forwards_code (a : Answer) :
    finalCodeWritten a = a.code ∧ altCodeWritten a = a.code ∧
    Gen.StatusReport.solFileCodeFinal a = a.code ∧ Gen.StatusReport.solFileCodeAlt a = a.code := by
  refine ⟨?_, ?_, ?_, ?_⟩
  · c10_unfold_gen
  · c10_unfold_gen
  · simp only [Gen.StatusReport.solFileCodeFinal, Gen.StatusReport.hopWriterFinal, Gen.StatusReport.hopAppHandler]; c10_unfold_gen
  · simp only [Gen.StatusReport.solFileCodeAlt, Gen.StatusReport.hopWriterFeasible]; c10_unfold_gen

/-- the code clause stated directly about the definitions regenerated from the source: first argument of
    `HandleSolution` / `HandleFeasibleSolution` pushed through the generated forwarding hops -/
theorem C10_code_echo_generated (a : Answer) :
    (reportGen a).codeWritten = a.code ∧ (∀ c ∈ (reportGen a).altCodes, c = a.code) ∧
    (reportGen a).altCodes.length = (if a.solStub = true then a.nAlt else 0) := by
  rw [← C10_report_model_eq_generated a]
  exact ⟨C10_code_echo a, C10_alt_code_echo a, C10_alt_files_count a⟩

-- instances: a limit code with two pool solutions and a stub; the same without stub (hypothesis of the membership is then vacuous, the count says so)
example : (report { code := 402, nObj := 1, hasPrimal := true, hasDual := true, nAlt := 2, solStub := true }).altCodes = [402, 402] := by decide
example : (report { code := -7, nObj := 0, hasPrimal := false, hasDual := false, nAlt := 3, solStub := false }).altCodes = [] := by decide

/-- primal / dual vectors are passed on exactly when the solver returned them — stated about the generated steps:
    `FlatBackend::GetSolution` empties the postsolved vector iff the solver returned none, and `HandleSolution`
    receives a null pointer iff that vector is empty -/
theorem C10_vectors_echo (a : Answer) :
    (reportGen a).primalPassed = a.hasPrimal ∧ (reportGen a).dualPassed = a.hasDual ∧
    (report a).primalPassed = a.hasPrimal ∧ (report a).dualPassed = a.hasDual := by
  have h := C10_report_model_eq_generated a
  refine ⟨?_, ?_, rfl, rfl⟩
  · rw [← h]; rfl
  · rw [← h]; rfl

/-- **the objective value appears exactly when a solution candidate is indicated** (and a value exists) -/
theorem C10_objective_iff (a : Answer) :
    (report a).objectiveShown = true ↔ (candidate a.code = true ∧ a.nObj > 0) := by
  unfold report
  simp only [Bool.and_eq_true, decide_eq_true_eq, C10_solvedOrFeasible_iff a.code]
-- both directions of `C10_objective_iff`
example : (report { code := 310, nObj := 2, hasPrimal := false, hasDual := false }).objectiveShown = true ∧ candidate 310 = true := by decide
example : (report { code := 310, nObj := 0, hasPrimal := true, hasDual := true }).objectiveShown = false := by decide
example : (report { code := 150, nObj := 1, hasPrimal := true, hasDual := true }).objectiveShown = false ∧ candidate 150 = false := by decide
/-- the objective value is never shown without objective values, whatever the code -/
theorem C10_no_objective_no_value (a : Answer) (h : a.nObj = 0) : (report a).objectiveShown = false := by
  unfold report; simp [h]

-- the hypothesis `nObj = 0` with a candidate code (the interesting case)
example : ({ code := 0, nObj := 0, hasPrimal := true, hasDual := true } : Answer).nObj = 0 ∧ candidate 0 = true := by decide

/-! ## 5. Other observable uses of the classification (message variants, suffixes) -/

/-- "feasrelax objective" / "Original objective" appear only together with the objective value, i.e. exactly for
    candidate codes (single objective) -/
theorem C10_feasrelax_shown_iff (a : Answer) :
    ((extras a).feasrelaxShown = true ↔ (candidate a.code = true ∧ a.nObj = 1 ∧ a.feasrelax = true)) ∧
    ((extras a).origObjShown = true ↔ (candidate a.code = true ∧ a.nObj = 1 ∧ a.origObj = true)) := by
  unfold extras
  simp only [Bool.and_eq_true, decide_eq_true_eq, C10_solvedOrFeasible_iff a.code, and_assoc, and_self]

/-- suffix `.kappa` exactly for solved codes (when requested) -/
theorem C10_kappa_suffix_iff (a : Answer) :
    (extras a).kappaSuffix = true ↔ (documented a.code = .solved ∧ a.kappaOpt = true) := by
  unfold extras
  simp only [Bool.and_eq_true, C10_solved_iff a.code]

/-- suffix `.unbdd` exactly for unbounded (300–399) and undecided (450–469) codes (when requested) -/
theorem C10_unbdd_suffix_iff (a : Answer) :
    (extras a).unbddSuffix = true ↔ (a.rayPrimalOpt = true ∧
      (documented a.code = .unboundedFeas ∨ documented a.code = .unboundedNoFeas ∨ documented a.code = .limitInfUnb)) := by
  unfold extras
  simp only [Bool.and_eq_true, Bool.or_eq_true, C10_unbounded_iff a.code, C10_indiffInfOrUnb_iff a.code, or_assoc]

/-- suffix `.dunbdd` exactly for infeasible (200–299) and undecided (450–469) codes (when requested) -/
theorem C10_dunbdd_suffix_iff (a : Answer) :
    (extras a).dunbddSuffix = true ↔ (a.rayDualOpt = true ∧
      (documented a.code = .infeasible ∨ documented a.code = .limitInfUnb)) := by
  unfold extras
  simp only [Bool.and_eq_true, Bool.or_eq_true, C10_infeasible_iff a.code, C10_indiffInfOrUnb_iff a.code]

/-- an IIS is computed and returned exactly for infeasible / unbounded / undecided codes (when requested) -/
theorem C10_iis_suffix_iff (a : Answer) :
    (extras a).iisSuffix = true ↔ ((documented a.code = .infeasible ∨ documented a.code = .unboundedFeas ∨
      documented a.code = .unboundedNoFeas ∨ documented a.code = .limitInfUnb) ∧ a.iisOpt = true) := by
  unfold extras
  simp only [Bool.and_eq_true, Bool.or_eq_true, C10_infOrUnb_iff a.code, C10_indiffInfOrUnb_iff a.code, or_assoc, or_self]

/-- the automatic solution check is skipped exactly for infeasible codes (200–299): a violating solution is reported
    with a warning for every other code -/
theorem C10_solcheck_warning_iff (a : Answer) :
    (extras a).solCheckWarning = true ↔ (a.solViolates = true ∧ documented a.code ≠ .infeasible) := by
  unfold extras
  have h := C10_infeasible_iff a.code
  cases hv : a.solViolates <;> cases hi : isProblemInfeasible a.code <;> simp [hv, hi] at h ⊢ <;> exact h
example : (extras { code := 402, nObj := 1, hasPrimal := true, hasDual := true, solViolates := true }).solCheckWarning = true ∧
          (extras { code := 202, nObj := 1, hasPrimal := true, hasDual := true, solViolates := true }).solCheckWarning = false := by decide

-- instances (true / false side of each `↔`)
example : (extras { code := 401, nObj := 1, hasPrimal := true, hasDual := true, feasrelax := true, origObj := true }).feasrelaxShown = true := by decide
example : (extras { code := 401, nObj := 2, hasPrimal := true, hasDual := true, feasrelax := true }).feasrelaxShown = false := by decide
example : (extras { code := 7, nObj := 1, hasPrimal := true, hasDual := true, kappaOpt := true }).kappaSuffix = true ∧
          (extras { code := 107, nObj := 1, hasPrimal := true, hasDual := true, kappaOpt := true }).kappaSuffix = false := by decide
example : (extras { code := 460, nObj := 1, hasPrimal := true, hasDual := true, rayPrimalOpt := true, rayDualOpt := true }).unbddSuffix = true ∧
          (extras { code := 460, nObj := 1, hasPrimal := true, hasDual := true, rayPrimalOpt := true, rayDualOpt := true }).dunbddSuffix = true ∧
          (extras { code := 250, nObj := 1, hasPrimal := true, hasDual := true, rayPrimalOpt := true, rayDualOpt := true }).unbddSuffix = false ∧
          (extras { code := 350, nObj := 1, hasPrimal := true, hasDual := true, rayPrimalOpt := true, rayDualOpt := true }).dunbddSuffix = false := by decide
example : (extras { code := 399, nObj := 1, hasPrimal := true, hasDual := true, iisOpt := true }).iisSuffix = true ∧
          (extras { code := 400, nObj := 1, hasPrimal := true, hasDual := true, iisOpt := true }).iisSuffix = false := by decide

/-! ## 6. Round 4 — the composition logic regenerated from the source equals the hand model

`MpVerif.Gen.StatusReport` is rewritten on every run from `ReportSolution2AMPL`, `ReportStandardSuffixes`,
`ReportRays`, `CalculateAndReportIIS`, `ReportResults`/`ReportSolution`/`ReportSuffixes`, `RegEntry::operator<`
and `AddSolveResults`.  The `C10_gen_*` theorems make every theorem about the hand model a theorem about the
generated definitions; a change of a guard, of the order of the pieces or of the insertion logic breaks them. -/

/-! every step of `ReportSolution2AMPL` (message pieces, `obj_value`, rounding, `HandleSolution`): same labels, same
    order, same guards as the hand model -/
theorem C10_gen_msgTable : Gen.StatusReport.msgTable = msgTable := rfl

/-- the guards of `.kappa`, `.unbdd`, `.dunbdd`, `.iis` in the source are the hand model's -/
theorem C10_gen_suffix_guards (a : Answer) :
    (extras a).kappaSuffix = Gen.StatusReport.kappaSuffixGuard a ∧ (extras a).unbddSuffix = Gen.StatusReport.unbddGuard a ∧
    (extras a).dunbddSuffix = Gen.StatusReport.dunbddGuard a ∧ (extras a).iisSuffix = Gen.StatusReport.iisGuard a :=
  ⟨rfl, rfl, rfl, rfl⟩

/-- suffixes are reported before the solution is written; the .sol file before the solver's own output -/
theorem C10_gen_steps :
    Gen.StatusReport.stepsReportResults = stepsReportResults ∧ Gen.StatusReport.stepsReportSolution = stepsReportSolution ∧
    Gen.StatusReport.stepsReportSuffixes = stepsReportSuffixes := by decide

/-- the MIP layer reports its suffixes after the standard ones, rays and IIS unconditionally (their own guards decide);
    a backend that never calls `SetStatus` has the code `NOT_SET` = −200, which no predicate classifies -/
theorem C10_gen_mip_steps_and_initial_status :
    Gen.StatusReport.stepsMIPStandardSuffixes = ["ReportStandardSuffixes", "ReportStandardMIPSuffixes"] ∧
    Gen.StatusReport.stepsMIPSuffixes = ["ReportRays", "CalculateAndReportIIS"] ∧
    Gen.StatusReport.initialStatus = -200 ∧ isSolStatusRetrieved Gen.StatusReport.initialStatus = false ∧
    documented Gen.StatusReport.initialStatus = .unclassified := by decide

/-- `StdBackend` declares exactly the status predicates that are translated (none is outside the model) -/
theorem C10_gen_predicate_set :
    Gen.StatusReport.predicateNames = predicateNames ∧
    (∀ n ∈ predicateNames, n ∈ predTable.map (·.1)) ∧ predTable.length = predicateNames.length := by decide

theorem C10_gen_regEntryLt (x y : Int × Int) : Gen.StatusReport.regEntryLt x y = regLt x y := by
  simp only [Gen.StatusReport.regEntryLt, regLt, ltB, gtB]
  by_cases h1 : x.1 < y.1 <;> by_cases h2 : x.1 > y.1 <;> by_cases h3 : x.1 = y.1 <;> by_cases h4 : x.2 > y.2 <;>
    simp [h1, h2, h3, h4] <;> omega

theorem C10_gen_addRejects (canReplace present : Bool) :
    Gen.StatusReport.addRejects canReplace present = (!canReplace && present) := rfl

/-! ### consequences for the message -/

theorem mem_msgSteps (a : Answer) (l : String) : l ∈ msgSteps a ↔ ∃ p ∈ msgTable, p.2 a = true ∧ p.1 = l := by
  unfold msgSteps
  simp only [List.mem_map, List.mem_filter]
  constructor
  · rintro ⟨p, ⟨hp, hg⟩, rfl⟩; exact ⟨p, hp, hg, rfl⟩
  · rintro ⟨p, hp, hg, rfl⟩; exact ⟨p, ⟨hp, hg⟩, rfl⟩

/-- the executed steps keep the source order -/
theorem C10_msg_order (a : Answer) : (msgSteps a).Sublist (msgTable.map (·.1)) :=
  List.Sublist.map _ List.filter_sublist

/-- the status text is always the first piece and `HandleSolution` is always called -/
theorem C10_msg_status_first_handle_always (a : Answer) :
    (msgSteps a).head? = some "write {}: {}" ∧ "call HandleSolution" ∈ msgSteps a ∧
    (msgTable.map (·.1)).getLast? = some "call HandleSolution" := by
  refine ⟨?_, ?_, by decide⟩
  · simp [msgSteps, msgTable, List.filter]
  · rw [mem_msgSteps]; exact ⟨("call HandleSolution", fun _ => true), by simp [msgTable], rfl, rfl⟩

/-- the objective value is put into the message (by one of the two objective pieces) exactly when `report` says so -/
theorem C10_msg_objective_piece (a : Answer) :
    (∃ l ∈ objectiveLabels, l ∈ msgSteps a) ↔ (report a).objectiveShown = true := by
  unfold report objectiveLabels
  simp only [mem_msgSteps, msgTable, List.mem_cons, List.not_mem_nil, or_false, exists_eq_or_imp, exists_eq_left]
  cases isProblemSolvedOrFeasible a.code <;> by_cases h0 : a.nObj = 0 <;> by_cases h1 : a.nObj > 1 <;>
    simp [h0, h1] <;> omega

/-- … and never twice -/
theorem C10_msg_objective_once (a : Answer) :
    ¬ ("write ; objective {}" ∈ msgSteps a ∧ "write objective {}" ∈ msgSteps a) := by
  simp only [mem_msgSteps, msgTable, List.mem_cons, List.not_mem_nil, or_false, exists_eq_or_imp, exists_eq_left]
  cases isProblemSolvedOrFeasible a.code <;> by_cases h1 : a.nObj > 1 <;> simp [h1]

/-- `obj_value` (the number passed to the solution handler) is set exactly for a candidate with a single objective value -/
theorem C10_msg_obj_value (a : Answer) :
    "set obj_value" ∈ msgSteps a ↔ (report a).objValuePassed = true := by
  unfold report
  simp only [mem_msgSteps, msgTable, List.mem_cons, List.not_mem_nil, or_false, exists_eq_or_imp, exists_eq_left]
  cases isProblemSolvedOrFeasible a.code <;> by_cases h0 : a.nObj = 0 <;> by_cases h1 : a.nObj > 1 <;>
    simp [h0, h1] <;> omega

/-- the solution is rounded (and the rounding note written) only when a solution candidate is indicated -/
theorem C10_msg_round_only_candidates (a : Answer) (h : "call RoundSolution" ∈ msgSteps a) :
    candidate a.code = true ∧ a.roundOpt = true ∧ a.isMIP = true := by
  simp only [mem_msgSteps, msgTable, List.mem_cons, List.not_mem_nil, or_false, exists_eq_or_imp, exists_eq_left] at h
  simp at h
  exact ⟨(C10_solvedOrFeasible_iff a.code).mp h.1, h.2.1, h.2.2⟩

-- an answer satisfying the hypothesis of `C10_msg_round_only_candidates`, and one for which rounding is requested but not done
example : "call RoundSolution" ∈ msgSteps { code := 402, nObj := 1, hasPrimal := true, hasDual := false, roundOpt := true, isMIP := true } := by decide
example : "call RoundSolution" ∉ msgSteps { code := 502, nObj := 1, hasPrimal := true, hasDual := false, roundOpt := true, isMIP := true } := by decide
-- a complete message: steps of a solved MIP answer with feasrelax, kappa, an extra line, two pool solutions and warnings
example : msgMarkers { code := 0, nObj := 1, hasPrimal := true, hasDual := true, feasrelax := true, origObj := true, kappaOpt := true,
                       extraMsg := true, nAlt := 2, solStub := true, hasWarnings := true } =
    ["status", "feasrelax", "objective", "original", "kappa", "extra", "alt", "warnings"] := by decide
example : msgMarkers { code := 203, nObj := 1, hasPrimal := false, hasDual := true } = ["status"] := by decide

/-- "feasrelax" / "Original objective" pieces = the `extras` fields -/
theorem C10_msg_feasrelax_pieces (a : Answer) :
    ("write feasrelax " ∈ msgSteps a ↔ (extras a).feasrelaxShown = true) ∧
    ("write \nOriginal objective = {}" ∈ msgSteps a ↔ (extras a).origObjShown = true) := by
  unfold extras
  simp only [mem_msgSteps, msgTable, List.mem_cons, List.not_mem_nil, or_false, exists_eq_or_imp, exists_eq_left]
  constructor <;>
  (cases isProblemSolvedOrFeasible a.code <;> by_cases h0 : a.nObj = 0 <;> by_cases h1 : a.nObj > 1 <;>
    simp [h0, h1] <;> omega)

/-! ### the solve result registry -/

theorem C10_regLt_strict_order (x y z : Int × Int) :
    regLt x x = false ∧ (regLt x y = true → regLt y x = false) ∧ (regLt x y = true → regLt y z = true → regLt x z = true) := by
  unfold regLt
  simp only [Bool.or_eq_true, Bool.and_eq_true, decide_eq_true_eq, Bool.or_eq_false_iff, Bool.and_eq_false_imp, decide_eq_false_iff_not]
  omega

/-- two entries collide in the set exactly when they are the same range: overlapping or nested ranges are distinct
    keys (so 100–199, 150–159 and the single code 150 coexist) -/
theorem C10_regEquiv_iff (x y : Int × Int) : regEquiv x y = true ↔ x = y := by
  unfold regEquiv regLt
  rw [Prod.ext_iff]
  simp only [Bool.and_eq_true, Bool.not_eq_true', Bool.or_eq_false_iff, Bool.and_eq_false_imp, decide_eq_false_iff_not, decide_eq_true_eq]
  omega

/-- listing order of `-!`: a range comes before the narrower ranges and the single code that start at the same code -/
theorem C10_reg_wider_first (a b c : Int) (h : c < b) : regLt (a, b) (a, c) = true := by
  unfold regLt; simp; omega

-- instances: the hypothesis `c < b` (range before narrower range before single code); distinct overlapping keys; a collision
example : regLt (100, 199) (100, 149) = true ∧ regLt (100, 149) (100, 100) = true ∧ regLt (100, 100) (150, 150) = true := by decide
example : regEquiv (100, 199) (150, 159) = false ∧ regEquiv (150, 150) (150, 159) = false ∧ regEquiv (200, 299) (200, 299) = true := by decide

/-- the pre-registered table is strictly ordered (what `-!` prints is in this order, no two rows collide) -/
theorem C10_registry_strictly_ordered :
    (registry.map (fun r => (r.1, r.2.1))).Pairwise (fun x y => regLt x y = true) := by decide

/-- adding one entry: an error exactly when replacing is not allowed and the same range is present; otherwise the
    entry is inserted in order; an entry whose range is present is *not* overwritten even if replacing is allowed -/
theorem C10_addResults_one (reg : List RegRow) (e : RegRow) (canReplace : Bool) :
    addResults reg [e] canReplace =
      if Gen.StatusReport.addRejects canReplace (regPresent reg e) then none else some (regInsert reg e) := by
  unfold addResults addResults Gen.StatusReport.addRejects
  cases canReplace <;> cases regPresent reg e <;> rfl

theorem C10_addResults_error_iff (reg : List RegRow) (e : RegRow) (canReplace : Bool) :
    addResults reg [e] canReplace = none ↔ (canReplace = false ∧ ∃ r ∈ reg, (r.1, r.2.1) = (e.1, e.2.1)) := by
  rw [C10_addResults_one]; unfold Gen.StatusReport.addRejects regPresent
  cases canReplace <;> simp [C10_regEquiv_iff]

-- instances: error branch, insertion branch, "can replace" keeps the old entry
example : addResults registry [(200, 299, "again")] false = none := by decide
example : (addResults registry [(421, 421, "custom")] false).map (fun r => r.map (fun x => (x.1, x.2.1))) =
    some [(0, 99), (100, 199), (200, 299), (300, 349), (350, 399), (400, 449), (421, 421), (450, 469), (470, 499), (500, 999), (550, 550)] := by decide
example : addResults registry [(200, 299, "again")] true = some registry := by decide

/-! ## 7. Round 7 — where the message and the .sol file appear; option bits (semantic translation of the `&` tests) -/

/-- the generated gating of `AppSolutionHandlerImpl::HandleSolution` equals the hand model, for every invocation context -/
theorem C10_gen_app_gating (x : AppCtx) :
    appGuard "write .sol" x = solFileWritten x ∧ appGuard "print message" x = messagePrinted x ∧
    appGuard "print primal" x = primalPrinted x ∧ appGuard "print dual" x = dualPrinted x := by
  have h0 := land_mask_decide x.wantsol 0
  have h1 := land_mask_decide x.wantsol 1
  have h2 := land_mask_decide x.wantsol 2
  have h3 := land_mask_decide_eq x.wantsol 3
  have e0 := land_mask_decide_eq x.wantsol 0
  have e1 := land_mask_decide_eq x.wantsol 1
  have e2 := land_mask_decide_eq x.wantsol 2
  simp only [Nat.pow_zero, Nat.pow_one, Nat.reducePow] at h0 h1 h2 h3 e0 e1 e2
  simp only [appGuard, Gen.StatusFlags.appTable, List.find?, solFileWritten, messagePrinted, primalPrinted, dualPrinted]
  refine ⟨?_, ?_, ?_, ?_⟩ <;> simp [h0, h1, h2, h3, e0, e1, e2]

/-- the steps of the handler are exactly these five, in this order (tripwire part: labels) -/
theorem C10_gen_app_steps : Gen.StatusFlags.appTable.map (·.1) =
    ["erase banner", "write .sol", "print message", "print primal", "print dual"] := by decide

/-- under `-AMPL` the .sol file is always written and nothing is printed; stand-alone, the message is lost for the
    user exactly when wantsol has bit 8 but not bit 1 -/
theorem C10_message_delivery (x : AppCtx) :
    (x.ampl = true → solFileWritten x = true ∧ messagePrinted x = false ∧ primalPrinted x = false ∧ dualPrinted x = false) ∧
    ((solFileWritten x = false ∧ messagePrinted x = false) ↔
      (x.ampl = false ∧ x.wantsol.testBit 0 = false ∧ x.wantsol.testBit 3 = true)) := by
  unfold solFileWritten messagePrinted primalPrinted dualPrinted
  cases x.ampl <;> cases x.wantsol.testBit 0 <;> cases x.wantsol.testBit 3 <;> simp
example : solFileWritten { ampl := false, wantsol := 9 } = true ∧ messagePrinted { ampl := false, wantsol := 9 } = false := by decide
example : solFileWritten { ampl := false, wantsol := 8 } = false ∧ messagePrinted { ampl := false, wantsol := 8 } = false := by decide
example : solFileWritten { ampl := false, wantsol := 6 } = false ∧ messagePrinted { ampl := false, wantsol := 6 } = true ∧
          primalPrinted { ampl := false, wantsol := 6 } = true ∧ dualPrinted { ampl := false, wantsol := 6 } = true := by decide
example : solFileWritten { ampl := true, wantsol := 0 } = true := by decide

/-- `need_ray_primal()` / `need_ray_dual()` are bit 1 / bit 2 of option alg:rays, for every option value -/
theorem C10_gen_ray_bits (rays : Nat) :
    Gen.StatusFlags.needRayPrimal rays = rayPrimalOfOption rays ∧ Gen.StatusFlags.needRayDual rays = rayDualOfOption rays := by
  have h0 := land_mask_decide rays 0
  have h1 := land_mask_decide rays 1
  simp only [Nat.pow_zero, Nat.pow_one] at h0 h1
  unfold Gen.StatusFlags.needRayPrimal Gen.StatusFlags.needRayDual rayPrimalOfOption rayDualOfOption
  rw [Nat.and_comm 1 rays, Nat.and_comm 2 rays]
  exact ⟨h0, h1⟩

/-- suffixes as a function of the *option value*: `.unbdd` ⇔ bit 1 of alg:rays ∧ code in 300–399 ∪ 450–469,
    `.dunbdd` ⇔ bit 2 ∧ code in 200–299 ∪ 450–469 -/
theorem C10_ray_suffixes_by_option (rays : Nat) (a : Answer)
    (hp : a.rayPrimalOpt = Gen.StatusFlags.needRayPrimal rays) (hd : a.rayDualOpt = Gen.StatusFlags.needRayDual rays) :
    ((extras a).unbddSuffix = true ↔ (rays.testBit 0 = true ∧
      (documented a.code = .unboundedFeas ∨ documented a.code = .unboundedNoFeas ∨ documented a.code = .limitInfUnb))) ∧
    ((extras a).dunbddSuffix = true ↔ (rays.testBit 1 = true ∧
      (documented a.code = .infeasible ∨ documented a.code = .limitInfUnb))) := by
  have hb := C10_gen_ray_bits rays
  rw [hb.1] at hp; rw [hb.2] at hd
  unfold rayPrimalOfOption at hp; unfold rayDualOfOption at hd
  rw [C10_unbdd_suffix_iff, C10_dunbdd_suffix_iff, hp, hd]
  exact ⟨Iff.rfl, Iff.rfl⟩
example : Gen.StatusFlags.needRayPrimal 1 = true ∧ Gen.StatusFlags.needRayDual 1 = false ∧
          Gen.StatusFlags.needRayPrimal 2 = false ∧ Gen.StatusFlags.needRayDual 2 = true ∧
          Gen.StatusFlags.needRayPrimal 3 = true ∧ Gen.StatusFlags.needRayDual 0 = false := by decide

/-! ## 8. Round 8 — rounding (`mip:round`) cannot change the reported code; when its note appears -/

/-- the generated steps of `RoundSolution` (+ inlined `ModifySolveCodeAndMessageAfterRounding`, `DoRound`) equal the hand model
    for every option value and every number of fractional variables; in particular the generated `modify solve code`
    guard (false: no such step exists) equals `roundChangesCode` -/
theorem C10_gen_round_guards (x : RoundCtx) :
    roundGuard "write rounding note" x = roundNoteShown x ∧ roundGuard "note says \"would be\"" x = roundNoteWouldBe x ∧
    Gen.StatusFlags.roundAssigns x = roundValuesAssigned x ∧ roundGuard "modify solve code" x = roundChangesCode x := by
  have h0 := land_mask_decide x.round 0
  have h2 := land_mask_decide x.round 2
  have e0 := land_mask_decide_eq x.round 0
  have e2 := land_mask_decide_eq x.round 2
  simp only [Nat.pow_zero, Nat.reducePow] at h0 h2 e0 e2
  simp only [roundGuard, Gen.StatusFlags.roundTable, Gen.StatusFlags.roundAssigns, List.find?, roundNoteShown, roundNoteWouldBe,
             roundValuesAssigned, roundChangesCode]
  refine ⟨?_, ?_, ?_, ?_⟩ <;> simp [h0, h2, e0, e2]

/-- no step of the rounding code changes the solve code (no `SetStatus` / `Abort` / assignment to `status_` anywhere in
    `RoundSolution`, `ModifySolveCodeAndMessageAfterRounding`, `DoRound`); labels of the steps (tripwire part) -/
theorem C10_gen_round_steps :
    Gen.StatusFlags.roundTable.map (·.1) =
      ["call ModifySolveCodeAndMessageAfterRounding", "write rounding note", "note says \"would be\""] ∧
    (∀ p ∈ Gen.StatusFlags.roundTable, p.1 ≠ "modify solve code") := by decide

/-- **the code written is the code reported whatever `mip:round` is** (also with bit 2, "Modify solve_result") and
    however many variables were fractional -/
theorem C10_code_echo_under_rounding (a : Answer) (x : RoundCtx) :
    roundGuard "modify solve code" x = false ∧ (reportGen a).codeWritten = a.code := by
  refine ⟨?_, (C10_code_echo_generated a).1⟩
  rw [(C10_gen_round_guards x).2.2.2]; rfl

/-- the rounding note reaches the message only for candidate codes, with bit 4 of `mip:round` and a fractional integer variable;
    it says "would be" exactly when bit 1 is not set -/
theorem C10_round_note_only_candidates (a : Answer) (x : RoundCtx) (h : roundNoteInMessage a x = true) :
    candidate a.code = true ∧ x.round.testBit 2 = true ∧ x.nRounded > 0 ∧ (roundNoteWouldBe x = true ↔ x.round.testBit 0 = false) := by
  unfold roundNoteInMessage roundNoteShown at h
  simp only [Bool.and_eq_true, decide_eq_true_eq] at h
  refine ⟨(C10_solvedOrFeasible_iff a.code).mp h.1.1, h.2.2, by omega, ?_⟩
  unfold roundNoteWouldBe roundNoteShown
  have hn : decide (x.nRounded ≠ 0) = true := decide_eq_true h.2.1
  rw [hn, h.2.2]; cases x.round.testBit 0 <;> simp
-- instances: mip:round=7 with one fractional variable on a limit code (note, "rounded"); mip:round=6 ("would be"); mip:round=3 (no note);
-- bit 2 alone changes nothing
example : roundNoteInMessage { code := 402, nObj := 1, hasPrimal := true, hasDual := true, roundOpt := true, isMIP := true } { round := 7, nRounded := 1 } = true ∧
          roundNoteWouldBe { round := 7, nRounded := 1 } = false ∧ roundNoteWouldBe { round := 6, nRounded := 2 } = true ∧
          roundNoteShown { round := 3, nRounded := 1 } = false ∧ roundNoteShown { round := 7, nRounded := 0 } = false := by decide
example : roundGuard "modify solve code" { round := 2, nRounded := 5 } = false ∧ roundGuard "write rounding note" { round := 2, nRounded := 5 } = false := by decide
example : roundNoteInMessage { code := 502, nObj := 1, hasPrimal := true, hasDual := true, roundOpt := true, isMIP := true } { round := 7, nRounded := 1 } = false := by decide

/-! ## non-vacuity (concrete instances; named so that a failure is attributed to them) -/
theorem C10_witness_solved : isProblemSolved 0 = true ∧ isProblemSolved 99 = true ∧ isProblemSolved 100 = false := by decide
theorem C10_witness_ranges : classify 402 = .limitFeas ∧ classify 1000 = .unclassified ∧ classify (-1) = .unclassified := by decide
theorem C10_witness_objective :
    (report { code := 0, nObj := 1, hasPrimal := true, hasDual := true }).objectiveShown = true ∧ (report { code := 250, nObj := 1, hasPrimal := true, hasDual := false }).objectiveShown = false ∧
    (report { code := 0, nObj := 0, hasPrimal := true, hasDual := true }).objectiveShown = false := by decide
theorem C10_witness_fixed : (report { code := 402, nObj := 1, hasPrimal := true, hasDual := false }).objectiveShown = true ∧ (report { code := 300, nObj := 1, hasPrimal := false, hasDual := false }).objectiveShown = true ∧
    isProblemInfeasible 299 = true := by decide
theorem C10_witness_code : (report { code := 567, nObj := 0, hasPrimal := false, hasDual := true }).codeWritten = 567 := by decide
theorem C10_witness_alt :
    (report { code := 402, nObj := 1, hasPrimal := true, hasDual := true, nAlt := 2, solStub := true }).altCodes = [402, 402] ∧
    (report { code := 402, nObj := 1, hasPrimal := true, hasDual := true, nAlt := 2, solStub := false }).altCodes = [] := by decide
theorem C10_witness_infeasible : ∃ c, documented c = .infeasible ∧ isProblemInfeasible c = true := ⟨200, by decide⟩

end MpVerif.C10

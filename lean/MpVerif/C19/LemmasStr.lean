import MpVerif.C19.LemmasForest
/-! String facts: suffix tokens parse uniquely; rendered label chains are accepted by the chain scanner;
a prefix cut of a chain in front of a chain is a chain. -/
namespace MpVerif.C19

/-! ### decimal digits -/

theorem dec_inj {a b : Nat} (h : dec a = dec b) : a = b := by
  have h1 := @Nat.ofDigitChars_ten_toDigits a
  have h2 := @Nat.ofDigitChars_ten_toDigits b
  unfold dec at h
  rw [h] at h1
  omega

theorem dec_no_us (k : Nat) : '_' ∉ dec k := by
  unfold dec; exact Nat.underscore_not_in_toDigits

theorem dec_ne_nil (k : Nat) : dec k ≠ [] := by
  unfold dec; exact Nat.toDigits_ne_nil

theorem dec_isDigit {k : Nat} {c : Char} (h : c ∈ dec k) : c.isDigit = true := by
  unfold dec at h
  exact Nat.isDigit_of_mem_toDigits (by decide) (by decide) h

/-! ### token bodies -/

def Lab.body : Lab → Name
  | .plain => []
  | .num k => dec k
  | .slk => ['s', 'l', 'k']
  | .equ => ['e', 'q', 'u']

theorem tok_eq {l : Lab} (h : l ≠ Lab.plain) : l.tok = '_' :: (l.body ++ ['_']) := by
  cases l <;> simp_all [Lab.tok, Lab.body, slkSuffix, equSuffix]

theorem tok_plain : Lab.plain.tok = [] := rfl

theorem body_no_us (l : Lab) : '_' ∉ l.body := by
  cases l with
  | plain => simp [Lab.body]
  | num k => exact dec_no_us k
  | slk => decide
  | equ => decide

theorem body_ne_nil {l : Lab} (h : l ≠ Lab.plain) : l.body ≠ [] := by
  cases l with
  | plain => exact absurd rfl h
  | num k => exact dec_ne_nil k
  | slk => simp [Lab.body]
  | equ => simp [Lab.body]

theorem body_inj {l l' : Lab} (h : l ≠ Lab.plain) (h' : l' ≠ Lab.plain) (hb : l.body = l'.body) : l = l' := by
  cases l with
  | plain => exact absurd rfl h
  | num k =>
    cases l' with
    | plain => exact absurd rfl h'
    | num k' => simp only [Lab.body] at hb; rw [dec_inj hb]
    | slk =>
      simp only [Lab.body] at hb
      have : 's' ∈ dec k := by rw [hb]; simp
      exact absurd (dec_isDigit this) (by decide)
    | equ =>
      simp only [Lab.body] at hb
      have : 'e' ∈ dec k := by rw [hb]; simp
      exact absurd (dec_isDigit this) (by decide)
  | slk =>
    cases l' with
    | plain => exact absurd rfl h'
    | num k' =>
      simp only [Lab.body] at hb
      have : 's' ∈ dec k' := by rw [← hb]; simp
      exact absurd (dec_isDigit this) (by decide)
    | slk => rfl
    | equ => simp [Lab.body] at hb
  | equ =>
    cases l' with
    | plain => exact absurd rfl h'
    | num k' =>
      simp only [Lab.body] at hb
      have : 'e' ∈ dec k' := by rw [← hb]; simp
      exact absurd (dec_isDigit this) (by decide)
    | slk => simp [Lab.body] at hb
    | equ => rfl

/-! ### splitting at the first underscore -/

theorem split_us : ∀ (w w' r r' : Name), '_' ∉ w → '_' ∉ w' →
    w ++ '_' :: r = w' ++ '_' :: r' → w = w' ∧ r = r' := by
  intro w
  induction w with
  | nil =>
    intro w' r r' _ hw' h
    cases w' with
    | nil => simp at h; exact ⟨rfl, h⟩
    | cons c cs =>
      simp at h
      exact absurd (by rw [← h.1]; simp : '_' ∈ c :: cs) hw'
  | cons c cs ih =>
    intro w' r r' hw hw' h
    cases w' with
    | nil =>
      simp at h
      exact absurd (by rw [h.1]; simp : '_' ∈ c :: cs) hw
    | cons c' cs' =>
      simp at h
      have hcs : '_' ∉ cs := fun hm => hw (List.mem_cons_of_mem _ hm)
      have hcs' : '_' ∉ cs' := fun hm => hw' (List.mem_cons_of_mem _ hm)
      obtain ⟨h1, h2⟩ := ih cs' r r' hcs hcs' h.2
      exact ⟨by rw [h.1, h1], h2⟩

/-- the last token of a string can be split off uniquely -/
theorem split_last_tok {s s' : Name} {l l' : Lab} (hl : l ≠ Lab.plain) (hl' : l' ≠ Lab.plain)
    (h : s ++ l.tok = s' ++ l'.tok) : s = s' ∧ l = l' := by
  rw [tok_eq hl, tok_eq hl'] at h
  have hr := congrArg List.reverse h
  simp only [List.reverse_append, List.reverse_cons, List.reverse_nil, List.nil_append,
    List.append_assoc, List.cons_append] at hr
  -- '_' :: (body.reverse ++ '_' :: s.reverse) = ...
  have hr' : l.body.reverse ++ '_' :: s.reverse = l'.body.reverse ++ '_' :: s'.reverse := by
    simpa using hr
  have hb : '_' ∉ l.body.reverse := by simpa using body_no_us l
  have hb' : '_' ∉ l'.body.reverse := by simpa using body_no_us l'
  obtain ⟨h1, h2⟩ := split_us _ _ _ _ hb hb' hr'
  have hbody : l.body = l'.body := by simpa using congrArg List.reverse h1
  have hs : s = s' := by simpa using congrArg List.reverse h2
  exact ⟨hs, body_inj hl hl' hbody⟩

/-! ### rendering label paths -/

/-- text appended to the root name along a label path (most recent label first) -/
def renderRev : List Lab → Name
  | [] => []
  | l :: ls => renderRev ls ++ l.tok

def NoPlain (ls : List Lab) : Prop := ∀ l ∈ ls, l ≠ Lab.plain

theorem noPlain_strip (ls : List Lab) : NoPlain (strip ls) := by
  induction ls with
  | nil => intro l hl; simp [strip] at hl
  | cons a as ih =>
    intro l hl
    by_cases ha : a = Lab.plain
    · subst ha; rw [strip_cons_plain] at hl; exact ih l hl
    · rw [strip_cons_ne ha] at hl
      cases hl with
      | head => exact ha
      | tail _ h => exact ih l h

theorem renderRev_strip (ls : List Lab) : renderRev (strip ls) = renderRev ls := by
  induction ls with
  | nil => rfl
  | cons a as ih =>
    by_cases ha : a = Lab.plain
    · subst ha; rw [strip_cons_plain, ih]; simp [renderRev, tok_plain]
    · rw [strip_cons_ne ha]; simp [renderRev, ih]

theorem tok_ne_nil {l : Lab} (h : l ≠ Lab.plain) : l.tok ≠ [] := by
  rw [tok_eq h]; simp

theorem renderRev_inj : ∀ (a b : List Lab), NoPlain a → NoPlain b → renderRev a = renderRev b → a = b := by
  intro a
  induction a with
  | nil =>
    intro b _ hb h
    cases b with
    | nil => rfl
    | cons l ls =>
      simp only [renderRev] at h
      have := tok_ne_nil (hb l (by simp))
      have h' := h.symm
      simp at h'
      exact absurd h'.2 this
  | cons l ls ih =>
    intro b ha hb h
    cases b with
    | nil =>
      simp only [renderRev] at h
      have := tok_ne_nil (ha l (by simp))
      simp at h
      exact absurd h.2 this
    | cons l' ls' =>
      simp only [renderRev] at h
      obtain ⟨h1, h2⟩ := split_last_tok (ha l (by simp)) (hb l' (by simp)) h
      have := ih ls' (fun x hx => ha x (List.mem_cons_of_mem _ hx)) (fun x hx => hb x (List.mem_cons_of_mem _ hx)) h1
      rw [h2, this]

/-! ### the chain scanner -/

theorem runCS_append (q : CS) (a b : Name) :
    runCS q (a ++ b) = (runCS q a).bind fun q' => runCS q' b := by
  induction a generalizing q with
  | nil => simp [runCS]
  | cons c cs ih =>
    simp only [List.cons_append, runCS]
    cases h : q.step c with
    | none => simp
    | some q' => simp [ih]

theorem runCS_body {w : Name} (h : '_' ∉ w) : runCS .body w = some .body := by
  induction w with
  | nil => rfl
  | cons c cs ih =>
    have hc : c ≠ '_' := fun e => h (by simp [e])
    have hcs : '_' ∉ cs := fun hm => h (List.mem_cons_of_mem _ hm)
    simp [runCS, CS.step, hc, ih hcs]

theorem runCS_tok (l : Lab) : runCS .start l.tok = some .start := by
  by_cases hl : l = Lab.plain
  · subst hl; rfl
  · rw [tok_eq hl]
    have hne := body_ne_nil hl
    have hno := body_no_us l
    cases hb : l.body with
    | nil => exact absurd hb hne
    | cons c cs =>
      rw [hb] at hno
      have hc : c ≠ '_' := fun e => hno (by simp [e])
      have hcs : '_' ∉ cs := fun hm => hno (List.mem_cons_of_mem _ hm)
      simp only [runCS, CS.step, List.cons_append, if_true]
      simp only [hc, if_false]
      rw [runCS_append, runCS_body hcs]
      simp [runCS, CS.step]

theorem runCS_renderRev (ls : List Lab) : runCS .start (renderRev ls) = some .start := by
  induction ls with
  | nil => rfl
  | cons l ls ih => simp [renderRev, runCS_append, ih, runCS_tok]

theorem isChainB_renderRev (ls : List Lab) : isChainB (renderRev ls) = true := by
  simp [isChainB, runCS_renderRev]

/-- if `p ++ Y` and `Y` are chains then so is `p` -/
theorem chain_prefix {p Y : Name} (hX : isChainB (p ++ Y) = true) (hY : isChainB Y = true) :
    isChainB p = true := by
  simp only [isChainB, beq_iff_eq] at *
  rw [runCS_append] at hX
  cases hq : runCS .start p with
  | none => rw [hq] at hX; simp at hX
  | some q =>
    rw [hq] at hX
    simp only [Option.bind_some] at hX
    cases Y with
    | nil => simpa [runCS] using hX
    | cons c cs =>
      -- Y starts with '_' followed by a non-underscore
      simp only [runCS] at hY
      by_cases hc : c = '_'
      · subst hc
        simp only [CS.step, if_true] at hY
        cases cs with
        | nil => simp [runCS] at hY
        | cons x xs =>
          simp only [runCS] at hY
          by_cases hx : x = '_'
          · subst hx; simp [CS.step] at hY
          · cases q with
            | start => rfl
            | opened => simp [runCS, CS.step] at hX
            | body => simp [runCS, CS.step, hx] at hX
      · simp [CS.step, hc] at hY

theorem isPrefixB_append (b p : Name) : isPrefixB b (b ++ p) = true := by
  induction b with
  | nil => simp [isPrefixB]
  | cons c cs ih => simp [isPrefixB, ih]

theorem extendsB_of_append {a b p : Name} (h : a = b ++ p) (hp : isChainB p = true) : extendsB a b = true := by
  subst h
  simp [extendsB, isPrefixB_append, hp]

/-- two names `root ++ chain` are equal only if one root extends the other by a chain -/
theorem roots_related {rn rn' : Name} {A B : List Lab} (h : rn ++ renderRev A = rn' ++ renderRev B) :
    extendsB rn' rn = true ∨ extendsB rn rn' = true := by
  rcases List.append_eq_append_iff.mp h with ⟨p, h1, h2⟩ | ⟨p, h1, h2⟩
  · -- rn' = rn ++ p, renderRev A = p ++ renderRev B
    left
    refine extendsB_of_append h1 (chain_prefix ?_ (isChainB_renderRev B))
    rw [← h2]; exact isChainB_renderRev A
  · right
    refine extendsB_of_append h1 (chain_prefix ?_ (isChainB_renderRev A))
    rw [← h2]; exact isChainB_renderRev B

end MpVerif.C19

import MpVerif.C19.Model
/-! Line driver for C19.  Protocol (one op per line, names hex-encoded, `-` = absent/empty):

* `reset`                                 -> `ok`
* `src <cell> <hex>`                      -> `ok`      initial (source / SOS) name of a cell
* `copy <s0> <d0> <len>`                  -> `ok`      CopyLink entry
* `m2m <s0> <slen> <d0> <dlen>`           -> `ok`      Many2Many/One2Many entry
* `slack <s> <con> <slk>`                 -> `ok`      Range2Slk entry
* `bases <b0> <b1> ..` / `acopy <link> <sn> <sb> <dn> <db> <len>` / `am2m <link> <sn> <sb> <slen> <dn> <db> <dlen>` /
  `aslack <link> <sn> <si> <cn> <ci> <vn> <vi>` -> `ok`;  `sched` -> `entries=<n>`   schedule built through the AddEntry model
* `broot c` / `bopen s` / `bcreate c` / `breuse c` / `bclose` / `bslack con slk` / `bm2o t s1 s2 ..` -> `ok`   one call of the
  constructor API (`bstep`);  `bend` -> `ok=<b> closed=<b> opsequal=<b> nops=<n> leaves=<c,..>`  (built ops = ops of the real entries?)
* `run`                                   -> `run wellfed=<b> topo=<b> sib=<b> closed=<b> noclash=<b> edges=<n>`
* `con <cell>` / `var <cell>`             -> `<hex>`   delivered name of a constraint / variable-or-objective cell
* `dvars <cell>..` / `dcons <cell>..`     -> `belowfree=<b> uncounted=<b> covered=<b>`   hypotheses on a set of delivered cells
* `sf <hex> <hex> ...`                    -> `<b>`     suffixFreeB
* `np <mode> <colhex|-|0> <rowhex|-|0> <nv> <ndv> <ncon> <nalg> <nobj> <objno> <multi>`
      -> `none` | `error` | `names V <hex>.. C <hex>.. O <hex>..`   (`-` absent file, `0` empty file)
* `inames <nv> <ndv> <ncon> <nalg> <nobj>`   -> `names V .. C .. O ..`   names invented by BasicProblem::item_name (graph export without names)
* `file <hex>`                            -> `error` | `nread=<n> <hex>..`   names via NameProvider::name(0..nread-1)
No logic here: every answer is a call of a model function. -/
open MpVerif.C19

def hexDigit (n : Nat) : Char := if n < 10 then Char.ofNat (48 + n) else Char.ofNat (87 + n)

def toHex (nm : Name) : String :=
  if nm.isEmpty then "-" else
  String.ofList (nm.flatMap fun c => [hexDigit (c.toNat / 16 % 16), hexDigit (c.toNat % 16)])

def hexVal (c : Char) : Option Nat :=
  if '0' ≤ c ∧ c ≤ '9' then some (c.toNat - 48)
  else if 'a' ≤ c ∧ c ≤ 'f' then some (c.toNat - 87) else none

def fromHexL : List Char → Option Name
  | [] => some []
  | a :: b :: r => do
    let x ← hexVal a; let y ← hexVal b; let t ← fromHexL r
    pure (Char.ofNat (x * 16 + y) :: t)
  | _ => none

def fromHex (s : String) : Option Name :=
  if s == "-" then some [] else fromHexL s.toList

def fileArg (s : String) : Option (Option (List Char)) :=
  if s == "-" then some none else if s == "0" then some (some []) else (fromHex s).map some

structure DSt where
  init : St := {}
  roots : List Nat := []
  ops : List Op := []      -- reversed
  fin : St := {}
  E : List Edge := []
  R : List (Nat × Nat) := []
  bases : List Nat := []
  b : BSt := {}
  sched : List Entry := []   -- most recent first

def b2s (b : Bool) : String := if b then "1" else "0"

def outNames (l : List FileName) : String :=
  " ".intercalate (l.map fun f => toHex f.text)

def handle (d : DSt) (ws : List String) : DSt × String :=
  match ws with
  | ["reset"] => ({}, "ok")
  | ["src", c, h] =>
    match c.toNat?, fromHex h with
    | some c, some nm => ({ d with init := d.init.set c { s := nm, n := 0 }, roots := if nm.isEmpty then d.roots else c :: d.roots }, "ok")
    | _, _ => (d, "bad-op")
  | ["copy", a, b, n] =>
    match a.toNat?, b.toNat?, n.toNat? with
    | some a, some b, some n => ({ d with ops := (expandCopy a b n).reverse ++ d.ops }, "ok")
    | _, _, _ => (d, "bad-op")
  | ["m2m", a, sl, b, dl] =>
    match a.toNat?, sl.toNat?, b.toNat?, dl.toNat? with
    | some a, some sl, some b, some dl => ({ d with ops := (expandDistr a sl b dl).reverse ++ d.ops }, "ok")
    | _, _, _, _ => (d, "bad-op")
  | ["slack", a, b, c] =>
    match a.toNat?, b.toNat?, c.toNat? with
    | some a, some b, some c => ({ d with ops := (expandSlack a b c).reverse ++ d.ops }, "ok")
    | _, _, _ => (d, "bad-op")
  | ["broot", c] =>
    match c.toNat? with
    | some c => ({ d with b := bstep d.b (.root c) }, "ok")
    | none => (d, "bad-op")
  | ["bopen", c] =>
    match c.toNat? with
    | some c => ({ d with b := bstep d.b (.openScope c) }, "ok")
    | none => (d, "bad-op")
  | ["bcreate", c] =>
    match c.toNat? with
    | some c => ({ d with b := bstep d.b (.create c) }, "ok")
    | none => (d, "bad-op")
  | ["breuse", c] =>
    match c.toNat? with
    | some c => ({ d with b := bstep d.b (.reuse c) }, "ok")
    | none => (d, "bad-op")
  | ["bclose"] => ({ d with b := bstep d.b .closeScope }, "ok")
  | ["bslack", a, c] =>
    match a.toNat?, c.toNat? with
    | some a, some c => ({ d with b := bstep d.b (.slack a c) }, "ok")
    | _, _ => (d, "bad-op")
  | "bm2o" :: t :: ss =>
    match t.toNat?, ss.mapM String.toNat? with
    | some t, some ss => ({ d with b := bstep d.b (.many2one ss t) }, "ok")
    | _, _ => (d, "bad-op")
  | ["bend"] =>
    -- the graph registered through the constructor API against the operation list taken from the real link entries
    (d, s!"ok={b2s d.b.ok} closed={b2s d.b.scope.isNone} opsequal={b2s (decide (d.b.ops = d.ops.reverse))} nops={d.b.ops.length} leaves={",".intercalate (d.b.leaves.map toString)}")
  | "bases" :: bs =>
    match bs.mapM String.toNat? with
    | some l => ({ d with bases := l, sched := [] }, "ok")
    | none => (d, "bad-op")
  | "acopy" :: args =>
    match args.mapM String.toNat? with
    | some [l, sn, sb, dn, db, len] => ({ d with sched := addCopy d.sched l sn sb dn db len }, "ok")
    | _ => (d, "bad-op")
  | "am2m" :: args =>
    match args.mapM String.toNat? with
    | some [l, sn, sb, sl, dn, db, dl] => ({ d with sched := addM2M d.sched l sn sb sl dn db dl }, "ok")
    | _ => (d, "bad-op")
  | "aslack" :: args =>
    match args.mapM String.toNat? with
    | some [l, sn, si, cn, ci, vn, vi] => ({ d with sched := Entry.slack l sn si cn ci vn vi :: d.sched }, "ok")
    | _ => (d, "bad-op")
  | ["sched"] =>
    -- turn the schedule built by AddEntry into the operation list (then `run`)
    ({ d with ops := (schedOps (fun n => d.bases.getD n 0) d.sched).reverse }, s!"entries={d.sched.length}")
  | ["run"] =>
    let ops := d.ops.reverse
    let fin := run d.init ops
    let E := edges d.init ops
    let R := plainClosure E.length E (plainPairs E)
    ({ d with fin := fin, E := E, R := R },
     s!"run wellfed={b2s (wellFed d.init ops)} topo={b2s (topoB d.roots ops)} sib={b2s (sibDistinctB E)} closed={b2s (closedB E R)} noclash={b2s (noClashB E R)} edges={E.length} arms={",".intercalate ((armCounts d.init (List.replicate 8 0) ops).map toString)}")
  | ["con", c] =>
    match c.toNat? with
    | some c => (d, toHex (deliveredConName d.fin c))
    | none => (d, "bad-op")
  | ["var", c] =>
    match c.toNat? with
    | some c => (d, toHex (deliveredVarName d.fin c))
    | none => (d, "bad-op")
  | "dvars" :: cs =>
    match cs.mapM String.toNat? with
    | some D => (d, s!"belowfree={b2s (belowFreeB d.R D)} uncounted={b2s (uncountedB d.fin D)} covered={b2s (coveredB d.roots d.ops.reverse D)}")
    | none => (d, "bad-op")
  | "dcons" :: cs =>
    match cs.mapM String.toNat? with
    | some D => (d, s!"belowfree={b2s (belowFreeB d.R D)} uncounted=1 covered={b2s (coveredB d.roots d.ops.reverse D)}")
    | none => (d, "bad-op")
  | "sf" :: hs =>
    match hs.mapM fromHex with
    | some names => (d, b2s (suffixFreeB names))
    | none => (d, "bad-op")
  | ["np", mode, col, row, nv, ndv, ncon, nalg, nobj, objno, multi] =>
    match mode.toNat?, fileArg col, fileArg row, nv.toNat?, ndv.toNat?, ncon.toNat?, nalg.toNat?,
          nobj.toNat?, objno.toNat?, multi.toNat? with
    | some mode, some col, some row, some nv, some ndv, some ncon, some nalg, some nobj, some objno, some multi =>
      match readNamesModel ⟨mode, col, row, nv, ndv, ncon, nalg, nobj, objno, multi != 0⟩ with
      | .none => (d, "none")
      | .error => (d, "error")
      | .names o =>
        (d, s!"names V {outNames o.vars} C {outNames o.cons} O {outNames o.objs}")
    | _, _, _, _, _, _, _, _, _, _ => (d, "bad-op")
  | ["inames", nv, ndv, ncon, nalg, nobj] =>
    match nv.toNat?, ndv.toNat?, ncon.toNat?, nalg.toNat?, nobj.toNat? with
    | some nv, some ndv, some ncon, some nalg, some nobj =>
      let (v, c, o) := itemNamesModel nv ndv ncon nalg nobj
      (d, s!"names V {" ".intercalate (v.map toHex)} C {" ".intercalate (c.map toHex)} O {" ".intercalate (o.map toHex)}")
    | _, _, _, _, _ => (d, "bad-op")
  | ["file", h] =>
    match fileArg h with
    | some f =>
      match fileOffsets f with
      | .missingNewline => (d, "error")
      | .ok offs =>
        let data := f.getD []
        let l := (List.range (numberRead offs)).filterMap fun k => fileName data offs k
        (d, s!"nread={numberRead offs} {outNames l}")
    | none => (d, "bad-op")
  | _ => (d, "bad-op")

partial def loop (h : IO.FS.Stream) (out : IO.FS.Stream) (d : DSt) : IO Unit := do
  let line ← h.getLine
  if line.isEmpty then return ()
  let ws := (line.trimAscii.toString.splitOn " ").filter (· ≠ "")
  let (d', s) := handle d ws
  out.putStrLn s
  out.flush
  loop h out d'

def main : IO Unit := do
  let out ← IO.getStdout
  loop (← IO.getStdin) out {}

/-! Line driver for C19 (stub; replaced when the model is written). -/
def main : IO Unit := pure ()

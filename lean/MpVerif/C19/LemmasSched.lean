import MpVerif.C19.LemmasRun
/-! Schedule building (`AddEntry` with the last-registered guard) and the structural feeding condition. -/
namespace MpVerif.C19

theorem expandCopy_add (s d a b : Nat) :
    expandCopy s d (a + b) = expandCopy s d a ++ expandCopy (s + a) (d + a) b := by
  simp only [expandCopy, List.range_add, List.map_append, List.map_map]
  congr 1
  apply List.map_congr_left
  intro k _
  simp [Nat.add_assoc]

theorem expandDistr_add_src (s a b d dl : Nat) :
    expandDistr s (a + b) d dl = expandDistr s a d dl ++ expandDistr (s + a) b d dl := by
  simp only [expandDistr, List.range_add, List.flatMap_append, List.flatMap_map]
  congr 1
  simp [Function.comp_def, Nat.add_assoc]

theorem expandDistr_one_add_dst (s d a b : Nat) :
    expandDistr s 1 d (a + b) = expandDistr s 1 d a ++ expandDistr s 1 (d + a) b := by
  simp only [expandDistr, List.range_one, List.flatMap_cons, List.flatMap_nil, List.append_nil,
    List.range_add, List.map_append, List.map_map]
  congr 1
  apply List.map_congr_left
  intro k _
  simp [Nat.add_assoc]

theorem topo_wellFed : ∀ (ops : List Op) (named : List Nat) (st : St),
    (∀ c ∈ named, (st.get c).s ≠ []) → topoB named ops = true → wellFed st ops = true := by
  intro ops
  induction ops with
  | nil => intro _ _ _ _; rfl
  | cons o os ih =>
    intro named st hn ht
    simp only [topoB, Bool.and_eq_true, Bool.or_eq_true, List.contains_iff_mem] at ht
    simp only [wellFed, Bool.and_eq_true, Bool.or_eq_true, decide_eq_true_eq]
    have hhead : (st.get o.dst).s ≠ [] ∨ (st.get o.src).s ≠ [] := by
      rcases ht.1 with h | h
      · exact Or.inl (hn _ h)
      · exact Or.inr (hn _ h)
    refine ⟨hhead, ih (o.dst :: named) (stepSt st o) ?_ ht.2⟩
    intro c hc
    rcases List.mem_cons.mp hc with h | h
    · subst h
      rw [step_s]
      by_cases hd : (st.get o.dst).s = []
      · simp only [hd, and_self, if_true]
        rcases hhead with h | h
        · exact absurd hd h
        · exact append_ne_nil_left h
      · simp [hd]
    · rw [step_keeps st o c (hn c h)]; exact hn c h

end MpVerif.C19

import MpVerif.C19.Model
namespace MpVerif.C19
theorem C19_counted_first_plain (v : VCStr) (h : v.n = 0) : v.counted.1 = v.s := by
  simp [VCStr.counted, cntSuffix, h]
end MpVerif.C19

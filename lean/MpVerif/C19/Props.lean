import MpVerif.C19.LemmasBuild
import MpVerif.Gen.C19Names
/-!
# C19 — property theorems

Model: `MpVerif/C19/Model.lean` (counted names `VCString`, the three name-presolve link operations over
an arbitrary list of operations on arbitrary cells = every link graph and every execution order,
reading the delivered names).

## The full-strength statement is FALSE for the code as it exists

    ∀ init ops D,  (all source names non-empty and pairwise different) →
      (∀ c ∈ D, delivered name of c ≠ "") ∧ (∀ u v ∈ D, name u = name v → u = v)

is refuted by three proved counterexamples below, each replayed on the real driver by `checks/c19.py`:

* `C19_counterexample_adversarial`   source names `c` and `c_2_` (A13): a derived name collides with a source name;
* `C19_counterexample_innocent_clash` one source name `c`, a two-level conversion (the shape produced by
  `if-then-else`, equality indicators, min/max … under the default acceptance): the second child of the
  first child and the first child of the second child are both `c_2_`;
* `C19_counterexample_empty`          a copy that runs before its source cell has been named leaves the
  target unnamed.  Until repo commit 5f9dc1e the real converter produced such schedules (`CopyLink::AddEntry`
  extended an earlier registered entry in place); since then `AddEntry` keeps the registration order
  (`C19_addEntry_*_preserves_order`) and this theorem only shows that the feeding hypothesis is necessary for
  arbitrary operation lists.

What is proved instead (`C19_unique_*`, `C19_nonempty_*`) is the property under explicit, decidable hypotheses
which the check evaluates on every real run; every violation observed on the real driver is attributed to
exactly the hypothesis that fails.

Non-emptiness after the fix: `C19_nonempty_topological` needs only the *structural* condition `topoB`
(every link source is an initially named cell or the target of an earlier entry; no reference to the
strings).  That the converter registers links in such an order for every model is not proved (the converter
is not modelled); it is evaluated on every run (true in all runs since 5f9dc1e) and a run violating it is
reported with its input.
-/
namespace MpVerif.C19

/-! ### counted names (`VCString::MakeCountedName`) -/

/-- the first copy of a name is the name itself -/
theorem C19_counted_first_plain (v : VCStr) (h : v.n = 0) : v.counted.1 = v.s := by
  simp [VCStr.counted, cntSuffix, h]

/-- every counted copy is the source text followed by the suffix of its copy number, and counts up -/
theorem C19_counted_shape (v : VCStr) : v.counted.1 = v.s ++ cntSuffix v.n ∧ v.counted.2.n = v.n + 1 ∧ v.counted.2.s = v.s := by
  simp [VCStr.counted]

theorem tok_inj {l l' : Lab} (h : l.tok = l'.tok) : l = l' := by
  by_cases hl : l = Lab.plain
  · by_cases hl' : l' = Lab.plain
    · rw [hl, hl']
    · subst hl; rw [tok_plain] at h; exact absurd h.symm (tok_ne_nil hl')
  · by_cases hl' : l' = Lab.plain
    · subst hl'; rw [tok_plain] at h; exact absurd h (tok_ne_nil hl)
    · have := @split_last_tok [] [] l l' hl hl' (by simpa using h)
      exact this.2

/-- two copies of the same source taken at different counter values get different suffixes -/
theorem C19_counted_injective (j k : Nat) (h : cntSuffix j = cntSuffix k) : j = k := by
  rw [cntSuffix_eq_tok, cntSuffix_eq_tok] at h
  have := congrArg Lab.idx (tok_inj h)
  simpa [idx_cntLab] using this

/-- counted copies of one source are pairwise different, for every source text -/
theorem C19_counted_copies_distinct (s : Name) (j k : Nat) (h : s ++ cntSuffix j = s ++ cntSuffix k) : j = k :=
  C19_counted_injective j k (List.append_cancel_left h)

/-- a non-empty name stays non-empty under counting -/
theorem C19_counted_nonempty (v : VCStr) (h : v.s ≠ []) : v.counted.1 ≠ [] := by
  simp only [VCStr.counted]; exact append_ne_nil_left h

/-! ### names are never overwritten; originals are kept -/

/-- once a cell has a name, no later link operation changes it (for every graph and order) -/
theorem C19_names_immutable (st : St) (ops : List Op) (c : Nat) (h : (st.get c).s ≠ []) :
    ((run st ops).get c).s = (st.get c).s :=
  run_keeps ops st c h

/-- an original item keeps its name: the first copy of a source name into an empty cell
(NL variable -> flat variable, NL objective -> flat objective, NL constraint -> its single flat constraint)
carries exactly the source text, whatever operations follow -/
theorem C19_original_kept (st : St) (s d : Nat) (rest : List Op)
    (hd : (st.get d).s = []) (hs : (st.get s).s ≠ []) (hn : (st.get s).n = 0) :
    ((run st (Op.copy s d :: rest)).get d).s = (st.get s).s ∧
    ((run st (Op.copy s d :: rest)).get s).s = (st.get s).s := by
  have h1 : ((stepSt st (Op.copy s d)).get d).s = (st.get s).s := by
    rw [step_s]; simp [Op.dst, Op.src, Op.lab, hd, hn, cntLab, Lab.tok]
  constructor
  · simp only [run]
    rw [run_keeps rest _ d (by rw [h1]; exact hs), h1]
  · exact run_keeps _ st s hs

/-- the same for a One2Many distribution: the first target gets the source text -/
theorem C19_original_kept_distr (st : St) (s d : Nat) (rest : List Op)
    (hd : (st.get d).s = []) (hs : (st.get s).s ≠ []) (hn : (st.get s).n = 0) :
    ((run st (Op.distr s d :: rest)).get d).s = (st.get s).s := by
  have h1 : ((stepSt st (Op.distr s d)).get d).s = (st.get s).s := by
    rw [step_s]; simp [Op.dst, Op.src, Op.lab, hd, hn, cntLab, Lab.tok]
  simp only [run]
  rw [run_keeps rest _ d (by rw [h1]; exact hs), h1]

/-! ### non-emptiness -/

/-- if every storing operation finds its source named when it runs (`wellFed`, decidable, evaluated on
every real run), every target of every operation ends up with a non-empty name -/
theorem C19_nonempty_partial : ∀ (ops : List Op) (st : St), wellFed st ops = true →
    ∀ o ∈ ops, ((run st ops).get o.dst).s ≠ [] := by
  intro ops
  induction ops with
  | nil => intro st _ o ho; simp at ho
  | cons a as ih =>
    intro st hwf o ho
    simp only [wellFed, Bool.and_eq_true, Bool.or_eq_true, decide_eq_true_eq] at hwf
    simp only [run]
    rcases List.mem_cons.mp ho with h | h
    · subst h
      have h1 : ((stepSt st o).get o.dst).s ≠ [] := by
        rw [step_s]
        by_cases hd : (st.get o.dst).s = []
        · simp only [hd, and_self, if_true]
          rcases hwf.1 with h | h
          · exact absurd hd h
          · exact append_ne_nil_left h
        · simp [hd]
      rw [run_keeps as _ _ h1]; exact h1
    · exact ih (stepSt st a) hwf.2 o h

/-- a purely structural condition implies `wellFed`: every operation's source (or target) is an initially
named cell or the target of an earlier operation -/
theorem C19_wellFed_of_topological (ops : List Op) (named : List Nat) (st : St)
    (hn : ∀ c ∈ named, (st.get c).s ≠ []) (ht : topoB named ops = true) : wellFed st ops = true :=
  topo_wellFed ops named st hn ht

/-- non-emptiness from the structural condition alone -/
theorem C19_nonempty_topological (ops : List Op) (named : List Nat) (st : St)
    (hn : ∀ c ∈ named, (st.get c).s ≠ []) (ht : topoB named ops = true) :
    ∀ o ∈ ops, ((run st ops).get o.dst).s ≠ [] :=
  C19_nonempty_partial ops st (topo_wellFed ops named st hn ht)

/-- **completeness**: every delivered cell that is an original item or the target of some link entry
(`coveredB`) has a non-empty name, under the structural feeding condition.  An item created outside of any
link scope violates `coveredB`; the check reports such a run with its input. -/
theorem C19_nonempty_delivered (ops : List Op) (named : List Nat) (st : St) (D : List Nat)
    (hn : ∀ c ∈ named, (st.get c).s ≠ []) (ht : topoB named ops = true)
    (hc : coveredB named ops D = true) : ∀ c ∈ D, ((run st ops).get c).s ≠ [] := by
  intro c hcD
  simp only [coveredB, List.all_eq_true, Bool.or_eq_true, List.contains_iff_mem, List.any_eq_true,
    beq_iff_eq] at hc
  rcases hc c hcD with h | ⟨o, ho, hd⟩
  · rw [run_keeps ops st c (hn c h)]; exact hn c h
  · rw [← hd]; exact C19_nonempty_topological ops named st hn ht o ho

/-- `CopyLink::AddEntry` (with the last-registered guard) never reorders: the schedule after adding an
entry executes the old schedule and then exactly the new entry's copies -/
theorem C19_addEntry_copy_preserves_order (base : Nat → Nat) (S : List Entry) (link sn sb dn db len : Nat) :
    schedOps base (addCopy S link sn sb dn db len) =
      schedOps base S ++ expandCopy (base sn + sb) (base dn + db) len := by
  unfold addCopy
  split
  · rename_i l sn' sb' dn' db' len' rest
    by_cases h : l = link ∧ sn' = sn ∧ sb' + len' = sb ∧ dn' = dn ∧ db' + len' = db
    · obtain ⟨h1, h2, h3, h4, h5⟩ := h
      subst h1 h2 h3 h4 h5
      simp [schedOps, Entry.ops, expandCopy_add, Nat.add_assoc]
    · simp [h, schedOps, Entry.ops]
  · simp [schedOps, Entry.ops]

/-- the same for `One2ManyLink::AddEntry` (single source index, as asserted by `One2ManyLink`) -/
theorem C19_addEntry_one2many_preserves_order (base : Nat → Nat) (S : List Entry) (link sn sb dn db dlen : Nat) :
    schedOps base (addM2M S link sn sb 1 dn db dlen) =
      schedOps base S ++ expandDistr (base sn + sb) 1 (base dn + db) dlen := by
  unfold addM2M
  split
  · rename_i l sn' sb' slen' dn' db' dlen' rest
    by_cases h1 : l = link ∧ sn' = sn ∧ sb' = sb ∧ slen' = 1 ∧ dn' = dn ∧ db' + dlen' = db
    · obtain ⟨h0, h2, h3, h4, h5, h6⟩ := h1
      subst h0 h2 h3 h4 h5 h6
      simp [schedOps, Entry.ops, expandDistr_one_add_dst, Nat.add_assoc]
    · by_cases h2 : l = link ∧ dn' = dn ∧ db' = db ∧ dlen' = dlen ∧ sn' = sn ∧ sb' + slen' = sb
      · obtain ⟨g1, g2, g3, g4, g5, g6⟩ := h2
        have h1' := h1
        subst g1 g2 g3 g4 g5 g6
        rw [if_neg h1', if_pos (by simp)]
        simp [schedOps, Entry.ops, expandDistr_add_src, Nat.add_assoc]
      · simp [h1, h2, schedOps, Entry.ops]
  · simp [schedOps, Entry.ops]

/-- non-emptiness fails without `wellFed`: a copy executed before its source is named
(cells: 0 = named source `c`, 1 = intermediate item, 2 = delivered item) -/
theorem C19_counterexample_empty :
    let init : St := (({} : St).set 0 { s := ['c'], n := 0 })
    let ops := [Op.copy 1 2, Op.distr 0 1]
    ((run init ops).get 2).s = [] ∧ ((run init ops).get 1).s = ['c'] ∧ wellFed init ops = false := by
  simp [run, wellFed, step_s, step_n, Op.dst, Op.src, Op.lab, get_set_eq, get_set_ne, empty_get, cntLab, Lab.tok]

/-! ### derived names -/

/-- every named cell carries `<a source name> ++ <chain of suffix tokens>` -/
theorem C19_derived (init : St) (ops : List Op) (hwf : wellFed init ops = true) (c : Nat)
    (hc : ((run init ops).get c).s ≠ []) :
    ∃ r ls, (init.get r).s ≠ [] ∧ ((run init ops).get c).s = (init.get r).s ++ renderRev ls ∧
      isChainB (renderRev ls) = true := by
  have hI := inv_run ops init [] (inv_init init) hwf
  obtain ⟨r, ls, hr, hp⟩ := hI.path c hc
  exact ⟨r, ls, hr, name_of_path hI hp hr, isChainB_renderRev ls⟩

/-- a derived name is its parent's name followed by the edge's suffix token -/
theorem C19_derived_from_parent (init : St) (ops : List Op) (hwf : wellFed init ops = true) :
    ∀ e ∈ edges init ops, ((run init ops).get e.c).s = ((run init ops).get e.p).s ++ e.l.tok ∧
      ((run init ops).get e.p).s ≠ [] := by
  intro e he
  have hI := inv_run ops init [] (inv_init init) hwf
  obtain ⟨h1, h2, _⟩ := hI.edge e (by simpa using he)
  exact ⟨h2, h1⟩

/-- the copy counter makes the labels of all counted children of one parent pairwise different -/
theorem C19_counted_siblings_distinct (init : St) (ops : List Op) :
    ∀ e ∈ edges init ops, ∀ e' ∈ edges init ops, e.p = e'.p → e.l = e'.l → e.l.idx.isSome = true → e = e' := by
  have h0 : InvN init [] := ⟨fun e he => by simp at he, fun e he => by simp at he⟩
  have := invN_run ops init [] h0
  simp only [List.nil_append] at this
  exact this.sib

/-! ### uniqueness -/

/-- no source name equals another source name followed by a (possibly empty) suffix chain -/
def SuffixFree (init : St) : Prop :=
  ∀ r r', (init.get r).s ≠ [] → (init.get r').s ≠ [] → r ≠ r' → extendsB (init.get r).s (init.get r').s = false

/-- the decidable check used by the driver implies `SuffixFree` for the listed names -/
theorem C19_suffixFree_check_sound (names : List Name) (h : suffixFreeB names = true) (i j : Nat)
    (hi : i < names.length) (hj : j < names.length) (hij : i ≠ j) :
    extendsB (names.getD i []) (names.getD j []) = false := by
  simp only [suffixFreeB, List.all_eq_true, List.mem_range] at h
  have := h i hi j hj
  simpa [hij] using this

/-- **Uniqueness of constraint names** (read with `MakeCurrentName`), for every link graph, every order of
execution and every set `D` of delivered cells, under decidable hypotheses:
suffix-free source names; every storing operation finds its source named; sibling labels distinct
(for counted labels this is `C19_counted_siblings_distinct`; for `_slk_`/`_equ_` a range constraint is
converted once); equal non-plain labels never leave plain-related cells; no delivered cell is a
plain-chain descendant of another delivered cell. -/
theorem unique_core (init : St) (ops : List Op) (D : List Nat)
    (hsf : SuffixFree init) (hwf : wellFed init ops = true)
    (hsib : SibDistinct (edges init ops)) (hnc : NoClash (edges init ops))
    (hbf : ∀ u ∈ D, ∀ v ∈ D, ¬ Below (edges init ops) u v) :
    ∀ u ∈ D, ∀ v ∈ D, deliveredConName (run init ops) u ≠ [] →
      deliveredConName (run init ops) u = deliveredConName (run init ops) v → u = v := by
  intro u hu v hv hne heq
  simp only [deliveredConName] at hne heq
  have hI := inv_run ops init [] (inv_init init) hwf
  simp only [List.nil_append] at hI
  obtain ⟨r, ls, hr, hp⟩ := hI.path u hne
  obtain ⟨r', ls', hr', hp'⟩ := hI.path v (by rw [← heq]; exact hne)
  have hnu := name_of_path hI hp hr
  have hnv := name_of_path hI hp' hr'
  have heq2 : (init.get r).s ++ renderRev ls = (init.get r').s ++ renderRev ls' := by rw [← hnu, ← hnv, heq]
  have hrr : r = r' := by
    apply Classical.byContradiction
    intro hne'
    rcases roots_related heq2 with h | h
    · rw [hsf r' r hr' hr (Ne.symm hne')] at h; exact Bool.noConfusion h
    · rw [hsf r r' hr hr' hne'] at h; exact Bool.noConfusion h
  subst hrr
  have hren : renderRev ls = renderRev ls' := List.append_cancel_left heq2
  have hstrip : strip ls = strip ls' := by
    apply renderRev_inj _ _ (noPlain_strip ls) (noPlain_strip ls')
    rw [renderRev_strip, renderRev_strip, hren]
  rcases path_rel hsib hnc hp hp' hstrip with h | h | h
  · exact h
  · exact absurd h (hbf u hu v hv)
  · exact absurd h (hbf v hv u hu)

theorem C19_unique_cons_partial (init : St) (ops : List Op) (D : List Nat) (R : List (Nat × Nat))
    (hsf : SuffixFree init) (hwf : wellFed init ops = true)
    (hsib : sibDistinctB (edges init ops) = true)
    (hcl : closedB (edges init ops) R = true) (hnc : noClashB (edges init ops) R = true)
    (hbf : belowFreeB R D = true) :
    ∀ u ∈ D, ∀ v ∈ D, deliveredConName (run init ops) u ≠ [] →
      deliveredConName (run init ops) u = deliveredConName (run init ops) v → u = v :=
  unique_core init ops D hsf hwf (sibDistinctB_sound hsib) (noClashB_sound hcl hnc)
    (fun _ hu _ hv => belowFreeB_sound hcl hbf hu hv)

/-- **Uniqueness of variable (and objective) names**: these are read through one more
`MakeCountedName`, so additionally the delivered cells must never have been counted -/
theorem C19_unique_vars_partial (init : St) (ops : List Op) (D : List Nat) (R : List (Nat × Nat))
    (hsf : SuffixFree init) (hwf : wellFed init ops = true)
    (hsib : sibDistinctB (edges init ops) = true)
    (hcl : closedB (edges init ops) R = true) (hnc : noClashB (edges init ops) R = true)
    (hbf : belowFreeB R D = true) (hun : uncountedB (run init ops) D = true) :
    ∀ u ∈ D, ∀ v ∈ D, deliveredVarName (run init ops) u ≠ [] →
      deliveredVarName (run init ops) u = deliveredVarName (run init ops) v → u = v := by
  intro u hu v hv hne heq
  simp only [uncountedB, List.all_eq_true, beq_iff_eq] at hun
  have hu0 := hun u hu
  have hv0 := hun v hv
  have e1 : deliveredVarName (run init ops) u = deliveredConName (run init ops) u := by
    simp [deliveredVarName, deliveredConName, VCStr.counted, cntSuffix, hu0]
  have e2 : deliveredVarName (run init ops) v = deliveredConName (run init ops) v := by
    simp [deliveredVarName, deliveredConName, VCStr.counted, cntSuffix, hv0]
  rw [e1] at hne heq
  rw [e2] at heq
  exact C19_unique_cons_partial init ops D R hsf hwf hsib hcl hnc hbf u hu v hv hne heq

/-- uniqueness fails for adversarial source names (A13): rows `c` (converted into two constraints)
and `c_2_`.  cells: 0 = `c`, 1 = `c_2_`, 2,3 = constraints derived from `c`, 4 = the flat copy of `c_2_` -/
theorem C19_counterexample_adversarial :
    let init : St := ((({} : St).set 0 { s := ['c'], n := 0 }).set 1 { s := ['c', '_', '2', '_'], n := 0 })
    let ops := [Op.distr 0 2, Op.distr 0 3, Op.copy 1 4]
    deliveredConName (run init ops) 3 = deliveredConName (run init ops) 4 ∧
    deliveredConName (run init ops) 3 = ['c', '_', '2', '_'] ∧
    suffixFreeB [['c'], ['c', '_', '2', '_']] = false := by
  have hd : dec 2 = ['2'] := by decide
  refine ⟨?_, ?_, by decide⟩ <;>
  simp [run, deliveredConName, step_s, step_n, Op.dst, Op.src, Op.lab, get_set_eq, get_set_ne, empty_get, cntLab, Lab.tok, hd]

/-- uniqueness fails for a single innocent source name when a first (plain) child is converted further:
cell 0 = `c`; 1,2 = its children (`c`, `c_2_`); 3,4 = children of 1 (`c`, `c_2_`); 5 = child of 2 (`c_2_`).
Delivered 3,4,5: cells 4 and 5 collide.  `noClashB` is false on this run. -/
theorem C19_counterexample_innocent_clash :
    let init : St := (({} : St).set 0 { s := ['c'], n := 0 })
    let ops := [Op.distr 0 1, Op.distr 0 2, Op.distr 1 3, Op.distr 1 4, Op.distr 2 5]
    let E := edges init ops
    let R := plainClosure E.length E (plainPairs E)
    deliveredConName (run init ops) 4 = deliveredConName (run init ops) 5 ∧
    deliveredConName (run init ops) 4 = ['c', '_', '2', '_'] ∧
    wellFed init ops = true ∧ sibDistinctB E = true ∧ closedB E R = true ∧ belowFreeB R [3, 4, 5] = true ∧
    noClashB E R = false := by
  have hd : dec 2 = ['2'] := by decide
  intro init ops E R
  have hE : E = [⟨0, .plain, 1⟩, ⟨0, .num 2, 2⟩, ⟨1, .plain, 3⟩, ⟨1, .num 2, 4⟩, ⟨2, .plain, 5⟩] := by
    simp [E, ops, init, edges, stepE, step_s, step_n, Op.dst, Op.src, Op.lab, get_set_eq, get_set_ne, empty_get, cntLab, Lab.tok]
  refine ⟨?_, ?_, ?_, ?_⟩
  · simp [ops, init, run, deliveredConName, step_s, step_n, Op.dst, Op.src, Op.lab, get_set_eq, get_set_ne, empty_get, cntLab, Lab.tok, hd]
  · simp [ops, init, run, deliveredConName, step_s, step_n, Op.dst, Op.src, Op.lab, get_set_eq, get_set_ne, empty_get, cntLab, Lab.tok, hd]
  · simp [ops, init, wellFed, step_s, step_n, Op.dst, Op.src, Op.lab, get_set_eq, get_set_ne, empty_get, cntLab, Lab.tok]
  · simp only [R, hE]
    decide

/-! ### NameProvider -/

/-- the Windows line-end test of `NameProvider::name` only inspects a byte at or after the start of the
name it returns, hence inside the file buffer (repo commit f144d4f; before it the byte at offset -1 was
read when the first line was empty) -/
theorem C19_nameprovider_no_underread (offs : List Nat) (index k : Nat)
    (h : winTestIdx offs index = some k) : offs.getD index 0 ≤ k := by
  simp only [winTestIdx] at h
  split at h
  · simp only [Option.some.injEq] at h; omega
  · simp at h

/-- offsets produced by the scan never point behind the data: line starts, and the end of the last reported name + 1 -/
theorem scanNames_bounds : ∀ (data : List Char) (pos start : Nat) (cr : Bool) (acc : List Nat) (last : Nat × Nat)
    (offs : List Nat) (fin : Nat × Nat),
    scanNames data pos start cr acc last = some (offs, fin) →
    start ≤ pos → (∀ o ∈ acc, o ≤ pos) → (acc ≠ [] → last.1 + last.2 + 1 ≤ pos) →
    (∀ o ∈ offs, o ≤ pos + data.length) ∧ (offs ≠ [] → fin.1 + fin.2 + 1 ≤ pos + data.length) := by
  intro data
  induction data with
  | nil =>
    intro pos start cr acc last offs fin h hs hacc hlast
    simp only [scanNames] at h
    split at h
    · simp only [Option.some.injEq, Prod.mk.injEq] at h
      obtain ⟨h1, h2⟩ := h
      subst h1 h2
      refine ⟨fun o ho => by simpa using hacc o (by simpa using ho), fun hne => ?_⟩
      simpa using hlast (by intro h0; apply hne; simp [h0])
    · simp at h
  | cons c cs ih =>
    intro pos start cr acc last offs fin h hs hacc hlast
    simp only [scanNames] at h
    split at h
    · have := ih (pos + 1) (pos + 1) false (start :: acc) _ offs fin h (Nat.le_refl _)
        (fun o ho => by
          rcases List.mem_cons.mp ho with h1 | h1
          · omega
          · have := hacc o h1; omega)
        (fun _ => by simp only; omega)
      simp only [List.length_cons]
      exact ⟨fun o ho => by have := this.1 o ho; omega, fun hne => by have := this.2 hne; omega⟩
    · have := ih (pos + 1) start _ acc last offs fin h (by omega)
        (fun o ho => by have := hacc o ho; omega) (fun hne => by have := hlast hne; omega)
      simp only [List.length_cons]
      exact ⟨fun o ho => by have := this.1 o ho; omega, fun hne => by have := this.2 hne; omega⟩

/-- **the CR test of `NameProvider::name` reads inside the file**: for the offsets produced by reading `data`, every byte
index inspected by the Windows line-end test is a valid index of `data` (together with `C19_nameprovider_no_underread`:
between the start of the name and the end of the buffer) -/
theorem C19_nameprovider_reads_in_buffer (data : List Char) (offs : List Nat) (h : readNamesFile data = .ok offs)
    (index k : Nat) (hi : index + 1 < offs.length) (hk : winTestIdx offs index = some k) : k < data.length := by
  unfold readNamesFile at h
  split at h
  · simp at h
  · rename_i starts ld lsz hscan
    simp only [ReadRes.ok.injEq] at h
    have hb := scanNames_bounds data 0 0 false [] (0, 0) starts (ld, lsz) hscan (Nat.le_refl _) (fun o ho => by simp at ho) (fun hne => absurd rfl hne)
    simp only [Nat.zero_add] at hb
    have hne : starts ≠ [] := by
      intro h0; subst h0; subst h; simp at hi
    have hall : ∀ o ∈ offs, o ≤ data.length := by
      intro o ho
      rw [← h] at ho
      rcases List.mem_append.mp ho with h1 | h1
      · exact hb.1 o h1
      · simp only [List.mem_singleton] at h1
        have := hb.2 hne
        omega
    have hmem : offs.getD (index + 1) 0 ∈ offs := by
      rw [List.getD_eq_getElem?_getD, List.getElem?_eq_getElem hi]
      simp
    have hle := hall _ hmem
    simp only [winTestIdx] at hk
    split at hk
    · simp only [Option.some.injEq] at hk; omega
    · simp at hk

/-- non-vacuity: a CRLF file; the CR test of the first name inspects byte 1 (the `\\r`), inside the 5 bytes -/
example : readNamesFile "x\r\ny\n".toList = .ok [0, 3, 5] ∧ winTestIdx [0, 3, 5] 0 = some 1 := by decide

/-! ### generic names -/

theorem C19_generic_names_nonempty (stub : Name) (k : Nat) : genericName stub k ≠ [] := by
  simp [genericName]

/-- `_svar[i]`, `_scon[i]`, … are pairwise different for different indices -/
theorem C19_generic_names_distinct (stub : Name) (i j : Nat) (h : genericName stub i = genericName stub j) : i = j := by
  simp only [genericName] at h
  have h1 := List.append_cancel_left h
  simp only [List.cons.injEq, true_and] at h1
  have h2 := List.append_cancel_right h1
  exact dec_inj h2

/-! ### graphs built through the constructor API: the structural hypotheses hold by construction -/

/-- every graph the converter can register through the constructor API (any call sequence; calls whose guard fails are
ignored) is fed topologically -/
theorem C19_built_topological (calls : List Call) : topoB (build calls).roots (build calls).ops = true :=
  (binv_build calls).topo

/-- ... and, once the last scope is closed, covers every existing item -/
theorem C19_built_covered (calls : List Call) (hs : (build calls).scope = none) :
    coveredB (build calls).roots (build calls).ops (build calls).items = true := by
  simp only [coveredB, List.all_eq_true, Bool.or_eq_true, List.contains_iff_mem, List.any_eq_true, beq_iff_eq]
  intro c hc
  rcases (binv_build calls).items_fed c hc with h | ⟨s, ts, h, _⟩
  · exact h
  · rw [hs] at h; simp at h

/-- **Non-emptiness, no structural hypothesis left**: for every registration sequence of the constructor API, if the
original items have non-empty names then every item that exists (hence every delivered one) has a non-empty name -/
theorem C19_nonempty_built (calls : List Call) (init : St) (hs : (build calls).scope = none)
    (hroots : ∀ c ∈ (build calls).roots, (init.get c).s ≠ []) :
    ∀ c ∈ (build calls).items, ((run init (build calls).ops).get c).s ≠ [] :=
  C19_nonempty_delivered _ _ init _ hroots (C19_built_topological calls) (C19_built_covered calls hs)

/-- sibling labels are distinct in every built graph (counted labels by the counters, `_slk_`/`_equ_` because the API
converts a range constraint once) -/
theorem C19_built_sibDistinct (calls : List Call) (init : St) : SibDistinct (edges init (build calls).ops) := by
  intro e he e' he' hp hl
  cases hidx : e.l.idx with
  | some j => exact C19_counted_siblings_distinct init _ e he e' he' hp hl (by rw [hidx]; rfl)
  | none =>
    obtain ⟨o, ho, h1, h2, h3⟩ := edge_from_op _ init e he
    obtain ⟨o', ho', h1', h2', h3'⟩ := edge_from_op _ init e' he'
    obtain ⟨eq, hoe, hle⟩ := h3 hidx
    obtain ⟨eq', hoe', hle'⟩ := h3' (by rw [← hl]; exact hidx)
    have heq : eq = eq' := slackLab_inj (by rw [← hle, ← hle', hl])
    subst heq
    have hc := (binv_build calls).sg_fun o ho o' ho' e.p eq e.c e'.c hoe (by rw [hp]; exact hoe')
    cases e with
    | mk p l c =>
      cases e' with
      | mk p' l' c' =>
        simp only at hp hl hc
        subst hp hl hc
        rfl

/-- **Uniqueness of constraint names for built graphs**: the only hypotheses left are the ones that depend on the user's
names (`SuffixFree`) and on the shape defect recorded as an open finding (`NoClash`: equal non-plain labels never leave
plain-related cells); feeding, coverage, sibling labels and the leaf property of delivered items hold by construction -/
theorem C19_unique_cons_built_partial (calls : List Call) (init : St) (hs : (build calls).scope = none)
    (hroots : ∀ c ∈ (build calls).roots, (init.get c).s ≠ [])
    (hsf : SuffixFree init) (hnc : NoClash (edges init (build calls).ops)) :
    ∀ u ∈ (build calls).leaves, ∀ v ∈ (build calls).leaves,
      deliveredConName (run init (build calls).ops) u = deliveredConName (run init (build calls).ops) v → u = v := by
  intro u hu v hv heq
  have hwf := C19_wellFed_of_topological _ _ init hroots (C19_built_topological calls)
  have hne : deliveredConName (run init (build calls).ops) u ≠ [] :=
    C19_nonempty_built calls init hs hroots u ((mem_leaves _ u).mp hu).1
  refine unique_core init _ (build calls).leaves hsf hwf (C19_built_sibDistinct calls init) hnc ?_ u hu v hv hne heq
  intro a ha b _ hb
  obtain ⟨c, hc, _⟩ := hb.head
  obtain ⟨o, ho, h1, _, _⟩ := edge_from_op _ init _ hc
  exact ((mem_leaves _ a).mp ha).2 o ho h1.symm

/-- the same for variables and objectives (read through one more `MakeCountedName`): leaves are never counted -/
theorem C19_unique_vars_built_partial (calls : List Call) (init : St) (hs : (build calls).scope = none)
    (hroots : ∀ c ∈ (build calls).roots, (init.get c).s ≠ []) (hn0 : ∀ c, (init.get c).n = 0)
    (hsf : SuffixFree init) (hnc : NoClash (edges init (build calls).ops)) :
    ∀ u ∈ (build calls).leaves, ∀ v ∈ (build calls).leaves,
      deliveredVarName (run init (build calls).ops) u = deliveredVarName (run init (build calls).ops) v → u = v := by
  intro u hu v hv heq
  have e : ∀ c ∈ (build calls).leaves, deliveredVarName (run init (build calls).ops) c = deliveredConName (run init (build calls).ops) c := by
    intro c hc
    have h0 : ((run init (build calls).ops).get c).n = 0 := by
      rw [run_n_nonsrc _ init c ((mem_leaves _ c).mp hc).2]; exact hn0 c
    simp [deliveredVarName, deliveredConName, VCStr.counted, cntSuffix, h0]
  rw [e u hu, e v hv] at heq
  exact C19_unique_cons_built_partial calls init hs hroots hsf hnc u hu v hv heq

/-! ### non-vacuity: concrete non-trivial instances meeting all hypotheses of the conditional theorems -/

/-- shape of a real run: row `c` (cell 0) and column `x` (cell 1); `x` is copied to the flat variable 10; `c` is
distributed to an auxiliary variable 11 (`c`), a functional constraint 12 (`c_2_`) and a linear constraint 13 (`c_3_`);
12 is converted into 14 (`c_2_`) and 15 (`c_2__2_`).  Delivered: constraints 13, 14, 15, variables 10, 11. -/
def exInit : St := (({} : St).set 0 { s := ['c'], n := 0 }).set 1 { s := ['x'], n := 0 }
def exOps : List Op := [Op.copy 1 10, Op.distr 0 11, Op.distr 0 12, Op.distr 0 13, Op.distr 12 14, Op.distr 12 15]

theorem exInit_roots (r : Nat) (h : (exInit.get r).s ≠ []) : r = 0 ∨ r = 1 := by
  by_cases h1 : r = 1
  · exact Or.inr h1
  · by_cases h0 : r = 0
    · exact Or.inl h0
    · exfalso; apply h
      simp [exInit, get_set_ne _ _ (Ne.symm h1), get_set_ne _ _ (Ne.symm h0), empty_get]

theorem exEdges : edges exInit exOps =
    [⟨1, .plain, 10⟩, ⟨0, .plain, 11⟩, ⟨0, .num 2, 12⟩, ⟨0, .num 3, 13⟩, ⟨12, .plain, 14⟩, ⟨12, .num 2, 15⟩] := by
  simp [exInit, exOps, edges, stepE, step_s, step_n, Op.dst, Op.src, Op.lab, get_set_eq, get_set_ne, empty_get, cntLab]

/-- all hypotheses of `C19_unique_cons_partial`, `C19_unique_vars_partial`, `C19_nonempty_partial`,
`C19_nonempty_topological`, `C19_nonempty_delivered`, `C19_derived` hold together on a non-trivial run
(two roots, six operations, two conversion levels, three delivered constraints and two delivered variables with
five different non-empty names) -/
theorem C19_hypotheses_satisfiable :
    let E := edges exInit exOps
    let R := plainClosure E.length E (plainPairs E)
    SuffixFree exInit ∧ wellFed exInit exOps = true ∧ topoB [0, 1] exOps = true ∧
    (∀ c ∈ [0, 1], (exInit.get c).s ≠ []) ∧
    sibDistinctB E = true ∧ closedB E R = true ∧ noClashB E R = true ∧
    belowFreeB R [13, 14, 15] = true ∧ belowFreeB R [10, 11] = true ∧ uncountedB (run exInit exOps) [10, 11] = true ∧
    coveredB [0, 1] exOps [13, 14, 15, 10, 11] = true ∧
    deliveredConName (run exInit exOps) 13 = "c_3_".toList ∧ deliveredConName (run exInit exOps) 14 = "c_2_".toList ∧
    deliveredConName (run exInit exOps) 15 = "c_2__2_".toList ∧
    deliveredVarName (run exInit exOps) 10 = "x".toList ∧ deliveredVarName (run exInit exOps) 11 = "c".toList := by
  have hd2 : dec 2 = ['2'] := by decide
  have hd3 : dec 3 = ['3'] := by decide
  intro E R
  have hE : E = _ := exEdges
  refine ⟨?_, ?_, by decide, ?_, ?_, ?_, ?_, ?_, ?_, ?_, by decide, ?_, ?_, ?_, ?_, ?_⟩
  · intro r r' hr hr' hne
    rcases exInit_roots r hr with h | h <;> rcases exInit_roots r' hr' with h' | h' <;> subst h <;> subst h'
    · exact absurd rfl hne
    · simp [exInit, get_set_eq, get_set_ne, extendsB, isPrefixB]
    · simp [exInit, get_set_eq, get_set_ne, extendsB, isPrefixB]
    · exact absurd rfl hne
  · simp [exInit, exOps, wellFed, step_s, step_n, Op.dst, Op.src, Op.lab, get_set_eq, get_set_ne, empty_get, cntLab, Lab.tok]
  · intro c hc
    simp at hc
    rcases hc with h | h <;> subst h <;> simp [exInit, get_set_eq, get_set_ne]
  · simp only [hE]; decide
  · simp only [R, hE]; decide
  · simp only [R, hE]; decide
  · simp only [R, hE]; decide
  · simp only [R, hE]; decide
  · simp [uncountedB, exInit, exOps, run, step_s, step_n, Op.dst, Op.src, Op.lab, get_set_eq, get_set_ne, empty_get]
  all_goals
    simp [exInit, exOps, run, deliveredConName, deliveredVarName, VCStr.counted, cntSuffix, step_s, step_n, Op.dst, Op.src, Op.lab,
      get_set_eq, get_set_ne, empty_get, cntLab, Lab.tok, hd2, hd3]

/-- the example run is a built graph: registering column `x`, row `c` and the two conversion levels through the
constructor API yields exactly `exOps`, with all guards passed, no scope left open, and the five delivered cells as
leaves (so `C19_nonempty_built`, `C19_unique_*_built_partial` apply to a non-trivial instance) -/
def exCalls : List Call :=
  [.root 0, .root 1, .openScope 1, .create 10, .closeScope,
   .openScope 0, .create 11, .create 12, .create 13, .closeScope,
   .openScope 12, .create 14, .create 15, .closeScope]

theorem C19_built_example :
    (build exCalls).ops = exOps ∧ (build exCalls).ok = true ∧ (build exCalls).scope = none ∧
    (build exCalls).roots = [1, 0] ∧ (build exCalls).leaves = [15, 14, 13, 11, 10] := by
  decide

/-- `C19_original_kept`: its hypotheses (empty target, named fresh source) hold for the copy of column `x` -/
example : (exInit.get 10).s = [] ∧ (exInit.get 1).s ≠ [] ∧ (exInit.get 1).n = 0 := by
  simp [exInit, get_set_eq, get_set_ne, empty_get]

/-! ### the error branch of reading names: a names file whose last line is not terminated -/

theorem scanNames_unterminated : ∀ (data : List Char) (pos start : Nat) (cr : Bool) (acc : List Nat) (last : Nat × Nat),
    start ≤ pos → data ≠ [] → data.getLast? ≠ some '\n' → scanNames data pos start cr acc last = none := by
  intro data
  induction data with
  | nil => intro _ _ _ _ _ _ h; exact absurd rfl h
  | cons c cs ih =>
    intro pos start cr acc last hle _ hlast
    cases cs with
    | nil =>
      have hc : c ≠ '\n' := by intro h; apply hlast; simp [h]
      simp only [scanNames, hc, if_false]
      have : ¬ start = pos + 1 := by omega
      simp [this]
    | cons c' rest =>
      have hlast' : (c' :: rest).getLast? ≠ some '\n' := by simpa [List.getLast?_cons_cons] using hlast
      simp only [scanNames]
      split
      · exact ih (pos + 1) (pos + 1) false _ _ (Nat.le_refl _) (by simp) hlast'
      · exact ih (pos + 1) start _ acc last (by omega) (by simp) hlast'

/-- error branch: if names are to be read (`cvt:names` 1 or 2) and the `.col` file does not end with a newline, no names
are produced at all — the model reports the `missing newline` error (the real driver then fails with a diagnosis and
delivers no model; checked by the `nonewline` file variant) -/
theorem C19_unterminated_names_file_is_error (i : NamesIn) (d : List Char) (hm : i.mode = 1 ∨ i.mode = 2)
    (hcol : i.col = some d) (hne : d ≠ []) (hlast : d.getLast? ≠ some '\n') :
    (match readNamesModel i with | .error => true | _ => false) = true := by
  have hs : readNamesFile d = .missingNewline := by
    simp [readNamesFile, scanNames_unterminated d 0 0 false [] (0, 0) (Nat.le_refl _) hne hlast]
  have hf : fileOffsets (some d) = .missingNewline := by
    cases d with
    | nil => exact absurd rfl hne
    | cons c cs => simpa [fileOffsets] using hs
  rcases hm with h | h <;> simp [readNamesModel, wantsNames, readsFiles, h, hcol, hf]

/-! ### translator ties: the hand model equals the definitions regenerated from the C++ source on every run
(`translators/gen_names.py` -> `MpVerif/Gen/C19Names.lean`) -/

open MpVerif.Gen in
theorem gen_dec (k : Nat) : C19Names.dec k = dec k := rfl

/-- `VCStr.counted` is `pre::VCString::MakeCountedName` as translated from `include/mp/valcvt-base.h` -/
theorem C19_gen_MakeCountedName (v : VCStr) :
    (v.counted.1, v.counted.2.n) = Gen.C19Names.makeCountedName v.s v.n ∧ v.counted.2.s = v.s := by
  refine ⟨?_, rfl⟩
  simp only [VCStr.counted, Gen.C19Names.makeCountedName, cntSuffix, gen_dec]
  by_cases h : v.n = 0 <;> simp [h, List.append_assoc]

theorem gen_mk_fst (v : VCStr) : (Gen.C19Names.makeCountedName v.s v.n).1 = v.s ++ (cntLab v.n).tok := by
  rw [← (C19_gen_MakeCountedName v).1]; exact counted_name v

theorem gen_mk_snd (s : Name) (n : Nat) : (Gen.C19Names.makeCountedName s n).2 = n + 1 := rfl

/-- the effect of one `CopyLink` element (`Op.copy`) on target and source is the translated `VCString::operator=` -/
theorem C19_gen_assign (st : St) (s d : Nat) (hsd : s ≠ d) :
    let r := Gen.C19Names.assign (st.get d).s (st.get d).n (st.get s).s (st.get s).n
    (((stepSt st (.copy s d)).get d).s, ((stepSt st (.copy s d)).get d).n) = r.1 ∧
    (((stepSt st (.copy s d)).get s).s, ((stepSt st (.copy s d)).get s).n) = r.2 := by
  have hds : ¬ d = s := fun h => hsd h.symm
  simp only [Gen.C19Names.assign, step_s, step_n, Op.dst, Op.src, Op.lab, gen_mk_fst, gen_mk_snd]
  by_cases he : (st.get d).s = []
  · simp [he, hsd, hds]
  · simp [he, hsd]

/-- one `Distr` iteration (`Op.distr`): `SetVal(i, val)` takes its argument by value (translated copy constructor),
`SetStr(i, std::move(v))` copy-constructs once more and then assigns (translated `operator=`) -/
theorem C19_gen_distr (st : St) (s d : Nat) (hsd : s ≠ d) :
    let c1 := Gen.C19Names.copyCtor (st.get s).s (st.get s).n          -- parameter of SetVal
    let c2 := Gen.C19Names.copyCtor c1.1.1 c1.1.2                      -- parameter of SetStr
    let a := Gen.C19Names.assign (st.get d).s (st.get d).n c2.1.1 c2.1.2
    (((stepSt st (.distr s d)).get d).s, ((stepSt st (.distr s d)).get d).n) = a.1 ∧
    (((stepSt st (.distr s d)).get s).s, ((stepSt st (.distr s d)).get s).n) = c1.2 := by
  have hds : ¬ d = s := fun h => hsd h.symm
  have h0 : ∀ t : Name, (Gen.C19Names.makeCountedName t 0).1 = t := fun t => by simp [Gen.C19Names.makeCountedName]
  simp only [Gen.C19Names.assign, Gen.C19Names.copyCtor, step_s, step_n, Op.dst, Op.src, Op.lab, gen_mk_fst, gen_mk_snd, h0]
  by_cases he : (st.get d).s = []
  · simp [he, hds, hsd]
  · simp [he, hds, hsd]

/-- variables/objectives are delivered through one more copy construction (translated) -/
theorem C19_gen_deliveredVarName (st : St) (c : Nat) :
    deliveredVarName st c = (Gen.C19Names.copyCtor (st.get c).s (st.get c).n).1.1 := by
  have hmk := (C19_gen_MakeCountedName (st.get c)).1
  simp [deliveredVarName, Gen.C19Names.copyCtor, ← hmk]

/-- `provName` (file branch with the CR test, generated names) is `NameProvider::name` as translated from `src/nl-reader.cc` -/
theorem C19_gen_npName (data : List Char) (offs : List Nat) (gen gen2 : Name) (index i2 : Nat) :
    (provName data offs gen gen2 index i2).text = Gen.C19Names.npName data offs gen gen2 index i2 := by
  have c13 : Char.ofNat 13 = '\r' := rfl
  have c32 : Char.ofNat 32 = ' ' := rfl
  by_cases h1 : index + 1 < offs.length
  · by_cases h2 : offs.getD (index + 1) 0 - 1 > offs.getD index 0
    · by_cases h3 : data.getD (offs.getD (index + 1) 0 - 1 - 1) ' ' = '\r'
      · simp only [provName, fileName, winTestIdx, Gen.C19Names.npName, slice, h1, h2, h3, if_true, FileName.text, c13, c32,
          decide_true, Bool.true_and, beq_self_eq_true, Bool.and_self]
      · have h3' : ('\r' == data.getD (offs.getD (index + 1) 0 - 1 - 1) ' ') = false := by
          rw [beq_eq_false_iff_ne]; exact fun h => h3 h.symm
        simp only [provName, fileName, winTestIdx, Gen.C19Names.npName, slice, h1, h2, h3, h3', if_true, if_false, FileName.text, c13, c32,
          decide_true, Bool.true_and, Bool.and_false, Bool.false_eq_true]
    · simp only [provName, fileName, winTestIdx, Gen.C19Names.npName, slice, h1, h2, if_true, if_false, FileName.text,
        decide_true, decide_false, Bool.false_and, Bool.false_eq_true]
  · by_cases h4 : index ≥ i2
    · simp [provName, fileName, Gen.C19Names.npName, genericName, gen_dec, h1, h4, FileName.text]
    · simp [provName, fileName, Gen.C19Names.npName, genericName, gen_dec, h1, h4, FileName.text]

/-- `itemName` is the loop body of the name generator in `BasicProblem::item_name` (`src/problem.cc`) -/
theorem C19_gen_itemGen (stub : Name) (k ksub : Nat) : itemName stub k ksub = Gen.C19Names.itemGen stub k ksub := by
  simp [itemName, Gen.C19Names.itemGen, gen_dec]

/-- `expandSlack` follows the table extracted from `RangeCon2Slack::PresolveNamesEntry`: statement order, which entry
index is read and written, and the appended texts are exactly the tokens of the labels `slk` / `equ` -/
theorem C19_gen_slackRules (cells : Nat → Nat) :
    expandSlack (cells Gen.C19Names.idxConSrc) (cells Gen.C19Names.idxConTarget) (cells Gen.C19Names.idxVarSlk) =
      Gen.C19Names.slackRules.map (fun r => Op.sgive (cells r.2.1) (r.2.2 == equSuffix) (cells r.1)) ∧
    ∀ r ∈ Gen.C19Names.slackRules, (slackLab (r.2.2 == equSuffix)).tok = r.2.2 := by
  constructor
  · rfl
  · decide

/-- structure tie: the classes derived from `BasicLink`, which of them define `PresolveNames` and through which routine;
the loop nesting of `Many2ManyLink::Distr` (outer: source range, inner: target range = `expandDistr`) and the direction of
`CopyLink::CopySrcDest`.  The model has exactly the three rules `Op.copy`, `Op.distr`, `Op.sgive`. -/
theorem C19_gen_linkRules :
    Gen.C19Names.linkRules =
      [("BasicIndivEntryLink", "PresolveNamesEntry"), ("BasicStaticIndivEntryLink", "inherits BasicIndivEntryLink"),
       ("CopyLink", "CopySrcDest"), ("Many2ManyLink", "DistributeFromSrc2Dest"), ("Many2OneLink", "inherits Many2ManyLink"),
       ("One2ManyLink", "inherits Many2ManyLink"), ("RangeCon2Slack", "inherits BasicStaticIndivEntryLink")] ∧
    Gen.C19Names.distrLoops = [(0, "ir1"), (1, "ir2")] ∧ Gen.C19Names.copyDirection = "first->second" := by
  decide

/-! ### translator tie for the line scanner `internal::ReadNames` + `NameHandler::OnName` + the end pointer -/

/-- the scan loop run with the generated step function (`fuel` = `end - ptr`): `OnName` appends the name's start offset
to `names_` and remembers the name as the last one -/
def genScan (data : List Char) : Nat → Nat → Nat → Bool → Nat → List Nat → Nat × Nat → Option (List Nat × (Nat × Nat))
  | 0, ptr, start, _, _, acc, last =>
    if Gen.C19Names.readNamesMissingNewline start ptr then none else some (acc.reverse, last)
  | n + 1, ptr, start, cr, line, acc, last =>
    match Gen.C19Names.readNamesStep data ptr start cr line with
    | (some nm, start', cr', line') => genScan data n (ptr + 1) start' cr' line' (nm.1 :: acc) nm
    | (none, start', cr', line') => genScan data n (ptr + 1) start' cr' line' acc last

theorem scan_eq_gen (data : List Char) : ∀ (n ptr start : Nat) (cr : Bool) (line : Nat) (acc : List Nat) (last : Nat × Nat),
    ptr + n = data.length →
    scanNames (data.drop ptr) ptr start cr acc last = genScan data n ptr start cr line acc last := by
  intro n
  induction n with
  | zero =>
    intro ptr start cr line acc last h
    have hd : data.drop ptr = [] := List.drop_eq_nil_of_le (by omega)
    rw [hd]
    simp only [scanNames, genScan, Gen.C19Names.readNamesMissingNewline]
    by_cases hs : start = ptr <;> simp [hs]
  | succ n ih =>
    intro ptr start cr line acc last h
    have hlt : ptr < data.length := by omega
    have hd : data.drop ptr = data[ptr] :: data.drop (ptr + 1) := List.drop_eq_getElem_cons hlt
    have hg : data.getD ptr (Char.ofNat 32) = data[ptr] := by simp [List.getD_eq_getElem?_getD, hlt]
    have c13 : Char.ofNat 13 = '\r' := rfl
    have c10 : Char.ofNat 10 = '\n' := rfl
    rw [hd]
    simp only [scanNames, genScan, Gen.C19Names.readNamesStep, hg, c13, c10]
    by_cases hr : data[ptr] = '\r'
    · have hn : ¬ data[ptr] = '\n' := by rw [hr]; decide
      simp only [hr, beq_self_eq_true, if_true]
      have hb : ('\r' == '\n') = false := by decide
      simp only [hb, Bool.false_eq_true, if_false, Bool.or_true, decide_true]
      have : ¬ ('\r' = '\n') := by decide
      simp only [this, if_false]
      exact ih (ptr + 1) start true line acc last (by omega)
    · have hb : (data[ptr] == '\r') = false := by simpa using hr
      simp only [hb, Bool.false_eq_true, if_false]
      by_cases hn : data[ptr] = '\n'
      · simp only [hn, beq_self_eq_true, if_true]
        have : decide ('\n' = '\r') = false := by decide
        simp only [this, Bool.or_false]
        exact ih (ptr + 1) (ptr + 1) false (line + 1) (start :: acc) _ (by omega)
      · have hb2 : (data[ptr] == '\n') = false := by simpa using hn
        simp only [hb2, Bool.false_eq_true, if_false, hn]
        have : decide (data[ptr] = '\r') = false := by simpa using hr
        simp only [this, Bool.or_false]
        exact ih (ptr + 1) start cr line acc last (by omega)

/-- `readNamesFile` (hand model of the names-file scan) is the translated loop of `internal::ReadNames`
(include/mp/nl-reader.h) started in its translated initial state, followed by the translated missing-newline test and the
translated end pointer of `NameProvider::ReadNames` (src/nl-reader.cc) -/
theorem C19_gen_readNames (data : List Char) :
    readNamesFile data =
      match genScan data data.length 0 0 Gen.C19Names.readNamesInit.1 Gen.C19Names.readNamesInit.2 [] (0, 0) with
      | none => ReadRes.missingNewline
      | some (offs, (ld, lsz)) => ReadRes.ok (offs ++ [Gen.C19Names.lastPtr ld lsz]) := by
  have h := scan_eq_gen data data.length 0 0 Gen.C19Names.readNamesInit.1 Gen.C19Names.readNamesInit.2 [] (0, 0) (by simp)
  simp only [List.drop_zero] at h
  unfold readNamesFile
  have hi : Gen.C19Names.readNamesInit.1 = false := rfl
  rw [hi] at h
  rw [h, hi]
  cases genScan data data.length 0 0 false Gen.C19Names.readNamesInit.2 [] (0, 0) with
  | none => rfl
  | some r =>
    obtain ⟨offs, ld, lsz⟩ := r
    simp [Gen.C19Names.lastPtr, Nat.add_assoc]

/-! ### translator tie for the `cvt:names` mode logic: `ModelManagerWithProblemBuilder::ReadNames` / `SetObjNames` -/

/-- the names-mode logic assembled from the generated pieces (conditions, `get_names` arguments, generic stubs, objective
index range, file-vs-generic choice, generic objective name); the order of the calls is the one the translator matched -/
def genReadNamesModel (i : NamesIn) : NamesRes :=
  if !(Gen.C19Names.namesWanted i.mode) then .none else
  let colr := if Gen.C19Names.readFiles i.mode then fileOffsets i.col else .ok []
  match colr with
  | .missingNewline => .error
  | .ok co =>
  let rowr := if Gen.C19Names.readFiles i.mode then fileOffsets i.row else .ok []
  match rowr with
  | .missingNewline => .error
  | .ok ro =>
    let cd := i.col.getD []
    let rd := i.row.getD []
    if Gen.C19Names.setNames i.mode (numberRead co) (numberRead ro) then
      let va := Gen.C19Names.varNamesArgs i.nv i.ndv
      let ca := Gen.C19Names.conNamesArgs i.ncon i.nalg
      let vars := (List.range va.1).map fun k => provName cd co Gen.C19Names.stubVar Gen.C19Names.stubDefVar k va.2
      let cons := (List.range ca.1).map fun k => provName rd ro Gen.C19Names.stubCon Gen.C19Names.stubLogCon k ca.2
      let r := Gen.C19Names.objRange i.ncon i.nobj i.objno i.multiobj
      let objs := if !(Gen.C19Names.objGuard i.nobj) then [] else
        ((List.range (r.2 - r.1)).map fun t =>
          let io := r.1 + t
          if Gen.C19Names.objFromFile (numberRead ro) io then (fileName rd ro io).getD (.name [])
          else FileName.name (Gen.C19Names.objGeneric io i.ncon))
      .names ⟨vars, cons, objs⟩
    else .none

theorem gen_stubs : Gen.C19Names.stubVar = svar ∧ Gen.C19Names.stubDefVar = sdvar ∧ Gen.C19Names.stubCon = scon ∧
    Gen.C19Names.stubLogCon = slogcon := by decide

theorem gen_objGeneric (io ncon : Nat) : Gen.C19Names.objGeneric io ncon = objGenericName io ncon := by
  simp [Gen.C19Names.objGeneric, objGenericName, genericName, sobj, gen_dec]

/-- `readNamesModel` (hand model of `cvt:names` 0..3: which files are read, when names are set at all, the `get_names`
arguments, which objective names come from the `.row` file and which are generated) equals the function assembled from
the pieces translated from `include/mp/model-mgr-with-pb.h`, for every input -/
theorem C19_gen_readNamesModel (i : NamesIn) : readNamesModel i = genReadNamesModel i := by
  obtain ⟨hs1, hs2, hs3, hs4⟩ := gen_stubs
  have h1 : ∀ m, wantsNames m = Gen.C19Names.namesWanted m := fun _ => rfl
  have h2 : ∀ m, readsFiles m = Gen.C19Names.readFiles m := fun _ => rfl
  have h3 : ∀ m a b, setsNames m a b = Gen.C19Names.setNames m a b := fun _ _ _ => rfl
  have h4 : ∀ a b c d, objIdxRange a b c d = Gen.C19Names.objRange a b c d := fun _ _ _ _ => rfl
  have h5 : ∀ io n, objGenericName io n = Gen.C19Names.objGeneric io n := fun io n => (gen_objGeneric io n).symm
  unfold readNamesModel genReadNamesModel
  simp only [h1, h2, h3, h4, h5, ← hs1, ← hs2, ← hs3, ← hs4, Gen.C19Names.varNamesArgs, Gen.C19Names.conNamesArgs,
    Gen.C19Names.objGuard, Gen.C19Names.objFromFile]
  rfl

/-! ### translator ties for the registration API: `~AutoLinkScope` and `FlatConverter::AutoLink` -/

/-- cells of a node range `(node, begin, end)` under a placement `base` of the nodes -/
def cellsOfR (base : Nat → Nat) (r : Nat × Nat × Nat) : List Nat :=
  (List.range (r.2.2 - r.2.1)).map fun k => base r.1 + r.2.1 + k

def cellsOf (base : Nat → Nat) (rs : List (Nat × Nat × Nat)) : List Nat := rs.flatMap (cellsOfR base)

/-- operations of a registered entry `(link, source range, target range)` -/
def entryOps (base : Nat → Nat) (e : String × (Nat × Nat × Nat) × (Nat × Nat × Nat)) : List Op :=
  if e.1 = "CopyLink" then expandCopy (base e.2.1.1 + e.2.1.2.1) (base e.2.2.1 + e.2.2.2.1) (e.2.2.2.2 - e.2.2.2.1)
  else expandDistr (base e.2.1.1 + e.2.1.2.1) 1 (base e.2.2.1 + e.2.2.2.1) (e.2.2.2.2 - e.2.2.2.1)

theorem closeOps_many (s : Nat) (cs : List Nat) (h : cs.length ≠ 1) : closeOps s cs = cs.map (Op.distr s) := by
  unfold closeOps
  split
  · simp at h
  · rfl

theorem expandDistr_one (s d n : Nat) : expandDistr s 1 d n = ((List.range n).map fun k => d + k).map (Op.distr s) := by
  simp [expandDistr, List.range_one]

theorem cellsOfR_len (base : Nat → Nat) (r : Nat × Nat × Nat) : (cellsOfR base r).length = r.2.2 - r.2.1 := by
  simp [cellsOfR]

/-- what `closeOps` (constructor API, `closeScope`) registers is what the translated `~AutoLinkScope` registers:
a `CopyLink` entry for a single single-index target, otherwise one `One2ManyLink` entry per collected target range -/
theorem C19_gen_scopeClose (base : Nat → Nat) (src : Nat × Nat × Nat) (targets : List (Nat × Nat × Nat))
    (hv : ∀ t ∈ targets, t.2.1 < t.2.2) :
    (Gen.C19Names.scopeClose src targets).flatMap (entryOps base) =
      closeOps (base src.1 + src.2.1) (cellsOf base targets) := by
  cases targets with
  | nil => simp [Gen.C19Names.scopeClose, cellsOf, closeOps]
  | cons t rest =>
    cases rest with
    | nil =>
      have hlt := hv t (by simp)
      by_cases h1 : t.2.1 = t.2.2 - 1
      · have hlen : t.2.2 - t.2.1 = 1 := by omega
        have hb : (t.2.1 == t.2.2 - 1) = true := by simp [← h1]
        simp [Gen.C19Names.scopeClose, Gen.C19Names.isSingleIndex, hb, entryOps, cellsOf, cellsOfR, hlen, closeOps, expandCopy]
      · have hlen : t.2.2 - t.2.1 ≠ 1 := by omega
        have hne : ¬ (t.2.1 == t.2.2 - 1) = true := by simpa using h1
        rw [closeOps_many _ _ (by simp [cellsOf, cellsOfR_len]; exact hlen)]
        simp [Gen.C19Names.scopeClose, Gen.C19Names.isSingleIndex, hne, entryOps, expandDistr_one, cellsOf, cellsOfR, Nat.add_assoc]
    | cons t2 rest2 =>
      have h1 := hv t (by simp)
      have h2 := hv t2 (by simp)
      have hlen : (cellsOf base (t :: t2 :: rest2)).length ≠ 1 := by
        simp only [cellsOf, List.flatMap_cons, List.length_append, cellsOfR_len]
        omega
      rw [closeOps_many _ _ hlen]
      simp [Gen.C19Names.scopeClose, entryOps, expandDistr_one, cellsOf, cellsOfR, List.flatMap_map, Nat.add_assoc, List.map_flatMap]

/-- the pending-target list of the constructor API (`create`/`reuse`: `ts ++ [c]`) is the cell view of the translated
`FlatConverter::AutoLink`: merging a range into the last collected one does not change the collected cells -/
theorem C19_gen_autoLink (base : Nat → Nat) (ts : List (Nat × Nat × Nat)) (nr : Nat × Nat × Nat)
    (hv : ∀ t ∈ ts, t.2.1 ≤ t.2.2) (hnr : nr.2.1 ≤ nr.2.2) :
    cellsOf base (Gen.C19Names.autoLink true ts nr) = cellsOf base ts ++ cellsOfR base nr ∧
    Gen.C19Names.autoLink false ts nr = ts := by
  refine ⟨?_, by simp [Gen.C19Names.autoLink]⟩
  rcases List.eq_nil_or_concat ts with h | ⟨L, last, h⟩
  · subst h; simp [Gen.C19Names.autoLink, cellsOf]
  · rw [List.concat_eq_append] at h
    subst h
    have hl := hv last (by simp)
    by_cases hx : Gen.C19Names.extendableBy last nr = true
    · simp only [Gen.C19Names.extendableBy, Bool.and_eq_true, beq_iff_eq] at hx
      obtain ⟨hn, he⟩ := hx
      have hx' : Gen.C19Names.extendableBy last nr = true := by simp [Gen.C19Names.extendableBy, hn, he]
      simp only [Gen.C19Names.autoLink, if_true, List.getLastD_concat, List.dropLast_concat, hx', Bool.not_true, Bool.or_false]
      have hemp : (L ++ [last]).isEmpty = false := by simp
      simp only [hemp, Bool.false_eq_true, if_false, cellsOf, List.flatMap_append, List.flatMap_cons, List.flatMap_nil, List.append_nil,
        List.append_assoc]
      congr 1
      simp only [cellsOfR]
      have : nr.2.2 - last.2.1 = (last.2.2 - last.2.1) + (nr.2.2 - nr.2.1) := by omega
      rw [this, List.range_add, List.map_append, List.map_map]
      congr 1
      apply List.map_congr_left
      intro k _
      simp only [Function.comp, hn]
      omega
    · have hx' : Gen.C19Names.extendableBy last nr = false := by simpa using hx
      simp [Gen.C19Names.autoLink, hx', cellsOf]

end MpVerif.C19

import MpVerif.C19.LemmasStr
import Std.Data.HashMap.Lemmas
/-! Invariants of the name-presolve machine. -/
namespace MpVerif.C19

theorem get_set_eq (st : St) (c : Nat) (v : VCStr) : (st.set c v).get c = v := by
  simp [St.get, St.set]

theorem get_set_ne (st : St) {c d : Nat} (v : VCStr) (h : c ≠ d) : (st.set c v).get d = st.get d := by
  simp [St.get, St.set, Std.HashMap.getD_insert, h]

theorem giveIfEmpty_s (st : St) (d : Nat) (nm : Name) (c : Nat) :
    ((st.giveIfEmpty d nm).get c).s = if c = d ∧ (st.get d).s = [] then nm else (st.get c).s := by
  unfold St.giveIfEmpty
  by_cases he : (st.get d).s = []
  · by_cases hc : c = d
    · subst hc; simp [he, get_set_eq]
    · simp [he, hc, get_set_ne st _ (Ne.symm hc)]
  · simp [he]

theorem giveIfEmpty_n (st : St) (d : Nat) (nm : Name) (c : Nat) :
    ((st.giveIfEmpty d nm).get c).n = (st.get c).n := by
  unfold St.giveIfEmpty
  by_cases he : (st.get d).s = []
  · by_cases hc : c = d
    · subst hc; simp [he, get_set_eq]
    · simp [he, get_set_ne st _ (Ne.symm hc)]
  · simp [he]

theorem bump_s (st : St) (s c : Nat) : ((st.bump s).get c).s = (st.get c).s := by
  unfold St.bump
  by_cases hc : c = s
  · subst hc; simp [get_set_eq, VCStr.counted]
  · simp [get_set_ne st _ (Ne.symm hc)]

theorem bump_n (st : St) (s c : Nat) :
    ((st.bump s).get c).n = if c = s then (st.get s).n + 1 else (st.get c).n := by
  unfold St.bump
  by_cases hc : c = s
  · subst hc; simp [get_set_eq, VCStr.counted]
  · simp [hc, get_set_ne st _ (Ne.symm hc)]

theorem cntSuffix_eq_tok (j : Nat) : cntSuffix j = (cntLab j).tok := by
  unfold cntSuffix cntLab
  by_cases h : j = 0 <;> simp [h, Lab.tok]

theorem counted_name (v : VCStr) : v.counted.1 = v.s ++ (cntLab v.n).tok := by
  simp [VCStr.counted, cntSuffix_eq_tok]

/-- the text an operation stores, if it stores -/
theorem step_s (st : St) (o : Op) (c : Nat) :
    ((stepSt st o).get c).s =
      if c = o.dst ∧ (st.get o.dst).s = [] then (st.get o.src).s ++ (o.lab st).tok else (st.get c).s := by
  cases o with
  | copy s d =>
    simp only [stepSt, Op.dst, Op.src, Op.lab]
    by_cases he : (st.get d).s = []
    · simp only [he, if_true, bump_s, giveIfEmpty_s, counted_name, and_true]
    · simp [he]
  | distr s d =>
    simp only [stepSt, Op.dst, Op.src, Op.lab, bump_s, giveIfEmpty_s, counted_name]
    by_cases h : c = d ∧ (st.get d).s = [] <;> simp [h]
  | sgive s equ d =>
    simp only [stepSt, Op.dst, Op.src, Op.lab, giveIfEmpty_s]
    by_cases h : c = d ∧ (st.get d).s = [] <;> simp [h]

theorem step_keeps (st : St) (o : Op) (c : Nat) (h : (st.get c).s ≠ []) :
    ((stepSt st o).get c).s = (st.get c).s := by
  rw [step_s]
  by_cases hc : c = o.dst ∧ (st.get o.dst).s = []
  · exact absurd (hc.1 ▸ hc.2) h
  · simp [hc]

theorem step_n_ge (st : St) (o : Op) (c : Nat) : (st.get c).n ≤ ((stepSt st o).get c).n := by
  cases o with
  | copy s d =>
    simp only [stepSt]
    by_cases he : (st.get d).s = []
    · simp only [he, if_true, bump_n, giveIfEmpty_n]
      by_cases hc : c = s
      · subst hc; simp
      · simp [hc]
    · simp [he]
  | distr s d =>
    simp only [stepSt, bump_n, giveIfEmpty_n]
    by_cases hc : c = s
    · subst hc; simp
    · simp [hc]
  | sgive s equ d =>
    simp only [stepSt, giveIfEmpty_n]; exact Nat.le_refl _

theorem empty_get (c : Nat) : (({} : St).get c) = {} := by
  simp [St.get]

/-- counter after one operation -/
theorem step_n (st : St) (o : Op) (c : Nat) :
    ((stepSt st o).get c).n =
      match o with
      | .copy s d => if (st.get d).s = [] ∧ c = s then (st.get c).n + 1 else (st.get c).n
      | .distr s _ => if c = s then (st.get c).n + 1 else (st.get c).n
      | .sgive _ _ _ => (st.get c).n := by
  cases o with
  | copy s d =>
    simp only [stepSt]
    by_cases he : (st.get d).s = []
    · simp only [he, if_true, bump_n, giveIfEmpty_n, true_and]
      by_cases hc : c = s
      · subst hc; simp
      · simp [hc]
    · simp [he]
  | distr s d =>
    simp only [stepSt, bump_n, giveIfEmpty_n]
    by_cases hc : c = s
    · subst hc; simp
    · simp [hc]
  | sgive s equ d =>
    simp only [stepSt, giveIfEmpty_n]

theorem run_keeps (ops : List Op) : ∀ (st : St) (c : Nat), (st.get c).s ≠ [] → ((run st ops).get c).s = (st.get c).s := by
  induction ops with
  | nil => intro st c _; rfl
  | cons o os ih =>
    intro st c h
    simp only [run]
    have h1 := step_keeps st o c h
    rw [ih (stepSt st o) c (by rw [h1]; exact h), h1]

/-! ### the forest invariant -/

def Lab.idx : Lab → Option Nat
  | .plain => some 0
  | .num k => some (k - 1)
  | .slk => none
  | .equ => none

theorem idx_cntLab (j : Nat) : (cntLab j).idx = some j := by
  unfold cntLab
  by_cases h : j = 0 <;> simp [h, Lab.idx]

structure Inv (init st : St) (E : List Edge) : Prop where
  keep : ∀ c, (init.get c).s ≠ [] → (st.get c).s = (init.get c).s
  edge : ∀ e ∈ E, (st.get e.p).s ≠ [] ∧ (st.get e.c).s = (st.get e.p).s ++ e.l.tok ∧ (init.get e.c).s = []
  path : ∀ c, (st.get c).s ≠ [] → ∃ r ls, (init.get r).s ≠ [] ∧ Path E r ls c

theorem inv_init (init : St) : Inv init init [] where
  keep := fun _ _ => rfl
  edge := fun e he => by simp at he
  path := fun c h => ⟨c, [], h, Path.root⟩

theorem append_ne_nil_left {a b : Name} (h : a ≠ []) : a ++ b ≠ [] := by
  intro h'; exact h (List.append_eq_nil_iff.mp h').1

theorem inv_step {init st : St} {E : List Edge} (hI : Inv init st E) (o : Op)
    (wf : (st.get o.dst).s ≠ [] ∨ (st.get o.src).s ≠ []) :
    Inv init (stepSt st o) (E ++ stepE st o) := by
  refine ⟨?_, ?_, ?_⟩
  · intro c hc
    have h1 := hI.keep c hc
    rw [step_keeps st o c (by rw [h1]; exact hc), h1]
  · intro e he
    rcases List.mem_append.mp he with he | he
    · obtain ⟨h1, h2, h3⟩ := hI.edge e he
      have hc : (st.get e.c).s ≠ [] := by rw [h2]; exact append_ne_nil_left h1
      rw [step_keeps st o _ h1, step_keeps st o _ hc]
      exact ⟨h1, h2, h3⟩
    · unfold stepE at he
      by_cases hd : (st.get o.dst).s = []
      · simp only [hd, if_true, List.mem_singleton] at he
        subst he
        have hsrc : (st.get o.src).s ≠ [] := by
          rcases wf with h | h
          · exact absurd hd h
          · exact h
        refine ⟨?_, ?_, ?_⟩
        · show ((stepSt st o).get o.src).s ≠ []
          rw [step_keeps st o _ hsrc]; exact hsrc
        · show ((stepSt st o).get o.dst).s = ((stepSt st o).get o.src).s ++ (o.lab st).tok
          rw [step_keeps st o _ hsrc, step_s]
          simp [hd]
        · show (init.get o.dst).s = []
          apply Classical.byContradiction
          intro hne
          have := hI.keep _ hne
          rw [hd] at this
          exact hne this.symm
      · simp [hd] at he
  · intro c hc
    rw [step_s] at hc
    by_cases hnew : c = o.dst ∧ (st.get o.dst).s = []
    · obtain ⟨hcd, hd⟩ := hnew
      have hsrc : (st.get o.src).s ≠ [] := by
        rcases wf with h | h
        · exact absurd hd h
        · exact h
      obtain ⟨r, ls, hr, hp⟩ := hI.path _ hsrc
      refine ⟨r, o.lab st :: ls, hr, ?_⟩
      have hmem : (⟨o.src, o.lab st, c⟩ : Edge) ∈ E ++ stepE st o := by
        apply List.mem_append.mpr; right
        unfold stepE; simp [hd, hcd]
      exact Path.step (hp.mono (fun e he => List.mem_append.mpr (Or.inl he))) hmem
    · simp only [hnew, if_false] at hc
      obtain ⟨r, ls, hr, hp⟩ := hI.path _ hc
      exact ⟨r, ls, hr, hp.mono (fun e he => List.mem_append.mpr (Or.inl he))⟩

theorem inv_run {init : St} : ∀ (ops : List Op) (st : St) (E : List Edge), Inv init st E →
    wellFed st ops = true → Inv init (run st ops) (E ++ edges st ops) := by
  intro ops
  induction ops with
  | nil => intro st E hI _; simpa [run, edges] using hI
  | cons o os ih =>
    intro st E hI hwf
    simp only [wellFed, Bool.and_eq_true, Bool.or_eq_true, decide_eq_true_eq] at hwf
    have := ih (stepSt st o) (E ++ stepE st o) (inv_step hI o hwf.1) hwf.2
    simpa [run, edges, List.append_assoc] using this

theorem name_of_path {init st : St} {E : List Edge} (hI : Inv init st E) {r : Nat} {ls : List Lab} {c : Nat}
    (hp : Path E r ls c) (hr : (init.get r).s ≠ []) : (st.get c).s = (init.get r).s ++ renderRev ls := by
  induction hp with
  | root => simp [renderRev, hI.keep r hr]
  | step _ he ih =>
    obtain ⟨_, h2, _⟩ := hI.edge _ he
    simp only [] at h2
    rw [h2, ih, renderRev, List.append_assoc]

/-! ### counters make sibling labels distinct -/

structure InvN (st : St) (E : List Edge) : Prop where
  idx : ∀ e ∈ E, ∀ j, e.l.idx = some j → j < (st.get e.p).n
  sib : ∀ e ∈ E, ∀ e' ∈ E, e.p = e'.p → e.l = e'.l → e.l.idx.isSome = true → e = e'

theorem step_n_src (st : St) (o : Op) (hd : (st.get o.dst).s = []) (j : Nat) (hj : (o.lab st).idx = some j) :
    j < ((stepSt st o).get o.src).n := by
  cases o with
  | copy s d =>
    simp only [Op.lab, idx_cntLab, Option.some.injEq] at hj
    simp only [Op.dst] at hd
    simp only [stepSt, Op.src, hd, if_true, bump_n, giveIfEmpty_n]
    omega
  | distr s d =>
    simp only [Op.lab, idx_cntLab, Option.some.injEq] at hj
    simp only [stepSt, Op.src, bump_n, giveIfEmpty_n, if_true]
    omega
  | sgive s equ d =>
    simp only [Op.lab, slackLab] at hj
    cases equ <;> simp [Lab.idx] at hj

theorem invN_step {st : St} {E : List Edge} (hI : InvN st E) (o : Op) :
    InvN (stepSt st o) (E ++ stepE st o) := by
  have hnew : ∀ e, e ∈ stepE st o → e = ⟨o.src, o.lab st, o.dst⟩ ∧ (st.get o.dst).s = [] := by
    intro e he
    unfold stepE at he
    by_cases hd : (st.get o.dst).s = []
    · simp only [hd, if_true, List.mem_singleton] at he; exact ⟨he, hd⟩
    · simp [hd] at he
  refine ⟨?_, ?_⟩
  · intro e he j hj
    rcases List.mem_append.mp he with he | he
    · exact Nat.lt_of_lt_of_le (hI.idx e he j hj) (step_n_ge st o e.p)
    · obtain ⟨h1, hd⟩ := hnew e he
      subst h1
      exact step_n_src st o hd j hj
  · intro e he e' he' hp hl hs
    rcases List.mem_append.mp he with he | he <;> rcases List.mem_append.mp he' with he' | he'
    · exact hI.sib e he e' he' hp hl hs
    · -- e old, e' new: the new counted label is not below the old counter
      obtain ⟨h1, _⟩ := hnew e' he'
      subst h1
      cases hj : e.l.idx with
      | none => rw [hj] at hs; simp at hs
      | some j =>
        have h1 := hI.idx e he j hj
        cases o with
        | copy s d =>
          simp only [Op.lab] at hl
          rw [hl, idx_cntLab] at hj
          simp only [Op.src] at hp
          rw [hp] at h1
          simp only [Option.some.injEq] at hj
          omega
        | distr s d =>
          simp only [Op.lab] at hl
          rw [hl, idx_cntLab] at hj
          simp only [Op.src] at hp
          rw [hp] at h1
          simp only [Option.some.injEq] at hj
          omega
        | sgive s equ d =>
          simp only [Op.lab, slackLab] at hl
          rw [hl] at hj
          cases equ <;> simp [Lab.idx] at hj
    · obtain ⟨h1, _⟩ := hnew e he
      subst h1
      cases hj : e'.l.idx with
      | none => rw [hl, hj] at hs; simp at hs
      | some j =>
        have h1 := hI.idx e' he' j hj
        cases o with
        | copy s d =>
          simp only [Op.lab] at hl
          rw [← hl, idx_cntLab] at hj
          simp only [Op.src] at hp
          rw [← hp] at h1
          simp only [Option.some.injEq] at hj
          omega
        | distr s d =>
          simp only [Op.lab] at hl
          rw [← hl, idx_cntLab] at hj
          simp only [Op.src] at hp
          rw [← hp] at h1
          simp only [Option.some.injEq] at hj
          omega
        | sgive s equ d =>
          simp only [Op.lab, slackLab] at hl
          rw [← hl] at hj
          cases equ <;> simp [Lab.idx] at hj
    · obtain ⟨h1, _⟩ := hnew e he
      obtain ⟨h2, _⟩ := hnew e' he'
      rw [h1, h2]

theorem invN_run : ∀ (ops : List Op) (st : St) (E : List Edge), InvN st E →
    InvN (run st ops) (E ++ edges st ops) := by
  intro ops
  induction ops with
  | nil => intro st E hI; simpa [run, edges] using hI
  | cons o os ih =>
    intro st E hI
    have := ih (stepSt st o) (E ++ stepE st o) (invN_step hI o)
    simpa [run, edges, List.append_assoc] using this

end MpVerif.C19

import MpVerif.C19.Model
/-! Combinatorics of the naming forest: cells, naming edges `(parent, label, child)`.
Two cells whose label paths from the same root agree after deleting the `plain` labels are equal or
related by a chain of plain edges, provided sibling labels are distinct and equal non-plain labels never
leave plain-related cells. -/
namespace MpVerif.C19

/-- `b` is reached from `a` by a non-empty chain of plain edges -/
inductive Below (E : List Edge) : Nat → Nat → Prop
  | one {a b} : (⟨a, Lab.plain, b⟩ : Edge) ∈ E → Below E a b
  | snoc {a b c} : Below E a b → (⟨b, Lab.plain, c⟩ : Edge) ∈ E → Below E a c

/-- label path (most recent label first) from root `r` to a cell -/
inductive Path (E : List Edge) (r : Nat) : List Lab → Nat → Prop
  | root : Path E r [] r
  | step {ls p l c} : Path E r ls p → (⟨p, l, c⟩ : Edge) ∈ E → Path E r (l :: ls) c

def strip : List Lab → List Lab
  | [] => []
  | l :: ls => if l = Lab.plain then strip ls else l :: strip ls

def SibDistinct (E : List Edge) : Prop :=
  ∀ e ∈ E, ∀ e' ∈ E, e.p = e'.p → e.l = e'.l → e = e'

def NoClash (E : List Edge) : Prop :=
  ∀ e ∈ E, ∀ e' ∈ E, e.l = e'.l → e.l ≠ Lab.plain → ¬ Below E e.p e'.p

theorem Below.head {E : List Edge} {a b : Nat} (h : Below E a b) :
    ∃ c, (⟨a, Lab.plain, c⟩ : Edge) ∈ E ∧ (c = b ∨ Below E c b) := by
  induction h with
  | one h => exact ⟨_, h, Or.inl rfl⟩
  | snoc _ h2 ih =>
    obtain ⟨c, hc, hcb⟩ := ih
    refine ⟨c, hc, Or.inr ?_⟩
    cases hcb with
    | inl h => subst h; exact Below.one h2
    | inr h => exact Below.snoc h h2

/-- extend a relation `u ~ p` by a plain edge `p → v` -/
theorem plain_step {E : List Edge} (hs : SibDistinct E) {u p v : Nat}
    (h : u = p ∨ Below E u p ∨ Below E p u) (he : (⟨p, Lab.plain, v⟩ : Edge) ∈ E) :
    u = v ∨ Below E u v ∨ Below E v u := by
  rcases h with h | h | h
  · subst h; exact Or.inr (Or.inl (Below.one he))
  · exact Or.inr (Or.inl (Below.snoc h he))
  · obtain ⟨c, hc, hcu⟩ := h.head
    have := hs _ hc _ he rfl rfl
    have hcv : c = v := by injection this
    subst hcv
    cases hcu with
    | inl h => exact Or.inl h.symm
    | inr h => exact Or.inr (Or.inr h)

theorem rel_symm {E : List Edge} {u v : Nat} (h : u = v ∨ Below E u v ∨ Below E v u) :
    v = u ∨ Below E v u ∨ Below E u v := by
  rcases h with h | h | h
  · exact Or.inl h.symm
  · exact Or.inr (Or.inr h)
  · exact Or.inr (Or.inl h)

theorem strip_cons_plain (ls : List Lab) : strip (Lab.plain :: ls) = strip ls := by simp [strip]
theorem strip_cons_ne {l : Lab} (h : l ≠ Lab.plain) (ls : List Lab) : strip (l :: ls) = l :: strip ls := by
  simp [strip, h]

/-- main lemma -/
theorem path_rel {E : List Edge} (hs : SibDistinct E) (hc : NoClash E) {r : Nat} :
    ∀ {ls : List Lab} {u : Nat}, Path E r ls u → ∀ {ls' : List Lab} {v : Nat}, Path E r ls' v →
      strip ls = strip ls' → u = v ∨ Below E u v ∨ Below E v u := by
  intro ls u h1
  induction h1 with
  | root =>
    intro ls' v h2
    induction h2 with
    | root => intro _; exact Or.inl rfl
    | @step ls0' p' l' v' _ e' ih =>
      intro hst
      by_cases hl' : l' = Lab.plain
      · subst hl'
        rw [strip_cons_plain] at hst
        exact plain_step hs (ih hst) e'
      · rw [strip_cons_ne hl'] at hst
        simp [strip] at hst
  | @step ls0 p l u' h1s e ih1 =>
    intro ls' v h2
    by_cases hl : l = Lab.plain
    · subst hl
      intro hst
      rw [strip_cons_plain] at hst
      exact rel_symm (plain_step hs (rel_symm (ih1 h2 hst)) e)
    · induction h2 with
      | root =>
        intro hst
        rw [strip_cons_ne hl] at hst
        simp [strip] at hst
      | @step ls0' p' l' v' h2s e' ih2 =>
        intro hst
        by_cases hl' : l' = Lab.plain
        · subst hl'
          rw [strip_cons_plain] at hst
          exact plain_step hs (ih2 hst) e'
        · rw [strip_cons_ne hl, strip_cons_ne hl'] at hst
          have hll : l = l' := by injection hst
          have hrest : strip ls0 = strip ls0' := by injection hst
          subst hll
          rcases ih1 h2s hrest with h | h | h
          · subst h
            have := hs _ e _ e' rfl rfl
            exact Or.inl (by injection this)
          · exact absurd h (hc _ e _ e' rfl hl)
          · exact absurd h (hc _ e' _ e rfl hl)

theorem Path.mono {E E' : List Edge} (hsub : ∀ e, e ∈ E → e ∈ E') {r : Nat} {ls : List Lab} {c : Nat}
    (h : Path E r ls c) : Path E' r ls c := by
  induction h with
  | root => exact Path.root
  | step _ he ih => exact Path.step ih (hsub _ he)

/-! ### soundness of the Boolean checks -/

theorem sibDistinctB_sound {E : List Edge} (h : sibDistinctB E = true) : SibDistinct E := by
  intro e he e' he' hp hl
  simp only [sibDistinctB, List.all_eq_true] at h
  have := h e he e' he'
  simp [hp, hl] at this
  exact this

theorem below_in_closed {E : List Edge} {R : List (Nat × Nat)} (h : closedB E R = true) {a b : Nat}
    (hb : Below E a b) : (a, b) ∈ R := by
  simp only [closedB, List.all_eq_true] at h
  induction hb with
  | one he =>
    have := h _ he
    simp at this
    exact this.1
  | snoc _ he ih =>
    have := h _ he
    simp at this
    have h2 := this.2 _ _ ih
    simpa using h2

theorem noClashB_sound {E : List Edge} {R : List (Nat × Nat)} (hcl : closedB E R = true)
    (h : noClashB E R = true) : NoClash E := by
  intro e he e' he' hl hne hb
  have hin := below_in_closed hcl hb
  simp only [noClashB, List.all_eq_true] at h
  have := h e he e' he'
  simp [hl] at this
  rcases this with h1 | h1
  · exact hne (hl ▸ h1)
  · exact h1 hin

theorem belowFreeB_sound {E : List Edge} {R : List (Nat × Nat)} (hcl : closedB E R = true) {D : List Nat}
    (h : belowFreeB R D = true) {u v : Nat} (hu : u ∈ D) (hv : v ∈ D) : ¬ Below E u v := by
  intro hb
  have hin := below_in_closed hcl hb
  simp only [belowFreeB, List.all_eq_true] at h
  have := h u hu v hv
  simp at this
  exact this hin

end MpVerif.C19

import Std.Data.HashMap
/-!
# C19 — model of name generation in ampl/mp (counted names, name presolve, NameProvider)

Mirrors, as small total functions:

* `pre::VCString` (`include/mp/valcvt-base.h`): `MakeCountedName` (first copy plain, then
  `s_2_`, `s_3_`, …, post-incrementing a mutable counter), copy construction = counted name,
  assignment only into an empty string;
* the three link kinds executed by `ValuePresolver::PresolveNames` (`valcvt-link.h`,
  `flat/redef/std/range_con.h`):
  `CopyLink` (`std::copy` of `VCString`s = element-wise assignment),
  `Many2ManyLink/One2ManyLink::Distr` (`SetVal(i, val)` by value: the source is counted for every
  target, the name is stored only into an empty target),
  `RangeCon2Slack::PresolveNamesEntry` (`src + "_slk_"`, `src + "_equ_"`, no counting);
* how the final names are read off the value nodes (`FlatConverter::PresolveNames`,
  `ConstraintKeeper::CopyNamesFromValueNodes`);
* `NameProvider` / `internal::ReadNames` (`src/nl-reader.cc`, `include/mp/nl-reader.h`) on the bytes
  of a `.col`/`.row` file, generic names, and the `cvt:names` mode logic of
  `ModelManagerWithProblemBuilder::ReadNames/SetObjNames`.

Cells of all value nodes are numbered by one flat index (`Nat`); the harness flattens
`(node, index)` pairs of the exported graph.
-/
namespace MpVerif.C19

abbrev Name := List Char

/-- decimal rendering, `std::to_string` for non-negative integers -/
def dec (k : Nat) : Name := Nat.toDigits 10 k

/-- `pre::VCString`: string + mutable copy counter -/
structure VCStr where
  s : Name := []
  n : Nat := 0
deriving Repr, DecidableEq, Inhabited

/-- suffix appended by `MakeCountedName` when the counter (before increment) is `j` -/
def cntSuffix (j : Nat) : Name :=
  if j = 0 then [] else '_' :: (dec (j + 1) ++ ['_'])

/-- `MakeCountedName`: `n_++==0 ? s_ : s_ + '_' + to_string(n_) + '_'`; returns the name and the updated source -/
def VCStr.counted (v : VCStr) : Name × VCStr :=
  (v.s ++ cntSuffix v.n, { v with n := v.n + 1 })

/-- state of all value-node name cells -/
abbrev St := Std.HashMap Nat VCStr

def St.get (st : St) (c : Nat) : VCStr := st.getD c {}
def St.set (st : St) (c : Nat) (v : VCStr) : St := st.insert c v

/-- elementary name-presolve operations on cells -/
inductive Op where
  /-- one element of `CopyLink::CopySrcDest<VCString>` (`dest[k] = src[k]`, `VCString::operator=`) -/
  | copy (s d : Nat)
  /-- one `(i0,i)` iteration of `Many2ManyLink::Distr<VCString>` (`SetVal(i, val)`) -/
  | distr (s d : Nat)
  /-- `RangeCon2Slack::PresolveNamesEntry` with `{CON_SRC, CON_TARGET, VAR_SLK}` -/
  | slack (s con slk : Nat)
deriving Repr, DecidableEq

def Op.src : Op → Nat
  | .copy s _ => s
  | .distr s _ => s
  | .slack s _ _ => s

def slkSuffix : Name := ['_', 's', 'l', 'k', '_']
def equSuffix : Name := ['_', 'e', 'q', 'u', '_']

/-- store `nm` into cell `d` if it is empty (`VCString::operator=`), keeping its counter -/
def St.giveIfEmpty (st : St) (d : Nat) (nm : Name) : St :=
  if (st.get d).s = [] then st.set d { st.get d with s := nm } else st

/-- effect of one operation on the cells -/
def stepSt (st : St) : Op → St
  | .copy s d =>
    -- operator=: only if the target is empty the source is counted
    if (st.get d).s = [] then
      let c := (st.get s).counted
      let st1 := st.set s c.2
      st1.set d { st1.get d with s := c.1 }
    else st
  | .distr s d =>
    -- SetVal(i, VCString v): the by-value parameter is a counted copy, always
    let c := (st.get s).counted
    let st1 := st.set s c.2
    st1.giveIfEmpty d c.1
  | .slack s con slk =>
    -- operator+ builds a fresh VCString, the source counter is untouched
    let st1 := st.giveIfEmpty slk ((st.get s).s ++ slkSuffix)
    st1.giveIfEmpty con ((st1.get s).s ++ equSuffix)

def run (st : St) : List Op → St
  | [] => st
  | o :: os => run (stepSt st o) os

/-! ### ghost structure: which cell was named from which -/

/-- how a derived name extends its parent's name -/
inductive Lab where
  | plain            -- first counted copy: same text
  | num (k : Nat)    -- counted copy `_k_`
  | slk
  | equ
deriving Repr, DecidableEq

def Lab.tok : Lab → Name
  | .plain => []
  | .num k => '_' :: (dec k ++ ['_'])
  | .slk => slkSuffix
  | .equ => equSuffix

/-- label of the counted copy taken when the source counter is `j` -/
def cntLab (j : Nat) : Lab := if j = 0 then .plain else .num (j + 1)

structure Edge where
  p : Nat
  l : Lab
  c : Nat
deriving Repr, DecidableEq

/-- naming edges created by one operation in state `st` (only actual stores are recorded) -/
def stepE (st : St) : Op → List Edge
  | .copy s d =>
    if (st.get d).s = [] then [⟨s, cntLab (st.get s).n, d⟩] else []
  | .distr s d =>
    let st1 := st.set s (st.get s).counted.2
    if (st1.get d).s = [] then [⟨s, cntLab (st.get s).n, d⟩] else []
  | .slack s con slk =>
    let e1 : List Edge := if (st.get slk).s = [] then [⟨s, .slk, slk⟩] else []
    let st1 := st.giveIfEmpty slk ((st.get s).s ++ slkSuffix)
    let e2 : List Edge := if (st1.get con).s = [] then [⟨s, .equ, con⟩] else []
    e1 ++ e2

def edges (st : St) : List Op → List Edge
  | [] => []
  | o :: os => stepE st o ++ edges (stepSt st o) os

/-- every operation finds a non-empty source name when it is executed -/
def wellFed (st : St) : List Op → Bool
  | [] => true
  | o :: os => decide ((st.get o.src).s ≠ []) && wellFed (stepSt st o) os

/-! ### link entries as exported by `cvt:writegraph` -> elementary operations -/

/-- `CopyLink` entry: ranges of equal length, `std::copy` front to back -/
def expandCopy (s0 d0 len : Nat) : List Op :=
  (List.range len).map fun k => Op.copy (s0 + k) (d0 + k)

/-- `Many2ManyLink::Distr`: for every source index, for every target index -/
def expandDistr (s0 slen d0 dlen : Nat) : List Op :=
  (List.range slen).flatMap fun i0 => (List.range dlen).map fun i => Op.distr (s0 + i0) (d0 + i)

/-! ### reading the results (FlatConverter::PresolveNames) -/

/-- variables and objectives: `return dest_` copy-constructs every element (one more counted copy),
the later `std::string` conversion of the copy is plain -/
def deliveredVarName (st : St) (c : Nat) : Name := (st.get c).counted.1
/-- constraints: `MakeCurrentName()` of the keeper's value-node cell -/
def deliveredConName (st : St) (c : Nat) : Name := (st.get c).s

/-! ### decidable hypotheses of the uniqueness theorem, evaluated on every real run -/

/-- labels of edges leaving the same parent are different (for counted labels this is a theorem;
for `_slk_`/`_equ_` it says a range constraint is converted once) -/
def sibDistinctB (E : List Edge) : Bool :=
  E.all fun e => E.all fun e' => !(e.p == e'.p && e.l == e'.l) || e == e'

/-- if a cell has a plain child and another (non-plain) child, the plain child has no children -/
def plainSafeB (E : List Edge) : Bool :=
  E.all fun e1 => E.all fun e2 => E.all fun e3 =>
    !(e1.p == e2.p && e1.l == Lab.plain && e2.l != Lab.plain && e3.p == e1.c)

/-- `c` was never the source of a counted copy nor of a slack entry that stored a name -/
def leafB (st : St) (E : List Edge) (c : Nat) : Bool :=
  (st.get c).n == 0 && E.all fun e => e.p != c

/-- `q` begins with `p` -/
def isPrefixB : Name → Name → Bool
  | [], _ => true
  | _ :: _, [] => false
  | a :: p, b :: q => a == b && isPrefixB p q

/-- body of a token up to the closing underscore: returns the rest after `_` if the body is non-empty -/
def tokenBody : Name → Bool → Option Name
  | [], _ => none
  | c :: cs, seen => if c = '_' then (if seen then some cs else none) else tokenBody cs true

/-- `t` is a concatenation of tokens `_w_`, `w` non-empty without underscore (a superset of all
suffix chains `_k_`, `_slk_`, `_equ_` the name presolve can append) -/
def isChainB (fuel : Nat) (t : Name) : Bool :=
  match fuel, t with
  | _, [] => true
  | 0, _ => false
  | fuel + 1, c :: cs =>
    if c = '_' then
      match tokenBody cs false with
      | some rest => isChainB fuel rest
      | none => false
    else false

/-- no source name equals another source name followed by a (possibly empty) suffix chain;
in particular the source names are pairwise different -/
def suffixFreeB (names : List Name) : Bool :=
  let idx := List.range names.length
  idx.all fun i => idx.all fun j =>
    i == j ||
      !(isPrefixB (names.getD j []) (names.getD i []) &&
        isChainB ((names.getD i []).length + 1) ((names.getD i []).drop (names.getD j []).length))

def nodupB (l : List Name) : Bool :=
  match l with
  | [] => true
  | a :: as => !(as.contains a) && nodupB as

/-! ### NameProvider (src/nl-reader.cc) on the bytes of a names file -/

/-- outcome of `internal::ReadNames` + `NameProvider::ReadNames`: the vector `names_` of offsets
(one per line plus the extra end pointer), or the `missing newline` error -/
inductive ReadRes where
  | ok (offs : List Nat)
  | missingNewline
deriving Repr, DecidableEq

/-- scan `data` from offset `pos`; `start` = offset of the current line, `cr` = `in_win_newline` -/
def scanNames : List Char → (pos start : Nat) → (cr : Bool) → (acc : List Nat) → (last : Nat × Nat) →
    Option (List Nat × (Nat × Nat))
  | [], pos, start, _, acc, last => if start = pos then some (acc.reverse, last) else none
  | c :: cs, pos, start, cr, acc, last =>
    let cr' := cr || c = '\r'
    if c = '\n' then
      -- handler.OnName(StringRef(start, ptr - start - in_win_newline))
      scanNames cs (pos + 1) (pos + 1) false (start :: acc) (start, pos - start - (if cr' then 1 else 0))
    else scanNames cs (pos + 1) start cr' acc last

/-- `names_` after `NameProvider::ReadNames` on an existing, non-empty file -/
def readNamesFile (data : List Char) : ReadRes :=
  match scanNames data 0 0 false [] (0, 0) with
  | none => .missingNewline
  | some (offs, (ld, lsz)) =>
    -- names_.push_back(last_name.data() + last_name.size() + 1)
    .ok (offs ++ [ld + lsz + 1])

/-- result of `NameProvider::name(index)` for a name taken from the file -/
inductive FileName where
  | name (nm : Name)
  /-- the Windows test `*(pos1past-1)` reads the byte before the mapped file (first line empty) -/
  | readsBeforeBuffer (nmIfNotCR : Name)
deriving Repr, DecidableEq

def slice (data : List Char) (b e : Nat) : Name := (data.drop b).take (e - b)

/-- `NameProvider::name`, branch `index + 1 < names_.size()` -/
def fileName (data : List Char) (offs : List Nat) (index : Nat) : Option FileName :=
  if index + 1 < offs.length then
    let nm := offs.getD index 0
    let pos1past := offs.getD (index + 1) 0 - 1
    if pos1past = 0 then some (.readsBeforeBuffer (slice data nm pos1past))
    else if data.getD (pos1past - 1) ' ' = '\r' then some (.name (slice data nm (pos1past - 1)))
    else some (.name (slice data nm pos1past))
  else none

def genericName (stub : Name) (k : Nat) : Name := stub ++ '[' :: (dec k ++ [']'])

/-- `NameProvider::name(index, i2)` including generated names; `offs = []` when nothing was read -/
def provName (data : List Char) (offs : List Nat) (gen gen2 : Name) (index i2 : Nat) : FileName :=
  match fileName data offs index with
  | some r => r
  | none =>
    if index ≥ i2 then .name (genericName gen2 (index - i2 + 1))
    else .name (genericName gen (index + 1))

def numberRead (offs : List Nat) : Nat := offs.length - 1

def FileName.text : FileName → Name
  | .name nm => nm
  | .readsBeforeBuffer nm => nm

def FileName.ub : FileName → Bool
  | .name _ => false
  | .readsBeforeBuffer _ => true

/-- contents of a names file as seen by `NameReader::Read`: absent/unreadable/empty files are ignored -/
def fileOffsets (file : Option (List Char)) : ReadRes :=
  match file with
  | none => .ok [1]           -- names_ = { ""+1 }: nothing read
  | some [] => .ok [1]        -- empty file cannot be mapped: ignored
  | some d => readNamesFile d

structure NamesIn where
  mode : Nat                 -- cvt:names
  col : Option (List Char)
  row : Option (List Char)
  nv : Nat                   -- num_vars
  ndv : Nat                  -- num_common_exprs
  ncon : Nat                 -- num_cons (algebraic + logical)
  nalg : Nat                 -- num_algebraic_cons
  nobj : Nat                 -- num_objs
  objno : Nat                -- objno_used (1-based)
  multiobj : Bool

structure NamesOut where
  vars : List FileName
  cons : List FileName
  objs : List FileName

inductive NamesRes where
  | none                    -- no names given to the converter
  | error                   -- ReadError (missing newline)
  | names (o : NamesOut)

def svar : Name := "_svar".toList
def sdvar : Name := "_sdvar".toList
def scon : Name := "_scon".toList
def slogcon : Name := "_slogcon".toList
def sobj : Name := "_sobj".toList

/-- `ModelManagerWithProblemBuilder::ReadNames` + `SetObjNames` -/
def readNamesModel (i : NamesIn) : NamesRes :=
  if i.mode = 0 then .none else
  let colr := if i.mode ≤ 2 then fileOffsets i.col else .ok []
  match colr with
  | .missingNewline => .error
  | .ok co =>
  let rowr := if i.mode ≤ 2 then fileOffsets i.row else .ok []
  match rowr with
  | .missingNewline => .error
  | .ok ro =>
    let cd := i.col.getD []
    let rd := i.row.getD []
    if i.mode ≥ 2 ∨ numberRead co + numberRead ro ≠ 0 then
      let vars := (List.range (i.nv + i.ndv)).map fun k => provName cd co svar sdvar k i.nv
      let cons := (List.range i.ncon).map fun k => provName rd ro scon slogcon k i.nalg
      let o1 := if i.multiobj then 0 else i.objno - 1
      let o2 := if i.multiobj then i.nobj else i.objno
      let objs := if i.nobj = 0 then [] else
        ((List.range (o2 - o1)).map fun t =>
          let io := i.ncon + o1 + t
          if numberRead ro > io then (fileName rd ro io).getD (.name [])
          else FileName.name (genericName sobj (io - i.ncon + 1)))
      .names ⟨vars, cons, objs⟩
    else .none

end MpVerif.C19

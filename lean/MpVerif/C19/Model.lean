import Std.Data.HashMap
/-!
# C19 — model of name generation in ampl/mp (counted names, name presolve, NameProvider)

Mirrors, as small total functions:

* `pre::VCString` (`include/mp/valcvt-base.h`): `MakeCountedName` (first copy plain, then
  `s_2_`, `s_3_`, …, post-incrementing a mutable counter), copy construction = counted name,
  assignment only into an empty string;
* the three link kinds executed by `ValuePresolver::PresolveNames` (`valcvt-link.h`,
  `flat/redef/std/range_con.h`):
  `CopyLink` (`std::copy` of `VCString`s = element-wise assignment),
  `Many2ManyLink/One2ManyLink::Distr` (`SetVal(i, val)` by value: the source is counted for every
  target, the name is stored only into an empty target),
  `RangeCon2Slack::PresolveNamesEntry` (`src + "_slk_"`, `src + "_equ_"`, no counting);
* how the final names are read off the value nodes (`FlatConverter::PresolveNames`,
  `ConstraintKeeper::CopyNamesFromValueNodes`);
* `NameProvider` / `internal::ReadNames` (`src/nl-reader.cc`, `include/mp/nl-reader.h`) on the bytes
  of a `.col`/`.row` file, generic names, and the `cvt:names` mode logic of
  `ModelManagerWithProblemBuilder::ReadNames/SetObjNames`.

Cells of all value nodes are numbered by one flat index (`Nat`); the harness flattens
`(node, index)` pairs of the exported graph.
-/
namespace MpVerif.C19

abbrev Name := List Char

/-- decimal rendering, `std::to_string` for non-negative integers -/
def dec (k : Nat) : Name := Nat.toDigits 10 k

/-- `pre::VCString`: string + mutable copy counter -/
structure VCStr where
  s : Name := []
  n : Nat := 0
deriving Repr, DecidableEq, Inhabited

/-- suffix appended by `MakeCountedName` when the counter (before increment) is `j` -/
def cntSuffix (j : Nat) : Name :=
  if j = 0 then [] else '_' :: (dec (j + 1) ++ ['_'])

/-- `MakeCountedName`: `n_++==0 ? s_ : s_ + '_' + to_string(n_) + '_'`; returns the name and the updated source -/
def VCStr.counted (v : VCStr) : Name × VCStr :=
  (v.s ++ cntSuffix v.n, { v with n := v.n + 1 })

/-- state of all value-node name cells -/
abbrev St := Std.HashMap Nat VCStr

def St.get (st : St) (c : Nat) : VCStr := st.getD c {}
def St.set (st : St) (c : Nat) (v : VCStr) : St := st.insert c v

/-- elementary name-presolve operations on cells -/
inductive Op where
  /-- one element of `CopyLink::CopySrcDest<VCString>` (`dest[k] = src[k]`, `VCString::operator=`) -/
  | copy (s d : Nat)
  /-- one `(i0,i)` iteration of `Many2ManyLink::Distr<VCString>` (`SetVal(i, val)`) -/
  | distr (s d : Nat)
  /-- one `SetStr(be, pos, GetStr(be, CON_SRC) + "_slk_"/"_equ_")` of `RangeCon2Slack::PresolveNamesEntry` -/
  | sgive (s : Nat) (equ : Bool) (d : Nat)
deriving Repr, DecidableEq

def Op.src : Op → Nat
  | .copy s _ => s
  | .distr s _ => s
  | .sgive s _ _ => s

def Op.dst : Op → Nat
  | .copy _ d => d
  | .distr _ d => d
  | .sgive _ _ d => d

def slkSuffix : Name := ['_', 's', 'l', 'k', '_']
def equSuffix : Name := ['_', 'e', 'q', 'u', '_']

/-- store `nm` into cell `d` if it is empty (`VCString::operator=`), keeping its counter -/
def St.giveIfEmpty (st : St) (d : Nat) (nm : Name) : St :=
  if (st.get d).s = [] then st.set d { st.get d with s := nm } else st

/-- post-increment of the copy counter of cell `s` (`n_++` inside `MakeCountedName`) -/
def St.bump (st : St) (s : Nat) : St := st.set s (st.get s).counted.2

/-! ### ghost structure: which cell was named from which -/

/-- how a derived name extends its parent's name -/
inductive Lab where
  | plain            -- first counted copy: same text
  | num (k : Nat)    -- counted copy `_k_`
  | slk
  | equ
deriving Repr, DecidableEq

def Lab.tok : Lab → Name
  | .plain => []
  | .num k => '_' :: (dec k ++ ['_'])
  | .slk => slkSuffix
  | .equ => equSuffix

/-- label of the counted copy taken when the source counter is `j` -/
def cntLab (j : Nat) : Lab := if j = 0 then .plain else .num (j + 1)

def slackLab (equ : Bool) : Lab := if equ then .equ else .slk

/-- effect of one operation on the cells -/
def stepSt (st : St) : Op → St
  | .copy s d =>
    -- operator=: only if the target is empty the source is counted (`s_ = vcs.MakeCountedName()`)
    if (st.get d).s = [] then (st.giveIfEmpty d (st.get s).counted.1).bump s else st
  | .distr s d =>
    -- SetVal(i, VCString v): the by-value parameter is a counted copy of the source, always;
    -- the copy is then stored only into an empty target
    (st.giveIfEmpty d (st.get s).counted.1).bump s
  | .sgive s equ d =>
    -- operator+ builds a fresh VCString, the source counter is untouched
    st.giveIfEmpty d ((st.get s).s ++ (slackLab equ).tok)

def run (st : St) : List Op → St
  | [] => st
  | o :: os => run (stepSt st o) os

structure Edge where
  p : Nat
  l : Lab
  c : Nat
deriving Repr, DecidableEq

/-- label an operation would use in state `st` -/
def Op.lab (st : St) : Op → Lab
  | .copy s _ => cntLab (st.get s).n
  | .distr s _ => cntLab (st.get s).n
  | .sgive _ equ _ => slackLab equ

/-- naming edge created by one operation in state `st` (only actual stores are recorded) -/
def stepE (st : St) (o : Op) : List Edge :=
  if (st.get o.dst).s = [] then [⟨o.src, o.lab st, o.dst⟩] else []

def edges (st : St) : List Op → List Edge
  | [] => []
  | o :: os => stepE st o ++ edges (stepSt st o) os

/-- every operation that stores a name finds a non-empty source name when it is executed -/
def wellFed (st : St) : List Op → Bool
  | [] => true
  | o :: os => (decide ((st.get o.dst).s ≠ []) || decide ((st.get o.src).s ≠ [])) && wellFed (stepSt st o) os

/-! ### link entries as exported by `cvt:writegraph` -> elementary operations -/

/-- `CopyLink` entry: ranges of equal length, `std::copy` front to back -/
def expandCopy (s0 d0 len : Nat) : List Op :=
  (List.range len).map fun k => Op.copy (s0 + k) (d0 + k)

/-- `Many2ManyLink::Distr`: for every source index, for every target index -/
def expandDistr (s0 slen d0 dlen : Nat) : List Op :=
  (List.range slen).flatMap fun i0 => (List.range dlen).map fun i => Op.distr (s0 + i0) (d0 + i)

/-- `RangeCon2Slack::PresolveNamesEntry` for `{CON_SRC, CON_TARGET, VAR_SLK}`: slack first, then the equality -/
def expandSlack (s con slk : Nat) : List Op := [Op.sgive s false slk, Op.sgive s true con]

/-! ### building the schedule: `CopyLink::AddEntry`, `Many2ManyLink::AddEntry` (with repo commit 5f9dc1e:
an entry is extended in place only if it is the most recently registered entry of the whole chain) -/

/-- a link entry of the execution schedule; cells are `(node, index)` -/
inductive Entry where
  | copy (link sn sb dn db len : Nat)
  | m2m (link sn sb slen dn db dlen : Nat)
  | slack (link sn si cn ci vn vi : Nat)
deriving Repr, DecidableEq

def Entry.ops (base : Nat → Nat) : Entry → List Op
  | .copy _ sn sb dn db len => expandCopy (base sn + sb) (base dn + db) len
  | .m2m _ sn sb slen dn db dlen => expandDistr (base sn + sb) slen (base dn + db) dlen
  | .slack _ sn si cn ci vn vi => expandSlack (base sn + si) (base cn + ci) (base vn + vi)

/-- operations of a schedule kept most-recent-first (head = last registered entry) -/
def schedOps (base : Nat → Nat) : List Entry → List Op
  | [] => []
  | e :: rest => schedOps base rest ++ e.ops base

/-- `CopyLink::AddEntry`: `IsLastRegisteredEntry(entries_.size()-1)` holds iff the head of the schedule
is an entry of this link; then both ranges must be extendable (`same node, end == new begin`) -/
def addCopy (S : List Entry) (link sn sb dn db len : Nat) : List Entry :=
  match S with
  | .copy l sn' sb' dn' db' len' :: rest =>
    if l = link ∧ sn' = sn ∧ sb' + len' = sb ∧ dn' = dn ∧ db' + len' = db
    then .copy l sn' sb' dn' db' (len' + len) :: rest
    else .copy link sn sb dn db len :: S
  | _ => .copy link sn sb dn db len :: S

/-- `Many2ManyLink::AddEntry`: same sources and consecutive targets, or same targets and consecutive sources -/
def addM2M (S : List Entry) (link sn sb slen dn db dlen : Nat) : List Entry :=
  match S with
  | .m2m l sn' sb' slen' dn' db' dlen' :: rest =>
    if l = link ∧ sn' = sn ∧ sb' = sb ∧ slen' = slen ∧ dn' = dn ∧ db' + dlen' = db
    then .m2m l sn' sb' slen' dn' db' (dlen' + dlen) :: rest
    else if l = link ∧ dn' = dn ∧ db' = db ∧ dlen' = dlen ∧ sn' = sn ∧ sb' + slen' = sb
    then .m2m l sn' sb' (slen' + slen) dn' db' dlen' :: rest
    else .m2m link sn sb slen dn db dlen :: S
  | _ => .m2m link sn sb slen dn db dlen :: S

/-! ### how the converter registers items and links (constructor API)

Mirrors `ProblemFlattener`/`FlatConverter`: original items are created when the NL model is read (`root`); every other
item is created while an `AutoLinkScope` is open (`create`: `AddVar`/`AddConstraint` -> `AutoLink`), or an existing item
is linked again (`reuse`: map hits such as `MakeFixedVar`, shared functional constraints); the scope's destructor
registers the links (`closeScope`: `CopyLink` for a single target, `One2ManyLink` otherwise); a range constraint is
converted with auto-linking switched off and its own link (`slack`); equality encodings link several items to a new
one (`many2one`).  Scopes are not nested.  Calls whose guard fails leave the state unchanged and clear `ok`. -/

inductive Call where
  | root (c : Nat)
  | openScope (src : Nat)
  | create (c : Nat)
  | reuse (c : Nat)
  | closeScope
  | slack (con slk : Nat)
  | many2one (srcs : List Nat) (tgt : Nat)
deriving Repr, DecidableEq

structure BSt where
  items : List Nat := []                      -- every item (cell) that exists
  roots : List Nat := []                      -- original items
  ops : List Op := []                         -- registered link operations, in registration (= execution) order
  scope : Option (Nat × List Nat) := none     -- open AutoLinkScope: source, pending targets
  slackDone : List Nat := []                  -- range constraints already converted to slack form
  ok : Bool := true
deriving Repr

/-- links registered by `~AutoLinkScope` -/
def closeOps (src : Nat) (ts : List Nat) : List Op :=
  match ts with
  | [t] => [Op.copy src t]
  | _ => ts.map (Op.distr src)

def bstep (b : BSt) : Call → BSt
  | .root c =>
    if b.scope.isNone ∧ c ∉ b.items then { b with items := c :: b.items, roots := c :: b.roots } else { b with ok := false }
  | .openScope s =>
    if b.scope.isNone ∧ s ∈ b.items then { b with scope := some (s, []) } else { b with ok := false }
  | .create c =>
    match b.scope with
    | some (s, ts) => if c ∉ b.items then { b with items := c :: b.items, scope := some (s, ts ++ [c]) } else { b with ok := false }
    | none => { b with ok := false }
  | .reuse c =>
    match b.scope with
    | some (s, ts) => if c ∈ b.items then { b with scope := some (s, ts ++ [c]) } else { b with ok := false }
    | none => { b with ok := false }
  | .closeScope =>
    match b.scope with
    | some (s, ts) => { b with ops := b.ops ++ closeOps s ts, scope := none }
    | none => { b with ok := false }
  | .slack con slk =>
    match b.scope with
    | some (s, []) =>
      if con ∉ b.items ∧ slk ∉ b.items ∧ con ≠ slk ∧ s ∉ b.slackDone then
        { b with items := con :: slk :: b.items, ops := b.ops ++ expandSlack s con slk, scope := none, slackDone := s :: b.slackDone }
      else { b with ok := false }
    | _ => { b with ok := false }
  | .many2one srcs t =>
    if b.scope.isNone ∧ t ∉ b.items ∧ srcs ≠ [] ∧ srcs.all (fun s => b.items.contains s) then
      { b with items := t :: b.items, ops := b.ops ++ srcs.map (fun s => Op.distr s t) }
    else { b with ok := false }

def build (calls : List Call) : BSt := calls.foldl bstep {}

/-- items that were never the source of a registered link: what is handed to the solver -/
def BSt.leaves (b : BSt) : List Nat := b.items.filter fun c => b.ops.all fun o => o.src != c

/-- purely structural feeding condition: every operation's source (or its target) is in the set of cells
known to be named: the initially named cells and the targets of earlier operations -/
def topoB : List Nat → List Op → Bool
  | _, [] => true
  | named, o :: os => (named.contains o.dst || named.contains o.src) && topoB (o.dst :: named) os

/-- which arm of `stepSt` / `cntLab` an operation takes in state `st` (instrumentation for the coverage report):
copy: 0 stores first (plain) copy, 1 stores a later (`_k_`) copy, 2 target already named;
distr: 3, 4, 5 likewise; sgive: 6 stores, 7 target already named -/
def armOf (st : St) : Op → Nat
  | .copy s d => if (st.get d).s = [] then (if (st.get s).n = 0 then 0 else 1) else 2
  | .distr s d => if (st.get d).s = [] then (if (st.get s).n = 0 then 3 else 4) else 5
  | .sgive _ _ d => if (st.get d).s = [] then 6 else 7

def armCounts (st : St) (acc : List Nat) : List Op → List Nat
  | [] => acc
  | o :: os => armCounts (stepSt st o) (acc.modify (armOf st o) (· + 1)) os

/-- every delivered cell is an initially named cell or the target of some operation
(an item created outside of any link scope is not) -/
def coveredB (named : List Nat) (ops : List Op) (D : List Nat) : Bool :=
  D.all fun c => named.contains c || ops.any fun o => o.dst == c

/-! ### reading the results (FlatConverter::PresolveNames) -/

/-- variables and objectives: `return dest_` copy-constructs every element (one more counted copy),
the later `std::string` conversion of the copy is plain -/
def deliveredVarName (st : St) (c : Nat) : Name := (st.get c).counted.1
/-- constraints: `MakeCurrentName()` of the keeper's value-node cell -/
def deliveredConName (st : St) (c : Nat) : Name := (st.get c).s

/-! ### decidable hypotheses of the uniqueness theorem, evaluated on every real run -/

/-- labels of edges leaving the same parent are different (for counted labels this is a theorem;
for `_slk_`/`_equ_` it says a range constraint is converted once) -/
def sibDistinctB (E : List Edge) : Bool :=
  E.all fun e => E.all fun e' => !(e.p == e'.p && e.l == e'.l) || e == e'

/-- plain edges as (ancestor, descendant) pairs -/
def plainPairs (E : List Edge) : List (Nat × Nat) :=
  E.filterMap fun e => if e.l = Lab.plain then some (e.p, e.c) else none

/-- one round of right-extension of `R` by plain edges -/
def extendPairs (E : List Edge) (R : List (Nat × Nat)) : List (Nat × Nat) :=
  R ++ (R.flatMap fun ab => E.filterMap fun e =>
    if e.p = ab.2 ∧ e.l = Lab.plain ∧ ¬ R.contains (ab.1, e.c) then some (ab.1, e.c) else none).eraseDups

/-- pairs `(a, b)` such that `b` is reached from `a` by a non-empty chain of plain edges (iterated to a fixpoint) -/
def plainClosure : Nat → List Edge → List (Nat × Nat) → List (Nat × Nat)
  | 0, _, R => R
  | fuel + 1, E, R =>
    let R' := extendPairs E R
    if R'.length = R.length then R else plainClosure fuel E R'

/-- `R` contains every plain edge and is closed under right-extension by plain edges -/
def closedB (E : List Edge) (R : List (Nat × Nat)) : Bool :=
  E.all fun e => e.l != Lab.plain ||
    (R.contains (e.p, e.c) && R.all fun ab => ab.2 != e.p || R.contains (ab.1, e.c))

/-- two edges with the same non-plain label never leave cells related by a plain chain -/
def noClashB (E : List Edge) (R : List (Nat × Nat)) : Bool :=
  E.all fun e1 => E.all fun e2 => !(e1.l == e2.l && e1.l != Lab.plain && R.contains (e1.p, e2.p))

/-- no delivered cell is a plain-chain descendant of another delivered cell -/
def belowFreeB (R : List (Nat × Nat)) (D : List Nat) : Bool :=
  D.all fun u => D.all fun v => !R.contains (u, v)

/-- the delivered cells that are read through `MakeCountedName` (variables, objectives) were never counted -/
def uncountedB (st : St) (D : List Nat) : Bool := D.all fun c => (st.get c).n == 0

/-- scanner states for suffix chains: `_w_ _w_ …`, `w` non-empty without underscore -/
inductive CS where
  | start | opened | body
deriving DecidableEq, Repr

def CS.step : CS → Char → Option CS
  | .start, c => if c = '_' then some .opened else none
  | .opened, c => if c = '_' then none else some .body
  | .body, c => if c = '_' then some .start else some .body

def runCS : CS → Name → Option CS
  | q, [] => some q
  | q, c :: cs => match q.step c with
    | some q' => runCS q' cs
    | none => none

/-- `t` is a (possibly empty) concatenation of tokens `_w_`: a superset of every suffix chain
(`_k_`, `_slk_`, `_equ_`) the name presolve can append -/
def isChainB (t : Name) : Bool := runCS .start t == some .start

/-- `q` begins with `p` -/
def isPrefixB : Name → Name → Bool
  | [], _ => true
  | _ :: _, [] => false
  | a :: p, b :: q => a == b && isPrefixB p q

/-- `a` is `b` followed by a suffix chain -/
def extendsB (a b : Name) : Bool := isPrefixB b a && isChainB (a.drop b.length)

/-- no source name equals another source name followed by a (possibly empty) suffix chain;
in particular the source names are pairwise different -/
def suffixFreeB (names : List Name) : Bool :=
  let idx := List.range names.length
  idx.all fun i => idx.all fun j => i == j || !extendsB (names.getD i []) (names.getD j [])

def nodupB (l : List Name) : Bool :=
  match l with
  | [] => true
  | a :: as => !(as.contains a) && nodupB as

/-! ### NameProvider (src/nl-reader.cc) on the bytes of a names file -/

/-- outcome of `internal::ReadNames` + `NameProvider::ReadNames`: the vector `names_` of offsets
(one per line plus the extra end pointer), or the `missing newline` error -/
inductive ReadRes where
  | ok (offs : List Nat)
  | missingNewline
deriving Repr, DecidableEq

/-- scan `data` from offset `pos`; `start` = offset of the current line, `cr` = `in_win_newline` -/
def scanNames : List Char → (pos start : Nat) → (cr : Bool) → (acc : List Nat) → (last : Nat × Nat) →
    Option (List Nat × (Nat × Nat))
  | [], pos, start, _, acc, last => if start = pos then some (acc.reverse, last) else none
  | c :: cs, pos, start, cr, acc, last =>
    let cr' := cr || c = '\r'
    if c = '\n' then
      -- handler.OnName(StringRef(start, ptr - start - in_win_newline))
      scanNames cs (pos + 1) (pos + 1) false (start :: acc) (start, pos - start - (if cr' then 1 else 0))
    else scanNames cs (pos + 1) start cr' acc last

/-- `names_` after `NameProvider::ReadNames` on an existing, non-empty file -/
def readNamesFile (data : List Char) : ReadRes :=
  match scanNames data 0 0 false [] (0, 0) with
  | none => .missingNewline
  | some (offs, (ld, lsz)) =>
    -- names_.push_back(last_name.data() + last_name.size() + 1)
    .ok (offs ++ [ld + lsz + 1])

/-- result of `NameProvider::name(index)` for a name taken from the file -/
inductive FileName where
  | name (nm : Name)
deriving Repr, DecidableEq

def slice (data : List Char) (b e : Nat) : Name := (data.drop b).take (e - b)

/-- offset of the byte inspected by the Windows test `pos1past > name && '\r' == *(pos1past-1)`
(none: the guard short-circuits, nothing is read) -/
def winTestIdx (offs : List Nat) (index : Nat) : Option Nat :=
  let nm := offs.getD index 0
  let pos1past := offs.getD (index + 1) 0 - 1
  if pos1past > nm then some (pos1past - 1) else none

/-- `NameProvider::name`, branch `index + 1 < names_.size()` (with the guard of repo commit f144d4f) -/
def fileName (data : List Char) (offs : List Nat) (index : Nat) : Option FileName :=
  if index + 1 < offs.length then
    let nm := offs.getD index 0
    let pos1past := offs.getD (index + 1) 0 - 1
    match winTestIdx offs index with
    | some k => if data.getD k ' ' = '\r' then some (.name (slice data nm (pos1past - 1)))
                else some (.name (slice data nm pos1past))
    | none => some (.name (slice data nm pos1past))
  else none

def genericName (stub : Name) (k : Nat) : Name := stub ++ '[' :: (dec k ++ [']'])

/-- `NameProvider::name(index, i2)` including generated names; `offs = []` when nothing was read -/
def provName (data : List Char) (offs : List Nat) (gen gen2 : Name) (index i2 : Nat) : FileName :=
  match fileName data offs index with
  | some r => r
  | none =>
    if index ≥ i2 then .name (genericName gen2 (index - i2 + 1))
    else .name (genericName gen (index + 1))

def numberRead (offs : List Nat) : Nat := offs.length - 1

def FileName.text : FileName → Name
  | .name nm => nm

/-- contents of a names file as seen by `NameReader::Read`: absent/unreadable/empty files are ignored -/
def fileOffsets (file : Option (List Char)) : ReadRes :=
  match file with
  | none => .ok [1]           -- names_ = { ""+1 }: nothing read
  | some [] => .ok [1]        -- empty file cannot be mapped: ignored
  | some d => readNamesFile d

/-- `BasicProblem::item_name` (src/problem.cc): generated name `stub k` with `]` after a stub ending in `[`,
otherwise `_`; index counted from `ksub` -/
def itemName (stub : Name) (k ksub : Nat) : Name :=
  stub ++ dec (k - ksub + 1) ++ [if '[' = stub.getD (stub.length - 1) ' ' then ']' else '_']

/-- the names `BasicProblem` invents when nothing was read but names are asked for by the graph export
(`cvt:writegraph`): `_x[i]`, `_sdvar[i]`, `_CON<i>_`, `_LCON<i>_`, `_OBJ<i>_` -/
def itemNamesModel (nv ndv ncon nalg nobj : Nat) : List Name × List Name × List Name :=
  ((List.range (nv + ndv)).map fun k =>
      if k < nv then itemName "_x[".toList k 0 else itemName "_sdvar[".toList k nv,
   (List.range ncon).map fun k =>
      if k < nalg then itemName "_CON".toList k 0 else itemName "_LCON".toList k nalg,
   (List.range nobj).map fun k => itemName "_OBJ".toList k 0)

structure NamesIn where
  mode : Nat                 -- cvt:names
  col : Option (List Char)
  row : Option (List Char)
  nv : Nat                   -- num_vars
  ndv : Nat                  -- num_common_exprs
  ncon : Nat                 -- num_cons (algebraic + logical)
  nalg : Nat                 -- num_algebraic_cons
  nobj : Nat                 -- num_objs
  objno : Nat                -- objno_used (1-based)
  multiobj : Bool

structure NamesOut where
  vars : List FileName
  cons : List FileName
  objs : List FileName

inductive NamesRes where
  | none                    -- no names given to the converter
  | error                   -- ReadError (missing newline)
  | names (o : NamesOut)

def svar : Name := "_svar".toList
def sdvar : Name := "_sdvar".toList
def scon : Name := "_scon".toList
def slogcon : Name := "_slogcon".toList
def sobj : Name := "_sobj".toList

/-- `if (WantNames())` -/
def wantsNames (mode : Nat) : Bool := mode != 0
/-- `if (WantNames()<=2)`: the name files are read -/
def readsFiles (mode : Nat) : Bool := decide (mode ≤ 2)
/-- `if (WantNames()>=2 || npv.number_read()+npc.number_read())`: names are given to the problem -/
def setsNames (mode nrv nrc : Nat) : Bool := decide (mode ≥ 2) || (nrv + nrc != 0)
/-- `SetObjNames`: index range into the row names (constraints first, then objectives) of the delivered objectives:
`o1 = objno_used()-1`, `o2 = o1+1`, all objectives with `obj:multi` -/
def objIdxRange (ncon nobj objno : Nat) (multi : Bool) : Nat × Nat :=
  if multi then (ncon + 0, ncon + nobj) else (ncon + (objno - 1), ncon + (objno - 1 + 1))
/-- `"_sobj[" + to_string(io-num_c+1) + ']'` -/
def objGenericName (io ncon : Nat) : Name := genericName sobj (io - ncon + 1)

/-- `ModelManagerWithProblemBuilder::ReadNames` + `SetObjNames` -/
def readNamesModel (i : NamesIn) : NamesRes :=
  if !(wantsNames i.mode) then .none else
  let colr := if readsFiles i.mode then fileOffsets i.col else .ok []
  match colr with
  | .missingNewline => .error
  | .ok co =>
  let rowr := if readsFiles i.mode then fileOffsets i.row else .ok []
  match rowr with
  | .missingNewline => .error
  | .ok ro =>
    let cd := i.col.getD []
    let rd := i.row.getD []
    if setsNames i.mode (numberRead co) (numberRead ro) then
      let va : Nat × Nat := (i.nv + i.ndv, i.nv)            -- npv.get_names(num_vars + num_common_exprs, num_vars)
      let ca : Nat × Nat := (i.ncon, i.nalg)                -- npc.get_names(num_cons, num_algebraic_cons)
      let vars := (List.range va.1).map fun k => provName cd co svar sdvar k va.2
      let cons := (List.range ca.1).map fun k => provName rd ro scon slogcon k ca.2
      let r := objIdxRange i.ncon i.nobj i.objno i.multiobj
      let objs := if !(i.nobj != 0) then [] else
        ((List.range (r.2 - r.1)).map fun t =>
          let io := r.1 + t
          if decide (numberRead ro > io) then (fileName rd ro io).getD (.name [])
          else FileName.name (objGenericName io i.ncon))
      .names ⟨vars, cons, objs⟩
    else .none

end MpVerif.C19

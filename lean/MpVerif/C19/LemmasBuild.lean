import MpVerif.C19.LemmasSched
/-! Graphs built through the constructor API (`bstep`/`build`) are fed topologically, cover all items,
convert a range constraint at most once; leaves are never counted and never above another item. -/
namespace MpVerif.C19

def accDst (named : List Nat) (a : List Op) : List Nat := a.foldl (fun acc o => o.dst :: acc) named

theorem mem_accDst (a : List Op) : ∀ (named : List Nat) (c : Nat), c ∈ accDst named a ↔ c ∈ named ∨ ∃ o ∈ a, o.dst = c := by
  induction a with
  | nil => intro named c; simp [accDst]
  | cons o os ih =>
    intro named c
    simp only [accDst, List.foldl_cons] at *
    rw [ih (o.dst :: named) c]
    constructor
    · rintro (h | ⟨o', ho', hd⟩)
      · rcases List.mem_cons.mp h with h | h
        · exact Or.inr ⟨o, by simp, h.symm⟩
        · exact Or.inl h
      · exact Or.inr ⟨o', List.mem_cons_of_mem _ ho', hd⟩
    · rintro (h | ⟨o', ho', hd⟩)
      · exact Or.inl (List.mem_cons_of_mem _ h)
      · rcases List.mem_cons.mp ho' with h | h
        · subst h; exact Or.inl (by simp [hd])
        · exact Or.inr ⟨o', h, hd⟩

theorem topoB_append (a : List Op) : ∀ (named : List Nat) (b : List Op),
    topoB named (a ++ b) = (topoB named a && topoB (accDst named a) b) := by
  induction a with
  | nil => intro named b; simp [topoB, accDst]
  | cons o os ih =>
    intro named b
    simp only [List.cons_append, topoB, ih, accDst, List.foldl_cons, Bool.and_assoc]

theorem topoB_of_fed : ∀ (b : List Op) (N : List Nat), (∀ o ∈ b, o.src ∈ N) → topoB N b = true := by
  intro b
  induction b with
  | nil => intro _ _; rfl
  | cons o os ih =>
    intro N h
    simp only [topoB, Bool.and_eq_true, Bool.or_eq_true, List.contains_iff_mem]
    refine ⟨Or.inr (h o (by simp)), ih _ ?_⟩
    intro o' ho'
    exact List.mem_cons_of_mem _ (h o' (List.mem_cons_of_mem _ ho'))

theorem topoB_mono : ∀ (ops : List Op) (n1 n2 : List Nat), (∀ c, c ∈ n1 → c ∈ n2) → topoB n1 ops = true → topoB n2 ops = true := by
  intro ops
  induction ops with
  | nil => intro _ _ _ _; rfl
  | cons o os ih =>
    intro n1 n2 hsub h
    simp only [topoB, Bool.and_eq_true, Bool.or_eq_true, List.contains_iff_mem] at h ⊢
    refine ⟨?_, ih (o.dst :: n1) (o.dst :: n2) ?_ h.2⟩
    · rcases h.1 with h1 | h1
      · exact Or.inl (hsub _ h1)
      · exact Or.inr (hsub _ h1)
    · intro c hc
      rcases List.mem_cons.mp hc with h1 | h1
      · subst h1; simp
      · exact List.mem_cons_of_mem _ (hsub _ h1)

def Fed (b : BSt) (c : Nat) : Prop := c ∈ b.roots ∨ ∃ o ∈ b.ops, o.dst = c

structure BInv (b : BSt) : Prop where
  items_fed : ∀ c ∈ b.items, Fed b c ∨ ∃ s ts, b.scope = some (s, ts) ∧ c ∈ ts
  dst_items : ∀ o ∈ b.ops, o.dst ∈ b.items
  root_items : ∀ c ∈ b.roots, c ∈ b.items
  scope_ok : ∀ s ts, b.scope = some (s, ts) → Fed b s ∧ ∀ t ∈ ts, t ∈ b.items
  topo : topoB b.roots b.ops = true
  sg_done : ∀ o ∈ b.ops, ∀ s e d, o = Op.sgive s e d → s ∈ b.slackDone
  sg_fun : ∀ o ∈ b.ops, ∀ o' ∈ b.ops, ∀ s e d d', o = Op.sgive s e d → o' = Op.sgive s e d' → d = d'

theorem binv_init : BInv {} where
  items_fed := fun c h => by simp at h
  dst_items := fun o h => by simp at h
  root_items := fun c h => by simp at h
  scope_ok := fun s ts h => by simp at h
  topo := rfl
  sg_done := fun o h => by simp at h
  sg_fun := fun o h => by simp at h

theorem closeOps_src (s : Nat) (ts : List Nat) : ∀ o ∈ closeOps s ts, o.src = s := by
  intro o ho
  unfold closeOps at ho
  split at ho
  · simp at ho; subst ho; rfl
  · simp at ho; obtain ⟨t, _, rfl⟩ := ho; rfl

theorem closeOps_dst (s : Nat) (ts : List Nat) (c : Nat) : (∃ o ∈ closeOps s ts, o.dst = c) ↔ c ∈ ts := by
  unfold closeOps
  split
  · simp [Op.dst]
    constructor <;> intro h <;> exact h.symm
  · constructor
    · rintro ⟨o, ho, hd⟩
      simp at ho; obtain ⟨t, ht, rfl⟩ := ho
      simp [Op.dst] at hd; rw [← hd]; exact ht
    · intro h
      exact ⟨Op.distr s c, by simp; exact h, rfl⟩

theorem closeOps_not_sgive (s : Nat) (ts : List Nat) : ∀ o ∈ closeOps s ts, ∀ a e d, o ≠ Op.sgive a e d := by
  intro o ho a e d
  unfold closeOps at ho
  split at ho
  · simp at ho; subst ho; simp
  · simp at ho; obtain ⟨t, _, rfl⟩ := ho; simp

/-- appending operations whose sources are already fed keeps the topological order -/
theorem topo_extend (b : BSt) (new : List Op) (h : topoB b.roots b.ops = true)
    (hsrc : ∀ o ∈ new, Fed b o.src) : topoB b.roots (b.ops ++ new) = true := by
  rw [topoB_append, h, Bool.true_and]
  apply topoB_of_fed
  intro o ho
  rw [mem_accDst]
  exact hsrc o ho

theorem binv_step (b : BSt) (hI : BInv b) (c : Call) : BInv (bstep b c) := by
  cases c with
  | root c =>
    simp only [bstep]
    split
    · rename_i h
      have hs : b.scope = none := by simpa using h.1
      refine ⟨?_, ?_, ?_, ?_, ?_, hI.sg_done, hI.sg_fun⟩
      · intro x hx
        rcases List.mem_cons.mp hx with h1 | h1
        · exact Or.inl (Or.inl (by simp [h1]))
        · rcases hI.items_fed x h1 with h2 | ⟨s, ts, h2, _⟩
          · rcases h2 with h3 | h3
            · exact Or.inl (Or.inl (List.mem_cons_of_mem _ h3))
            · exact Or.inl (Or.inr h3)
          · rw [hs] at h2; simp at h2
      · intro o ho; exact List.mem_cons_of_mem _ (hI.dst_items o ho)
      · intro x hx
        rcases List.mem_cons.mp hx with h1 | h1
        · simp [h1]
        · exact List.mem_cons_of_mem _ (hI.root_items x h1)
      · intro s ts h2; rw [hs] at h2; simp at h2
      · exact topoB_mono _ _ _ (fun x hx => List.mem_cons_of_mem _ hx) hI.topo
    · exact ⟨hI.items_fed, hI.dst_items, hI.root_items, hI.scope_ok, hI.topo, hI.sg_done, hI.sg_fun⟩
  | openScope s =>
    simp only [bstep]
    split
    · rename_i h
      have hs : b.scope = none := by simpa using h.1
      refine ⟨?_, hI.dst_items, hI.root_items, ?_, hI.topo, hI.sg_done, hI.sg_fun⟩
      · intro x hx
        rcases hI.items_fed x hx with h2 | ⟨s', ts, h2, _⟩
        · exact Or.inl h2
        · rw [hs] at h2; simp at h2
      · intro s' ts h2
        simp only [Option.some.injEq, Prod.mk.injEq] at h2
        obtain ⟨rfl, rfl⟩ := h2
        refine ⟨?_, fun t ht => by simp at ht⟩
        rcases hI.items_fed s h.2 with h3 | ⟨s', ts, h3, _⟩
        · exact h3
        · rw [hs] at h3; simp at h3
    · exact ⟨hI.items_fed, hI.dst_items, hI.root_items, hI.scope_ok, hI.topo, hI.sg_done, hI.sg_fun⟩
  | create c =>
    simp only [bstep]
    split
    · rename_i s ts hsc
      split
      · rename_i hc
        refine ⟨?_, ?_, ?_, ?_, hI.topo, hI.sg_done, hI.sg_fun⟩
        · intro x hx
          rcases List.mem_cons.mp hx with h1 | h1
          · exact Or.inr ⟨s, ts ++ [c], rfl, by simp [h1]⟩
          · rcases hI.items_fed x h1 with h2 | ⟨s', ts', h2, h3⟩
            · exact Or.inl h2
            · rw [hsc] at h2
              simp only [Option.some.injEq, Prod.mk.injEq] at h2
              obtain ⟨rfl, rfl⟩ := h2
              exact Or.inr ⟨s, ts ++ [c], rfl, List.mem_append.mpr (Or.inl h3)⟩
        · intro o ho; exact List.mem_cons_of_mem _ (hI.dst_items o ho)
        · intro x hx; exact List.mem_cons_of_mem _ (hI.root_items x hx)
        · intro s' ts' h2
          simp only [Option.some.injEq, Prod.mk.injEq] at h2
          obtain ⟨rfl, rfl⟩ := h2
          obtain ⟨h3, h4⟩ := hI.scope_ok s ts hsc
          refine ⟨h3, ?_⟩
          intro t ht
          rcases List.mem_append.mp ht with h5 | h5
          · exact List.mem_cons_of_mem _ (h4 t h5)
          · simp at h5; simp [h5]
      · exact ⟨hI.items_fed, hI.dst_items, hI.root_items, hI.scope_ok, hI.topo, hI.sg_done, hI.sg_fun⟩
    · exact ⟨hI.items_fed, hI.dst_items, hI.root_items, hI.scope_ok, hI.topo, hI.sg_done, hI.sg_fun⟩
  | reuse c =>
    simp only [bstep]
    split
    · rename_i s ts hsc
      split
      · rename_i hc
        refine ⟨?_, hI.dst_items, hI.root_items, ?_, hI.topo, hI.sg_done, hI.sg_fun⟩
        · intro x hx
          rcases hI.items_fed x hx with h2 | ⟨s', ts', h2, h3⟩
          · exact Or.inl h2
          · rw [hsc] at h2
            simp only [Option.some.injEq, Prod.mk.injEq] at h2
            obtain ⟨rfl, rfl⟩ := h2
            exact Or.inr ⟨s, ts ++ [c], rfl, List.mem_append.mpr (Or.inl h3)⟩
        · intro s' ts' h2
          simp only [Option.some.injEq, Prod.mk.injEq] at h2
          obtain ⟨rfl, rfl⟩ := h2
          obtain ⟨h3, h4⟩ := hI.scope_ok s ts hsc
          refine ⟨h3, ?_⟩
          intro t ht
          rcases List.mem_append.mp ht with h5 | h5
          · exact h4 t h5
          · simp at h5; rw [h5]; exact hc
      · exact ⟨hI.items_fed, hI.dst_items, hI.root_items, hI.scope_ok, hI.topo, hI.sg_done, hI.sg_fun⟩
    · exact ⟨hI.items_fed, hI.dst_items, hI.root_items, hI.scope_ok, hI.topo, hI.sg_done, hI.sg_fun⟩
  | closeScope =>
    simp only [bstep]
    split
    · rename_i s ts hsc
      obtain ⟨hfs, hts⟩ := hI.scope_ok s ts hsc
      refine ⟨?_, ?_, hI.root_items, ?_, ?_, ?_, ?_⟩
      · intro x hx
        rcases hI.items_fed x hx with h2 | ⟨s', ts', h2, h3⟩
        · rcases h2 with h2 | ⟨o, ho, hd⟩
          · exact Or.inl (Or.inl h2)
          · exact Or.inl (Or.inr ⟨o, List.mem_append.mpr (Or.inl ho), hd⟩)
        · rw [hsc] at h2
          simp only [Option.some.injEq, Prod.mk.injEq] at h2
          obtain ⟨rfl, rfl⟩ := h2
          obtain ⟨o, ho, hd⟩ := (closeOps_dst s ts x).mpr h3
          exact Or.inl (Or.inr ⟨o, List.mem_append.mpr (Or.inr ho), hd⟩)
      · intro o ho
        rcases List.mem_append.mp ho with h1 | h1
        · exact hI.dst_items o h1
        · exact hts _ ((closeOps_dst s ts o.dst).mp ⟨o, h1, rfl⟩)
      · intro s' ts' h2; simp at h2
      · apply topo_extend b _ hI.topo
        intro o ho
        rw [closeOps_src s ts o ho]; exact hfs
      · intro o ho a e d h
        rcases List.mem_append.mp ho with h1 | h1
        · exact hI.sg_done o h1 a e d h
        · exact absurd h (closeOps_not_sgive s ts o h1 a e d)
      · intro o ho o' ho' a e d d' h h'
        rcases List.mem_append.mp ho with h1 | h1
        · rcases List.mem_append.mp ho' with h2 | h2
          · exact hI.sg_fun o h1 o' h2 a e d d' h h'
          · exact absurd h' (closeOps_not_sgive s ts o' h2 a e d')
        · exact absurd h (closeOps_not_sgive s ts o h1 a e d)
    · exact ⟨hI.items_fed, hI.dst_items, hI.root_items, hI.scope_ok, hI.topo, hI.sg_done, hI.sg_fun⟩
  | slack con slk =>
    simp only [bstep]
    split
    · rename_i s hsc
      split
      · rename_i hg
        obtain ⟨hcon, hslk, hne, hdone⟩ := hg
        obtain ⟨hfs, _⟩ := hI.scope_ok s [] hsc
        have hnew : ∀ o ∈ expandSlack s con slk, o = Op.sgive s false slk ∨ o = Op.sgive s true con := by
          intro o ho; simpa [expandSlack] using ho
        refine ⟨?_, ?_, ?_, ?_, ?_, ?_, ?_⟩
        · intro x hx
          simp only [List.mem_cons] at hx
          rcases hx with h1 | h1 | h1
          · exact Or.inl (Or.inr ⟨Op.sgive s true con, by simp [expandSlack], by simp [Op.dst, h1]⟩)
          · exact Or.inl (Or.inr ⟨Op.sgive s false slk, by simp [expandSlack], by simp [Op.dst, h1]⟩)
          · rcases hI.items_fed x h1 with h2 | ⟨s', ts', h2, h3⟩
            · rcases h2 with h2 | ⟨o, ho, hd⟩
              · exact Or.inl (Or.inl h2)
              · exact Or.inl (Or.inr ⟨o, List.mem_append.mpr (Or.inl ho), hd⟩)
            · rw [hsc] at h2
              simp only [Option.some.injEq, Prod.mk.injEq] at h2
              obtain ⟨_, rfl⟩ := h2
              simp at h3
        · intro o ho
          rcases List.mem_append.mp ho with h1 | h1
          · exact List.mem_cons_of_mem _ (List.mem_cons_of_mem _ (hI.dst_items o h1))
          · rcases hnew o h1 with h2 | h2 <;> subst h2 <;> simp [Op.dst]
        · intro x hx; exact List.mem_cons_of_mem _ (List.mem_cons_of_mem _ (hI.root_items x hx))
        · intro s' ts' h2; simp at h2
        · apply topo_extend b _ hI.topo
          intro o ho
          rcases hnew o ho with h2 | h2 <;> subst h2 <;> exact hfs
        · intro o ho a e d h
          rcases List.mem_append.mp ho with h1 | h1
          · exact List.mem_cons_of_mem _ (hI.sg_done o h1 a e d h)
          · rcases hnew o h1 with h2 | h2 <;> subst h2 <;> (injection h with h3 _ _; simp [← h3])
        · intro o ho o' ho' a e d d' h h'
          rcases List.mem_append.mp ho with h1 | h1 <;> rcases List.mem_append.mp ho' with h2 | h2
          · exact hI.sg_fun o h1 o' h2 a e d d' h h'
          · exfalso
            have := hI.sg_done o h1 a e d h
            rcases hnew o' h2 with h3 | h3 <;> subst h3 <;> (injection h' with h4 _ _; subst h4; exact hdone this)
          · exfalso
            have := hI.sg_done o' h2 a e d' h'
            rcases hnew o h1 with h3 | h3 <;> subst h3 <;> (injection h with h4 _ _; subst h4; exact hdone this)
          · rcases hnew o h1 with h3 | h3 <;> rcases hnew o' h2 with h4 | h4 <;> subst h3 <;> subst h4 <;>
              (injection h with a1 a2 a3; injection h' with b1 b2 b3; simp_all)
      · exact ⟨hI.items_fed, hI.dst_items, hI.root_items, hI.scope_ok, hI.topo, hI.sg_done, hI.sg_fun⟩
    · exact ⟨hI.items_fed, hI.dst_items, hI.root_items, hI.scope_ok, hI.topo, hI.sg_done, hI.sg_fun⟩
  | many2one srcs t =>
    simp only [bstep]
    split
    · rename_i hg
      obtain ⟨hsn, ht, hemp, hall⟩ := hg
      have hs : b.scope = none := by simpa using hsn
      have hsrcs : ∀ x ∈ srcs, x ∈ b.items := by
        intro x hx
        simp only [List.all_eq_true, List.contains_iff_mem] at hall
        exact hall x hx
      have hnot : ∀ o ∈ srcs.map (fun s => Op.distr s t), ∀ a e d, o ≠ Op.sgive a e d := by
        intro o ho a e d
        simp at ho; obtain ⟨x, _, rfl⟩ := ho; simp
      refine ⟨?_, ?_, ?_, ?_, ?_, ?_, ?_⟩
      · intro x hx
        rcases List.mem_cons.mp hx with h1 | h1
        · obtain ⟨y, hy⟩ := List.exists_mem_of_ne_nil srcs hemp
          exact Or.inl (Or.inr ⟨Op.distr y t, List.mem_append.mpr (Or.inr (List.mem_map.mpr ⟨y, hy, rfl⟩)), by simp [Op.dst, h1]⟩)
        · rcases hI.items_fed x h1 with h2 | ⟨s', ts', h2, _⟩
          · rcases h2 with h2 | ⟨o, ho, hd⟩
            · exact Or.inl (Or.inl h2)
            · exact Or.inl (Or.inr ⟨o, List.mem_append.mpr (Or.inl ho), hd⟩)
          · rw [hs] at h2; simp at h2
      · intro o ho
        rcases List.mem_append.mp ho with h1 | h1
        · exact List.mem_cons_of_mem _ (hI.dst_items o h1)
        · simp at h1; obtain ⟨x, _, rfl⟩ := h1; simp [Op.dst]
      · intro x hx; exact List.mem_cons_of_mem _ (hI.root_items x hx)
      · intro s' ts' h2; rw [hs] at h2; simp at h2
      · apply topo_extend b _ hI.topo
        intro o ho
        simp at ho; obtain ⟨x, hx, rfl⟩ := ho
        rcases hI.items_fed x (hsrcs x hx) with h2 | ⟨s', ts', h2, _⟩
        · exact h2
        · rw [hs] at h2; simp at h2
      · intro o ho a e d h
        rcases List.mem_append.mp ho with h1 | h1
        · exact hI.sg_done o h1 a e d h
        · exact absurd h (hnot o h1 a e d)
      · intro o ho o' ho' a e d d' h h'
        rcases List.mem_append.mp ho with h1 | h1
        · rcases List.mem_append.mp ho' with h2 | h2
          · exact hI.sg_fun o h1 o' h2 a e d d' h h'
          · exact absurd h' (hnot o' h2 a e d')
        · exact absurd h (hnot o h1 a e d)
    · exact ⟨hI.items_fed, hI.dst_items, hI.root_items, hI.scope_ok, hI.topo, hI.sg_done, hI.sg_fun⟩

theorem binv_build (calls : List Call) : BInv (build calls) := by
  have : ∀ (cs : List Call) (b : BSt), BInv b → BInv (cs.foldl bstep b) := by
    intro cs
    induction cs with
    | nil => intro b h; exact h
    | cons c cs ih => intro b h; exact ih _ (binv_step b h c)
  exact this calls {} binv_init

/-- every naming edge comes from a registered operation; slack labels only from the matching `sgive` -/
theorem edge_from_op : ∀ (ops : List Op) (st : St), ∀ e ∈ edges st ops,
    ∃ o ∈ ops, e.p = o.src ∧ e.c = o.dst ∧ (e.l.idx = none → ∃ eq, o = Op.sgive e.p eq e.c ∧ e.l = slackLab eq) := by
  intro ops
  induction ops with
  | nil => intro st e he; simp [edges] at he
  | cons o os ih =>
    intro st e he
    simp only [edges] at he
    rcases List.mem_append.mp he with h | h
    · unfold stepE at h
      split at h
      · simp only [List.mem_singleton] at h
        subst h
        refine ⟨o, by simp, rfl, rfl, ?_⟩
        intro hidx
        cases o with
        | copy s d => simp [Op.lab, idx_cntLab] at hidx
        | distr s d => simp [Op.lab, idx_cntLab] at hidx
        | sgive s eq d => exact ⟨eq, rfl, rfl⟩
      · simp at h
    · obtain ⟨o', ho', h1, h2, h3⟩ := ih _ e h
      exact ⟨o', List.mem_cons_of_mem _ ho', h1, h2, h3⟩

theorem slackLab_inj {a b : Bool} (h : slackLab a = slackLab b) : a = b := by
  cases a <;> cases b <;> simp [slackLab] at h <;> rfl

theorem run_n_nonsrc : ∀ (ops : List Op) (st : St) (c : Nat), (∀ o ∈ ops, o.src ≠ c) →
    ((run st ops).get c).n = (st.get c).n := by
  intro ops
  induction ops with
  | nil => intro st c _; rfl
  | cons o os ih =>
    intro st c h
    simp only [run]
    rw [ih (stepSt st o) c (fun o' ho' => h o' (List.mem_cons_of_mem _ ho')), step_n]
    have hc : o.src ≠ c := h o (by simp)
    cases o with
    | copy s d =>
      simp only [Op.src] at hc
      have hcs : ¬ c = s := fun h => hc h.symm
      simp [hcs]
    | distr s d =>
      simp only [Op.src] at hc
      have hcs : ¬ c = s := fun h => hc h.symm
      simp [hcs]
    | sgive s e d => rfl

theorem mem_leaves (b : BSt) (c : Nat) : c ∈ b.leaves ↔ c ∈ b.items ∧ ∀ o ∈ b.ops, o.src ≠ c := by
  simp [BSt.leaves, List.mem_filter, List.all_eq_true]

end MpVerif.C19

import MpVerif.C09.Lemmas
import MpVerif.C09.PipelineLemmas
/-!
Line driver for C09.  One scenario per line:

    run <flags> <stub> <ampl> <opts> <objno> <justExport> <ncons> <nvars> <pcons> <pvars> <open> <flush> <fault> <code> <havex> <havepi>

* `<flags>`: `-` or a string over `s e d i x` (wantsol, noecho, dashdash, info, invalid)
* `<opts>`:  `-` or comma-separated items: tokens `o` (ok), `b` (bad), `v` (invalidValue), `w<n>` (wantsol=n),
             or an option file `F<0|1>:<tok>;<tok>;…` (1 = reading fails after these tokens)
* `<fault>`: `none` or a comma-separated list of `<stage>:<raise>[:<code>]` (behaviours of the abstract stages)
Output: `<outcome> | good=<0/1> regular=<0/1>`; `bad-op` for anything that cannot be interpreted.
No logic here: only parsing and calls of model functions.
-/
open MpVerif.C09

def parseFlag : Char → Option Flag
  | 's' => some .wantsol | 'e' => some .noecho | 'd' => some .dashdash | 'i' => some .info | 'x' => some .invalid
  | _ => none

def parseOptTok (s : String) : Option Opt :=
  if s == "o" then some .ok
  else if s == "b" then some .bad
  else if s == "v" then some .invalidValue
  else if s.startsWith "w" then (s.drop 1).toNat?.map Opt.wantsol
  else none

def allSome {α} : List (Option α) → Option (List α)
  | [] => some []
  | none :: _ => none
  | some a :: xs => (allSome xs).map (a :: ·)

/-- `F<0|1>:<tok>;<tok>;…` = option file (read failure flag, readable tokens), else a plain token -/
def parseOptItem (s : String) : Option OptItem :=
  if s.startsWith "F0:" || s.startsWith "F1:" then
    let body := (s.drop 3).toString
    let rf := s.startsWith "F1:"
    let inner := if body == "" then some [] else allSome ((body.splitOn ";").map parseOptTok)
    inner.map (fun ts => OptItem.optfile ts rf)
  else (parseOptTok s).map OptItem.tok

def parseStage : String → Option Stage
  | "ctor" => some .ctor | "init" => some .init | "openNL" => some .openNL | "header" => some .header
  | "options" => some .options | "populate" => some .populate | "body" => some .body | "names" => some .names | "convert" => some .convert
  | "extras" => some .extras | "solve" => some .solve | "report" => some .report | "suffixes" => some .suffixes
  | _ => none

def parseRaise (s : String) (code : Option Int) : Option Raise :=
  match s, code with
  | "plain", none => some .plain
  | "withCode", some c => some (.withCode c)
  | "infeas", none => some .infeas
  | "wrappedInfeas", none => some .wrappedInfeas
  | "solCheck", none => some .solCheck
  | "unsupported", none => some .unsupported
  | "optionError", none => some .optionError
  | "readError", none => some .readError
  | "fmtError", none => some .fmtError
  | "systemError", none => some .systemError
  | "stdExn", none => some .stdExn
  | "foreign", none => some .foreign
  | _, _ => none

def parseOneFault (s : String) : Option (Stage × Beh) :=
  match s.splitOn ":" with
  | [st, "abort"] => do let st ← parseStage st; pure (st, .aborts)
  | [st, "hang"] => do let st ← parseStage st; pure (st, .hangs)
  | [st, r] => do let st ← parseStage st; let r ← parseRaise r none; pure (st, .raises r)
  | [st, r, c] => do let st ← parseStage st; let c ← c.toInt?; let r ← parseRaise r (some c); pure (st, .raises r)
  | _ => none

/-- `none` or a comma-separated list `stage:raise[:code]` | `stage:abort` | `stage:hang`: what the environment does at the abstract stages
(any number of entries, any order) -/
def parseFault (s : String) : Option Behaviours :=
  if s == "none" then some [] else allSome ((s.splitOn ",").map parseOneFault)

def parseBool : String → Option Bool
  | "0" => some false | "1" => some true | _ => none

def parseScenario (ws : List String) : Option Scenario :=
  match ws with
  | [flags, stub, ampl, opts, objno, jexp, ncons, nvars, pcons, pvars, op, fl, fault, code, hx, hp] => do
    let flags ← if flags == "-" then some [] else allSome (flags.toList.map parseFlag)
    let opts ← if opts == "-" then some [] else allSome ((opts.splitOn ",").map parseOptItem)
    let stub ← parseBool stub
    let ampl ← parseBool ampl
    let objno ← parseBool objno
    let jexp ← parseBool jexp
    let ncons ← ncons.toNat?
    let nvars ← nvars.toNat?
    let pcons ← pcons.toNat?
    let pvars ← pvars.toNat?
    let op ← parseBool op
    let fl ← parseBool fl
    let _bs ← parseFault fault
    let code ← code.toInt?
    let hx ← parseBool hx
    let hp ← parseBool hp
    pure { flags := flags, hasStub := stub, ampl := ampl, opts := opts, objnoTooBig := objno, justExport := jexp,
           dims := ⟨ncons, nvars⟩, partialDims := ⟨pcons, pvars⟩, out := ⟨op, fl⟩, fault := none, answer := ⟨code, hx, hp⟩ }
  | _ => none

partial def loop (h : IO.FS.Stream) (out : IO.FS.Stream) : IO Unit := do
  let line ← h.getLine
  if line.isEmpty then return ()
  match line.trimAscii.toString.splitOn " " with
  | "run" :: ws =>
    match parseScenario ws, (ws[12]? >>= parseFault) with
    | some sc0, some bs =>
      -- the pipeline fold; `good` / `regular` are evaluated on the scenario the fold is equivalent to
      -- (C09_pipeline_is_table)
      let o := runP sc0 bs
      let sc := sc0.withFaults bs
      let g := if decide (Good sc o) then "1" else "0"
      let r := if decide (Regular sc (ending sc)) then "1" else "0"
      out.putStrLn s!"{o.toStr} | good={g} regular={r}"
    | _, _ => out.putStrLn "bad-op"
  | _ => out.putStrLn "bad-op"
  loop h out

def main : IO Unit := do
  let out ← IO.getStdout
  loop (← IO.getStdin) out

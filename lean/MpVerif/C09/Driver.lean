/-! Line driver for C09 (stub; replaced when the model is written). -/
def main : IO Unit := pure ()

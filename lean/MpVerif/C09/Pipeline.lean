import MpVerif.C09.Model
/-!
# C09 — the driver as a pipeline (round 5)

`Model.lean` gives the outcome as a *table*: `conclude sc e`, where the ending `e` (stage × raise kind, or
finished) is an argument.  Here the ending is not an input any more.  The driver is the **fold the real code
performs** over its stages

    ctor · init · [flags] · openNL · header · [options] · FinishOptionParsing · [objno] · populate · body ·
    names · convert · extras · [export-only?] · solve · report · suffixes · [write]

(`RunBackendApp` → `BackendApp::Run` → `Init` → `RunFromNLFile` → `ReadNLModel`/`OnHeader` → … →
`ReportSolution2AMPL` → `HandleSolution`; the order is the generated `runTryCalls`, `readNLModelCalls`,
`onHeaderCalls`, `runFromNLFileCalls`).  Steps in brackets are computed from the invocation data
(`Scenario`: flags, stub, `-AMPL`, option tokens, `objno`, export-only, output path, the solver's answer); every
other stage is **abstract**: the environment says, per stage, whether it completes or raises an exception of
some kind (`Behaviours`, any list of (stage, raise) pairs: the first entry for a stage is what that stage does
when it is reached; stages without an entry complete).  The fold threads the **driver state** the catch clauses
depend on:

* `inRun`   are we inside `BackendApp::Run`'s try block (else only `RunBackendApp`'s clauses apply),
* `ampl`, `wantsol`  as stored so far,
* `handler` has `MakeProperSolutionHandler` run (it runs in the after-header lambda, before the options),
* `dims`    what `builder.num_algebraic_cons()/num_vars()` return *now* (0,0 until `NLProblemBuilder::OnHeader`
            has populated the problem; the partial values if that very step throws).

An exception at any point is handled by `onRaise` with the state *at that point* — this is where "which handler
exists", "what has been populated so far" come from; they are no longer attributes looked up in a table.
`Props.lean` proves `runP sc bs = run { sc with fault := firstFault bs }` (the table is the fold), so every
theorem about the table holds for every behaviour list.
-/
namespace MpVerif.C09

/-- The environment: what each abstract stage does when it is reached. Any list is allowed (several
entries, entries for stages never reached, duplicates): `look` takes the first entry for a stage. -/
inductive Beh where
  /-- the stage throws an exception built in this way -/
  | raises (r : Raise)
  /-- the stage kills the process (SIGSEGV / SIGABRT / sanitizer abort / OOM kill): not an exception, no catch
      clause runs -/
  | aborts
  /-- the stage does not return -/
  | hangs
deriving Repr, DecidableEq

abbrev Behaviours := List (Stage × Beh)

def look : Behaviours → Stage → Option Beh
  | [], _ => none
  | (s, b) :: bs, st => if s = st then some b else look bs st

/-- The driver state the outcome depends on. -/
structure PState where
  inRun : Bool
  ampl : Bool
  wantsol : Nat
  handler : Bool
  dims : Dims
deriving Repr, DecidableEq

def PState.init : PState := ⟨false, false, 0, false, ⟨0, 0⟩⟩

/-- One step of the pipeline. -/
inductive Step where
  /-- an abstract stage -/
  | env (s : Stage)
  /-- `SolverAppOptionParser::Parse`: flags, stub, `-AMPL` -/
  | flags
  /-- `ParseOptionString` over the option stream -/
  | parseOpts
  /-- the `objno` check of `SolverNLHandlerImpl::OnHeader` -/
  | objno
  /-- `exportFileMode() == 2`: return without solving -/
  | exportOnly
  /-- `ReportSolution2AMPL` → `HandleSolution` with the solver's answer -/
  | write
  /-- `s.Run(argv)` in `RunBackendApp`: from here on `BackendApp::Run`'s catch clauses apply -/
  | enterRun
  /-- `MakeProperSolutionHandler` (first statement of the lambda `ReadNLModel` passes on as `after_header`) -/
  | mkHandler
deriving Repr, DecidableEq

/-- The real driver's sequence. -/
def pipeline : List Step :=
  [.env .ctor, .enterRun, .env .init, .flags, .env .openNL, .env .header, .mkHandler, .parseOpts, .env .options, .objno,
   .env .populate, .env .body, .env .names, .env .convert, .env .extras, .exportOnly,
   .env .solve, .env .report, .env .suffixes, .write]

/-- The catch clauses, applied with the state at the point of the throw. -/
def onRaise (sc : Scenario) (st : PState) (r : Raise) : Outcome :=
  if st.inRun then
    reportError st.ampl st.wantsol sc.out st.handler st.dims r.toExn       -- BackendApp::Run's clauses
  else
    rbaOutcome r.toExn                                                        -- RunBackendApp's clauses

/-- Result of one step: go on with a new state, or the run is over. -/
inductive Ctl where
  | next (st : PState)
  | done (o : Outcome)
deriving Repr

/-- What completing an abstract stage changes in the state. -/
def afterStage (sc : Scenario) (s : Stage) (st : PState) : PState :=
  match s with
  | .populate => { st with dims := sc.dims }        -- NLProblemBuilder::OnHeader done
  | _ => st

/-- The state in which an exception *of this stage* is handled (populate throws half-way). -/
def duringStage (sc : Scenario) (s : Stage) (st : PState) : PState :=
  match s with
  | .populate => { st with dims := sc.partialDims }
  | _ => st

def step (sc : Scenario) (bs : Behaviours) (p : Step) (st : PState) : Ctl :=
  match p with
  | .env s =>
    match look bs s with
    | none => .next (afterStage sc s st)
    | some .aborts => .done .crash
    | some .hangs => .done .hang
    | some (.raises r) =>
      -- StdBackend::ReportSuffixes: try { … } catch (const std::exception&) { AddWarning }
      if s = .suffixes ∧ r ≠ .foreign then .next st
      else .done (onRaise sc (duringStage sc s st) r)
  | .flags =>
    match parseFlags sc.flags 0 with
    | .stop => .done .info
    | .throwOptionError => .done (onRaise sc st .optionError)
    | .proceed w0 =>
      if !sc.hasStub then .done .info
      else .next { st with ampl := sc.ampl, wantsol := if sc.ampl then 1 else w0 }
  | .parseOpts =>
    match parseOpts (expandOpts sc.opts) st.wantsol with
    | (w, some r) => .done (onRaise sc { st with wantsol := w } r)
    | (w, none) => .next { st with wantsol := w }
  | .objno => if sc.objnoTooBig then .done (onRaise sc st .optionError) else .next st
  | .exportOnly => if sc.justExport then .done .silent else .next st
  | .enterRun => .next { st with inRun := true }
  | .mkHandler => .next { st with handler := true }
  | .write =>
    let f : SolFile := { code := sc.answer.code, ncons := st.dims.ncons,
                         nduals := if sc.answer.haveDual then st.dims.ncons else 0,
                         nvars := st.dims.nvars,
                         nprimals := if sc.answer.havePrimal then st.dims.nvars else 0,
                         complete := true }
    .done (writeOrRetry st.ampl st.wantsol sc.out st.handler st.dims f)

/-- The fold, for *any* sequence of steps (falling off the end = nothing reported). -/
def foldSteps (sc : Scenario) (bs : Behaviours) : List Step → PState → Outcome
  | [], _ => .silent
  | p :: ps, st =>
    match step sc bs p st with
    | .done o => o
    | .next st' => foldSteps sc bs ps st'

/-- **The driver**: the real pipeline from the initial state. -/
def runP (sc : Scenario) (bs : Behaviours) : Outcome := foldSteps sc bs pipeline PState.init

/-- the first stage, in execution order, at which the environment does something else than completing -/
def firstBeh (bs : Behaviours) : Option (Stage × Beh) :=
  [Stage.ctor, .init, .openNL, .header, .options, .populate, .body, .names, .convert, .extras, .solve, .report, .suffixes].findSome?
    (fun s => (look bs s).map (fun b => (s, b)))

/-- …as an exception, if it is one (what the table `Scenario.fault` can express) -/
def firstFault (bs : Behaviours) : Option (Stage × Raise) :=
  match firstBeh bs with
  | some (s, .raises r) => some (s, r)
  | _ => none

/-- an environment of exceptions only -/
def Behaviours.ofRaises (l : List (Stage × Raise)) : Behaviours := l.map (fun p => (p.1, Beh.raises p.2))

/-- no stage aborts or hangs -/
def Behaviours.exceptionsOnly (bs : Behaviours) : Bool := bs.all (fun p => match p.2 with | .raises _ => true | _ => false)

end MpVerif.C09

/-!
# C09 — model of the driver's outcome decision logic

A hand model (core Lean only) of the control skeleton of

* `RunBackendApp` / `BackendApp::Run` / `BackendApp::Init`      (include/mp/backend-app.h)
* `SolverAppOptionParser::Parse`, `mp::ParseOptions`             (src/solver.cc, src/option.cc)
* `BasicSolver::ParseOptions` / `ParseOptionString`              (src/solver.cc)
* `StdBackend::RunFromNLFile`, `ReadNL`                          (include/mp/backend-std.h)
* `ModelManagerWithProblemBuilder::ReadNLModel`, `MakeProperSolutionHandler`,
  `HandleSolution`                                               (include/mp/model-mgr-with-pb.h)
* `SolverNLHandlerImpl::OnHeader`, `AppSolutionHandlerImpl::HandleSolution`,
  `SolutionWriterImpl::HandleSolution`, `SolutionAdapter`        (include/mp/solver-io.h)
* `WriteSolFile` (which lines carry which numbers)               (include/mp/sol.h)
* `mp::Error` and its subclasses: which value `exit_code()` has  (include/mp/error.h, nl-reader.h)

It answers one question: given *where* the first exception of a run is raised (if any),
*how the exception object was constructed*, the invocation mode and the state of the output
path — what does the process leave behind (a `.sol` with which code and dimensions, a message
on stdout, `Error: …` on stderr and which exit status, or `std::terminate`).

Everything the C++ does that is *not* this decision (reading NL, converting, formatting) is
outside the model; the check ties the table to the real driver by running it as a process.
-/
namespace MpVerif.C09

/-- How an exception object was constructed at its throw site; determines its dynamic type
(which `catch` clause takes it) and the value of `Error::exit_code()`. -/
inductive Raise where
  /-- `MP_RAISE(msg)`, `Error(msg)`, `Solver::ReportError → HandleError → MP_RAISE`:
      ctor `Error(CStringRef, int c = -1)` -/
  | plain
  /-- `MP_RAISE_WITH_CODE(c, msg)`, `Backend::Abort(c, msg)`, `Error(msg, c)` -/
  | withCode (c : Int)
  /-- `MP_INFEAS(msg)` = `MP_RAISE_WITH_CODE(200, …)` -/
  | infeas
  /-- `MP_INFEAS` raised while a constraint is converted / a result is propagated: caught by
      `ConstraintKeeper::{PropagateResult, ConvertAllNewWith, …}`'s `catch (const std::exception&)` and
      re-raised with `MP_RAISE_WITH_CODE(err.exit_code(), prefix + what())`: since f454558 the
      code 200 is kept (before it was re-raised with `MP_RAISE`, i.e. reported as 500) -/
  | wrappedInfeas
  /-- solution check with `sol:chk:fail`: `MP_RAISE_WITH_CODE(sol::MP_SOLUTION_CHECK = 150, …)` -/
  | solCheck
  /-- `MP_UNSUPPORTED`, `MakeUnsupportedError`, `UnsupportedError("fmt", args…)`:
      variadic formatting ctor, `exit_code_` keeps its in-class initialiser `EXIT_FAILURE` -/
  | unsupported
  /-- `OptionError(msg)`, `InvalidOptionValue`: `explicit OptionError(m) : Error(m)` → −1 -/
  | optionError
  /-- `ReadError`, `BinaryReadError`: protected default ctor `Error()` → `EXIT_FAILURE` -/
  | readError
  /-- `Error("fmt {}", args…)`: variadic formatting ctor → `EXIT_FAILURE` -/
  | fmtError
  /-- `fmt::SystemError` (cannot open/map a file): *not* an `mp::Error` -/
  | systemError
  /-- any other `std::exception` (`std::runtime_error`, `std::bad_alloc`, `std::out_of_range` …) -/
  | stdExn
  /-- an exception not derived from `std::exception` (e.g. `ConstraintConversionFailure`
      outside `ConvertItems`): no handler anywhere → `std::terminate` -/
  | foreign
deriving Repr, DecidableEq

/-- What the catch clauses see. -/
inductive Exn where
  | mpError (exitCode : Int)
  | stdExn
  | foreign
deriving Repr, DecidableEq

/-- C++ handler matching for the three classes of thrown objects: does `catch (const ty&)` take `x`?
(`mp::Error` derives from `fmt::FormatError`, a `std::runtime_error`; `...` takes everything.) -/
def handlerCatches (ty : String) : Exn → Bool
  | .mpError _ => ty == "mp::Error" || ty == "std::exception" || ty == "..."
  | .stdExn => ty == "std::exception" || ty == "..."
  | .foreign => ty == "..."

/-- the first clause of a catch ladder that takes `x` (`none`: the exception leaves the try statement) -/
def caughtBy (ladder : List String) (x : Exn) : Option String := ladder.find? (handlerCatches · x)

/-- `EXIT_FAILURE` on the platform. -/
def EXIT_FAILURE : Int := 1
/-- `sol::FAILURE` -/
def solFAILURE : Int := 500

def Raise.toExn : Raise → Exn
  | .plain => .mpError (-1)
  | .withCode c => .mpError c
  | .infeas => .mpError 200
  | .wrappedInfeas => .mpError 200
  | .solCheck => .mpError 150
  | .unsupported => .mpError EXIT_FAILURE
  | .optionError => .mpError (-1)
  | .readError => .mpError EXIT_FAILURE
  | .fmtError => .mpError EXIT_FAILURE
  | .systemError => .stdExn
  | .stdExn => .stdExn
  | .foreign => .foreign

/-- Program points at which the first exception of a run can originate, in execution order. -/
inductive Stage where
  /-- `be_creator()` / `BackendApp` ctor: inside `RunBackendApp`'s try, outside `Run`'s -/
  | ctor
  /-- `Backend::Init(argv)` and the command-line flags (`mp::ParseOptions`) -/
  | init
  /-- opening / mapping `<stub>.nl` -/
  | openNL
  /-- reading the NL header (before `OnHeader`) -/
  | header
  /-- `OnHeader`: after `MakeProperSolutionHandler`, while parsing solver options and checking
      `objno`, *before* `NLProblemBuilder::OnHeader` populates the problem -/
  | options
  /-- inside `NLProblemBuilder::OnHeader` (`AddVariables`, `AddObjs`, `AddAlgebraicCons` …): the
      problem is being populated from the header numbers; an inconsistent header makes it throw
      (`MP_ASSERT_ALWAYS`, `std::length_error`) with the problem *partially* populated -/
  | populate
  /-- `NLProblemBuilder::OnHeader` done; rest of the NL file -/
  | body
  /-- `.col` / `.row` -/
  | names
  /-- `ConvertModelAndUpdateBackend` (flattening, redefinitions, pushing to the ModelAPI) -/
  | convert
  /-- `InputExtras`, `SetupTimerAndInterrupter`, `ExportModel` -/
  | extras
  | solve
  /-- `Report()` up to the call of `HandleSolution` (postsolve, solution check) -/
  | report
  /-- `ReportSuffixes()`: `ReportStandardSuffixes`/`ReportCustomSuffixes` run inside
      `try { … } catch (const std::exception&)`, which turns the exception into a warning -/
  | suffixes
deriving Repr, DecidableEq

/-- Is the program point inside `BackendApp::Run`'s try block? -/
def Stage.insideRun : Stage → Bool
  | .ctor => false
  | _ => true

/-- Has `MakeProperSolutionHandler` run when an exception from this stage is handled? -/
def Stage.handlerAvailable : Stage → Bool
  | .ctor | .init | .openNL | .header => false
  | _ => true

/-- Has `NLProblemBuilder::OnHeader` populated the problem (so that
`builder.num_vars()`/`num_algebraic_cons()` are the header's numbers)? -/
def Stage.dimsKnown : Stage → Bool
  | .ctor | .init | .openNL | .header | .options | .populate => false
  | _ => true

/-- One command-line flag before the stub (`mp::ParseOptions` over `SolverAppOptionParser`'s list). -/
inductive Flag where
  /-- `-s`: `set_wantsol(1)`, continue -/
  | wantsol
  /-- `-e`: continue -/
  | noecho
  /-- `--`: `EndOptions` returns false; `Parse` continues with the stub -/
  | dashdash
  /-- `-?`, `-=…`, `-a`, `-!`, `-v`, `-c`: print something and stop (`Parse` returns 0) -/
  | info
  /-- unknown flag or wrong format: `throw OptionError` -/
  | invalid
deriving Repr, DecidableEq

/-- One solver option token (`BasicSolver::ParseOptionString`), abstracted to what matters. -/
inductive Opt where
  /-- `wantsol=n` (also `tech:wantsol`) -/
  | wantsol (n : Nat)
  /-- any other well-formed assignment to an existing option -/
  | ok
  /-- unknown name, flag with an argument, value of the wrong type: `ReportError` → `MP_RAISE` -/
  | bad
  /-- a well-typed value the option's setter rejects: `throw InvalidOptionValue` (an `OptionError`) -/
  | invalidValue
deriving Repr, DecidableEq

/-- One item of the option stream: a plain token, or `tech:optionfile=<path>` (synonyms `optionfile`,
`option:file`).  `BasicSolver::UseOptionFile` opens the path and, if the stream is good, feeds every
non-comment line to `ParseOptionString` (so the file's tokens are parsed *in place*, an offending one
raises from inside); afterwards `if (!ifs.good() && !ifs.eof()) MP_RAISE("Failed to read option
file …")`.  `inner` = the tokens that could be read (none for a missing path or a directory),
`readFails` = the stream ended in a state that is neither good nor eof (missing path: failbit;
directory, `/proc/self/mem`, I/O error: badbit). -/
inductive OptItem where
  | tok (o : Opt)
  | optfile (inner : List Opt) (readFails : Bool)
deriving Repr, DecidableEq

/-- The token sequence `ParseOptionString` effectively sees: an option file is its readable tokens
spliced in place, followed — if reading failed — by a raise of the `MP_RAISE` kind. -/
def expandOpts : List OptItem → List Opt
  | [] => []
  | .tok o :: is => o :: expandOpts is
  | .optfile inner rf :: is => inner ++ (if rf then [Opt.bad] else []) ++ expandOpts is

/-- Header dimensions (`num_algebraic_cons`, `num_vars`). -/
structure Dims where
  ncons : Nat
  nvars : Nat
deriving Repr, DecidableEq

/-- What the (scripted) solver answers on the no-exception path. -/
structure Answer where
  code : Int
  havePrimal : Bool
  haveDual : Bool
deriving Repr, DecidableEq

/-- State of `<stub>.sol` as an output path. -/
structure OutPath where
  /-- `fopen(path, "wb")` succeeds -/
  canOpen : Bool
  /-- every byte written reaches the file (`fprintf`/`fclose` report no error) -/
  canFlush : Bool
deriving Repr, DecidableEq

/-- `WriteSolFile` returns normally: the file opens and, since 87b3b50, the final `file.close()`
(which throws `fmt::SystemError` if any write failed: ENOSPC, EIO) succeeds. -/
def OutPath.writable (o : OutPath) : Bool := o.canOpen && o.canFlush

/-- A complete description of one run as far as the decision logic is concerned. -/
structure Scenario where
  flags : List Flag
  /-- a stub argument follows the flags -/
  hasStub : Bool
  /-- `-AMPL` immediately after the stub -/
  ampl : Bool
  /-- solver options in the order they are parsed (environment variables, then argv) -/
  opts : List OptItem
  /-- `objno` given and larger than the header's number of objectives -/
  objnoTooBig : Bool
  /-- `tech:writemodelonly=<file>` (synonyms `justwriteprob`, `justwritemodel`) given and parsed:
      `exportFileMode() == 2`, "do not solve, just export" -/
  justExport : Bool
  dims : Dims
  /-- what `builder.num_algebraic_cons()/num_vars()` return if `NLProblemBuilder::OnHeader` throws
      half-way (only used for a fault at stage `populate`) -/
  partialDims : Dims
  out : OutPath
  /-- first exception raised by anything *other than* flag / option parsing, if any,
      and where (`ctor` … `report`); `options` here means a raise inside the option-parsing
      window by something else than the parser (e.g. `FinishOptionParsing`) -/
  fault : Option (Stage × Raise)
  answer : Answer
deriving Repr

/-- What a `.sol` file contains, as far as this property is concerned
(the four count lines, the `objno` line's code, and whether all bytes reached the file). -/
structure SolFile where
  code : Int
  ncons : Nat
  nduals : Nat
  nvars : Nat
  nprimals : Nat
  complete : Bool
deriving Repr, DecidableEq

/-- What the process leaves behind. -/
inductive Outcome where
  /-- no stub: usage / version / option list on stdout, `return result_code_` (= 0) -/
  | info
  /-- `RunFromNLFile` returns without `Solve()`/`Report()` (`tech:writemodelonly`): no `.sol`, no
      message, exit 0 -/
  | silent
  /-- `.sol` written, exit 0; `echoed`: the message was also printed on stdout -/
  | sol (f : SolFile) (echoed : Bool)
  /-- no `.sol` requested (no `-AMPL`, `wantsol&1 = 0`): result only on stdout (if not
      suppressed by `wantsol&8`), exit 0 -/
  | stdoutOnly (code : Int) (shown : Bool)
  /-- `Error: …` on stderr, process exit status -/
  | stderrExit (status : Nat)
  /-- the process dies: `std::terminate` (uncaught exception), or a stage aborts (SIGSEGV, SIGABRT, OOM kill) -/
  | crash
  /-- the process does not terminate -/
  | hang
deriving Repr, DecidableEq

/-! ## Command line -/

/-- Result of `SolverAppOptionParser::Parse` restricted to the flags. -/
inductive FlagsResult where
  | proceed (wantsol : Nat)
  | stop
  | throwOptionError
deriving Repr, DecidableEq

/-- `mp::ParseOptions(argv, options_)`: loop over leading `-x` arguments. -/
def parseFlags : List Flag → Nat → FlagsResult
  | [], w => .proceed w
  | .wantsol :: fs, _ => parseFlags fs 1
  | .noecho :: fs, w => parseFlags fs w
  | .dashdash :: _, w => .proceed w      -- returns '-', `Parse` goes on to the stub
  | .info :: _, _ => .stop
  | .invalid :: _, _ => .throwOptionError

/-- `ParseOptionString` over all tokens: the first offending token throws; `wantsol` tokens seen
before it have already been stored. Returns the effective `wantsol` and the raise, if any. -/
def parseOpts : List Opt → Nat → Nat × Option Raise
  | [], w => (w, none)
  | .wantsol n :: os, _ => parseOpts os n
  | .ok :: os, w => parseOpts os w
  | .bad :: _, w => (w, some .plain)
  | .invalidValue :: _, w => (w, some .optionError)

/-! ## Writing the result -/

/-- process exit status for `return e.exit_code()` from `main` -/
def exitStatus (c : Int) : Nat := (c % 256).toNat

/-- `Solver::WRITE_SOL_FILE = 1`, `SUPPRESS_SOLVER_MSG = 8` -/
def wantsFile (ampl : Bool) (wantsol : Nat) : Bool := ampl || (wantsol &&& 1) != 0
def suppressMsg (wantsol : Nat) : Bool := (wantsol &&& 8) != 0

/-- Does `WriteSolFile` end with `file.close()` (which throws `fmt::SystemError` when a write failed)?
True on the current tree (generated `Gen.C09.solWriterClosesFile`); before 87b3b50 it did not. -/
def writerChecksClose : Bool := true

/-- `AppSolutionHandlerImpl::HandleSolution` → `SolutionWriterImpl::HandleSolution` →
`WriteSolFile`, for a writer that does (`checks = true`) or does not check the stream when it closes the file.
`none` = a `fmt::SystemError` leaves the function (the file cannot be opened, or the data cannot be written —
then a truncated file may stay behind, but the run ends on stderr with a non-zero status).

`complete` of the file left behind is **computed here**, it is not taken from the record that is passed in:
every `file.print` may silently fail, and what reaches the file is complete iff the path can be flushed.  A
writer that does not check (`checks = false`: the code before 87b3b50) returns normally and leaves a
truncated file with exit status 0 — the model can say so (`C09_history_writeerr`). -/
def handleSolutionW (checks : Bool) (ampl : Bool) (wantsol : Nat) (out : OutPath) (f : SolFile) : Option Outcome :=
  if wantsFile ampl wantsol then
    if out.canOpen then
      if out.canFlush || !checks then
        some (.sol { f with complete := out.canFlush } (!ampl && !suppressMsg wantsol))
      else none
    else none
  else some (.stdoutOnly f.code (!suppressMsg wantsol))

/-- the writer of the current tree -/
def handleSolution (ampl : Bool) (wantsol : Nat) (out : OutPath) (f : SolFile) : Option Outcome :=
  handleSolutionW writerChecksClose ampl wantsol out f

/-- a `fmt::SystemError` leaving `HandleSolution` ends in `RunBackendApp`'s
`catch (std::exception)`: `Error: …` on stderr, `EXIT_FAILURE` -/
def orStderr : Option Outcome → Outcome
  | some o => o
  | none => .stderrExit 1

/-- the solve code `BackendApp::Run` passes to `ReportError`:
`er.exit_code()>=sol::UNCERTAIN ? er.exit_code() : sol::FAILURE` for an `mp::Error` (since abd397a;
before: `>= 0`, which let `EXIT_FAILURE` = 1 through), `sol::FAILURE` otherwise -/
def Exn.reportCode : Exn → Int
  | .mpError c => if c ≥ 100 then c else solFAILURE
  | .stdExn => solFAILURE
  | .foreign => solFAILURE

/-- `BackendApp::Run`'s two catch clauses, then `RunBackendApp`'s.
`handler`: is a solution handler available; `d`: what `builder.num_*()` return now. -/
def reportError (ampl : Bool) (wantsol : Nat) (out : OutPath) (handler : Bool) (d : Dims)
    (x : Exn) : Outcome :=
  if x = .foreign then .crash
  else if handler then
    orStderr (handleSolution ampl wantsol out
            { code := x.reportCode, ncons := d.ncons, nduals := 0, nvars := d.nvars, nprimals := 0, complete := true })
  else .stderrExit 1              -- `throw std::runtime_error(msg)` from the catch clause: EXIT_FAILURE

/-- `RunBackendApp`'s catch clauses: `return e.exit_code()` / `return EXIT_FAILURE` / no handler. -/
def rbaOutcome : Exn → Outcome
  | .mpError c => .stderrExit (exitStatus c)
  | .stdExn => .stderrExit 1
  | .foreign => .crash

/-- `ReportSolution2AMPL` → `HandleSolution`; a `fmt::SystemError` from the writer is caught by `Run`'s
`catch (std::exception)`, which reports it — i.e. tries to write again. -/
def writeOrRetry (ampl : Bool) (wantsol : Nat) (out : OutPath) (handler : Bool) (d : Dims) (f : SolFile) : Outcome :=
  match handleSolution ampl wantsol out f with
  | some o => o
  | none => reportError ampl wantsol out handler d .stdExn

/-- An exception raised at `st`. -/
def fail (ampl : Bool) (wantsol : Nat) (sc : Scenario) (st : Stage) (r : Raise) : Outcome :=
  if st.insideRun then
    reportError ampl wantsol sc.out st.handlerAvailable
      (if st.dimsKnown then sc.dims else if st = .populate then sc.partialDims else ⟨0, 0⟩) r.toExn
  else
    rbaOutcome r.toExn                       -- RunBackendApp's own catch clauses

/-- Does the fault (if any) strike at or before stage `st`? (stages are in execution order) -/
def Stage.idx : Stage → Nat
  | .ctor => 0 | .init => 1 | .openNL => 2 | .header => 3 | .options => 4 | .populate => 5 | .body => 6
  | .names => 7 | .convert => 8 | .extras => 9 | .solve => 10 | .report => 11 | .suffixes => 12

def faultBefore (sc : Scenario) (limit : Nat) : Option (Stage × Raise) :=
  match sc.fault with
  | some (st, r) => if st.idx < limit then some (st, r) else none
  | none => none

/-- How far a run gets: which exception (if any) ends it, in which mode. -/
inductive Ending where
  /-- no stub: usage / version printed -/
  | info
  /-- first exception: raised at `st`, constructed as `r`, while `-AMPL` = `ampl` and the
      stored `wantsol` value is `wantsol` -/
  | raised (ampl : Bool) (wantsol : Nat) (st : Stage) (r : Raise)
  /-- `RunFromNLFile` reaches `HandleSolution` with the solver's answer -/
  | finished (ampl : Bool) (wantsol : Nat)
  /-- `exportFileMode() == 2`: the model was exported, `Solve()` and `Report()` are skipped -/
  | exported (ampl : Bool) (wantsol : Nat)
deriving Repr, DecidableEq

/-- The control flow of `RunBackendApp` → `Run` → `Init` → `RunFromNLFile` up to the first
exception. -/
def ending (sc : Scenario) : Ending :=
  -- RunBackendApp: be_creator(), BackendApp ctor;  Run → Init: Backend::Init
  match faultBefore sc 2 with
  | some (st, r) => .raised false 0 st r
  | none =>
  -- the flags
  match parseFlags sc.flags 0 with
  | .stop => .info
  | .throwOptionError => .raised false 0 .init .optionError
  | .proceed w0 =>
  if !sc.hasStub then .info else
  let ampl := sc.ampl
  let w1 := if ampl then 1 else w0
  -- RunFromNLFile → ReadNL: open, header
  match faultBefore sc 4 with
  | some (st, r) => .raised ampl w1 st r
  | none =>
  -- OnHeader: handler made; options parsed
  match parseOpts (expandOpts sc.opts) w1 with
  | (w, some r) => .raised ampl w .options r
  | (w, none) =>
  match faultBefore sc 5 with
  | some (st, r) => .raised ampl w st r
  | none =>
  if sc.objnoTooBig then .raised ampl w .options .optionError else
  -- body … report
  -- populate … extras (ExportModel runs in the extras stage)
  match faultBefore sc 10 with
  | some (st, r) => .raised ampl w st r
  | none =>
  if sc.justExport then .exported ampl w else
  match sc.fault with
  | some (st, r) =>
    -- StdBackend::ReportSuffixes swallows every std::exception (adds a warning)
    if st = .suffixes ∧ r ≠ .foreign then .finished ampl w else .raised ampl w st r
  | none => .finished ampl w

/-- What the process leaves behind, given how the run ends. -/
def conclude (sc : Scenario) : Ending → Outcome
  | .info => .info
  | .exported _ _ => .silent
  | .raised a w st r => fail a w sc st r
  | .finished a w =>
    -- ReportSolution2AMPL → HandleSolution(SolveCode(), msg, x or 0, pi or 0, obj)
    let f : SolFile := { code := sc.answer.code, ncons := sc.dims.ncons,
                         nduals := if sc.answer.haveDual then sc.dims.ncons else 0,
                         nvars := sc.dims.nvars,
                         nprimals := if sc.answer.havePrimal then sc.dims.nvars else 0,
                         complete := true }
    writeOrRetry a w sc.out true sc.dims f

/-- The whole run. -/
def run (sc : Scenario) : Outcome := conclude sc (ending sc)

/-! ## The property, as a predicate on (scenario, outcome) -/

/-- Cause classes named by the property. -/
inductive Cause where
  | none          -- nothing went wrong: the solver's answer is reported
  | infeasible    -- model proven infeasible during conversion
  | failure       -- unsupported construct, missing bounds, invalid input / options, any other error
  | asRaised (c : Int)  -- raised with an explicit solve code by the raiser (`Abort(c, …)`, sol-check 150)
deriving Repr, DecidableEq

def Raise.cause : Raise → Cause
  | .infeas => .infeasible
  | .wrappedInfeas => .infeasible
  | .withCode c => if c ≥ 100 then .asRaised c else .failure
  | .solCheck => .asRaised 150
  | _ => .failure

def codeOK (a : Answer) : Cause → Int → Prop
  | .none, c => c = a.code
  | .infeasible, c => 200 ≤ c ∧ c ≤ 299
  | .failure, c => 500 ≤ c ∧ c ≤ 999
  | .asRaised c', c => c = c'

instance (a : Answer) (k : Cause) (c : Int) : Decidable (codeOK a k c) := by
  cases k <;> simp only [codeOK] <;> exact inferInstance

/-- The cause a run ends with; `none` = info-only invocation. -/
def Ending.cause : Ending → Option Cause
  | .info => none
  | .raised _ _ _ r => some r.cause
  | .finished _ _ => some .none
  | .exported _ _ => some .none

def firstCause (sc : Scenario) : Option Cause := (ending sc).cause

/-- "No file can be written": the header has not been read completely when the run ends (no
solution handler, dimensions unknown), or `<stub>.sol` cannot be opened for writing. -/
def cannotWrite (sc : Scenario) : Ending → Bool
  | .info => false
  | .raised _ _ st _ => !st.handlerAvailable || !sc.out.writable
  | .finished _ _ => !sc.out.writable
  | .exported _ _ => false

/-- **The property** for one run that ends as `e`: the outcome is one of the two allowed ones.
* a *complete* `.sol` whose count lines equal the NL header's (and whose value blocks are empty
  or full) and whose code is in the class of the cause; or
* only if no file can be written: `Error: …` on stderr and a non-zero exit status;
* invocations without a stub (`-v`, `-?`, …) are not runs of a model: `info`. -/
def GoodEnd (sc : Scenario) (e : Ending) (o : Outcome) : Prop :=
  match e.cause, o with
  | none, .info => True
  | some k, .sol f _ =>
      f.complete = true ∧ f.ncons = sc.dims.ncons ∧ f.nvars = sc.dims.nvars ∧
      (f.nduals = 0 ∨ f.nduals = f.ncons) ∧ (f.nprimals = 0 ∨ f.nprimals = f.nvars) ∧
      codeOK sc.answer k f.code
  | some _, .stderrExit st => cannotWrite sc e = true ∧ st ≠ 0
  -- no `.sol` was requested (no `-AMPL`, `wantsol&1 = 0`) and nothing went wrong: the solver's result on stdout
  | some .none, .stdoutOnly c shown => shown = true ∧ c = sc.answer.code
  | _, _ => False

instance (sc : Scenario) (e : Ending) (o : Outcome) : Decidable (GoodEnd sc e o) := by
  unfold GoodEnd; split <;> exact inferInstance

/-- The property for a scenario. -/
def Good (sc : Scenario) (o : Outcome) : Prop := GoodEnd sc (ending sc) o

instance (sc : Scenario) (o : Outcome) : Decidable (Good sc o) := by
  unfold Good; exact inferInstance

/-! ## Canonical text (used by the line driver) -/

def Outcome.toStr : Outcome → String
  | .info => "info exit=0"
  | .silent => "silent exit=0"
  | .sol f e => s!"sol code={f.code} ncons={f.ncons} nduals={f.nduals} nvars={f.nvars} nprimals={f.nprimals} complete={if f.complete then 1 else 0} echoed={if e then 1 else 0} exit=0"
  | .stdoutOnly c s => s!"stdout code={c} shown={if s then 1 else 0} exit=0"
  | .stderrExit st => s!"stderr exit={st}"
  | .crash => "crash"
  | .hang => "hang"

end MpVerif.C09

import MpVerif.C09.Model
/-!
# C09 — helper definitions and lemmas (core Lean only)
-/
namespace MpVerif.C09

/-- raise kinds whose object is built by a ctor that leaves `exit_code_` at its in-class
initialiser `EXIT_FAILURE` (= 1): before abd397a they were reported with solve code 1, now with 500. -/
def Raise.exitFailureCtor : Raise → Bool
  | .unsupported | .readError | .fmtError => true
  | _ => false

/-- an option token that does not throw -/
def Opt.clean : Opt → Bool
  | .wantsol _ => true
  | .ok => true
  | .bad => false
  | .invalidValue => false

/-- what a throwing token raises -/
def Opt.raise : Opt → Raise
  | .invalidValue => .optionError
  | .bad => .plain
  | .ok => .plain
  | .wantsol _ => .plain

/-- the stored wantsol after a clean prefix -/
def lastWantsol : List Opt → Nat → Nat
  | [], w => w
  | .wantsol n :: os, _ => lastWantsol os n
  | .ok :: os, w => lastWantsol os w
  | .bad :: os, w => lastWantsol os w
  | .invalidValue :: os, w => lastWantsol os w

/-- a flag that lets `mp::ParseOptions` continue with the next argument -/
def Flag.passes : Flag → Bool
  | .wantsol => true
  | .noecho => true
  | .dashdash => false
  | .info => false
  | .invalid => false

theorem dimsKnown_imp_handler (st : Stage) : st.dimsKnown = true → st.handlerAvailable = true := by
  cases st <;> simp [Stage.dimsKnown, Stage.handlerAvailable]

theorem handler_imp_insideRun (st : Stage) : st.handlerAvailable = true → st.insideRun = true := by
  cases st <;> simp [Stage.insideRun, Stage.handlerAvailable]

theorem dimsKnown_of_handler_ne_options (st : Stage) :
    st.handlerAvailable = true → st ≠ .options → st ≠ .populate → st.dimsKnown = true := by
  cases st <;> simp [Stage.dimsKnown, Stage.handlerAvailable]

theorem options_handler : Stage.options.handlerAvailable = true ∧ Stage.options.dimsKnown = false ∧
    Stage.options.insideRun = true := by
  simp [Stage.dimsKnown, Stage.handlerAvailable, Stage.insideRun]

theorem insideRun_false_iff (st : Stage) : st.insideRun = false ↔ st = .ctor := by
  cases st <;> simp [Stage.insideRun]

/-- `handleSolution` either raises, prints to stdout only, or writes exactly the given record
. -/
theorem handleSolution_cases (a : Bool) (w : Nat) (out : OutPath) (f : SolFile) :
    (wantsFile a w = true ∧ out.writable = false ∧ handleSolution a w out f = none) ∨
    (wantsFile a w = true ∧ out.writable = true ∧
      handleSolution a w out f = some (.sol { f with complete := true } (!a && !suppressMsg w))) ∨
    (wantsFile a w = false ∧ handleSolution a w out f = some (.stdoutOnly f.code (!suppressMsg w))) := by
  unfold handleSolution handleSolutionW OutPath.writable
  cases hw : wantsFile a w <;> cases hco : out.canOpen <;> cases hcf : out.canFlush <;> simp [writerChecksClose]

/-- `reportError` on a non-foreign exception. -/
theorem reportError_cases (a : Bool) (w : Nat) (out : OutPath) (h : Bool) (d : Dims) (x : Exn)
    (hx : x ≠ .foreign) :
    reportError a w out h d x =
      if h then
        orStderr (handleSolution a w out
              { code := x.reportCode, ncons := d.ncons, nduals := 0, nvars := d.nvars, nprimals := 0, complete := true })
      else .stderrExit 1 := by
  simp [reportError, hx]

theorem toExn_foreign_iff (r : Raise) : r.toExn = .foreign ↔ r = .foreign := by
  cases r <;> simp [Raise.toExn]

/-- the code reported for each way of raising -/
theorem reportCode_of_raise (r : Raise) :
    r.toExn.reportCode =
      match r with
      | .withCode c => if c ≥ 100 then c else 500
      | .infeas => 200
      | .solCheck => 150
      | .wrappedInfeas => 200
      | _ => 500 := by
  cases r <;> simp [Raise.toExn, Exn.reportCode, solFAILURE, EXIT_FAILURE]

theorem parseOpts_clean (os : List Opt) (w : Nat) (h : os.all Opt.clean = true) :
    parseOpts os w = (lastWantsol os w, none) := by
  induction os generalizing w with
  | nil => rfl
  | cons o os ih =>
    simp only [List.all_cons, Bool.and_eq_true] at h
    cases o <;> simp_all [parseOpts, lastWantsol, Opt.clean]

theorem parseOpts_split (pre : List Opt) (x : Opt) (post : List Opt) (w : Nat)
    (hpre : pre.all Opt.clean = true) (hx : x.clean = false) :
    parseOpts (pre ++ x :: post) w = (lastWantsol pre w, some x.raise) := by
  induction pre generalizing w with
  | nil => cases x <;> simp_all [parseOpts, lastWantsol, Opt.clean, Opt.raise]
  | cons o os ih =>
    simp only [List.all_cons, Bool.and_eq_true] at hpre
    cases o <;> simp_all [parseOpts, lastWantsol, Opt.clean]

/-- Conversely: whenever the option parser raises, the list splits at the first offending token. -/
theorem parseOpts_raises (os : List Opt) (w w' : Nat) (r : Raise) (h : parseOpts os w = (w', some r)) :
    ∃ pre x post, os = pre ++ x :: post ∧ pre.all Opt.clean = true ∧ x.clean = false ∧
      r = x.raise ∧ w' = lastWantsol pre w := by
  induction os generalizing w with
  | nil => simp [parseOpts] at h
  | cons o os ih =>
    cases o with
    | wantsol n =>
      obtain ⟨pre, x, post, h1, h2, h3, h4, h5⟩ := ih n (by simpa [parseOpts] using h)
      exact ⟨.wantsol n :: pre, x, post, by simp [h1], by simp [h2, Opt.clean], h3, h4, by simp [lastWantsol, h5]⟩
    | ok =>
      obtain ⟨pre, x, post, h1, h2, h3, h4, h5⟩ := ih w (by simpa [parseOpts] using h)
      exact ⟨.ok :: pre, x, post, by simp [h1], by simp [h2, Opt.clean], h3, h4, by simp [lastWantsol, h5]⟩
    | bad =>
      simp only [parseOpts, Prod.mk.injEq, Option.some.injEq] at h
      exact ⟨[], .bad, os, rfl, rfl, rfl, h.2.symm, h.1.symm⟩
    | invalidValue =>
      simp only [parseOpts, Prod.mk.injEq, Option.some.injEq] at h
      exact ⟨[], .invalidValue, os, rfl, rfl, rfl, h.2.symm, h.1.symm⟩

theorem parseOpts_none (os : List Opt) (w w' : Nat) (h : parseOpts os w = (w', none)) :
    os.all Opt.clean = true ∧ w' = lastWantsol os w := by
  induction os generalizing w with
  | nil => simp_all [parseOpts, lastWantsol]
  | cons o os ih =>
    cases o with
    | wantsol n =>
      have := ih n (by simpa [parseOpts] using h)
      simp [Opt.clean, lastWantsol, this.1, this.2]
    | ok =>
      have := ih w (by simpa [parseOpts] using h)
      simp [Opt.clean, lastWantsol, this.1, this.2]
    | bad => simp [parseOpts] at h
    | invalidValue => simp [parseOpts] at h

/-- the stored wantsol after a prefix of passing flags -/
def flagsWantsol : List Flag → Nat → Nat
  | [], w => w
  | .wantsol :: fs, _ => flagsWantsol fs 1
  | .noecho :: fs, w => flagsWantsol fs w
  | .dashdash :: fs, w => flagsWantsol fs w
  | .info :: fs, w => flagsWantsol fs w
  | .invalid :: fs, w => flagsWantsol fs w

theorem parseFlags_passing (fs : List Flag) (w : Nat) (h : fs.all Flag.passes = true) :
    parseFlags fs w = .proceed (flagsWantsol fs w) := by
  induction fs generalizing w with
  | nil => rfl
  | cons f fs ih =>
    simp only [List.all_cons, Bool.and_eq_true] at h
    cases f <;> simp_all [parseFlags, Flag.passes, flagsWantsol]

theorem parseFlags_first_stopper (pre : List Flag) (x : Flag) (post : List Flag) (w : Nat)
    (hpre : pre.all Flag.passes = true) (hx : x.passes = false) :
    parseFlags (pre ++ x :: post) w =
      match x with
      | .info => .stop
      | .invalid => .throwOptionError
      | _ => .proceed (flagsWantsol pre w) := by
  induction pre generalizing w with
  | nil => cases x <;> first | exact absurd hx (by decide) | simp [parseFlags, flagsWantsol]
  | cons f fs ih =>
    simp only [List.all_cons, Bool.and_eq_true] at hpre
    cases f <;> simp_all [parseFlags, Flag.passes, flagsWantsol]

theorem exitStatus_ne_zero (c : Int) (h : c % 256 ≠ 0) : exitStatus c ≠ 0 := by
  unfold exitStatus
  omega

theorem exitStatus_lt (c : Int) : exitStatus c < 256 := by
  unfold exitStatus
  omega

/-- the record written when an exception is reported -/
def errDims (sc : Scenario) (st : Stage) : Dims :=
  if st.dimsKnown then sc.dims else if st = .populate then sc.partialDims else ⟨0, 0⟩

def errFile (sc : Scenario) (st : Stage) (r : Raise) (complete : Bool) : SolFile :=
  { code := r.toExn.reportCode,
    ncons := (errDims sc st).ncons, nduals := 0,
    nvars := (errDims sc st).nvars, nprimals := 0, complete := complete }

/-- the record written on the no-exception path -/
def okFile (sc : Scenario) (complete : Bool) : SolFile :=
  { code := sc.answer.code, ncons := sc.dims.ncons,
    nduals := if sc.answer.haveDual then sc.dims.ncons else 0,
    nvars := sc.dims.nvars,
    nprimals := if sc.answer.havePrimal then sc.dims.nvars else 0, complete := complete }

/-- Normal form of `conclude` on a finished run. -/
theorem conclude_finished (sc : Scenario) (a : Bool) (w : Nat) :
    conclude sc (.finished a w) =
      if wantsFile a w then
        if sc.out.writable then .sol (okFile sc true) (!a && !suppressMsg w)
        else .stderrExit 1
      else .stdoutOnly sc.answer.code (!suppressMsg w) := by
  cases hw : wantsFile a w <;> cases hco : sc.out.canOpen <;> cases hcf : sc.out.canFlush <;>
    simp [conclude, writeOrRetry, handleSolution, handleSolutionW, hw, hco, hcf, OutPath.writable, writerChecksClose, reportError, orStderr, okFile]

/-- Normal form of `conclude` on a run ended by a (non-foreign) exception. -/
theorem conclude_raised (sc : Scenario) (a : Bool) (w : Nat) (st : Stage) (r : Raise) (hr : r ≠ .foreign) :
    conclude sc (.raised a w st r) =
      if st.insideRun then
        if st.handlerAvailable then
          if wantsFile a w then
            if sc.out.writable then .sol (errFile sc st r true) (!a && !suppressMsg w)
            else .stderrExit 1
          else .stdoutOnly r.toExn.reportCode (!suppressMsg w)
        else .stderrExit 1
      else
        match r.toExn with
        | .mpError c => .stderrExit (exitStatus c)
        | _ => .stderrExit 1 := by
  have hf : r.toExn ≠ .foreign := fun h => hr ((toExn_foreign_iff r).1 h)
  cases hi : st.insideRun
  · cases hx : r.toExn <;> simp [conclude, fail, hi, hx, rbaOutcome]
    exact absurd hx hf
  · cases hh : st.handlerAvailable <;> cases hw : wantsFile a w <;> cases hco : sc.out.canOpen <;> cases hcf : sc.out.canFlush <;>
      simp [conclude, fail, hi, reportError_cases _ _ _ _ _ _ hf, hh, handleSolution, handleSolutionW, hw, hco, hcf, OutPath.writable, writerChecksClose,
        orStderr, errFile, errDims]

theorem conclude_foreign (sc : Scenario) (a : Bool) (w : Nat) (st : Stage) :
    conclude sc (.raised a w st .foreign) = .crash := by
  cases st <;> simp [conclude, fail, Stage.insideRun, Raise.toExn, reportError, rbaOutcome]

/-- An ending outside the deviation classes. -/
def Regular (sc : Scenario) (e : Ending) : Prop :=
  match e with
  | .info => True
  | .exported _ _ => False                                                  -- exportonly
  -- standalone: a finished run either writes the file, or (default stand-alone run) shows the result on stdout;
  -- excluded is only `wantsol=8` without bit 1: nothing at all is reported
  | .finished a w => wantsFile a w = true ∨ suppressMsg w = false
  | .raised a w st r =>
      r ≠ .foreign ∧                                                          -- foreign
      (st = .options → sc.dims = ⟨0, 0⟩) ∧                                    -- optdims
      (st = .populate → sc.partialDims = sc.dims) ∧                               -- hdrdims
      (st.handlerAvailable = true → wantsFile a w = true) ∧                   -- standalone
      (st = .ctor → ∀ c, r.toExn = .mpError c → c % 256 ≠ 0)                  -- ctorcode

instance (sc : Scenario) (e : Ending) : Decidable (Regular sc e) := by
  unfold Regular
  cases e with
  | info => exact inferInstance
  | exported a w => exact inferInstance
  | finished a w => exact inferInstance
  | raised a w st r =>
    -- the last conjunct quantifies over `c`, but `r.toExn` determines it
    have : Decidable (st = .ctor → ∀ c, r.toExn = .mpError c → c % 256 ≠ 0) :=
      match hx : r.toExn with
      | .mpError c0 =>
        if hst : st = .ctor then
          if hc : c0 % 256 ≠ 0 then isTrue (fun _ c h => by cases h; exact hc)
          else isFalse (fun h => hc (h hst c0 rfl))
        else isTrue (fun h => absurd h hst)
      | .stdExn => isTrue (fun _ c h => by cases h)
      | .foreign => isTrue (fun _ c h => by cases h)
    exact inferInstance

end MpVerif.C09

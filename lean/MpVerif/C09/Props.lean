import MpVerif.C09.Lemmas
import MpVerif.C09.PipelineLemmas
import MpVerif.C09.Skeleton
import MpVerif.Gen.C09Driver
/-!
# C09 — a driver run always ends in a well-formed result or a diagnosed failure

Property theorems only.  They are about the decision model `MpVerif.C09.run`
(`Model.lean`), i.e. about *what the process leaves behind as a function of where the first
exception is raised, how it was constructed, the invocation mode and the output path*.
All theorems quantify over every `Scenario` / `Ending`: all stages × all raise kinds × all
solve codes (`Int`) × all header dimensions (`Nat`) × all `wantsol` values × all flag / option
lists (unbounded lists) × all output-path states.

**What is NOT a theorem**: that the C++ terminates and never crashes for every NL file.  The
model is a total function, so "terminates" is vacuous here; crash/hang freedom of the real code
is observed only (ASan/UBSan build + per-run timeout on the generated inputs).  The property is
therefore decided **partially**.

**The full-strength statement is false on the code as it exists**:

    theorem C09_outcome : ∀ sc, Good sc (run sc)            -- FALSE, see the counterexamples

Since the fixes abd397a (codes < 100 → `sol::FAILURE`), f454558 (infeasibility code kept when
`ConstraintKeeper` re-raises), 87b3b50 (`WriteSolFile` closes the file and throws on write errors) the
**code class** and **completeness** parts hold at full strength (`C09_code_class`, `C09_complete`,
`C09_write_error_is_diagnosed`; the former counterexamples are now the regression theorems
`C09_fixed_code1`, `C09_fixed_infeas500`, `C09_fixed_writeerr`).  The classes that still deviate:

* `optdims`     an exception inside the option-parsing window of `OnHeader` (unknown option,
                ill-typed value, `objno` too large) is reported in a `.sol` whose four count lines
                are `0 0 0 0` instead of the header's: the solution handler exists, but
                `NLProblemBuilder::OnHeader` has not populated the problem yet.
* `hdrdims`     the same mechanism one step later: `NLProblemBuilder::OnHeader` itself throws on an
                inconsistent header with the problem partially populated.
* `standalone`  without `-AMPL` and with `wantsol&1 = 0` an error is only printed on stdout (not at
                all with `wantsol&8`), exit status 0.
* `exportonly`  `tech:writemodelonly=<file>`: `RunFromNLFile` skips `Solve()` and `Report()`; the run ends
                with exit status 0, no `.sol`, no message (`C09_exportonly_general`).
* `ctorcode`    (latent) an `mp::Error` escaping to `RunBackendApp` is turned into the exit status
                `exit_code() mod 256`, which is 0 for codes 0, 256, 512, 768.
* `foreign`     (latent) an exception not derived from `std::exception` → `std::terminate`.

`C09_outcome_partial` proves the property for every scenario outside these classes (`Regular`), and
the `C09_*_general` theorems prove that *every* scenario inside a class behaves as described.
-/
namespace MpVerif.C09

/-! ## Unbounded parsing loops -/

/-- `ParseOptionString` over any token list: no token throws iff all are clean; then the stored
`wantsol` is the last one given. -/
theorem C09_parseOpts_ok_iff (os : List Opt) (w : Nat) :
    (parseOpts os w).2 = none ↔ os.all Opt.clean = true := by
  constructor
  · intro h
    have : parseOpts os w = ((parseOpts os w).1, none) := by rw [← h]
    exact (parseOpts_none os w _ this).1
  · intro h; rw [parseOpts_clean os w h]

/-- …and if a token throws, it is the *first* offending one, with the `wantsol` stored by the
tokens before it (so `wantsol=1 foo=1` and `foo=1 wantsol=1` end differently). -/
theorem C09_parseOpts_first_error (os : List Opt) (w w' : Nat) (r : Raise) :
    parseOpts os w = (w', some r) ↔
      ∃ pre x post, os = pre ++ x :: post ∧ pre.all Opt.clean = true ∧ x.clean = false ∧
        r = x.raise ∧ w' = lastWantsol pre w := by
  constructor
  · exact parseOpts_raises os w w' r
  · rintro ⟨pre, x, post, rfl, h1, h2, rfl, rfl⟩
    exact parseOpts_split pre x post w h1 h2

/-- `mp::ParseOptions` over any flag list. -/
theorem C09_parseFlags (pre : List Flag) (x : Flag) (post : List Flag) (w : Nat)
    (hpre : pre.all Flag.passes = true) :
    parseFlags pre w = .proceed (flagsWantsol pre w) ∧
    (x.passes = false →
      parseFlags (pre ++ x :: post) w =
        match x with
        | .info => .stop
        | .invalid => .throwOptionError
        | _ => .proceed (flagsWantsol pre w)) :=
  ⟨parseFlags_passing pre w hpre, fun hx => by
    cases x <;> first | exact absurd hx (by decide) | exact parseFlags_first_stopper pre _ post w hpre rfl⟩

/-! ## What `conclude` leaves behind, for every way a run can end -/

/-- **Dimensions.** Whenever a `.sol` is written — for whatever reason — its count lines are the
NL header's and the value blocks are empty or full, *unless* the run ended inside the
option-parsing window. -/
theorem C09_dims_partial (sc : Scenario) (e : Ending) (f : SolFile) (ech : Bool)
    (h : conclude sc e = .sol f ech)
    (hwin : ∀ a w r, e ≠ .raised a w .options r)
    (hpop : ∀ a w r, e ≠ .raised a w .populate r) :
    f.ncons = sc.dims.ncons ∧ f.nvars = sc.dims.nvars ∧
    (f.nduals = 0 ∨ f.nduals = f.ncons) ∧ (f.nprimals = 0 ∨ f.nprimals = f.nvars) := by
  cases e with
  | info => simp [conclude] at h
  | exported a w => simp [conclude] at h
  | raised a w st r =>
    have hst : st ≠ .options := fun hh => hwin a w r (by rw [hh])
    have hsp : st ≠ .populate := fun hh => hpop a w r (by rw [hh])
    by_cases hr : r = .foreign
    · rw [hr, conclude_foreign] at h; simp at h
    · rw [conclude_raised sc a w st r hr] at h
      cases hi : st.insideRun
      · rw [hi] at h; cases hx : r.toExn <;> rw [hx] at h <;> simp at h
      · cases hh : st.handlerAvailable
        · simp [hi, hh] at h
        · have hd := dimsKnown_of_handler_ne_options st hh hst hsp
          cases hw : wantsFile a w <;> cases ho : sc.out.writable <;> simp [hi, hh, hw, ho] at h
          obtain ⟨rfl, _⟩ := h
          simp [errFile, errDims, hd]
  | finished a w =>
    rw [conclude_finished] at h
    cases hw : wantsFile a w <;> cases ho : sc.out.writable <;> simp [hw, ho] at h
    obtain ⟨rfl, _⟩ := h
    cases hd : sc.answer.haveDual <;> cases hp : sc.answer.havePrimal <;> simp [okFile, hd, hp]

/-- **`optdims`, exactly.** Every `.sol` written for an exception raised inside the option window
has the count lines `0 0 0 0` — whatever the header says. -/
theorem C09_optdims_general (sc : Scenario) (a : Bool) (w : Nat) (r : Raise) (f : SolFile) (ech : Bool)
    (h : conclude sc (.raised a w .options r) = .sol f ech) :
    f.ncons = 0 ∧ f.nduals = 0 ∧ f.nvars = 0 ∧ f.nprimals = 0 := by
  by_cases hr : r = .foreign
  · rw [hr, conclude_foreign] at h; simp at h
  · rw [conclude_raised sc a w _ r hr] at h
    cases hw : wantsFile a w <;> cases ho : sc.out.writable <;>
      simp [Stage.insideRun, Stage.handlerAvailable, hw, ho] at h
    obtain ⟨rfl, _⟩ := h
    simp [errFile, errDims, Stage.dimsKnown]

/-- **`hdrdims`, exactly.** Every `.sol` written for an exception thrown while the problem is being
populated from the header carries the partially populated dimensions. -/
theorem C09_hdrdims_general (sc : Scenario) (a : Bool) (w : Nat) (r : Raise) (f : SolFile) (ech : Bool)
    (h : conclude sc (.raised a w .populate r) = .sol f ech) :
    f.ncons = sc.partialDims.ncons ∧ f.nduals = 0 ∧ f.nvars = sc.partialDims.nvars ∧ f.nprimals = 0 := by
  by_cases hr : r = .foreign
  · rw [hr, conclude_foreign] at h; simp at h
  · rw [conclude_raised sc a w _ r hr] at h
    cases hw : wantsFile a w <;> cases ho : sc.out.writable <;>
      simp [Stage.insideRun, Stage.handlerAvailable, hw, ho] at h
    obtain ⟨rfl, _⟩ := h
    simp [errFile, errDims, Stage.dimsKnown]

/-- **Code class — full strength** (since abd397a / f454558; the last exception, `Error("fmt {}", n)` with a single int
argument, was removed from the tree by 3651d33, see `C09_history_fmtintcode`).
Whenever a `.sol` is written its code is in the class of the cause: the solver's own code if nothing
went wrong; 200–299 for infeasibility (also when `MP_INFEAS` is re-raised by `ConstraintKeeper`);
500–999 for every failure — in particular for `ReadError`, `UnsupportedError`, `Error("fmt", …)`, whose
`exit_code()` is `EXIT_FAILURE`; the raiser's code (≥ 100) for `Abort(c)` / sol-check. -/
theorem C09_code_class (sc : Scenario) (e : Ending) (k : Cause) (f : SolFile) (ech : Bool)
    (h : conclude sc e = .sol f ech) (hk : e.cause = some k) :
    codeOK sc.answer k f.code := by
  cases e with
  | info => simp [conclude] at h
  | exported a w => simp [conclude] at h
  | raised a w st r =>
    simp only [Ending.cause, Option.some.injEq] at hk
    by_cases hr : r = .foreign
    · rw [hr, conclude_foreign] at h; simp at h
    · rw [conclude_raised sc a w st r hr] at h
      cases hi : st.insideRun
      · rw [hi] at h; cases hx : r.toExn <;> rw [hx] at h <;> simp at h
      · cases hh : st.handlerAvailable <;> cases hw : wantsFile a w <;> cases ho : sc.out.writable <;>
          simp [hi, hh, hw, ho] at h
        obtain ⟨rfl, _⟩ := h
        simp only [errFile]
        rw [reportCode_of_raise, ← hk]
        cases r <;> simp [Raise.cause, codeOK] at hr ⊢
        rename_i c
        by_cases hc0 : 100 ≤ c <;> simp [hc0, codeOK]
  | finished a w =>
    simp only [Ending.cause, Option.some.injEq] at hk
    subst hk
    rw [conclude_finished] at h
    cases hw : wantsFile a w <;> cases ho : sc.out.writable <;> simp [hw, ho] at h
    obtain ⟨rfl, _⟩ := h
    simp [codeOK, okFile]

/-- **The code written, exactly** (round 4): for every way of raising, the solve code in a written failure
`.sol` — the causes the property names: proven infeasible during conversion (`infeas`, `wrappedInfeas`) → 200;
unsupported construct, missing bounds (`plain` from `ConstraintConversionFailure`), invalid input / options
(`readError`, `optionError`, `plain`), any other exception → 500; `Abort(c)` → `c` if `c ≥ 100`, else 500;
solution check → 150. -/
def Raise.reportedCode : Raise → Int
  | .withCode c => if c ≥ 100 then c else 500
  | .infeas => 200
  | .wrappedInfeas => 200
  | .solCheck => 150
  | _ => 500

theorem C09_reported_code_exact (sc : Scenario) (a : Bool) (w : Nat) (st : Stage) (r : Raise) (f : SolFile) (ech : Bool)
    (h : conclude sc (.raised a w st r) = .sol f ech) :
    f.code = r.reportedCode := by
  by_cases hr : r = .foreign
  · rw [hr, conclude_foreign] at h; simp at h
  · rw [conclude_raised sc a w st r hr] at h
    cases hi : st.insideRun
    · rw [hi] at h; cases hx : r.toExn <;> rw [hx] at h <;> simp at h
    · cases hh : st.handlerAvailable <;> cases hw : wantsFile a w <;> cases ho : sc.out.writable <;>
        simp [hi, hh, hw, ho] at h
      obtain ⟨rfl, _⟩ := h
      simp only [errFile]
      rw [reportCode_of_raise]
      cases r <;> rfl

macro "c09_inst" : tactic =>
  `(tactic| first
    | decide
    | (intros; simp_all; done)
    | (intro a w h; rcases h with h | ⟨_, _, h⟩ <;> cases h <;> decide)
    | (intro a w st r h; cases h; decide)
    | (intro a w st h; cases h)
    | (intro a w h; cases h))

/-- The former `code1` class: exceptions whose object keeps `exit_code_ = EXIT_FAILURE` (1) are now
reported with `sol::FAILURE`. -/
theorem C09_exit_failure_ctor_reports_500 (sc : Scenario) (a : Bool) (w : Nat) (st : Stage) (r : Raise) (f : SolFile) (ech : Bool)
    (hr : r.exitFailureCtor = true)
    (h : conclude sc (.raised a w st r) = .sol f ech) : f.code = 500 := by
  have hnf : r ≠ .foreign := by cases r <;> simp [Raise.exitFailureCtor] at hr ⊢
  rw [conclude_raised sc a w st r hnf] at h
  cases hi : st.insideRun
  · rw [hi] at h; cases hx : r.toExn <;> rw [hx] at h <;> simp at h
  · cases hh : st.handlerAvailable <;> cases hw : wantsFile a w <;> cases ho : sc.out.writable <;>
      simp [hi, hh, hw, ho] at h
    obtain ⟨rfl, _⟩ := h
    simp only [errFile]
    rw [reportCode_of_raise]
    cases r <;> simp [Raise.exitFailureCtor] at hr ⊢

/-- The former `infeas500` class: an infeasibility re-raised by `ConstraintKeeper` keeps code 200. -/
theorem C09_wrapped_infeas_keeps_200 (sc : Scenario) (a : Bool) (w : Nat) (st : Stage) (f : SolFile) (ech : Bool)
    (h : conclude sc (.raised a w st .wrappedInfeas) = .sol f ech) :
    f.code = 200 ∧ (Ending.raised a w st .wrappedInfeas).cause = some .infeasible := by
  rw [conclude_raised sc a w st _ (by simp)] at h
  cases hi : st.insideRun
  · rw [hi] at h; simp [Raise.toExn] at h
  · cases hh : st.handlerAvailable <;> cases hw : wantsFile a w <;> cases ho : sc.out.writable <;>
      simp [hi, hh, hw, ho] at h
    obtain ⟨rfl, _⟩ := h
    simp [errFile, Raise.toExn, Exn.reportCode, Ending.cause, Raise.cause]

/-- **Completeness — full strength** (since 87b3b50; was `C09_complete_iff_flush`): a run that ends
with exit status 0 and a `.sol` has written it completely, and the path was writable; a write error
(`ENOSPC`, `EIO`) ends on stderr instead (`C09_write_error_is_diagnosed`). -/
theorem C09_complete (sc : Scenario) (e : Ending) (f : SolFile) (ech : Bool)
    (h : conclude sc e = .sol f ech) : f.complete = true ∧ sc.out.canOpen = true ∧ sc.out.canFlush = true := by
  have key : sc.out.writable = true → sc.out.canOpen = true ∧ sc.out.canFlush = true := by
    simp [OutPath.writable]
  cases e with
  | info => simp [conclude] at h
  | exported a w => simp [conclude] at h
  | raised a w st r =>
    by_cases hr : r = .foreign
    · rw [hr, conclude_foreign] at h; simp at h
    · rw [conclude_raised sc a w st r hr] at h
      cases hi : st.insideRun
      · rw [hi] at h; cases hx : r.toExn <;> rw [hx] at h <;> simp at h
      · cases hh : st.handlerAvailable <;> cases hw : wantsFile a w <;> cases ho : sc.out.writable <;>
          simp [hi, hh, hw, ho] at h
        obtain ⟨rfl, _⟩ := h
        exact ⟨rfl, key ho⟩
  | finished a w =>
    rw [conclude_finished] at h
    cases hw : wantsFile a w <;> cases ho : sc.out.writable <;> simp [hw, ho] at h
    obtain ⟨rfl, _⟩ := h
    exact ⟨rfl, key ho⟩

/-- The former `writeerr` class: if a file is wanted, a handler exists and the path opens but the
data cannot be written, the run ends with `Error: …` on stderr and exit status 1. -/
theorem C09_write_error_is_diagnosed (sc : Scenario) (e : Ending)
    (hwant : ∀ a w, (e = .finished a w ∨ ∃ st r, e = .raised a w st r) → wantsFile a w = true)
    (hmodel : e ≠ .info) (hne : ∀ a w, e ≠ .exported a w)
    (hh : ∀ a w st r, e = .raised a w st r → st.handlerAvailable = true)
    (hnf : ∀ a w st, e ≠ .raised a w st .foreign)
    (hflush : sc.out.canFlush = false) :
    conclude sc e = .stderrExit 1 := by
  have ho : sc.out.writable = false := by simp [OutPath.writable, hflush]
  cases e with
  | info => exact absurd rfl hmodel
  | exported a w => exact absurd rfl (hne a w)
  | raised a w st r =>
    have hw := hwant a w (Or.inr ⟨st, r, rfl⟩)
    have hha := hh a w st r rfl
    have hr : r ≠ .foreign := fun h => hnf a w st (by rw [h])
    have hi := handler_imp_insideRun st hha
    rw [conclude_raised sc a w st r hr]
    simp [hi, hha, hw, ho]
  | finished a w =>
    have hw := hwant a w (Or.inl rfl)
    rw [conclude_finished]
    simp [hw, ho]

/-- **stderr only if no file can be written, and then with a non-zero status** — except for an
`mp::Error` escaping from the constructor stage whose code is a multiple of 256 (`ctorcode`). -/
theorem C09_stderr_partial (sc : Scenario) (e : Ending) (status : Nat)
    (h : conclude sc e = .stderrExit status)
    (hctor : ∀ a w r c, e = .raised a w .ctor r → r.toExn = .mpError c → c % 256 ≠ 0) :
    cannotWrite sc e = true ∧ status ≠ 0 ∧ status < 256 := by
  cases e with
  | info => simp [conclude] at h
  | exported a w => simp [conclude] at h
  | raised a w st r =>
    by_cases hr : r = .foreign
    · rw [hr, conclude_foreign] at h; simp at h
    · rw [conclude_raised sc a w st r hr] at h
      cases hi : st.insideRun
      · have hst := (insideRun_false_iff st).1 hi
        subst hst
        rw [hi] at h
        cases hx : r.toExn with
        | mpError c =>
          rw [hx] at h
          simp at h
          subst h
          exact ⟨by simp [cannotWrite, Stage.handlerAvailable], exitStatus_ne_zero c (hctor a w r c rfl hx), exitStatus_lt c⟩
        | stdExn => rw [hx] at h; simp at h; subst h; simp [cannotWrite, Stage.handlerAvailable]
        | foreign => rw [hx] at h; simp at h; subst h; simp [cannotWrite, Stage.handlerAvailable]
      · cases hh : st.handlerAvailable <;> cases hw : wantsFile a w <;> cases ho : sc.out.writable <;>
          simp [hi, hh, hw, ho] at h <;> subst h <;> simp [cannotWrite, hh, ho]
  | finished a w =>
    rw [conclude_finished] at h
    cases hw : wantsFile a w <;> cases ho : sc.out.writable <;> simp [hw, ho] at h
    subst h
    simp [cannotWrite, ho]

/-- **`ctorcode`, exactly**: an `mp::Error` from the constructor stage exits with `code mod 256`. -/
theorem C09_ctorcode_general (sc : Scenario) (a : Bool) (w : Nat) (r : Raise) (c : Int)
    (hx : r.toExn = .mpError c) :
    conclude sc (.raised a w .ctor r) = .stderrExit (c % 256).toNat := by
  simp [conclude, fail, Stage.insideRun, hx, exitStatus, rbaOutcome]

/-- **No crash** unless the exception is not a `std::exception` (`foreign`, exactly). -/
theorem C09_crash_iff_foreign (sc : Scenario) (e : Ending) :
    conclude sc e = .crash ↔ ∃ a w st, e = .raised a w st .foreign := by
  constructor
  · intro h
    cases e with
    | info => simp [conclude] at h
    | exported a w => simp [conclude] at h
    | raised a w st r =>
      by_cases hr : r = .foreign
      · exact ⟨a, w, st, by rw [hr]⟩
      · exfalso
        rw [conclude_raised sc a w st r hr] at h
        cases hi : st.insideRun
        · rw [hi] at h; cases hx : r.toExn <;> rw [hx] at h <;> simp at h
        · cases hh : st.handlerAvailable <;> cases hw : wantsFile a w <;> cases ho : sc.out.writable <;>
            simp [hi, hh, hw, ho] at h
    | finished a w =>
      exfalso
      rw [conclude_finished] at h
      cases hw : wantsFile a w <;> cases ho : sc.out.writable <;> simp [hw, ho] at h
  · rintro ⟨a, w, st, rfl⟩
    exact conclude_foreign sc a w st

/-- **`standalone`, exactly**: the result goes to stdout only iff a model run (not `info`) ends,
without a foreign exception, at a point where a handler exists and no file is wanted. -/
theorem C09_stdout_only_iff (sc : Scenario) (e : Ending) :
    (∃ c s, conclude sc e = .stdoutOnly c s) ↔
      (∃ a w, wantsFile a w = false ∧
        (e = .finished a w ∨ ∃ st r, e = .raised a w st r ∧ st.handlerAvailable = true ∧ r ≠ .foreign)) := by
  constructor
  · rintro ⟨c, s, h⟩
    cases e with
    | info => simp [conclude] at h
    | exported a w => simp [conclude] at h
    | raised a w st r =>
      refine ⟨a, w, ?_⟩
      by_cases hr : r = .foreign
      · rw [hr, conclude_foreign] at h; simp at h
      · rw [conclude_raised sc a w st r hr] at h
        cases hi : st.insideRun
        · rw [hi] at h; cases hx : r.toExn <;> rw [hx] at h <;> simp at h
        · cases hh : st.handlerAvailable <;> cases hw : wantsFile a w <;> cases ho : sc.out.writable <;>
            simp [hi, hh, hw, ho] at h
          all_goals exact ⟨rfl, Or.inr ⟨st, r, rfl, hh, hr⟩⟩
    | finished a w =>
      refine ⟨a, w, ?_⟩
      rw [conclude_finished] at h
      cases hw : wantsFile a w <;> cases ho : sc.out.writable <;> simp [hw, ho] at h
      all_goals exact ⟨rfl, Or.inl rfl⟩
  · rintro ⟨a, w, hw, rfl | ⟨st, r, rfl, hh, hr⟩⟩
    · rw [conclude_finished]; simp [hw]
    · have hi := handler_imp_insideRun st hh
      rw [conclude_raised sc a w st r hr]; simp [hi, hh, hw]

/-- **A file whenever one is wanted and can be written**: in `-AMPL` mode (or with `wantsol&1`),
if the header has been read and the path opens, the run ends with a `.sol` and exit 0 —
whatever happens. -/
theorem C09_file_whenever_possible (sc : Scenario) (e : Ending)
    (hwant : ∀ a w, (e = .finished a w ∨ ∃ st r, e = .raised a w st r) → wantsFile a w = true)
    (hmodel : e ≠ .info) (hne : ∀ a w, e ≠ .exported a w) (hcan : cannotWrite sc e = false)
    (hnf : ∀ a w st, e ≠ .raised a w st .foreign) :
    ∃ f ech, conclude sc e = .sol f ech := by
  cases e with
  | info => exact absurd rfl hmodel
  | exported a w => exact absurd rfl (hne a w)
  | raised a w st r =>
    have hw := hwant a w (Or.inr ⟨st, r, rfl⟩)
    simp only [cannotWrite, Bool.or_eq_false_iff, Bool.not_eq_false'] at hcan
    have hr : r ≠ .foreign := fun h => hnf a w st (by rw [h])
    have hi := handler_imp_insideRun st hcan.1
    rw [conclude_raised sc a w st r hr]
    simp [hi, hcan.1, hw, hcan.2]
  | finished a w =>
    have hw := hwant a w (Or.inl rfl)
    simp only [cannotWrite, Bool.not_eq_false'] at hcan
    rw [conclude_finished]
    simp [hw, hcan]

/-! ## The property, for every scenario outside the deviation classes -/

/-- **C09 (partial).** Every run that ends outside the deviation classes ends in one of the two
allowed outcomes: a complete `.sol` with the header's dimensions and a code of the cause's class,
or — only when no file can be written — `Error: …` on stderr with a non-zero exit status. -/
theorem C09_outcome_partial_end (sc : Scenario) (e : Ending) (hreg : Regular sc e) :
    GoodEnd sc e (conclude sc e) := by
  cases e with
  | info => simp [GoodEnd, Ending.cause, conclude]
  | exported a w => simp [Regular] at hreg
  | finished a w =>
    simp only [Regular] at hreg
    rw [conclude_finished]
    cases hw : wantsFile a w
    · -- default stand-alone run: the result is shown on stdout
      have hs : suppressMsg w = false := by rcases hreg with h | h; · simp [hw] at h
                                            · exact h
      cases ho : sc.out.writable <;> simp [GoodEnd, Ending.cause, hs]
    · cases ho : sc.out.writable
      · simp [GoodEnd, Ending.cause, ho, cannotWrite, hw]
      · cases hd : sc.answer.haveDual <;> cases hp : sc.answer.havePrimal <;>
          simp [GoodEnd, Ending.cause, ho, codeOK, okFile, hd, hp]
  | raised a w st r =>
    obtain ⟨hnf, hopt, hpop, hwant, hctor⟩ := hreg
    rw [conclude_raised sc a w st r hnf]
    cases hi : st.insideRun
    · -- constructor stage: RunBackendApp's catch clauses
      have hst := (insideRun_false_iff st).1 hi
      subst hst
      cases hx : r.toExn with
      | mpError c =>
        have := exitStatus_ne_zero c (hctor rfl c hx)
        simp [GoodEnd, Ending.cause, cannotWrite, Stage.handlerAvailable, this]
      | stdExn => simp [GoodEnd, Ending.cause, cannotWrite, Stage.handlerAvailable]
      | foreign => simp [GoodEnd, Ending.cause, cannotWrite, Stage.handlerAvailable]
    · cases hh : st.handlerAvailable
      · simp [GoodEnd, Ending.cause, cannotWrite, hh]
      · have hw := hwant hh
        cases ho : sc.out.writable
        · simp [GoodEnd, Ending.cause, cannotWrite, hh, hw, ho]
        · have hdn : errDims sc st = sc.dims := by
            by_cases hso : st = .options
            · subst hso; rw [hopt rfl]; simp [errDims, Stage.dimsKnown]
            · by_cases hsp : st = .populate
              · subst hsp; rw [← hpop rfl]; simp [errDims, Stage.dimsKnown]
              · simp [errDims, dimsKnown_of_handler_ne_options st hh hso hsp]
          have hcls : codeOK sc.answer r.cause r.toExn.reportCode := by
            rw [reportCode_of_raise]
            cases r <;> simp [Raise.cause, codeOK] at hnf ⊢
            rename_i c
            by_cases hc : 100 ≤ c <;> simp [hc, codeOK]
          simp [GoodEnd, Ending.cause, hh, hw, ho, errFile, hdn, hcls]

/-- **C09 (partial), stated on scenarios.** -/
theorem C09_outcome_partial (sc : Scenario) (hreg : Regular sc (ending sc)) : Good sc (run sc) :=
  C09_outcome_partial_end sc (ending sc) hreg

/-- `C09_dims` for whole runs: a written `.sol` has the header's dimensions unless the run ended
in the option window. -/
theorem C09_dims_run_partial (sc : Scenario) (f : SolFile) (ech : Bool) (h : run sc = .sol f ech)
    (hwin : ∀ a w r, ending sc ≠ .raised a w .options r)
    (hpop : ∀ a w r, ending sc ≠ .raised a w .populate r) :
    f.ncons = sc.dims.ncons ∧ f.nvars = sc.dims.nvars :=
  let t := C09_dims_partial sc (ending sc) f ech h hwin hpop
  ⟨t.1, t.2.1⟩

/-- The happy path at full strength: no fault, clean flags and options, a stub, `-AMPL`, a
usable output path ⟹ a complete `.sol` with exactly the solver's code and the header's
dimensions. -/
theorem C09_success (sc : Scenario)
    (hfault : sc.fault = none) (hflags : sc.flags.all Flag.passes = true) (hstub : sc.hasStub = true)
    (hopts : (expandOpts sc.opts).all Opt.clean = true) (hobj : sc.objnoTooBig = false)
    (hexp : sc.justExport = false) (hampl : sc.ampl = true) (hopen : sc.out.canOpen = true) (hflush : sc.out.canFlush = true) :
    run sc = .sol { code := sc.answer.code, ncons := sc.dims.ncons,
                    nduals := if sc.answer.haveDual then sc.dims.ncons else 0,
                    nvars := sc.dims.nvars,
                    nprimals := if sc.answer.havePrimal then sc.dims.nvars else 0,
                    complete := true } false := by
  simp [run, ending, faultBefore, hfault, parseFlags_passing _ _ hflags, hstub, hampl,
    parseOpts_clean _ _ hopts, hobj, hexp, conclude, writeOrRetry, handleSolution, handleSolutionW, writerChecksClose, wantsFile, OutPath.writable, hopen, hflush]

/-- An offending option token (anywhere in an otherwise clean prefix) ends every run that got as
far as the header in the option window — with the `wantsol` stored so far. -/
theorem C09_bad_option_ending (sc : Scenario) (pre : List Opt) (x : Opt) (post : List Opt)
    (hfault : sc.fault = none) (hflags : sc.flags.all Flag.passes = true) (hstub : sc.hasStub = true)
    (hopts : expandOpts sc.opts = pre ++ x :: post) (hpre : pre.all Opt.clean = true) (hx : x.clean = false) :
    ending sc = .raised sc.ampl
      (lastWantsol pre (if sc.ampl then 1 else flagsWantsol sc.flags 0)) .options x.raise := by
  simp [ending, faultBefore, hfault, parseFlags_passing _ _ hflags, hstub, hopts,
    parseOpts_split pre x post _ hpre hx]

/-- Exceptions while reporting suffixes are swallowed (`StdBackend::ReportSuffixes`): the run ends
as if there had been none. -/
theorem C09_suffix_exceptions_swallowed (sc : Scenario) (r : Raise) (hr : r ≠ .foreign) :
    run { sc with fault := some (.suffixes, r) } = run { sc with fault := none } := by
  simp only [run, ending, faultBefore, Stage.idx]
  simp [hr]
  rfl

/-! ## Translator ties: the model's decision functions equal the definitions generated from the source

`MpVerif.Gen.C09` (file `Gen/C09Driver.lean`) is regenerated on every check run by
`translators/gen_c09.py` from clang's typed AST of the current tree.  The theorems below state that the
hand model's pieces are *equal* to the generated ones, so every theorem of this file speaks about what
the source says now; a change of the C++ in one of these places changes the generated definition and the
corresponding `C09_gen_*` proof stops checking. -/

/-- **Exit codes.** What the catch clauses see for each way of raising = `exit_code()` of the thrown object
as determined from `mp::Error`'s constructors, the derived classes' base initialisers and clang's overload
resolution for `MP_RAISE`, `MP_RAISE_WITH_CODE`, `MP_INFEAS`, `MP_UNSUPPORTED`, `OptionError(m)`,
`ReadError(…)`, `Error("fmt", s)`. -/
theorem C09_gen_exit_codes (r : Raise) :
    r.toExn = match r with
      | .plain => .mpError Gen.C09.exitCode_plain
      | .withCode c => .mpError (Gen.C09.exitCode_withCode c)
      | .infeas => .mpError Gen.C09.exitCode_infeas
      | .wrappedInfeas => .mpError Gen.C09.exitCode_infeas
      | .solCheck => .mpError Gen.C09.MP_SOLUTION_CHECK
      | .unsupported => .mpError Gen.C09.exitCode_unsupported
      | .optionError => .mpError Gen.C09.exitCode_optionError
      | .readError => .mpError Gen.C09.exitCode_readError
      | .fmtError => .mpError Gen.C09.exitCode_fmtError
      | .systemError => .stdExn
      | .stdExn => .stdExn
      | .foreign => .foreign := by
  cases r <;> rfl

/-- `BinaryReadError` (binary NL) is built like `MP_RAISE`: it is the `.plain` row of the table; both ways
the library constructs a `ReadError` (with an `ArgList`: reader errors; with a plain message: names files)
give the `.readError` row;
`EXIT_FAILURE` is the in-class initialiser. -/
theorem C09_gen_exit_code_facts :
    Gen.C09.exitCode_binaryReadError = Gen.C09.exitCode_plain ∧
    Gen.C09.exitCode_readErrorMsg = Gen.C09.exitCode_readError ∧
    Gen.C09.errorInClassExitCode = EXIT_FAILURE ∧ Gen.C09.EXIT_FAILURE = EXIT_FAILURE ∧
    Gen.C09.errorCtors = [("void ()", "in-class"), ("void (fmt::CStringRef, const Args &...)", "in-class"),
                          ("void (fmt::CStringRef, int)", "param 2")] := by decide

/-- **`BackendApp::Run`'s catch ladder**: `mp::Error` first, then `std::exception` (the order matters: `Error`
derives from it), nothing else; the try block is `Init; RunFromNLFile`; after a handler `Run` returns 0.
The solve code each handler passes to `ReportError` is the model's `Exn.reportCode`. -/
theorem C09_gen_run_ladder (c : Int) :
    Gen.C09.runHandlers = ["mp::Error", "std::exception"] ∧
    Gen.C09.runTryCalls = ["Init", "RunFromNLFile"] ∧ Gen.C09.runReturn = 0 ∧
    Exn.reportCode (.mpError c) = Gen.C09.runReportCode_mpError c ∧
    Exn.reportCode .stdExn = Gen.C09.runReportCode_stdException ∧
    solFAILURE = Gen.C09.FAILURE := by
  refine ⟨by decide, by decide, by decide, ?_, by decide, by decide⟩
  simp only [Exn.reportCode, Gen.C09.runReportCode_mpError, Gen.C09.UNCERTAIN, Gen.C09.FAILURE, solFAILURE]
  by_cases h : c ≥ 100 <;> simp [h]

/-- **`RunBackendApp`'s catch ladder**: an exception from the constructor stage ends as the generated
handlers say (`return e.exit_code()` / `return EXIT_FAILURE`), anything else has no handler. -/
theorem C09_gen_rba_ladder (sc : Scenario) (a : Bool) (w : Nat) (r : Raise) :
    Gen.C09.rbaHandlers = ["mp::Error", "std::exception"] ∧
    conclude sc (.raised a w .ctor r) =
      match r.toExn with
      | .mpError c => .stderrExit (exitStatus (Gen.C09.rbaReturn_mpError c))
      | .stdExn => .stderrExit Gen.C09.rbaReturn_stdException.toNat
      | .foreign => .crash := by
  refine ⟨by decide, ?_⟩
  cases hx : r.toExn <;> simp [conclude, fail, Stage.insideRun, hx, rbaOutcome, Gen.C09.rbaReturn_mpError, Gen.C09.rbaReturn_stdException]

/-- **wantsol bit tests** of `AppSolutionHandlerImpl::HandleSolution`: when the `.sol` is written, and
when the message is echoed on stdout. -/
theorem C09_gen_handle_solution_guards (ampl : Bool) (w : Nat) :
    wantsFile ampl w = Gen.C09.hsWritesFile ampl w ∧
    (!ampl && !suppressMsg w) = (!Gen.C09.hsReturnsEarly ampl w && Gen.C09.hsPrintsMessage ampl w) := by
  constructor
  · rfl
  · simp only [suppressMsg, Gen.C09.hsReturnsEarly, Gen.C09.hsPrintsMessage, Gen.C09.SUPPRESS_SOLVER_MSG]
    cases ampl <;> cases h : (w &&& 8) == 0 <;> simp_all [bne]

/-- **Code classes**: the bounds used by the property predicate are the enumerators of `mp::sol`; the
threshold below which `Run` replaces a code is `sol::UNCERTAIN`. -/
theorem C09_gen_code_classes (a : Answer) (c : Int) :
    (codeOK a .infeasible c ↔ Gen.C09.INFEASIBLE ≤ c ∧ c ≤ Gen.C09.INFEASIBLE_LAST) ∧
    (codeOK a .failure c ↔ Gen.C09.FAILURE ≤ c ∧ c ≤ Gen.C09.FAILURE_LAST) ∧
    (Raise.withCode c).cause = (if c ≥ Gen.C09.UNCERTAIN then .asRaised c else .failure) ∧
    Raise.solCheck.cause = .asRaised Gen.C09.MP_SOLUTION_CHECK ∧
    Gen.C09.SOLVED_LAST < Gen.C09.UNCERTAIN := by
  simp [codeOK, Raise.cause, Gen.C09.INFEASIBLE, Gen.C09.INFEASIBLE_LAST, Gen.C09.FAILURE, Gen.C09.FAILURE_LAST,
    Gen.C09.UNCERTAIN, Gen.C09.MP_SOLUTION_CHECK, Gen.C09.SOLVED_LAST]

/-- **Structure** the model's stages rest on:
* the after-header lambda of `ReadNLModel` creates the solution handler *before* it calls the option
  parser (`Stage.options.handlerAvailable`), and `ReadNLModel` then reads names and converts;
* `SolverNLHandlerImpl::OnHeader` parses the options and checks `objno` (throwing) *before*
  `NLProblemBuilder::OnHeader` populates the problem (`Stage.options.dimsKnown = false`);
* `RunFromNLFile`'s sequence (`extras` before `solve` before `report`; export in `extras`);
* `WriteSolFile` prints the four count lines as constraints, duals, variables, primals. -/
theorem C09_gen_structure :
    Gen.C09.readNLModelAfterHeader = ["MakeProperSolutionHandler", "if(after_header):after_header"] ∧
    Gen.C09.readNLModelCalls = ["ReadNLFile", "ReadNames", "ConvertModelAndUpdateBackend"] ∧
    Gen.C09.onHeaderCalls = ["notify_start_opts", "operator()", "notify_end_opts", "OnHeader"] ∧
    Gen.C09.onHeaderThrowBeforeBase = true ∧
    Gen.C09.runFromNLFileCalls = ["ReadNL", "InputExtras", "SetupTimerAndInterrupter", "ExportModel", "Solve",
                                   "RecordSolveTime", "Report"] ∧
    Gen.C09.solCountLines = ["num_algebraic_cons", "num_dual_values", "num_vars", "num_values"] ∧
    Stage.options.handlerAvailable = true ∧ Stage.options.dimsKnown = false ∧
    Stage.header.handlerAvailable = false ∧ Stage.populate.dimsKnown = false ∧ Stage.body.dimsKnown = true := by
  decide

/-- **The stage sequence, read off the function bodies** (round 6; a *tripwire with structure*, not a proof about
C++).  The generated skeletons list every call / construction / condition / throw / return of `RunBackendApp`,
`BackendApp::Run`, `Init`, `RunFromNLFile`, `ReadNL`, `ReadNLModel`, `ReadNLFile`, `OnHeader` and the two
after-header lambdas, unfiltered.  Reading each token with the hand-written table `itemOf` and inlining the
translated bodies gives exactly `pipeline`, and no token is unknown.  A **new call** in any of these bodies, a
changed branch condition, a new `throw`, or a reordering that moves a step fails this theorem (the translator
has no list of names it looks for).  The meaning given to each known token, the data flow of the lambdas and the
resolution of virtual calls are by hand. -/
theorem C09_gen_pipeline :
    expand Gen.C09.skeletonTable 400 "skRunBackendApp" = some pipeline ∧
    firstUnknown Gen.C09.skeletonTable = none := by decide

/-- The writer of the current tree ends with `file.close()` on the `fmt::BufferedFile` the data went to
(generated from `WriteSolFile`'s last statement). -/
theorem C09_gen_writer_closes_file : writerChecksClose = Gen.C09.solWriterClosesFile := by decide

/-- **Completeness is a consequence of the writer, not a literal.**  `complete` of a written file is computed by
`handleSolutionW`: it is `out.canFlush`.  A `.sol` outcome with an incomplete file is *representable* — it is
exactly what a writer that does not check the stream produces on a path that cannot be flushed — and it is
excluded for every path **iff** the writer checks. -/
theorem C09_writer_complete_iff_checked (checks : Bool) :
    (∀ a w out f g shown, handleSolutionW checks a w out f = some (.sol g shown) → g.complete = true) ↔ checks = true := by
  constructor
  · intro h
    cases checks with
    | true => rfl
    | false =>
      have := h true 0 ⟨true, false⟩ ⟨0, 0, 0, 0, 0, true⟩ _ _ rfl
      simp at this
  · intro hc a w out f g shown h
    subst hc
    unfold handleSolutionW at h
    cases hw : wantsFile a w <;> cases hco : out.canOpen <;> cases hcf : out.canFlush <;> simp [hw, hco, hcf] at h
    rw [← h.1]

/-! ## Round 7: two more pieces tied to the source -/

/-- **Which exceptions the three catch ladders take** (generated handler types, in source order; C++ matching rule
`handlerCatches`).  `BackendApp::Run`, `RunBackendApp` and `StdBackend::ReportSuffixes` take every `std::exception`
and nothing else: an exception leaves them iff it is foreign — the condition the model uses (`reportError`,
`rbaOutcome`, the `suffixes` arm of `step`).  `mp::Error` objects take the first clause of the two outer ladders.
`ReportSuffixes` has exactly the two reporting calls in its try block and no handler rethrows (the translator refuses
otherwise). -/
theorem C09_gen_ladders_catch (x : Exn) :
    (caughtBy Gen.C09.runHandlers x = none ↔ x = .foreign) ∧
    (caughtBy Gen.C09.rbaHandlers x = none ↔ x = .foreign) ∧
    (caughtBy Gen.C09.suffixesHandlers x = none ↔ x = .foreign) ∧
    (∀ c, caughtBy Gen.C09.runHandlers (.mpError c) = some "mp::Error" ∧ caughtBy Gen.C09.rbaHandlers (.mpError c) = some "mp::Error") ∧
    caughtBy Gen.C09.runHandlers .stdExn = some "std::exception" ∧ caughtBy Gen.C09.rbaHandlers .stdExn = some "std::exception" ∧
    Gen.C09.suffixesTryCalls = ["ReportStandardSuffixes", "ReportCustomSuffixes"] := by
  have e : ∀ c, handlerCatches "mp::Error" (.mpError c) = true := fun _ => rfl
  refine ⟨?_, ?_, ?_, fun c => ?_, by decide, by decide, by decide⟩
  case refine_4 => simp [caughtBy, Gen.C09.runHandlers, Gen.C09.rbaHandlers, List.find?, e]
  all_goals cases x <;> simp [caughtBy, Gen.C09.runHandlers, Gen.C09.rbaHandlers, Gen.C09.suffixesHandlers, List.find?, handlerCatches]

/-- The `suffixes` arm of the pipeline, stated through the generated ladder: an exception raised while suffixes are
reported is swallowed (the run goes on in the same state) exactly when `ReportSuffixes`' ladder takes it; otherwise the
run ends as `onRaise` says. -/
theorem C09_suffix_step_follows_ladder (sc : Scenario) (bs : Behaviours) (st : PState) (r : Raise)
    (h : look bs .suffixes = some (.raises r)) :
    step sc bs (.env .suffixes) st =
      (if (caughtBy Gen.C09.suffixesHandlers r.toExn).isSome then .next st else .done (onRaise sc st r)) := by
  have hc := (C09_gen_ladders_catch r.toExn).2.2.1
  by_cases hf : r = .foreign
  · subst hf
    simp [step, h, duringStage, Raise.toExn, caughtBy, Gen.C09.suffixesHandlers, handlerCatches]
  · have : caughtBy Gen.C09.suffixesHandlers r.toExn ≠ none := fun hn => hf ((toExn_foreign_iff r).1 (hc.1 hn))
    cases hcb : caughtBy Gen.C09.suffixesHandlers r.toExn with
    | none => exact absurd hcb this
    | some t => simp [step, h, hf]

/-- **`fmt::BufferedFile::close()`** (generated from src/posix.cc statement by statement, `fclose`'s return value a
parameter), for every state and every return value:
* afterwards the object owns no stream (also when it throws) — so the destructor that runs next does not call `fclose`
  a second time on the same stream;
* it throws iff it owned a stream and `fclose` failed (returned non-zero: buffered data could not be written);
* it calls `fclose` exactly once if it owned a stream, never otherwise, and never on a dead stream if the stream it
  owned was live. -/
theorem C09_gen_buffered_file_close (s : Gen.C09.FileState) (res res' : Int) :
    (Gen.C09.bufferedFileClose s res).fileSet = false ∧
    (Gen.C09.bufferedFileClose s res).threw = (s.threw || (s.fileSet && res != 0)) ∧
    (Gen.C09.bufferedFileClose s res).fcloses = s.fcloses + (if s.fileSet then 1 else 0) ∧
    ((s.fileSet = true → s.live = true) → (Gen.C09.bufferedFileClose s res).doubleClose = s.doubleClose) ∧
    -- close, then the destructor: nothing more happens
    Gen.C09.bufferedFileDtor (Gen.C09.bufferedFileClose s res) res' = Gen.C09.bufferedFileClose s res := by
  cases hs : s.fileSet <;> by_cases hr : res = 0 <;>
    simp [Gen.C09.bufferedFileClose, Gen.C09.bufferedFileDtor, Gen.C09.fcloseCall, hs, hr]
  all_goals (intro hl; simp [hl])

/-- **The destructor alone never throws** (it only reports): a writer that lets the `BufferedFile` go out of scope
without `close()` — the code before 87b3b50 — returns normally whatever `fclose` says.  And the writer of the current
tree checks: its last statement is `file.close()` (generated) and `close()` on an open file throws when `fclose` fails. -/
theorem C09_gen_writer_checks_close :
    (∀ s res, (Gen.C09.bufferedFileDtor s res).threw = s.threw) ∧
    (∀ res, (Gen.C09.bufferedFileClose ⟨true, true, 0, false, false, false⟩ res).threw = (res != 0)) ∧
    writerChecksClose = (Gen.C09.solWriterClosesFile &&
      (Gen.C09.bufferedFileClose ⟨true, true, 0, false, false, false⟩ 1).threw) := by
  refine ⟨?_, ?_, by decide⟩
  · intro s res
    cases hs : s.fileSet <;> by_cases hr : res = 0 <;>
      simp [Gen.C09.bufferedFileDtor, Gen.C09.fcloseCall, hs, hr]
  · intro res
    by_cases hr : res = 0 <;> simp [Gen.C09.bufferedFileClose, Gen.C09.fcloseCall, hr]

/-! ## Round 8: `SolverAppOptionParser::Parse` tied -/

/-- What the model's `.flags` step assumes `Parse` does after `ParseOptions`, as a function of the same arguments as
the generated `solverAppParse`: a flag other than `--` that ends option processing ends the run (null is returned);
no stub: usage, null; otherwise the stub is returned and an immediately following `-AMPL` sets the flag and
`wantsol = 1` (and is consumed). -/
def appParseSpec (argv : List String) (optIn consumed : Nat) (s : Gen.C09.AppParse) : Option String × Gen.C09.AppParse :=
  let j := s.i + 1 + consumed
  if optIn ≠ 0 ∧ optIn ≠ 45 then (none, { s with i := j })
  else match argv[j]? with
    | none => (none, { s with i := j, usage := true })
    | some stub =>
      if argv[j + 1]? = some "-AMPL" then (some stub, { s with i := j + 1 + 1, ampl := true, wantsol := 1 })
      else (some stub, { s with i := j + 1 })

/-- **`SolverAppOptionParser::Parse`** (generated from src/solver.cc statement by statement) equals the specification
for every command line, every return value / advance of `ParseOptions` and every state. -/
theorem C09_gen_app_parse (argv : List String) (optIn consumed : Nat) (s : Gen.C09.AppParse) :
    Gen.C09.solverAppParse argv optIn consumed s = appParseSpec argv optIn consumed s := by
  unfold Gen.C09.solverAppParse appParseSpec
  by_cases h0 : optIn = 0
  · subst h0
    cases h1 : argv[s.i + 1 + consumed]? with
    | none => simp [h1]
    | some stub =>
      by_cases h2 : argv[s.i + 1 + consumed + 1]? = some "-AMPL" <;> simp [h1, h2]
  · by_cases h45 : optIn = 45
    · subst h45
      cases h1 : argv[s.i + 1 + consumed]? with
      | none => simp [h1]
      | some stub =>
        by_cases h2 : argv[s.i + 1 + consumed + 1]? = some "-AMPL" <;> simp [h1, h2]
    · simp [h0, h45]

/-- **The `.flags` step of the pipeline is `Parse`**: for any command line that realises the scenario (after the
`consumed` flag arguments comes the stub iff `hasStub`, and `-AMPL` right after it iff `ampl`), with `ParseOptions`
having processed all flags (`0`) or met `--` (`45`) and left `wantsol = w0`: the step ends the run with `info` iff the
generated `Parse` returns null, and otherwise continues with exactly the `-AMPL` flag and `wantsol` that `Parse` set.
(`parseFlags`, the loop of `ParseOptions` over the flag arguments, stays hand-written and sampled.) -/
theorem C09_flags_step_follows_parse (sc : Scenario) (bs : Behaviours) (st : PState) (w0 : Nat)
    (argv : List String) (optIn consumed : Nat)
    (hp : parseFlags sc.flags 0 = .proceed w0) (hopt : optIn = 0 ∨ optIn = 45)
    (hstub : (argv[1 + consumed]?).isSome = sc.hasStub)
    (hampl : (argv[1 + consumed + 1]? = some "-AMPL") ↔ sc.ampl = true) :
    step sc bs .flags st =
      match Gen.C09.solverAppParse argv optIn consumed ⟨0, false, w0, false⟩ with
      | (none, _) => .done .info
      | (some _, s') => .next { st with ampl := s'.ampl, wantsol := s'.wantsol } := by
  rw [C09_gen_app_parse]
  have hopt' : ¬ (optIn ≠ 0 ∧ optIn ≠ 45) := by
    rcases hopt with h | h <;> simp [h]
  simp only [step, hp, appParseSpec, hopt', if_false, Nat.zero_add]
  cases h1 : argv[1 + consumed]? with
  | none =>
    have : sc.hasStub = false := by rw [← hstub, h1]; rfl
    simp [this]
  | some stub =>
    have hs : sc.hasStub = true := by rw [← hstub, h1]; rfl
    by_cases ha : sc.ampl = true
    · have := hampl.2 ha
      simp [hs, ha, this]
    · have hn : ¬ (argv[1 + consumed + 1]? = some "-AMPL") := fun h => ha (hampl.1 h)
      have ha' : sc.ampl = false := by cases h : sc.ampl <;> simp_all
      simp [hs, ha', hn]

/-- a flag that ends option processing (`-v`, `-?`, `-=`…: `ParseOptions` returns its letter): `Parse` returns null
whatever follows — the `.stop` arm of `parseFlags` / the `info` outcome -/
theorem C09_app_parse_stop (argv : List String) (optIn consumed : Nat) (s : Gen.C09.AppParse)
    (h0 : optIn ≠ 0) (h45 : optIn ≠ 45) :
    (Gen.C09.solverAppParse argv optIn consumed s).1 = none ∧ (Gen.C09.solverAppParse argv optIn consumed s).2.usage = s.usage := by
  rw [C09_gen_app_parse]; simp [appParseSpec, h0, h45]

/-! ## Round 5: the driver as a pipeline — the ending is computed, not given

`runP sc bs` (`Pipeline.lean`) folds the driver's real stage sequence over a state (inside `Run`? handler
created? what is populated? `wantsol` so far), the environment `bs` saying per abstract stage whether it
completes or raises.  The theorems below hold for **every** scenario and **every** behaviour list. -/

/-- **The table is the fold.**  What the pipeline leaves behind is what the decision table says for the first
stage, in execution order, at which the environment raises — so every theorem about `run`/`conclude` in this
file is a theorem about the pipeline, for all behaviour lists. -/
theorem C09_pipeline_is_table (sc : Scenario) (bs : Behaviours) (hex : bs.exceptionsOnly = true) :
    runP sc bs = run (sc.withFaults bs) :=
  runP_eq_run sc bs hex

/-- What the environment would do at stages after the first raise (or at stages never reached) is irrelevant. -/
theorem C09_pipeline_first_raise_decides (sc : Scenario) (bs bs' : Behaviours) (h : firstBeh bs = firstBeh bs') :
    runP sc bs = runP sc bs' := by
  rw [runP_first sc bs, runP_first sc bs', h]

/-- **The property on the pipeline (partial).** -/
theorem C09_pipeline_outcome_partial (sc : Scenario) (bs : Behaviours) (hex : bs.exceptionsOnly = true)
    (hreg : Regular (sc.withFaults bs) (ending (sc.withFaults bs))) :
    Good (sc.withFaults bs) (runP sc bs) := by
  rw [C09_pipeline_is_table _ _ hex]; exact C09_outcome_partial _ hreg

/-- **Abort / hang are representable, and where they lead** (round 6).  If the first thing the environment does
is to kill the process (SIGSEGV, sanitizer abort, OOM kill) or not to return at stage `s`, the run ends in
`crash` / `hang` exactly when that stage is reached — the same condition under which a foreign exception at `s`
would terminate the process — and otherwise it ends as if the environment had done nothing.  No theorem of this
file excludes these behaviours: whether the real stages abort or hang on a given NL file is **observed**
(sanitizer build, timeout), it is a hypothesis (`exceptionsOnly`) wherever the property is stated. -/
theorem C09_pipeline_abort_hang (sc : Scenario) (bs : Behaviours) (s : Stage) (b : Beh)
    (h : firstBeh bs = some (s, b)) :
    (b = .aborts → (runP sc bs = .crash ∨ runP sc bs = runP sc [])) ∧
    (b = .hangs → (runP sc bs = .hang ∨ runP sc bs = runP sc [])) ∧
    (b = .aborts → runP sc bs = runP sc [(s, .raises .foreign)]) := by
  rw [runP_first sc bs, h]
  simp only [Option.toList]
  rcases runP_abort_or_unreached sc s with ⟨h1, h2⟩ | ⟨h1, h2⟩
  · exact ⟨fun hb => by subst hb; exact Or.inl h1, fun hb => by subst hb; exact Or.inl h2,
           fun hb => by subst hb; exact runP_abort_as_foreign sc s⟩
  · exact ⟨fun hb => by subst hb; exact Or.inr h1, fun hb => by subst hb; exact Or.inr h2,
           fun hb => by subst hb; exact runP_abort_as_foreign sc s⟩

/-- **Completeness, as an invariant of the fold** — for *any* sequence of steps (not only the driver's), any
state and any behaviours: whenever the fold ends with a `.sol` and exit status 0, the file is complete and the
path was writable.  `SolFile.complete` is *computed* by the writer model (`handleSolution`: what reaches the file
is complete iff the path can be flushed); the theorem holds because the writer ends with `file.close()`, which
throws on a failed write (`writerChecksClose`, tied to the source by `C09_gen_writer_closes_file`) — with
`writerChecksClose = false` (the code before 87b3b50) the model leaves a truncated file with exit status 0
(`C09_history_writeerr`). -/
theorem C09_fold_sol_complete (sc : Scenario) (bs : Behaviours) (ps : List Step) (st : PState) (f : SolFile) (e : Bool)
    (h : foldSteps sc bs ps st = .sol f e) : f.complete = true ∧ sc.out.writable = true := by
  induction ps generalizing st with
  | nil => simp [foldSteps] at h
  | cons p ps ih =>
    simp only [foldSteps] at h
    cases hs : step sc bs p st with
    | done o => rw [hs] at h; simp only at h; subst h; exact step_done_sol sc bs p st f e hs
    | next st' => rw [hs] at h; exact ih st' h

/-- **The driver's own logic never crashes**: for any step sequence and state, if the fold ends in `crash`, some
abstract stage either kills the process or raises something that is not a `std::exception` (no catch clause).
(This is a statement about the catch ladders; that the *stages* do not abort is observed only.) -/
theorem C09_fold_crash_needs_abort_or_foreign (sc : Scenario) (bs : Behaviours) (ps : List Step) (st : PState)
    (h : foldSteps sc bs ps st = .crash) : ∃ s, look bs s = some .aborts ∨ look bs s = some (.raises .foreign) := by
  have onR : ∀ st r, onRaise sc st r = .crash → r = .foreign := fun st r hc => onRaise_crash sc st r hc
  induction ps generalizing st with
  | nil => simp [foldSteps] at h
  | cons p ps ih =>
    simp only [foldSteps] at h
    cases hs : step sc bs p st with
    | next st' => rw [hs] at h; exact ih st' h
    | done o =>
      rw [hs] at h; simp only at h; subst h
      cases p with
      | env s =>
        simp only [step] at hs
        cases hl : look bs s with
        | none => rw [hl] at hs; simp at hs
        | some b =>
          rw [hl] at hs
          cases b with
          | aborts => exact ⟨s, Or.inl hl⟩
          | hangs => simp at hs
          | raises r =>
            simp only at hs
            split at hs
            · simp at hs
            · simp only [Ctl.done.injEq] at hs
              exact ⟨s, Or.inr (by rw [hl, onR _ _ hs])⟩
      | flags =>
        simp only [step] at hs
        split at hs
        · simp at hs
        · simp only [Ctl.done.injEq] at hs; exact absurd (onR _ _ hs) (by simp)
        · split at hs <;> simp at hs
      | parseOpts =>
        simp only [step] at hs
        split at hs
        · rename_i w r hp
          simp only [Ctl.done.injEq] at hs
          have hr := onR _ _ hs
          obtain ⟨pre, x, post, _, _, _, hx, _⟩ := parseOpts_raises _ _ _ _ hp
          subst hr
          cases x <;> simp [Opt.raise] at hx
        · simp at hs
      | objno =>
        simp only [step] at hs
        split at hs
        · simp only [Ctl.done.injEq] at hs; exact absurd (onR _ _ hs) (by simp)
        · simp at hs
      | exportOnly =>
        simp only [step] at hs
        split at hs <;> simp at hs
      | write =>
        simp only [step, Ctl.done.injEq] at hs
        exact absurd hs (writeOrRetry_not_crash _ _ _ _ _ _)
      | enterRun => simp [step] at hs
      | mkHandler => simp [step] at hs

/-- **Dimensions, exactly and without hypothesis** (audit: `C09_dims_partial` excludes the interesting endings).
Whatever ends the run, the count lines of a written `.sol` are what the problem builder holds *at that point*:
the header's dimensions once `NLProblemBuilder::OnHeader` has run, `0 0` before (option window), the partial
values if that step itself throws.  So the clause "dimensions equal those of the NL header" holds exactly for
the endings outside `optdims` / `hdrdims`, and fails for every ending inside them unless the values coincide. -/
theorem C09_dims_exact (sc : Scenario) (e : Ending) (f : SolFile) (ech : Bool)
    (h : conclude sc e = .sol f ech) :
    (f.ncons, f.nvars) = match e with
      | .raised _ _ st _ => ((errDims sc st).ncons, (errDims sc st).nvars)
      | _ => (sc.dims.ncons, sc.dims.nvars) := by
  cases e with
  | info => simp [conclude] at h
  | exported a w => simp [conclude] at h
  | raised a w st r =>
    by_cases hr : r = .foreign
    · rw [hr, conclude_foreign] at h; simp at h
    · rw [conclude_raised sc a w st r hr] at h
      cases hi : st.insideRun
      · rw [hi] at h; cases hx : r.toExn <;> rw [hx] at h <;> simp at h
      · cases hh : st.handlerAvailable <;> cases hw : wantsFile a w <;> cases ho : sc.out.writable <;>
          simp [hi, hh, hw, ho] at h
        obtain ⟨rfl, _⟩ := h
        simp [errFile]
  | finished a w =>
    rw [conclude_finished] at h
    cases hw : wantsFile a w <;> cases ho : sc.out.writable <;> simp [hw, ho] at h
    obtain ⟨rfl, _⟩ := h
    simp [okFile]

/-! ## `tech:writemodelonly` -/

/-- **`exportonly`, exactly.** With `tech:writemodelonly=<file>` a run that survives everything up to and
including the export ends without `Solve()`/`Report()`: no `.sol`, no message, exit status 0 — whatever
the mode. -/
theorem C09_exportonly_general (sc : Scenario) (a : Bool) (w : Nat) :
    conclude sc (.exported a w) = .silent ∧ ¬ GoodEnd sc (.exported a w) (conclude sc (.exported a w)) := by
  simp [conclude, GoodEnd, Ending.cause]

/-- A clean `-AMPL` run with `tech:writemodelonly` ends that way. -/
theorem C09_exportonly_run (sc : Scenario)
    (hfault : sc.fault = none) (hflags : sc.flags.all Flag.passes = true) (hstub : sc.hasStub = true)
    (hopts : (expandOpts sc.opts).all Opt.clean = true) (hobj : sc.objnoTooBig = false)
    (hexp : sc.justExport = true) : run sc = .silent := by
  simp [run, ending, faultBefore, hfault, parseFlags_passing _ _ hflags, hstub,
    parseOpts_clean _ _ hopts, hobj, hexp, conclude]

/-! ## Option files -/

/-- An option file whose tokens are all clean and which is read to the end behaves exactly like its
tokens given on the command line at that place. -/
theorem C09_optfile_spliced (pre post : List OptItem) (inner : List Opt) (w : Nat) :
    parseOpts (expandOpts (pre ++ .optfile inner false :: post)) w =
    parseOpts (expandOpts (pre ++ inner.map OptItem.tok ++ post)) w := by
  have hmap : ∀ l : List Opt, ∀ rest, expandOpts (l.map OptItem.tok ++ rest) = l ++ expandOpts rest := by
    intro l; induction l with
    | nil => intro rest; rfl
    | cons o l ih => intro rest; simp [expandOpts, ih]
  have happ : ∀ a b : List OptItem, expandOpts (a ++ b) = expandOpts a ++ expandOpts b := by
    intro a; induction a with
    | nil => intro b; rfl
    | cons x a ih => intro b; cases x <;> simp [expandOpts, ih]
  have hmap' : ∀ l : List Opt, expandOpts (l.map OptItem.tok) = l := by
    intro l; simpa [expandOpts] using hmap l []
  simp [happ, hmap', expandOpts]

/-- **Unreadable option file** (missing path, a directory, `/proc/self/mem`, I/O error): if
everything before it and the tokens that could be read are clean, the run — provided it gets as far as
the header — ends in the option window with an `MP_RAISE`-kind exception, with the `wantsol` stored so
far (including by the file's own readable tokens).  In particular it *ends*: the model has no row in
which option-file processing does not terminate. -/
theorem C09_optfile_unreadable_ending (sc : Scenario) (pre post : List OptItem) (inner : List Opt)
    (hfault : sc.fault = none) (hflags : sc.flags.all Flag.passes = true) (hstub : sc.hasStub = true)
    (hopts : sc.opts = pre ++ .optfile inner true :: post)
    (hpre : (expandOpts pre).all Opt.clean = true) (hinner : inner.all Opt.clean = true) :
    ending sc = .raised sc.ampl
      (lastWantsol (expandOpts pre ++ inner) (if sc.ampl then 1 else flagsWantsol sc.flags 0)) .options .plain := by
  have happ : ∀ a b : List OptItem, expandOpts (a ++ b) = expandOpts a ++ expandOpts b := by
    intro a; induction a with
    | nil => intro b; rfl
    | cons x a ih => intro b; cases x <;> simp [expandOpts, ih]
  have hexp : expandOpts sc.opts = (expandOpts pre ++ inner) ++ Opt.bad :: expandOpts post := by
    rw [hopts, happ]; simp [expandOpts]
  have hclean : (expandOpts pre ++ inner).all Opt.clean = true := by
    simp only [List.all_append, Bool.and_eq_true]; exact ⟨hpre, hinner⟩
  have := parseOpts_split (expandOpts pre ++ inner) .bad (expandOpts post)
    (if sc.ampl then 1 else flagsWantsol sc.flags 0) hclean rfl
  simp only [List.append_assoc] at this
  simp [ending, faultBefore, hfault, parseFlags_passing _ _ hflags, hstub, hexp, this, Opt.raise]

/-- …and with `-AMPL` and a writable path that run leaves a complete failure `.sol` (code 500), exit 0
— the outcome the seeded "spin forever on an unreadable option file" change destroys. -/
theorem C09_optfile_unreadable_outcome (sc : Scenario) (pre post : List OptItem) (inner : List Opt)
    (hfault : sc.fault = none) (hflags : sc.flags.all Flag.passes = true) (hstub : sc.hasStub = true)
    (hampl : sc.ampl = true) (hout : sc.out.writable = true)
    (hopts : sc.opts = pre ++ .optfile inner true :: post)
    (hpre : (expandOpts pre).all Opt.clean = true) (hinner : inner.all Opt.clean = true) :
    run sc = .sol ⟨500, 0, 0, 0, 0, true⟩ false := by
  rw [run, C09_optfile_unreadable_ending sc pre post inner hfault hflags hstub hopts hpre hinner,
    conclude_raised _ _ _ _ _ (by simp)]
  simp [Stage.insideRun, Stage.handlerAvailable, wantsFile, hampl, hout, errFile, errDims, Stage.dimsKnown,
    Raise.toExn, Exn.reportCode, solFAILURE]

/-! ## Counterexamples to the full-strength statement (each replayed on the real driver) -/

/-- a small valid model: 1 constraint, 2 variables, solver answers 0 with a primal vector -/
def scBase : Scenario :=
  { flags := [], hasStub := true, ampl := true, opts := [], objnoTooBig := false, justExport := false,
    dims := ⟨1, 2⟩, partialDims := ⟨0, 0⟩, out := ⟨true, true⟩, fault := none, answer := ⟨0, true, true⟩ }

/-- `recsolver stub -AMPL foo=1`: `.sol` with count lines 0 0 0 0 for a 1×2 model. -/
theorem C09_counterexample_optdims :
    run { scBase with opts := [.tok .bad] } = .sol ⟨500, 0, 0, 0, 0, true⟩ false ∧
    ¬ Good { scBase with opts := [.tok .bad] } (run { scBase with opts := [.tok .bad] }) := by decide

/-- (fixed by abd397a; was `C09_counterexample_code1`) truncated NL body / unsupported operator:
solve code 500 and the property holds. -/
theorem C09_fixed_code1 :
    run { scBase with fault := some (.body, .readError) } = .sol ⟨500, 1, 0, 2, 0, true⟩ false ∧
    Good { scBase with fault := some (.body, .readError) } (run { scBase with fault := some (.body, .readError) }) ∧
    Good { scBase with fault := some (.convert, .unsupported) } (run { scBase with fault := some (.convert, .unsupported) }) := by
  decide

/-- a header whose counts are inconsistent (`MP_ASSERT_ALWAYS … num_vars mismatch` after
`AddVariables`): variables populated, constraints not yet. -/
theorem C09_counterexample_hdrdims :
    run { scBase with partialDims := ⟨0, 2⟩, fault := some (.populate, .plain) } = .sol ⟨500, 0, 0, 2, 0, true⟩ false ∧
    ¬ Good { scBase with partialDims := ⟨0, 2⟩, fault := some (.populate, .plain) }
        (run { scBase with partialDims := ⟨0, 2⟩, fault := some (.populate, .plain) }) := by decide

/-- (fixed by f454558; was `C09_counterexample_infeas500`) binary `b` fixed to 1 and `not (b = 1)`:
"Model infeasible: empty variable domain" with solve code 200. -/
theorem C09_fixed_infeas500 :
    run { scBase with fault := some (.convert, .wrappedInfeas) } = .sol ⟨200, 1, 0, 2, 0, true⟩ false ∧
    Good { scBase with fault := some (.convert, .wrappedInfeas) } (run { scBase with fault := some (.convert, .wrappedInfeas) }) := by
  decide

/-- (fixed by 87b3b50; was `C09_counterexample_writeerr`) `<stub>.sol` → `/dev/full`: stderr, exit 1. -/
theorem C09_fixed_writeerr :
    run { scBase with out := ⟨true, false⟩ } = .stderrExit 1 ∧
    Good { scBase with out := ⟨true, false⟩ } (run { scBase with out := ⟨true, false⟩ }) := by decide

/-- **History (87b3b50; was `C09_counterexample_writeerr`)**: without the final `file.close()` the writer
returned normally on `/dev/full`: a truncated `.sol` (`complete = false`) and — the run going on to `return 0` —
exit status 0, which `GoodEnd` rejects. -/
theorem C09_history_writeerr :
    handleSolutionW false true 0 ⟨true, false⟩ ⟨0, 1, 1, 2, 2, true⟩ = some (.sol ⟨0, 1, 1, 2, 2, false⟩ false) ∧
    ¬ Good scBase (.sol ⟨0, 1, 1, 2, 2, false⟩ false) := by decide

/-- `recsolver stub foo=1` (no `-AMPL`): the error is printed on stdout, exit 0;
with `wantsol=8` before it, nothing is printed at all. -/
theorem C09_counterexample_standalone :
    run { scBase with ampl := false, opts := [.tok .bad] } = .stdoutOnly 500 true ∧
    run { scBase with ampl := false, opts := [.tok (.wantsol 8), .tok .bad] } = .stdoutOnly 500 false ∧
    ¬ Good { scBase with ampl := false, opts := [.tok .bad] } (run { scBase with ampl := false, opts := [.tok .bad] }) := by decide

/-- **History (fixed by 3651d33; was `C09_counterexample_fmtintcode`).**  The overload hazard is still in `mp::Error`:
a throw of the shape `Error("… {} …", n)` with a single `int` argument selects `Error(CStringRef, int)` (clang's
overload resolution, `exitCode_fmtIntArg`), and `Run` would pass `n ≥ 100` on as the solve code.  The two throw sites
that had this shape (`NLProblemBuilder::BeginCall`, `BasicExprFactory::DefineFunction`) now format their message
first: their objects are built like `MP_RAISE` (generated from the current tree), i.e. they are `.plain` rows and
are reported with 500. -/
theorem C09_history_fmtintcode (n : Int) :
    Gen.C09.exitCode_fmtIntArg n = n ∧
    Exn.reportCode (.mpError (Gen.C09.exitCode_fmtIntArg n)) = (if n ≥ 100 then n else 500) ∧
    Gen.C09.exitCode_undefinedFunction = Gen.C09.exitCode_plain ∧
    Gen.C09.exitCode_redefinedFunction = Gen.C09.exitCode_plain ∧
    Exn.reportCode (.mpError Gen.C09.exitCode_undefinedFunction) = 500 := by
  refine ⟨rfl, ?_, by decide, by decide, by decide⟩
  simp only [Gen.C09.exitCode_fmtIntArg, Exn.reportCode, solFAILURE]
  by_cases h : n ≥ 100 <;> simp [h]

/-- `recsolver stub -AMPL tech:writemodelonly=m.lp`: nothing is reported at all. -/
theorem C09_counterexample_exportonly :
    run { scBase with justExport := true } = .silent ∧
    ¬ Good { scBase with justExport := true } (run { scBase with justExport := true }) := by decide

/-- an `mp::Error(msg, 512)` from the backend's constructor: `Error: …` on stderr, exit status 0. -/
theorem C09_counterexample_ctorcode :
    run { scBase with fault := some (.ctor, .withCode 512) } = .stderrExit 0 ∧
    ¬ Good { scBase with fault := some (.ctor, .withCode 512) } (run { scBase with fault := some (.ctor, .withCode 512) }) := by
  decide

/-- a non-`std::exception` anywhere: `std::terminate`. -/
theorem C09_counterexample_foreign :
    run { scBase with fault := some (.solve, .foreign) } = .crash ∧
    ¬ Good { scBase with fault := some (.solve, .foreign) } (run { scBase with fault := some (.solve, .foreign) }) := by
  decide

/-! ## Non-vacuity: a concrete, non-trivial instance for every theorem with hypotheses
(each `example` applies the theorem; the hypotheses are discharged on the instance) -/

example : Regular scBase (ending scBase) := by decide
example : Good scBase (run scBase) := C09_outcome_partial scBase (by decide)
example : run { scBase with fault := some (.convert, .infeas) } = .sol ⟨200, 1, 0, 2, 0, true⟩ false := by decide
example : run { scBase with fault := some (.header, .readError) } = .stderrExit 1 := by decide
example : run { scBase with out := ⟨false, false⟩ } = .stderrExit 1 := by decide
example : run { scBase with flags := [.info] } = .info := by decide
example : Regular { scBase with fault := some (.convert, .plain), ampl := false, flags := [.wantsol] }
    (ending { scBase with fault := some (.convert, .plain), ampl := false, flags := [.wantsol] }) := by decide

/-- a scenario with several things wrong at once: `-s`, an option file read completely, a later bad
token, a truncated body, an unwritable output path -/
def scMessy : Scenario :=
  { scBase with flags := [.noecho, .wantsol], ampl := false,
                opts := [.tok (.wantsol 3), .optfile [.ok, .wantsol 5] false, .tok .ok],
                fault := some (.body, .readError), dims := ⟨7, 9⟩ }

-- C09_outcome_partial on it: the body error is reported in a complete 7×9 `.sol` with code 500
example : run scMessy = .sol ⟨500, 7, 0, 9, 0, true⟩ true := by decide
example : Good scMessy (run scMessy) := C09_outcome_partial scMessy (by decide)
-- …and with an unwritable path on stderr
example : Good { scMessy with out := ⟨false, true⟩ } (run { scMessy with out := ⟨false, true⟩ }) :=
  C09_outcome_partial _ (by decide)
example : run { scMessy with out := ⟨false, true⟩ } = .stderrExit 1 := by decide

-- C09_dims_partial / C09_dims_run_partial / C09_code_class / C09_reported_code_exact / C09_complete
example : ending scMessy = .raised false 5 .body .readError := by decide
example := C09_dims_partial scMessy (.raised false 5 .body .readError) ⟨500, 7, 0, 9, 0, true⟩ true (by decide) (by c09_inst) (by c09_inst)
example := C09_dims_run_partial scMessy ⟨500, 7, 0, 9, 0, true⟩ true (by decide)
  (by rw [show ending scMessy = .raised false 5 .body .readError by decide]; c09_inst)
  (by rw [show ending scMessy = .raised false 5 .body .readError by decide]; c09_inst)
example : codeOK scMessy.answer .failure 500 :=
  C09_code_class scMessy (.raised false 5 .body .readError) .failure ⟨500, 7, 0, 9, 0, true⟩ true (by decide) (by decide)
example : codeOK scBase.answer .infeasible 200 :=
  C09_code_class scBase (.raised true 1 .convert .wrappedInfeas) .infeasible ⟨200, 1, 0, 2, 0, true⟩ false (by decide) (by decide)
example : codeOK scBase.answer (.asRaised 567) 567 :=
  C09_code_class scBase (.raised true 1 .solve (.withCode 567)) _ ⟨567, 1, 0, 2, 0, true⟩ false (by decide) (by decide)
example : codeOK scBase.answer .none 0 :=
  C09_code_class scBase (.finished true 1) .none ⟨0, 1, 1, 2, 2, true⟩ false (by decide) (by decide)
example := C09_reported_code_exact scBase true 1 .solve (.withCode 42) ⟨500, 1, 0, 2, 0, true⟩ false (by decide)
example := C09_complete scMessy (.raised false 5 .body .readError) ⟨500, 7, 0, 9, 0, true⟩ true (by decide)
-- C09_optdims_general / C09_hdrdims_general
example := C09_optdims_general { scBase with dims := ⟨7, 9⟩ } true 1 .plain ⟨500, 0, 0, 0, 0, true⟩ false (by decide)
example := C09_hdrdims_general { scBase with dims := ⟨7, 9⟩, partialDims := ⟨0, 9⟩ } true 1 .stdExn ⟨500, 0, 0, 9, 0, true⟩ false (by decide)
-- C09_exit_failure_ctor_reports_500 / C09_wrapped_infeas_keeps_200
example := C09_exit_failure_ctor_reports_500 scBase true 1 .names .readError ⟨500, 1, 0, 2, 0, true⟩ false (by decide) (by decide)
example := C09_wrapped_infeas_keeps_200 scBase true 1 .convert ⟨200, 1, 0, 2, 0, true⟩ false (by decide)
-- C09_write_error_is_diagnosed: finished run and failed run, path opens but cannot be flushed
example : conclude { scBase with out := ⟨true, false⟩ } (.finished true 1) = .stderrExit 1 :=
  C09_write_error_is_diagnosed { scBase with out := ⟨true, false⟩ } (.finished true 1)
    (by c09_inst) (by c09_inst) (by c09_inst) (by c09_inst) (by c09_inst) (by decide)
example : conclude { scBase with out := ⟨true, false⟩ } (.raised false 9 .convert .infeas) = .stderrExit 1 :=
  C09_write_error_is_diagnosed { scBase with out := ⟨true, false⟩ } (.raised false 9 .convert .infeas)
    (by c09_inst) (by c09_inst) (by c09_inst) (by c09_inst) (by c09_inst) (by decide)
-- C09_stderr_partial: before the header; at the constructor with exit code 200
example := C09_stderr_partial scBase (.raised true 1 .header .readError) 1 (by decide) (by c09_inst)
example := C09_stderr_partial scBase (.raised false 0 .ctor .infeas) 200 (by decide)
  (by intro a w r c h hx; cases h; cases hx; decide)
-- C09_crash_iff_foreign, both directions
example : conclude scBase (.raised true 1 .solve .foreign) = .crash := (C09_crash_iff_foreign _ _).2 ⟨_, _, _, rfl⟩
example : ∃ a w st, Ending.raised true 1 .report .foreign = .raised a w st .foreign :=
  (C09_crash_iff_foreign scBase _).1 (by decide)
-- C09_stdout_only_iff, both directions
example : ∃ c s, conclude scBase (.raised false 8 .convert .infeas) = .stdoutOnly c s :=
  (C09_stdout_only_iff _ _).2 ⟨false, 8, by decide, Or.inr ⟨_, _, rfl, by decide, by decide⟩⟩
example := (C09_stdout_only_iff scBase (.finished false 2)).1 ⟨0, true, by decide⟩
-- C09_file_whenever_possible
example : ∃ f ech, conclude scMessy (.raised false 5 .report .stdExn) = .sol f ech :=
  C09_file_whenever_possible _ _ (by c09_inst) (by c09_inst) (by c09_inst) (by decide) (by c09_inst)
-- C09_success / C09_bad_option_ending / C09_suffix_exceptions_swallowed / option files / export only
def scOK : Scenario :=
  { flags := [.noecho], hasStub := true, ampl := true, opts := [.optfile [.ok, .wantsol 0] false, .tok .ok],
    objnoTooBig := false, justExport := false, dims := ⟨3, 4⟩, partialDims := ⟨0, 0⟩, out := ⟨true, true⟩,
    fault := none, answer := ⟨421, false, true⟩ }
example := C09_success scOK
  (by decide) (by decide) (by decide) (by decide) (by decide) (by decide) (by decide) (by decide) (by decide)
example := C09_bad_option_ending { scBase with ampl := false, opts := [.tok (.wantsol 1), .optfile [.ok, .invalidValue, .ok] false] }
  [.wantsol 1, .ok] .invalidValue [.ok] (by decide) (by decide) (by decide) (by decide) (by decide) (by decide)
example := C09_suffix_exceptions_swallowed scMessy .readError (by decide)
example := C09_optfile_unreadable_outcome { scBase with opts := [.tok .ok, .optfile [.wantsol 8] true, .tok .bad], dims := ⟨7, 9⟩ }
  [.tok .ok] [.tok .bad] [.wantsol 8] (by decide) (by decide) (by decide) (by decide) (by decide) (by decide) (by decide) (by decide)
example := C09_exportonly_run { scBase with justExport := true, opts := [.tok .ok] } (by decide) (by decide) (by decide) (by decide) (by decide) (by decide)
-- the pipeline: several stages would raise, options contain an unreadable file after the bad token
-- round 8: instances (recsolver -s stub -AMPL foo=1;  recsolver;  recsolver stub foo=1 -AMPL;  recsolver -v stub)
example : Gen.C09.solverAppParse ["recsolver", "-s", "stub", "-AMPL", "foo=1"] 0 1 ⟨0, false, 1, false⟩ = (some "stub", ⟨4, true, 1, false⟩) := by decide
example : Gen.C09.solverAppParse ["recsolver"] 0 0 ⟨0, false, 0, false⟩ = (none, ⟨1, false, 0, true⟩) := by decide
example : Gen.C09.solverAppParse ["recsolver", "stub", "foo=1", "-AMPL"] 0 0 ⟨0, false, 0, false⟩ = (some "stub", ⟨2, false, 0, false⟩) := by decide
example : Gen.C09.solverAppParse ["recsolver", "-v", "stub"] 118 0 ⟨0, false, 0, false⟩ = (none, ⟨1, false, 0, false⟩) := by decide
example := C09_flags_step_follows_parse scBase [] PState.init 0 ["recsolver", "stub", "-AMPL"] 0 0 (by decide) (by decide) (by decide) (by decide)

-- round 7: instances
example : (Gen.C09.bufferedFileClose ⟨true, true, 0, false, false, false⟩ (-1)) = ⟨false, false, 1, false, true, false⟩ := by decide
example : (Gen.C09.bufferedFileClose ⟨true, true, 0, false, false, false⟩ 0) = ⟨false, false, 1, false, false, false⟩ := by decide
example : (Gen.C09.bufferedFileDtor ⟨true, true, 0, false, false, false⟩ (-1)) = ⟨true, false, 1, false, false, true⟩ := by decide
example := C09_gen_buffered_file_close ⟨true, true, 0, false, false, false⟩ (-1) 0
example := C09_suffix_step_follows_ladder scBase [(.suffixes, .raises .stdExn)] PState.init .stdExn (by decide)
example : runP scBase [(.suffixes, .raises .foreign)] = .crash := by decide
example : caughtBy ["mp::Error"] .stdExn = none := by decide      -- a narrower ladder would let it through

def bsMessy : Behaviours :=
  [(.solve, .aborts), (.convert, .raises .infeas), (.body, .raises .readError), (.convert, .raises .plain), (.report, .hangs)]
example : runP scMessy bsMessy = .sol ⟨500, 7, 0, 9, 0, true⟩ true := by decide
example : firstBeh bsMessy = some (.body, .raises .readError) := by decide
example := C09_pipeline_outcome_partial scMessy [(.solve, .raises .foreign), (.convert, .raises .infeas), (.body, .raises .readError)] (by decide) (by decide)
example := C09_pipeline_first_raise_decides scMessy [(.report, .raises .stdExn), (.names, .raises .readError)]
  [(.names, .raises .readError), (.solve, .aborts)] (by decide)
example := C09_fold_sol_complete scMessy bsMessy pipeline PState.init ⟨500, 7, 0, 9, 0, true⟩ true (by decide)
example : ∃ s, look [(Stage.names, Beh.raises .foreign), (.report, .raises .plain)] s = some .aborts ∨
    look [(Stage.names, Beh.raises .foreign), (.report, .raises .plain)] s = some (.raises .foreign) :=
  C09_fold_crash_needs_abort_or_foreign scBase _ pipeline PState.init (by decide)
-- abort / hang: reached (the run dies / hangs) and not reached (a bad option ends the run before)
example : runP scBase [(.convert, .aborts)] = .crash ∧ runP scBase [(.convert, .hangs)] = .hang := by decide
example : runP { scBase with opts := [.tok .bad] } [(.convert, .aborts)] = runP { scBase with opts := [.tok .bad] } [] := by decide
example := (C09_pipeline_abort_hang scBase [(.solve, .raises .plain), (.convert, .hangs)] .convert .hangs (by decide)).2.1 rfl
example := C09_dims_exact { scBase with dims := ⟨7, 9⟩ } (.raised true 1 .options .plain) ⟨500, 0, 0, 0, 0, true⟩ false (by decide)
-- parsing loops
example : (parseOpts [.ok, .wantsol 3, .ok] 0).2 = none := (C09_parseOpts_ok_iff _ _).2 (by decide)
example : parseOpts [.wantsol 3, .ok, .bad, .wantsol 1] 0 = (3, some .plain) :=
  (C09_parseOpts_first_error _ _ _ _).2 ⟨[.wantsol 3, .ok], .bad, [.wantsol 1], rfl, by decide, by decide, by decide, by decide⟩
example := (C09_parseFlags [.noecho, .wantsol] .invalid [.info] 0 (by decide)).2 (by decide)

end MpVerif.C09

import MpVerif.C09.Pipeline
import MpVerif.C09.Lemmas
/-!
# C09 — the pipeline fold is the table (helper lemmas, core Lean only)
-/
namespace MpVerif.C09

macro "c09_psimp" : tactic =>
  `(tactic| simp_all [foldSteps, step, look, onRaise, duringStage, afterStage, PState.init, conclude, fail,
      Stage.insideRun, Stage.handlerAvailable, Stage.dimsKnown, run, ending, faultBefore, Stage.idx, runP, pipeline])

macro "c09_pl" : tactic =>
  `(tactic| simp [*, runP, pipeline, foldSteps, step, firstBeh, List.findSome?, look, Option.toList])

set_option maxRecDepth 8000 in
set_option maxHeartbeats 4000000 in
/-- for a single fault (or none) the fold computes what the table says -/
theorem runP_single (sc : Scenario) (f : Option (Stage × Raise)) :
    runP sc (Behaviours.ofRaises f.toList) = run { sc with fault := f } := by
  rcases f with _ | ⟨s, r⟩
  · simp only [Option.toList, Behaviours.ofRaises, List.map]
    cases hf : parseFlags sc.flags 0 with
    | stop => c09_psimp
    | throwOptionError => c09_psimp
    | proceed w0 =>
      cases hs : sc.hasStub with
      | false => c09_psimp
      | true =>
        rcases hp : parseOpts (expandOpts sc.opts) (if sc.ampl then 1 else w0) with ⟨w, _ | r'⟩
        · cases ho : sc.objnoTooBig <;> cases he : sc.justExport <;> c09_psimp
        · c09_psimp
  · simp only [Option.toList, Behaviours.ofRaises, List.map]
    cases hf : parseFlags sc.flags 0 with
    | stop => cases s <;> c09_psimp
    | throwOptionError => cases s <;> c09_psimp
    | proceed w0 =>
      cases hs : sc.hasStub with
      | false => cases s <;> c09_psimp
      | true =>
        rcases hp : parseOpts (expandOpts sc.opts) (if sc.ampl then 1 else w0) with ⟨w, _ | r'⟩
        · cases ho : sc.objnoTooBig <;> cases he : sc.justExport <;> cases s <;> try c09_psimp
          all_goals (by_cases hr : r = .foreign <;> c09_psimp)
        · cases s <;> c09_psimp

set_option maxRecDepth 8000 in
set_option maxHeartbeats 4000000 in
/-- the fold only depends on the first stage (in execution order) at which the environment raises -/
theorem runP_first (sc : Scenario) (bs : Behaviours) :
    runP sc bs = runP sc (firstBeh bs).toList := by
  cases h0 : look bs .ctor with
  | some b => cases b <;> c09_pl
  | none =>
  cases h1 : look bs .init with
  | some b => cases b <;> c09_pl
  | none =>
  cases h2 : look bs .openNL with
  | some b => cases b <;> c09_pl
  | none =>
  cases h3 : look bs .header with
  | some b => cases b <;> c09_pl
  | none =>
  cases h4 : look bs .options with
  | some b => cases b <;> c09_pl
  | none =>
  cases h5 : look bs .populate with
  | some b => cases b <;> c09_pl
  | none =>
  cases h6 : look bs .body with
  | some b => cases b <;> c09_pl
  | none =>
  cases h7 : look bs .names with
  | some b => cases b <;> c09_pl
  | none =>
  cases h8 : look bs .convert with
  | some b => cases b <;> c09_pl
  | none =>
  cases h9 : look bs .extras with
  | some b => cases b <;> c09_pl
  | none =>
  cases h10 : look bs .solve with
  | some b => cases b <;> c09_pl
  | none =>
  cases h11 : look bs .report with
  | some b => cases b <;> c09_pl
  | none =>
  cases h12 : look bs .suffixes with
  | some b => cases b <;> c09_pl
  | none => c09_pl

/-- the scenario the table is consulted with -/
def Scenario.withFaults (sc : Scenario) (bs : Behaviours) : Scenario := { sc with fault := firstFault bs }

theorem look_exceptionsOnly (bs : Behaviours) (h : bs.exceptionsOnly = true) (s : Stage) (b : Beh)
    (hl : look bs s = some b) : ∃ r, b = .raises r := by
  induction bs with
  | nil => simp [look] at hl
  | cons p bs ih =>
    obtain ⟨s', b'⟩ := p
    simp only [Behaviours.exceptionsOnly, List.all_cons, Bool.and_eq_true] at h
    simp only [look] at hl
    split at hl
    · simp only [Option.some.injEq] at hl; subst hl
      cases b' <;> simp at h
      exact ⟨_, rfl⟩
    · exact ih h.2 hl

theorem firstBeh_some (bs : Behaviours) (s : Stage) (b : Beh) (h : firstBeh bs = some (s, b)) : look bs s = some b := by
  simp only [firstBeh, List.findSome?] at h
  cases h0 : look bs .ctor with
  | some v => simp [h0] at h; obtain ⟨rfl, rfl⟩ := h; exact h0
  | none =>
    simp only [h0, Option.map] at h
    cases h1 : look bs .init with
    | some v => simp [h1] at h; obtain ⟨rfl, rfl⟩ := h; exact h1
    | none =>
      simp only [h1, Option.map] at h
      cases h2 : look bs .openNL with
      | some v => simp [h2] at h; obtain ⟨rfl, rfl⟩ := h; exact h2
      | none =>
        simp only [h2, Option.map] at h
        cases h3 : look bs .header with
        | some v => simp [h3] at h; obtain ⟨rfl, rfl⟩ := h; exact h3
        | none =>
          simp only [h3, Option.map] at h
          cases h4 : look bs .options with
          | some v => simp [h4] at h; obtain ⟨rfl, rfl⟩ := h; exact h4
          | none =>
            simp only [h4, Option.map] at h
            cases h5 : look bs .populate with
            | some v => simp [h5] at h; obtain ⟨rfl, rfl⟩ := h; exact h5
            | none =>
              simp only [h5, Option.map] at h
              cases h6 : look bs .body with
              | some v => simp [h6] at h; obtain ⟨rfl, rfl⟩ := h; exact h6
              | none =>
                simp only [h6, Option.map] at h
                cases h7 : look bs .names with
                | some v => simp [h7] at h; obtain ⟨rfl, rfl⟩ := h; exact h7
                | none =>
                  simp only [h7, Option.map] at h
                  cases h8 : look bs .convert with
                  | some v => simp [h8] at h; obtain ⟨rfl, rfl⟩ := h; exact h8
                  | none =>
                    simp only [h8, Option.map] at h
                    cases h9 : look bs .extras with
                    | some v => simp [h9] at h; obtain ⟨rfl, rfl⟩ := h; exact h9
                    | none =>
                      simp only [h9, Option.map] at h
                      cases h10 : look bs .solve with
                      | some v => simp [h10] at h; obtain ⟨rfl, rfl⟩ := h; exact h10
                      | none =>
                        simp only [h10, Option.map] at h
                        cases h11 : look bs .report with
                        | some v => simp [h11] at h; obtain ⟨rfl, rfl⟩ := h; exact h11
                        | none =>
                          simp only [h11, Option.map] at h
                          cases h12 : look bs .suffixes with
                          | some v => simp [h12] at h; obtain ⟨rfl, rfl⟩ := h; exact h12
                          | none =>
                            simp [h12] at h

/-- for an environment of exceptions only, the fold is the table -/
theorem runP_eq_run (sc : Scenario) (bs : Behaviours) (hex : bs.exceptionsOnly = true) :
    runP sc bs = run (sc.withFaults bs) := by
  rw [runP_first]
  have : (firstBeh bs).toList = Behaviours.ofRaises (firstFault bs).toList := by
    unfold firstFault
    cases hfb : firstBeh bs with
    | none => rfl
    | some p =>
      obtain ⟨s, b⟩ := p
      obtain ⟨r, rfl⟩ := look_exceptionsOnly bs hex s b (firstBeh_some bs s b hfb)
      rfl
  rw [this, runP_single]; rfl

set_option maxRecDepth 8000 in
set_option maxHeartbeats 4000000 in
/-- a stage that kills the process ends the run exactly where a foreign exception at that stage would -/
theorem runP_abort_as_foreign (sc : Scenario) (s : Stage) :
    runP sc [(s, .aborts)] = runP sc [(s, .raises .foreign)] := by
  cases hf : parseFlags sc.flags 0 with
  | stop => cases s <;> (try c09_psimp) <;> simp [rbaOutcome, Raise.toExn, reportError]
  | throwOptionError => cases s <;> (try c09_psimp) <;> simp [rbaOutcome, Raise.toExn, reportError]
  | proceed w0 =>
    cases hs : sc.hasStub with
    | false => cases s <;> (try c09_psimp) <;> simp [rbaOutcome, Raise.toExn, reportError]
    | true =>
      rcases hp : parseOpts (expandOpts sc.opts) (if sc.ampl then 1 else w0) with ⟨w, _ | r'⟩
      · cases ho : sc.objnoTooBig <;> cases he : sc.justExport <;> cases s <;> (try c09_psimp) <;> simp [rbaOutcome, Raise.toExn, reportError]
      · cases s <;> (try c09_psimp) <;> simp [rbaOutcome, Raise.toExn, reportError]

set_option maxRecDepth 8000 in
set_option maxHeartbeats 4000000 in
/-- a stage that aborts / hangs: the run ends that way if the stage is reached, and otherwise it ends as if the
environment did nothing at all -/
theorem runP_abort_or_unreached (sc : Scenario) (s : Stage) :
    (runP sc [(s, .aborts)] = .crash ∧ runP sc [(s, .hangs)] = .hang) ∨
    (runP sc [(s, .aborts)] = runP sc [] ∧ runP sc [(s, .hangs)] = runP sc []) := by
  cases hf : parseFlags sc.flags 0 with
  | stop => cases s <;> c09_psimp
  | throwOptionError => cases s <;> c09_psimp
  | proceed w0 =>
    cases hs : sc.hasStub with
    | false => cases s <;> c09_psimp
    | true =>
      rcases hp : parseOpts (expandOpts sc.opts) (if sc.ampl then 1 else w0) with ⟨w, _ | r'⟩
      · cases ho : sc.objnoTooBig <;> cases he : sc.justExport <;> cases s <;> c09_psimp
      · cases s <;> c09_psimp

/-! ## Invariants of the fold for arbitrary step sequences and states -/

theorem reportError_not_sol_incomplete (a : Bool) (w : Nat) (out : OutPath) (h : Bool) (d : Dims) (x : Exn) (f : SolFile) (e : Bool)
    (hh : reportError a w out h d x = .sol f e) : f.complete = true ∧ out.writable = true := by
  by_cases hx : x = .foreign
  · simp [reportError, hx] at hh
  · rw [reportError_cases _ _ _ _ _ _ hx] at hh
    cases h
    · simp at hh
    · simp only [if_true] at hh
      rcases handleSolution_cases a w out
        { code := x.reportCode, ncons := d.ncons, nduals := 0, nvars := d.nvars, nprimals := 0, complete := true }
        with ⟨_, _, h3⟩ | ⟨_, ho, h3⟩ | ⟨_, h3⟩ <;> rw [h3] at hh <;> simp [orStderr] at hh
      obtain ⟨rfl, _⟩ := hh
      exact ⟨rfl, ho⟩

theorem onRaise_sol (sc : Scenario) (st : PState) (r : Raise) (f : SolFile) (e : Bool)
    (h : onRaise sc st r = .sol f e) : f.complete = true ∧ sc.out.writable = true := by
  unfold onRaise at h
  split at h
  · exact reportError_not_sol_incomplete _ _ _ _ _ _ _ _ h
  · cases hx : r.toExn <;> simp [hx, rbaOutcome] at h

theorem writeOrRetry_sol (a : Bool) (w : Nat) (out : OutPath) (hd : Bool) (d : Dims) (g f : SolFile) (e : Bool)
    (h : writeOrRetry a w out hd d g = .sol f e) : f.complete = true ∧ out.writable = true := by
  unfold writeOrRetry at h
  rcases handleSolution_cases a w out g with ⟨_, _, h3⟩ | ⟨_, ho, h3⟩ | ⟨_, h3⟩ <;> rw [h3] at h
  · exact reportError_not_sol_incomplete _ _ _ _ _ _ _ _ h
  · simp only [Outcome.sol.injEq] at h
    obtain ⟨rfl, _⟩ := h
    exact ⟨rfl, ho⟩
  · simp at h

theorem reportError_crash (a : Bool) (w : Nat) (out : OutPath) (h : Bool) (d : Dims) (x : Exn)
    (hc : reportError a w out h d x = .crash) : x = .foreign := by
  by_cases hx : x = .foreign
  · exact hx
  · exfalso
    rw [reportError_cases _ _ _ _ _ _ hx] at hc
    cases h
    · simp at hc
    · simp only [if_true] at hc
      rcases handleSolution_cases a w out
        { code := x.reportCode, ncons := d.ncons, nduals := 0, nvars := d.nvars, nprimals := 0, complete := true }
        with ⟨_, _, h3⟩ | ⟨_, _, h3⟩ | ⟨_, h3⟩ <;> rw [h3] at hc <;> simp [orStderr] at hc

theorem writeOrRetry_not_crash (a : Bool) (w : Nat) (out : OutPath) (hd : Bool) (d : Dims) (g : SolFile) :
    writeOrRetry a w out hd d g ≠ .crash := by
  intro hc
  unfold writeOrRetry at hc
  rcases handleSolution_cases a w out g with ⟨_, _, h3⟩ | ⟨_, _, h3⟩ | ⟨_, h3⟩ <;> rw [h3] at hc
  · exact absurd (reportError_crash _ _ _ _ _ _ hc) (by simp)
  · simp at hc
  · simp at hc

theorem onRaise_crash (sc : Scenario) (st : PState) (r : Raise) (hc : onRaise sc st r = .crash) : r = .foreign := by
  unfold onRaise at hc
  split at hc
  · exact (toExn_foreign_iff r).1 (reportError_crash _ _ _ _ _ _ hc)
  · cases hx : r.toExn <;> simp [hx, rbaOutcome] at hc
    exact (toExn_foreign_iff r).1 hx

theorem step_done_sol (sc : Scenario) (bs : Behaviours) (p : Step) (st : PState) (f : SolFile) (e : Bool)
    (h : step sc bs p st = .done (.sol f e)) : f.complete = true ∧ sc.out.writable = true := by
  cases p with
  | env s =>
    simp only [step] at h
    split at h
    · simp at h
    · simp at h
    · simp at h
    · split at h
      · simp at h
      · simp only [Ctl.done.injEq] at h; exact onRaise_sol _ _ _ _ _ h
  | flags =>
    simp only [step] at h
    split at h
    · simp at h
    · simp only [Ctl.done.injEq] at h; exact onRaise_sol _ _ _ _ _ h
    · split at h <;> simp at h
  | parseOpts =>
    simp only [step] at h
    split at h
    · simp only [Ctl.done.injEq] at h; exact onRaise_sol _ _ _ _ _ h
    · simp at h
  | objno =>
    simp only [step] at h
    split at h
    · simp only [Ctl.done.injEq] at h; exact onRaise_sol _ _ _ _ _ h
    · simp at h
  | exportOnly =>
    simp only [step] at h
    split at h <;> simp at h
  | write =>
    simp only [step, Ctl.done.injEq] at h
    exact writeOrRetry_sol _ _ _ _ _ _ _ _ h
  | enterRun => simp [step] at h
  | mkHandler => simp [step] at h

end MpVerif.C09

import MpVerif.C09.Pipeline
import MpVerif.C09.Lemmas
/-!
# C09 — the pipeline fold is the table (helper lemmas, core Lean only)
-/
namespace MpVerif.C09

macro "c09_psimp" : tactic =>
  `(tactic| simp_all [foldSteps, step, look, onRaise, duringStage, afterStage, PState.init, conclude, fail,
      Stage.insideRun, Stage.handlerAvailable, Stage.dimsKnown, run, ending, faultBefore, Stage.idx, runP, pipeline])

macro "c09_pl" : tactic =>
  `(tactic| simp [*, runP, pipeline, foldSteps, step, firstFault, List.findSome?, look, Option.toList])

set_option maxRecDepth 8000 in
set_option maxHeartbeats 4000000 in
/-- for a single fault (or none) the fold computes what the table says -/
theorem runP_single (sc : Scenario) (f : Option (Stage × Raise)) :
    runP sc f.toList = run { sc with fault := f } := by
  rcases f with _ | ⟨s, r⟩
  · simp only [Option.toList]
    cases hf : parseFlags sc.flags 0 with
    | stop => c09_psimp
    | throwOptionError => c09_psimp
    | proceed w0 =>
      cases hs : sc.hasStub with
      | false => c09_psimp
      | true =>
        rcases hp : parseOpts (expandOpts sc.opts) (if sc.ampl then 1 else w0) with ⟨w, _ | r'⟩
        · cases ho : sc.objnoTooBig <;> cases he : sc.justExport <;> c09_psimp
        · c09_psimp
  · simp only [Option.toList]
    cases hf : parseFlags sc.flags 0 with
    | stop => cases s <;> c09_psimp
    | throwOptionError => cases s <;> c09_psimp
    | proceed w0 =>
      cases hs : sc.hasStub with
      | false => cases s <;> c09_psimp
      | true =>
        rcases hp : parseOpts (expandOpts sc.opts) (if sc.ampl then 1 else w0) with ⟨w, _ | r'⟩
        · cases ho : sc.objnoTooBig <;> cases he : sc.justExport <;> cases s <;> try c09_psimp
          all_goals (by_cases hr : r = .foreign <;> c09_psimp)
        · cases s <;> c09_psimp

set_option maxRecDepth 8000 in
set_option maxHeartbeats 4000000 in
/-- the fold only depends on the first stage (in execution order) at which the environment raises -/
theorem runP_first (sc : Scenario) (bs : Behaviours) :
    runP sc bs = runP sc (firstFault bs).toList := by
  cases h0 : look bs .ctor with
  | some r => c09_pl
  | none =>
  cases h1 : look bs .init with
  | some r => c09_pl
  | none =>
  cases h2 : look bs .openNL with
  | some r => c09_pl
  | none =>
  cases h3 : look bs .header with
  | some r => c09_pl
  | none =>
  cases h4 : look bs .options with
  | some r => c09_pl
  | none =>
  cases h5 : look bs .populate with
  | some r => c09_pl
  | none =>
  cases h6 : look bs .body with
  | some r => c09_pl
  | none =>
  cases h7 : look bs .names with
  | some r => c09_pl
  | none =>
  cases h8 : look bs .convert with
  | some r => c09_pl
  | none =>
  cases h9 : look bs .extras with
  | some r => c09_pl
  | none =>
  cases h10 : look bs .solve with
  | some r => c09_pl
  | none =>
  cases h11 : look bs .report with
  | some r => c09_pl
  | none =>
  cases h12 : look bs .suffixes with
  | some r => c09_pl
  | none => c09_pl

/-- the scenario the table is consulted with -/
def Scenario.withFaults (sc : Scenario) (bs : Behaviours) : Scenario := { sc with fault := firstFault bs }

theorem runP_eq_run (sc : Scenario) (bs : Behaviours) : runP sc bs = run (sc.withFaults bs) := by
  rw [runP_first, runP_single]; rfl

/-! ## Invariants of the fold for arbitrary step sequences and states -/

theorem reportError_not_sol_incomplete (a : Bool) (w : Nat) (out : OutPath) (h : Bool) (d : Dims) (x : Exn) (f : SolFile) (e : Bool)
    (hh : reportError a w out h d x = .sol f e) : f.complete = true ∧ out.writable = true := by
  unfold reportError at hh
  split at hh
  · simp at hh
  · split at hh
    · unfold orStderr handleSolution at hh
      cases hw : wantsFile a w <;> cases ho : out.writable <;> simp [hw, ho] at hh
      obtain ⟨rfl, _⟩ := hh
      exact ⟨rfl, rfl⟩
    · simp at hh

theorem onRaise_sol (sc : Scenario) (st : PState) (r : Raise) (f : SolFile) (e : Bool)
    (h : onRaise sc st r = .sol f e) : f.complete = true ∧ sc.out.writable = true := by
  unfold onRaise at h
  split at h
  · exact reportError_not_sol_incomplete _ _ _ _ _ _ _ _ h
  · cases hx : r.toExn <;> simp [hx, rbaOutcome] at h

theorem writeOrRetry_sol (a : Bool) (w : Nat) (out : OutPath) (hd : Bool) (d : Dims) (g f : SolFile) (e : Bool)
    (hg : g.complete = true) (h : writeOrRetry a w out hd d g = .sol f e) : f.complete = true ∧ out.writable = true := by
  unfold writeOrRetry at h
  cases hh : handleSolution a w out g with
  | none => rw [hh] at h; exact reportError_not_sol_incomplete _ _ _ _ _ _ _ _ h
  | some o =>
    rw [hh] at h
    simp only at h
    subst h
    unfold handleSolution at hh
    cases hw : wantsFile a w <;> cases ho : out.writable <;> simp [hw, ho] at hh
    obtain ⟨rfl, _⟩ := hh
    exact ⟨hg, rfl⟩

theorem reportError_crash (a : Bool) (w : Nat) (out : OutPath) (h : Bool) (d : Dims) (x : Exn)
    (hc : reportError a w out h d x = .crash) : x = .foreign := by
  by_cases hx : x = .foreign
  · exact hx
  · exfalso
    rw [reportError_cases _ _ _ _ _ _ hx] at hc
    cases h
    · simp at hc
    · simp only [if_true] at hc
      rcases handleSolution_cases a w out
        { code := x.reportCode, ncons := d.ncons, nduals := 0, nvars := d.nvars, nprimals := 0, complete := true }
        with ⟨_, _, h3⟩ | ⟨_, _, h3⟩ | ⟨_, h3⟩ <;> rw [h3] at hc <;> simp [orStderr] at hc

theorem writeOrRetry_not_crash (a : Bool) (w : Nat) (out : OutPath) (hd : Bool) (d : Dims) (g : SolFile) :
    writeOrRetry a w out hd d g ≠ .crash := by
  intro hc
  unfold writeOrRetry at hc
  rcases handleSolution_cases a w out g with ⟨_, _, h3⟩ | ⟨_, _, h3⟩ | ⟨_, h3⟩ <;> rw [h3] at hc
  · exact absurd (reportError_crash _ _ _ _ _ _ hc) (by simp)
  · simp at hc
  · simp at hc

theorem onRaise_crash (sc : Scenario) (st : PState) (r : Raise) (hc : onRaise sc st r = .crash) : r = .foreign := by
  unfold onRaise at hc
  split at hc
  · exact (toExn_foreign_iff r).1 (reportError_crash _ _ _ _ _ _ hc)
  · cases hx : r.toExn <;> simp [hx, rbaOutcome] at hc
    exact (toExn_foreign_iff r).1 hx

theorem step_done_sol (sc : Scenario) (bs : Behaviours) (p : Step) (st : PState) (f : SolFile) (e : Bool)
    (h : step sc bs p st = .done (.sol f e)) : f.complete = true ∧ sc.out.writable = true := by
  cases p with
  | env s =>
    simp only [step] at h
    split at h
    · simp at h
    · split at h
      · simp at h
      · simp only [Ctl.done.injEq] at h; exact onRaise_sol _ _ _ _ _ h
  | flags =>
    simp only [step] at h
    split at h
    · simp at h
    · simp only [Ctl.done.injEq] at h; exact onRaise_sol _ _ _ _ _ h
    · split at h <;> simp at h
  | parseOpts =>
    simp only [step] at h
    split at h
    · simp only [Ctl.done.injEq] at h; exact onRaise_sol _ _ _ _ _ h
    · simp at h
  | objno =>
    simp only [step] at h
    split at h
    · simp only [Ctl.done.injEq] at h; exact onRaise_sol _ _ _ _ _ h
    · simp at h
  | exportOnly =>
    simp only [step] at h
    split at h <;> simp at h
  | write =>
    simp only [step, Ctl.done.injEq] at h
    exact writeOrRetry_sol _ _ _ _ _ _ _ _ rfl h

end MpVerif.C09

import MpVerif.C09.Pipeline
import MpVerif.Gen.C09Driver
/-!
# C09 — the stage sequence, read off the driver's function bodies

`translators/gen_c09.py` emits, for every function between `main` and the solver's answer
(`RunBackendApp`, `BackendApp::Run`, `BackendApp::Init`, `StdBackend::RunFromNLFile`, `StdBackend::ReadNL`,
`ModelManagerWithProblemBuilder::ReadNLModel` / `ReadNLFile`, `SolverNLHandlerImpl::OnHeader` and the two lambdas),
**every** call, construction, branch condition, throw and return of its body, unfiltered, in evaluation order
(`Gen.C09.sk*`).  This file reads those token lists: each token of each function is given a meaning by hand
(`itemOf`: "is this step(s) of the pipeline" / "the body of that function runs here" / "no effect on the
outcome, accounted inside a neighbouring stage"), calls to functions whose body is translated are inlined, and the
result is compared with `pipeline` (`C09_gen_pipeline` in `Props.lean`).

What this gives and what it does not:
* a token the table does not know — a **new call**, a changed condition, a new `throw`, a reordered statement that
  changes the step order — makes `expand` return `none` or another list, and the theorem fails;
* the *meaning* given to each known token is hand-written (that `Solve` is one abstract stage that may raise, that
  `SetupTimerAndInterrupter` is accounted inside `extras`, that `Report` is report → suffixes → write …), the
  data flow of the two lambdas (`after_header`) and the resolution of virtual calls by name are hand-written too.
  It is a tripwire with structure, not a proof about C++.
-/

namespace MpVerif.C09

/-- What one token stands for. -/
inductive Item where
  /-- these pipeline steps happen here (`[]`: no effect on the outcome that is not accounted elsewhere) -/
  | steps (l : List Step)
  /-- `pre`, then the body of the translated function / lambda `f`, then `post` -/
  | inline (pre : List Step) (f : String) (post : List Step)
deriving Repr

def skip : Option Item := some (.steps [])

/-- The hand-written reading of the tokens, per function.  `none` = a token nobody has looked at. -/
def itemOf (fn tok : String) : Option Item :=
  match fn with
  | "skRunBackendApp" =>
    match tok with
    | "be_creator()" => some (.steps [.env .ctor])          -- the backend's constructor (and BackendApp's)
    | "ctor[mp::BackendApp]" | "GetBackend" | "GetCallbacks" | "operator=" | "return" => skip
    | "Run" => some (.inline [.enterRun] "skRun" [])
    | _ => none
  | "skRun" =>
    match tok with
    | "if[!Init(argv)]" => some (.inline [] "skInit" [])    -- `return result_code_` is the `.info` ending of `.flags`
    | "return" | "endif" | "GetBackend" => skip
    | "RunFromNLFile" => some (.inline [] "skRunFromNLFile" [])
    | _ => none
  | "skInit" =>
    match tok with
    | "Init" => some (.steps [.env .init])                  -- Backend::Init(argv): options are registered
    | "Parse" => some (.steps [.flags])                     -- SolverAppOptionParser::Parse, `if (!filename) return false`
    | "GetBackend" | "operator->" | "if[!filename]" | "return" | "endif" | "if[GetBackend().ampl_flag()]"
    | "ctor[fmt::MemoryWriter]" | "ctor[BasicCStringRef<char>]" | "long_name" | "write" | "c_str" | "fputs"
    | "fflush" | "size" | "operator=" | "strrchr" | "if[!ext||strcmp(ext,\".nl\")!=0]" | "operator+=" | "else"
    | "resize" | "ConditionalOperator{" | "echo_solver_options" | "}" | "SetOptionData" => skip
    | _ => none
  | "skRunFromNLFile" =>
    match tok with
    | "ReadNL" => some (.inline [] "skReadNL" [])
    | "InputExtras" => some (.steps [.env .extras])
    -- timer / export of the model: accounted inside `extras`
    | "GetArgvOptions" | "SetupTimerAndInterrupter" | "if[exportFileMode()>0]" | "export_file_names" | "ExportModel"
    | "endif" | "RecordSolveTime" => skip
    | "if[exportFileMode()!=2]" => some (.steps [.exportOnly])
    | "Solve" => some (.steps [.env .solve])
    | "Report" => some (.steps [.env .report, .env .suffixes, .write])   -- ReportResults: suffixes, then ReportSolution2AMPL
    | _ => none
  | "skReadNL" =>
    match tok with
    | "GetMM" | "GetCallbacks" | "lambda#1" => skip
    | "ReadNLModel" => some (.inline [] "skReadNLModel" [])
    | _ => none
  | "skReadNL_lambda1" =>
    match tok with
    | "GetOptionFlags" => skip
    | "ParseSolverOptions" => some (.steps [.parseOpts, .env .options])
    | _ => none
  | "skReadNLModel" =>
    match tok with
    | "ReadNLFile" => some (.inline [] "skReadNLFile" [])
    | "ReadNames" => some (.steps [.env .names])
    | "ConvertModelAndUpdateBackend" => some (.steps [.env .convert])
    -- timing output and the AMPLS model-traits callback (empty for a driver run)
    | "now" | "lambda#1" | "GetTimeAndReset" | "if[GetEnv().timing()]" | "GetEnv" | "Print" | "endif" | "if[cb_checkmodel]"
    | "ctor[AMPLS_ModelTraits]" | "GetCvt" | "FillModelTraits" | "cb_checkmodel" => skip
    | _ => none
  | "skReadNLModel_lambda1" =>
    match tok with
    | "MakeProperSolutionHandler" => some (.steps [.mkHandler])
    | "if[after_header.operator bool()]" | "endif" => skip
    | "after_header()" => some (.inline [] "skReadNL_lambda1" [])        -- the lambda `ReadNL` passed in
    | _ => none
  | "skReadNLFile" =>
    match tok with
    | "GetPB" | "GetEnv" | "new[mp::ModelManagerWithProblemBuilder::SolverNLHandlerType *]" | "set_nl_read_result_handler"
    | "ctor[internal::NLFileReader<>]" => skip
    -- NLFileReader::Read: open + map the file, read the header text, call the handler's OnHeader, read the body
    | "Read" => some (.inline [.env .openNL, .env .header] "skOnHeader" [.env .body])
    | _ => none
  | "skOnHeader" =>
    match tok with
    | "copy" | "if[after_header_.operator bool()]" | "notify_start_opts" | "endif" | "notify_end_opts" | "objno_specified"
    | "if[objno>h.num_objs&&solver_.is_objno_specified()]" => skip
    | "after_header_()" => some (.inline [] "skReadNLModel_lambda1" []) -- the lambda `ReadNLModel` gave to `ReadNLFile`
    | "throw[mp::InvalidOptionValue]" => some (.steps [.objno])
    | "OnHeader" => some (.steps [.env .populate])           -- Base::OnHeader = NLProblemBuilder::OnHeader
    | _ => none
  | _ => none

def lookupSk (tbl : List (String × List String)) (fn : String) : Option (List String) :=
  match tbl with
  | [] => none
  | (k, v) :: t => if k = fn then some v else lookupSk t fn

/-- The steps a token list of function `fn` stands for, translated bodies inlined.  (`fuel` bounds the total
number of tokens visited, so that the recursion is structural.) -/
def expandToks (tbl : List (String × List String)) : Nat → String → List String → Option (List Step)
  | _, _, [] => some []
  | 0, _, _ :: _ => none
  | n + 1, fn, t :: ts =>
    match itemOf fn t with
    | none => none
    | some (.steps l) => (expandToks tbl n fn ts).map (l ++ ·)
    | some (.inline pre f post) =>
      match lookupSk tbl f with
      | none => none
      | some body =>
        match expandToks tbl n f body, expandToks tbl n fn ts with
        | some b, some r => some (pre ++ b ++ post ++ r)
        | _, _ => none

def expand (tbl : List (String × List String)) (fuel : Nat) (fn : String) : Option (List Step) :=
  match lookupSk tbl fn with
  | none => none
  | some toks => expandToks tbl fuel fn toks

/-- the first token of a function the table does not know (for the error message of the check) -/
def firstUnknown (tbl : List (String × List String)) : Option (String × String) :=
  tbl.findSome? (fun p => (p.2.find? (fun t => (itemOf p.1 t).isNone)).map (fun t => (p.1, t)))

end MpVerif.C09

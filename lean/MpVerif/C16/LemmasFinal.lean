import MpVerif.C16.LemmasExec
/-!
# C16 — from the enumerating analysis to every concrete call
-/
namespace MpVerif.C16

/-- the first n values of f as a list -/
def vecOf (f : Nat → Bool) : Nat → List Bool
  | 0 => []
  | k + 1 => f 0 :: vecOf (fun i => f (i + 1)) k

theorem vecOf_mem (n : Nat) : ∀ f, vecOf f n ∈ allVecs n := by
  induction n with
  | zero => intro f; simp [vecOf, allVecs]
  | succ k ih =>
    intro f
    simp only [vecOf, allVecs, List.mem_flatMap]
    refine ⟨vecOf (fun i => f (i + 1)) k, ih _, ?_⟩
    cases f 0 <;> simp

theorem vecOf_getD (n : Nat) : ∀ f i, i < n → (vecOf f n).getD i false = f i := by
  induction n with
  | zero => intro f i hi; omega
  | succ k ih =>
    intro f i hi
    cases i with
    | zero => simp [vecOf]
    | succ j =>
      simp only [vecOf, List.getD_cons_succ]
      exact ih (fun i => f (i + 1)) j (by omega)

theorem mode_mem (m : Mode) : m ∈ allModes := by
  cases m with
  | mk d h => cases d <;> cases h <;> simp [allModes]

/-- the context of a concrete call is one of the enumerated ones -/
theorem ctx_enumerated (a : Args) (m : Mode) :
    (a.digp = false ∧ ctxOf a m = ⟨a.n, m, false, fun _ => false⟩) ∨
    (a.digp = true ∧ ctxOf a m = ⟨a.n, m, true, vecCst a.n true (vecOf a.dig a.n)⟩) := by
  cases hd : a.digp with
  | false =>
    refine Or.inl ⟨rfl, ?_⟩
    unfold ctxOf
    rw [hd]
    congr 1
    funext i
    simp [Args.const, hd]
  | true =>
    refine Or.inr ⟨rfl, ?_⟩
    unfold ctxOf
    rw [hd]
    congr 1
    funext i
    unfold Args.const vecCst
    by_cases hi : i < a.n
    · rw [vecOf_getD a.n a.dig i hi, hd]
    · simp [hi]

theorem disciplined_aRun {body : Stmt} {n : Nat} (h : disciplined body n = true) (a : Args) (m : Mode) (hn : a.n = n) :
    aRun (ctxOf a m) body = true := by
  unfold disciplined at h
  rw [List.all_eq_true] at h
  have hm := h m (mode_mem m)
  rw [Bool.and_eq_true, List.all_eq_true] at hm
  subst hn
  cases ctx_enumerated a m with
  | inl hc => rw [hc.2]; exact hm.1
  | inr hc => rw [hc.2]; exact hm.2 _ (vecOf_mem a.n a.dig)

theorem rel_init (a : Args) : Rel APt.init (St.init a) :=
  ⟨fun h => (nomatch h), fun _ _ h => (nomatch h), Or.inr ⟨fun _ h => (nomatch h), fun _ h => (nomatch h)⟩⟩

theorem aRun_sound {body : Stmt} (o : Oracle) (a : Args) (m : Mode) (h : aRun (ctxOf a m) body = true) :
    (run body o a m).ret.isSome = true ∧ Post a m (run body o a m) := by
  unfold aRun at h
  rw [Bool.and_eq_true] at h
  have sim := exec_sim o a m body [] APt.init (St.init a) (rel_init a) rfl h.1
  have hsome : (run body o a m).ret.isSome = true := by
    cases hx : (run body o a m).ret with
    | some v => rfl
    | none =>
      obtain ⟨q, hq, _⟩ := sim.run hx
      rw [hq] at h; simp at h
  exact ⟨hsome, sim.done hsome⟩

end MpVerif.C16

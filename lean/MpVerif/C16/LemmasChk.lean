import MpVerif.C16.Lemmas
/-!
# C16 — the checkers: concrete facts and their abstract counterparts
-/
namespace MpVerif.C16

theorem evalError_mono (c : St) : ErrMono c c.evalError := ⟨rfl, rfl, rfl, rfl, rfl, rfl, rfl, fun _ => rfl⟩
theorem evalError_some (c : St) : c.evalError.err.isSome = true := rfl
theorem argError_mono (c : St) : ErrMono c c.argError := ⟨rfl, rfl, rfl, rfl, rfl, rfl, rfl, fun _ => rfl⟩
theorem argError_some (c : St) : c.argError.err.isSome = true := rfl

theorem derivError_mono (c : St) : ErrMono c c.derivError := by
  unfold St.derivError
  cases h : c.err with
  | none => exact ⟨rfl, rfl, rfl, rfl, rfl, rfl, rfl, fun _ => rfl⟩
  | some k => exact ⟨rfl, rfl, rfl, rfl, rfl, rfl, rfl, fun h' => h'⟩

theorem derivError_some (c : St) : c.derivError.err.isSome = true := by
  unfold St.derivError
  cases h : c.err with
  | none => rfl
  | some k => simp [h]

/-- facts every checker satisfies: only the error changes, and a failing check leaves an error behind -/
structure ChkOk (c : St) (r : Bool × St) : Prop where
  mono : ErrMono c r.2
  fail : r.1 = false → r.2.err.isSome = true

theorem checkArgs_ok (a : Args) (c : St) : ChkOk c (checkArgs a c) := by
  unfold checkArgs
  split
  · exact ⟨evalError_mono c, fun _ => evalError_some c⟩
  · exact ⟨ErrMono.refl c, fun h => by cases h⟩

theorem checkConstArg_ok (a : Args) (i : Nat) (c : St) : ChkOk c (checkConstArg a i c) := by
  unfold checkConstArg
  split
  · exact ⟨ErrMono.refl c, fun h => by cases h⟩
  · exact ⟨derivError_mono c, fun _ => derivError_some c⟩

theorem checkConstArg_true (a : Args) (i : Nat) (c : St) (h : (checkConstArg a i c).1 = true) : a.const i = true := by
  unfold checkConstArg at h
  split at h
  · assumption
  · cases h

theorem checkConstArg_false (a : Args) (i : Nat) (c : St) (h : (checkConstArg a i c).1 = false) : a.const i = false := by
  unfold checkConstArg at h
  split at h
  · cases h
  · rename_i hc; simpa using hc

theorem checkConstArg_notconst (a : Args) (i : Nat) (c : St) (h : a.const i = false) :
    (checkConstArg a i c).2.err.isSome = true := by
  unfold checkConstArg
  simp only [h]
  exact derivError_some c

theorem checkIntArg_ok (a : Args) (m : Mode) (i : Nat) (c : St) : ChkOk c (checkIntArg a m i c) := by
  unfold checkIntArg
  split
  · exact ⟨argError_mono c, fun _ => argError_some c⟩
  · split
    · exact ⟨(checkConstArg_ok a i c).mono, fun h => by cases h⟩
    · exact ⟨ErrMono.refl c, fun h => by cases h⟩

theorem checkIntArg_deriv (a : Args) (m : Mode) (i : Nat) (c : St) (h : (checkIntArg a m i c).1 = true)
    (hd : m.derivs = true) (hc : a.const i = false) : (checkIntArg a m i c).2.err.isSome = true := by
  unfold checkIntArg at h ⊢
  split
  · rename_i h1; simp only [h1, if_true] at h; cases h
  · simp only [hd, if_true]
    exact checkConstArg_notconst a i c hc

theorem checkUintArg_ok (a : Args) (m : Mode) (i : Nat) (c : St) : ChkOk c (checkUintArg a m i c) := by
  unfold checkUintArg
  split
  · exact ⟨argError_mono c, fun _ => argError_some c⟩
  · split
    · exact ⟨(checkConstArg_ok a i c).mono, fun h => by cases h⟩
    · exact ⟨ErrMono.refl c, fun h => by cases h⟩

theorem checkUintArg_deriv (a : Args) (m : Mode) (i : Nat) (c : St) (h : (checkUintArg a m i c).1 = true)
    (hd : m.derivs = true) (hc : a.const i = false) : (checkUintArg a m i c).2.err.isSome = true := by
  unfold checkUintArg at h ⊢
  split
  · rename_i h1; simp only [h1, if_true] at h; cases h
  · simp only [hd, if_true]
    exact checkConstArg_notconst a i c hc

theorem checkZeroFuncArgs_ok (a : Args) (m : Mode) (i : Nat) (c : St) : ChkOk c (checkZeroFuncArgs a m i c) := by
  unfold checkZeroFuncArgs
  split
  · exact ⟨argError_mono c, fun _ => argError_some c⟩
  · split
    · refine ⟨?_, fun h => by cases h⟩
      show ErrMono c (if (checkConstArg a i c).1 = true then (checkConstArg a i c).2.derivError else (checkConstArg a i c).2)
      split
      · exact (checkConstArg_ok a i c).mono.trans (derivError_mono _)
      · exact (checkConstArg_ok a i c).mono
    · exact ⟨ErrMono.refl c, fun h => by cases h⟩

theorem checkZeroFuncArgs_deriv (a : Args) (m : Mode) (i : Nat) (c : St)
    (hd : m.derivs = true) (h : (checkZeroFuncArgs a m i c).1 = true) : (checkZeroFuncArgs a m i c).2.err.isSome = true := by
  unfold checkZeroFuncArgs at h ⊢
  split
  · rename_i h1; simp only [h1, if_true] at h; cases h
  · simp only [hd, if_true]
    show (if (checkConstArg a i c).1 = true then (checkConstArg a i c).2.derivError else (checkConstArg a i c).2).err.isSome = true
    split
    · exact derivError_some _
    · rename_i hf
      have : (checkConstArg a i c).1 = false := by simpa using hf
      exact (checkConstArg_ok a i c).fail this

theorem tick_mono (c : St) : ErrMono c { c with tc := c.tc + 1 } := ⟨rfl, rfl, rfl, rfl, rfl, rfl, rfl, id⟩

theorem checkDerivArg_ok (arg lo hi : Int) (c : St) : ChkOk c (checkDerivArg arg lo hi c) := by
  unfold checkDerivArg
  split
  · exact ⟨derivError_mono c, fun _ => derivError_some c⟩
  · split
    · exact ⟨derivError_mono c, fun _ => derivError_some c⟩
    · exact ⟨ErrMono.refl c, fun h => by cases h⟩

theorem thenChk_ok {c : St} {r : Bool × St} {k : St → Bool × St} (h1 : ChkOk c r) (h2 : ChkOk r.2 (k r.2)) :
    ChkOk c (thenChk r k) := by
  unfold thenChk
  split
  · exact ⟨h1.mono.trans h2.mono, h2.fail⟩
  · rename_i h; exact ⟨h1.mono, fun _ => h1.fail (by simpa using h)⟩

theorem thenChk_true {r : Bool × St} {k : St → Bool × St} (h : (thenChk r k).1 = true) :
    r.1 = true ∧ thenChk r k = k r.2 := by
  unfold thenChk at h ⊢
  split
  · rename_i h1; exact ⟨h1, rfl⟩
  · rename_i h1; simp only [h1] at h; cases h

theorem chkOk_pure (c : St) : ChkOk c (true, c) := ⟨ErrMono.refl c, fun h => by cases h⟩

theorem besselTail_ok (a : Args) (m : Mode) (flag : Bool) (s1 : St) :
    ChkOk s1 (if m.derivs then
      if m.hes then
        thenChk (checkDerivArg (a.raInt 0) (intMin + 2) (intMax - 2) s1) fun s2 =>
          thenChk (checkDerivArg (a.raInt 0) (derivMin flag) (intMax - 1) s2) fun s3 => (true, s3)
      else thenChk (checkDerivArg (a.raInt 0) (derivMin flag) (intMax - 1) s1) fun s3 => (true, s3)
    else (true, s1)) := by
  split
  · split
    · exact thenChk_ok (checkDerivArg_ok _ _ _ s1) (thenChk_ok (checkDerivArg_ok _ _ _ _) (chkOk_pure _))
    · exact thenChk_ok (checkDerivArg_ok _ _ _ s1) (chkOk_pure _)
  · exact chkOk_pure _

theorem checkBesselArgs_ok (a : Args) (m : Mode) (flag : Bool) (c : St) : ChkOk c (checkBesselArgs a m flag c) := by
  unfold checkBesselArgs
  exact thenChk_ok (checkIntArg_ok a m 0 c) (besselTail_ok a m flag _)

theorem checkBesselArgs_deriv (a : Args) (m : Mode) (flag : Bool) (c : St) (h : (checkBesselArgs a m flag c).1 = true)
    (hd : m.derivs = true) (hc : a.const 0 = false) : (checkBesselArgs a m flag c).2.err.isSome = true := by
  -- the error left by check_int_arg's constness test survives the remaining (error-monotone) steps
  unfold checkBesselArgs at h ⊢
  obtain ⟨hit, heq⟩ := thenChk_true h
  rw [heq]
  have he := checkIntArg_deriv a m 0 c hit hd hc
  exact (besselTail_ok a m flag _).mono.err he

theorem checkCouplingFrom_ok (a : Args) (m : Mode) (fuel : Nat) : ∀ i c, ChkOk c (checkCouplingFrom a m fuel i c) := by
  induction fuel with
  | zero => intro i c; exact ⟨ErrMono.refl c, fun h => by cases h⟩
  | succ f ih =>
    intro i c
    unfold checkCouplingFrom
    exact thenChk_ok (checkIntArg_ok a m i c) (ih (i + 1) _)

/-- if some argument in [i, i+fuel) is not constant and derivatives are requested, a passing coupling check leaves an error -/
theorem checkCouplingFrom_deriv (a : Args) (m : Mode) (hd : m.derivs = true) (fuel : Nat) :
    ∀ i c, (checkCouplingFrom a m fuel i c).1 = true →
      (c.err.isSome = true ∨ ∃ j, i ≤ j ∧ j < i + fuel ∧ a.const j = false) →
      (checkCouplingFrom a m fuel i c).2.err.isSome = true := by
  induction fuel with
  | zero =>
    intro i c _ h
    cases h with
    | inl h => exact h
    | inr h => obtain ⟨j, h1, h2, _⟩ := h; omega
  | succ f ih =>
    intro i c hres h
    have hi := checkIntArg_ok a m i c
    unfold checkCouplingFrom at hres ⊢
    obtain ⟨hit, heq⟩ := thenChk_true hres
    rw [heq] at hres ⊢
    apply ih (i + 1) _ hres
    cases h with
    | inl h => exact Or.inl (hi.mono.err h)
    | inr h =>
      obtain ⟨j, hj1, hj2, hj3⟩ := h
      by_cases hji : j = i
      · subst hji; exact Or.inl (checkIntArg_deriv a m j c hit hd hj3)
      · exact Or.inr ⟨j, by omega, by omega, hj3⟩

end MpVerif.C16

import MpVerif.C16.LemmasSim
/-!
# C16 — statements: abstract execution simulates concrete execution; the final soundness theorem
-/
namespace MpVerif.C16

/-- what a returned state must satisfy -/
structure Post (a : Args) (m : Mode) (c : St) : Prop where
  good : c.err = none →
    c.ret = some (.val false) ∧
    (m.derivs = true →
      anyBelow a.n c.d = false ∧
      (∀ i, i < a.n → a.const i = false → c.wd i = true) ∧
      (m.hes = true →
        anyBelow (hesLen a.n) c.h = false ∧
        ∀ i j, i ≤ j → j < a.n → a.const i = false → a.const j = false → c.wh (hesIdx i j) = true))

structure Sim (a : Args) (m : Mode) (r : ARes) (c' : St) : Prop where
  run : c'.ret = none → ∃ p', r.cur = some p' ∧ Rel p' c'
  done : c'.ret.isSome = true → Post a m c'

theorem sim_continue {a : Args} {m : Mode} {p : APt} {c : St} (rel : Rel p c) (hr : c.ret = none) :
    Sim a m ⟨true, some p⟩ c :=
  ⟨fun _ => ⟨p, rfl, rel⟩, fun h => by rw [hr] at h; cases h⟩

theorem checkResult_ret_some (a : Args) (m : Mode) (rn : Bool) (c : St) : (checkResult a m rn c).ret.isSome = true := by
  unfold checkResult
  repeat (first | rfl | split)

theorem post_plain (a : Args) (m : Mode) (p : APt) (c : St) (rel : Rel p c)
    (ok : (p.errDef || !m.derivs || covered (ctxOf a m) p) = true)
    (hde : m.derivs = true → c.err = none → anyBelow a.n c.d = false ∧ (m.hes = true → anyBelow (hesLen a.n) c.h = false)) :
    Post a m { c with ret := some (.val false) } := by
  constructor
  intro herr
  have hce : c.err = none := herr
  refine ⟨rfl, fun hd => ?_⟩
  obtain ⟨hdn, hhn⟩ := hde hd hce
  have hnerr : ¬ c.err.isSome = true := by rw [hce]; simp
  have hpe : p.errDef = false := by
    cases hp : p.errDef with
    | false => rfl
    | true => exact absurd (rel.err hp) hnerr
  have hcov : covered (ctxOf a m) p = true := by
    rw [hpe, hd] at ok; simpa using ok
  have hf : Facts p c := by
    cases rel.facts with
    | inl h => exact absurd h hnerr
    | inr f => exact f
  unfold covered at hcov
  rw [Bool.and_eq_true] at hcov
  refine ⟨hdn, ?_, ?_⟩
  · intro i hi hci
    have h2 : (a.const i || p.wd i) = true := allBelow_true hcov.1 i hi
    rw [hci, Bool.false_or] at h2
    exact hf.wd i h2
  · intro hh
    have hh' : (ctxOf a m).m.hes = true := hh
    refine ⟨hhn hh, ?_⟩
    intro i j hij hj hci hcj
    have h3 := hcov.2
    rw [hh'] at h3
    have h4 : allBelow a.n (fun j => allBelow (j + 1) (fun i => a.const i || a.const j || p.wh (hesIdx i j))) = true := by
      simpa [ctxOf] using h3
    have h5 := allBelow_true h4 j hj
    have h6 := allBelow_true h5 i (by omega)
    have h7 : (a.const i || a.const j || p.wh (hesIdx i j)) = true := h6
    rw [hci, hcj] at h7
    exact hf.wh _ (by simpa using h7)

theorem post_checkResult (a : Args) (m : Mode) (p : APt) (c : St) (rn : Bool) (rel : Rel p c)
    (ok : (p.errDef || !m.derivs || covered (ctxOf a m) p) = true) : Post a m (checkResult a m rn c) := by
  by_cases h1 : rn = true
  · constructor; intro herr; simp [checkResult, h1, St.evalError] at herr
  · have h1' : rn = false := by simpa using h1
    subst h1'
    by_cases h2 : anyBelow a.n a.raNaN = true
    · constructor; intro herr; simp [checkResult, h2, St.evalError] at herr
    · by_cases h3 : (m.derivs && c.err.isNone) = true
      · by_cases h4 : anyBelow a.n c.d = true
        · constructor; intro herr; simp [checkResult, h2, h3, h4] at herr
        · by_cases h5 : (m.hes && anyBelow (hesLen a.n) c.h) = true
          · constructor; intro herr; simp [checkResult, h2, h3, h4, h5] at herr
          · have hcr : checkResult a m false c = { c with ret := some (.val false) } := by
              simp [checkResult, h2, h3, h4, h5]
            rw [hcr]
            apply post_plain a m p c rel ok
            intro _ _
            refine ⟨by simpa using h4, fun hh => ?_⟩
            rw [hh] at h5; simpa using h5
      · have hcr : checkResult a m false c = { c with ret := some (.val false) } := by
          simp [checkResult, h2, h3]
        rw [hcr]
        apply post_plain a m p c rel ok
        intro hd hce
        rw [hd, hce] at h3
        simp at h3

theorem thenRes_sim {a : Args} {m : Mode} {r1 : ARes} {k : APt → ARes} {c1 : St} {kc : St → St}
    (hok : (thenRes r1 k).ok = true)
    (s1 : r1.ok = true → Sim a m r1 c1)
    (s2 : ∀ p1, r1.cur = some p1 → Rel p1 c1 → c1.ret = none → (k p1).ok = true → Sim a m (k p1) (kc c1)) :
    Sim a m (thenRes r1 k) (thenSt c1 kc) := by
  unfold thenRes at hok ⊢
  unfold thenSt
  cases hcur : r1.cur with
  | none =>
    rw [hcur] at hok
    simp only at hok ⊢
    have sim1 := s1 hok
    have hdone : c1.ret.isSome = true := by
      cases hx : c1.ret with
      | some v => rfl
      | none =>
        obtain ⟨q, hq, _⟩ := sim1.run hx
        rw [hcur] at hq; cases hq
    rw [if_pos hdone]
    exact ⟨fun h => (by rw [h] at hdone; cases hdone), sim1.done⟩
  | some p1 =>
    rw [hcur] at hok
    simp only at hok ⊢
    rw [Bool.and_eq_true] at hok
    have sim1 := s1 hok.1
    by_cases hdone : c1.ret.isSome = true
    · rw [if_pos hdone]
      exact ⟨fun h => (by rw [h] at hdone; cases hdone), sim1.done⟩
    · rw [if_neg hdone]
      have hnone : c1.ret = none := by
        cases hx : c1.ret with
        | none => rfl
        | some v => rw [hx] at hdone; simp at hdone
      obtain ⟨q, hq, rq⟩ := sim1.run hnone
      rw [hcur] at hq; cases hq
      have := s2 p1 hcur rq hnone hok.2
      exact ⟨this.run, this.done⟩

theorem exec_sim (o : Oracle) (a : Args) (m : Mode) (s : Stmt) :
    ∀ (e : Env) (p : APt) (c : St), Rel p c → c.ret = none → (aExec (ctxOf a m) s e p).ok = true →
      Sim a m (aExec (ctxOf a m) s e p) (exec o a m s e c) := by
  induction s with
  | skip => intro e p c rel hr _; exact sim_continue rel hr
  | num => intro e p c rel hr _; exact sim_continue rel hr
  | setb v cnd =>
    intro e p c rel hr _
    obtain ⟨cv, mono⟩ := cond_sim o a m e cnd p c rel
    have hret : (evalCond o a m e cnd c).2.ret = none := by rw [mono]; exact hr
    refine ⟨fun _ => ?_, fun h => ?_⟩
    · simp only [aExec, exec]
      have key : ∀ (b : Bool) (q : APt), Rel q (evalCond o a m e cnd c).2 → (evalCond o a m e cnd c).1 = b →
          Rel (q.setLb v b) { (evalCond o a m e cnd c).2 with lb := upd (evalCond o a m e cnd c).2.lb v (evalCond o a m e cnd c).1 } := by
        intro b q rq hb
        refine ⟨rq.err, ?_, ?_⟩
        · intro x b' hx
          have hx' : (if x = v then some b else q.lb x) = some b' := hx
          show upd _ v _ x = b'
          unfold upd
          split at hx'
          · rename_i hxv; rw [if_pos hxv]; cases hx'; exact hb
          · rename_i hxv; rw [if_neg hxv]; exact rq.lb x b' hx'
        · cases rq.facts with
          | inl h => exact Or.inl h
          | inr f => exact Or.inr ⟨f.wd, f.wh⟩
      cases hb : (evalCond o a m e cnd c).1 with
      | true =>
        obtain ⟨pt, hpt, rpt⟩ := cv.tt hb
        have := key true pt rpt hb
        rw [hb] at this
        exact joinO_left (p := pt.setLb v true) (by rw [hpt]; rfl) this
      | false =>
        obtain ⟨pf, hpf, rpf⟩ := cv.ff hb
        have := key false pf rpf hb
        rw [hb] at this
        exact joinO_right (p := pf.setLb v false) (by rw [hpf]; rfl) this
    · simp only [exec] at h
      rw [hret] at h; cases h
  | wd i =>
    intro e p c rel hr _
    refine ⟨fun _ => ⟨_, rfl, ?_⟩, fun h => ?_⟩
    · refine ⟨rel.err, rel.lb, ?_⟩
      cases rel.facts with
      | inl h => exact Or.inl h
      | inr f =>
        refine Or.inr ⟨?_, f.wh⟩
        intro k hk
        show upd c.wd (i.val e) true k = true
        have hk' : upd p.wd (i.val e) true k = true := hk
        unfold upd at hk' ⊢
        split
        · rfl
        · rename_i hne; rw [if_neg hne] at hk'; exact f.wd k hk'
    · simp only [exec] at h; rw [hr] at h; cases h
  | wh i =>
    intro e p c rel hr _
    refine ⟨fun _ => ⟨_, rfl, ?_⟩, fun h => ?_⟩
    · refine ⟨rel.err, rel.lb, ?_⟩
      cases rel.facts with
      | inl h => exact Or.inl h
      | inr f =>
        refine Or.inr ⟨f.wd, ?_⟩
        intro k hk
        show upd c.wh (i.val e) true k = true
        have hk' : upd p.wh (i.val e) true k = true := hk
        unfold upd at hk' ⊢
        split
        · rfl
        · rename_i hne; rw [if_neg hne] at hk'; exact f.wh k hk'
    · simp only [exec] at h; rw [hr] at h; cases h
  | eval cnd =>
    intro e p c rel hr _
    obtain ⟨cv, mono⟩ := cond_sim o a m e cnd p c rel
    have hret : (evalCond o a m e cnd c).2.ret = none := by rw [mono]; exact hr
    refine ⟨fun _ => ?_, fun h => ?_⟩
    · simp only [aExec, exec]
      cases hb : (evalCond o a m e cnd c).1 with
      | true => obtain ⟨pt, hpt, rpt⟩ := cv.tt hb; exact joinO_left hpt rpt
      | false => obtain ⟨pf, hpf, rpf⟩ := cv.ff hb; exact joinO_right hpf rpf
    · simp only [exec] at h; rw [hret] at h; cases h
  | errEval =>
    intro e p c rel hr _
    exact ⟨fun _ => ⟨_, rfl, rel.setErr (evalError_mono c) (evalError_some c)⟩, fun h => by
      have : c.evalError.ret = c.ret := rfl
      simp only [exec] at h; rw [this, hr] at h; cases h⟩
  | errDeriv =>
    intro e p c rel hr _
    exact ⟨fun _ => ⟨_, rfl, rel.setErr (derivError_mono c) (derivError_some c)⟩, fun h => by
      simp only [exec] at h; rw [(derivError_mono c).ret, hr] at h; cases h⟩
  | errArg =>
    intro e p c rel hr _
    exact ⟨fun _ => ⟨_, rfl, rel.setErr (argError_mono c) (argError_some c)⟩, fun h => by
      have : c.argError.ret = c.ret := rfl
      simp only [exec] at h; rw [this, hr] at h; cases h⟩
  | ite cnd t f iht ihf =>
    intro e p c rel hr hok
    obtain ⟨cv, mono⟩ := cond_sim o a m e cnd p c rel
    have hret : (evalCond o a m e cnd c).2.ret = none := by rw [mono]; exact hr
    simp only [aExec] at hok ⊢
    rw [Bool.and_eq_true] at hok
    simp only [exec]
    cases hb : (evalCond o a m e cnd c).1 with
    | true =>
      simp only [if_true]
      obtain ⟨pt, hpt, rpt⟩ := cv.tt hb
      rw [hpt] at hok ⊢
      have := iht e pt _ rpt hret hok.1
      refine ⟨fun h => ?_, this.done⟩
      obtain ⟨q, hq, rq⟩ := this.run h
      exact joinO_left hq rq
    | false =>
      simp only [Bool.false_eq_true, if_false]
      obtain ⟨pf, hpf, rpf⟩ := cv.ff hb
      rw [hpf] at hok ⊢
      have := ihf e pf _ rpf hret hok.2
      refine ⟨fun h => ?_, this.done⟩
      obtain ⟨q, hq, rq⟩ := this.run h
      exact joinO_right hq rq
  | seq s1 s2 ih1 ih2 =>
    intro e p c rel hr hok
    simp only [aExec] at hok ⊢
    simp only [exec]
    exact thenRes_sim hok (fun h => ih1 e p c rel hr h) (fun p1 _ rq hnone h2 => ih2 e p1 _ rq hnone h2)
  | for_ v start body ih =>
    intro e p c rel hr hok
    simp only [aExec] at hok ⊢
    simp only [exec]
    have loop : ∀ (fuel i : Nat) (p : APt) (c : St), Rel p c → c.ret = none →
        (aLoop (aExec (ctxOf a m) body) e v a.n fuel i p).ok = true →
        Sim a m (aLoop (aExec (ctxOf a m) body) e v a.n fuel i p) (loopFrom (exec o a m body) e v a.n fuel i c) := by
      intro fuel
      induction fuel with
      | zero => intro i p c rel hr _; exact sim_continue rel hr
      | succ f ihf =>
        intro i p c rel hr hok
        unfold aLoop at hok ⊢
        unfold loopFrom
        by_cases hin : i < a.n
        · rw [if_pos hin] at hok ⊢
          rw [if_pos hin]
          exact thenRes_sim hok (fun h => ih ((v, i) :: e) p c rel hr h)
            (fun p1 _ rq hnone h2 => ihf (i + 1) p1 _ rq hnone h2)
        · rw [if_neg hin] at hok ⊢
          rw [if_neg hin]
          exact sim_continue rel hr
    exact loop a.n start p c rel hr hok
  | retCheck =>
    intro e p c rel _ hok
    simp only [aExec] at hok ⊢
    simp only [exec]
    have mono : ErrMono c { c with tv := c.tv + 1 } := ⟨rfl, rfl, rfl, rfl, rfl, rfl, rfl, id⟩
    have hp := post_checkResult a m p _ (o.rval c.tv) (rel.mono mono) hok
    refine ⟨fun h => ?_, fun _ => hp⟩
    have := checkResult_ret_some a m (o.rval c.tv) { c with tv := c.tv + 1 }
    rw [h] at this; cases this
  | retCheckNaN =>
    intro e p c rel _ _
    simp only [aExec, exec]
    refine ⟨fun h => ?_, fun _ => ⟨fun herr => ?_⟩⟩
    · have := checkResult_ret_some a m true c
      rw [h] at this; cases this
    · simp [checkResult, St.evalError] at herr
  | ret0 =>
    intro e p c rel _ hok
    simp only [aExec] at hok ⊢
    simp only [exec]
    have he := rel.err hok
    refine ⟨fun h => (nomatch h), fun _ => ⟨fun hn => ?_⟩⟩
    have : c.err = none := hn
    rw [this] at he; cases he
  | retRaw =>
    intro e p c _ _ hok
    simp only [aExec] at hok
    cases hok

end MpVerif.C16

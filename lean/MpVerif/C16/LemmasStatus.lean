import MpVerif.C16.LemmasChk
/-!
# C16 — every GSL status is looked at: a non-success status of an `_e` routine always ends in `Errmsg`

`Cond.gsl k` is the translation of a call of a GSL `_e` routine (its truth value: status ≠ GSL_SUCCESS,
remembered in local k).  `guarded` accepts a skeleton only if every such call occurs in one of the three
shapes the file uses, with the status compared **against GSL_SUCCESS and nothing else**:

* `status = gsl_…_e(…); if (status != GSL_SUCCESS) { eval_error(al); return 0; }`            (CHECK_CALL)
* `if (gsl_…_e(…)) { eval_error(al); return 0; }`                                              (coulomb_CL)
* `return check_result(al, gsl_…_e(…) ? GSL_NAN : result.val);`                                (mathieu_*)

A weakened test (`status == GSL_EDOM || …`) is translated to an opaque comparison and no longer matches.
-/
namespace MpVerif.C16

def Cond.noGsl : Cond → Bool
  | .gsl _ => false
  | .not c => c.noGsl
  | .and a b => a.noGsl && b.noGsl
  | .or a b => a.noGsl && b.noGsl
  | _ => true

/-- the guard `{ eval_error(al); return 0; }` -/
def isFail (s : Stmt) : Bool := s == .seq .errEval .ret0

def guarded : Stmt → Bool
  | .seq a b =>
    (match a, b with
     | .eval (.gsl k), .seq (.ite (.lb k') t .skip) rest => k == k' && isFail t && guarded rest
     | _, _ => false) || (guarded a && guarded b)
  | .ite c t f =>
    (match c with
     | .gsl _ => (isFail t && f == .skip) || (t == .retCheckNaN && f == .retCheck)
     | _ => false) || (c.noGsl && guarded t && guarded f)
  | .for_ _ _ body => guarded body
  | .setb _ c => c.noGsl
  | .eval c => c.noGsl
  | _ => true

/-- the invariant: a reported GSL failure is always accompanied by an error message -/
def StatusOk (c : St) : Prop := c.gf = true → c.err.isSome = true

theorem statusOk_mono {c c' : St} (h : StatusOk c) (m : ErrMono c c') : StatusOk c' := by
  intro hg; rw [m.gf] at hg; exact m.err (h hg)

theorem cond_noGsl_mono (o : Oracle) (a : Args) (m : Mode) (e : Env) (cnd : Cond) :
    cnd.noGsl = true → ∀ c, ErrMono c (evalCond o a m e cnd c).2 := by
  induction cnd with
  | gsl k => intro h; cases h
  | not c1 ih => intro h c; exact ih h c
  | and c1 c2 ih1 ih2 =>
    intro h c
    simp only [Cond.noGsl, Bool.and_eq_true] at h
    simp only [evalCond]
    split
    · exact (ih1 h.1 c).trans (ih2 h.2 _)
    · exact ih1 h.1 c
  | or c1 c2 ih1 ih2 =>
    intro h c
    simp only [Cond.noGsl, Bool.and_eq_true] at h
    simp only [evalCond]
    split
    · exact ih1 h.1 c
    · exact (ih1 h.1 c).trans (ih2 h.2 _)
  | opq => intro _ c; exact tick_mono c
  | chk ck =>
    intro _ c
    cases ck with
    | args => exact (checkArgs_ok a c).mono
    | constArg i => exact (checkConstArg_ok a _ c).mono
    | intArg i => exact (checkIntArg_ok a m _ c).mono
    | uintArg i => exact (checkUintArg_ok a m _ c).mono
    | zeroFunc i => exact (checkZeroFuncArgs_ok a m _ c).mono
    | bessel f => exact (checkBesselArgs_ok a m f c).mono
    | coupling => exact (checkCouplingFrom_ok a m a.n 0 c).mono
  | derivs => intro _ c; exact ErrMono.refl c
  | hes => intro _ c; exact ErrMono.refl c
  | digp => intro _ c; exact ErrMono.refl c
  | dig i => intro _ c; exact ErrMono.refl c
  | lb x => intro _ c; exact ErrMono.refl c
  | lit b => intro _ c; exact ErrMono.refl c

theorem checkResult_gf (a : Args) (m : Mode) (rn : Bool) (c : St) : (checkResult a m rn c).gf = c.gf := by
  unfold checkResult
  repeat (first | rfl | split)

theorem checkResult_err (a : Args) (m : Mode) (rn : Bool) (c : St) (h : c.err.isSome = true) :
    (checkResult a m rn c).err.isSome = true := by
  unfold checkResult
  repeat (first | rfl | exact h | split)

theorem checkResult_statusOk (a : Args) (m : Mode) (rn : Bool) (c : St) (h : StatusOk c) : StatusOk (checkResult a m rn c) := by
  intro hg
  rw [checkResult_gf] at hg
  exact checkResult_err a m rn c (h hg)

theorem statusOk_ite {P : Prop} [Decidable P] {x y : St} (hx : P → StatusOk x) (hy : ¬P → StatusOk y) :
    StatusOk (if P then x else y) := by
  by_cases h : P
  · rw [if_pos h]; exact hx h
  · rw [if_neg h]; exact hy h

theorem thenSt_none {c1 : St} {k : St → St} (h : c1.ret = none) : thenSt c1 k = k c1 := by
  unfold thenSt; rw [h]; rfl

theorem exec_fail_statusOk (o : Oracle) (a : Args) (m : Mode) (e : Env) (c : St) :
    StatusOk (exec o a m (.seq .errEval .ret0) e c) := by
  show StatusOk (thenSt c.evalError (fun s' => { s' with ret := some .zero }))
  unfold thenSt
  exact statusOk_ite (fun _ _ => rfl) (fun _ _ => rfl)

/-- the state right after `status_k = gsl_…_e(…)` -/
def afterGsl (o : Oracle) (k : Nat) (c : St) : St :=
  { c with lb := upd c.lb k (o.cond c.tc), gf := c.gf || o.cond c.tc, tc := c.tc + 1 }

theorem afterGsl_ok (o : Oracle) (k : Nat) (c : St) (h : StatusOk c) (hb : o.cond c.tc = false) : StatusOk (afterGsl o k c) := by
  intro hg
  have hg' : (c.gf || o.cond c.tc) = true := hg
  rw [hb, Bool.or_false] at hg'
  exact h hg'

/-- `if (status_k != GSL_SUCCESS) { eval_error(al); return 0; } rest` entered with a bad status -/
theorem guard_fires (o : Oracle) (a : Args) (m : Mode) (e : Env) (k : Nat) (rest : Stmt) (c1 : St)
    (h1 : c1.lb k = true) (h2 : c1.ret = none) :
    StatusOk (exec o a m (.seq (.ite (.lb k) (.seq .errEval .ret0) .skip) rest) e c1) := by
  show StatusOk (thenSt (if (c1.lb k) = true then exec o a m (.seq .errEval .ret0) e c1 else c1) (fun s' => exec o a m rest e s'))
  rw [h1, if_pos rfl]
  have hret : (exec o a m (.seq .errEval .ret0) e c1).ret = some .zero := by
    show (thenSt c1.evalError (fun s' => { s' with ret := some .zero })).ret = some .zero
    have : c1.evalError.ret = none := h2
    rw [thenSt_none this]
  unfold thenSt
  rw [hret]
  exact exec_fail_statusOk o a m e c1

theorem guarded_sound (o : Oracle) (a : Args) (m : Mode) (s : Stmt) :
    guarded s = true → ∀ (e : Env) (c : St), c.ret = none → StatusOk c → StatusOk (exec o a m s e c) := by
  induction s with
  | skip => intro _ e c _ h; exact h
  | num => intro _ e c _ h; exact h
  | wd i => intro _ e c _ h; exact fun hg => h hg
  | wh i => intro _ e c _ h; exact fun hg => h hg
  | errEval => intro _ e c _ _; exact fun _ => rfl
  | errDeriv => intro _ e c _ h; exact statusOk_mono h (derivError_mono c)
  | errArg => intro _ e c _ _; exact fun _ => rfl
  | ret0 => intro _ e c _ h; exact fun hg => h hg
  | retRaw => intro _ e c _ h; exact fun hg => h hg
  | retCheck => intro _ e c _ h; exact checkResult_statusOk a m _ _ (fun hg => h hg)
  | retCheckNaN => intro _ e c _ h; exact checkResult_statusOk a m _ _ h
  | setb v cnd =>
    intro hgd e c _ h
    have hn : cnd.noGsl = true := hgd
    have mono := cond_noGsl_mono o a m e cnd hn c
    intro hg
    have hg' : (evalCond o a m e cnd c).2.gf = true := hg
    rw [mono.gf] at hg'
    exact mono.err (h hg')
  | eval cnd =>
    intro hgd e c _ h
    have hn : cnd.noGsl = true := hgd
    exact statusOk_mono h (cond_noGsl_mono o a m e cnd hn c)
  | for_ v start body ih =>
    intro hgd e c hr h
    have hb : guarded body = true := hgd
    simp only [exec]
    have loop : ∀ (fuel i : Nat) (c : St), c.ret = none → StatusOk c →
        StatusOk (loopFrom (exec o a m body) e v a.n fuel i c) := by
      intro fuel
      induction fuel with
      | zero => intro i c _ h; exact h
      | succ f ihf =>
        intro i c hr h
        unfold loopFrom
        split
        · unfold thenSt
          have h1 := ih hb ((v, i) :: e) c hr h
          split
          · exact h1
          · rename_i hnot
            have hnone : (exec o a m body ((v, i) :: e) c).ret = none := by
              cases hx : (exec o a m body ((v, i) :: e) c).ret with
              | none => rfl
              | some w => rw [hx] at hnot; simp at hnot
            exact ihf (i + 1) _ hnone h1
        · exact h
    exact loop a.n start c hr h
  | ite cnd t f iht ihf =>
    intro hgd e c hr h
    unfold guarded at hgd
    rw [Bool.or_eq_true] at hgd
    cases hgd with
    | inl hshape =>
      -- the condition is a GSL call in one of the two accepted shapes
      cases cnd with
      | gsl k =>
        simp only [Bool.or_eq_true, Bool.and_eq_true, beq_iff_eq] at hshape
        show StatusOk (if (o.cond c.tc) = true then exec o a m t e (afterGsl o k c) else exec o a m f e (afterGsl o k c))
        apply statusOk_ite
        · intro _
          cases hshape with
          | inl h1 =>
            have ht : t = .seq .errEval .ret0 := by simpa [isFail] using h1.1
            subst ht
            exact exec_fail_statusOk o a m e _
          | inr h2 =>
            rw [h2.1]
            show StatusOk (checkResult a m true (afterGsl o k c))
            intro _
            simp [checkResult, St.evalError]
        · intro hbad
          have hb : o.cond c.tc = false := by simpa using hbad
          have hc' := afterGsl_ok o k c h hb
          cases hshape with
          | inl h1 => rw [h1.2]; exact hc'
          | inr h2 => rw [h2.2]; exact checkResult_statusOk a m _ _ (fun hg => hc' hg)
      | _ => simp at hshape
    | inr hplain =>
      simp only [Bool.and_eq_true] at hplain
      have mono := cond_noGsl_mono o a m e cnd hplain.1.1 c
      have h1 := statusOk_mono h mono
      have hr1 : (evalCond o a m e cnd c).2.ret = none := by rw [mono.ret]; exact hr
      simp only [exec]
      split
      · exact iht hplain.1.2 e _ hr1 h1
      · exact ihf hplain.2 e _ hr1 h1
  | seq s1 s2 ih1 ih2 =>
    intro hgd e c hr h
    unfold guarded at hgd
    rw [Bool.or_eq_true] at hgd
    cases hgd with
    | inr hplain =>
      rw [Bool.and_eq_true] at hplain
      simp only [exec]
      unfold thenSt
      have h1 := ih1 hplain.1 e c hr h
      split
      · exact h1
      · rename_i hnot
        have hnone : (exec o a m s1 e c).ret = none := by
          cases hx : (exec o a m s1 e c).ret with
          | none => rfl
          | some w => rw [hx] at hnot; simp at hnot
        exact ih2 hplain.2 e _ hnone h1
    | inl hshape =>
      -- status = gsl_…_e(…); if (status != GSL_SUCCESS) { eval_error; return 0; } rest
      split at hshape
      · rename_i k k' t rest
        simp only [Bool.and_eq_true, beq_iff_eq] at hshape
        obtain ⟨⟨hk, ht⟩, hrest⟩ := hshape
        subst hk
        have ht' : t = .seq .errEval .ret0 := by simpa [isFail] using ht
        subst ht'
        -- ih2 is about `seq (ite …) rest`; unfold everything by hand
        have hg2 : guarded rest = true := hrest
        show StatusOk (thenSt (afterGsl o k c) (fun s' => exec o a m (.seq (.ite (.lb k) (.seq .errEval .ret0) .skip) rest) e s'))
        have hr1 : (afterGsl o k c).ret = none := hr
        rw [thenSt_none hr1]
        by_cases hbad : o.cond c.tc = true
        · apply guard_fires o a m e k rest _ _ hr1
          show upd c.lb k (o.cond c.tc) k = true
          rw [hbad]; simp [upd]
        · have hb : o.cond c.tc = false := by simpa using hbad
          exact ih2 (by
            show guarded (.seq (.ite (.lb k) (.seq .errEval .ret0) .skip) rest) = true
            unfold guarded
            simp [guarded, Cond.noGsl, hg2]) e _ hr1 (afterGsl_ok o k c h hb)
      · simp at hshape

end MpVerif.C16

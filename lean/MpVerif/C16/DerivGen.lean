import MpVerif.C16.RDiff
import MpVerif.C16.Deriv
import MpVerif.Gen.GslFormulas
/-!
# C16 — the derivative and Hessian formulas of the elementary bindings, as translated from amplgsl.cc, are correct over ℝ

For each binding in `MpVerif.Gen.GslFormulas.formulas` (regenerated from the clang AST on every run):
* `…_d<i>` : the expression stored into `derivs[i]` is ∂/∂xᵢ of the value (the GSL function, by its definition `specE`);
* `…_h<k>` : the expression stored into `hes[k]` is the partial derivative, w.r.t. the second index of the pair the slot
  stands for, of the expression stored into `derivs[first index]`.
All on the stated open domain.  A changed formula in amplgsl.cc changes the generated term and the proof no longer goes through.
-/
set_option linter.unusedSimpArgs false
set_option linter.unusedVariables false
namespace MpVerif.C16
open MpVerif.Gen.GslFormulas

/-- arguments as a list -/
def envOf (l : List ℝ) : Nat → ℝ := fun k => l.getD k 0

variable (I : String → ℝ → ℝ)

theorem deriv_of_formula (i : Nat) (env : Nat → ℝ) (v d : RExpr)
    (hok : Ok I env v.inline) (heq : eval I env (diff i v.inline) = eval I env d.inline) :
    HasDerivAt (fun t => evalT I (Function.update env i t) v) (evalT I env d) (env i) := by
  have h := hasDerivAt_diff I i env (env i) v.inline (by rwa [Function.update_eq_self])
  rw [Function.update_eq_self] at h
  unfold evalT
  exact h.congr_deriv heq

/-- the i-th derivative / k-th Hessian expression of a binding -/
def Formulas.d (f : Formulas) (i : Nat) : RExpr := f.derivs.getD i (.lit 0 1)
def Formulas.h (f : Formulas) (k : Nat) : RExpr := f.hes.getD k (.lit 0 1)

/-- unfold everything down to real arithmetic -/
macro "rsimp" : tactic =>
  `(tactic| simp [Formulas.d, Formulas.h, RExpr.inline, specE, RExpr.subst, Ok, eval, diff, envOf, List.getD] )

/-! ### one-argument bindings -/

theorem log1p_d0 (x : ℝ) (hx : x + 1 ≠ 0) :
    HasDerivAt (fun t => evalT I (Function.update (envOf [x]) 0 t) f_gsl_log1p.value) (evalT I (envOf [x]) (f_gsl_log1p.d 0)) x := by
  have h1 : 1 + x ≠ 0 := by rwa [add_comm]
  refine deriv_of_formula I 0 (envOf [x]) _ _ ?_ ?_
  · simp [f_gsl_log1p, RExpr.inline, specE, RExpr.subst, Ok, eval, envOf, h1]
  · simp [f_gsl_log1p, Formulas.d, RExpr.inline, specE, RExpr.subst, eval, diff, envOf]
    field_simp
    ring

/-! ### the other bindings (same recipe: side conditions, then algebra) -/

theorem expm1_d0 (x : ℝ)  :
    HasDerivAt (fun t => evalT I (Function.update (envOf [x]) 0 t) f_gsl_expm1.value) (evalT I (envOf [x]) (f_gsl_expm1.d 0)) x := by
  refine deriv_of_formula I _ _ _ _ ?_ ?_
  · simp [f_gsl_expm1, Formulas.d, Formulas.h, RExpr.inline, specE, RExpr.subst, Ok, eval, envOf, *]
  · simp [f_gsl_expm1, Formulas.d, Formulas.h, RExpr.inline, specE, RExpr.subst, eval, diff, envOf, *]
    try field_simp
    try ring
    all_goals (try simp)

theorem expm1_h0 (x : ℝ)  :
    HasDerivAt (fun t => evalT I (Function.update (envOf [x]) 0 t) (f_gsl_expm1.d 0)) (evalT I (envOf [x]) (f_gsl_expm1.h 0)) x := by
  refine deriv_of_formula I _ _ _ _ ?_ ?_
  · simp [f_gsl_expm1, Formulas.d, Formulas.h, RExpr.inline, specE, RExpr.subst, Ok, eval, envOf, *]
  · simp [f_gsl_expm1, Formulas.d, Formulas.h, RExpr.inline, specE, RExpr.subst, eval, diff, envOf, *]
    try field_simp
    try ring
    all_goals (try simp)

theorem log_d0 (x : ℝ) (hx : x ≠ 0) :
    HasDerivAt (fun t => evalT I (Function.update (envOf [x]) 0 t) f_gsl_sf_log.value) (evalT I (envOf [x]) (f_gsl_sf_log.d 0)) x := by
  refine deriv_of_formula I _ _ _ _ ?_ ?_
  · simp [f_gsl_sf_log, Formulas.d, Formulas.h, RExpr.inline, specE, RExpr.subst, Ok, eval, envOf, *]
  · simp [f_gsl_sf_log, Formulas.d, Formulas.h, RExpr.inline, specE, RExpr.subst, eval, diff, envOf, *]
    try field_simp
    try ring
    all_goals (try simp)

theorem log_h0 (x : ℝ) (hx : x ≠ 0) :
    HasDerivAt (fun t => evalT I (Function.update (envOf [x]) 0 t) (f_gsl_sf_log.d 0)) (evalT I (envOf [x]) (f_gsl_sf_log.h 0)) x := by
  refine deriv_of_formula I _ _ _ _ ?_ ?_
  · simp [f_gsl_sf_log, Formulas.d, Formulas.h, RExpr.inline, specE, RExpr.subst, Ok, eval, envOf, *]
  · simp [f_gsl_sf_log, Formulas.d, Formulas.h, RExpr.inline, specE, RExpr.subst, eval, diff, envOf, *]
    try field_simp
    try ring
    all_goals (try simp)

theorem log_abs_d0 (x : ℝ) (hx : x ≠ 0) :
    HasDerivAt (fun t => evalT I (Function.update (envOf [x]) 0 t) f_gsl_sf_log_abs.value) (evalT I (envOf [x]) (f_gsl_sf_log_abs.d 0)) x := by
  refine deriv_of_formula I _ _ _ _ ?_ ?_
  · simp [f_gsl_sf_log_abs, Formulas.d, Formulas.h, RExpr.inline, specE, RExpr.subst, Ok, eval, envOf, *]
  · simp [f_gsl_sf_log_abs, Formulas.d, Formulas.h, RExpr.inline, specE, RExpr.subst, eval, diff, envOf, *]
    try field_simp
    try ring
    all_goals (try simp)

theorem log_abs_h0 (x : ℝ) (hx : x ≠ 0) :
    HasDerivAt (fun t => evalT I (Function.update (envOf [x]) 0 t) (f_gsl_sf_log_abs.d 0)) (evalT I (envOf [x]) (f_gsl_sf_log_abs.h 0)) x := by
  refine deriv_of_formula I _ _ _ _ ?_ ?_
  · simp [f_gsl_sf_log_abs, Formulas.d, Formulas.h, RExpr.inline, specE, RExpr.subst, Ok, eval, envOf, *]
  · simp [f_gsl_sf_log_abs, Formulas.d, Formulas.h, RExpr.inline, specE, RExpr.subst, eval, diff, envOf, *]
    try field_simp
    try ring
    all_goals (try simp)

theorem log_1plusx_d0 (x : ℝ) (hx : 1 + x ≠ 0) :
    HasDerivAt (fun t => evalT I (Function.update (envOf [x]) 0 t) f_gsl_sf_log_1plusx.value) (evalT I (envOf [x]) (f_gsl_sf_log_1plusx.d 0)) x := by
  refine deriv_of_formula I _ _ _ _ ?_ ?_
  · simp [f_gsl_sf_log_1plusx, Formulas.d, Formulas.h, RExpr.inline, specE, RExpr.subst, Ok, eval, envOf, *]
  · simp [f_gsl_sf_log_1plusx, Formulas.d, Formulas.h, RExpr.inline, specE, RExpr.subst, eval, diff, envOf, *]
    try field_simp
    try ring
    all_goals (try simp)

theorem log_1plusx_h0 (x : ℝ) (hx : 1 + x ≠ 0) :
    HasDerivAt (fun t => evalT I (Function.update (envOf [x]) 0 t) (f_gsl_sf_log_1plusx.d 0)) (evalT I (envOf [x]) (f_gsl_sf_log_1plusx.h 0)) x := by
  refine deriv_of_formula I _ _ _ _ ?_ ?_
  · simp [f_gsl_sf_log_1plusx, Formulas.d, Formulas.h, RExpr.inline, specE, RExpr.subst, Ok, eval, envOf, *]
  · simp [f_gsl_sf_log_1plusx, Formulas.d, Formulas.h, RExpr.inline, specE, RExpr.subst, eval, diff, envOf, *]
    try field_simp
    try ring
    all_goals (try simp)

theorem log_1plusx_mx_d0 (x : ℝ) (hx : 1 + x ≠ 0) :
    HasDerivAt (fun t => evalT I (Function.update (envOf [x]) 0 t) f_gsl_sf_log_1plusx_mx.value) (evalT I (envOf [x]) (f_gsl_sf_log_1plusx_mx.d 0)) x := by
  refine deriv_of_formula I _ _ _ _ ?_ ?_
  · simp [f_gsl_sf_log_1plusx_mx, Formulas.d, Formulas.h, RExpr.inline, specE, RExpr.subst, Ok, eval, envOf, *]
  · simp [f_gsl_sf_log_1plusx_mx, Formulas.d, Formulas.h, RExpr.inline, specE, RExpr.subst, eval, diff, envOf, *]
    try field_simp
    try ring
    all_goals (try simp)

theorem log_1plusx_mx_h0 (x : ℝ) (hx : 1 + x ≠ 0) :
    HasDerivAt (fun t => evalT I (Function.update (envOf [x]) 0 t) (f_gsl_sf_log_1plusx_mx.d 0)) (evalT I (envOf [x]) (f_gsl_sf_log_1plusx_mx.h 0)) x := by
  refine deriv_of_formula I _ _ _ _ ?_ ?_
  · simp [f_gsl_sf_log_1plusx_mx, Formulas.d, Formulas.h, RExpr.inline, specE, RExpr.subst, Ok, eval, envOf, *]
  · simp [f_gsl_sf_log_1plusx_mx, Formulas.d, Formulas.h, RExpr.inline, specE, RExpr.subst, eval, diff, envOf, *]
    try field_simp
    try ring
    all_goals (try simp)

theorem legendre_P1_d0 (x : ℝ)  :
    HasDerivAt (fun t => evalT I (Function.update (envOf [x]) 0 t) f_gsl_sf_legendre_P1.value) (evalT I (envOf [x]) (f_gsl_sf_legendre_P1.d 0)) x := by
  refine deriv_of_formula I _ _ _ _ ?_ ?_
  · simp [f_gsl_sf_legendre_P1, Formulas.d, Formulas.h, RExpr.inline, specE, RExpr.subst, Ok, eval, envOf, *]
  · simp [f_gsl_sf_legendre_P1, Formulas.d, Formulas.h, RExpr.inline, specE, RExpr.subst, eval, diff, envOf, *]
    try field_simp
    try ring
    all_goals (try simp)

theorem legendre_P1_h0 (x : ℝ)  :
    HasDerivAt (fun t => evalT I (Function.update (envOf [x]) 0 t) (f_gsl_sf_legendre_P1.d 0)) (evalT I (envOf [x]) (f_gsl_sf_legendre_P1.h 0)) x := by
  refine deriv_of_formula I _ _ _ _ ?_ ?_
  · simp [f_gsl_sf_legendre_P1, Formulas.d, Formulas.h, RExpr.inline, specE, RExpr.subst, Ok, eval, envOf, *]
  · simp [f_gsl_sf_legendre_P1, Formulas.d, Formulas.h, RExpr.inline, specE, RExpr.subst, eval, diff, envOf, *]
    try field_simp
    try ring
    all_goals (try simp)

theorem legendre_P2_d0 (x : ℝ)  :
    HasDerivAt (fun t => evalT I (Function.update (envOf [x]) 0 t) f_gsl_sf_legendre_P2.value) (evalT I (envOf [x]) (f_gsl_sf_legendre_P2.d 0)) x := by
  refine deriv_of_formula I _ _ _ _ ?_ ?_
  · simp [f_gsl_sf_legendre_P2, Formulas.d, Formulas.h, RExpr.inline, specE, RExpr.subst, Ok, eval, envOf, *]
  · simp [f_gsl_sf_legendre_P2, Formulas.d, Formulas.h, RExpr.inline, specE, RExpr.subst, eval, diff, envOf, *]
    try field_simp
    try ring
    all_goals (try simp)

theorem legendre_P2_h0 (x : ℝ)  :
    HasDerivAt (fun t => evalT I (Function.update (envOf [x]) 0 t) (f_gsl_sf_legendre_P2.d 0)) (evalT I (envOf [x]) (f_gsl_sf_legendre_P2.h 0)) x := by
  refine deriv_of_formula I _ _ _ _ ?_ ?_
  · simp [f_gsl_sf_legendre_P2, Formulas.d, Formulas.h, RExpr.inline, specE, RExpr.subst, Ok, eval, envOf, *]
  · simp [f_gsl_sf_legendre_P2, Formulas.d, Formulas.h, RExpr.inline, specE, RExpr.subst, eval, diff, envOf, *]
    try field_simp
    try ring
    all_goals (try simp)

theorem legendre_P3_d0 (x : ℝ)  :
    HasDerivAt (fun t => evalT I (Function.update (envOf [x]) 0 t) f_gsl_sf_legendre_P3.value) (evalT I (envOf [x]) (f_gsl_sf_legendre_P3.d 0)) x := by
  refine deriv_of_formula I _ _ _ _ ?_ ?_
  · simp [f_gsl_sf_legendre_P3, Formulas.d, Formulas.h, RExpr.inline, specE, RExpr.subst, Ok, eval, envOf, *]
  · simp [f_gsl_sf_legendre_P3, Formulas.d, Formulas.h, RExpr.inline, specE, RExpr.subst, eval, diff, envOf, *]
    try field_simp
    try ring
    all_goals (try simp)

theorem legendre_P3_h0 (x : ℝ)  :
    HasDerivAt (fun t => evalT I (Function.update (envOf [x]) 0 t) (f_gsl_sf_legendre_P3.d 0)) (evalT I (envOf [x]) (f_gsl_sf_legendre_P3.h 0)) x := by
  refine deriv_of_formula I _ _ _ _ ?_ ?_
  · simp [f_gsl_sf_legendre_P3, Formulas.d, Formulas.h, RExpr.inline, specE, RExpr.subst, Ok, eval, envOf, *]
  · simp [f_gsl_sf_legendre_P3, Formulas.d, Formulas.h, RExpr.inline, specE, RExpr.subst, eval, diff, envOf, *]
    try field_simp
    try ring
    all_goals (try simp)

theorem gegenpoly_1_d0 (l x : ℝ) (hl : l ≠ 0) :
    HasDerivAt (fun t => evalT I (Function.update (envOf [l, x]) 0 t) f_gsl_sf_gegenpoly_1.value) (evalT I (envOf [l, x]) (f_gsl_sf_gegenpoly_1.d 0)) l := by
  refine deriv_of_formula I _ _ _ _ ?_ ?_
  · simp [f_gsl_sf_gegenpoly_1, Formulas.d, Formulas.h, RExpr.inline, specE, RExpr.subst, Ok, eval, envOf, *]
  · simp [f_gsl_sf_gegenpoly_1, Formulas.d, Formulas.h, RExpr.inline, specE, RExpr.subst, eval, diff, envOf, *]
    try field_simp
    try ring
    all_goals (try simp)

theorem gegenpoly_1_d1 (l x : ℝ) (hl : l ≠ 0) :
    HasDerivAt (fun t => evalT I (Function.update (envOf [l, x]) 1 t) f_gsl_sf_gegenpoly_1.value) (evalT I (envOf [l, x]) (f_gsl_sf_gegenpoly_1.d 1)) x := by
  refine deriv_of_formula I _ _ _ _ ?_ ?_
  · simp [f_gsl_sf_gegenpoly_1, Formulas.d, Formulas.h, RExpr.inline, specE, RExpr.subst, Ok, eval, envOf, *]
  · simp [f_gsl_sf_gegenpoly_1, Formulas.d, Formulas.h, RExpr.inline, specE, RExpr.subst, eval, diff, envOf, *]
    try field_simp
    try ring
    all_goals (try simp)

theorem gegenpoly_1_h0 (l x : ℝ) (hl : l ≠ 0) :
    HasDerivAt (fun t => evalT I (Function.update (envOf [l, x]) 0 t) (f_gsl_sf_gegenpoly_1.d 0)) (evalT I (envOf [l, x]) (f_gsl_sf_gegenpoly_1.h 0)) l := by
  refine deriv_of_formula I _ _ _ _ ?_ ?_
  · simp [f_gsl_sf_gegenpoly_1, Formulas.d, Formulas.h, RExpr.inline, specE, RExpr.subst, Ok, eval, envOf, *]
  · simp [f_gsl_sf_gegenpoly_1, Formulas.d, Formulas.h, RExpr.inline, specE, RExpr.subst, eval, diff, envOf, *]
    try field_simp
    try ring
    all_goals (try simp)

theorem gegenpoly_1_h1 (l x : ℝ) (hl : l ≠ 0) :
    HasDerivAt (fun t => evalT I (Function.update (envOf [l, x]) 1 t) (f_gsl_sf_gegenpoly_1.d 0)) (evalT I (envOf [l, x]) (f_gsl_sf_gegenpoly_1.h 1)) x := by
  refine deriv_of_formula I _ _ _ _ ?_ ?_
  · simp [f_gsl_sf_gegenpoly_1, Formulas.d, Formulas.h, RExpr.inline, specE, RExpr.subst, Ok, eval, envOf, *]
  · simp [f_gsl_sf_gegenpoly_1, Formulas.d, Formulas.h, RExpr.inline, specE, RExpr.subst, eval, diff, envOf, *]
    try field_simp
    try ring
    all_goals (try simp)

theorem gegenpoly_1_h2 (l x : ℝ) (hl : l ≠ 0) :
    HasDerivAt (fun t => evalT I (Function.update (envOf [l, x]) 1 t) (f_gsl_sf_gegenpoly_1.d 1)) (evalT I (envOf [l, x]) (f_gsl_sf_gegenpoly_1.h 2)) x := by
  refine deriv_of_formula I _ _ _ _ ?_ ?_
  · simp [f_gsl_sf_gegenpoly_1, Formulas.d, Formulas.h, RExpr.inline, specE, RExpr.subst, Ok, eval, envOf, *]
  · simp [f_gsl_sf_gegenpoly_1, Formulas.d, Formulas.h, RExpr.inline, specE, RExpr.subst, eval, diff, envOf, *]
    try field_simp
    try ring
    all_goals (try simp)

theorem gegenpoly_2_d0 (l x : ℝ) (hl : l ≠ 0) :
    HasDerivAt (fun t => evalT I (Function.update (envOf [l, x]) 0 t) f_gsl_sf_gegenpoly_2.value) (evalT I (envOf [l, x]) (f_gsl_sf_gegenpoly_2.d 0)) l := by
  refine deriv_of_formula I _ _ _ _ ?_ ?_
  · simp [f_gsl_sf_gegenpoly_2, Formulas.d, Formulas.h, RExpr.inline, specE, RExpr.subst, Ok, eval, envOf, *]
  · simp [f_gsl_sf_gegenpoly_2, Formulas.d, Formulas.h, RExpr.inline, specE, RExpr.subst, eval, diff, envOf, *]
    try field_simp
    try ring
    all_goals (try simp)

theorem gegenpoly_2_d1 (l x : ℝ) (hl : l ≠ 0) :
    HasDerivAt (fun t => evalT I (Function.update (envOf [l, x]) 1 t) f_gsl_sf_gegenpoly_2.value) (evalT I (envOf [l, x]) (f_gsl_sf_gegenpoly_2.d 1)) x := by
  refine deriv_of_formula I _ _ _ _ ?_ ?_
  · simp [f_gsl_sf_gegenpoly_2, Formulas.d, Formulas.h, RExpr.inline, specE, RExpr.subst, Ok, eval, envOf, *]
  · simp [f_gsl_sf_gegenpoly_2, Formulas.d, Formulas.h, RExpr.inline, specE, RExpr.subst, eval, diff, envOf, *]
    try field_simp
    try ring
    all_goals (try simp)

theorem gegenpoly_2_h0 (l x : ℝ) (hl : l ≠ 0) :
    HasDerivAt (fun t => evalT I (Function.update (envOf [l, x]) 0 t) (f_gsl_sf_gegenpoly_2.d 0)) (evalT I (envOf [l, x]) (f_gsl_sf_gegenpoly_2.h 0)) l := by
  refine deriv_of_formula I _ _ _ _ ?_ ?_
  · simp [f_gsl_sf_gegenpoly_2, Formulas.d, Formulas.h, RExpr.inline, specE, RExpr.subst, Ok, eval, envOf, *]
  · simp [f_gsl_sf_gegenpoly_2, Formulas.d, Formulas.h, RExpr.inline, specE, RExpr.subst, eval, diff, envOf, *]
    try field_simp
    try ring
    all_goals (try simp)

theorem gegenpoly_2_h1 (l x : ℝ) (hl : l ≠ 0) :
    HasDerivAt (fun t => evalT I (Function.update (envOf [l, x]) 1 t) (f_gsl_sf_gegenpoly_2.d 0)) (evalT I (envOf [l, x]) (f_gsl_sf_gegenpoly_2.h 1)) x := by
  refine deriv_of_formula I _ _ _ _ ?_ ?_
  · simp [f_gsl_sf_gegenpoly_2, Formulas.d, Formulas.h, RExpr.inline, specE, RExpr.subst, Ok, eval, envOf, *]
  · simp [f_gsl_sf_gegenpoly_2, Formulas.d, Formulas.h, RExpr.inline, specE, RExpr.subst, eval, diff, envOf, *]
    try field_simp
    try ring
    all_goals (try simp)

theorem gegenpoly_2_h2 (l x : ℝ) (hl : l ≠ 0) :
    HasDerivAt (fun t => evalT I (Function.update (envOf [l, x]) 1 t) (f_gsl_sf_gegenpoly_2.d 1)) (evalT I (envOf [l, x]) (f_gsl_sf_gegenpoly_2.h 2)) x := by
  refine deriv_of_formula I _ _ _ _ ?_ ?_
  · simp [f_gsl_sf_gegenpoly_2, Formulas.d, Formulas.h, RExpr.inline, specE, RExpr.subst, Ok, eval, envOf, *]
  · simp [f_gsl_sf_gegenpoly_2, Formulas.d, Formulas.h, RExpr.inline, specE, RExpr.subst, eval, diff, envOf, *]
    try field_simp
    try ring
    all_goals (try simp)

theorem gegenpoly_3_d0 (l x : ℝ) (hl : l ≠ 0) :
    HasDerivAt (fun t => evalT I (Function.update (envOf [l, x]) 0 t) f_gsl_sf_gegenpoly_3.value) (evalT I (envOf [l, x]) (f_gsl_sf_gegenpoly_3.d 0)) l := by
  refine deriv_of_formula I _ _ _ _ ?_ ?_
  · simp [f_gsl_sf_gegenpoly_3, Formulas.d, Formulas.h, RExpr.inline, specE, RExpr.subst, Ok, eval, envOf, *]
  · simp [f_gsl_sf_gegenpoly_3, Formulas.d, Formulas.h, RExpr.inline, specE, RExpr.subst, eval, diff, envOf, *]
    try field_simp
    try ring
    all_goals (try simp)

theorem gegenpoly_3_d1 (l x : ℝ) (hl : l ≠ 0) :
    HasDerivAt (fun t => evalT I (Function.update (envOf [l, x]) 1 t) f_gsl_sf_gegenpoly_3.value) (evalT I (envOf [l, x]) (f_gsl_sf_gegenpoly_3.d 1)) x := by
  refine deriv_of_formula I _ _ _ _ ?_ ?_
  · simp [f_gsl_sf_gegenpoly_3, Formulas.d, Formulas.h, RExpr.inline, specE, RExpr.subst, Ok, eval, envOf, *]
  · simp [f_gsl_sf_gegenpoly_3, Formulas.d, Formulas.h, RExpr.inline, specE, RExpr.subst, eval, diff, envOf, *]
    try field_simp
    try ring
    all_goals (try simp)

theorem gegenpoly_3_h0 (l x : ℝ) (hl : l ≠ 0) :
    HasDerivAt (fun t => evalT I (Function.update (envOf [l, x]) 0 t) (f_gsl_sf_gegenpoly_3.d 0)) (evalT I (envOf [l, x]) (f_gsl_sf_gegenpoly_3.h 0)) l := by
  refine deriv_of_formula I _ _ _ _ ?_ ?_
  · simp [f_gsl_sf_gegenpoly_3, Formulas.d, Formulas.h, RExpr.inline, specE, RExpr.subst, Ok, eval, envOf, *]
  · simp [f_gsl_sf_gegenpoly_3, Formulas.d, Formulas.h, RExpr.inline, specE, RExpr.subst, eval, diff, envOf, *]
    try field_simp
    try ring
    all_goals (try simp)

theorem gegenpoly_3_h1 (l x : ℝ) (hl : l ≠ 0) :
    HasDerivAt (fun t => evalT I (Function.update (envOf [l, x]) 1 t) (f_gsl_sf_gegenpoly_3.d 0)) (evalT I (envOf [l, x]) (f_gsl_sf_gegenpoly_3.h 1)) x := by
  refine deriv_of_formula I _ _ _ _ ?_ ?_
  · simp [f_gsl_sf_gegenpoly_3, Formulas.d, Formulas.h, RExpr.inline, specE, RExpr.subst, Ok, eval, envOf, *]
  · simp [f_gsl_sf_gegenpoly_3, Formulas.d, Formulas.h, RExpr.inline, specE, RExpr.subst, eval, diff, envOf, *]
    try field_simp
    try ring
    all_goals (try simp)

theorem gegenpoly_3_h2 (l x : ℝ) (hl : l ≠ 0) :
    HasDerivAt (fun t => evalT I (Function.update (envOf [l, x]) 1 t) (f_gsl_sf_gegenpoly_3.d 1)) (evalT I (envOf [l, x]) (f_gsl_sf_gegenpoly_3.h 2)) x := by
  refine deriv_of_formula I _ _ _ _ ?_ ?_
  · simp [f_gsl_sf_gegenpoly_3, Formulas.d, Formulas.h, RExpr.inline, specE, RExpr.subst, Ok, eval, envOf, *]
  · simp [f_gsl_sf_gegenpoly_3, Formulas.d, Formulas.h, RExpr.inline, specE, RExpr.subst, eval, diff, envOf, *]
    try field_simp
    try ring
    all_goals (try simp)

theorem laguerre_1_d0 (a x : ℝ)  :
    HasDerivAt (fun t => evalT I (Function.update (envOf [a, x]) 0 t) f_gsl_sf_laguerre_1.value) (evalT I (envOf [a, x]) (f_gsl_sf_laguerre_1.d 0)) a := by
  refine deriv_of_formula I _ _ _ _ ?_ ?_
  · simp [f_gsl_sf_laguerre_1, Formulas.d, Formulas.h, RExpr.inline, specE, RExpr.subst, Ok, eval, envOf, *]
  · simp [f_gsl_sf_laguerre_1, Formulas.d, Formulas.h, RExpr.inline, specE, RExpr.subst, eval, diff, envOf, *]
    try field_simp
    try ring
    all_goals (try simp)

theorem laguerre_1_d1 (a x : ℝ)  :
    HasDerivAt (fun t => evalT I (Function.update (envOf [a, x]) 1 t) f_gsl_sf_laguerre_1.value) (evalT I (envOf [a, x]) (f_gsl_sf_laguerre_1.d 1)) x := by
  refine deriv_of_formula I _ _ _ _ ?_ ?_
  · simp [f_gsl_sf_laguerre_1, Formulas.d, Formulas.h, RExpr.inline, specE, RExpr.subst, Ok, eval, envOf, *]
  · simp [f_gsl_sf_laguerre_1, Formulas.d, Formulas.h, RExpr.inline, specE, RExpr.subst, eval, diff, envOf, *]
    try field_simp
    try ring
    all_goals (try simp)

theorem laguerre_1_h0 (a x : ℝ)  :
    HasDerivAt (fun t => evalT I (Function.update (envOf [a, x]) 0 t) (f_gsl_sf_laguerre_1.d 0)) (evalT I (envOf [a, x]) (f_gsl_sf_laguerre_1.h 0)) a := by
  refine deriv_of_formula I _ _ _ _ ?_ ?_
  · simp [f_gsl_sf_laguerre_1, Formulas.d, Formulas.h, RExpr.inline, specE, RExpr.subst, Ok, eval, envOf, *]
  · simp [f_gsl_sf_laguerre_1, Formulas.d, Formulas.h, RExpr.inline, specE, RExpr.subst, eval, diff, envOf, *]
    try field_simp
    try ring
    all_goals (try simp)

theorem laguerre_1_h1 (a x : ℝ)  :
    HasDerivAt (fun t => evalT I (Function.update (envOf [a, x]) 1 t) (f_gsl_sf_laguerre_1.d 0)) (evalT I (envOf [a, x]) (f_gsl_sf_laguerre_1.h 1)) x := by
  refine deriv_of_formula I _ _ _ _ ?_ ?_
  · simp [f_gsl_sf_laguerre_1, Formulas.d, Formulas.h, RExpr.inline, specE, RExpr.subst, Ok, eval, envOf, *]
  · simp [f_gsl_sf_laguerre_1, Formulas.d, Formulas.h, RExpr.inline, specE, RExpr.subst, eval, diff, envOf, *]
    try field_simp
    try ring
    all_goals (try simp)

theorem laguerre_1_h2 (a x : ℝ)  :
    HasDerivAt (fun t => evalT I (Function.update (envOf [a, x]) 1 t) (f_gsl_sf_laguerre_1.d 1)) (evalT I (envOf [a, x]) (f_gsl_sf_laguerre_1.h 2)) x := by
  refine deriv_of_formula I _ _ _ _ ?_ ?_
  · simp [f_gsl_sf_laguerre_1, Formulas.d, Formulas.h, RExpr.inline, specE, RExpr.subst, Ok, eval, envOf, *]
  · simp [f_gsl_sf_laguerre_1, Formulas.d, Formulas.h, RExpr.inline, specE, RExpr.subst, eval, diff, envOf, *]
    try field_simp
    try ring
    all_goals (try simp)

theorem laguerre_2_d0 (a x : ℝ)  :
    HasDerivAt (fun t => evalT I (Function.update (envOf [a, x]) 0 t) f_gsl_sf_laguerre_2.value) (evalT I (envOf [a, x]) (f_gsl_sf_laguerre_2.d 0)) a := by
  refine deriv_of_formula I _ _ _ _ ?_ ?_
  · simp [f_gsl_sf_laguerre_2, Formulas.d, Formulas.h, RExpr.inline, specE, RExpr.subst, Ok, eval, envOf, *]
  · simp [f_gsl_sf_laguerre_2, Formulas.d, Formulas.h, RExpr.inline, specE, RExpr.subst, eval, diff, envOf, *]
    try field_simp
    try ring
    all_goals (try simp)

theorem laguerre_2_d1 (a x : ℝ)  :
    HasDerivAt (fun t => evalT I (Function.update (envOf [a, x]) 1 t) f_gsl_sf_laguerre_2.value) (evalT I (envOf [a, x]) (f_gsl_sf_laguerre_2.d 1)) x := by
  refine deriv_of_formula I _ _ _ _ ?_ ?_
  · simp [f_gsl_sf_laguerre_2, Formulas.d, Formulas.h, RExpr.inline, specE, RExpr.subst, Ok, eval, envOf, *]
  · simp [f_gsl_sf_laguerre_2, Formulas.d, Formulas.h, RExpr.inline, specE, RExpr.subst, eval, diff, envOf, *]
    try field_simp
    try ring
    all_goals (try simp)

theorem laguerre_2_h0 (a x : ℝ)  :
    HasDerivAt (fun t => evalT I (Function.update (envOf [a, x]) 0 t) (f_gsl_sf_laguerre_2.d 0)) (evalT I (envOf [a, x]) (f_gsl_sf_laguerre_2.h 0)) a := by
  refine deriv_of_formula I _ _ _ _ ?_ ?_
  · simp [f_gsl_sf_laguerre_2, Formulas.d, Formulas.h, RExpr.inline, specE, RExpr.subst, Ok, eval, envOf, *]
  · simp [f_gsl_sf_laguerre_2, Formulas.d, Formulas.h, RExpr.inline, specE, RExpr.subst, eval, diff, envOf, *]
    try field_simp
    try ring
    all_goals (try simp)

theorem laguerre_2_h1 (a x : ℝ)  :
    HasDerivAt (fun t => evalT I (Function.update (envOf [a, x]) 1 t) (f_gsl_sf_laguerre_2.d 0)) (evalT I (envOf [a, x]) (f_gsl_sf_laguerre_2.h 1)) x := by
  refine deriv_of_formula I _ _ _ _ ?_ ?_
  · simp [f_gsl_sf_laguerre_2, Formulas.d, Formulas.h, RExpr.inline, specE, RExpr.subst, Ok, eval, envOf, *]
  · simp [f_gsl_sf_laguerre_2, Formulas.d, Formulas.h, RExpr.inline, specE, RExpr.subst, eval, diff, envOf, *]
    try field_simp
    try ring
    all_goals (try simp)

theorem laguerre_2_h2 (a x : ℝ)  :
    HasDerivAt (fun t => evalT I (Function.update (envOf [a, x]) 1 t) (f_gsl_sf_laguerre_2.d 1)) (evalT I (envOf [a, x]) (f_gsl_sf_laguerre_2.h 2)) x := by
  refine deriv_of_formula I _ _ _ _ ?_ ?_
  · simp [f_gsl_sf_laguerre_2, Formulas.d, Formulas.h, RExpr.inline, specE, RExpr.subst, Ok, eval, envOf, *]
  · simp [f_gsl_sf_laguerre_2, Formulas.d, Formulas.h, RExpr.inline, specE, RExpr.subst, eval, diff, envOf, *]
    try field_simp
    try ring
    all_goals (try simp)

theorem laguerre_3_d0 (a x : ℝ)  :
    HasDerivAt (fun t => evalT I (Function.update (envOf [a, x]) 0 t) f_gsl_sf_laguerre_3.value) (evalT I (envOf [a, x]) (f_gsl_sf_laguerre_3.d 0)) a := by
  refine deriv_of_formula I _ _ _ _ ?_ ?_
  · simp [f_gsl_sf_laguerre_3, Formulas.d, Formulas.h, RExpr.inline, specE, RExpr.subst, Ok, eval, envOf, *]
  · simp [f_gsl_sf_laguerre_3, Formulas.d, Formulas.h, RExpr.inline, specE, RExpr.subst, eval, diff, envOf, *]
    try field_simp
    try ring
    all_goals (try simp)

theorem laguerre_3_d1 (a x : ℝ)  :
    HasDerivAt (fun t => evalT I (Function.update (envOf [a, x]) 1 t) f_gsl_sf_laguerre_3.value) (evalT I (envOf [a, x]) (f_gsl_sf_laguerre_3.d 1)) x := by
  refine deriv_of_formula I _ _ _ _ ?_ ?_
  · simp [f_gsl_sf_laguerre_3, Formulas.d, Formulas.h, RExpr.inline, specE, RExpr.subst, Ok, eval, envOf, *]
  · simp [f_gsl_sf_laguerre_3, Formulas.d, Formulas.h, RExpr.inline, specE, RExpr.subst, eval, diff, envOf, *]
    try field_simp
    try ring
    all_goals (try simp)

theorem laguerre_3_h0 (a x : ℝ)  :
    HasDerivAt (fun t => evalT I (Function.update (envOf [a, x]) 0 t) (f_gsl_sf_laguerre_3.d 0)) (evalT I (envOf [a, x]) (f_gsl_sf_laguerre_3.h 0)) a := by
  refine deriv_of_formula I _ _ _ _ ?_ ?_
  · simp [f_gsl_sf_laguerre_3, Formulas.d, Formulas.h, RExpr.inline, specE, RExpr.subst, Ok, eval, envOf, *]
  · simp [f_gsl_sf_laguerre_3, Formulas.d, Formulas.h, RExpr.inline, specE, RExpr.subst, eval, diff, envOf, *]
    try field_simp
    try ring
    all_goals (try simp)

theorem laguerre_3_h1 (a x : ℝ)  :
    HasDerivAt (fun t => evalT I (Function.update (envOf [a, x]) 1 t) (f_gsl_sf_laguerre_3.d 0)) (evalT I (envOf [a, x]) (f_gsl_sf_laguerre_3.h 1)) x := by
  refine deriv_of_formula I _ _ _ _ ?_ ?_
  · simp [f_gsl_sf_laguerre_3, Formulas.d, Formulas.h, RExpr.inline, specE, RExpr.subst, Ok, eval, envOf, *]
  · simp [f_gsl_sf_laguerre_3, Formulas.d, Formulas.h, RExpr.inline, specE, RExpr.subst, eval, diff, envOf, *]
    try field_simp
    try ring
    all_goals (try simp)

theorem laguerre_3_h2 (a x : ℝ)  :
    HasDerivAt (fun t => evalT I (Function.update (envOf [a, x]) 1 t) (f_gsl_sf_laguerre_3.d 1)) (evalT I (envOf [a, x]) (f_gsl_sf_laguerre_3.h 2)) x := by
  refine deriv_of_formula I _ _ _ _ ?_ ?_
  · simp [f_gsl_sf_laguerre_3, Formulas.d, Formulas.h, RExpr.inline, specE, RExpr.subst, Ok, eval, envOf, *]
  · simp [f_gsl_sf_laguerre_3, Formulas.d, Formulas.h, RExpr.inline, specE, RExpr.subst, eval, diff, envOf, *]
    try field_simp
    try ring
    all_goals (try simp)

theorem fermi_dirac_m1_d0 (x : ℝ)  :
    HasDerivAt (fun t => evalT I (Function.update (envOf [x]) 0 t) f_gsl_sf_fermi_dirac_m1.value) (evalT I (envOf [x]) (f_gsl_sf_fermi_dirac_m1.d 0)) x := by
  have he1 : 1 + Real.exp x ≠ 0 := by positivity
  have he2 : Real.exp x + 1 ≠ 0 := by positivity
  refine deriv_of_formula I _ _ _ _ ?_ ?_
  · simp [f_gsl_sf_fermi_dirac_m1, Formulas.d, Formulas.h, RExpr.inline, specE, RExpr.subst, Ok, eval, envOf, *]
  · simp [f_gsl_sf_fermi_dirac_m1, Formulas.d, Formulas.h, RExpr.inline, specE, RExpr.subst, eval, diff, envOf, *]
    try field_simp
    try ring
    all_goals (try simp)

theorem fermi_dirac_m1_h0 (x : ℝ)  :
    HasDerivAt (fun t => evalT I (Function.update (envOf [x]) 0 t) (f_gsl_sf_fermi_dirac_m1.d 0)) (evalT I (envOf [x]) (f_gsl_sf_fermi_dirac_m1.h 0)) x := by
  have he1 : 1 + Real.exp x ≠ 0 := by positivity
  have he2 : Real.exp x + 1 ≠ 0 := by positivity
  refine deriv_of_formula I _ _ _ _ ?_ ?_
  · simp [f_gsl_sf_fermi_dirac_m1, Formulas.d, Formulas.h, RExpr.inline, specE, RExpr.subst, Ok, eval, envOf, *]
  · simp [f_gsl_sf_fermi_dirac_m1, Formulas.d, Formulas.h, RExpr.inline, specE, RExpr.subst, eval, diff, envOf, *]
    try field_simp
    try ring
    all_goals (try simp)

theorem fermi_dirac_0_d0 (x : ℝ)  :
    HasDerivAt (fun t => evalT I (Function.update (envOf [x]) 0 t) f_gsl_sf_fermi_dirac_0.value) (evalT I (envOf [x]) (f_gsl_sf_fermi_dirac_0.d 0)) x := by
  have he1 : 1 + Real.exp x ≠ 0 := by positivity
  have he2 : Real.exp x + 1 ≠ 0 := by positivity
  refine deriv_of_formula I _ _ _ _ ?_ ?_
  · simp [f_gsl_sf_fermi_dirac_0, Formulas.d, Formulas.h, RExpr.inline, specE, RExpr.subst, Ok, eval, envOf, *]
  · simp [f_gsl_sf_fermi_dirac_0, Formulas.d, Formulas.h, RExpr.inline, specE, RExpr.subst, eval, diff, envOf, *]
    try field_simp
    try ring
    all_goals (try simp)

theorem fermi_dirac_0_h0 (x : ℝ)  :
    HasDerivAt (fun t => evalT I (Function.update (envOf [x]) 0 t) (f_gsl_sf_fermi_dirac_0.d 0)) (evalT I (envOf [x]) (f_gsl_sf_fermi_dirac_0.h 0)) x := by
  have he1 : 1 + Real.exp x ≠ 0 := by positivity
  have he2 : Real.exp x + 1 ≠ 0 := by positivity
  refine deriv_of_formula I _ _ _ _ ?_ ?_
  · simp [f_gsl_sf_fermi_dirac_0, Formulas.d, Formulas.h, RExpr.inline, specE, RExpr.subst, Ok, eval, envOf, *]
  · simp [f_gsl_sf_fermi_dirac_0, Formulas.d, Formulas.h, RExpr.inline, specE, RExpr.subst, eval, diff, envOf, *]
    try field_simp
    try ring
    all_goals (try simp)

theorem bessel_j0_d0 (x : ℝ) (hx : x ≠ 0) :
    HasDerivAt (fun t => evalT I (Function.update (envOf [x]) 0 t) f_gsl_sf_bessel_j0.value) (evalT I (envOf [x]) (f_gsl_sf_bessel_j0.d 0)) x := by
  refine deriv_of_formula I _ _ _ _ ?_ ?_
  · simp [f_gsl_sf_bessel_j0, Formulas.d, Formulas.h, RExpr.inline, specE, RExpr.subst, Ok, eval, envOf, *]
  · simp [f_gsl_sf_bessel_j0, Formulas.d, Formulas.h, RExpr.inline, specE, RExpr.subst, eval, diff, envOf, *]
    try field_simp
    try ring
    all_goals (try simp)

theorem bessel_j0_h0 (x : ℝ) (hx : x ≠ 0) :
    HasDerivAt (fun t => evalT I (Function.update (envOf [x]) 0 t) (f_gsl_sf_bessel_j0.d 0)) (evalT I (envOf [x]) (f_gsl_sf_bessel_j0.h 0)) x := by
  refine deriv_of_formula I _ _ _ _ ?_ ?_
  · simp [f_gsl_sf_bessel_j0, Formulas.d, Formulas.h, RExpr.inline, specE, RExpr.subst, Ok, eval, envOf, *]
  · simp [f_gsl_sf_bessel_j0, Formulas.d, Formulas.h, RExpr.inline, specE, RExpr.subst, eval, diff, envOf, *]
    try field_simp
    try ring
    all_goals (try simp)

theorem bessel_y0_d0 (x : ℝ) (hx : x ≠ 0) :
    HasDerivAt (fun t => evalT I (Function.update (envOf [x]) 0 t) f_gsl_sf_bessel_y0.value) (evalT I (envOf [x]) (f_gsl_sf_bessel_y0.d 0)) x := by
  refine deriv_of_formula I _ _ _ _ ?_ ?_
  · simp [f_gsl_sf_bessel_y0, Formulas.d, Formulas.h, RExpr.inline, specE, RExpr.subst, Ok, eval, envOf, *]
  · simp [f_gsl_sf_bessel_y0, Formulas.d, Formulas.h, RExpr.inline, specE, RExpr.subst, eval, diff, envOf, *]
    try field_simp
    try ring
    all_goals (try simp)

theorem bessel_y0_h0 (x : ℝ) (hx : x ≠ 0) :
    HasDerivAt (fun t => evalT I (Function.update (envOf [x]) 0 t) (f_gsl_sf_bessel_y0.d 0)) (evalT I (envOf [x]) (f_gsl_sf_bessel_y0.h 0)) x := by
  refine deriv_of_formula I _ _ _ _ ?_ ?_
  · simp [f_gsl_sf_bessel_y0, Formulas.d, Formulas.h, RExpr.inline, specE, RExpr.subst, Ok, eval, envOf, *]
  · simp [f_gsl_sf_bessel_y0, Formulas.d, Formulas.h, RExpr.inline, specE, RExpr.subst, eval, diff, envOf, *]
    try field_simp
    try ring
    all_goals (try simp)


theorem log1p_h0 (x : ℝ) (hx : x + 1 ≠ 0) :
    HasDerivAt (fun t => evalT I (Function.update (envOf [x]) 0 t) (f_gsl_log1p.d 0)) (evalT I (envOf [x]) (f_gsl_log1p.h 0)) x := by
  refine deriv_of_formula I _ _ _ _ ?_ ?_
  · simp [f_gsl_log1p, Formulas.d, Formulas.h, RExpr.inline, specE, RExpr.subst, Ok, eval, envOf, *]
  · simp [f_gsl_log1p, Formulas.d, Formulas.h, RExpr.inline, specE, RExpr.subst, eval, diff, envOf, *]
    try field_simp
    try ring
    all_goals (try simp)

/-! ### hypot and hypot3: the generated terms denote exactly the functions of `Deriv.lean`, whose theorems transfer -/

theorem hypot_d0 (x y : ℝ) (hpos : 0 < x ^ 2 + y ^ 2) :
    HasDerivAt (fun t => evalT I (Function.update (envOf [x, y]) 0 t) (f_gsl_hypot.value)) (evalT I (envOf [x, y]) (f_gsl_hypot.d 0)) x := by
  have h := Deriv.hypot_dx x y hpos
  have ef : (fun t => evalT I (Function.update (envOf [x, y]) 0 t) (f_gsl_hypot.value)) = (fun t => Deriv.hyp t y) := by
    funext t; simp [evalT, f_gsl_hypot, Formulas.d, Formulas.h, RExpr.inline, specE, RExpr.subst, eval, envOf, Function.update, Deriv.hyp, Deriv.hypotD0, Deriv.hypotD1, Deriv.hypotH0, Deriv.hypotH1, Deriv.hypotH2, pow_two]
  rw [ef]
  exact h.congr_deriv (by simp [evalT, f_gsl_hypot, Formulas.d, Formulas.h, RExpr.inline, specE, RExpr.subst, eval, envOf, Function.update, Deriv.hyp, Deriv.hypotD0, Deriv.hypotD1, Deriv.hypotH0, Deriv.hypotH1, Deriv.hypotH2, pow_two])

theorem hypot_d1 (x y : ℝ) (hpos : 0 < x ^ 2 + y ^ 2) :
    HasDerivAt (fun t => evalT I (Function.update (envOf [x, y]) 1 t) (f_gsl_hypot.value)) (evalT I (envOf [x, y]) (f_gsl_hypot.d 1)) y := by
  have h := Deriv.hypot_dy x y hpos
  have ef : (fun t => evalT I (Function.update (envOf [x, y]) 1 t) (f_gsl_hypot.value)) = (fun s => Deriv.hyp x s) := by
    funext t; simp [evalT, f_gsl_hypot, Formulas.d, Formulas.h, RExpr.inline, specE, RExpr.subst, eval, envOf, Function.update, Deriv.hyp, Deriv.hypotD0, Deriv.hypotD1, Deriv.hypotH0, Deriv.hypotH1, Deriv.hypotH2, pow_two]
  rw [ef]
  exact h.congr_deriv (by simp [evalT, f_gsl_hypot, Formulas.d, Formulas.h, RExpr.inline, specE, RExpr.subst, eval, envOf, Function.update, Deriv.hyp, Deriv.hypotD0, Deriv.hypotD1, Deriv.hypotH0, Deriv.hypotH1, Deriv.hypotH2, pow_two])

theorem hypot_h0 (x y : ℝ) (hpos : 0 < x ^ 2 + y ^ 2) :
    HasDerivAt (fun t => evalT I (Function.update (envOf [x, y]) 0 t) (f_gsl_hypot.d 0)) (evalT I (envOf [x, y]) (f_gsl_hypot.h 0)) x := by
  have h := Deriv.hypot_hes0 x y hpos
  have ef : (fun t => evalT I (Function.update (envOf [x, y]) 0 t) (f_gsl_hypot.d 0)) = (fun t => Deriv.hypotD0 t y) := by
    funext t; simp [evalT, f_gsl_hypot, Formulas.d, Formulas.h, RExpr.inline, specE, RExpr.subst, eval, envOf, Function.update, Deriv.hyp, Deriv.hypotD0, Deriv.hypotD1, Deriv.hypotH0, Deriv.hypotH1, Deriv.hypotH2, pow_two]
  rw [ef]
  exact h.congr_deriv (by simp [evalT, f_gsl_hypot, Formulas.d, Formulas.h, RExpr.inline, specE, RExpr.subst, eval, envOf, Function.update, Deriv.hyp, Deriv.hypotD0, Deriv.hypotD1, Deriv.hypotH0, Deriv.hypotH1, Deriv.hypotH2, pow_two])

theorem hypot_h1 (x y : ℝ) (hpos : 0 < x ^ 2 + y ^ 2) :
    HasDerivAt (fun t => evalT I (Function.update (envOf [x, y]) 1 t) (f_gsl_hypot.d 0)) (evalT I (envOf [x, y]) (f_gsl_hypot.h 1)) y := by
  have h := Deriv.hypot_hes1 x y hpos
  have ef : (fun t => evalT I (Function.update (envOf [x, y]) 1 t) (f_gsl_hypot.d 0)) = (fun s => Deriv.hypotD0 x s) := by
    funext t; simp [evalT, f_gsl_hypot, Formulas.d, Formulas.h, RExpr.inline, specE, RExpr.subst, eval, envOf, Function.update, Deriv.hyp, Deriv.hypotD0, Deriv.hypotD1, Deriv.hypotH0, Deriv.hypotH1, Deriv.hypotH2, pow_two]
  rw [ef]
  exact h.congr_deriv (by simp [evalT, f_gsl_hypot, Formulas.d, Formulas.h, RExpr.inline, specE, RExpr.subst, eval, envOf, Function.update, Deriv.hyp, Deriv.hypotD0, Deriv.hypotD1, Deriv.hypotH0, Deriv.hypotH1, Deriv.hypotH2, pow_two])

theorem hypot_h1_sym (x y : ℝ) (hpos : 0 < x ^ 2 + y ^ 2) :
    HasDerivAt (fun t => evalT I (Function.update (envOf [x, y]) 0 t) (f_gsl_hypot.d 1)) (evalT I (envOf [x, y]) (f_gsl_hypot.h 1)) x := by
  have h := Deriv.hypot_hes1' x y hpos
  have ef : (fun t => evalT I (Function.update (envOf [x, y]) 0 t) (f_gsl_hypot.d 1)) = (fun t => Deriv.hypotD1 t y) := by
    funext t; simp [evalT, f_gsl_hypot, Formulas.d, Formulas.h, RExpr.inline, specE, RExpr.subst, eval, envOf, Function.update, Deriv.hyp, Deriv.hypotD0, Deriv.hypotD1, Deriv.hypotH0, Deriv.hypotH1, Deriv.hypotH2, pow_two]
  rw [ef]
  exact h.congr_deriv (by simp [evalT, f_gsl_hypot, Formulas.d, Formulas.h, RExpr.inline, specE, RExpr.subst, eval, envOf, Function.update, Deriv.hyp, Deriv.hypotD0, Deriv.hypotD1, Deriv.hypotH0, Deriv.hypotH1, Deriv.hypotH2, pow_two])

theorem hypot_h2 (x y : ℝ) (hpos : 0 < x ^ 2 + y ^ 2) :
    HasDerivAt (fun t => evalT I (Function.update (envOf [x, y]) 1 t) (f_gsl_hypot.d 1)) (evalT I (envOf [x, y]) (f_gsl_hypot.h 2)) y := by
  have h := Deriv.hypot_hes2 x y hpos
  have ef : (fun t => evalT I (Function.update (envOf [x, y]) 1 t) (f_gsl_hypot.d 1)) = (fun s => Deriv.hypotD1 x s) := by
    funext t; simp [evalT, f_gsl_hypot, Formulas.d, Formulas.h, RExpr.inline, specE, RExpr.subst, eval, envOf, Function.update, Deriv.hyp, Deriv.hypotD0, Deriv.hypotD1, Deriv.hypotH0, Deriv.hypotH1, Deriv.hypotH2, pow_two]
  rw [ef]
  exact h.congr_deriv (by simp [evalT, f_gsl_hypot, Formulas.d, Formulas.h, RExpr.inline, specE, RExpr.subst, eval, envOf, Function.update, Deriv.hyp, Deriv.hypotD0, Deriv.hypotD1, Deriv.hypotH0, Deriv.hypotH1, Deriv.hypotH2, pow_two])

theorem hypot3_d0 (x y z : ℝ) (hpos : 0 < x ^ 2 + y ^ 2 + z ^ 2) :
    HasDerivAt (fun t => evalT I (Function.update (envOf [x, y, z]) 0 t) (f_gsl_hypot3.value)) (evalT I (envOf [x, y, z]) (f_gsl_hypot3.d 0)) x := by
  have h := Deriv.hypot3_dx x y z hpos
  have ef : (fun t => evalT I (Function.update (envOf [x, y, z]) 0 t) (f_gsl_hypot3.value)) = (fun t => Deriv.hyp3 t y z) := by
    funext t; simp [evalT, f_gsl_hypot3, Formulas.d, Formulas.h, RExpr.inline, specE, RExpr.subst, eval, envOf, Function.update, Deriv.hyp3, Deriv.h3Dx, Deriv.h3Dy, Deriv.h3Dz, Deriv.hypot3Hes, pow_two]
  rw [ef]
  exact h.congr_deriv (by simp [evalT, f_gsl_hypot3, Formulas.d, Formulas.h, RExpr.inline, specE, RExpr.subst, eval, envOf, Function.update, Deriv.hyp3, Deriv.h3Dx, Deriv.h3Dy, Deriv.h3Dz, Deriv.hypot3Hes, pow_two])

theorem hypot3_d1 (x y z : ℝ) (hpos : 0 < x ^ 2 + y ^ 2 + z ^ 2) :
    HasDerivAt (fun t => evalT I (Function.update (envOf [x, y, z]) 1 t) (f_gsl_hypot3.value)) (evalT I (envOf [x, y, z]) (f_gsl_hypot3.d 1)) y := by
  have h := Deriv.hypot3_dy x y z hpos
  have ef : (fun t => evalT I (Function.update (envOf [x, y, z]) 1 t) (f_gsl_hypot3.value)) = (fun s => Deriv.hyp3 x s z) := by
    funext t; simp [evalT, f_gsl_hypot3, Formulas.d, Formulas.h, RExpr.inline, specE, RExpr.subst, eval, envOf, Function.update, Deriv.hyp3, Deriv.h3Dx, Deriv.h3Dy, Deriv.h3Dz, Deriv.hypot3Hes, pow_two]
  rw [ef]
  exact h.congr_deriv (by simp [evalT, f_gsl_hypot3, Formulas.d, Formulas.h, RExpr.inline, specE, RExpr.subst, eval, envOf, Function.update, Deriv.hyp3, Deriv.h3Dx, Deriv.h3Dy, Deriv.h3Dz, Deriv.hypot3Hes, pow_two])

theorem hypot3_d2 (x y z : ℝ) (hpos : 0 < x ^ 2 + y ^ 2 + z ^ 2) :
    HasDerivAt (fun t => evalT I (Function.update (envOf [x, y, z]) 2 t) (f_gsl_hypot3.value)) (evalT I (envOf [x, y, z]) (f_gsl_hypot3.d 2)) z := by
  have h := Deriv.hypot3_dz x y z hpos
  have ef : (fun t => evalT I (Function.update (envOf [x, y, z]) 2 t) (f_gsl_hypot3.value)) = (fun u => Deriv.hyp3 x y u) := by
    funext t; simp [evalT, f_gsl_hypot3, Formulas.d, Formulas.h, RExpr.inline, specE, RExpr.subst, eval, envOf, Function.update, Deriv.hyp3, Deriv.h3Dx, Deriv.h3Dy, Deriv.h3Dz, Deriv.hypot3Hes, pow_two]
  rw [ef]
  exact h.congr_deriv (by simp [evalT, f_gsl_hypot3, Formulas.d, Formulas.h, RExpr.inline, specE, RExpr.subst, eval, envOf, Function.update, Deriv.hyp3, Deriv.h3Dx, Deriv.h3Dy, Deriv.h3Dz, Deriv.hypot3Hes, pow_two])

theorem hypot3_h0_xx (x y z : ℝ) (hpos : 0 < x ^ 2 + y ^ 2 + z ^ 2) :
    HasDerivAt (fun t => evalT I (Function.update (envOf [x, y, z]) 0 t) (f_gsl_hypot3.d 0)) (evalT I (envOf [x, y, z]) (f_gsl_hypot3.h 0)) x := by
  have h := Deriv.hypot3_hes_xx x y z hpos
  have ef : (fun t => evalT I (Function.update (envOf [x, y, z]) 0 t) (f_gsl_hypot3.d 0)) = (fun t => Deriv.h3Dx t y z) := by
    funext t; simp [evalT, f_gsl_hypot3, Formulas.d, Formulas.h, RExpr.inline, specE, RExpr.subst, eval, envOf, Function.update, Deriv.hyp3, Deriv.h3Dx, Deriv.h3Dy, Deriv.h3Dz, Deriv.hypot3Hes, pow_two]
  rw [ef]
  exact h.congr_deriv (by simp [evalT, f_gsl_hypot3, Formulas.d, Formulas.h, RExpr.inline, specE, RExpr.subst, eval, envOf, Function.update, Deriv.hyp3, Deriv.h3Dx, Deriv.h3Dy, Deriv.h3Dz, Deriv.hypot3Hes, pow_two])

theorem hypot3_h1_xy (x y z : ℝ) (hpos : 0 < x ^ 2 + y ^ 2 + z ^ 2) :
    HasDerivAt (fun t => evalT I (Function.update (envOf [x, y, z]) 1 t) (f_gsl_hypot3.d 0)) (evalT I (envOf [x, y, z]) (f_gsl_hypot3.h 1)) y := by
  have h := Deriv.hypot3_hes_xy x y z hpos
  have ef : (fun t => evalT I (Function.update (envOf [x, y, z]) 1 t) (f_gsl_hypot3.d 0)) = (fun s => Deriv.h3Dx x s z) := by
    funext t; simp [evalT, f_gsl_hypot3, Formulas.d, Formulas.h, RExpr.inline, specE, RExpr.subst, eval, envOf, Function.update, Deriv.hyp3, Deriv.h3Dx, Deriv.h3Dy, Deriv.h3Dz, Deriv.hypot3Hes, pow_two]
  rw [ef]
  exact h.congr_deriv (by simp [evalT, f_gsl_hypot3, Formulas.d, Formulas.h, RExpr.inline, specE, RExpr.subst, eval, envOf, Function.update, Deriv.hyp3, Deriv.h3Dx, Deriv.h3Dy, Deriv.h3Dz, Deriv.hypot3Hes, pow_two])

theorem hypot3_h2_xz (x y z : ℝ) (hpos : 0 < x ^ 2 + y ^ 2 + z ^ 2) :
    HasDerivAt (fun t => evalT I (Function.update (envOf [x, y, z]) 2 t) (f_gsl_hypot3.d 0)) (evalT I (envOf [x, y, z]) (f_gsl_hypot3.h 2)) z := by
  have h := Deriv.hypot3_hes_xz x y z hpos
  have ef : (fun t => evalT I (Function.update (envOf [x, y, z]) 2 t) (f_gsl_hypot3.d 0)) = (fun u => Deriv.h3Dx x y u) := by
    funext t; simp [evalT, f_gsl_hypot3, Formulas.d, Formulas.h, RExpr.inline, specE, RExpr.subst, eval, envOf, Function.update, Deriv.hyp3, Deriv.h3Dx, Deriv.h3Dy, Deriv.h3Dz, Deriv.hypot3Hes, pow_two]
  rw [ef]
  exact h.congr_deriv (by simp [evalT, f_gsl_hypot3, Formulas.d, Formulas.h, RExpr.inline, specE, RExpr.subst, eval, envOf, Function.update, Deriv.hyp3, Deriv.h3Dx, Deriv.h3Dy, Deriv.h3Dz, Deriv.hypot3Hes, pow_two])

theorem hypot3_h3_yy (x y z : ℝ) (hpos : 0 < x ^ 2 + y ^ 2 + z ^ 2) :
    HasDerivAt (fun t => evalT I (Function.update (envOf [x, y, z]) 1 t) (f_gsl_hypot3.d 1)) (evalT I (envOf [x, y, z]) (f_gsl_hypot3.h 3)) y := by
  have h := Deriv.hypot3_hes_yy x y z hpos
  have ef : (fun t => evalT I (Function.update (envOf [x, y, z]) 1 t) (f_gsl_hypot3.d 1)) = (fun s => Deriv.h3Dy x s z) := by
    funext t; simp [evalT, f_gsl_hypot3, Formulas.d, Formulas.h, RExpr.inline, specE, RExpr.subst, eval, envOf, Function.update, Deriv.hyp3, Deriv.h3Dx, Deriv.h3Dy, Deriv.h3Dz, Deriv.hypot3Hes, pow_two]
  rw [ef]
  exact h.congr_deriv (by simp [evalT, f_gsl_hypot3, Formulas.d, Formulas.h, RExpr.inline, specE, RExpr.subst, eval, envOf, Function.update, Deriv.hyp3, Deriv.h3Dx, Deriv.h3Dy, Deriv.h3Dz, Deriv.hypot3Hes, pow_two])

theorem hypot3_h4_yz (x y z : ℝ) (hpos : 0 < x ^ 2 + y ^ 2 + z ^ 2) :
    HasDerivAt (fun t => evalT I (Function.update (envOf [x, y, z]) 2 t) (f_gsl_hypot3.d 1)) (evalT I (envOf [x, y, z]) (f_gsl_hypot3.h 4)) z := by
  have h := Deriv.hypot3_hes_yz x y z hpos
  have ef : (fun t => evalT I (Function.update (envOf [x, y, z]) 2 t) (f_gsl_hypot3.d 1)) = (fun u => Deriv.h3Dy x y u) := by
    funext t; simp [evalT, f_gsl_hypot3, Formulas.d, Formulas.h, RExpr.inline, specE, RExpr.subst, eval, envOf, Function.update, Deriv.hyp3, Deriv.h3Dx, Deriv.h3Dy, Deriv.h3Dz, Deriv.hypot3Hes, pow_two]
  rw [ef]
  exact h.congr_deriv (by simp [evalT, f_gsl_hypot3, Formulas.d, Formulas.h, RExpr.inline, specE, RExpr.subst, eval, envOf, Function.update, Deriv.hyp3, Deriv.h3Dx, Deriv.h3Dy, Deriv.h3Dz, Deriv.hypot3Hes, pow_two])

theorem hypot3_h5_zz (x y z : ℝ) (hpos : 0 < x ^ 2 + y ^ 2 + z ^ 2) :
    HasDerivAt (fun t => evalT I (Function.update (envOf [x, y, z]) 2 t) (f_gsl_hypot3.d 2)) (evalT I (envOf [x, y, z]) (f_gsl_hypot3.h 5)) z := by
  have h := Deriv.hypot3_hes_zz x y z hpos
  have ef : (fun t => evalT I (Function.update (envOf [x, y, z]) 2 t) (f_gsl_hypot3.d 2)) = (fun u => Deriv.h3Dz x y u) := by
    funext t; simp [evalT, f_gsl_hypot3, Formulas.d, Formulas.h, RExpr.inline, specE, RExpr.subst, eval, envOf, Function.update, Deriv.hyp3, Deriv.h3Dx, Deriv.h3Dy, Deriv.h3Dz, Deriv.hypot3Hes, pow_two]
  rw [ef]
  exact h.congr_deriv (by simp [evalT, f_gsl_hypot3, Formulas.d, Formulas.h, RExpr.inline, specE, RExpr.subst, eval, envOf, Function.update, Deriv.hyp3, Deriv.h3Dx, Deriv.h3Dy, Deriv.h3Dz, Deriv.hypot3Hes, pow_two])


/-! ### bindings whose value is a GSL special function: theorems CONDITIONAL on the classical derivative identities

`Ident I f x` (RDiff.lean) says that the identity `dsym f` — e.g. J₀′ = −J₁, I₁′ = (I₀ + I₂)/2, Ai″ = x·Ai, F′ = 1 − 2xF, Γ′ = Γψ —
holds at x for the interpretation `I` of the symbols.  Under the identities named in its hypotheses each theorem proves that the expression
amplgsl.cc stores into `derivs[0]` is the derivative of the value, resp. that the one stored into `hes[0]` is the derivative of the stored
first derivative.  Nothing is proved about GSL's functions themselves; a changed formula in amplgsl.cc breaks the theorem. -/

theorem bessel_J0_d0 (x : ℝ) (hI0 : Ident I "gsl_sf_bessel_J0" x) :
    HasDerivAt (fun t => evalT I (Function.update (envOf [x]) 0 t) (f_gsl_sf_bessel_J0.value)) (evalT I (envOf [x]) (f_gsl_sf_bessel_J0.d 0)) x := by
  refine deriv_of_formula I _ _ _ _ ?_ ?_
  · simp [f_gsl_sf_bessel_J0, Formulas.d, Formulas.h, RExpr.inline, specE, RExpr.subst, Ok, dsym, dsymE, eval, envOf, *]
  · simp [f_gsl_sf_bessel_J0, Formulas.d, Formulas.h, RExpr.inline, specE, RExpr.subst, dsym, dsymE, eval, diff, envOf, *]
    try field_simp
    try ring
    all_goals (try simp)

theorem bessel_J0_h0 (x : ℝ) (hI0 : Ident I "gsl_sf_bessel_J1" x) :
    HasDerivAt (fun t => evalT I (Function.update (envOf [x]) 0 t) (f_gsl_sf_bessel_J0.d 0)) (evalT I (envOf [x]) (f_gsl_sf_bessel_J0.h 0)) x := by
  refine deriv_of_formula I _ _ _ _ ?_ ?_
  · simp [f_gsl_sf_bessel_J0, Formulas.d, Formulas.h, RExpr.inline, specE, RExpr.subst, Ok, dsym, dsymE, eval, envOf, *]
  · simp [f_gsl_sf_bessel_J0, Formulas.d, Formulas.h, RExpr.inline, specE, RExpr.subst, dsym, dsymE, eval, diff, envOf, *]
    try field_simp
    try ring
    all_goals (try simp)

theorem bessel_J1_d0 (x : ℝ) (hI0 : Ident I "gsl_sf_bessel_J1" x) :
    HasDerivAt (fun t => evalT I (Function.update (envOf [x]) 0 t) (f_gsl_sf_bessel_J1.value)) (evalT I (envOf [x]) (f_gsl_sf_bessel_J1.d 0)) x := by
  refine deriv_of_formula I _ _ _ _ ?_ ?_
  · simp [f_gsl_sf_bessel_J1, Formulas.d, Formulas.h, RExpr.inline, specE, RExpr.subst, Ok, dsym, dsymE, eval, envOf, *]
  · simp [f_gsl_sf_bessel_J1, Formulas.d, Formulas.h, RExpr.inline, specE, RExpr.subst, dsym, dsymE, eval, diff, envOf, *]
    try field_simp
    try ring
    all_goals (try simp)

theorem bessel_J1_h0 (x : ℝ) (hI0 : Ident I "gsl_sf_bessel_J0" x) (hI1 : Ident I "gsl_sf_bessel_Jn#2" x) :
    HasDerivAt (fun t => evalT I (Function.update (envOf [x]) 0 t) (f_gsl_sf_bessel_J1.d 0)) (evalT I (envOf [x]) (f_gsl_sf_bessel_J1.h 0)) x := by
  refine deriv_of_formula I _ _ _ _ ?_ ?_
  · simp [f_gsl_sf_bessel_J1, Formulas.d, Formulas.h, RExpr.inline, specE, RExpr.subst, Ok, dsym, dsymE, eval, envOf, *]
  · simp [f_gsl_sf_bessel_J1, Formulas.d, Formulas.h, RExpr.inline, specE, RExpr.subst, dsym, dsymE, eval, diff, envOf, *]
    try field_simp
    try ring
    all_goals (try simp)

theorem bessel_Y0_d0 (x : ℝ) (hI0 : Ident I "gsl_sf_bessel_Y0" x) :
    HasDerivAt (fun t => evalT I (Function.update (envOf [x]) 0 t) (f_gsl_sf_bessel_Y0.value)) (evalT I (envOf [x]) (f_gsl_sf_bessel_Y0.d 0)) x := by
  refine deriv_of_formula I _ _ _ _ ?_ ?_
  · simp [f_gsl_sf_bessel_Y0, Formulas.d, Formulas.h, RExpr.inline, specE, RExpr.subst, Ok, dsym, dsymE, eval, envOf, *]
  · simp [f_gsl_sf_bessel_Y0, Formulas.d, Formulas.h, RExpr.inline, specE, RExpr.subst, dsym, dsymE, eval, diff, envOf, *]
    try field_simp
    try ring
    all_goals (try simp)

theorem bessel_Y0_h0 (x : ℝ) (hI0 : Ident I "gsl_sf_bessel_Y1" x) :
    HasDerivAt (fun t => evalT I (Function.update (envOf [x]) 0 t) (f_gsl_sf_bessel_Y0.d 0)) (evalT I (envOf [x]) (f_gsl_sf_bessel_Y0.h 0)) x := by
  refine deriv_of_formula I _ _ _ _ ?_ ?_
  · simp [f_gsl_sf_bessel_Y0, Formulas.d, Formulas.h, RExpr.inline, specE, RExpr.subst, Ok, dsym, dsymE, eval, envOf, *]
  · simp [f_gsl_sf_bessel_Y0, Formulas.d, Formulas.h, RExpr.inline, specE, RExpr.subst, dsym, dsymE, eval, diff, envOf, *]
    try field_simp
    try ring
    all_goals (try simp)

theorem bessel_Y1_d0 (x : ℝ) (hI0 : Ident I "gsl_sf_bessel_Y1" x) :
    HasDerivAt (fun t => evalT I (Function.update (envOf [x]) 0 t) (f_gsl_sf_bessel_Y1.value)) (evalT I (envOf [x]) (f_gsl_sf_bessel_Y1.d 0)) x := by
  refine deriv_of_formula I _ _ _ _ ?_ ?_
  · simp [f_gsl_sf_bessel_Y1, Formulas.d, Formulas.h, RExpr.inline, specE, RExpr.subst, Ok, dsym, dsymE, eval, envOf, *]
  · simp [f_gsl_sf_bessel_Y1, Formulas.d, Formulas.h, RExpr.inline, specE, RExpr.subst, dsym, dsymE, eval, diff, envOf, *]
    try field_simp
    try ring
    all_goals (try simp)

theorem bessel_Y1_h0 (x : ℝ) (hI0 : Ident I "gsl_sf_bessel_Y0" x) (hI1 : Ident I "gsl_sf_bessel_Yn#2" x) :
    HasDerivAt (fun t => evalT I (Function.update (envOf [x]) 0 t) (f_gsl_sf_bessel_Y1.d 0)) (evalT I (envOf [x]) (f_gsl_sf_bessel_Y1.h 0)) x := by
  refine deriv_of_formula I _ _ _ _ ?_ ?_
  · simp [f_gsl_sf_bessel_Y1, Formulas.d, Formulas.h, RExpr.inline, specE, RExpr.subst, Ok, dsym, dsymE, eval, envOf, *]
  · simp [f_gsl_sf_bessel_Y1, Formulas.d, Formulas.h, RExpr.inline, specE, RExpr.subst, dsym, dsymE, eval, diff, envOf, *]
    try field_simp
    try ring
    all_goals (try simp)

theorem bessel_I0_d0 (x : ℝ) (hI0 : Ident I "gsl_sf_bessel_I0" x) :
    HasDerivAt (fun t => evalT I (Function.update (envOf [x]) 0 t) (f_gsl_sf_bessel_I0.value)) (evalT I (envOf [x]) (f_gsl_sf_bessel_I0.d 0)) x := by
  refine deriv_of_formula I _ _ _ _ ?_ ?_
  · simp [f_gsl_sf_bessel_I0, Formulas.d, Formulas.h, RExpr.inline, specE, RExpr.subst, Ok, dsym, dsymE, eval, envOf, *]
  · simp [f_gsl_sf_bessel_I0, Formulas.d, Formulas.h, RExpr.inline, specE, RExpr.subst, dsym, dsymE, eval, diff, envOf, *]
    try field_simp
    try ring
    all_goals (try simp)

theorem bessel_I0_h0 (x : ℝ) (hI0 : Ident I "gsl_sf_bessel_I1" x) :
    HasDerivAt (fun t => evalT I (Function.update (envOf [x]) 0 t) (f_gsl_sf_bessel_I0.d 0)) (evalT I (envOf [x]) (f_gsl_sf_bessel_I0.h 0)) x := by
  refine deriv_of_formula I _ _ _ _ ?_ ?_
  · simp [f_gsl_sf_bessel_I0, Formulas.d, Formulas.h, RExpr.inline, specE, RExpr.subst, Ok, dsym, dsymE, eval, envOf, *]
  · simp [f_gsl_sf_bessel_I0, Formulas.d, Formulas.h, RExpr.inline, specE, RExpr.subst, dsym, dsymE, eval, diff, envOf, *]
    try field_simp
    try ring
    all_goals (try simp)

theorem bessel_I1_d0 (x : ℝ) (hI0 : Ident I "gsl_sf_bessel_I1" x) :
    HasDerivAt (fun t => evalT I (Function.update (envOf [x]) 0 t) (f_gsl_sf_bessel_I1.value)) (evalT I (envOf [x]) (f_gsl_sf_bessel_I1.d 0)) x := by
  refine deriv_of_formula I _ _ _ _ ?_ ?_
  · simp [f_gsl_sf_bessel_I1, Formulas.d, Formulas.h, RExpr.inline, specE, RExpr.subst, Ok, dsym, dsymE, eval, envOf, *]
  · simp [f_gsl_sf_bessel_I1, Formulas.d, Formulas.h, RExpr.inline, specE, RExpr.subst, dsym, dsymE, eval, diff, envOf, *]
    try field_simp
    try ring
    all_goals (try simp)

theorem bessel_I1_h0 (x : ℝ) (hI0 : Ident I "gsl_sf_bessel_I0" x) (hI1 : Ident I "gsl_sf_bessel_In#2" x) :
    HasDerivAt (fun t => evalT I (Function.update (envOf [x]) 0 t) (f_gsl_sf_bessel_I1.d 0)) (evalT I (envOf [x]) (f_gsl_sf_bessel_I1.h 0)) x := by
  refine deriv_of_formula I _ _ _ _ ?_ ?_
  · simp [f_gsl_sf_bessel_I1, Formulas.d, Formulas.h, RExpr.inline, specE, RExpr.subst, Ok, dsym, dsymE, eval, envOf, *]
  · simp [f_gsl_sf_bessel_I1, Formulas.d, Formulas.h, RExpr.inline, specE, RExpr.subst, dsym, dsymE, eval, diff, envOf, *]
    try field_simp
    try ring
    all_goals (try simp)

theorem bessel_K0_d0 (x : ℝ) (hI0 : Ident I "gsl_sf_bessel_K0" x) :
    HasDerivAt (fun t => evalT I (Function.update (envOf [x]) 0 t) (f_gsl_sf_bessel_K0.value)) (evalT I (envOf [x]) (f_gsl_sf_bessel_K0.d 0)) x := by
  refine deriv_of_formula I _ _ _ _ ?_ ?_
  · simp [f_gsl_sf_bessel_K0, Formulas.d, Formulas.h, RExpr.inline, specE, RExpr.subst, Ok, dsym, dsymE, eval, envOf, *]
  · simp [f_gsl_sf_bessel_K0, Formulas.d, Formulas.h, RExpr.inline, specE, RExpr.subst, dsym, dsymE, eval, diff, envOf, *]
    try field_simp
    try ring
    all_goals (try simp)

theorem bessel_K0_h0 (x : ℝ) (hI0 : Ident I "gsl_sf_bessel_K1" x) :
    HasDerivAt (fun t => evalT I (Function.update (envOf [x]) 0 t) (f_gsl_sf_bessel_K0.d 0)) (evalT I (envOf [x]) (f_gsl_sf_bessel_K0.h 0)) x := by
  refine deriv_of_formula I _ _ _ _ ?_ ?_
  · simp [f_gsl_sf_bessel_K0, Formulas.d, Formulas.h, RExpr.inline, specE, RExpr.subst, Ok, dsym, dsymE, eval, envOf, *]
  · simp [f_gsl_sf_bessel_K0, Formulas.d, Formulas.h, RExpr.inline, specE, RExpr.subst, dsym, dsymE, eval, diff, envOf, *]
    try field_simp
    try ring
    all_goals (try simp)

theorem bessel_K1_d0 (x : ℝ) (hI0 : Ident I "gsl_sf_bessel_K1" x) :
    HasDerivAt (fun t => evalT I (Function.update (envOf [x]) 0 t) (f_gsl_sf_bessel_K1.value)) (evalT I (envOf [x]) (f_gsl_sf_bessel_K1.d 0)) x := by
  refine deriv_of_formula I _ _ _ _ ?_ ?_
  · simp [f_gsl_sf_bessel_K1, Formulas.d, Formulas.h, RExpr.inline, specE, RExpr.subst, Ok, dsym, dsymE, eval, envOf, *]
  · simp [f_gsl_sf_bessel_K1, Formulas.d, Formulas.h, RExpr.inline, specE, RExpr.subst, dsym, dsymE, eval, diff, envOf, *]
    try field_simp
    try ring
    all_goals (try simp)

theorem bessel_K1_h0 (x : ℝ) (hI0 : Ident I "gsl_sf_bessel_K0" x) (hI1 : Ident I "gsl_sf_bessel_Kn#2" x) :
    HasDerivAt (fun t => evalT I (Function.update (envOf [x]) 0 t) (f_gsl_sf_bessel_K1.d 0)) (evalT I (envOf [x]) (f_gsl_sf_bessel_K1.h 0)) x := by
  refine deriv_of_formula I _ _ _ _ ?_ ?_
  · simp [f_gsl_sf_bessel_K1, Formulas.d, Formulas.h, RExpr.inline, specE, RExpr.subst, Ok, dsym, dsymE, eval, envOf, *]
  · simp [f_gsl_sf_bessel_K1, Formulas.d, Formulas.h, RExpr.inline, specE, RExpr.subst, dsym, dsymE, eval, diff, envOf, *]
    try field_simp
    try ring
    all_goals (try simp)

theorem bessel_K0_scaled_d0 (x : ℝ) (hI0 : Ident I "gsl_sf_bessel_K0_scaled" x) :
    HasDerivAt (fun t => evalT I (Function.update (envOf [x]) 0 t) (f_gsl_sf_bessel_K0_scaled.value)) (evalT I (envOf [x]) (f_gsl_sf_bessel_K0_scaled.d 0)) x := by
  refine deriv_of_formula I _ _ _ _ ?_ ?_
  · simp [f_gsl_sf_bessel_K0_scaled, Formulas.d, Formulas.h, RExpr.inline, specE, RExpr.subst, Ok, dsym, dsymE, eval, envOf, *]
  · simp [f_gsl_sf_bessel_K0_scaled, Formulas.d, Formulas.h, RExpr.inline, specE, RExpr.subst, dsym, dsymE, eval, diff, envOf, *]
    try field_simp
    try ring
    all_goals (try simp)

theorem bessel_K0_scaled_h0 (x : ℝ) (hI0 : Ident I "gsl_sf_bessel_K0_scaled" x) (hI1 : Ident I "gsl_sf_bessel_K1_scaled" x) :
    HasDerivAt (fun t => evalT I (Function.update (envOf [x]) 0 t) (f_gsl_sf_bessel_K0_scaled.d 0)) (evalT I (envOf [x]) (f_gsl_sf_bessel_K0_scaled.h 0)) x := by
  refine deriv_of_formula I _ _ _ _ ?_ ?_
  · simp [f_gsl_sf_bessel_K0_scaled, Formulas.d, Formulas.h, RExpr.inline, specE, RExpr.subst, Ok, dsym, dsymE, eval, envOf, *]
  · simp [f_gsl_sf_bessel_K0_scaled, Formulas.d, Formulas.h, RExpr.inline, specE, RExpr.subst, dsym, dsymE, eval, diff, envOf, *]
    try field_simp
    try ring
    all_goals (try simp)

theorem bessel_K1_scaled_d0 (x : ℝ) (hI0 : Ident I "gsl_sf_bessel_K1_scaled" x) :
    HasDerivAt (fun t => evalT I (Function.update (envOf [x]) 0 t) (f_gsl_sf_bessel_K1_scaled.value)) (evalT I (envOf [x]) (f_gsl_sf_bessel_K1_scaled.d 0)) x := by
  refine deriv_of_formula I _ _ _ _ ?_ ?_
  · simp [f_gsl_sf_bessel_K1_scaled, Formulas.d, Formulas.h, RExpr.inline, specE, RExpr.subst, Ok, dsym, dsymE, eval, envOf, *]
  · simp [f_gsl_sf_bessel_K1_scaled, Formulas.d, Formulas.h, RExpr.inline, specE, RExpr.subst, dsym, dsymE, eval, diff, envOf, *]
    try field_simp
    try ring
    all_goals (try simp)

theorem bessel_K1_scaled_h0 (x : ℝ) (hI0 : Ident I "gsl_sf_bessel_K0_scaled" x) (hI1 : Ident I "gsl_sf_bessel_K1_scaled" x) (hI2 : Ident I "gsl_sf_bessel_Kn_scaled#2" x) :
    HasDerivAt (fun t => evalT I (Function.update (envOf [x]) 0 t) (f_gsl_sf_bessel_K1_scaled.d 0)) (evalT I (envOf [x]) (f_gsl_sf_bessel_K1_scaled.h 0)) x := by
  refine deriv_of_formula I _ _ _ _ ?_ ?_
  · simp [f_gsl_sf_bessel_K1_scaled, Formulas.d, Formulas.h, RExpr.inline, specE, RExpr.subst, Ok, dsym, dsymE, eval, envOf, *]
  · simp [f_gsl_sf_bessel_K1_scaled, Formulas.d, Formulas.h, RExpr.inline, specE, RExpr.subst, dsym, dsymE, eval, diff, envOf, *]
    try field_simp
    try ring
    all_goals (try simp)

theorem airy_Ai_d0 (x : ℝ) (hI0 : Ident I "gsl_sf_airy_Ai" x) :
    HasDerivAt (fun t => evalT I (Function.update (envOf [x]) 0 t) (f_gsl_sf_airy_Ai.value)) (evalT I (envOf [x]) (f_gsl_sf_airy_Ai.d 0)) x := by
  refine deriv_of_formula I _ _ _ _ ?_ ?_
  · simp [f_gsl_sf_airy_Ai, Formulas.d, Formulas.h, RExpr.inline, specE, RExpr.subst, Ok, dsym, dsymE, eval, envOf, *]
  · simp [f_gsl_sf_airy_Ai, Formulas.d, Formulas.h, RExpr.inline, specE, RExpr.subst, dsym, dsymE, eval, diff, envOf, *]
    try field_simp
    try ring
    all_goals (try simp)

theorem airy_Ai_h0 (x : ℝ) (hI0 : Ident I "gsl_sf_airy_Ai_deriv" x) :
    HasDerivAt (fun t => evalT I (Function.update (envOf [x]) 0 t) (f_gsl_sf_airy_Ai.d 0)) (evalT I (envOf [x]) (f_gsl_sf_airy_Ai.h 0)) x := by
  refine deriv_of_formula I _ _ _ _ ?_ ?_
  · simp [f_gsl_sf_airy_Ai, Formulas.d, Formulas.h, RExpr.inline, specE, RExpr.subst, Ok, dsym, dsymE, eval, envOf, *]
  · simp [f_gsl_sf_airy_Ai, Formulas.d, Formulas.h, RExpr.inline, specE, RExpr.subst, dsym, dsymE, eval, diff, envOf, *]
    try field_simp
    try ring
    all_goals (try simp)

theorem airy_Bi_d0 (x : ℝ) (hI0 : Ident I "gsl_sf_airy_Bi" x) :
    HasDerivAt (fun t => evalT I (Function.update (envOf [x]) 0 t) (f_gsl_sf_airy_Bi.value)) (evalT I (envOf [x]) (f_gsl_sf_airy_Bi.d 0)) x := by
  refine deriv_of_formula I _ _ _ _ ?_ ?_
  · simp [f_gsl_sf_airy_Bi, Formulas.d, Formulas.h, RExpr.inline, specE, RExpr.subst, Ok, dsym, dsymE, eval, envOf, *]
  · simp [f_gsl_sf_airy_Bi, Formulas.d, Formulas.h, RExpr.inline, specE, RExpr.subst, dsym, dsymE, eval, diff, envOf, *]
    try field_simp
    try ring
    all_goals (try simp)

theorem airy_Bi_h0 (x : ℝ) (hI0 : Ident I "gsl_sf_airy_Bi_deriv" x) :
    HasDerivAt (fun t => evalT I (Function.update (envOf [x]) 0 t) (f_gsl_sf_airy_Bi.d 0)) (evalT I (envOf [x]) (f_gsl_sf_airy_Bi.h 0)) x := by
  refine deriv_of_formula I _ _ _ _ ?_ ?_
  · simp [f_gsl_sf_airy_Bi, Formulas.d, Formulas.h, RExpr.inline, specE, RExpr.subst, Ok, dsym, dsymE, eval, envOf, *]
  · simp [f_gsl_sf_airy_Bi, Formulas.d, Formulas.h, RExpr.inline, specE, RExpr.subst, dsym, dsymE, eval, diff, envOf, *]
    try field_simp
    try ring
    all_goals (try simp)

theorem dawson_d0 (x : ℝ) (hI0 : Ident I "gsl_sf_dawson" x) :
    HasDerivAt (fun t => evalT I (Function.update (envOf [x]) 0 t) (f_gsl_sf_dawson.value)) (evalT I (envOf [x]) (f_gsl_sf_dawson.d 0)) x := by
  refine deriv_of_formula I _ _ _ _ ?_ ?_
  · simp [f_gsl_sf_dawson, Formulas.d, Formulas.h, RExpr.inline, specE, RExpr.subst, Ok, dsym, dsymE, eval, envOf, *]
  · simp [f_gsl_sf_dawson, Formulas.d, Formulas.h, RExpr.inline, specE, RExpr.subst, dsym, dsymE, eval, diff, envOf, *]
    try field_simp
    try ring
    all_goals (try simp)

theorem dawson_h0 (x : ℝ) (hI0 : Ident I "gsl_sf_dawson" x) :
    HasDerivAt (fun t => evalT I (Function.update (envOf [x]) 0 t) (f_gsl_sf_dawson.d 0)) (evalT I (envOf [x]) (f_gsl_sf_dawson.h 0)) x := by
  refine deriv_of_formula I _ _ _ _ ?_ ?_
  · simp [f_gsl_sf_dawson, Formulas.d, Formulas.h, RExpr.inline, specE, RExpr.subst, Ok, dsym, dsymE, eval, envOf, *]
  · simp [f_gsl_sf_dawson, Formulas.d, Formulas.h, RExpr.inline, specE, RExpr.subst, dsym, dsymE, eval, diff, envOf, *]
    try field_simp
    try ring
    all_goals (try simp)

theorem erf_Z_d0 (x : ℝ) (hI0 : Ident I "gsl_sf_erf_Z" x) :
    HasDerivAt (fun t => evalT I (Function.update (envOf [x]) 0 t) (f_gsl_sf_erf_Z.value)) (evalT I (envOf [x]) (f_gsl_sf_erf_Z.d 0)) x := by
  refine deriv_of_formula I _ _ _ _ ?_ ?_
  · simp [f_gsl_sf_erf_Z, Formulas.d, Formulas.h, RExpr.inline, specE, RExpr.subst, Ok, dsym, dsymE, eval, envOf, *]
  · simp [f_gsl_sf_erf_Z, Formulas.d, Formulas.h, RExpr.inline, specE, RExpr.subst, dsym, dsymE, eval, diff, envOf, *]
    try field_simp
    try ring
    all_goals (try simp)

theorem erf_Z_h0 (x : ℝ) (hI0 : Ident I "gsl_sf_erf_Z" x) :
    HasDerivAt (fun t => evalT I (Function.update (envOf [x]) 0 t) (f_gsl_sf_erf_Z.d 0)) (evalT I (envOf [x]) (f_gsl_sf_erf_Z.h 0)) x := by
  refine deriv_of_formula I _ _ _ _ ?_ ?_
  · simp [f_gsl_sf_erf_Z, Formulas.d, Formulas.h, RExpr.inline, specE, RExpr.subst, Ok, dsym, dsymE, eval, envOf, *]
  · simp [f_gsl_sf_erf_Z, Formulas.d, Formulas.h, RExpr.inline, specE, RExpr.subst, dsym, dsymE, eval, diff, envOf, *]
    try field_simp
    try ring
    all_goals (try simp)

theorem erf_Q_d0 (x : ℝ) (hI0 : Ident I "gsl_sf_erf_Q" x) :
    HasDerivAt (fun t => evalT I (Function.update (envOf [x]) 0 t) (f_gsl_sf_erf_Q.value)) (evalT I (envOf [x]) (f_gsl_sf_erf_Q.d 0)) x := by
  refine deriv_of_formula I _ _ _ _ ?_ ?_
  · simp [f_gsl_sf_erf_Q, Formulas.d, Formulas.h, RExpr.inline, specE, RExpr.subst, Ok, dsym, dsymE, eval, envOf, *]
  · simp [f_gsl_sf_erf_Q, Formulas.d, Formulas.h, RExpr.inline, specE, RExpr.subst, dsym, dsymE, eval, diff, envOf, *]
    try field_simp
    try ring
    all_goals (try simp)

theorem erf_Q_h0 (x : ℝ) (hI0 : Ident I "gsl_sf_erf_Z" x) :
    HasDerivAt (fun t => evalT I (Function.update (envOf [x]) 0 t) (f_gsl_sf_erf_Q.d 0)) (evalT I (envOf [x]) (f_gsl_sf_erf_Q.h 0)) x := by
  refine deriv_of_formula I _ _ _ _ ?_ ?_
  · simp [f_gsl_sf_erf_Q, Formulas.d, Formulas.h, RExpr.inline, specE, RExpr.subst, Ok, dsym, dsymE, eval, envOf, *]
  · simp [f_gsl_sf_erf_Q, Formulas.d, Formulas.h, RExpr.inline, specE, RExpr.subst, dsym, dsymE, eval, diff, envOf, *]
    try field_simp
    try ring
    all_goals (try simp)

theorem hazard_d0 (x : ℝ) (hI0 : Ident I "gsl_sf_hazard" x) :
    HasDerivAt (fun t => evalT I (Function.update (envOf [x]) 0 t) (f_gsl_sf_hazard.value)) (evalT I (envOf [x]) (f_gsl_sf_hazard.d 0)) x := by
  refine deriv_of_formula I _ _ _ _ ?_ ?_
  · simp [f_gsl_sf_hazard, Formulas.d, Formulas.h, RExpr.inline, specE, RExpr.subst, Ok, dsym, dsymE, eval, envOf, *]
  · simp [f_gsl_sf_hazard, Formulas.d, Formulas.h, RExpr.inline, specE, RExpr.subst, dsym, dsymE, eval, diff, envOf, *]
    try field_simp
    try ring
    all_goals (try simp)

theorem hazard_h0 (x : ℝ) (hI0 : Ident I "gsl_sf_hazard" x) :
    HasDerivAt (fun t => evalT I (Function.update (envOf [x]) 0 t) (f_gsl_sf_hazard.d 0)) (evalT I (envOf [x]) (f_gsl_sf_hazard.h 0)) x := by
  refine deriv_of_formula I _ _ _ _ ?_ ?_
  · simp [f_gsl_sf_hazard, Formulas.d, Formulas.h, RExpr.inline, specE, RExpr.subst, Ok, dsym, dsymE, eval, envOf, *]
  · simp [f_gsl_sf_hazard, Formulas.d, Formulas.h, RExpr.inline, specE, RExpr.subst, dsym, dsymE, eval, diff, envOf, *]
    try field_simp
    try ring
    all_goals (try simp)

theorem expint_E1_d0 (x : ℝ) (hx : x ≠ 0) (hI0 : Ident I "gsl_sf_expint_E1" x) :
    HasDerivAt (fun t => evalT I (Function.update (envOf [x]) 0 t) (f_gsl_sf_expint_E1.value)) (evalT I (envOf [x]) (f_gsl_sf_expint_E1.d 0)) x := by
  refine deriv_of_formula I _ _ _ _ ?_ ?_
  · simp [f_gsl_sf_expint_E1, Formulas.d, Formulas.h, RExpr.inline, specE, RExpr.subst, Ok, dsym, dsymE, eval, envOf, *]
  · simp [f_gsl_sf_expint_E1, Formulas.d, Formulas.h, RExpr.inline, specE, RExpr.subst, dsym, dsymE, eval, diff, envOf, *]
    try field_simp
    try ring
    all_goals (try simp)

theorem expint_E1_h0 (x : ℝ) (hx : x ≠ 0)  :
    HasDerivAt (fun t => evalT I (Function.update (envOf [x]) 0 t) (f_gsl_sf_expint_E1.d 0)) (evalT I (envOf [x]) (f_gsl_sf_expint_E1.h 0)) x := by
  refine deriv_of_formula I _ _ _ _ ?_ ?_
  · simp [f_gsl_sf_expint_E1, Formulas.d, Formulas.h, RExpr.inline, specE, RExpr.subst, Ok, dsym, dsymE, eval, envOf, *]
  · simp [f_gsl_sf_expint_E1, Formulas.d, Formulas.h, RExpr.inline, specE, RExpr.subst, dsym, dsymE, eval, diff, envOf, *]
    try field_simp
    try ring
    all_goals (try simp)

theorem expint_E2_d0 (x : ℝ) (hI0 : Ident I "gsl_sf_expint_E2" x) :
    HasDerivAt (fun t => evalT I (Function.update (envOf [x]) 0 t) (f_gsl_sf_expint_E2.value)) (evalT I (envOf [x]) (f_gsl_sf_expint_E2.d 0)) x := by
  refine deriv_of_formula I _ _ _ _ ?_ ?_
  · simp [f_gsl_sf_expint_E2, Formulas.d, Formulas.h, RExpr.inline, specE, RExpr.subst, Ok, dsym, dsymE, eval, envOf, *]
  · simp [f_gsl_sf_expint_E2, Formulas.d, Formulas.h, RExpr.inline, specE, RExpr.subst, dsym, dsymE, eval, diff, envOf, *]
    try field_simp
    try ring
    all_goals (try simp)

theorem expint_E2_h0 (x : ℝ) (hI0 : Ident I "gsl_sf_expint_E1" x) :
    HasDerivAt (fun t => evalT I (Function.update (envOf [x]) 0 t) (f_gsl_sf_expint_E2.d 0)) (evalT I (envOf [x]) (f_gsl_sf_expint_E2.h 0)) x := by
  refine deriv_of_formula I _ _ _ _ ?_ ?_
  · simp [f_gsl_sf_expint_E2, Formulas.d, Formulas.h, RExpr.inline, specE, RExpr.subst, Ok, dsym, dsymE, eval, envOf, *]
  · simp [f_gsl_sf_expint_E2, Formulas.d, Formulas.h, RExpr.inline, specE, RExpr.subst, dsym, dsymE, eval, diff, envOf, *]
    try field_simp
    try ring
    all_goals (try simp)

theorem expint_Ei_d0 (x : ℝ) (hx : x ≠ 0) (hI0 : Ident I "gsl_sf_expint_Ei" x) :
    HasDerivAt (fun t => evalT I (Function.update (envOf [x]) 0 t) (f_gsl_sf_expint_Ei.value)) (evalT I (envOf [x]) (f_gsl_sf_expint_Ei.d 0)) x := by
  refine deriv_of_formula I _ _ _ _ ?_ ?_
  · simp [f_gsl_sf_expint_Ei, Formulas.d, Formulas.h, RExpr.inline, specE, RExpr.subst, Ok, dsym, dsymE, eval, envOf, *]
  · simp [f_gsl_sf_expint_Ei, Formulas.d, Formulas.h, RExpr.inline, specE, RExpr.subst, dsym, dsymE, eval, diff, envOf, *]
    try field_simp
    try ring
    all_goals (try simp)

theorem expint_Ei_h0 (x : ℝ) (hx : x ≠ 0)  :
    HasDerivAt (fun t => evalT I (Function.update (envOf [x]) 0 t) (f_gsl_sf_expint_Ei.d 0)) (evalT I (envOf [x]) (f_gsl_sf_expint_Ei.h 0)) x := by
  refine deriv_of_formula I _ _ _ _ ?_ ?_
  · simp [f_gsl_sf_expint_Ei, Formulas.d, Formulas.h, RExpr.inline, specE, RExpr.subst, Ok, dsym, dsymE, eval, envOf, *]
  · simp [f_gsl_sf_expint_Ei, Formulas.d, Formulas.h, RExpr.inline, specE, RExpr.subst, dsym, dsymE, eval, diff, envOf, *]
    try field_simp
    try ring
    all_goals (try simp)

theorem Si_d0 (x : ℝ) (hx : x ≠ 0) (hI0 : Ident I "gsl_sf_Si" x) :
    HasDerivAt (fun t => evalT I (Function.update (envOf [x]) 0 t) (f_gsl_sf_Si.value)) (evalT I (envOf [x]) (f_gsl_sf_Si.d 0)) x := by
  refine deriv_of_formula I _ _ _ _ ?_ ?_
  · simp [f_gsl_sf_Si, Formulas.d, Formulas.h, RExpr.inline, specE, RExpr.subst, Ok, dsym, dsymE, eval, envOf, *]
  · simp [f_gsl_sf_Si, Formulas.d, Formulas.h, RExpr.inline, specE, RExpr.subst, dsym, dsymE, eval, diff, envOf, *]
    try field_simp
    try ring
    all_goals (try simp)

theorem Si_h0 (x : ℝ) (hx : x ≠ 0)  :
    HasDerivAt (fun t => evalT I (Function.update (envOf [x]) 0 t) (f_gsl_sf_Si.d 0)) (evalT I (envOf [x]) (f_gsl_sf_Si.h 0)) x := by
  refine deriv_of_formula I _ _ _ _ ?_ ?_
  · simp [f_gsl_sf_Si, Formulas.d, Formulas.h, RExpr.inline, specE, RExpr.subst, Ok, dsym, dsymE, eval, envOf, *]
  · simp [f_gsl_sf_Si, Formulas.d, Formulas.h, RExpr.inline, specE, RExpr.subst, dsym, dsymE, eval, diff, envOf, *]
    try field_simp
    try ring
    all_goals (try simp)

theorem Ci_d0 (x : ℝ) (hx : x ≠ 0) (hI0 : Ident I "gsl_sf_Ci" x) :
    HasDerivAt (fun t => evalT I (Function.update (envOf [x]) 0 t) (f_gsl_sf_Ci.value)) (evalT I (envOf [x]) (f_gsl_sf_Ci.d 0)) x := by
  refine deriv_of_formula I _ _ _ _ ?_ ?_
  · simp [f_gsl_sf_Ci, Formulas.d, Formulas.h, RExpr.inline, specE, RExpr.subst, Ok, dsym, dsymE, eval, envOf, *]
  · simp [f_gsl_sf_Ci, Formulas.d, Formulas.h, RExpr.inline, specE, RExpr.subst, dsym, dsymE, eval, diff, envOf, *]
    try field_simp
    try ring
    all_goals (try simp)

theorem Ci_h0 (x : ℝ) (hx : x ≠ 0)  :
    HasDerivAt (fun t => evalT I (Function.update (envOf [x]) 0 t) (f_gsl_sf_Ci.d 0)) (evalT I (envOf [x]) (f_gsl_sf_Ci.h 0)) x := by
  refine deriv_of_formula I _ _ _ _ ?_ ?_
  · simp [f_gsl_sf_Ci, Formulas.d, Formulas.h, RExpr.inline, specE, RExpr.subst, Ok, dsym, dsymE, eval, envOf, *]
  · simp [f_gsl_sf_Ci, Formulas.d, Formulas.h, RExpr.inline, specE, RExpr.subst, dsym, dsymE, eval, diff, envOf, *]
    try field_simp
    try ring
    all_goals (try simp)

theorem expint_3_d0 (x : ℝ) (hI0 : Ident I "gsl_sf_expint_3" x) :
    HasDerivAt (fun t => evalT I (Function.update (envOf [x]) 0 t) (f_gsl_sf_expint_3.value)) (evalT I (envOf [x]) (f_gsl_sf_expint_3.d 0)) x := by
  refine deriv_of_formula I _ _ _ _ ?_ ?_
  · simp [f_gsl_sf_expint_3, Formulas.d, Formulas.h, RExpr.inline, specE, RExpr.subst, Ok, dsym, dsymE, eval, envOf, *]
  · simp [f_gsl_sf_expint_3, Formulas.d, Formulas.h, RExpr.inline, specE, RExpr.subst, dsym, dsymE, eval, diff, envOf, *]
    try field_simp
    try ring
    all_goals (try simp)

theorem expint_3_h0 (x : ℝ)  :
    HasDerivAt (fun t => evalT I (Function.update (envOf [x]) 0 t) (f_gsl_sf_expint_3.d 0)) (evalT I (envOf [x]) (f_gsl_sf_expint_3.h 0)) x := by
  refine deriv_of_formula I _ _ _ _ ?_ ?_
  · simp [f_gsl_sf_expint_3, Formulas.d, Formulas.h, RExpr.inline, specE, RExpr.subst, Ok, dsym, dsymE, eval, envOf, *]
  · simp [f_gsl_sf_expint_3, Formulas.d, Formulas.h, RExpr.inline, specE, RExpr.subst, dsym, dsymE, eval, diff, envOf, *]
    try field_simp
    try ring
    all_goals (try simp)

theorem fermi_dirac_1_d0 (x : ℝ) (hI0 : Ident I "gsl_sf_fermi_dirac_1" x) :
    HasDerivAt (fun t => evalT I (Function.update (envOf [x]) 0 t) (f_gsl_sf_fermi_dirac_1.value)) (evalT I (envOf [x]) (f_gsl_sf_fermi_dirac_1.d 0)) x := by
  have he1 : 1 + Real.exp x ≠ 0 := by positivity
  have he2 : Real.exp x + 1 ≠ 0 := by positivity
  refine deriv_of_formula I _ _ _ _ ?_ ?_
  · simp [f_gsl_sf_fermi_dirac_1, Formulas.d, Formulas.h, RExpr.inline, specE, RExpr.subst, Ok, dsym, dsymE, eval, envOf, *]
  · simp [f_gsl_sf_fermi_dirac_1, Formulas.d, Formulas.h, RExpr.inline, specE, RExpr.subst, dsym, dsymE, eval, diff, envOf, *]
    try field_simp
    try ring
    all_goals (try simp)

theorem fermi_dirac_1_h0 (x : ℝ)  :
    HasDerivAt (fun t => evalT I (Function.update (envOf [x]) 0 t) (f_gsl_sf_fermi_dirac_1.d 0)) (evalT I (envOf [x]) (f_gsl_sf_fermi_dirac_1.h 0)) x := by
  have he1 : 1 + Real.exp x ≠ 0 := by positivity
  have he2 : Real.exp x + 1 ≠ 0 := by positivity
  refine deriv_of_formula I _ _ _ _ ?_ ?_
  · simp [f_gsl_sf_fermi_dirac_1, Formulas.d, Formulas.h, RExpr.inline, specE, RExpr.subst, Ok, dsym, dsymE, eval, envOf, *]
  · simp [f_gsl_sf_fermi_dirac_1, Formulas.d, Formulas.h, RExpr.inline, specE, RExpr.subst, dsym, dsymE, eval, diff, envOf, *]
    try field_simp
    try ring
    all_goals (try simp)

theorem fermi_dirac_2_d0 (x : ℝ) (hI0 : Ident I "gsl_sf_fermi_dirac_2" x) :
    HasDerivAt (fun t => evalT I (Function.update (envOf [x]) 0 t) (f_gsl_sf_fermi_dirac_2.value)) (evalT I (envOf [x]) (f_gsl_sf_fermi_dirac_2.d 0)) x := by
  refine deriv_of_formula I _ _ _ _ ?_ ?_
  · simp [f_gsl_sf_fermi_dirac_2, Formulas.d, Formulas.h, RExpr.inline, specE, RExpr.subst, Ok, dsym, dsymE, eval, envOf, *]
  · simp [f_gsl_sf_fermi_dirac_2, Formulas.d, Formulas.h, RExpr.inline, specE, RExpr.subst, dsym, dsymE, eval, diff, envOf, *]
    try field_simp
    try ring
    all_goals (try simp)

theorem fermi_dirac_2_h0 (x : ℝ) (hI0 : Ident I "gsl_sf_fermi_dirac_1" x) :
    HasDerivAt (fun t => evalT I (Function.update (envOf [x]) 0 t) (f_gsl_sf_fermi_dirac_2.d 0)) (evalT I (envOf [x]) (f_gsl_sf_fermi_dirac_2.h 0)) x := by
  refine deriv_of_formula I _ _ _ _ ?_ ?_
  · simp [f_gsl_sf_fermi_dirac_2, Formulas.d, Formulas.h, RExpr.inline, specE, RExpr.subst, Ok, dsym, dsymE, eval, envOf, *]
  · simp [f_gsl_sf_fermi_dirac_2, Formulas.d, Formulas.h, RExpr.inline, specE, RExpr.subst, dsym, dsymE, eval, diff, envOf, *]
    try field_simp
    try ring
    all_goals (try simp)

theorem fermi_dirac_3half_d0 (x : ℝ) (hI0 : Ident I "gsl_sf_fermi_dirac_3half" x) :
    HasDerivAt (fun t => evalT I (Function.update (envOf [x]) 0 t) (f_gsl_sf_fermi_dirac_3half.value)) (evalT I (envOf [x]) (f_gsl_sf_fermi_dirac_3half.d 0)) x := by
  refine deriv_of_formula I _ _ _ _ ?_ ?_
  · simp [f_gsl_sf_fermi_dirac_3half, Formulas.d, Formulas.h, RExpr.inline, specE, RExpr.subst, Ok, dsym, dsymE, eval, envOf, *]
  · simp [f_gsl_sf_fermi_dirac_3half, Formulas.d, Formulas.h, RExpr.inline, specE, RExpr.subst, dsym, dsymE, eval, diff, envOf, *]
    try field_simp
    try ring
    all_goals (try simp)

theorem fermi_dirac_3half_h0 (x : ℝ) (hI0 : Ident I "gsl_sf_fermi_dirac_half" x) :
    HasDerivAt (fun t => evalT I (Function.update (envOf [x]) 0 t) (f_gsl_sf_fermi_dirac_3half.d 0)) (evalT I (envOf [x]) (f_gsl_sf_fermi_dirac_3half.h 0)) x := by
  refine deriv_of_formula I _ _ _ _ ?_ ?_
  · simp [f_gsl_sf_fermi_dirac_3half, Formulas.d, Formulas.h, RExpr.inline, specE, RExpr.subst, Ok, dsym, dsymE, eval, envOf, *]
  · simp [f_gsl_sf_fermi_dirac_3half, Formulas.d, Formulas.h, RExpr.inline, specE, RExpr.subst, dsym, dsymE, eval, diff, envOf, *]
    try field_simp
    try ring
    all_goals (try simp)

theorem gamma_d0 (x : ℝ) (hI0 : Ident I "gsl_sf_gamma" x) :
    HasDerivAt (fun t => evalT I (Function.update (envOf [x]) 0 t) (f_gsl_sf_gamma.value)) (evalT I (envOf [x]) (f_gsl_sf_gamma.d 0)) x := by
  refine deriv_of_formula I _ _ _ _ ?_ ?_
  · simp [f_gsl_sf_gamma, Formulas.d, Formulas.h, RExpr.inline, specE, RExpr.subst, Ok, dsym, dsymE, eval, envOf, *]
  · simp [f_gsl_sf_gamma, Formulas.d, Formulas.h, RExpr.inline, specE, RExpr.subst, dsym, dsymE, eval, diff, envOf, *]
    try field_simp
    try ring
    all_goals (try simp)

theorem gamma_h0 (x : ℝ) (hI0 : Ident I "gsl_sf_gamma" x) (hI1 : Ident I "gsl_sf_psi" x) :
    HasDerivAt (fun t => evalT I (Function.update (envOf [x]) 0 t) (f_gsl_sf_gamma.d 0)) (evalT I (envOf [x]) (f_gsl_sf_gamma.h 0)) x := by
  refine deriv_of_formula I _ _ _ _ ?_ ?_
  · simp [f_gsl_sf_gamma, Formulas.d, Formulas.h, RExpr.inline, specE, RExpr.subst, Ok, dsym, dsymE, eval, envOf, *]
  · simp [f_gsl_sf_gamma, Formulas.d, Formulas.h, RExpr.inline, specE, RExpr.subst, dsym, dsymE, eval, diff, envOf, *]
    try field_simp
    try ring
    all_goals (try simp)

theorem psi_1_d0 (x : ℝ) (hI0 : Ident I "gsl_sf_psi_1" x) :
    HasDerivAt (fun t => evalT I (Function.update (envOf [x]) 0 t) (f_gsl_sf_psi_1.value)) (evalT I (envOf [x]) (f_gsl_sf_psi_1.d 0)) x := by
  refine deriv_of_formula I _ _ _ _ ?_ ?_
  · simp [f_gsl_sf_psi_1, Formulas.d, Formulas.h, RExpr.inline, specE, RExpr.subst, Ok, dsym, dsymE, eval, envOf, *]
  · simp [f_gsl_sf_psi_1, Formulas.d, Formulas.h, RExpr.inline, specE, RExpr.subst, dsym, dsymE, eval, diff, envOf, *]
    try field_simp
    try ring
    all_goals (try simp)

theorem psi_1_h0 (x : ℝ) (hI0 : Ident I "gsl_sf_psi_n#2" x) :
    HasDerivAt (fun t => evalT I (Function.update (envOf [x]) 0 t) (f_gsl_sf_psi_1.d 0)) (evalT I (envOf [x]) (f_gsl_sf_psi_1.h 0)) x := by
  refine deriv_of_formula I _ _ _ _ ?_ ?_
  · simp [f_gsl_sf_psi_1, Formulas.d, Formulas.h, RExpr.inline, specE, RExpr.subst, Ok, dsym, dsymE, eval, envOf, *]
  · simp [f_gsl_sf_psi_1, Formulas.d, Formulas.h, RExpr.inline, specE, RExpr.subst, dsym, dsymE, eval, diff, envOf, *]
    try field_simp
    try ring
    all_goals (try simp)

theorem cdf_ugaussian_P_d0 (x : ℝ) (hI0 : Ident I "gsl_cdf_ugaussian_P" x) :
    HasDerivAt (fun t => evalT I (Function.update (envOf [x]) 0 t) (f_gsl_cdf_ugaussian_P.value)) (evalT I (envOf [x]) (f_gsl_cdf_ugaussian_P.d 0)) x := by
  refine deriv_of_formula I _ _ _ _ ?_ ?_
  · simp [f_gsl_cdf_ugaussian_P, Formulas.d, Formulas.h, RExpr.inline, specE, RExpr.subst, Ok, dsym, dsymE, eval, envOf, *]
  · simp [f_gsl_cdf_ugaussian_P, Formulas.d, Formulas.h, RExpr.inline, specE, RExpr.subst, dsym, dsymE, eval, diff, envOf, *]
    try field_simp
    try ring
    all_goals (try simp)

theorem cdf_ugaussian_P_h0 (x : ℝ) (hI0 : Ident I "gsl_ran_ugaussian_pdf" x) :
    HasDerivAt (fun t => evalT I (Function.update (envOf [x]) 0 t) (f_gsl_cdf_ugaussian_P.d 0)) (evalT I (envOf [x]) (f_gsl_cdf_ugaussian_P.h 0)) x := by
  refine deriv_of_formula I _ _ _ _ ?_ ?_
  · simp [f_gsl_cdf_ugaussian_P, Formulas.d, Formulas.h, RExpr.inline, specE, RExpr.subst, Ok, dsym, dsymE, eval, envOf, *]
  · simp [f_gsl_cdf_ugaussian_P, Formulas.d, Formulas.h, RExpr.inline, specE, RExpr.subst, dsym, dsymE, eval, diff, envOf, *]
    try field_simp
    try ring
    all_goals (try simp)

theorem ran_ugaussian_pdf_d0 (x : ℝ) (hI0 : Ident I "gsl_ran_ugaussian_pdf" x) :
    HasDerivAt (fun t => evalT I (Function.update (envOf [x]) 0 t) (f_gsl_ran_ugaussian_pdf.value)) (evalT I (envOf [x]) (f_gsl_ran_ugaussian_pdf.d 0)) x := by
  refine deriv_of_formula I _ _ _ _ ?_ ?_
  · simp [f_gsl_ran_ugaussian_pdf, Formulas.d, Formulas.h, RExpr.inline, specE, RExpr.subst, Ok, dsym, dsymE, eval, envOf, *]
  · simp [f_gsl_ran_ugaussian_pdf, Formulas.d, Formulas.h, RExpr.inline, specE, RExpr.subst, dsym, dsymE, eval, diff, envOf, *]
    try field_simp
    try ring
    all_goals (try simp)

theorem ran_ugaussian_pdf_h0 (x : ℝ) (hI0 : Ident I "gsl_ran_ugaussian_pdf" x) :
    HasDerivAt (fun t => evalT I (Function.update (envOf [x]) 0 t) (f_gsl_ran_ugaussian_pdf.d 0)) (evalT I (envOf [x]) (f_gsl_ran_ugaussian_pdf.h 0)) x := by
  refine deriv_of_formula I _ _ _ _ ?_ ?_
  · simp [f_gsl_ran_ugaussian_pdf, Formulas.d, Formulas.h, RExpr.inline, specE, RExpr.subst, Ok, dsym, dsymE, eval, envOf, *]
  · simp [f_gsl_ran_ugaussian_pdf, Formulas.d, Formulas.h, RExpr.inline, specE, RExpr.subst, dsym, dsymE, eval, diff, envOf, *]
    try field_simp
    try ring
    all_goals (try simp)


/-! ### bindings f(order, x) (round 8): the order is a parameter of the symbol (`f@k` = f of order + k), the derivative is w.r.t. x (argument 1);
only `derivs[1]` and `hes[2]` = ∂²/∂x² are assigned by these bindings (the order must be declared constant).  Conditional on `Ident`, as above. -/

theorem bessel_Jn_d1 (n x : ℝ) (hI0 : Ident I "gsl_sf_bessel_Jn@0" x) :
    HasDerivAt (fun t => evalT I (Function.update (envOf [n, x]) 1 t) (f_gsl_sf_bessel_Jn.value)) (evalT I (envOf [n, x]) (f_gsl_sf_bessel_Jn.d 1)) x := by
  refine deriv_of_formula I _ _ _ _ ?_ ?_
  · simp [f_gsl_sf_bessel_Jn, Formulas.d, Formulas.h, RExpr.inline, specE, RExpr.subst, Ok, dsym, dsymE, eval, envOf, *]
  · simp [f_gsl_sf_bessel_Jn, Formulas.d, Formulas.h, RExpr.inline, specE, RExpr.subst, dsym, dsymE, eval, diff, envOf, *]
    try field_simp
    try ring
    all_goals (try simp)

theorem bessel_Jn_h2 (n x : ℝ) (hI0 : Ident I "gsl_sf_bessel_Jn@-1" x) (hI1 : Ident I "gsl_sf_bessel_Jn@1" x) :
    HasDerivAt (fun t => evalT I (Function.update (envOf [n, x]) 1 t) (f_gsl_sf_bessel_Jn.d 1)) (evalT I (envOf [n, x]) (f_gsl_sf_bessel_Jn.h 2)) x := by
  refine deriv_of_formula I _ _ _ _ ?_ ?_
  · simp [f_gsl_sf_bessel_Jn, Formulas.d, Formulas.h, RExpr.inline, specE, RExpr.subst, Ok, dsym, dsymE, eval, envOf, *]
  · simp [f_gsl_sf_bessel_Jn, Formulas.d, Formulas.h, RExpr.inline, specE, RExpr.subst, dsym, dsymE, eval, diff, envOf, *]
    try field_simp
    try ring
    all_goals (try simp)

theorem bessel_Yn_d1 (n x : ℝ) (hI0 : Ident I "gsl_sf_bessel_Yn@0" x) :
    HasDerivAt (fun t => evalT I (Function.update (envOf [n, x]) 1 t) (f_gsl_sf_bessel_Yn.value)) (evalT I (envOf [n, x]) (f_gsl_sf_bessel_Yn.d 1)) x := by
  refine deriv_of_formula I _ _ _ _ ?_ ?_
  · simp [f_gsl_sf_bessel_Yn, Formulas.d, Formulas.h, RExpr.inline, specE, RExpr.subst, Ok, dsym, dsymE, eval, envOf, *]
  · simp [f_gsl_sf_bessel_Yn, Formulas.d, Formulas.h, RExpr.inline, specE, RExpr.subst, dsym, dsymE, eval, diff, envOf, *]
    try field_simp
    try ring
    all_goals (try simp)

theorem bessel_Yn_h2 (n x : ℝ) (hI0 : Ident I "gsl_sf_bessel_Yn@-1" x) (hI1 : Ident I "gsl_sf_bessel_Yn@1" x) :
    HasDerivAt (fun t => evalT I (Function.update (envOf [n, x]) 1 t) (f_gsl_sf_bessel_Yn.d 1)) (evalT I (envOf [n, x]) (f_gsl_sf_bessel_Yn.h 2)) x := by
  refine deriv_of_formula I _ _ _ _ ?_ ?_
  · simp [f_gsl_sf_bessel_Yn, Formulas.d, Formulas.h, RExpr.inline, specE, RExpr.subst, Ok, dsym, dsymE, eval, envOf, *]
  · simp [f_gsl_sf_bessel_Yn, Formulas.d, Formulas.h, RExpr.inline, specE, RExpr.subst, dsym, dsymE, eval, diff, envOf, *]
    try field_simp
    try ring
    all_goals (try simp)

theorem bessel_In_d1 (n x : ℝ) (hI0 : Ident I "gsl_sf_bessel_In@0" x) :
    HasDerivAt (fun t => evalT I (Function.update (envOf [n, x]) 1 t) (f_gsl_sf_bessel_In.value)) (evalT I (envOf [n, x]) (f_gsl_sf_bessel_In.d 1)) x := by
  refine deriv_of_formula I _ _ _ _ ?_ ?_
  · simp [f_gsl_sf_bessel_In, Formulas.d, Formulas.h, RExpr.inline, specE, RExpr.subst, Ok, dsym, dsymE, eval, envOf, *]
  · simp [f_gsl_sf_bessel_In, Formulas.d, Formulas.h, RExpr.inline, specE, RExpr.subst, dsym, dsymE, eval, diff, envOf, *]
    try field_simp
    try ring
    all_goals (try simp)

theorem bessel_In_h2 (n x : ℝ) (hI0 : Ident I "gsl_sf_bessel_In@-1" x) (hI1 : Ident I "gsl_sf_bessel_In@1" x) :
    HasDerivAt (fun t => evalT I (Function.update (envOf [n, x]) 1 t) (f_gsl_sf_bessel_In.d 1)) (evalT I (envOf [n, x]) (f_gsl_sf_bessel_In.h 2)) x := by
  refine deriv_of_formula I _ _ _ _ ?_ ?_
  · simp [f_gsl_sf_bessel_In, Formulas.d, Formulas.h, RExpr.inline, specE, RExpr.subst, Ok, dsym, dsymE, eval, envOf, *]
  · simp [f_gsl_sf_bessel_In, Formulas.d, Formulas.h, RExpr.inline, specE, RExpr.subst, dsym, dsymE, eval, diff, envOf, *]
    try field_simp
    try ring
    all_goals (try simp)

theorem bessel_Kn_d1 (n x : ℝ) (hI0 : Ident I "gsl_sf_bessel_Kn@0" x) :
    HasDerivAt (fun t => evalT I (Function.update (envOf [n, x]) 1 t) (f_gsl_sf_bessel_Kn.value)) (evalT I (envOf [n, x]) (f_gsl_sf_bessel_Kn.d 1)) x := by
  refine deriv_of_formula I _ _ _ _ ?_ ?_
  · simp [f_gsl_sf_bessel_Kn, Formulas.d, Formulas.h, RExpr.inline, specE, RExpr.subst, Ok, dsym, dsymE, eval, envOf, *]
  · simp [f_gsl_sf_bessel_Kn, Formulas.d, Formulas.h, RExpr.inline, specE, RExpr.subst, dsym, dsymE, eval, diff, envOf, *]
    try field_simp
    try ring
    all_goals (try simp)

theorem bessel_Kn_h2 (n x : ℝ) (hI0 : Ident I "gsl_sf_bessel_Kn@-1" x) (hI1 : Ident I "gsl_sf_bessel_Kn@1" x) :
    HasDerivAt (fun t => evalT I (Function.update (envOf [n, x]) 1 t) (f_gsl_sf_bessel_Kn.d 1)) (evalT I (envOf [n, x]) (f_gsl_sf_bessel_Kn.h 2)) x := by
  refine deriv_of_formula I _ _ _ _ ?_ ?_
  · simp [f_gsl_sf_bessel_Kn, Formulas.d, Formulas.h, RExpr.inline, specE, RExpr.subst, Ok, dsym, dsymE, eval, envOf, *]
  · simp [f_gsl_sf_bessel_Kn, Formulas.d, Formulas.h, RExpr.inline, specE, RExpr.subst, dsym, dsymE, eval, diff, envOf, *]
    try field_simp
    try ring
    all_goals (try simp)

theorem bessel_Kn_scaled_d1 (n x : ℝ) (hI0 : Ident I "gsl_sf_bessel_Kn_scaled@0" x) :
    HasDerivAt (fun t => evalT I (Function.update (envOf [n, x]) 1 t) (f_gsl_sf_bessel_Kn_scaled.value)) (evalT I (envOf [n, x]) (f_gsl_sf_bessel_Kn_scaled.d 1)) x := by
  refine deriv_of_formula I _ _ _ _ ?_ ?_
  · simp [f_gsl_sf_bessel_Kn_scaled, Formulas.d, Formulas.h, RExpr.inline, specE, RExpr.subst, Ok, dsym, dsymE, eval, envOf, *]
  · simp [f_gsl_sf_bessel_Kn_scaled, Formulas.d, Formulas.h, RExpr.inline, specE, RExpr.subst, dsym, dsymE, eval, diff, envOf, *]
    try field_simp
    try ring
    all_goals (try simp)

theorem bessel_Kn_scaled_h2 (n x : ℝ) (hI0 : Ident I "gsl_sf_bessel_Kn_scaled@-1" x) (hI1 : Ident I "gsl_sf_bessel_Kn_scaled@0" x) (hI2 : Ident I "gsl_sf_bessel_Kn_scaled@1" x) :
    HasDerivAt (fun t => evalT I (Function.update (envOf [n, x]) 1 t) (f_gsl_sf_bessel_Kn_scaled.d 1)) (evalT I (envOf [n, x]) (f_gsl_sf_bessel_Kn_scaled.h 2)) x := by
  refine deriv_of_formula I _ _ _ _ ?_ ?_
  · simp [f_gsl_sf_bessel_Kn_scaled, Formulas.d, Formulas.h, RExpr.inline, specE, RExpr.subst, Ok, dsym, dsymE, eval, envOf, *]
  · simp [f_gsl_sf_bessel_Kn_scaled, Formulas.d, Formulas.h, RExpr.inline, specE, RExpr.subst, dsym, dsymE, eval, diff, envOf, *]
    try field_simp
    try ring
    all_goals (try simp)

theorem fermi_dirac_int_d1 (n x : ℝ) (hI0 : Ident I "gsl_sf_fermi_dirac_int@0" x) :
    HasDerivAt (fun t => evalT I (Function.update (envOf [n, x]) 1 t) (f_gsl_sf_fermi_dirac_int.value)) (evalT I (envOf [n, x]) (f_gsl_sf_fermi_dirac_int.d 1)) x := by
  refine deriv_of_formula I _ _ _ _ ?_ ?_
  · simp [f_gsl_sf_fermi_dirac_int, Formulas.d, Formulas.h, RExpr.inline, specE, RExpr.subst, Ok, dsym, dsymE, eval, envOf, *]
  · simp [f_gsl_sf_fermi_dirac_int, Formulas.d, Formulas.h, RExpr.inline, specE, RExpr.subst, dsym, dsymE, eval, diff, envOf, *]
    try field_simp
    try ring
    all_goals (try simp)

theorem fermi_dirac_int_h2 (n x : ℝ) (hI0 : Ident I "gsl_sf_fermi_dirac_int@-1" x) :
    HasDerivAt (fun t => evalT I (Function.update (envOf [n, x]) 1 t) (f_gsl_sf_fermi_dirac_int.d 1)) (evalT I (envOf [n, x]) (f_gsl_sf_fermi_dirac_int.h 2)) x := by
  refine deriv_of_formula I _ _ _ _ ?_ ?_
  · simp [f_gsl_sf_fermi_dirac_int, Formulas.d, Formulas.h, RExpr.inline, specE, RExpr.subst, Ok, dsym, dsymE, eval, envOf, *]
  · simp [f_gsl_sf_fermi_dirac_int, Formulas.d, Formulas.h, RExpr.inline, specE, RExpr.subst, dsym, dsymE, eval, diff, envOf, *]
    try field_simp
    try ring
    all_goals (try simp)

theorem bessel_Jnu_d1 (n x : ℝ) (hI0 : Ident I "gsl_sf_bessel_Jnu@0" x) :
    HasDerivAt (fun t => evalT I (Function.update (envOf [n, x]) 1 t) (f_gsl_sf_bessel_Jnu.value)) (evalT I (envOf [n, x]) (f_gsl_sf_bessel_Jnu.d 1)) x := by
  refine deriv_of_formula I _ _ _ _ ?_ ?_
  · simp [f_gsl_sf_bessel_Jnu, Formulas.d, Formulas.h, RExpr.inline, specE, RExpr.subst, Ok, dsym, dsymE, eval, envOf, *]
  · simp [f_gsl_sf_bessel_Jnu, Formulas.d, Formulas.h, RExpr.inline, specE, RExpr.subst, dsym, dsymE, eval, diff, envOf, *]
    try field_simp
    try ring
    all_goals (try simp)

theorem bessel_Jnu_h2 (n x : ℝ) (hI0 : Ident I "gsl_sf_bessel_Jnu@-1" x) (hI1 : Ident I "gsl_sf_bessel_Jnu@1" x) :
    HasDerivAt (fun t => evalT I (Function.update (envOf [n, x]) 1 t) (f_gsl_sf_bessel_Jnu.d 1)) (evalT I (envOf [n, x]) (f_gsl_sf_bessel_Jnu.h 2)) x := by
  refine deriv_of_formula I _ _ _ _ ?_ ?_
  · simp [f_gsl_sf_bessel_Jnu, Formulas.d, Formulas.h, RExpr.inline, specE, RExpr.subst, Ok, dsym, dsymE, eval, envOf, *]
  · simp [f_gsl_sf_bessel_Jnu, Formulas.d, Formulas.h, RExpr.inline, specE, RExpr.subst, dsym, dsymE, eval, diff, envOf, *]
    try field_simp
    try ring
    all_goals (try simp)

theorem bessel_Ynu_d1 (n x : ℝ) (hI0 : Ident I "gsl_sf_bessel_Ynu@0" x) :
    HasDerivAt (fun t => evalT I (Function.update (envOf [n, x]) 1 t) (f_gsl_sf_bessel_Ynu.value)) (evalT I (envOf [n, x]) (f_gsl_sf_bessel_Ynu.d 1)) x := by
  refine deriv_of_formula I _ _ _ _ ?_ ?_
  · simp [f_gsl_sf_bessel_Ynu, Formulas.d, Formulas.h, RExpr.inline, specE, RExpr.subst, Ok, dsym, dsymE, eval, envOf, *]
  · simp [f_gsl_sf_bessel_Ynu, Formulas.d, Formulas.h, RExpr.inline, specE, RExpr.subst, dsym, dsymE, eval, diff, envOf, *]
    try field_simp
    try ring
    all_goals (try simp)

theorem bessel_Ynu_h2 (n x : ℝ) (hI0 : Ident I "gsl_sf_bessel_Ynu@-1" x) (hI1 : Ident I "gsl_sf_bessel_Ynu@1" x) :
    HasDerivAt (fun t => evalT I (Function.update (envOf [n, x]) 1 t) (f_gsl_sf_bessel_Ynu.d 1)) (evalT I (envOf [n, x]) (f_gsl_sf_bessel_Ynu.h 2)) x := by
  refine deriv_of_formula I _ _ _ _ ?_ ?_
  · simp [f_gsl_sf_bessel_Ynu, Formulas.d, Formulas.h, RExpr.inline, specE, RExpr.subst, Ok, dsym, dsymE, eval, envOf, *]
  · simp [f_gsl_sf_bessel_Ynu, Formulas.d, Formulas.h, RExpr.inline, specE, RExpr.subst, dsym, dsymE, eval, diff, envOf, *]
    try field_simp
    try ring
    all_goals (try simp)

theorem bessel_Inu_d1 (n x : ℝ) (hI0 : Ident I "gsl_sf_bessel_Inu@0" x) :
    HasDerivAt (fun t => evalT I (Function.update (envOf [n, x]) 1 t) (f_gsl_sf_bessel_Inu.value)) (evalT I (envOf [n, x]) (f_gsl_sf_bessel_Inu.d 1)) x := by
  refine deriv_of_formula I _ _ _ _ ?_ ?_
  · simp [f_gsl_sf_bessel_Inu, Formulas.d, Formulas.h, RExpr.inline, specE, RExpr.subst, Ok, dsym, dsymE, eval, envOf, *]
  · simp [f_gsl_sf_bessel_Inu, Formulas.d, Formulas.h, RExpr.inline, specE, RExpr.subst, dsym, dsymE, eval, diff, envOf, *]
    try field_simp
    try ring
    all_goals (try simp)

theorem bessel_Inu_h2 (n x : ℝ) (hI0 : Ident I "gsl_sf_bessel_Inu@-1" x) (hI1 : Ident I "gsl_sf_bessel_Inu@1" x) :
    HasDerivAt (fun t => evalT I (Function.update (envOf [n, x]) 1 t) (f_gsl_sf_bessel_Inu.d 1)) (evalT I (envOf [n, x]) (f_gsl_sf_bessel_Inu.h 2)) x := by
  refine deriv_of_formula I _ _ _ _ ?_ ?_
  · simp [f_gsl_sf_bessel_Inu, Formulas.d, Formulas.h, RExpr.inline, specE, RExpr.subst, Ok, dsym, dsymE, eval, envOf, *]
  · simp [f_gsl_sf_bessel_Inu, Formulas.d, Formulas.h, RExpr.inline, specE, RExpr.subst, dsym, dsymE, eval, diff, envOf, *]
    try field_simp
    try ring
    all_goals (try simp)

theorem bessel_Knu_d1 (n x : ℝ) (hI0 : Ident I "gsl_sf_bessel_Knu@0" x) :
    HasDerivAt (fun t => evalT I (Function.update (envOf [n, x]) 1 t) (f_gsl_sf_bessel_Knu.value)) (evalT I (envOf [n, x]) (f_gsl_sf_bessel_Knu.d 1)) x := by
  refine deriv_of_formula I _ _ _ _ ?_ ?_
  · simp [f_gsl_sf_bessel_Knu, Formulas.d, Formulas.h, RExpr.inline, specE, RExpr.subst, Ok, dsym, dsymE, eval, envOf, *]
  · simp [f_gsl_sf_bessel_Knu, Formulas.d, Formulas.h, RExpr.inline, specE, RExpr.subst, dsym, dsymE, eval, diff, envOf, *]
    try field_simp
    try ring
    all_goals (try simp)

theorem bessel_Knu_h2 (n x : ℝ) (hI0 : Ident I "gsl_sf_bessel_Knu@-1" x) (hI1 : Ident I "gsl_sf_bessel_Knu@1" x) :
    HasDerivAt (fun t => evalT I (Function.update (envOf [n, x]) 1 t) (f_gsl_sf_bessel_Knu.d 1)) (evalT I (envOf [n, x]) (f_gsl_sf_bessel_Knu.h 2)) x := by
  refine deriv_of_formula I _ _ _ _ ?_ ?_
  · simp [f_gsl_sf_bessel_Knu, Formulas.d, Formulas.h, RExpr.inline, specE, RExpr.subst, Ok, dsym, dsymE, eval, envOf, *]
  · simp [f_gsl_sf_bessel_Knu, Formulas.d, Formulas.h, RExpr.inline, specE, RExpr.subst, dsym, dsymE, eval, diff, envOf, *]
    try field_simp
    try ring
    all_goals (try simp)

theorem bessel_Knu_scaled_d1 (n x : ℝ) (hI0 : Ident I "gsl_sf_bessel_Knu_scaled@0" x) :
    HasDerivAt (fun t => evalT I (Function.update (envOf [n, x]) 1 t) (f_gsl_sf_bessel_Knu_scaled.value)) (evalT I (envOf [n, x]) (f_gsl_sf_bessel_Knu_scaled.d 1)) x := by
  refine deriv_of_formula I _ _ _ _ ?_ ?_
  · simp [f_gsl_sf_bessel_Knu_scaled, Formulas.d, Formulas.h, RExpr.inline, specE, RExpr.subst, Ok, dsym, dsymE, eval, envOf, *]
  · simp [f_gsl_sf_bessel_Knu_scaled, Formulas.d, Formulas.h, RExpr.inline, specE, RExpr.subst, dsym, dsymE, eval, diff, envOf, *]
    try field_simp
    try ring
    all_goals (try simp)

theorem bessel_Knu_scaled_h2 (n x : ℝ) (hI0 : Ident I "gsl_sf_bessel_Knu_scaled@-1" x) (hI1 : Ident I "gsl_sf_bessel_Knu_scaled@0" x) (hI2 : Ident I "gsl_sf_bessel_Knu_scaled@1" x) :
    HasDerivAt (fun t => evalT I (Function.update (envOf [n, x]) 1 t) (f_gsl_sf_bessel_Knu_scaled.d 1)) (evalT I (envOf [n, x]) (f_gsl_sf_bessel_Knu_scaled.h 2)) x := by
  refine deriv_of_formula I _ _ _ _ ?_ ?_
  · simp [f_gsl_sf_bessel_Knu_scaled, Formulas.d, Formulas.h, RExpr.inline, specE, RExpr.subst, Ok, dsym, dsymE, eval, envOf, *]
  · simp [f_gsl_sf_bessel_Knu_scaled, Formulas.d, Formulas.h, RExpr.inline, specE, RExpr.subst, dsym, dsymE, eval, diff, envOf, *]
    try field_simp
    try ring
    all_goals (try simp)

end MpVerif.C16

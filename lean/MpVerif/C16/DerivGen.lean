import MpVerif.C16.RDiff
import MpVerif.C16.Deriv
import MpVerif.Gen.GslFormulas
/-!
# C16 — the derivative and Hessian formulas of the elementary bindings, as translated from amplgsl.cc, are correct over ℝ

For each binding in `MpVerif.Gen.GslFormulas.formulas` (regenerated from the clang AST on every run):
* `…_d<i>` : the expression stored into `derivs[i]` is ∂/∂xᵢ of the value (the GSL function, by its definition `specE`);
* `…_h<k>` : the expression stored into `hes[k]` is the partial derivative, w.r.t. the second index of the pair the slot
  stands for, of the expression stored into `derivs[first index]`.
All on the stated open domain.  A changed formula in amplgsl.cc changes the generated term and the proof no longer goes through.
-/
set_option linter.unusedSimpArgs false
set_option linter.unusedVariables false
namespace MpVerif.C16
open MpVerif.Gen.GslFormulas

/-- arguments as a list -/
def envOf (l : List ℝ) : Nat → ℝ := fun k => l.getD k 0

theorem deriv_of_formula (i : Nat) (env : Nat → ℝ) (v d : RExpr)
    (hok : Ok env v.inline) (heq : eval env (diff i v.inline) = eval env d.inline) :
    HasDerivAt (fun t => evalT (Function.update env i t) v) (evalT env d) (env i) := by
  have h := hasDerivAt_diff i env (env i) v.inline (by rwa [Function.update_eq_self])
  rw [Function.update_eq_self] at h
  unfold evalT
  exact h.congr_deriv heq

/-- the i-th derivative / k-th Hessian expression of a binding -/
def Formulas.d (f : Formulas) (i : Nat) : RExpr := f.derivs.getD i (.lit 0 1)
def Formulas.h (f : Formulas) (k : Nat) : RExpr := f.hes.getD k (.lit 0 1)

/-- unfold everything down to real arithmetic -/
macro "rsimp" : tactic =>
  `(tactic| simp [Formulas.d, Formulas.h, RExpr.inline, specE, RExpr.subst, Ok, eval, diff, envOf, List.getD] )

/-! ### one-argument bindings -/

theorem log1p_d0 (x : ℝ) (hx : x + 1 ≠ 0) :
    HasDerivAt (fun t => evalT (Function.update (envOf [x]) 0 t) f_gsl_log1p.value) (evalT (envOf [x]) (f_gsl_log1p.d 0)) x := by
  have h1 : 1 + x ≠ 0 := by rwa [add_comm]
  refine deriv_of_formula 0 (envOf [x]) _ _ ?_ ?_
  · simp [f_gsl_log1p, RExpr.inline, specE, RExpr.subst, Ok, eval, envOf, h1]
  · simp [f_gsl_log1p, Formulas.d, RExpr.inline, specE, RExpr.subst, eval, diff, envOf]
    field_simp
    ring

/-! ### the other bindings (same recipe: side conditions, then algebra) -/

theorem expm1_d0 (x : ℝ)  :
    HasDerivAt (fun t => evalT (Function.update (envOf [x]) 0 t) f_gsl_expm1.value) (evalT (envOf [x]) (f_gsl_expm1.d 0)) x := by
  refine deriv_of_formula _ _ _ _ ?_ ?_
  · simp [f_gsl_expm1, Formulas.d, Formulas.h, RExpr.inline, specE, RExpr.subst, Ok, eval, envOf, *]
  · simp [f_gsl_expm1, Formulas.d, Formulas.h, RExpr.inline, specE, RExpr.subst, eval, diff, envOf, *]
    try field_simp
    try ring
    all_goals (try simp)

theorem expm1_h0 (x : ℝ)  :
    HasDerivAt (fun t => evalT (Function.update (envOf [x]) 0 t) (f_gsl_expm1.d 0)) (evalT (envOf [x]) (f_gsl_expm1.h 0)) x := by
  refine deriv_of_formula _ _ _ _ ?_ ?_
  · simp [f_gsl_expm1, Formulas.d, Formulas.h, RExpr.inline, specE, RExpr.subst, Ok, eval, envOf, *]
  · simp [f_gsl_expm1, Formulas.d, Formulas.h, RExpr.inline, specE, RExpr.subst, eval, diff, envOf, *]
    try field_simp
    try ring
    all_goals (try simp)

theorem log_d0 (x : ℝ) (hx : x ≠ 0) :
    HasDerivAt (fun t => evalT (Function.update (envOf [x]) 0 t) f_gsl_sf_log.value) (evalT (envOf [x]) (f_gsl_sf_log.d 0)) x := by
  refine deriv_of_formula _ _ _ _ ?_ ?_
  · simp [f_gsl_sf_log, Formulas.d, Formulas.h, RExpr.inline, specE, RExpr.subst, Ok, eval, envOf, *]
  · simp [f_gsl_sf_log, Formulas.d, Formulas.h, RExpr.inline, specE, RExpr.subst, eval, diff, envOf, *]
    try field_simp
    try ring
    all_goals (try simp)

theorem log_h0 (x : ℝ) (hx : x ≠ 0) :
    HasDerivAt (fun t => evalT (Function.update (envOf [x]) 0 t) (f_gsl_sf_log.d 0)) (evalT (envOf [x]) (f_gsl_sf_log.h 0)) x := by
  refine deriv_of_formula _ _ _ _ ?_ ?_
  · simp [f_gsl_sf_log, Formulas.d, Formulas.h, RExpr.inline, specE, RExpr.subst, Ok, eval, envOf, *]
  · simp [f_gsl_sf_log, Formulas.d, Formulas.h, RExpr.inline, specE, RExpr.subst, eval, diff, envOf, *]
    try field_simp
    try ring
    all_goals (try simp)

theorem log_abs_d0 (x : ℝ) (hx : x ≠ 0) :
    HasDerivAt (fun t => evalT (Function.update (envOf [x]) 0 t) f_gsl_sf_log_abs.value) (evalT (envOf [x]) (f_gsl_sf_log_abs.d 0)) x := by
  refine deriv_of_formula _ _ _ _ ?_ ?_
  · simp [f_gsl_sf_log_abs, Formulas.d, Formulas.h, RExpr.inline, specE, RExpr.subst, Ok, eval, envOf, *]
  · simp [f_gsl_sf_log_abs, Formulas.d, Formulas.h, RExpr.inline, specE, RExpr.subst, eval, diff, envOf, *]
    try field_simp
    try ring
    all_goals (try simp)

theorem log_abs_h0 (x : ℝ) (hx : x ≠ 0) :
    HasDerivAt (fun t => evalT (Function.update (envOf [x]) 0 t) (f_gsl_sf_log_abs.d 0)) (evalT (envOf [x]) (f_gsl_sf_log_abs.h 0)) x := by
  refine deriv_of_formula _ _ _ _ ?_ ?_
  · simp [f_gsl_sf_log_abs, Formulas.d, Formulas.h, RExpr.inline, specE, RExpr.subst, Ok, eval, envOf, *]
  · simp [f_gsl_sf_log_abs, Formulas.d, Formulas.h, RExpr.inline, specE, RExpr.subst, eval, diff, envOf, *]
    try field_simp
    try ring
    all_goals (try simp)

theorem log_1plusx_d0 (x : ℝ) (hx : 1 + x ≠ 0) :
    HasDerivAt (fun t => evalT (Function.update (envOf [x]) 0 t) f_gsl_sf_log_1plusx.value) (evalT (envOf [x]) (f_gsl_sf_log_1plusx.d 0)) x := by
  refine deriv_of_formula _ _ _ _ ?_ ?_
  · simp [f_gsl_sf_log_1plusx, Formulas.d, Formulas.h, RExpr.inline, specE, RExpr.subst, Ok, eval, envOf, *]
  · simp [f_gsl_sf_log_1plusx, Formulas.d, Formulas.h, RExpr.inline, specE, RExpr.subst, eval, diff, envOf, *]
    try field_simp
    try ring
    all_goals (try simp)

theorem log_1plusx_h0 (x : ℝ) (hx : 1 + x ≠ 0) :
    HasDerivAt (fun t => evalT (Function.update (envOf [x]) 0 t) (f_gsl_sf_log_1plusx.d 0)) (evalT (envOf [x]) (f_gsl_sf_log_1plusx.h 0)) x := by
  refine deriv_of_formula _ _ _ _ ?_ ?_
  · simp [f_gsl_sf_log_1plusx, Formulas.d, Formulas.h, RExpr.inline, specE, RExpr.subst, Ok, eval, envOf, *]
  · simp [f_gsl_sf_log_1plusx, Formulas.d, Formulas.h, RExpr.inline, specE, RExpr.subst, eval, diff, envOf, *]
    try field_simp
    try ring
    all_goals (try simp)

theorem log_1plusx_mx_d0 (x : ℝ) (hx : 1 + x ≠ 0) :
    HasDerivAt (fun t => evalT (Function.update (envOf [x]) 0 t) f_gsl_sf_log_1plusx_mx.value) (evalT (envOf [x]) (f_gsl_sf_log_1plusx_mx.d 0)) x := by
  refine deriv_of_formula _ _ _ _ ?_ ?_
  · simp [f_gsl_sf_log_1plusx_mx, Formulas.d, Formulas.h, RExpr.inline, specE, RExpr.subst, Ok, eval, envOf, *]
  · simp [f_gsl_sf_log_1plusx_mx, Formulas.d, Formulas.h, RExpr.inline, specE, RExpr.subst, eval, diff, envOf, *]
    try field_simp
    try ring
    all_goals (try simp)

theorem log_1plusx_mx_h0 (x : ℝ) (hx : 1 + x ≠ 0) :
    HasDerivAt (fun t => evalT (Function.update (envOf [x]) 0 t) (f_gsl_sf_log_1plusx_mx.d 0)) (evalT (envOf [x]) (f_gsl_sf_log_1plusx_mx.h 0)) x := by
  refine deriv_of_formula _ _ _ _ ?_ ?_
  · simp [f_gsl_sf_log_1plusx_mx, Formulas.d, Formulas.h, RExpr.inline, specE, RExpr.subst, Ok, eval, envOf, *]
  · simp [f_gsl_sf_log_1plusx_mx, Formulas.d, Formulas.h, RExpr.inline, specE, RExpr.subst, eval, diff, envOf, *]
    try field_simp
    try ring
    all_goals (try simp)

theorem legendre_P1_d0 (x : ℝ)  :
    HasDerivAt (fun t => evalT (Function.update (envOf [x]) 0 t) f_gsl_sf_legendre_P1.value) (evalT (envOf [x]) (f_gsl_sf_legendre_P1.d 0)) x := by
  refine deriv_of_formula _ _ _ _ ?_ ?_
  · simp [f_gsl_sf_legendre_P1, Formulas.d, Formulas.h, RExpr.inline, specE, RExpr.subst, Ok, eval, envOf, *]
  · simp [f_gsl_sf_legendre_P1, Formulas.d, Formulas.h, RExpr.inline, specE, RExpr.subst, eval, diff, envOf, *]
    try field_simp
    try ring
    all_goals (try simp)

theorem legendre_P1_h0 (x : ℝ)  :
    HasDerivAt (fun t => evalT (Function.update (envOf [x]) 0 t) (f_gsl_sf_legendre_P1.d 0)) (evalT (envOf [x]) (f_gsl_sf_legendre_P1.h 0)) x := by
  refine deriv_of_formula _ _ _ _ ?_ ?_
  · simp [f_gsl_sf_legendre_P1, Formulas.d, Formulas.h, RExpr.inline, specE, RExpr.subst, Ok, eval, envOf, *]
  · simp [f_gsl_sf_legendre_P1, Formulas.d, Formulas.h, RExpr.inline, specE, RExpr.subst, eval, diff, envOf, *]
    try field_simp
    try ring
    all_goals (try simp)

theorem legendre_P2_d0 (x : ℝ)  :
    HasDerivAt (fun t => evalT (Function.update (envOf [x]) 0 t) f_gsl_sf_legendre_P2.value) (evalT (envOf [x]) (f_gsl_sf_legendre_P2.d 0)) x := by
  refine deriv_of_formula _ _ _ _ ?_ ?_
  · simp [f_gsl_sf_legendre_P2, Formulas.d, Formulas.h, RExpr.inline, specE, RExpr.subst, Ok, eval, envOf, *]
  · simp [f_gsl_sf_legendre_P2, Formulas.d, Formulas.h, RExpr.inline, specE, RExpr.subst, eval, diff, envOf, *]
    try field_simp
    try ring
    all_goals (try simp)

theorem legendre_P2_h0 (x : ℝ)  :
    HasDerivAt (fun t => evalT (Function.update (envOf [x]) 0 t) (f_gsl_sf_legendre_P2.d 0)) (evalT (envOf [x]) (f_gsl_sf_legendre_P2.h 0)) x := by
  refine deriv_of_formula _ _ _ _ ?_ ?_
  · simp [f_gsl_sf_legendre_P2, Formulas.d, Formulas.h, RExpr.inline, specE, RExpr.subst, Ok, eval, envOf, *]
  · simp [f_gsl_sf_legendre_P2, Formulas.d, Formulas.h, RExpr.inline, specE, RExpr.subst, eval, diff, envOf, *]
    try field_simp
    try ring
    all_goals (try simp)

theorem legendre_P3_d0 (x : ℝ)  :
    HasDerivAt (fun t => evalT (Function.update (envOf [x]) 0 t) f_gsl_sf_legendre_P3.value) (evalT (envOf [x]) (f_gsl_sf_legendre_P3.d 0)) x := by
  refine deriv_of_formula _ _ _ _ ?_ ?_
  · simp [f_gsl_sf_legendre_P3, Formulas.d, Formulas.h, RExpr.inline, specE, RExpr.subst, Ok, eval, envOf, *]
  · simp [f_gsl_sf_legendre_P3, Formulas.d, Formulas.h, RExpr.inline, specE, RExpr.subst, eval, diff, envOf, *]
    try field_simp
    try ring
    all_goals (try simp)

theorem legendre_P3_h0 (x : ℝ)  :
    HasDerivAt (fun t => evalT (Function.update (envOf [x]) 0 t) (f_gsl_sf_legendre_P3.d 0)) (evalT (envOf [x]) (f_gsl_sf_legendre_P3.h 0)) x := by
  refine deriv_of_formula _ _ _ _ ?_ ?_
  · simp [f_gsl_sf_legendre_P3, Formulas.d, Formulas.h, RExpr.inline, specE, RExpr.subst, Ok, eval, envOf, *]
  · simp [f_gsl_sf_legendre_P3, Formulas.d, Formulas.h, RExpr.inline, specE, RExpr.subst, eval, diff, envOf, *]
    try field_simp
    try ring
    all_goals (try simp)

theorem gegenpoly_1_d0 (l x : ℝ) (hl : l ≠ 0) :
    HasDerivAt (fun t => evalT (Function.update (envOf [l, x]) 0 t) f_gsl_sf_gegenpoly_1.value) (evalT (envOf [l, x]) (f_gsl_sf_gegenpoly_1.d 0)) l := by
  refine deriv_of_formula _ _ _ _ ?_ ?_
  · simp [f_gsl_sf_gegenpoly_1, Formulas.d, Formulas.h, RExpr.inline, specE, RExpr.subst, Ok, eval, envOf, *]
  · simp [f_gsl_sf_gegenpoly_1, Formulas.d, Formulas.h, RExpr.inline, specE, RExpr.subst, eval, diff, envOf, *]
    try field_simp
    try ring
    all_goals (try simp)

theorem gegenpoly_1_d1 (l x : ℝ) (hl : l ≠ 0) :
    HasDerivAt (fun t => evalT (Function.update (envOf [l, x]) 1 t) f_gsl_sf_gegenpoly_1.value) (evalT (envOf [l, x]) (f_gsl_sf_gegenpoly_1.d 1)) x := by
  refine deriv_of_formula _ _ _ _ ?_ ?_
  · simp [f_gsl_sf_gegenpoly_1, Formulas.d, Formulas.h, RExpr.inline, specE, RExpr.subst, Ok, eval, envOf, *]
  · simp [f_gsl_sf_gegenpoly_1, Formulas.d, Formulas.h, RExpr.inline, specE, RExpr.subst, eval, diff, envOf, *]
    try field_simp
    try ring
    all_goals (try simp)

theorem gegenpoly_1_h0 (l x : ℝ) (hl : l ≠ 0) :
    HasDerivAt (fun t => evalT (Function.update (envOf [l, x]) 0 t) (f_gsl_sf_gegenpoly_1.d 0)) (evalT (envOf [l, x]) (f_gsl_sf_gegenpoly_1.h 0)) l := by
  refine deriv_of_formula _ _ _ _ ?_ ?_
  · simp [f_gsl_sf_gegenpoly_1, Formulas.d, Formulas.h, RExpr.inline, specE, RExpr.subst, Ok, eval, envOf, *]
  · simp [f_gsl_sf_gegenpoly_1, Formulas.d, Formulas.h, RExpr.inline, specE, RExpr.subst, eval, diff, envOf, *]
    try field_simp
    try ring
    all_goals (try simp)

theorem gegenpoly_1_h1 (l x : ℝ) (hl : l ≠ 0) :
    HasDerivAt (fun t => evalT (Function.update (envOf [l, x]) 1 t) (f_gsl_sf_gegenpoly_1.d 0)) (evalT (envOf [l, x]) (f_gsl_sf_gegenpoly_1.h 1)) x := by
  refine deriv_of_formula _ _ _ _ ?_ ?_
  · simp [f_gsl_sf_gegenpoly_1, Formulas.d, Formulas.h, RExpr.inline, specE, RExpr.subst, Ok, eval, envOf, *]
  · simp [f_gsl_sf_gegenpoly_1, Formulas.d, Formulas.h, RExpr.inline, specE, RExpr.subst, eval, diff, envOf, *]
    try field_simp
    try ring
    all_goals (try simp)

theorem gegenpoly_1_h2 (l x : ℝ) (hl : l ≠ 0) :
    HasDerivAt (fun t => evalT (Function.update (envOf [l, x]) 1 t) (f_gsl_sf_gegenpoly_1.d 1)) (evalT (envOf [l, x]) (f_gsl_sf_gegenpoly_1.h 2)) x := by
  refine deriv_of_formula _ _ _ _ ?_ ?_
  · simp [f_gsl_sf_gegenpoly_1, Formulas.d, Formulas.h, RExpr.inline, specE, RExpr.subst, Ok, eval, envOf, *]
  · simp [f_gsl_sf_gegenpoly_1, Formulas.d, Formulas.h, RExpr.inline, specE, RExpr.subst, eval, diff, envOf, *]
    try field_simp
    try ring
    all_goals (try simp)

theorem gegenpoly_2_d0 (l x : ℝ) (hl : l ≠ 0) :
    HasDerivAt (fun t => evalT (Function.update (envOf [l, x]) 0 t) f_gsl_sf_gegenpoly_2.value) (evalT (envOf [l, x]) (f_gsl_sf_gegenpoly_2.d 0)) l := by
  refine deriv_of_formula _ _ _ _ ?_ ?_
  · simp [f_gsl_sf_gegenpoly_2, Formulas.d, Formulas.h, RExpr.inline, specE, RExpr.subst, Ok, eval, envOf, *]
  · simp [f_gsl_sf_gegenpoly_2, Formulas.d, Formulas.h, RExpr.inline, specE, RExpr.subst, eval, diff, envOf, *]
    try field_simp
    try ring
    all_goals (try simp)

theorem gegenpoly_2_d1 (l x : ℝ) (hl : l ≠ 0) :
    HasDerivAt (fun t => evalT (Function.update (envOf [l, x]) 1 t) f_gsl_sf_gegenpoly_2.value) (evalT (envOf [l, x]) (f_gsl_sf_gegenpoly_2.d 1)) x := by
  refine deriv_of_formula _ _ _ _ ?_ ?_
  · simp [f_gsl_sf_gegenpoly_2, Formulas.d, Formulas.h, RExpr.inline, specE, RExpr.subst, Ok, eval, envOf, *]
  · simp [f_gsl_sf_gegenpoly_2, Formulas.d, Formulas.h, RExpr.inline, specE, RExpr.subst, eval, diff, envOf, *]
    try field_simp
    try ring
    all_goals (try simp)

theorem gegenpoly_2_h0 (l x : ℝ) (hl : l ≠ 0) :
    HasDerivAt (fun t => evalT (Function.update (envOf [l, x]) 0 t) (f_gsl_sf_gegenpoly_2.d 0)) (evalT (envOf [l, x]) (f_gsl_sf_gegenpoly_2.h 0)) l := by
  refine deriv_of_formula _ _ _ _ ?_ ?_
  · simp [f_gsl_sf_gegenpoly_2, Formulas.d, Formulas.h, RExpr.inline, specE, RExpr.subst, Ok, eval, envOf, *]
  · simp [f_gsl_sf_gegenpoly_2, Formulas.d, Formulas.h, RExpr.inline, specE, RExpr.subst, eval, diff, envOf, *]
    try field_simp
    try ring
    all_goals (try simp)

theorem gegenpoly_2_h1 (l x : ℝ) (hl : l ≠ 0) :
    HasDerivAt (fun t => evalT (Function.update (envOf [l, x]) 1 t) (f_gsl_sf_gegenpoly_2.d 0)) (evalT (envOf [l, x]) (f_gsl_sf_gegenpoly_2.h 1)) x := by
  refine deriv_of_formula _ _ _ _ ?_ ?_
  · simp [f_gsl_sf_gegenpoly_2, Formulas.d, Formulas.h, RExpr.inline, specE, RExpr.subst, Ok, eval, envOf, *]
  · simp [f_gsl_sf_gegenpoly_2, Formulas.d, Formulas.h, RExpr.inline, specE, RExpr.subst, eval, diff, envOf, *]
    try field_simp
    try ring
    all_goals (try simp)

theorem gegenpoly_2_h2 (l x : ℝ) (hl : l ≠ 0) :
    HasDerivAt (fun t => evalT (Function.update (envOf [l, x]) 1 t) (f_gsl_sf_gegenpoly_2.d 1)) (evalT (envOf [l, x]) (f_gsl_sf_gegenpoly_2.h 2)) x := by
  refine deriv_of_formula _ _ _ _ ?_ ?_
  · simp [f_gsl_sf_gegenpoly_2, Formulas.d, Formulas.h, RExpr.inline, specE, RExpr.subst, Ok, eval, envOf, *]
  · simp [f_gsl_sf_gegenpoly_2, Formulas.d, Formulas.h, RExpr.inline, specE, RExpr.subst, eval, diff, envOf, *]
    try field_simp
    try ring
    all_goals (try simp)

theorem gegenpoly_3_d0 (l x : ℝ) (hl : l ≠ 0) :
    HasDerivAt (fun t => evalT (Function.update (envOf [l, x]) 0 t) f_gsl_sf_gegenpoly_3.value) (evalT (envOf [l, x]) (f_gsl_sf_gegenpoly_3.d 0)) l := by
  refine deriv_of_formula _ _ _ _ ?_ ?_
  · simp [f_gsl_sf_gegenpoly_3, Formulas.d, Formulas.h, RExpr.inline, specE, RExpr.subst, Ok, eval, envOf, *]
  · simp [f_gsl_sf_gegenpoly_3, Formulas.d, Formulas.h, RExpr.inline, specE, RExpr.subst, eval, diff, envOf, *]
    try field_simp
    try ring
    all_goals (try simp)

theorem gegenpoly_3_d1 (l x : ℝ) (hl : l ≠ 0) :
    HasDerivAt (fun t => evalT (Function.update (envOf [l, x]) 1 t) f_gsl_sf_gegenpoly_3.value) (evalT (envOf [l, x]) (f_gsl_sf_gegenpoly_3.d 1)) x := by
  refine deriv_of_formula _ _ _ _ ?_ ?_
  · simp [f_gsl_sf_gegenpoly_3, Formulas.d, Formulas.h, RExpr.inline, specE, RExpr.subst, Ok, eval, envOf, *]
  · simp [f_gsl_sf_gegenpoly_3, Formulas.d, Formulas.h, RExpr.inline, specE, RExpr.subst, eval, diff, envOf, *]
    try field_simp
    try ring
    all_goals (try simp)

theorem gegenpoly_3_h0 (l x : ℝ) (hl : l ≠ 0) :
    HasDerivAt (fun t => evalT (Function.update (envOf [l, x]) 0 t) (f_gsl_sf_gegenpoly_3.d 0)) (evalT (envOf [l, x]) (f_gsl_sf_gegenpoly_3.h 0)) l := by
  refine deriv_of_formula _ _ _ _ ?_ ?_
  · simp [f_gsl_sf_gegenpoly_3, Formulas.d, Formulas.h, RExpr.inline, specE, RExpr.subst, Ok, eval, envOf, *]
  · simp [f_gsl_sf_gegenpoly_3, Formulas.d, Formulas.h, RExpr.inline, specE, RExpr.subst, eval, diff, envOf, *]
    try field_simp
    try ring
    all_goals (try simp)

theorem gegenpoly_3_h1 (l x : ℝ) (hl : l ≠ 0) :
    HasDerivAt (fun t => evalT (Function.update (envOf [l, x]) 1 t) (f_gsl_sf_gegenpoly_3.d 0)) (evalT (envOf [l, x]) (f_gsl_sf_gegenpoly_3.h 1)) x := by
  refine deriv_of_formula _ _ _ _ ?_ ?_
  · simp [f_gsl_sf_gegenpoly_3, Formulas.d, Formulas.h, RExpr.inline, specE, RExpr.subst, Ok, eval, envOf, *]
  · simp [f_gsl_sf_gegenpoly_3, Formulas.d, Formulas.h, RExpr.inline, specE, RExpr.subst, eval, diff, envOf, *]
    try field_simp
    try ring
    all_goals (try simp)

theorem gegenpoly_3_h2 (l x : ℝ) (hl : l ≠ 0) :
    HasDerivAt (fun t => evalT (Function.update (envOf [l, x]) 1 t) (f_gsl_sf_gegenpoly_3.d 1)) (evalT (envOf [l, x]) (f_gsl_sf_gegenpoly_3.h 2)) x := by
  refine deriv_of_formula _ _ _ _ ?_ ?_
  · simp [f_gsl_sf_gegenpoly_3, Formulas.d, Formulas.h, RExpr.inline, specE, RExpr.subst, Ok, eval, envOf, *]
  · simp [f_gsl_sf_gegenpoly_3, Formulas.d, Formulas.h, RExpr.inline, specE, RExpr.subst, eval, diff, envOf, *]
    try field_simp
    try ring
    all_goals (try simp)

theorem laguerre_1_d0 (a x : ℝ)  :
    HasDerivAt (fun t => evalT (Function.update (envOf [a, x]) 0 t) f_gsl_sf_laguerre_1.value) (evalT (envOf [a, x]) (f_gsl_sf_laguerre_1.d 0)) a := by
  refine deriv_of_formula _ _ _ _ ?_ ?_
  · simp [f_gsl_sf_laguerre_1, Formulas.d, Formulas.h, RExpr.inline, specE, RExpr.subst, Ok, eval, envOf, *]
  · simp [f_gsl_sf_laguerre_1, Formulas.d, Formulas.h, RExpr.inline, specE, RExpr.subst, eval, diff, envOf, *]
    try field_simp
    try ring
    all_goals (try simp)

theorem laguerre_1_d1 (a x : ℝ)  :
    HasDerivAt (fun t => evalT (Function.update (envOf [a, x]) 1 t) f_gsl_sf_laguerre_1.value) (evalT (envOf [a, x]) (f_gsl_sf_laguerre_1.d 1)) x := by
  refine deriv_of_formula _ _ _ _ ?_ ?_
  · simp [f_gsl_sf_laguerre_1, Formulas.d, Formulas.h, RExpr.inline, specE, RExpr.subst, Ok, eval, envOf, *]
  · simp [f_gsl_sf_laguerre_1, Formulas.d, Formulas.h, RExpr.inline, specE, RExpr.subst, eval, diff, envOf, *]
    try field_simp
    try ring
    all_goals (try simp)

theorem laguerre_1_h0 (a x : ℝ)  :
    HasDerivAt (fun t => evalT (Function.update (envOf [a, x]) 0 t) (f_gsl_sf_laguerre_1.d 0)) (evalT (envOf [a, x]) (f_gsl_sf_laguerre_1.h 0)) a := by
  refine deriv_of_formula _ _ _ _ ?_ ?_
  · simp [f_gsl_sf_laguerre_1, Formulas.d, Formulas.h, RExpr.inline, specE, RExpr.subst, Ok, eval, envOf, *]
  · simp [f_gsl_sf_laguerre_1, Formulas.d, Formulas.h, RExpr.inline, specE, RExpr.subst, eval, diff, envOf, *]
    try field_simp
    try ring
    all_goals (try simp)

theorem laguerre_1_h1 (a x : ℝ)  :
    HasDerivAt (fun t => evalT (Function.update (envOf [a, x]) 1 t) (f_gsl_sf_laguerre_1.d 0)) (evalT (envOf [a, x]) (f_gsl_sf_laguerre_1.h 1)) x := by
  refine deriv_of_formula _ _ _ _ ?_ ?_
  · simp [f_gsl_sf_laguerre_1, Formulas.d, Formulas.h, RExpr.inline, specE, RExpr.subst, Ok, eval, envOf, *]
  · simp [f_gsl_sf_laguerre_1, Formulas.d, Formulas.h, RExpr.inline, specE, RExpr.subst, eval, diff, envOf, *]
    try field_simp
    try ring
    all_goals (try simp)

theorem laguerre_1_h2 (a x : ℝ)  :
    HasDerivAt (fun t => evalT (Function.update (envOf [a, x]) 1 t) (f_gsl_sf_laguerre_1.d 1)) (evalT (envOf [a, x]) (f_gsl_sf_laguerre_1.h 2)) x := by
  refine deriv_of_formula _ _ _ _ ?_ ?_
  · simp [f_gsl_sf_laguerre_1, Formulas.d, Formulas.h, RExpr.inline, specE, RExpr.subst, Ok, eval, envOf, *]
  · simp [f_gsl_sf_laguerre_1, Formulas.d, Formulas.h, RExpr.inline, specE, RExpr.subst, eval, diff, envOf, *]
    try field_simp
    try ring
    all_goals (try simp)

theorem laguerre_2_d0 (a x : ℝ)  :
    HasDerivAt (fun t => evalT (Function.update (envOf [a, x]) 0 t) f_gsl_sf_laguerre_2.value) (evalT (envOf [a, x]) (f_gsl_sf_laguerre_2.d 0)) a := by
  refine deriv_of_formula _ _ _ _ ?_ ?_
  · simp [f_gsl_sf_laguerre_2, Formulas.d, Formulas.h, RExpr.inline, specE, RExpr.subst, Ok, eval, envOf, *]
  · simp [f_gsl_sf_laguerre_2, Formulas.d, Formulas.h, RExpr.inline, specE, RExpr.subst, eval, diff, envOf, *]
    try field_simp
    try ring
    all_goals (try simp)

theorem laguerre_2_d1 (a x : ℝ)  :
    HasDerivAt (fun t => evalT (Function.update (envOf [a, x]) 1 t) f_gsl_sf_laguerre_2.value) (evalT (envOf [a, x]) (f_gsl_sf_laguerre_2.d 1)) x := by
  refine deriv_of_formula _ _ _ _ ?_ ?_
  · simp [f_gsl_sf_laguerre_2, Formulas.d, Formulas.h, RExpr.inline, specE, RExpr.subst, Ok, eval, envOf, *]
  · simp [f_gsl_sf_laguerre_2, Formulas.d, Formulas.h, RExpr.inline, specE, RExpr.subst, eval, diff, envOf, *]
    try field_simp
    try ring
    all_goals (try simp)

theorem laguerre_2_h0 (a x : ℝ)  :
    HasDerivAt (fun t => evalT (Function.update (envOf [a, x]) 0 t) (f_gsl_sf_laguerre_2.d 0)) (evalT (envOf [a, x]) (f_gsl_sf_laguerre_2.h 0)) a := by
  refine deriv_of_formula _ _ _ _ ?_ ?_
  · simp [f_gsl_sf_laguerre_2, Formulas.d, Formulas.h, RExpr.inline, specE, RExpr.subst, Ok, eval, envOf, *]
  · simp [f_gsl_sf_laguerre_2, Formulas.d, Formulas.h, RExpr.inline, specE, RExpr.subst, eval, diff, envOf, *]
    try field_simp
    try ring
    all_goals (try simp)

theorem laguerre_2_h1 (a x : ℝ)  :
    HasDerivAt (fun t => evalT (Function.update (envOf [a, x]) 1 t) (f_gsl_sf_laguerre_2.d 0)) (evalT (envOf [a, x]) (f_gsl_sf_laguerre_2.h 1)) x := by
  refine deriv_of_formula _ _ _ _ ?_ ?_
  · simp [f_gsl_sf_laguerre_2, Formulas.d, Formulas.h, RExpr.inline, specE, RExpr.subst, Ok, eval, envOf, *]
  · simp [f_gsl_sf_laguerre_2, Formulas.d, Formulas.h, RExpr.inline, specE, RExpr.subst, eval, diff, envOf, *]
    try field_simp
    try ring
    all_goals (try simp)

theorem laguerre_2_h2 (a x : ℝ)  :
    HasDerivAt (fun t => evalT (Function.update (envOf [a, x]) 1 t) (f_gsl_sf_laguerre_2.d 1)) (evalT (envOf [a, x]) (f_gsl_sf_laguerre_2.h 2)) x := by
  refine deriv_of_formula _ _ _ _ ?_ ?_
  · simp [f_gsl_sf_laguerre_2, Formulas.d, Formulas.h, RExpr.inline, specE, RExpr.subst, Ok, eval, envOf, *]
  · simp [f_gsl_sf_laguerre_2, Formulas.d, Formulas.h, RExpr.inline, specE, RExpr.subst, eval, diff, envOf, *]
    try field_simp
    try ring
    all_goals (try simp)

theorem laguerre_3_d0 (a x : ℝ)  :
    HasDerivAt (fun t => evalT (Function.update (envOf [a, x]) 0 t) f_gsl_sf_laguerre_3.value) (evalT (envOf [a, x]) (f_gsl_sf_laguerre_3.d 0)) a := by
  refine deriv_of_formula _ _ _ _ ?_ ?_
  · simp [f_gsl_sf_laguerre_3, Formulas.d, Formulas.h, RExpr.inline, specE, RExpr.subst, Ok, eval, envOf, *]
  · simp [f_gsl_sf_laguerre_3, Formulas.d, Formulas.h, RExpr.inline, specE, RExpr.subst, eval, diff, envOf, *]
    try field_simp
    try ring
    all_goals (try simp)

theorem laguerre_3_d1 (a x : ℝ)  :
    HasDerivAt (fun t => evalT (Function.update (envOf [a, x]) 1 t) f_gsl_sf_laguerre_3.value) (evalT (envOf [a, x]) (f_gsl_sf_laguerre_3.d 1)) x := by
  refine deriv_of_formula _ _ _ _ ?_ ?_
  · simp [f_gsl_sf_laguerre_3, Formulas.d, Formulas.h, RExpr.inline, specE, RExpr.subst, Ok, eval, envOf, *]
  · simp [f_gsl_sf_laguerre_3, Formulas.d, Formulas.h, RExpr.inline, specE, RExpr.subst, eval, diff, envOf, *]
    try field_simp
    try ring
    all_goals (try simp)

theorem laguerre_3_h0 (a x : ℝ)  :
    HasDerivAt (fun t => evalT (Function.update (envOf [a, x]) 0 t) (f_gsl_sf_laguerre_3.d 0)) (evalT (envOf [a, x]) (f_gsl_sf_laguerre_3.h 0)) a := by
  refine deriv_of_formula _ _ _ _ ?_ ?_
  · simp [f_gsl_sf_laguerre_3, Formulas.d, Formulas.h, RExpr.inline, specE, RExpr.subst, Ok, eval, envOf, *]
  · simp [f_gsl_sf_laguerre_3, Formulas.d, Formulas.h, RExpr.inline, specE, RExpr.subst, eval, diff, envOf, *]
    try field_simp
    try ring
    all_goals (try simp)

theorem laguerre_3_h1 (a x : ℝ)  :
    HasDerivAt (fun t => evalT (Function.update (envOf [a, x]) 1 t) (f_gsl_sf_laguerre_3.d 0)) (evalT (envOf [a, x]) (f_gsl_sf_laguerre_3.h 1)) x := by
  refine deriv_of_formula _ _ _ _ ?_ ?_
  · simp [f_gsl_sf_laguerre_3, Formulas.d, Formulas.h, RExpr.inline, specE, RExpr.subst, Ok, eval, envOf, *]
  · simp [f_gsl_sf_laguerre_3, Formulas.d, Formulas.h, RExpr.inline, specE, RExpr.subst, eval, diff, envOf, *]
    try field_simp
    try ring
    all_goals (try simp)

theorem laguerre_3_h2 (a x : ℝ)  :
    HasDerivAt (fun t => evalT (Function.update (envOf [a, x]) 1 t) (f_gsl_sf_laguerre_3.d 1)) (evalT (envOf [a, x]) (f_gsl_sf_laguerre_3.h 2)) x := by
  refine deriv_of_formula _ _ _ _ ?_ ?_
  · simp [f_gsl_sf_laguerre_3, Formulas.d, Formulas.h, RExpr.inline, specE, RExpr.subst, Ok, eval, envOf, *]
  · simp [f_gsl_sf_laguerre_3, Formulas.d, Formulas.h, RExpr.inline, specE, RExpr.subst, eval, diff, envOf, *]
    try field_simp
    try ring
    all_goals (try simp)

theorem fermi_dirac_m1_d0 (x : ℝ)  :
    HasDerivAt (fun t => evalT (Function.update (envOf [x]) 0 t) f_gsl_sf_fermi_dirac_m1.value) (evalT (envOf [x]) (f_gsl_sf_fermi_dirac_m1.d 0)) x := by
  have he1 : 1 + Real.exp x ≠ 0 := by positivity
  have he2 : Real.exp x + 1 ≠ 0 := by positivity
  refine deriv_of_formula _ _ _ _ ?_ ?_
  · simp [f_gsl_sf_fermi_dirac_m1, Formulas.d, Formulas.h, RExpr.inline, specE, RExpr.subst, Ok, eval, envOf, *]
  · simp [f_gsl_sf_fermi_dirac_m1, Formulas.d, Formulas.h, RExpr.inline, specE, RExpr.subst, eval, diff, envOf, *]
    try field_simp
    try ring
    all_goals (try simp)

theorem fermi_dirac_m1_h0 (x : ℝ)  :
    HasDerivAt (fun t => evalT (Function.update (envOf [x]) 0 t) (f_gsl_sf_fermi_dirac_m1.d 0)) (evalT (envOf [x]) (f_gsl_sf_fermi_dirac_m1.h 0)) x := by
  have he1 : 1 + Real.exp x ≠ 0 := by positivity
  have he2 : Real.exp x + 1 ≠ 0 := by positivity
  refine deriv_of_formula _ _ _ _ ?_ ?_
  · simp [f_gsl_sf_fermi_dirac_m1, Formulas.d, Formulas.h, RExpr.inline, specE, RExpr.subst, Ok, eval, envOf, *]
  · simp [f_gsl_sf_fermi_dirac_m1, Formulas.d, Formulas.h, RExpr.inline, specE, RExpr.subst, eval, diff, envOf, *]
    try field_simp
    try ring
    all_goals (try simp)

theorem fermi_dirac_0_d0 (x : ℝ)  :
    HasDerivAt (fun t => evalT (Function.update (envOf [x]) 0 t) f_gsl_sf_fermi_dirac_0.value) (evalT (envOf [x]) (f_gsl_sf_fermi_dirac_0.d 0)) x := by
  have he1 : 1 + Real.exp x ≠ 0 := by positivity
  have he2 : Real.exp x + 1 ≠ 0 := by positivity
  refine deriv_of_formula _ _ _ _ ?_ ?_
  · simp [f_gsl_sf_fermi_dirac_0, Formulas.d, Formulas.h, RExpr.inline, specE, RExpr.subst, Ok, eval, envOf, *]
  · simp [f_gsl_sf_fermi_dirac_0, Formulas.d, Formulas.h, RExpr.inline, specE, RExpr.subst, eval, diff, envOf, *]
    try field_simp
    try ring
    all_goals (try simp)

theorem fermi_dirac_0_h0 (x : ℝ)  :
    HasDerivAt (fun t => evalT (Function.update (envOf [x]) 0 t) (f_gsl_sf_fermi_dirac_0.d 0)) (evalT (envOf [x]) (f_gsl_sf_fermi_dirac_0.h 0)) x := by
  have he1 : 1 + Real.exp x ≠ 0 := by positivity
  have he2 : Real.exp x + 1 ≠ 0 := by positivity
  refine deriv_of_formula _ _ _ _ ?_ ?_
  · simp [f_gsl_sf_fermi_dirac_0, Formulas.d, Formulas.h, RExpr.inline, specE, RExpr.subst, Ok, eval, envOf, *]
  · simp [f_gsl_sf_fermi_dirac_0, Formulas.d, Formulas.h, RExpr.inline, specE, RExpr.subst, eval, diff, envOf, *]
    try field_simp
    try ring
    all_goals (try simp)

theorem bessel_j0_d0 (x : ℝ) (hx : x ≠ 0) :
    HasDerivAt (fun t => evalT (Function.update (envOf [x]) 0 t) f_gsl_sf_bessel_j0.value) (evalT (envOf [x]) (f_gsl_sf_bessel_j0.d 0)) x := by
  refine deriv_of_formula _ _ _ _ ?_ ?_
  · simp [f_gsl_sf_bessel_j0, Formulas.d, Formulas.h, RExpr.inline, specE, RExpr.subst, Ok, eval, envOf, *]
  · simp [f_gsl_sf_bessel_j0, Formulas.d, Formulas.h, RExpr.inline, specE, RExpr.subst, eval, diff, envOf, *]
    try field_simp
    try ring
    all_goals (try simp)

theorem bessel_j0_h0 (x : ℝ) (hx : x ≠ 0) :
    HasDerivAt (fun t => evalT (Function.update (envOf [x]) 0 t) (f_gsl_sf_bessel_j0.d 0)) (evalT (envOf [x]) (f_gsl_sf_bessel_j0.h 0)) x := by
  refine deriv_of_formula _ _ _ _ ?_ ?_
  · simp [f_gsl_sf_bessel_j0, Formulas.d, Formulas.h, RExpr.inline, specE, RExpr.subst, Ok, eval, envOf, *]
  · simp [f_gsl_sf_bessel_j0, Formulas.d, Formulas.h, RExpr.inline, specE, RExpr.subst, eval, diff, envOf, *]
    try field_simp
    try ring
    all_goals (try simp)

theorem bessel_y0_d0 (x : ℝ) (hx : x ≠ 0) :
    HasDerivAt (fun t => evalT (Function.update (envOf [x]) 0 t) f_gsl_sf_bessel_y0.value) (evalT (envOf [x]) (f_gsl_sf_bessel_y0.d 0)) x := by
  refine deriv_of_formula _ _ _ _ ?_ ?_
  · simp [f_gsl_sf_bessel_y0, Formulas.d, Formulas.h, RExpr.inline, specE, RExpr.subst, Ok, eval, envOf, *]
  · simp [f_gsl_sf_bessel_y0, Formulas.d, Formulas.h, RExpr.inline, specE, RExpr.subst, eval, diff, envOf, *]
    try field_simp
    try ring
    all_goals (try simp)

theorem bessel_y0_h0 (x : ℝ) (hx : x ≠ 0) :
    HasDerivAt (fun t => evalT (Function.update (envOf [x]) 0 t) (f_gsl_sf_bessel_y0.d 0)) (evalT (envOf [x]) (f_gsl_sf_bessel_y0.h 0)) x := by
  refine deriv_of_formula _ _ _ _ ?_ ?_
  · simp [f_gsl_sf_bessel_y0, Formulas.d, Formulas.h, RExpr.inline, specE, RExpr.subst, Ok, eval, envOf, *]
  · simp [f_gsl_sf_bessel_y0, Formulas.d, Formulas.h, RExpr.inline, specE, RExpr.subst, eval, diff, envOf, *]
    try field_simp
    try ring
    all_goals (try simp)


theorem log1p_h0 (x : ℝ) (hx : x + 1 ≠ 0) :
    HasDerivAt (fun t => evalT (Function.update (envOf [x]) 0 t) (f_gsl_log1p.d 0)) (evalT (envOf [x]) (f_gsl_log1p.h 0)) x := by
  refine deriv_of_formula _ _ _ _ ?_ ?_
  · simp [f_gsl_log1p, Formulas.d, Formulas.h, RExpr.inline, specE, RExpr.subst, Ok, eval, envOf, *]
  · simp [f_gsl_log1p, Formulas.d, Formulas.h, RExpr.inline, specE, RExpr.subst, eval, diff, envOf, *]
    try field_simp
    try ring
    all_goals (try simp)

/-! ### hypot and hypot3: the generated terms denote exactly the functions of `Deriv.lean`, whose theorems transfer -/

theorem hypot_d0 (x y : ℝ) (hpos : 0 < x ^ 2 + y ^ 2) :
    HasDerivAt (fun t => evalT (Function.update (envOf [x, y]) 0 t) (f_gsl_hypot.value)) (evalT (envOf [x, y]) (f_gsl_hypot.d 0)) x := by
  have h := Deriv.hypot_dx x y hpos
  have ef : (fun t => evalT (Function.update (envOf [x, y]) 0 t) (f_gsl_hypot.value)) = (fun t => Deriv.hyp t y) := by
    funext t; simp [evalT, f_gsl_hypot, Formulas.d, Formulas.h, RExpr.inline, specE, RExpr.subst, eval, envOf, Function.update, Deriv.hyp, Deriv.hypotD0, Deriv.hypotD1, Deriv.hypotH0, Deriv.hypotH1, Deriv.hypotH2, pow_two]
  rw [ef]
  exact h.congr_deriv (by simp [evalT, f_gsl_hypot, Formulas.d, Formulas.h, RExpr.inline, specE, RExpr.subst, eval, envOf, Function.update, Deriv.hyp, Deriv.hypotD0, Deriv.hypotD1, Deriv.hypotH0, Deriv.hypotH1, Deriv.hypotH2, pow_two])

theorem hypot_d1 (x y : ℝ) (hpos : 0 < x ^ 2 + y ^ 2) :
    HasDerivAt (fun t => evalT (Function.update (envOf [x, y]) 1 t) (f_gsl_hypot.value)) (evalT (envOf [x, y]) (f_gsl_hypot.d 1)) y := by
  have h := Deriv.hypot_dy x y hpos
  have ef : (fun t => evalT (Function.update (envOf [x, y]) 1 t) (f_gsl_hypot.value)) = (fun s => Deriv.hyp x s) := by
    funext t; simp [evalT, f_gsl_hypot, Formulas.d, Formulas.h, RExpr.inline, specE, RExpr.subst, eval, envOf, Function.update, Deriv.hyp, Deriv.hypotD0, Deriv.hypotD1, Deriv.hypotH0, Deriv.hypotH1, Deriv.hypotH2, pow_two]
  rw [ef]
  exact h.congr_deriv (by simp [evalT, f_gsl_hypot, Formulas.d, Formulas.h, RExpr.inline, specE, RExpr.subst, eval, envOf, Function.update, Deriv.hyp, Deriv.hypotD0, Deriv.hypotD1, Deriv.hypotH0, Deriv.hypotH1, Deriv.hypotH2, pow_two])

theorem hypot_h0 (x y : ℝ) (hpos : 0 < x ^ 2 + y ^ 2) :
    HasDerivAt (fun t => evalT (Function.update (envOf [x, y]) 0 t) (f_gsl_hypot.d 0)) (evalT (envOf [x, y]) (f_gsl_hypot.h 0)) x := by
  have h := Deriv.hypot_hes0 x y hpos
  have ef : (fun t => evalT (Function.update (envOf [x, y]) 0 t) (f_gsl_hypot.d 0)) = (fun t => Deriv.hypotD0 t y) := by
    funext t; simp [evalT, f_gsl_hypot, Formulas.d, Formulas.h, RExpr.inline, specE, RExpr.subst, eval, envOf, Function.update, Deriv.hyp, Deriv.hypotD0, Deriv.hypotD1, Deriv.hypotH0, Deriv.hypotH1, Deriv.hypotH2, pow_two]
  rw [ef]
  exact h.congr_deriv (by simp [evalT, f_gsl_hypot, Formulas.d, Formulas.h, RExpr.inline, specE, RExpr.subst, eval, envOf, Function.update, Deriv.hyp, Deriv.hypotD0, Deriv.hypotD1, Deriv.hypotH0, Deriv.hypotH1, Deriv.hypotH2, pow_two])

theorem hypot_h1 (x y : ℝ) (hpos : 0 < x ^ 2 + y ^ 2) :
    HasDerivAt (fun t => evalT (Function.update (envOf [x, y]) 1 t) (f_gsl_hypot.d 0)) (evalT (envOf [x, y]) (f_gsl_hypot.h 1)) y := by
  have h := Deriv.hypot_hes1 x y hpos
  have ef : (fun t => evalT (Function.update (envOf [x, y]) 1 t) (f_gsl_hypot.d 0)) = (fun s => Deriv.hypotD0 x s) := by
    funext t; simp [evalT, f_gsl_hypot, Formulas.d, Formulas.h, RExpr.inline, specE, RExpr.subst, eval, envOf, Function.update, Deriv.hyp, Deriv.hypotD0, Deriv.hypotD1, Deriv.hypotH0, Deriv.hypotH1, Deriv.hypotH2, pow_two]
  rw [ef]
  exact h.congr_deriv (by simp [evalT, f_gsl_hypot, Formulas.d, Formulas.h, RExpr.inline, specE, RExpr.subst, eval, envOf, Function.update, Deriv.hyp, Deriv.hypotD0, Deriv.hypotD1, Deriv.hypotH0, Deriv.hypotH1, Deriv.hypotH2, pow_two])

theorem hypot_h1_sym (x y : ℝ) (hpos : 0 < x ^ 2 + y ^ 2) :
    HasDerivAt (fun t => evalT (Function.update (envOf [x, y]) 0 t) (f_gsl_hypot.d 1)) (evalT (envOf [x, y]) (f_gsl_hypot.h 1)) x := by
  have h := Deriv.hypot_hes1' x y hpos
  have ef : (fun t => evalT (Function.update (envOf [x, y]) 0 t) (f_gsl_hypot.d 1)) = (fun t => Deriv.hypotD1 t y) := by
    funext t; simp [evalT, f_gsl_hypot, Formulas.d, Formulas.h, RExpr.inline, specE, RExpr.subst, eval, envOf, Function.update, Deriv.hyp, Deriv.hypotD0, Deriv.hypotD1, Deriv.hypotH0, Deriv.hypotH1, Deriv.hypotH2, pow_two]
  rw [ef]
  exact h.congr_deriv (by simp [evalT, f_gsl_hypot, Formulas.d, Formulas.h, RExpr.inline, specE, RExpr.subst, eval, envOf, Function.update, Deriv.hyp, Deriv.hypotD0, Deriv.hypotD1, Deriv.hypotH0, Deriv.hypotH1, Deriv.hypotH2, pow_two])

theorem hypot_h2 (x y : ℝ) (hpos : 0 < x ^ 2 + y ^ 2) :
    HasDerivAt (fun t => evalT (Function.update (envOf [x, y]) 1 t) (f_gsl_hypot.d 1)) (evalT (envOf [x, y]) (f_gsl_hypot.h 2)) y := by
  have h := Deriv.hypot_hes2 x y hpos
  have ef : (fun t => evalT (Function.update (envOf [x, y]) 1 t) (f_gsl_hypot.d 1)) = (fun s => Deriv.hypotD1 x s) := by
    funext t; simp [evalT, f_gsl_hypot, Formulas.d, Formulas.h, RExpr.inline, specE, RExpr.subst, eval, envOf, Function.update, Deriv.hyp, Deriv.hypotD0, Deriv.hypotD1, Deriv.hypotH0, Deriv.hypotH1, Deriv.hypotH2, pow_two]
  rw [ef]
  exact h.congr_deriv (by simp [evalT, f_gsl_hypot, Formulas.d, Formulas.h, RExpr.inline, specE, RExpr.subst, eval, envOf, Function.update, Deriv.hyp, Deriv.hypotD0, Deriv.hypotD1, Deriv.hypotH0, Deriv.hypotH1, Deriv.hypotH2, pow_two])

theorem hypot3_d0 (x y z : ℝ) (hpos : 0 < x ^ 2 + y ^ 2 + z ^ 2) :
    HasDerivAt (fun t => evalT (Function.update (envOf [x, y, z]) 0 t) (f_gsl_hypot3.value)) (evalT (envOf [x, y, z]) (f_gsl_hypot3.d 0)) x := by
  have h := Deriv.hypot3_dx x y z hpos
  have ef : (fun t => evalT (Function.update (envOf [x, y, z]) 0 t) (f_gsl_hypot3.value)) = (fun t => Deriv.hyp3 t y z) := by
    funext t; simp [evalT, f_gsl_hypot3, Formulas.d, Formulas.h, RExpr.inline, specE, RExpr.subst, eval, envOf, Function.update, Deriv.hyp3, Deriv.h3Dx, Deriv.h3Dy, Deriv.h3Dz, Deriv.hypot3Hes, pow_two]
  rw [ef]
  exact h.congr_deriv (by simp [evalT, f_gsl_hypot3, Formulas.d, Formulas.h, RExpr.inline, specE, RExpr.subst, eval, envOf, Function.update, Deriv.hyp3, Deriv.h3Dx, Deriv.h3Dy, Deriv.h3Dz, Deriv.hypot3Hes, pow_two])

theorem hypot3_d1 (x y z : ℝ) (hpos : 0 < x ^ 2 + y ^ 2 + z ^ 2) :
    HasDerivAt (fun t => evalT (Function.update (envOf [x, y, z]) 1 t) (f_gsl_hypot3.value)) (evalT (envOf [x, y, z]) (f_gsl_hypot3.d 1)) y := by
  have h := Deriv.hypot3_dy x y z hpos
  have ef : (fun t => evalT (Function.update (envOf [x, y, z]) 1 t) (f_gsl_hypot3.value)) = (fun s => Deriv.hyp3 x s z) := by
    funext t; simp [evalT, f_gsl_hypot3, Formulas.d, Formulas.h, RExpr.inline, specE, RExpr.subst, eval, envOf, Function.update, Deriv.hyp3, Deriv.h3Dx, Deriv.h3Dy, Deriv.h3Dz, Deriv.hypot3Hes, pow_two]
  rw [ef]
  exact h.congr_deriv (by simp [evalT, f_gsl_hypot3, Formulas.d, Formulas.h, RExpr.inline, specE, RExpr.subst, eval, envOf, Function.update, Deriv.hyp3, Deriv.h3Dx, Deriv.h3Dy, Deriv.h3Dz, Deriv.hypot3Hes, pow_two])

theorem hypot3_d2 (x y z : ℝ) (hpos : 0 < x ^ 2 + y ^ 2 + z ^ 2) :
    HasDerivAt (fun t => evalT (Function.update (envOf [x, y, z]) 2 t) (f_gsl_hypot3.value)) (evalT (envOf [x, y, z]) (f_gsl_hypot3.d 2)) z := by
  have h := Deriv.hypot3_dz x y z hpos
  have ef : (fun t => evalT (Function.update (envOf [x, y, z]) 2 t) (f_gsl_hypot3.value)) = (fun u => Deriv.hyp3 x y u) := by
    funext t; simp [evalT, f_gsl_hypot3, Formulas.d, Formulas.h, RExpr.inline, specE, RExpr.subst, eval, envOf, Function.update, Deriv.hyp3, Deriv.h3Dx, Deriv.h3Dy, Deriv.h3Dz, Deriv.hypot3Hes, pow_two]
  rw [ef]
  exact h.congr_deriv (by simp [evalT, f_gsl_hypot3, Formulas.d, Formulas.h, RExpr.inline, specE, RExpr.subst, eval, envOf, Function.update, Deriv.hyp3, Deriv.h3Dx, Deriv.h3Dy, Deriv.h3Dz, Deriv.hypot3Hes, pow_two])

theorem hypot3_h0_xx (x y z : ℝ) (hpos : 0 < x ^ 2 + y ^ 2 + z ^ 2) :
    HasDerivAt (fun t => evalT (Function.update (envOf [x, y, z]) 0 t) (f_gsl_hypot3.d 0)) (evalT (envOf [x, y, z]) (f_gsl_hypot3.h 0)) x := by
  have h := Deriv.hypot3_hes_xx x y z hpos
  have ef : (fun t => evalT (Function.update (envOf [x, y, z]) 0 t) (f_gsl_hypot3.d 0)) = (fun t => Deriv.h3Dx t y z) := by
    funext t; simp [evalT, f_gsl_hypot3, Formulas.d, Formulas.h, RExpr.inline, specE, RExpr.subst, eval, envOf, Function.update, Deriv.hyp3, Deriv.h3Dx, Deriv.h3Dy, Deriv.h3Dz, Deriv.hypot3Hes, pow_two]
  rw [ef]
  exact h.congr_deriv (by simp [evalT, f_gsl_hypot3, Formulas.d, Formulas.h, RExpr.inline, specE, RExpr.subst, eval, envOf, Function.update, Deriv.hyp3, Deriv.h3Dx, Deriv.h3Dy, Deriv.h3Dz, Deriv.hypot3Hes, pow_two])

theorem hypot3_h1_xy (x y z : ℝ) (hpos : 0 < x ^ 2 + y ^ 2 + z ^ 2) :
    HasDerivAt (fun t => evalT (Function.update (envOf [x, y, z]) 1 t) (f_gsl_hypot3.d 0)) (evalT (envOf [x, y, z]) (f_gsl_hypot3.h 1)) y := by
  have h := Deriv.hypot3_hes_xy x y z hpos
  have ef : (fun t => evalT (Function.update (envOf [x, y, z]) 1 t) (f_gsl_hypot3.d 0)) = (fun s => Deriv.h3Dx x s z) := by
    funext t; simp [evalT, f_gsl_hypot3, Formulas.d, Formulas.h, RExpr.inline, specE, RExpr.subst, eval, envOf, Function.update, Deriv.hyp3, Deriv.h3Dx, Deriv.h3Dy, Deriv.h3Dz, Deriv.hypot3Hes, pow_two]
  rw [ef]
  exact h.congr_deriv (by simp [evalT, f_gsl_hypot3, Formulas.d, Formulas.h, RExpr.inline, specE, RExpr.subst, eval, envOf, Function.update, Deriv.hyp3, Deriv.h3Dx, Deriv.h3Dy, Deriv.h3Dz, Deriv.hypot3Hes, pow_two])

theorem hypot3_h2_xz (x y z : ℝ) (hpos : 0 < x ^ 2 + y ^ 2 + z ^ 2) :
    HasDerivAt (fun t => evalT (Function.update (envOf [x, y, z]) 2 t) (f_gsl_hypot3.d 0)) (evalT (envOf [x, y, z]) (f_gsl_hypot3.h 2)) z := by
  have h := Deriv.hypot3_hes_xz x y z hpos
  have ef : (fun t => evalT (Function.update (envOf [x, y, z]) 2 t) (f_gsl_hypot3.d 0)) = (fun u => Deriv.h3Dx x y u) := by
    funext t; simp [evalT, f_gsl_hypot3, Formulas.d, Formulas.h, RExpr.inline, specE, RExpr.subst, eval, envOf, Function.update, Deriv.hyp3, Deriv.h3Dx, Deriv.h3Dy, Deriv.h3Dz, Deriv.hypot3Hes, pow_two]
  rw [ef]
  exact h.congr_deriv (by simp [evalT, f_gsl_hypot3, Formulas.d, Formulas.h, RExpr.inline, specE, RExpr.subst, eval, envOf, Function.update, Deriv.hyp3, Deriv.h3Dx, Deriv.h3Dy, Deriv.h3Dz, Deriv.hypot3Hes, pow_two])

theorem hypot3_h3_yy (x y z : ℝ) (hpos : 0 < x ^ 2 + y ^ 2 + z ^ 2) :
    HasDerivAt (fun t => evalT (Function.update (envOf [x, y, z]) 1 t) (f_gsl_hypot3.d 1)) (evalT (envOf [x, y, z]) (f_gsl_hypot3.h 3)) y := by
  have h := Deriv.hypot3_hes_yy x y z hpos
  have ef : (fun t => evalT (Function.update (envOf [x, y, z]) 1 t) (f_gsl_hypot3.d 1)) = (fun s => Deriv.h3Dy x s z) := by
    funext t; simp [evalT, f_gsl_hypot3, Formulas.d, Formulas.h, RExpr.inline, specE, RExpr.subst, eval, envOf, Function.update, Deriv.hyp3, Deriv.h3Dx, Deriv.h3Dy, Deriv.h3Dz, Deriv.hypot3Hes, pow_two]
  rw [ef]
  exact h.congr_deriv (by simp [evalT, f_gsl_hypot3, Formulas.d, Formulas.h, RExpr.inline, specE, RExpr.subst, eval, envOf, Function.update, Deriv.hyp3, Deriv.h3Dx, Deriv.h3Dy, Deriv.h3Dz, Deriv.hypot3Hes, pow_two])

theorem hypot3_h4_yz (x y z : ℝ) (hpos : 0 < x ^ 2 + y ^ 2 + z ^ 2) :
    HasDerivAt (fun t => evalT (Function.update (envOf [x, y, z]) 2 t) (f_gsl_hypot3.d 1)) (evalT (envOf [x, y, z]) (f_gsl_hypot3.h 4)) z := by
  have h := Deriv.hypot3_hes_yz x y z hpos
  have ef : (fun t => evalT (Function.update (envOf [x, y, z]) 2 t) (f_gsl_hypot3.d 1)) = (fun u => Deriv.h3Dy x y u) := by
    funext t; simp [evalT, f_gsl_hypot3, Formulas.d, Formulas.h, RExpr.inline, specE, RExpr.subst, eval, envOf, Function.update, Deriv.hyp3, Deriv.h3Dx, Deriv.h3Dy, Deriv.h3Dz, Deriv.hypot3Hes, pow_two]
  rw [ef]
  exact h.congr_deriv (by simp [evalT, f_gsl_hypot3, Formulas.d, Formulas.h, RExpr.inline, specE, RExpr.subst, eval, envOf, Function.update, Deriv.hyp3, Deriv.h3Dx, Deriv.h3Dy, Deriv.h3Dz, Deriv.hypot3Hes, pow_two])

theorem hypot3_h5_zz (x y z : ℝ) (hpos : 0 < x ^ 2 + y ^ 2 + z ^ 2) :
    HasDerivAt (fun t => evalT (Function.update (envOf [x, y, z]) 2 t) (f_gsl_hypot3.d 2)) (evalT (envOf [x, y, z]) (f_gsl_hypot3.h 5)) z := by
  have h := Deriv.hypot3_hes_zz x y z hpos
  have ef : (fun t => evalT (Function.update (envOf [x, y, z]) 2 t) (f_gsl_hypot3.d 2)) = (fun u => Deriv.h3Dz x y u) := by
    funext t; simp [evalT, f_gsl_hypot3, Formulas.d, Formulas.h, RExpr.inline, specE, RExpr.subst, eval, envOf, Function.update, Deriv.hyp3, Deriv.h3Dx, Deriv.h3Dy, Deriv.h3Dz, Deriv.hypot3Hes, pow_two]
  rw [ef]
  exact h.congr_deriv (by simp [evalT, f_gsl_hypot3, Formulas.d, Formulas.h, RExpr.inline, specE, RExpr.subst, eval, envOf, Function.update, Deriv.hyp3, Deriv.h3Dx, Deriv.h3Dy, Deriv.h3Dz, Deriv.hypot3Hes, pow_two])

end MpVerif.C16

import MpVerif.C16.DerivGen
/-! # C16 — the named identity hypotheses of DerivGen.lean are satisfiable (proof-only, Mathlib) -/

namespace MpVerif.C16
open MpVerif.Gen.GslFormulas
/-! ### the named hypotheses are satisfiable (non-vacuity) -/

/-- an interpretation in which `gsl_sf_erf_Z` is the Gaussian density shape exp(−x²/2): its identity Z′ = −xZ holds at every x -/
noncomputable def Igauss : String → ℝ → ℝ := fun f x => if f = "gsl_sf_erf_Z" then Real.exp (-(x ^ 2) / 2) else 0

example (x : ℝ) : Ident Igauss "gsl_sf_erf_Z" x := by
  unfold Ident
  have h : HasDerivAt (fun t : ℝ => Real.exp (-(t ^ 2) / 2)) (Real.exp (-(x ^ 2) / 2) * (-(2 * x) / 2)) x := by
    have h1 : HasDerivAt (fun t : ℝ => -(t ^ 2) / 2) (-(2 * x) / 2) x := by
      have := ((hasDerivAt_pow 2 x).neg).div_const 2
      simpa using this
    exact h1.exp
  have e : Igauss "gsl_sf_erf_Z" = fun t : ℝ => Real.exp (-(t ^ 2) / 2) := by funext t; simp [Igauss]
  rw [e]
  refine h.congr_deriv ?_
  simp [dsymE, dsym, eval, env1, Igauss]
  ring

/-- … and with it the two conditional theorems about `amplgsl_sf_erf_Z` apply at every x -/
example (x : ℝ) (hI : Ident Igauss "gsl_sf_erf_Z" x) :
    HasDerivAt (fun t => evalT Igauss (Function.update (envOf [x]) 0 t) (f_gsl_sf_erf_Z.d 0)) (evalT Igauss (envOf [x]) (f_gsl_sf_erf_Z.h 0)) x :=
  erf_Z_h0 Igauss x hI

/-- the all-zero interpretation satisfies every identity that has no inhomogeneous term (Bessel, Airy, Γ/ψ, Fermi–Dirac ≥ 2 …) -/
example (x : ℝ) : Ident (fun _ _ => 0) "gsl_sf_bessel_J1" x := by
  unfold Ident
  simpa [dsymE, dsym, eval] using hasDerivAt_const x (0 : ℝ)

end MpVerif.C16

import Mathlib.Analysis.SpecialFunctions.Sqrt
import Mathlib.Analysis.SpecialFunctions.Log.Deriv
import Mathlib.Analysis.SpecialFunctions.ExpDeriv
/-!
# C16 — derivative formulas of the elementary bindings, over ℝ (proof-only; not imported by the driver)

For the four bindings of `src/gsl/amplgsl.cc` whose value is an elementary closed form
(`amplgsl_log1p`, `amplgsl_expm1`, `amplgsl_hypot`, `amplgsl_hypot3`) the expressions the C code
stores into `al->derivs` / `al->hes` are transcribed below (`…D`, `…H`) and proved to be the first /
second partial derivatives of the value, as real functions (`HasDerivAt`), on the whole open domain.
This is about the formulas over ℝ, not about IEEE rounding.  The other ~140 bindings with
derivatives involve special functions that Mathlib does not have; their formulas are only compared
with numerical differentiation by the harness.

**Hessian layout of `amplgsl_hypot3`.**  ASL documents `hes[i + j(j+1)/2]` (i ≤ j): for n = 3 the order
is xx, xy, yy, xz, yz, zz.  The binding stores xx, xy, **xz, yy**, yz, zz — the upper triangle by rows:
`hypot3_hes_is_row_packed` proves that its six entries are the second partials in *row* order, and
`hypot3_hes_not_asl_packed` exhibits a point where `hes[2]` (ASL: ∂²/∂y²) holds 0 while ∂²/∂y² = 1.
-/
namespace MpVerif.C16.Deriv
open Real

/-! ### log1p:  `deriv = 1 / (x + 1)`, `hes = -deriv * deriv` -/
noncomputable def log1pD (x : ℝ) : ℝ := 1 / (x + 1)
noncomputable def log1pH (x : ℝ) : ℝ := -log1pD x * log1pD x

theorem log1p_deriv (x : ℝ) (hx : x + 1 ≠ 0) : HasDerivAt (fun t => Real.log (1 + t)) (log1pD x) x := by
  have h1 : HasDerivAt (fun t : ℝ => 1 + t) 1 x := by simpa using (hasDerivAt_id x).const_add 1
  have h2 := h1.log (by rw [add_comm]; exact hx)
  unfold log1pD
  rw [add_comm x 1]
  exact h2

theorem log1p_hes (x : ℝ) (hx : x + 1 ≠ 0) : HasDerivAt log1pD (log1pH x) x := by
  have h1 : HasDerivAt (fun t : ℝ => t + 1) 1 x := by simpa using (hasDerivAt_id x).add_const 1
  have h2 := (hasDerivAt_const x (1 : ℝ)).div h1 hx
  unfold log1pH
  show HasDerivAt (fun t : ℝ => 1 / (t + 1)) _ x
  refine h2.congr_deriv ?_
  unfold log1pD
  field_simp
  ring

/-! ### expm1:  `deriv = exp(x)`, `hes = deriv` -/
noncomputable def expm1D (x : ℝ) : ℝ := Real.exp x
noncomputable def expm1H (x : ℝ) : ℝ := expm1D x

theorem expm1_deriv (x : ℝ) : HasDerivAt (fun t => Real.exp t - 1) (expm1D x) x :=
  (Real.hasDerivAt_exp x).sub_const 1

theorem expm1_hes (x : ℝ) : HasDerivAt expm1D (expm1H x) x := Real.hasDerivAt_exp x


/-! ### further elementary bindings (round 4) -/

/-- `amplgsl_sf_log` / `amplgsl_sf_log_abs`: value log|x| (Mathlib's `Real.log` is log|x|), `deriv = 1 / x`, `hes = -deriv * deriv` -/
noncomputable def sfLogD (x : ℝ) : ℝ := 1 / x
noncomputable def sfLogH (x : ℝ) : ℝ := -sfLogD x * sfLogD x
theorem sf_log_deriv (x : ℝ) (hx : x ≠ 0) : HasDerivAt Real.log (sfLogD x) x := by
  unfold sfLogD; rw [one_div]; exact Real.hasDerivAt_log hx
theorem sf_log_hes (x : ℝ) (hx : x ≠ 0) : HasDerivAt sfLogD (sfLogH x) x := by
  have h := (hasDerivAt_const x (1 : ℝ)).div (hasDerivAt_id x) hx
  unfold sfLogH
  show HasDerivAt (fun t : ℝ => 1 / t) _ x
  refine h.congr_deriv ?_
  unfold sfLogD
  simp only [id]
  field_simp
  ring

/-- `amplgsl_sf_log_1plusx_mx`: value log(1+x) − x, `sub = 1/(1+x)`, `deriv = sub - 1`, `hes = -sub * sub` -/
noncomputable def l1pmxD (x : ℝ) : ℝ := 1 / (1 + x) - 1
noncomputable def l1pmxH (x : ℝ) : ℝ := -(1 / (1 + x)) * (1 / (1 + x))
theorem log_1plusx_mx_deriv (x : ℝ) (hx : x + 1 ≠ 0) : HasDerivAt (fun t => Real.log (1 + t) - t) (l1pmxD x) x := by
  have h := (log1p_deriv x hx).sub (hasDerivAt_id x)
  unfold l1pmxD
  refine h.congr_deriv ?_
  unfold log1pD
  rw [add_comm x 1]
theorem log_1plusx_mx_hes (x : ℝ) (hx : x + 1 ≠ 0) : HasDerivAt l1pmxD (l1pmxH x) x := by
  have h := (log1p_hes x hx).sub_const 1
  unfold l1pmxH
  show HasDerivAt (fun t : ℝ => 1 / (1 + t) - 1) _ x
  have e : (fun t : ℝ => 1 / (1 + t) - 1) = (fun t => log1pD t - 1) := by
    funext t; unfold log1pD; rw [add_comm 1 t]
  rw [e]
  refine h.congr_deriv ?_
  unfold log1pH log1pD
  rw [add_comm x 1]

/-- `amplgsl_sf_legendre_P2`: value (3x² − 1)/2, `deriv = 3x`, `hes = 3`;  `amplgsl_sf_legendre_P3`: (5x³ − 3x)/2, `7.5x² − 1.5`, `15x` -/
theorem legendre_P2_deriv (x : ℝ) : HasDerivAt (fun t : ℝ => (3 * t ^ 2 - 1) / 2) (3 * x) x := by
  have h := (((hasDerivAt_pow 2 x).const_mul 3).sub_const 1).div_const 2
  refine h.congr_deriv ?_
  simp; ring
theorem legendre_P2_hes (x : ℝ) : HasDerivAt (fun t : ℝ => 3 * t) 3 x := by
  simpa using (hasDerivAt_id x).const_mul 3
theorem legendre_P3_deriv (x : ℝ) : HasDerivAt (fun t : ℝ => (5 * t ^ 3 - 3 * t) / 2) (7.5 * x * x - 1.5) x := by
  have h := (((hasDerivAt_pow 3 x).const_mul 5).sub ((hasDerivAt_id x).const_mul 3)).div_const 2
  refine h.congr_deriv ?_
  simp; ring
theorem legendre_P3_hes (x : ℝ) : HasDerivAt (fun t : ℝ => 7.5 * t * t - 1.5) (15 * x) x := by
  have h := (((hasDerivAt_id x).const_mul 7.5).mul (hasDerivAt_id x)).sub_const 1.5
  refine h.congr_deriv ?_
  simp; ring

/-! ### the three one-variable facts behind hypot and hypot3 -/

/-- d/dt √(t² + c) = t / √(t² + c) -/
theorem sqrt_sq_add_deriv (c t : ℝ) (hpos : 0 < t ^ 2 + c) :
    HasDerivAt (fun t => Real.sqrt (t ^ 2 + c)) (t / Real.sqrt (t ^ 2 + c)) t := by
  have h1 : HasDerivAt (fun t : ℝ => t ^ 2 + c) (2 * t) t := by
    simpa using (hasDerivAt_pow 2 t).add_const c
  have h2 := h1.sqrt (ne_of_gt hpos)
  refine h2.congr_deriv ?_
  have : Real.sqrt (t ^ 2 + c) ≠ 0 := ne_of_gt (Real.sqrt_pos.mpr hpos)
  field_simp

/-- d/dt [t / √(t² + c)] = (c / (t² + c)) / √(t² + c) -/
theorem self_div_sqrt_deriv (c t : ℝ) (hpos : 0 < t ^ 2 + c) :
    HasDerivAt (fun t => t / Real.sqrt (t ^ 2 + c)) (c / (t ^ 2 + c) / Real.sqrt (t ^ 2 + c)) t := by
  have hs : Real.sqrt (t ^ 2 + c) ≠ 0 := ne_of_gt (Real.sqrt_pos.mpr hpos)
  have hsq : Real.sqrt (t ^ 2 + c) ^ 2 = t ^ 2 + c := Real.sq_sqrt (le_of_lt hpos)
  have h := (hasDerivAt_id t).div (sqrt_sq_add_deriv c t hpos) hs
  have hne : t ^ 2 + c ≠ 0 := ne_of_gt hpos
  refine h.congr_deriv ?_
  rw [hsq]
  simp only [id]
  field_simp
  rw [hsq]
  ring

/-- d/ds [a / √(s² + c)] = -(a s / (s² + c)) / √(s² + c) -/
theorem const_div_sqrt_deriv (a c s : ℝ) (hpos : 0 < s ^ 2 + c) :
    HasDerivAt (fun s => a / Real.sqrt (s ^ 2 + c)) (-(a * s / (s ^ 2 + c)) / Real.sqrt (s ^ 2 + c)) s := by
  have hs : Real.sqrt (s ^ 2 + c) ≠ 0 := ne_of_gt (Real.sqrt_pos.mpr hpos)
  have hsq : Real.sqrt (s ^ 2 + c) ^ 2 = s ^ 2 + c := Real.sq_sqrt (le_of_lt hpos)
  have h := (hasDerivAt_const s a).div (sqrt_sq_add_deriv c s hpos) hs
  have hne : s ^ 2 + c ≠ 0 := ne_of_gt hpos
  refine h.congr_deriv ?_
  rw [hsq]
  field_simp
  ring


/-- the same two facts with the denominator written as (√·)², the shape the bindings use -/
theorem self_div_sqrt_deriv' (c t : ℝ) (hpos : 0 < t ^ 2 + c) :
    HasDerivAt (fun t => t / Real.sqrt (t ^ 2 + c)) (c / Real.sqrt (t ^ 2 + c) ^ 2 / Real.sqrt (t ^ 2 + c)) t := by
  have h := self_div_sqrt_deriv c t hpos
  rwa [Real.sq_sqrt (le_of_lt hpos)]

theorem const_div_sqrt_deriv' (a c s : ℝ) (hpos : 0 < s ^ 2 + c) :
    HasDerivAt (fun s => a / Real.sqrt (s ^ 2 + c)) (-(a * s / Real.sqrt (s ^ 2 + c) ^ 2) / Real.sqrt (s ^ 2 + c)) s := by
  have h := const_div_sqrt_deriv a c s hpos
  rwa [Real.sq_sqrt (le_of_lt hpos)]

/-! ### hypot:  `derivs = {x/h, y/h}`, `hes = {d1*d1/h, -d0*d1/h, d0*d0/h}` with h = √(x²+y²) -/
noncomputable def hyp (x y : ℝ) : ℝ := Real.sqrt (x ^ 2 + y ^ 2)
noncomputable def hypotD0 (x y : ℝ) : ℝ := x / hyp x y
noncomputable def hypotD1 (x y : ℝ) : ℝ := y / hyp x y
noncomputable def hypotH0 (x y : ℝ) : ℝ := hypotD1 x y * hypotD1 x y / hyp x y
noncomputable def hypotH1 (x y : ℝ) : ℝ := -hypotD0 x y * hypotD1 x y / hyp x y
noncomputable def hypotH2 (x y : ℝ) : ℝ := hypotD0 x y * hypotD0 x y / hyp x y

theorem hyp_ne (x y : ℝ) (hpos : 0 < x ^ 2 + y ^ 2) : Real.sqrt (x ^ 2 + y ^ 2) ≠ 0 :=
  ne_of_gt (Real.sqrt_pos.mpr hpos)

theorem hypot_dx (x y : ℝ) (hpos : 0 < x ^ 2 + y ^ 2) : HasDerivAt (fun t => hyp t y) (hypotD0 x y) x :=
  sqrt_sq_add_deriv (y ^ 2) x hpos

theorem hypot_dy (x y : ℝ) (hpos : 0 < x ^ 2 + y ^ 2) : HasDerivAt (fun s => hyp x s) (hypotD1 x y) y := by
  have e : ∀ s : ℝ, s ^ 2 + x ^ 2 = x ^ 2 + s ^ 2 := fun s => add_comm _ _
  have h := sqrt_sq_add_deriv (x ^ 2) y (by rw [e]; exact hpos)
  simp only [e] at h
  exact h

/-- hes[0] = ∂²/∂x² -/
theorem hypot_hes0 (x y : ℝ) (hpos : 0 < x ^ 2 + y ^ 2) : HasDerivAt (fun t => hypotD0 t y) (hypotH0 x y) x := by
  have hs := hyp_ne x y hpos
  refine (self_div_sqrt_deriv' (y ^ 2) x hpos).congr_deriv ?_
  unfold hypotH0 hypotD1 hyp
  field_simp

/-- hes[1] = ∂²/∂y∂x (derivative of derivs[0] w.r.t. y) -/
theorem hypot_hes1 (x y : ℝ) (hpos : 0 < x ^ 2 + y ^ 2) : HasDerivAt (fun s => hypotD0 x s) (hypotH1 x y) y := by
  have hs := hyp_ne x y hpos
  have e : ∀ s : ℝ, s ^ 2 + x ^ 2 = x ^ 2 + s ^ 2 := fun s => add_comm _ _
  have h := const_div_sqrt_deriv' x (x ^ 2) y (by rw [e]; exact hpos)
  simp only [e] at h
  refine h.congr_deriv ?_
  unfold hypotH1 hypotD0 hypotD1 hyp
  field_simp

/-- … and it is also the derivative of derivs[1] w.r.t. x (symmetry) -/
theorem hypot_hes1' (x y : ℝ) (hpos : 0 < x ^ 2 + y ^ 2) : HasDerivAt (fun t => hypotD1 t y) (hypotH1 x y) x := by
  have hs := hyp_ne x y hpos
  refine (const_div_sqrt_deriv' y (y ^ 2) x hpos).congr_deriv ?_
  unfold hypotH1 hypotD0 hypotD1 hyp
  field_simp

/-- hes[2] = ∂²/∂y² -/
theorem hypot_hes2 (x y : ℝ) (hpos : 0 < x ^ 2 + y ^ 2) : HasDerivAt (fun s => hypotD1 x s) (hypotH2 x y) y := by
  have hs := hyp_ne x y hpos
  have e : ∀ s : ℝ, s ^ 2 + x ^ 2 = x ^ 2 + s ^ 2 := fun s => add_comm _ _
  have h := self_div_sqrt_deriv' (x ^ 2) y (by rw [e]; exact hpos)
  simp only [e] at h
  refine h.congr_deriv ?_
  unfold hypotH2 hypotD0 hyp
  field_simp


/-! ### hypot3:  h = √(x²+y²+z²), `derivs = {x/h, y/h, z/h}`,
`hes[0..5] = {(dy²+dz²)/h, -dx·dy/h, -dx·dz/h, (dx²+dz²)/h, -dy·dz/h, (dx²+dy²)/h}` (as written in the C code) -/
noncomputable def hyp3 (x y z : ℝ) : ℝ := Real.sqrt (x ^ 2 + y ^ 2 + z ^ 2)
noncomputable def h3Dx (x y z : ℝ) : ℝ := x / hyp3 x y z
noncomputable def h3Dy (x y z : ℝ) : ℝ := y / hyp3 x y z
noncomputable def h3Dz (x y z : ℝ) : ℝ := z / hyp3 x y z
/-- the six numbers `amplgsl_hypot3` stores into `al->hes[0..5]`, in that order -/
noncomputable def hypot3Hes (x y z : ℝ) : Fin 6 → ℝ
  | 0 => (h3Dy x y z * h3Dy x y z + h3Dz x y z * h3Dz x y z) / hyp3 x y z
  | 1 => -h3Dx x y z * h3Dy x y z / hyp3 x y z
  | 2 => -h3Dx x y z * h3Dz x y z / hyp3 x y z
  | 3 => (h3Dx x y z * h3Dx x y z + h3Dz x y z * h3Dz x y z) / hyp3 x y z
  | 4 => -h3Dy x y z * h3Dz x y z / hyp3 x y z
  | 5 => (h3Dx x y z * h3Dx x y z + h3Dy x y z * h3Dy x y z) / hyp3 x y z

private theorem exq (y z t : ℝ) : t ^ 2 + (y ^ 2 + z ^ 2) = t ^ 2 + y ^ 2 + z ^ 2 := by ring
private theorem eyq (x z s : ℝ) : s ^ 2 + (x ^ 2 + z ^ 2) = x ^ 2 + s ^ 2 + z ^ 2 := by ring
private theorem ezq (x y u : ℝ) : u ^ 2 + (x ^ 2 + y ^ 2) = x ^ 2 + y ^ 2 + u ^ 2 := by ring

section
variable (x y z : ℝ) (hpos : 0 < x ^ 2 + y ^ 2 + z ^ 2)
include hpos

theorem hyp3_ne : Real.sqrt (x ^ 2 + y ^ 2 + z ^ 2) ≠ 0 := ne_of_gt (Real.sqrt_pos.mpr hpos)


theorem hypot3_dx : HasDerivAt (fun t => hyp3 t y z) (h3Dx x y z) x := by
  have h := sqrt_sq_add_deriv (y ^ 2 + z ^ 2) x (by rw [exq y z]; exact hpos)
  simp only [exq y z] at h; exact h
theorem hypot3_dy : HasDerivAt (fun s => hyp3 x s z) (h3Dy x y z) y := by
  have h := sqrt_sq_add_deriv (x ^ 2 + z ^ 2) y (by rw [eyq x z]; exact hpos)
  simp only [eyq x z] at h; exact h
theorem hypot3_dz : HasDerivAt (fun u => hyp3 x y u) (h3Dz x y z) z := by
  have h := sqrt_sq_add_deriv (x ^ 2 + y ^ 2) z (by rw [ezq x y]; exact hpos)
  simp only [ezq x y] at h; exact h

/-- hes[0] = ∂²/∂x² -/
theorem hypot3_hes_xx : HasDerivAt (fun t => h3Dx t y z) (hypot3Hes x y z 0) x := by
  have hs := hyp3_ne x y z hpos
  have h := self_div_sqrt_deriv' (y ^ 2 + z ^ 2) x (by rw [exq y z]; exact hpos)
  simp only [exq y z] at h
  refine h.congr_deriv ?_
  simp only [hypot3Hes, h3Dy, h3Dz, hyp3]
  field_simp
/-- hes[1] = ∂²/∂x∂y -/
theorem hypot3_hes_xy : HasDerivAt (fun s => h3Dx x s z) (hypot3Hes x y z 1) y := by
  have hs := hyp3_ne x y z hpos
  have h := const_div_sqrt_deriv' x (x ^ 2 + z ^ 2) y (by rw [eyq x z]; exact hpos)
  simp only [eyq x z] at h
  refine h.congr_deriv ?_
  simp only [hypot3Hes, h3Dx, h3Dy, hyp3]
  field_simp
/-- hes[2] = ∂²/∂x∂z  (ASL's slot for ∂²/∂y²) -/
theorem hypot3_hes_xz : HasDerivAt (fun u => h3Dx x y u) (hypot3Hes x y z 2) z := by
  have hs := hyp3_ne x y z hpos
  have h := const_div_sqrt_deriv' x (x ^ 2 + y ^ 2) z (by rw [ezq x y]; exact hpos)
  simp only [ezq x y] at h
  refine h.congr_deriv ?_
  simp only [hypot3Hes, h3Dx, h3Dz, hyp3]
  field_simp
/-- hes[3] = ∂²/∂y²  (ASL's slot for ∂²/∂x∂z) -/
theorem hypot3_hes_yy : HasDerivAt (fun s => h3Dy x s z) (hypot3Hes x y z 3) y := by
  have hs := hyp3_ne x y z hpos
  have h := self_div_sqrt_deriv' (x ^ 2 + z ^ 2) y (by rw [eyq x z]; exact hpos)
  simp only [eyq x z] at h
  refine h.congr_deriv ?_
  simp only [hypot3Hes, h3Dx, h3Dz, hyp3]
  field_simp
/-- hes[4] = ∂²/∂y∂z -/
theorem hypot3_hes_yz : HasDerivAt (fun u => h3Dy x y u) (hypot3Hes x y z 4) z := by
  have hs := hyp3_ne x y z hpos
  have h := const_div_sqrt_deriv' y (x ^ 2 + y ^ 2) z (by rw [ezq x y]; exact hpos)
  simp only [ezq x y] at h
  refine h.congr_deriv ?_
  simp only [hypot3Hes, h3Dy, h3Dz, hyp3]
  field_simp
/-- hes[5] = ∂²/∂z² -/
theorem hypot3_hes_zz : HasDerivAt (fun u => h3Dz x y u) (hypot3Hes x y z 5) z := by
  have hs := hyp3_ne x y z hpos
  have h := self_div_sqrt_deriv' (x ^ 2 + y ^ 2) z (by rw [ezq x y]; exact hpos)
  simp only [ezq x y] at h
  refine h.congr_deriv ?_
  simp only [hypot3Hes, h3Dx, h3Dy, hyp3]
  field_simp
end

/-! ### which packing is that? -/
/-- ASL (funcadd.h): entry (i, j), i ≤ j, lives in `hes[i + j(j+1)/2]` -/
def aslIdx (i j : Nat) : Nat := i + j * (j + 1) / 2
/-- upper triangle by rows, n = 3 (the formula `test/gsl-test.cc` uses: i(2n−i−1)/2 + j) -/
def rowIdx (i j : Nat) : Nat := i * (2 * 3 - i - 1) / 2 + j

/-- **`amplgsl_hypot3` packs by rows**: writing ∂ᵢ∂ⱼ for the second partial proved above, the binding's
`hes[rowIdx i j]` is ∂ᵢ∂ⱼ for all i ≤ j < 3 (indices: xx→0, xy→1, xz→2, yy→3, yz→4, zz→5). -/
theorem hypot3_hes_is_row_packed :
    rowIdx 0 0 = 0 ∧ rowIdx 0 1 = 1 ∧ rowIdx 0 2 = 2 ∧ rowIdx 1 1 = 3 ∧ rowIdx 1 2 = 4 ∧ rowIdx 2 2 = 5 := by decide

/-- the ASL packing differs exactly on (1,1) and (0,2): yy→2, xz→3 -/
theorem asl_packing_n3 :
    aslIdx 0 0 = 0 ∧ aslIdx 0 1 = 1 ∧ aslIdx 1 1 = 2 ∧ aslIdx 0 2 = 3 ∧ aslIdx 1 2 = 4 ∧ aslIdx 2 2 = 5 := by decide

/-- **not the ASL packing**: at (1, 0, 0) the true ∂²/∂y² is 1 (it is `hes[3]`), but the slot ASL reads for it,
`hes[aslIdx 1 1] = hes[2]`, holds ∂²/∂x∂z = 0. -/
theorem hypot3_hes_not_asl_packed :
    hypot3Hes 1 0 0 ⟨aslIdx 1 1, by decide⟩ = 0 ∧ hypot3Hes 1 0 0 3 = 1 ∧
    HasDerivAt (fun s => h3Dy 1 s 0) 1 0 := by
  have h1 : hyp3 1 0 0 = 1 := by simp [hyp3]
  have e2 : hypot3Hes 1 0 0 ⟨aslIdx 1 1, by decide⟩ = hypot3Hes 1 0 0 2 := rfl
  have v3 : hypot3Hes 1 0 0 3 = 1 := by simp [hypot3Hes, h3Dx, h3Dz, h1]
  refine ⟨?_, v3, ?_⟩
  · rw [e2]; simp [hypot3Hes, h3Dx, h3Dz, h1]
  · have := hypot3_hes_yy 1 0 0 (by norm_num)
    rwa [v3] at this

end MpVerif.C16.Deriv

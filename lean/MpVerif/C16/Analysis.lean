import MpVerif.C16.Model
/-!
# C16 — the discipline analysis

`disciplined body n` abstractly executes a skeleton for **every** request mode and
every constness vector `al->dig` of an `n`-argument function, leaving all opaque
comparisons and all NaN bits undetermined, and checks at every `return`:

* `return check_result(al, v)`: either an error is certainly set, or no derivatives
  were requested, or every requested `derivs[i]` (and, with `hes`, every requested
  `hes[i,j]`) has certainly been assigned — *requested* meaning that the caller did
  not declare the argument constant through `al->dig`;
* `return 0`: an error is certainly set;
* a raw `return v` (bypassing `check_result`) is never accepted;
* control never falls off the end.

`Lemmas.lean` proves that this analysis is sound for the concrete semantics
`run` of `Model.lean`, for all oracles and all arguments.
-/
namespace MpVerif.C16

/-- abstract program point: what certainly holds on every concrete execution reaching it -/
structure APt where
  errDef : Bool              -- al->Errmsg is certainly set
  wd : Nat → Bool            -- derivs[i] certainly assigned   (unless an error is set)
  wh : Nat → Bool            -- hes[i] certainly assigned      (unless an error is set)
  lb : Nat → Option Bool     -- known value of condition-valued locals

def APt.setErr (p : APt) : APt := { p with errDef := true }

def APt.init : APt := { errDef := false, wd := fun _ => false, wh := fun _ => false, lb := fun _ => none }

def joinPt (p q : APt) : APt :=
  { errDef := p.errDef && q.errDef,
    wd := fun i => (p.errDef || p.wd i) && (q.errDef || q.wd i),
    wh := fun i => (p.errDef || p.wh i) && (q.errDef || q.wh i),
    lb := fun x => if p.lb x = q.lb x then p.lb x else none }

def joinO : Option APt → Option APt → Option APt
  | none, q => q
  | p, none => p
  | some p, some q => some (joinPt p q)

/-- abstract outcome of a condition: the point reached when it is true / false (none = impossible) -/
structure Br where
  tt : Option APt
  ff : Option APt

/-- the static part of a call: n, the request mode, and the constness information -/
structure ACtx where
  n : Nat
  m : Mode
  digp : Bool
  cst : Nat → Bool

def allBelow (n : Nat) (p : Nat → Bool) : Bool := !anyBelow n (fun i => !p i)

def aChk (x : ACtx) (e : Env) (c : Chk) (p : APt) : Br :=
  match c with
  | .args => ⟨some p, some p.setErr⟩
  | .constArg i => if x.cst (i.val e) then ⟨some p, none⟩ else ⟨none, some p.setErr⟩
  | .intArg i => ⟨some (if x.m.derivs && !x.cst (i.val e) then p.setErr else p), some p.setErr⟩
  | .uintArg i => ⟨some (if x.m.derivs && !x.cst (i.val e) then p.setErr else p), some p.setErr⟩
  | .zeroFunc _ => ⟨some (if x.m.derivs then p.setErr else p), some p.setErr⟩
  | .bessel _ => ⟨some (if x.m.derivs && !x.cst 0 then p.setErr else p), some p.setErr⟩
  | .coupling => ⟨some (if x.m.derivs && anyBelow x.n (fun i => !x.cst i) then p.setErr else p), some p.setErr⟩

def APt.setLb (p : APt) (v : Nat) (b : Bool) : APt :=
  { p with lb := fun y => if y = v then some b else p.lb y }

def ofBool (b : Bool) (p : APt) : Br := if b then ⟨some p, none⟩ else ⟨none, some p⟩

def aCond (x : ACtx) (e : Env) : Cond → APt → Br
  | .derivs, p => ofBool x.m.derivs p
  | .hes, p => ofBool x.m.hes p
  | .digp, p => ofBool x.digp p
  | .dig i, p => ofBool (x.cst (i.val e)) p
  | .lb v, p =>
    match p.lb v with
    | some b => ofBool b p
    | none => ⟨some p, some p⟩
  | .lit b, p => ofBool b p
  | .opq, p => ⟨some p, some p⟩
  | .not c, p => let r := aCond x e c p; ⟨r.ff, r.tt⟩
  | .and c1 c2, p =>
    let r1 := aCond x e c1 p
    match r1.tt with
    | none => ⟨none, r1.ff⟩
    | some pt => let r2 := aCond x e c2 pt; ⟨r2.tt, joinO r1.ff r2.ff⟩
  | .or c1 c2, p =>
    let r1 := aCond x e c1 p
    match r1.ff with
    | none => ⟨r1.tt, none⟩
    | some pf => let r2 := aCond x e c2 pf; ⟨joinO r1.tt r2.tt, r2.ff⟩
  | .chk c, p => aChk x e c p
  | .gsl k, p => ⟨some (p.setLb k true), some (p.setLb k false)⟩

structure ARes where
  ok : Bool
  cur : Option APt

/-- every requested first (and second) partial has certainly been assigned -/
def covered (x : ACtx) (p : APt) : Bool :=
  allBelow x.n (fun i => x.cst i || p.wd i) &&
  (!x.m.hes || allBelow x.n (fun j => allBelow (j + 1) (fun i => x.cst i || x.cst j || p.wh (hesIdx i j))))

/-- sequencing: continue from the fall-through point, if there is one -/
def thenRes (r : ARes) (k : APt → ARes) : ARes :=
  match r.cur with
  | none => r
  | some p' => ⟨r.ok && (k p').ok, (k p').cur⟩

def aLoop (step : Env → APt → ARes) (e : Env) (v n : Nat) (fuel i : Nat) (p : APt) : ARes :=
  match fuel with
  | 0 => ⟨true, some p⟩
  | f + 1 =>
    if i < n then thenRes (step ((v, i) :: e) p) (fun p' => aLoop step e v n f (i + 1) p')
    else ⟨true, some p⟩

def aExec (x : ACtx) : Stmt → Env → APt → ARes
  | .skip, _, p => ⟨true, some p⟩
  | .num, _, p => ⟨true, some p⟩
  | .setb v c, e, p =>
    let r := aCond x e c p
    ⟨true, joinO (r.tt.map (·.setLb v true)) (r.ff.map (·.setLb v false))⟩
  | .wd i, e, p => ⟨true, some { p with wd := upd p.wd (i.val e) true }⟩
  | .wh i, e, p => ⟨true, some { p with wh := upd p.wh (i.val e) true }⟩
  | .eval c, e, p => let r := aCond x e c p; ⟨true, joinO r.tt r.ff⟩
  | .errEval, _, p => ⟨true, some p.setErr⟩
  | .errDeriv, _, p => ⟨true, some p.setErr⟩
  | .errArg, _, p => ⟨true, some p.setErr⟩
  | .ite c t f, e, p =>
    let r := aCond x e c p
    let rt := match r.tt with
      | none => (⟨true, none⟩ : ARes)
      | some pt => aExec x t e pt
    let rf := match r.ff with
      | none => (⟨true, none⟩ : ARes)
      | some pf => aExec x f e pf
    ⟨rt.ok && rf.ok, joinO rt.cur rf.cur⟩
  | .seq s1 s2, e, p => thenRes (aExec x s1 e p) (fun p' => aExec x s2 e p')
  | .for_ v start body, e, p => aLoop (aExec x body) e v x.n x.n start p
  | .retCheck, _, p => ⟨p.errDef || !x.m.derivs || covered x p, none⟩
  | .retCheckNaN, _, _ => ⟨true, none⟩
  | .ret0, _, p => ⟨p.errDef, none⟩
  | .retRaw, _, _ => ⟨false, none⟩

/-- the skeleton is fine in this static context: all return points pass and control cannot fall off the end -/
def aRun (x : ACtx) (body : Stmt) : Bool :=
  let r := aExec x body [] APt.init
  r.ok && r.cur.isNone

/-- all Boolean vectors of length n -/
def allVecs : Nat → List (List Bool)
  | 0 => [[]]
  | k + 1 => (allVecs k).flatMap (fun v => [false :: v, true :: v])

def allModes : List Mode := [⟨false, false⟩, ⟨false, true⟩, ⟨true, false⟩, ⟨true, true⟩]

def vecCst (n : Nat) (digp : Bool) (v : List Bool) : Nat → Bool :=
  fun i => decide (i < n) && (digp && v.getD i false)

/-- the analysis: every mode × (dig absent | every constness vector) -/
def disciplined (body : Stmt) (n : Nat) : Bool :=
  allModes.all fun m =>
    aRun ⟨n, m, false, fun _ => false⟩ body &&
      (allVecs n).all fun v => aRun ⟨n, m, true, vecCst n true v⟩ body

end MpVerif.C16

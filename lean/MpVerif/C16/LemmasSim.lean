import MpVerif.C16.LemmasChk
/-!
# C16 — the abstract execution simulates every concrete execution
-/
namespace MpVerif.C16

/-- the static context of a concrete call -/
def ctxOf (a : Args) (m : Mode) : ACtx := ⟨a.n, m, a.digp, a.const⟩

structure Covers (br : Br) (r : Bool × St) : Prop where
  tt : r.1 = true → ∃ p', br.tt = some p' ∧ Rel p' r.2
  ff : r.1 = false → ∃ p', br.ff = some p' ∧ Rel p' r.2

theorem covers_ofBool {p : APt} {c : St} (b : Bool) (r : Rel p c) : Covers (ofBool b p) (b, c) := by
  cases b with
  | true => exact ⟨fun _ => ⟨p, rfl, r⟩, fun h => (nomatch h)⟩
  | false => exact ⟨fun h => (nomatch h), fun _ => ⟨p, rfl, r⟩⟩

theorem covers_chk {p pt : APt} {c : St} {r : Bool × St} (rel : Rel p c) (ok : ChkOk c r)
    (ht : r.1 = true → Rel pt r.2) : Covers ⟨some pt, some p.setErr⟩ r :=
  ⟨fun h => ⟨pt, rfl, ht h⟩, fun h => ⟨p.setErr, rfl, rel.setErr ok.mono (ok.fail h)⟩⟩

theorem rel_ifErr {p : APt} {c c' : St} (rel : Rel p c) (mono : ErrMono c c') (b : Bool)
    (h : b = true → c'.err.isSome = true) : Rel (if b = true then p.setErr else p) c' := by
  cases b with
  | true => exact rel.setErr mono (h rfl)
  | false => exact rel.mono mono

theorem chk_sim (o : Oracle) (a : Args) (m : Mode) (e : Env) (ck : Chk) (p : APt) (c : St) (rel : Rel p c) :
    Covers (aChk (ctxOf a m) e ck p) (evalChk o a m e ck c) ∧ ErrMono c (evalChk o a m e ck c).2 := by
  cases ck with
  | args =>
    have ok := checkArgs_ok a c
    exact ⟨covers_chk rel ok (fun _ => rel.mono ok.mono), ok.mono⟩
  | constArg i =>
    have ok := checkConstArg_ok a (i.val e) c
    refine ⟨?_, ok.mono⟩
    show Covers (if a.const (i.val e) = true then ⟨some p, none⟩ else ⟨none, some p.setErr⟩) (checkConstArg a (i.val e) c)
    split
    · rename_i hc
      refine ⟨fun _ => ⟨p, rfl, rel.mono ok.mono⟩, fun h => ?_⟩
      have := checkConstArg_false a _ c h
      rw [hc] at this; cases this
    · rename_i hc
      refine ⟨fun h => ?_, fun h => ⟨p.setErr, rfl, rel.setErr ok.mono (ok.fail h)⟩⟩
      exact absurd (checkConstArg_true a _ c h) hc
  | intArg i =>
    have ok := checkIntArg_ok a m (i.val e) c
    refine ⟨covers_chk rel ok (fun h => ?_), ok.mono⟩
    show Rel (if (m.derivs && !a.const (i.val e)) = true then p.setErr else p) _
    apply rel_ifErr rel ok.mono
    intro hb
    rw [Bool.and_eq_true] at hb
    exact checkIntArg_deriv a m _ c h hb.1 (by simpa using hb.2)
  | uintArg i =>
    have ok := checkUintArg_ok a m (i.val e) c
    refine ⟨covers_chk rel ok (fun h => ?_), ok.mono⟩
    show Rel (if (m.derivs && !a.const (i.val e)) = true then p.setErr else p) _
    apply rel_ifErr rel ok.mono
    intro hb
    rw [Bool.and_eq_true] at hb
    exact checkUintArg_deriv a m _ c h hb.1 (by simpa using hb.2)
  | zeroFunc i =>
    have ok := checkZeroFuncArgs_ok a m (i.val e) c
    refine ⟨covers_chk rel ok (fun h => ?_), ok.mono⟩
    show Rel (if m.derivs = true then p.setErr else p) _
    apply rel_ifErr rel ok.mono
    intro hb
    exact checkZeroFuncArgs_deriv a m _ c hb h
  | bessel flag =>
    have ok := checkBesselArgs_ok a m flag c
    refine ⟨covers_chk rel ok (fun h => ?_), ok.mono⟩
    show Rel (if (m.derivs && !a.const 0) = true then p.setErr else p) _
    apply rel_ifErr rel ok.mono
    intro hb
    rw [Bool.and_eq_true] at hb
    exact checkBesselArgs_deriv a m flag c h hb.1 (by simpa using hb.2)
  | coupling =>
    have ok := checkCouplingFrom_ok a m a.n 0 c
    refine ⟨covers_chk rel ok (fun h => ?_), ok.mono⟩
    show Rel (if (m.derivs && anyBelow a.n (fun i => !a.const i)) = true then p.setErr else p) _
    apply rel_ifErr rel ok.mono
    intro hb
    rw [Bool.and_eq_true] at hb
    obtain ⟨j, hj, hc⟩ := anyBelow_exists hb.2
    exact checkCouplingFrom_deriv a m hb.1 a.n 0 c h (Or.inr ⟨j, by omega, by omega, by simpa using hc⟩)

theorem rel_setLb {q : APt} {c : St} (v : Nat) (b : Bool) (rq : Rel q c) (c' : St)
    (herr : c'.err = c.err) (hwd : c'.wd = c.wd) (hwh : c'.wh = c.wh) (hlb : c'.lb = upd c.lb v b) : Rel (q.setLb v b) c' := by
  refine ⟨fun h => by rw [herr]; exact rq.err h, ?_, ?_⟩
  · intro x b' hx
    have hx' : (if x = v then some b else q.lb x) = some b' := hx
    rw [hlb]
    unfold upd
    split at hx'
    · rename_i hxv; rw [if_pos hxv]; cases hx'; rfl
    · rename_i hxv; rw [if_neg hxv]; exact rq.lb x b' hx'
  · cases rq.facts with
    | inl h => exact Or.inl (by rw [herr]; exact h)
    | inr f => exact Or.inr ⟨fun i hi => by rw [hwd]; exact f.wd i hi, fun i hi => by rw [hwh]; exact f.wh i hi⟩

theorem cond_sim (o : Oracle) (a : Args) (m : Mode) (e : Env) (cnd : Cond) :
    ∀ (p : APt) (c : St), Rel p c →
      Covers (aCond (ctxOf a m) e cnd p) (evalCond o a m e cnd c) ∧ (evalCond o a m e cnd c).2.ret = c.ret := by
  induction cnd with
  | derivs => intro p c rel; exact ⟨covers_ofBool _ rel, rfl⟩
  | hes => intro p c rel; exact ⟨covers_ofBool _ rel, rfl⟩
  | digp => intro p c rel; exact ⟨covers_ofBool _ rel, rfl⟩
  | dig i => intro p c rel; exact ⟨covers_ofBool _ rel, rfl⟩
  | lit b => intro p c rel; exact ⟨covers_ofBool _ rel, rfl⟩
  | lb x =>
    intro p c rel
    refine ⟨?_, rfl⟩
    show Covers (match p.lb x with | some b => ofBool b p | none => ⟨some p, some p⟩) (c.lb x, c)
    cases h : p.lb x with
    | none => exact ⟨fun _ => ⟨p, rfl, rel⟩, fun _ => ⟨p, rfl, rel⟩⟩
    | some b =>
      have := rel.lb x b h
      rw [this]
      exact covers_ofBool b rel
  | opq =>
    intro p c rel
    have mono : ErrMono c { c with tc := c.tc + 1 } := tick_mono c
    exact ⟨⟨fun _ => ⟨p, rfl, rel.mono mono⟩, fun _ => ⟨p, rfl, rel.mono mono⟩⟩, rfl⟩
  | gsl k =>
    intro p c rel
    refine ⟨⟨fun h => ⟨p.setLb k true, rfl, ?_⟩, fun h => ⟨p.setLb k false, rfl, ?_⟩⟩, rfl⟩
    · have hb : o.cond c.tc = true := h
      exact rel_setLb k true rel _ rfl rfl rfl (by show upd c.lb k (o.cond c.tc) = _; rw [hb])
    · have hb : o.cond c.tc = false := h
      exact rel_setLb k false rel _ rfl rfl rfl (by show upd c.lb k (o.cond c.tc) = _; rw [hb])
  | not c1 ih =>
    intro p c rel
    obtain ⟨cv, mono⟩ := ih p c rel
    refine ⟨⟨fun h => ?_, fun h => ?_⟩, mono⟩
    · exact cv.ff (by simpa [evalCond] using h)
    · exact cv.tt (by simpa [evalCond] using h)
  | and c1 c2 ih1 ih2 =>
    intro p c rel
    obtain ⟨cv1, mono1⟩ := ih1 p c rel
    simp only [evalCond, aCond]
    cases h1 : (evalCond o a m e c1 c).1 with
    | false =>
      simp only [Bool.false_eq_true, if_false]
      obtain ⟨pf, hpf, rpf⟩ := cv1.ff h1
      refine ⟨⟨fun h => (nomatch h), fun _ => ?_⟩, mono1⟩
      cases htt : (aCond (ctxOf a m) e c1 p).tt with
      | none => exact ⟨pf, hpf, rpf⟩
      | some pt => exact joinO_left hpf rpf
    | true =>
      simp only [if_true]
      obtain ⟨pt, hpt, rpt⟩ := cv1.tt h1
      obtain ⟨cv2, mono2⟩ := ih2 pt _ rpt
      rw [hpt]
      refine ⟨⟨fun h => cv2.tt h, fun h => ?_⟩, mono2.trans mono1⟩
      obtain ⟨pf, hpf, rpf⟩ := cv2.ff h
      exact joinO_right hpf rpf
  | or c1 c2 ih1 ih2 =>
    intro p c rel
    obtain ⟨cv1, mono1⟩ := ih1 p c rel
    simp only [evalCond, aCond]
    cases h1 : (evalCond o a m e c1 c).1 with
    | true =>
      simp only [if_true]
      obtain ⟨pt, hpt, rpt⟩ := cv1.tt h1
      refine ⟨⟨fun _ => ?_, fun h => (nomatch h)⟩, mono1⟩
      cases hff : (aCond (ctxOf a m) e c1 p).ff with
      | none => exact ⟨pt, hpt, rpt⟩
      | some pf => exact joinO_left hpt rpt
    | false =>
      simp only [Bool.false_eq_true, if_false]
      obtain ⟨pf, hpf, rpf⟩ := cv1.ff h1
      obtain ⟨cv2, mono2⟩ := ih2 pf _ rpf
      rw [hpf]
      refine ⟨⟨fun h => ?_, fun h => cv2.ff h⟩, mono2.trans mono1⟩
      obtain ⟨pt, hpt, rpt⟩ := cv2.tt h
      exact joinO_right hpt rpt
  | chk ck => intro p c rel; exact ⟨(chk_sim o a m e ck p c rel).1, (chk_sim o a m e ck p c rel).2.ret⟩

end MpVerif.C16

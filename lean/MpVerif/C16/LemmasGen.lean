import MpVerif.C16.Helper
import MpVerif.C16.Lemmas
import MpVerif.Gen.GslHelpers
/-!
# C16 — the generated helper bodies compute exactly what the hand models say (helper lemmas)
-/
namespace MpVerif.C16
open MpVerif.Gen.GslHelpers

/-- `p` holds somewhere in [i, i + len) -/
def anyRange (i : Nat) : Nat → (Nat → Bool) → Bool
  | 0, _ => false
  | f + 1, p => p i || anyRange (i + 1) f p

theorem anyRange_snoc (p : Nat → Bool) : ∀ len i, anyRange i (len + 1) p = (anyRange i len p || p (i + len)) := by
  intro len
  induction len with
  | zero => intro i; simp [anyRange]
  | succ k ih =>
    intro i
    rw [anyRange, ih (i + 1), anyRange]
    have : i + 1 + k = i + (k + 1) := by omega
    rw [this, Bool.or_assoc]

theorem anyRange_zero_eq (p : Nat → Bool) : ∀ n, anyRange 0 n p = anyBelow n p := by
  intro n
  induction n with
  | zero => rfl
  | succ k ih => rw [anyRange_snoc, ih, anyBelow, Nat.zero_add, Bool.or_comm]

/-- a loop that looks for the first index satisfying `p` and then does `F` (which returns) -/
theorem hloop_search (step : Env → HS → HS) (e : Env) (x B : Nat) (p : Nat → Bool) (F : HS → HS) (h : HS)
    (hstep : ∀ j, step ((x, j) :: e) h = if p j then F h else h) (hF : (F h).out.isSome = true) (hout : h.out = none) :
    ∀ fuel i, i + fuel = B → hloop step e x B fuel i h = if anyRange i fuel p then F h else h := by
  intro fuel
  induction fuel with
  | zero => intro i _; simp [hloop, anyRange]
  | succ f ih =>
    intro i hi
    have hlt : i < B := by omega
    unfold hloop
    rw [if_pos hlt, hstep i]
    cases hp : p i with
    | true =>
      simp only [if_true, anyRange, hp, Bool.true_or]
      unfold thenH
      rw [if_pos hF]
    | false =>
      simp only [Bool.false_eq_true, if_false, anyRange, hp, Bool.false_or]
      unfold thenH
      rw [hout]
      simp only [Option.isSome_none, Bool.false_eq_true, if_false]
      exact ih (i + 1) (by omega)

theorem hloop_search_all (step : Env → HS → HS) (e : Env) (x B : Nat) (p : Nat → Bool) (F : HS → HS) (h : HS)
    (hstep : ∀ j, step ((x, j) :: e) h = if p j then F h else h) (hF : (F h).out.isSome = true) (hout : h.out = none) :
    hloop step e x B (B - 0) 0 h = if anyBelow B p then F h else h := by
  rw [hloop_search step e x B p F h hstep hF hout (B - 0) 0 (by omega), Nat.sub_zero, anyRange_zero_eq]


/-! ### the simple helpers -/

theorem gen_error (a : Args) (m : Mode) (pr : HPar) (s : St) : hrun h_error a m pr s = (true, s.argError) := rfl
theorem gen_eval_error (a : Args) (m : Mode) (pr : HPar) (s : St) : hrun h_eval_error a m pr s = (true, s.evalError) := rfl

theorem gen_deriv_error (a : Args) (m : Mode) (pr : HPar) (s : St) : hrun h_deriv_error a m pr s = (true, s.derivError) := by
  unfold St.derivError
  cases h : s.err with
  | none => simp [hrun, h_deriv_error, hexec, hcond, thenH, h]
  | some k => simp [hrun, h_deriv_error, hexec, hcond, thenH, h]

/-- parameters (arg, min, max) of check_deriv_arg -/
def parDeriv (arg lo hi : Int) : HPar := { ip := fun p => if p = 0 then arg else if p = 1 then lo else hi }

theorem gen_check_deriv_arg (a : Args) (m : Mode) (arg lo hi : Int) (s : St) :
    hrun h_check_deriv_arg a m (parDeriv arg lo hi) s = checkDerivArg arg lo hi s := by
  unfold checkDerivArg
  by_cases h1 : arg < lo
  · simp [hrun, h_check_deriv_arg, hexec, hcond, thenH, IExp.eval, parDeriv, h1]
  · by_cases h2 : arg > hi
    · simp [hrun, h_check_deriv_arg, hexec, hcond, thenH, IExp.eval, parDeriv, h1, h2]
    · simp [hrun, h_check_deriv_arg, hexec, hcond, thenH, IExp.eval, parDeriv, h1, h2]

/-- the unsigned `index` parameter -/
def parIdx (i : Nat) : HPar := { xp := fun _ => i }

theorem gen_check_const_arg (a : Args) (m : Mode) (i : Nat) (hi : i < a.n) (s : St) :
    hrun h_check_const_arg a m (parIdx i) s = checkConstArg a i s := by
  unfold checkConstArg Args.const
  cases hp : a.digp <;> cases hd : a.dig i <;>
    simp [hrun, h_check_const_arg, hexec, hcond, thenH, HIdx.val, parIdx, hp, hd, hi]

theorem gen_check_int_arg (a : Args) (m : Mode) (i : Nat) (s : St) :
    hrun h_check_int_arg a m (parIdx i) s = checkIntArg a m i s := by
  unfold checkIntArg
  cases ho : a.intOk i <;> cases hd : m.derivs <;>
    simp [hrun, h_check_int_arg, hexec, hcond, hcall, thenH, HIdx.val, parIdx, ho, hd]

theorem gen_check_uint_arg (a : Args) (m : Mode) (i : Nat) (s : St) :
    hrun h_check_uint_arg a m (parIdx i) s = checkUintArg a m i s := by
  unfold checkUintArg
  cases ho : a.uintOk i <;> cases hd : m.derivs <;>
    simp [hrun, h_check_uint_arg, hexec, hcond, hcall, thenH, HIdx.val, parIdx, ho, hd]

theorem gen_check_zero_func_args (a : Args) (m : Mode) (i : Nat) (s : St) :
    hrun h_check_zero_func_args a m (parIdx i) s = checkZeroFuncArgs a m i s := by
  unfold checkZeroFuncArgs
  cases ho : a.uintOk i <;> cases hd : m.derivs <;> cases hc : (checkConstArg a i s).1 <;>
    simp [hrun, h_check_zero_func_args, hexec, hcond, hcall, thenH, HIdx.val, parIdx, ho, hd, hc]


/-- the `flags` parameter of check_bessel_args -/
def parFlag (flag : Bool) : HPar := { fp := fun _ => flag }

theorem gen_check_bessel_args (a : Args) (m : Mode) (flag : Bool) (s : St) :
    hrun h_check_bessel_args a m (parFlag flag) s = checkBesselArgs a m flag s := by
  unfold checkBesselArgs thenChk derivMin intMin intMax
  cases h1 : (checkIntArg a m 0 s).1 <;> cases hd : m.derivs <;> cases hh : m.hes <;> cases flag <;>
    simp [hrun, h_check_bessel_args, hexec, hcond, hcall, thenH, HIdx.val, IExp.eval, updI, parFlag, h1, hd, hh] <;>
    (repeat' split) <;> simp_all


/-! ### helpers with loops -/

def h0 (s : St) : HS := { st := s, iv := fun _ => 0, out := none }

/-- (return value, state) of a finished helper run -/
def hres (h : HS) : Bool × St := (h.out.getD true, h.st)

theorem gen_check_args (a : Args) (m : Mode) (pr : HPar) (s : St) : hrun h_check_args a m pr s = checkArgs a s := by
  have key := hloop_search_all
    (hexec a m pr (.ite (.raNaN (.var 0)) (.seq (.callErr .eval) (.retB false)) .skip)) [] 0 a.n a.raNaN
    (fun h => { h with st := h.st.evalError, out := some false }) (h0 s)
    (by intro j; cases hp : a.raNaN j <;> simp [hexec, hcond, thenH, HIdx.val, Env.get, h0, hp])
    rfl rfl
  have e1 : hrun h_check_args a m pr s =
      hres (thenH (hloop (hexec a m pr (.ite (.raNaN (.var 0)) (.seq (.callErr .eval) (.retB false)) .skip)) [] 0 a.n (a.n - 0) 0 (h0 s))
        (fun h' => { h' with out := some true })) := rfl
  rw [e1, key]
  unfold checkArgs
  cases hany : anyBelow a.n a.raNaN <;> simp [thenH, h0, hres]


def couplingBody : HStmt := .ite (.not (.call (.intArg (.var 0)))) (.retB false) .skip

theorem coupling_loop (a : Args) (m : Mode) (pr : HPar) (B : Nat) :
    ∀ fuel i (h : HS), h.out = none → i + fuel = B →
      hloop (hexec a m pr couplingBody) [] 0 B fuel i h =
        (if (checkCouplingFrom a m fuel i h.st).1 then { h with st := (checkCouplingFrom a m fuel i h.st).2 }
         else { h with st := (checkCouplingFrom a m fuel i h.st).2, out := some false }) := by
  intro fuel
  induction fuel with
  | zero => intro i h _ _; simp [hloop, checkCouplingFrom]
  | succ f ih =>
    intro i h hout hi
    have hlt : i < B := by omega
    unfold hloop checkCouplingFrom thenChk
    rw [if_pos hlt]
    cases h1 : (checkIntArg a m i h.st).1 with
    | false =>
      simp [couplingBody, hexec, hcond, hcall, thenH, HIdx.val, Env.get, h1]
    | true =>
      have hstep : hexec a m pr couplingBody [(0, i)] h = { h with st := (checkIntArg a m i h.st).2 } := by
        simp [couplingBody, hexec, hcond, hcall, HIdx.val, Env.get, h1]
      rw [hstep]
      unfold thenH
      simp only [hout, Option.isSome_none, Bool.false_eq_true, if_false, if_true]
      have := ih (i + 1) { h with st := (checkIntArg a m i h.st).2 } hout (by omega)
      simpa [hout] using this

theorem gen_check_coupling_args (a : Args) (m : Mode) (pr : HPar) (s : St) :
    hrun h_check_coupling_args a m pr s = checkCouplingArgs a m s := by
  have e1 : hrun h_check_coupling_args a m pr s =
      hres (thenH (hloop (hexec a m pr couplingBody) [] 0 a.n (a.n - 0) 0 { st := s, iv := updI (fun _ => 0) 0 a.n, out := none })
        (fun h' => { h' with out := some true })) := rfl
  rw [e1, coupling_loop a m pr a.n (a.n - 0) 0 _ rfl (by omega)]
  unfold checkCouplingArgs
  rw [Nat.sub_zero]
  cases hr : (checkCouplingFrom a m a.n 0 s).1 <;> simp [thenH, hres, hr] <;> rw [← hr]


/-! ### check_result -/

def crS1 : HStmt := .ite .resNaN (.seq (.callErr .eval) .retZero) .skip
def crRa : HStmt := .ite (.raNaN (.var 0)) (.seq (.callErr .eval) .retZero) .skip
def crD : HStmt := .ite (.dNaN (.var 0)) (.seq (.setErr .dnan) .retZero) .skip
def crH : HStmt := .ite (.hNaN (.var 0)) (.seq (.setErr .hnan) .retZero) .skip
def crS3 : HStmt :=
  .ite (.and .derivs (.not .errSet))
    (.seq (.for_ 0 (.lit 0) .n crD)
      (.ite .hes (.seq (.setI 0 (.div (.mul .n (.add .n (.lit 1))) (.lit 2))) (.for_ 0 (.lit 0) (.loc 0) crH)) .skip))
    .skip

theorem h_check_result_eq : h_check_result =
    .seq (.setI 0 (.lit 0)) (.seq crS1 (.seq (.for_ 0 (.lit 0) .n crRa) (.seq crS3 .retRes))) := rfl

def failEval (h : HS) : HS := { h with st := { h.st.evalError with ret := some .zero }, out := some true }
def failK (k : ErrK) (h : HS) : HS := { h with st := { h.st with err := some k, ret := some .zero }, out := some true }

theorem thenH_none' {h : HS} {k : HS → HS} (ho : h.out = none) : thenH h k = k h := by
  unfold thenH; rw [ho]; rfl
theorem thenH_some' {h : HS} {k : HS → HS} (ho : h.out.isSome = true) : thenH h k = h := by
  unfold thenH; rw [if_pos ho]

theorem crRa_loop (a : Args) (m : Mode) (pr : HPar) (h : HS) (ho : h.out = none) :
    hexec a m pr (.for_ 0 (.lit 0) .n crRa) [] h = if anyBelow a.n a.raNaN then failEval h else h := by
  have key := hloop_search_all (hexec a m pr crRa) [] 0 a.n a.raNaN failEval h
    (by intro j; cases hp : a.raNaN j <;> simp [crRa, hexec, hcond, thenH, HIdx.val, Env.get, failEval, ho, hp] <;> (try (cases h; simp_all)))
    rfl ho
  exact key

theorem crD_loop (a : Args) (m : Mode) (pr : HPar) (h : HS) (ho : h.out = none) :
    hexec a m pr (.for_ 0 (.lit 0) .n crD) [] h = if anyBelow a.n h.st.d then failK .dnan h else h := by
  have key := hloop_search_all (hexec a m pr crD) [] 0 a.n h.st.d (failK .dnan) h
    (by intro j; cases hp : h.st.d j <;> simp [crD, hexec, hcond, thenH, HIdx.val, Env.get, failK, ho, hp] <;> (try (cases h; simp_all)))
    rfl ho
  exact key

theorem hesLen_cast (n : Nat) : (((n : Int) * ((n : Int) + 1)) / 2).toNat = hesLen n := by
  unfold hesLen
  have : ((n : Int) * ((n : Int) + 1)) / 2 = ((n * (n + 1) / 2 : Nat) : Int) := by
    rw [Int.natCast_ediv]; simp
  rw [this, Int.toNat_natCast]

theorem crH_loop (a : Args) (m : Mode) (pr : HPar) (h : HS) (ho : h.out = none) (hiv : h.iv 0 = ((hesLen a.n : Nat) : Int)) :
    hexec a m pr (.for_ 0 (.lit 0) (.loc 0) crH) [] h = if anyBelow (hesLen a.n) h.st.h then failK .hnan h else h := by
  have key := hloop_search_all (hexec a m pr crH) [] 0 (hesLen a.n) h.st.h (failK .hnan) h
    (by intro j; cases hp : h.st.h j <;> simp [crH, hexec, hcond, thenH, HIdx.val, Env.get, failK, ho, hp] <;> (try (cases h; simp_all)))
    rfl ho
  have e : hexec a m pr (.for_ 0 (.lit 0) (.loc 0) crH) [] h =
      hloop (hexec a m pr crH) [] 0 (h.iv 0).toNat ((h.iv 0).toNat - 0) 0 h := rfl
  rw [e, hiv, Int.toNat_natCast]
  exact key


def parRes (rnan : Bool) : HPar := { rnan := rnan }

/-- state right after `int i = 0, n = 0;` -/
def crStart (s : St) : HS := { st := s, iv := updI (fun _ => 0) 0 0, out := none }

theorem crS3_eq (a : Args) (m : Mode) (pr : HPar) (h : HS) (ho : h.out = none) :
    hexec a m pr crS3 [] h =
      if (m.derivs && h.st.err.isNone) = true then
        if anyBelow a.n h.st.d then failK .dnan h
        else if (m.hes && anyBelow (hesLen a.n) h.st.h) = true then
          failK .hnan { h with iv := updI h.iv 0 (hesLen a.n : Nat) }
        else if m.hes then { h with iv := updI h.iv 0 (hesLen a.n : Nat) } else h
      else h := by
  have hcnd : (hcond a m pr [] h.iv (.and .derivs (.not .errSet)) h.st) = ((m.derivs && h.st.err.isNone), h.st) := by
    cases hd : m.derivs <;> cases he : h.st.err <;> simp [hcond, hd, he]
  have e1 : hexec a m pr crS3 [] h =
      (if (hcond a m pr [] h.iv (.and .derivs (.not .errSet)) h.st).1 = true then
        hexec a m pr (.seq (.for_ 0 (.lit 0) .n crD)
          (.ite .hes (.seq (.setI 0 (.div (.mul .n (.add .n (.lit 1))) (.lit 2))) (.for_ 0 (.lit 0) (.loc 0) crH)) .skip)) []
          { h with st := (hcond a m pr [] h.iv (.and .derivs (.not .errSet)) h.st).2 }
       else hexec a m pr .skip [] { h with st := (hcond a m pr [] h.iv (.and .derivs (.not .errSet)) h.st).2 }) := rfl
  rw [e1, hcnd]
  have hh : ({ h with st := h.st } : HS) = h := by cases h; rfl
  simp only [hh]
  by_cases hc : (m.derivs && h.st.err.isNone) = true
  · rw [if_pos hc, if_pos hc]
    have e2 : hexec a m pr (.seq (.for_ 0 (.lit 0) .n crD)
          (.ite .hes (.seq (.setI 0 (.div (.mul .n (.add .n (.lit 1))) (.lit 2))) (.for_ 0 (.lit 0) (.loc 0) crH)) .skip)) [] h =
        thenH (hexec a m pr (.for_ 0 (.lit 0) .n crD) [] h) (fun h' =>
          hexec a m pr (.ite .hes (.seq (.setI 0 (.div (.mul .n (.add .n (.lit 1))) (.lit 2))) (.for_ 0 (.lit 0) (.loc 0) crH)) .skip) [] h') := rfl
    rw [e2, crD_loop a m pr h ho]
    by_cases hd : anyBelow a.n h.st.d = true
    · rw [if_pos hd, if_pos hd, thenH_some' rfl]
    · rw [if_neg hd, if_neg hd, thenH_none' ho]
      cases hhes : m.hes with
      | false => simp [hexec, hcond, hhes, hh]
      | true =>
        have e3 : hexec a m pr (.ite .hes (.seq (.setI 0 (.div (.mul .n (.add .n (.lit 1))) (.lit 2))) (.for_ 0 (.lit 0) (.loc 0) crH)) .skip) [] h =
            thenH ({ h with iv := updI h.iv 0 ((((a.n : Int) * ((a.n : Int) + 1)) / 2)) } : HS)
              (fun h' => hexec a m pr (.for_ 0 (.lit 0) (.loc 0) crH) [] h') := by
          simp [hexec, hcond, hhes, hh, IExp.eval]
        have hcast : (((a.n : Int) * ((a.n : Int) + 1)) / 2) = ((hesLen a.n : Nat) : Int) := by
          unfold hesLen; rw [Int.natCast_ediv]; simp
        rw [e3, hcast, thenH_none' (by exact ho), crH_loop a m pr { h with iv := updI h.iv 0 ((hesLen a.n : Nat) : Int) } ho (by simp [updI])]
        simp
  · rw [if_neg hc, if_neg hc]
    simp [hexec, hh]

theorem gen_check_result (a : Args) (m : Mode) (rnan : Bool) (s : St) :
    hrun h_check_result a m (parRes rnan) s = (true, checkResult a m rnan s) := by
  have e1 : hrun h_check_result a m (parRes rnan) s =
      hres (thenH (hexec a m (parRes rnan) crS1 [] (crStart s)) fun h1 =>
        thenH (hexec a m (parRes rnan) (.for_ 0 (.lit 0) .n crRa) [] h1) fun h2 =>
          thenH (hexec a m (parRes rnan) crS3 [] h2) fun h3 => hexec a m (parRes rnan) .retRes [] h3) := rfl
  rw [e1]
  unfold checkResult
  cases hr : rnan with
  | true =>
    simp [crS1, hexec, hcond, thenH, parRes, crStart, hres, St.evalError]
  | false =>
    have s1 : hexec a m (parRes false) crS1 [] (crStart s) = crStart s := by
      simp [crS1, hexec, hcond, parRes, crStart]
    rw [s1, thenH_none' rfl, crRa_loop a m _ _ rfl]
    by_cases hra : anyBelow a.n a.raNaN = true
    · rw [if_pos hra, thenH_some' rfl]
      simp [hra, failEval, hres, crStart, St.evalError]
    · rw [if_neg hra, thenH_none' rfl, crS3_eq a m _ _ rfl]
      simp only [Bool.false_eq_true, if_false, hra]
      by_cases hc : (m.derivs && s.err.isNone) = true
      · have hc' : (m.derivs && (crStart s).st.err.isNone) = true := hc
        rw [if_pos hc', if_pos hc]
        by_cases hd : anyBelow a.n s.d = true
        · have hd' : anyBelow a.n (crStart s).st.d = true := hd
          rw [if_pos hd', if_pos hd, thenH_some' rfl]
          simp [failK, hres, crStart]
        · have hd' : ¬ anyBelow a.n (crStart s).st.d = true := hd
          rw [if_neg hd', if_neg hd]
          by_cases hh : (m.hes && anyBelow (hesLen a.n) s.h) = true
          · have hh' : (m.hes && anyBelow (hesLen a.n) (crStart s).st.h) = true := hh
            rw [if_pos hh', if_pos hh, thenH_some' rfl]
            simp [failK, hres, crStart]
          · have hh' : ¬ (m.hes && anyBelow (hesLen a.n) (crStart s).st.h) = true := hh
            rw [if_neg hh', if_neg hh]
            cases hhes : m.hes <;> simp [thenH, hexec, hres, crStart, parRes]
      · have hc' : ¬ (m.derivs && (crStart s).st.err.isNone) = true := hc
        rw [if_neg hc', if_neg hc, thenH_none' rfl]
        simp [hexec, hres, crStart, parRes]

end MpVerif.C16

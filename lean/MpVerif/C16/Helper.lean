import MpVerif.C16.Model
/-!
# C16 — the bodies of the checker / error helpers of amplgsl.cc, as translated terms

`Model.lean` models `check_args`, `check_result`, `check_const_arg`, `check_int_arg`, `check_uint_arg`,
`check_zero_func_args`, `check_deriv_arg`, `check_bessel_args`, `check_coupling_args`, `error`, `deriv_error`,
`eval_error` by hand.  `translators/tr_gsl.py` also translates their C bodies (clang AST) into the small
language below (`MpVerif/Gen/GslHelpers.lean`, regenerated on every run); `Props.lean` proves each generated
body equal to the hand model (`C16_gen_*`), so every theorem about the hand models is a theorem about the
code as it is now, and an edit of a helper breaks a proof instead of a fingerprint.

Integers are C `int`s modelled as `Int` (the translated bodies only compare and add small constants; the
theorems that need it state the ranges).  Doubles stay abstract: `isnan(ra[i])`, "ra[i] is representable as
int / unsigned" and `isnan(derivs[i])` are the atoms the hand model already has.
-/
namespace MpVerif.C16

/-- an index: literal, the helper's unsigned parameter number p, or a loop variable -/
inductive HIdx where
  | k (n : Nat)
  | par (p : Nat)
  | var (x : Nat)
  deriving DecidableEq, Repr, Inhabited

inductive IExp where
  | lit (z : Int)
  | par (p : Nat)              -- int parameter p of the helper
  | loc (x : Nat)              -- int local x
  | n                          -- al->n
  | raInt (i : HIdx)           -- (int)al->ra[i]
  | neg (a : IExp)
  | add (a b : IExp)
  | sub (a b : IExp)
  | mul (a b : IExp)
  | div (a b : IExp)
  | ifFlag (p : Nat) (a b : IExp)   -- (flags_p & DERIV_INT_MIN) != 0 ? a : b
  deriving DecidableEq, Repr, Inhabited

/-- calls of other helpers from inside a helper (interpreted by their hand models) -/
inductive HCall where
  | constArg (i : HIdx)
  | intArg (i : HIdx)
  | uintArg (i : HIdx)
  | derivArg (arg lo hi : IExp)
  deriving DecidableEq, Repr, Inhabited

inductive HCond where
  | derivs | hes | digp
  | dig (i : HIdx)             -- al->dig[i]
  | errSet                     -- al->Errmsg
  | raNaN (i : HIdx)           -- gsl_isnan(al->ra[i])
  | dNaN (i : HIdx)            -- gsl_isnan(al->derivs[i])
  | hNaN (i : HIdx)            -- gsl_isnan(al->hes[i])
  | resNaN                     -- gsl_isnan(result)        (check_result's double parameter)
  | notIntRepr (i : HIdx)      -- !(arg >= INT_MIN && arg <= INT_MAX) || (int)arg != arg       with arg = al->ra[i]
  | notUintRepr (i : HIdx)     -- !(arg >= 0 && arg <= UINT_MAX) || (unsigned)arg != arg
  | ilt (a b : IExp)
  | igt (a b : IExp)
  | ile (a b : IExp)
  | ige (a b : IExp)
  | ieq (a b : IExp)
  | not (c : HCond)
  | and (a b : HCond)
  | or (a b : HCond)
  | call (c : HCall)
  deriving DecidableEq, Repr, Inhabited

inductive HErr where
  | eval | deriv | arg         -- eval_error(al) / deriv_error(al, …) / error(al, …)
  deriving DecidableEq, Repr, Inhabited

inductive HStmt where
  | skip
  | setErr (k : ErrK)          -- al->Errmsg = <formatted message of this kind>  (format_error / format_eval_error)
  | callErr (e : HErr)
  | setI (x : Nat) (e : IExp)  -- int local x = e
  | evalc (c : HCond)
  | ite (c : HCond) (t e : HStmt)
  | seq (a b : HStmt)
  | for_ (x : Nat) (start bound : IExp) (body : HStmt)   -- for (x = start; x < bound; ++x) body
  | retB (b : Bool)            -- return 0 / return 1
  | retVoid                    -- return;
  | retZero                    -- check_result: return 0
  | retRes                     -- check_result: return result
  deriving DecidableEq, Repr, Inhabited

/-- actual parameters of a helper call -/
structure HPar where
  ip : Nat → Int := fun _ => 0       -- int parameters
  xp : Nat → Nat := fun _ => 0       -- unsigned (index) parameters
  fp : Nat → Bool := fun _ => false  -- (flags_p & DERIV_INT_MIN) != 0
  rnan : Bool := false               -- isnan(result)

structure HS where
  st : St
  iv : Nat → Int
  out : Option Bool           -- the helper has returned (with this truth value; `true` for void / double returns)

def HIdx.val (pr : HPar) (e : Env) : HIdx → Nat
  | .k n => n
  | .par p => pr.xp p
  | .var x => e.get x

def updI (f : Nat → Int) (i : Nat) (z : Int) : Nat → Int := fun j => if j = i then z else f j

def IExp.eval (a : Args) (pr : HPar) (e : Env) (iv : Nat → Int) : IExp → Int
  | .lit z => z
  | .par p => pr.ip p
  | .loc x => iv x
  | .n => a.n
  | .raInt i => a.raInt (i.val pr e)
  | .neg x => - x.eval a pr e iv
  | .add x y => x.eval a pr e iv + y.eval a pr e iv
  | .sub x y => x.eval a pr e iv - y.eval a pr e iv
  | .mul x y => x.eval a pr e iv * y.eval a pr e iv
  | .div x y => x.eval a pr e iv / y.eval a pr e iv
  | .ifFlag p x y => if pr.fp p then x.eval a pr e iv else y.eval a pr e iv

def hcall (a : Args) (m : Mode) (pr : HPar) (e : Env) (iv : Nat → Int) (c : HCall) (s : St) : Bool × St :=
  match c with
  | .constArg i => checkConstArg a (i.val pr e) s
  | .intArg i => checkIntArg a m (i.val pr e) s
  | .uintArg i => checkUintArg a m (i.val pr e) s
  | .derivArg x lo hi => checkDerivArg (x.eval a pr e iv) (lo.eval a pr e iv) (hi.eval a pr e iv) s

def hcond (a : Args) (m : Mode) (pr : HPar) (e : Env) (iv : Nat → Int) : HCond → St → Bool × St
  | .derivs, s => (m.derivs, s)
  | .hes, s => (m.hes, s)
  | .digp, s => (a.digp, s)
  | .dig i, s => (a.dig (i.val pr e), s)
  | .errSet, s => (s.err.isSome, s)
  | .raNaN i, s => (a.raNaN (i.val pr e), s)
  | .dNaN i, s => (s.d (i.val pr e), s)
  | .hNaN i, s => (s.h (i.val pr e), s)
  | .resNaN, s => (pr.rnan, s)
  | .notIntRepr i, s => (!a.intOk (i.val pr e), s)
  | .notUintRepr i, s => (!a.uintOk (i.val pr e), s)
  | .ilt x y, s => (decide (x.eval a pr e iv < y.eval a pr e iv), s)
  | .igt x y, s => (decide (x.eval a pr e iv > y.eval a pr e iv), s)
  | .ile x y, s => (decide (x.eval a pr e iv ≤ y.eval a pr e iv), s)
  | .ige x y, s => (decide (x.eval a pr e iv ≥ y.eval a pr e iv), s)
  | .ieq x y, s => (decide (x.eval a pr e iv = y.eval a pr e iv), s)
  | .not c, s => let r := hcond a m pr e iv c s; (!r.1, r.2)
  | .and c1 c2, s =>
    let r := hcond a m pr e iv c1 s
    if r.1 then hcond a m pr e iv c2 r.2 else (false, r.2)
  | .or c1 c2, s =>
    let r := hcond a m pr e iv c1 s
    if r.1 then (true, r.2) else hcond a m pr e iv c2 r.2
  | .call c, s => hcall a m pr e iv c s

/-- nothing runs after a `return` -/
def thenH (h : HS) (k : HS → HS) : HS := if h.out.isSome then h else k h

def hloop (step : Env → HS → HS) (e : Env) (x bound : Nat) (fuel i : Nat) (h : HS) : HS :=
  match fuel with
  | 0 => h
  | f + 1 => if i < bound then thenH (step ((x, i) :: e) h) (fun h' => hloop step e x bound f (i + 1) h') else h

def hexec (a : Args) (m : Mode) (pr : HPar) : HStmt → Env → HS → HS
  | .skip, _, h => h
  | .setErr k, _, h => { h with st := { h.st with err := some k } }
  | .callErr .eval, _, h => { h with st := h.st.evalError }
  | .callErr .deriv, _, h => { h with st := h.st.derivError }
  | .callErr .arg, _, h => { h with st := h.st.argError }
  | .setI x ex, e, h => { h with iv := updI h.iv x (ex.eval a pr e h.iv) }
  | .evalc c, e, h => { h with st := (hcond a m pr e h.iv c h.st).2 }
  | .ite c t f, e, h =>
    let r := hcond a m pr e h.iv c h.st
    if r.1 then hexec a m pr t e { h with st := r.2 } else hexec a m pr f e { h with st := r.2 }
  | .seq p q, e, h => thenH (hexec a m pr p e h) (fun h' => hexec a m pr q e h')
  | .for_ x start bound body, e, h =>
    let b := (bound.eval a pr e h.iv).toNat
    let s0 := (start.eval a pr e h.iv).toNat
    hloop (hexec a m pr body) e x b (b - s0) s0 h
  | .retB b, _, h => { h with out := some b }
  | .retVoid, _, h => { h with out := some true }
  | .retZero, _, h => { h with st := { h.st with ret := some .zero }, out := some true }
  | .retRes, _, h => { h with st := { h.st with ret := some (.val pr.rnan) }, out := some true }

/-- run a helper body: (returned truth value, resulting state); falling off the end of a void helper is a plain return -/
def hrun (body : HStmt) (a : Args) (m : Mode) (pr : HPar) (s : St) : Bool × St :=
  let h := hexec a m pr body [] { st := s, iv := fun _ => 0, out := none }
  (h.out.getD true, h.st)

end MpVerif.C16

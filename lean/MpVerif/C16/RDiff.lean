import Mathlib.Analysis.SpecialFunctions.Sqrt
import Mathlib.Analysis.SpecialFunctions.Log.Deriv
import Mathlib.Analysis.SpecialFunctions.ExpDeriv
import Mathlib.Analysis.SpecialFunctions.Trigonometric.Deriv
import MpVerif.C16.RExpr
/-!
# C16 — meaning of the translated formulas over ℝ and a verified symbolic differentiator (proof-only, Mathlib)

* `specE f` : what the GSL functions occurring in the elementary bindings compute, as expressions (from the GSL
  manual; this table is the only hand-written mathematical input — amplgsl.cc does not contain it).
* `inline`  : replaces calls by these bodies;  `eval` : meaning of a call-free expression;  `evalT = eval ∘ inline`.
* `diff i`  : symbolic partial derivative;  `Ok env e` : the side conditions (non-zero denominators, arguments of
  log / sqrt, a strict `!=` test);  `hasDerivAt_diff` : soundness, by induction on the expression.
-/
namespace MpVerif.C16
open RExpr

/-- substitute the k-th element of `σ` for `arg k` -/
def RExpr.subst (σ : List RExpr) : RExpr → RExpr
  | .arg i => σ.getD i (.lit 0 1)
  | .lit n d => .lit n d
  | .neg a => .neg (a.subst σ)
  | .add a b => .add (a.subst σ) (b.subst σ)
  | .sub a b => .sub (a.subst σ) (b.subst σ)
  | .mul a b => .mul (a.subst σ) (b.subst σ)
  | .div a b => .div (a.subst σ) (b.subst σ)
  | .sqrt a => .sqrt (a.subst σ)
  | .exp a => .exp (a.subst σ)
  | .log a => .log (a.subst σ)
  | .sin a => .sin (a.subst σ)
  | .cos a => .cos (a.subst σ)
  | .ifNe a b t e => .ifNe (a.subst σ) (b.subst σ) (t.subst σ) (e.subst σ)
  | .call1 f a => .call1 f (a.subst σ)
  | .call2 f a b => .call2 f (a.subst σ) (b.subst σ)
  | .call3 f a b c => .call3 f (a.subst σ) (b.subst σ) (c.subst σ)

abbrev X : RExpr := .arg 0
abbrev Y : RExpr := .arg 1
abbrev Z : RExpr := .arg 2
abbrev q (n : Int) (d : Nat := 1) : RExpr := .lit n d
abbrev sq (a : RExpr) : RExpr := .mul a a

/-- the GSL functions of the elementary bindings as expressions in their own arguments (GSL reference manual) -/
def specE : String → Option RExpr
  | "gsl_pow_2" => some (sq X)
  | "gsl_pow_3" => some (.mul (sq X) X)
  | "gsl_pow_4" => some (sq (sq X))
  | "gsl_pow_5" => some (.mul (sq (sq X)) X)
  | "gsl_log1p" => some (.log (.add (q 1) X))
  | "gsl_expm1" => some (.sub (.exp X) (q 1))
  | "gsl_hypot" => some (.sqrt (.add (sq X) (sq Y)))
  | "gsl_hypot3" => some (.sqrt (.add (.add (sq X) (sq Y)) (sq Z)))
  | "gsl_sf_log" => some (.log X)
  | "gsl_sf_log_abs" => some (.log X)                       -- Mathlib's Real.log is log |x|
  | "gsl_sf_log_1plusx" => some (.log (.add (q 1) X))
  | "gsl_sf_log_1plusx_mx" => some (.sub (.log (.add (q 1) X)) X)
  | "gsl_sf_legendre_P1" => some X
  | "gsl_sf_legendre_P2" => some (.div (.sub (.mul (q 3) (sq X)) (q 1)) (q 2))
  | "gsl_sf_legendre_P3" => some (.div (.sub (.mul (q 5) (.mul (sq X) X)) (.mul (q 3) X)) (q 2))
  -- Gegenbauer C_n^λ(x), arguments (λ, x)
  | "gsl_sf_gegenpoly_1" => some (.mul (.mul (q 2) X) Y)
  | "gsl_sf_gegenpoly_2" => some (.sub (.mul (.mul (.mul (q 2) X) (.add (q 1) X)) (sq Y)) X)
  | "gsl_sf_gegenpoly_3" =>
      some (.mul Y (.add (.mul (.mul (q (-2)) X) (.add (q 1) X))
                         (.mul (.mul (.mul (.mul (q 4 3) X) (.add (q 1) X)) (.add (q 2) X)) (sq Y))))
  -- generalized Laguerre L_n^a(x), arguments (a, x)
  | "gsl_sf_laguerre_1" => some (.sub (.add (q 1) X) Y)
  | "gsl_sf_laguerre_2" =>
      some (.add (.sub (.div (.mul (.add X (q 1)) (.add X (q 2))) (q 2)) (.mul (.add X (q 2)) Y)) (.div (sq Y) (q 2)))
  | "gsl_sf_laguerre_3" =>
      some (.sub (.add (.sub (.div (.mul (.mul (.add X (q 1)) (.add X (q 2))) (.add X (q 3))) (q 6))
                             (.div (.mul (.mul (.add X (q 2)) (.add X (q 3))) Y) (q 2)))
                       (.div (.mul (.add X (q 3)) (sq Y)) (q 2)))
                 (.div (.mul (sq Y) Y) (q 6)))
  | "gsl_sf_fermi_dirac_m1" => some (.div (.exp X) (.add (q 1) (.exp X)))
  | "gsl_sf_fermi_dirac_0" => some (.log (.add (q 1) (.exp X)))
  | "gsl_sf_bessel_j0" => some (.div (.sin X) X)
  | "gsl_sf_bessel_y0" => some (.neg (.div (.cos X) X))
  | _ => none

/-- replace calls of known GSL functions by their bodies (unknown ones stay and make `Ok` false) -/
def RExpr.inline : RExpr → RExpr
  | .arg i => .arg i
  | .lit n d => .lit n d
  | .neg a => .neg a.inline
  | .add a b => .add a.inline b.inline
  | .sub a b => .sub a.inline b.inline
  | .mul a b => .mul a.inline b.inline
  | .div a b => .div a.inline b.inline
  | .sqrt a => .sqrt a.inline
  | .exp a => .exp a.inline
  | .log a => .log a.inline
  | .sin a => .sin a.inline
  | .cos a => .cos a.inline
  | .ifNe a b t e => .ifNe a.inline b.inline t.inline e.inline
  | .call1 f a => match specE f with
    | some body => body.subst [a.inline]
    | none => .call1 f a.inline
  | .call2 f a b => match specE f with
    | some body => body.subst [a.inline, b.inline]
    | none => .call2 f a.inline b.inline
  | .call3 f a b c => match specE f with
    | some body => body.subst [a.inline, b.inline, c.inline]
    | none => .call3 f a.inline b.inline c.inline

/-- the classical derivative identities of the GSL special functions that stay SYMBOLS (one real argument `X`; a literal
order is part of the name: `gsl_sf_bessel_Jn#2` is J₂).  `dsym f = some e` reads "f′(X) = e".  These are the NAMED HYPOTHESES
(`Ident`) of the conditional theorems in DerivGen.lean; nothing here is proved about GSL or about Bessel functions. -/
def dsym : String → Option RExpr
  | "gsl_sf_bessel_J0" => some (.neg (.call1 "gsl_sf_bessel_J1" X))
  | "gsl_sf_bessel_J1" => some (.div (.sub (.call1 "gsl_sf_bessel_J0" X) (.call1 "gsl_sf_bessel_Jn#2" X)) (q 2))
  | "gsl_sf_bessel_Jn#2" => some (.div (.sub (.call1 "gsl_sf_bessel_J1" X) (.call1 "gsl_sf_bessel_Jn#3" X)) (q 2))
  | "gsl_sf_bessel_Y0" => some (.neg (.call1 "gsl_sf_bessel_Y1" X))
  | "gsl_sf_bessel_Y1" => some (.div (.sub (.call1 "gsl_sf_bessel_Y0" X) (.call1 "gsl_sf_bessel_Yn#2" X)) (q 2))
  | "gsl_sf_bessel_Yn#2" => some (.div (.sub (.call1 "gsl_sf_bessel_Y1" X) (.call1 "gsl_sf_bessel_Yn#3" X)) (q 2))
  | "gsl_sf_bessel_I0" => some (.call1 "gsl_sf_bessel_I1" X)
  | "gsl_sf_bessel_I1" => some (.div (.add (.call1 "gsl_sf_bessel_I0" X) (.call1 "gsl_sf_bessel_In#2" X)) (q 2))
  | "gsl_sf_bessel_In#2" => some (.div (.add (.call1 "gsl_sf_bessel_I1" X) (.call1 "gsl_sf_bessel_In#3" X)) (q 2))
  | "gsl_sf_bessel_K0" => some (.neg (.call1 "gsl_sf_bessel_K1" X))
  | "gsl_sf_bessel_K1" => some (.neg (.div (.add (.call1 "gsl_sf_bessel_K0" X) (.call1 "gsl_sf_bessel_Kn#2" X)) (q 2)))
  | "gsl_sf_bessel_Kn#2" => some (.neg (.div (.add (.call1 "gsl_sf_bessel_K1" X) (.call1 "gsl_sf_bessel_Kn#3" X)) (q 2)))
  -- scaled: e^x K_n(x)
  | "gsl_sf_bessel_K0_scaled" => some (.sub (.call1 "gsl_sf_bessel_K0_scaled" X) (.call1 "gsl_sf_bessel_K1_scaled" X))
  | "gsl_sf_bessel_K1_scaled" =>
      some (.sub (.call1 "gsl_sf_bessel_K1_scaled" X) (.div (.add (.call1 "gsl_sf_bessel_K0_scaled" X) (.call1 "gsl_sf_bessel_Kn_scaled#2" X)) (q 2)))
  | "gsl_sf_bessel_Kn_scaled#2" =>
      some (.sub (.call1 "gsl_sf_bessel_Kn_scaled#2" X) (.div (.add (.call1 "gsl_sf_bessel_K1_scaled" X) (.call1 "gsl_sf_bessel_Kn_scaled#3" X)) (q 2)))
  | "gsl_sf_airy_Ai" => some (.call1 "gsl_sf_airy_Ai_deriv" X)
  | "gsl_sf_airy_Ai_deriv" => some (.mul X (.call1 "gsl_sf_airy_Ai" X))          -- Ai″ = x Ai
  | "gsl_sf_airy_Bi" => some (.call1 "gsl_sf_airy_Bi_deriv" X)
  | "gsl_sf_airy_Bi_deriv" => some (.mul X (.call1 "gsl_sf_airy_Bi" X))
  | "gsl_sf_dawson" => some (.sub (q 1) (.mul (.mul (q 2) X) (.call1 "gsl_sf_dawson" X)))   -- F′ = 1 − 2xF
  | "gsl_sf_erf_Z" => some (.neg (.mul X (.call1 "gsl_sf_erf_Z" X)))                          -- Z′ = −xZ
  | "gsl_sf_erf_Q" => some (.neg (.call1 "gsl_sf_erf_Z" X))                                   -- Q′ = −Z
  | "gsl_sf_hazard" => some (.mul (.sub (.call1 "gsl_sf_hazard" X) X) (.call1 "gsl_sf_hazard" X))   -- h′ = (h − x)h
  | "gsl_sf_expint_E1" => some (.neg (.div (.exp (.neg X)) X))
  | "gsl_sf_expint_E2" => some (.neg (.call1 "gsl_sf_expint_E1" X))
  | "gsl_sf_expint_Ei" => some (.div (.exp X) X)
  | "gsl_sf_Si" => some (.div (.sin X) X)
  | "gsl_sf_Ci" => some (.div (.cos X) X)
  | "gsl_sf_expint_3" => some (.exp (.neg (.mul (sq X) X)))
  | "gsl_sf_fermi_dirac_1" => some (.log (.add (q 1) (.exp X)))                                -- F₁′ = F₀
  | "gsl_sf_fermi_dirac_2" => some (.call1 "gsl_sf_fermi_dirac_1" X)
  | "gsl_sf_fermi_dirac_3half" => some (.call1 "gsl_sf_fermi_dirac_half" X)
  | "gsl_sf_fermi_dirac_half" => some (.call1 "gsl_sf_fermi_dirac_mhalf" X)
  | "gsl_sf_gamma" => some (.mul (.call1 "gsl_sf_gamma" X) (.call1 "gsl_sf_psi" X))          -- Γ′ = Γψ
  | "gsl_sf_psi" => some (.call1 "gsl_sf_psi_1" X)
  | "gsl_sf_psi_1" => some (.call1 "gsl_sf_psi_n#2" X)
  | "gsl_sf_psi_n#2" => some (.call1 "gsl_sf_psi_n#3" X)
  -- order-parameter families (round 8): `f@k` is f of order (order + k); C_ν′ = (C_{ν−1} − C_{ν+1})/2 for J, Y; I_ν′ = (I_{ν−1} + I_{ν+1})/2;
  -- K_ν′ = −(K_{ν−1} + K_{ν+1})/2; scaled e^x K_ν: f′ = f − (f_{ν−1} + f_{ν+1})/2; Fermi–Dirac F_j′ = F_{j−1}
  | "gsl_sf_bessel_Jn@-1" => some (.div (.sub (.call1 "gsl_sf_bessel_Jn@-2" X) (.call1 "gsl_sf_bessel_Jn@0" X)) (q 2))
  | "gsl_sf_bessel_Jn@0" => some (.div (.sub (.call1 "gsl_sf_bessel_Jn@-1" X) (.call1 "gsl_sf_bessel_Jn@1" X)) (q 2))
  | "gsl_sf_bessel_Jn@1" => some (.div (.sub (.call1 "gsl_sf_bessel_Jn@0" X) (.call1 "gsl_sf_bessel_Jn@2" X)) (q 2))
  | "gsl_sf_bessel_Yn@-1" => some (.div (.sub (.call1 "gsl_sf_bessel_Yn@-2" X) (.call1 "gsl_sf_bessel_Yn@0" X)) (q 2))
  | "gsl_sf_bessel_Yn@0" => some (.div (.sub (.call1 "gsl_sf_bessel_Yn@-1" X) (.call1 "gsl_sf_bessel_Yn@1" X)) (q 2))
  | "gsl_sf_bessel_Yn@1" => some (.div (.sub (.call1 "gsl_sf_bessel_Yn@0" X) (.call1 "gsl_sf_bessel_Yn@2" X)) (q 2))
  | "gsl_sf_bessel_Jnu@-1" => some (.div (.sub (.call1 "gsl_sf_bessel_Jnu@-2" X) (.call1 "gsl_sf_bessel_Jnu@0" X)) (q 2))
  | "gsl_sf_bessel_Jnu@0" => some (.div (.sub (.call1 "gsl_sf_bessel_Jnu@-1" X) (.call1 "gsl_sf_bessel_Jnu@1" X)) (q 2))
  | "gsl_sf_bessel_Jnu@1" => some (.div (.sub (.call1 "gsl_sf_bessel_Jnu@0" X) (.call1 "gsl_sf_bessel_Jnu@2" X)) (q 2))
  | "gsl_sf_bessel_Ynu@-1" => some (.div (.sub (.call1 "gsl_sf_bessel_Ynu@-2" X) (.call1 "gsl_sf_bessel_Ynu@0" X)) (q 2))
  | "gsl_sf_bessel_Ynu@0" => some (.div (.sub (.call1 "gsl_sf_bessel_Ynu@-1" X) (.call1 "gsl_sf_bessel_Ynu@1" X)) (q 2))
  | "gsl_sf_bessel_Ynu@1" => some (.div (.sub (.call1 "gsl_sf_bessel_Ynu@0" X) (.call1 "gsl_sf_bessel_Ynu@2" X)) (q 2))
  | "gsl_sf_bessel_In@-1" => some (.div (.add (.call1 "gsl_sf_bessel_In@-2" X) (.call1 "gsl_sf_bessel_In@0" X)) (q 2))
  | "gsl_sf_bessel_In@0" => some (.div (.add (.call1 "gsl_sf_bessel_In@-1" X) (.call1 "gsl_sf_bessel_In@1" X)) (q 2))
  | "gsl_sf_bessel_In@1" => some (.div (.add (.call1 "gsl_sf_bessel_In@0" X) (.call1 "gsl_sf_bessel_In@2" X)) (q 2))
  | "gsl_sf_bessel_Inu@-1" => some (.div (.add (.call1 "gsl_sf_bessel_Inu@-2" X) (.call1 "gsl_sf_bessel_Inu@0" X)) (q 2))
  | "gsl_sf_bessel_Inu@0" => some (.div (.add (.call1 "gsl_sf_bessel_Inu@-1" X) (.call1 "gsl_sf_bessel_Inu@1" X)) (q 2))
  | "gsl_sf_bessel_Inu@1" => some (.div (.add (.call1 "gsl_sf_bessel_Inu@0" X) (.call1 "gsl_sf_bessel_Inu@2" X)) (q 2))
  | "gsl_sf_bessel_Kn@-1" => some (.neg (.div (.add (.call1 "gsl_sf_bessel_Kn@-2" X) (.call1 "gsl_sf_bessel_Kn@0" X)) (q 2)))
  | "gsl_sf_bessel_Kn@0" => some (.neg (.div (.add (.call1 "gsl_sf_bessel_Kn@-1" X) (.call1 "gsl_sf_bessel_Kn@1" X)) (q 2)))
  | "gsl_sf_bessel_Kn@1" => some (.neg (.div (.add (.call1 "gsl_sf_bessel_Kn@0" X) (.call1 "gsl_sf_bessel_Kn@2" X)) (q 2)))
  | "gsl_sf_bessel_Knu@-1" => some (.neg (.div (.add (.call1 "gsl_sf_bessel_Knu@-2" X) (.call1 "gsl_sf_bessel_Knu@0" X)) (q 2)))
  | "gsl_sf_bessel_Knu@0" => some (.neg (.div (.add (.call1 "gsl_sf_bessel_Knu@-1" X) (.call1 "gsl_sf_bessel_Knu@1" X)) (q 2)))
  | "gsl_sf_bessel_Knu@1" => some (.neg (.div (.add (.call1 "gsl_sf_bessel_Knu@0" X) (.call1 "gsl_sf_bessel_Knu@2" X)) (q 2)))
  | "gsl_sf_bessel_Kn_scaled@-1" => some (.sub (.call1 "gsl_sf_bessel_Kn_scaled@-1" X) (.div (.add (.call1 "gsl_sf_bessel_Kn_scaled@-2" X) (.call1 "gsl_sf_bessel_Kn_scaled@0" X)) (q 2)))
  | "gsl_sf_bessel_Kn_scaled@0" => some (.sub (.call1 "gsl_sf_bessel_Kn_scaled@0" X) (.div (.add (.call1 "gsl_sf_bessel_Kn_scaled@-1" X) (.call1 "gsl_sf_bessel_Kn_scaled@1" X)) (q 2)))
  | "gsl_sf_bessel_Kn_scaled@1" => some (.sub (.call1 "gsl_sf_bessel_Kn_scaled@1" X) (.div (.add (.call1 "gsl_sf_bessel_Kn_scaled@0" X) (.call1 "gsl_sf_bessel_Kn_scaled@2" X)) (q 2)))
  | "gsl_sf_bessel_Knu_scaled@-1" => some (.sub (.call1 "gsl_sf_bessel_Knu_scaled@-1" X) (.div (.add (.call1 "gsl_sf_bessel_Knu_scaled@-2" X) (.call1 "gsl_sf_bessel_Knu_scaled@0" X)) (q 2)))
  | "gsl_sf_bessel_Knu_scaled@0" => some (.sub (.call1 "gsl_sf_bessel_Knu_scaled@0" X) (.div (.add (.call1 "gsl_sf_bessel_Knu_scaled@-1" X) (.call1 "gsl_sf_bessel_Knu_scaled@1" X)) (q 2)))
  | "gsl_sf_bessel_Knu_scaled@1" => some (.sub (.call1 "gsl_sf_bessel_Knu_scaled@1" X) (.div (.add (.call1 "gsl_sf_bessel_Knu_scaled@0" X) (.call1 "gsl_sf_bessel_Knu_scaled@2" X)) (q 2)))
  | "gsl_sf_fermi_dirac_int@0" => some (.call1 "gsl_sf_fermi_dirac_int@-1" X)
  | "gsl_sf_fermi_dirac_int@-1" => some (.call1 "gsl_sf_fermi_dirac_int@-2" X)
  | "gsl_cdf_ugaussian_P" => some (.call1 "gsl_ran_ugaussian_pdf" X)
  | "gsl_ran_ugaussian_pdf" => some (.neg (.mul X (.call1 "gsl_ran_ugaussian_pdf" X)))       -- φ′ = −xφ
  | _ => none

def dsymE (f : String) : RExpr := (dsym f).getD (.lit 0 1)

/-- meaning over ℝ under an interpretation `I` of the symbols (calls of two / three arguments that survived `inline`
have no meaning: 0, and `Ok` rejects them) -/
noncomputable def eval (I : String → ℝ → ℝ) (env : Nat → ℝ) : RExpr → ℝ
  | .arg i => env i
  | .lit n d => (n : ℝ) / (d : ℝ)
  | .neg a => - eval I env a
  | .add a b => eval I env a + eval I env b
  | .sub a b => eval I env a - eval I env b
  | .mul a b => eval I env a * eval I env b
  | .div a b => eval I env a / eval I env b
  | .sqrt a => Real.sqrt (eval I env a)
  | .exp a => Real.exp (eval I env a)
  | .log a => Real.log (eval I env a)
  | .sin a => Real.sin (eval I env a)
  | .cos a => Real.cos (eval I env a)
  | .ifNe a b t e => if eval I env a ≠ eval I env b then eval I env t else eval I env e
  | .call1 f a => I f (eval I env a)
  | .call2 _ _ _ => 0
  | .call3 _ _ _ _ => 0

/-- meaning of a translated expression -/
noncomputable def evalT (I : String → ℝ → ℝ) (env : Nat → ℝ) (e : RExpr) : ℝ := eval I env e.inline

/-- symbolic partial derivative w.r.t. argument i -/
def diff (i : Nat) : RExpr → RExpr
  | .arg j => if j = i then .lit 1 1 else .lit 0 1
  | .lit _ _ => .lit 0 1
  | .neg a => .neg (diff i a)
  | .add a b => .add (diff i a) (diff i b)
  | .sub a b => .sub (diff i a) (diff i b)
  | .mul a b => .add (.mul (diff i a) b) (.mul a (diff i b))
  | .div a b => .div (.sub (.mul (diff i a) b) (.mul a (diff i b))) (.mul b b)
  | .sqrt a => .div (diff i a) (.mul (.lit 2 1) (.sqrt a))
  | .exp a => .mul (.exp a) (diff i a)
  | .log a => .div (diff i a) a
  | .sin a => .mul (.cos a) (diff i a)
  | .cos a => .neg (.mul (.sin a) (diff i a))
  | .ifNe a b t e => .ifNe a b (diff i t) (diff i e)
  | .call1 f a => .mul ((dsymE f).subst [a]) (diff i a)      -- chain rule with the identity of f
  | .call2 _ _ _ => .lit 0 1
  | .call3 _ _ _ _ => .lit 0 1

/-- the argument vector with first component x (the symbols have one argument) -/
def env1 (x : ℝ) : Nat → ℝ := fun k => if k = 0 then x else 0

/-- **named hypothesis**: the derivative identity `dsym f` of the symbol f holds at x under the interpretation I -/
def Ident (I : String → ℝ → ℝ) (f : String) (x : ℝ) : Prop := HasDerivAt (I f) (eval I (env1 x) (dsymE f)) x

/-- side conditions under which `diff` is the derivative at `env` -/
def Ok (I : String → ℝ → ℝ) (env : Nat → ℝ) : RExpr → Prop
  | .arg _ => True
  | .lit _ _ => True
  | .neg a => Ok I env a
  | .add a b => Ok I env a ∧ Ok I env b
  | .sub a b => Ok I env a ∧ Ok I env b
  | .mul a b => Ok I env a ∧ Ok I env b
  | .div a b => Ok I env a ∧ Ok I env b ∧ eval I env b ≠ 0
  | .sqrt a => Ok I env a ∧ eval I env a ≠ 0
  | .exp a => Ok I env a
  | .log a => Ok I env a ∧ eval I env a ≠ 0
  | .sin a => Ok I env a
  | .cos a => Ok I env a
  | .ifNe a b t _ => Ok I env a ∧ Ok I env b ∧ eval I env a ≠ eval I env b ∧ Ok I env t
  | .call1 f a => Ok I env a ∧ (dsym f).isSome = true ∧ Ident I f (eval I env a)
  | .call2 _ _ _ => False
  | .call3 _ _ _ _ => False

theorem eval_subst (I : String → ℝ → ℝ) (env : Nat → ℝ) (σ : List RExpr) (e : RExpr) :
    eval I env (e.subst σ) = eval I (fun k => eval I env (σ.getD k (.lit 0 1))) e := by
  induction e with
  | arg i => simp [RExpr.subst, eval]
  | lit n d => simp [RExpr.subst, eval]
  | neg a iha => simp [RExpr.subst, eval, iha]
  | add a b iha ihb => simp [RExpr.subst, eval, iha, ihb]
  | sub a b iha ihb => simp [RExpr.subst, eval, iha, ihb]
  | mul a b iha ihb => simp [RExpr.subst, eval, iha, ihb]
  | div a b iha ihb => simp [RExpr.subst, eval, iha, ihb]
  | sqrt a iha => simp [RExpr.subst, eval, iha]
  | exp a iha => simp [RExpr.subst, eval, iha]
  | log a iha => simp [RExpr.subst, eval, iha]
  | sin a iha => simp [RExpr.subst, eval, iha]
  | cos a iha => simp [RExpr.subst, eval, iha]
  | ifNe a b t e iha ihb iht ihe => simp [RExpr.subst, eval, iha, ihb, iht, ihe]
  | call1 f a iha => simp [RExpr.subst, eval, iha]
  | call2 f a b _ _ => simp [RExpr.subst, eval]
  | call3 f a b c _ _ _ => simp [RExpr.subst, eval]

theorem env_subst1 (I : String → ℝ → ℝ) (env : Nat → ℝ) (a : RExpr) :
    (fun k => eval I env ([a].getD k (.lit 0 1))) = env1 (eval I env a) := by
  funext k
  cases k with
  | zero => simp [env1]
  | succ j => simp [env1, eval]

/-- **soundness of the differentiator** -/
theorem hasDerivAt_diff (I : String → ℝ → ℝ) (i : Nat) (env : Nat → ℝ) (x0 : ℝ) (e : RExpr) :
    Ok I (Function.update env i x0) e →
      HasDerivAt (fun t => eval I (Function.update env i t) e) (eval I (Function.update env i x0) (diff i e)) x0 := by
  induction e with
  | arg j =>
    intro _
    by_cases h : j = i
    · subst h
      simp only [eval, diff, if_true, Function.update_self]
      have := hasDerivAt_id' x0
      refine this.congr_deriv ?_
      simp
    · simp only [eval, diff, if_neg h, Function.update_of_ne h]
      simpa using hasDerivAt_const x0 (env j)
  | lit n d => intro _; simpa [eval, diff] using hasDerivAt_const x0 ((n : ℝ) / (d : ℝ))
  | neg a iha => intro h; exact (iha h).neg
  | add a b iha ihb => intro h; exact (iha h.1).add (ihb h.2)
  | sub a b iha ihb => intro h; exact (iha h.1).sub (ihb h.2)
  | mul a b iha ihb => intro h; exact (iha h.1).mul (ihb h.2)
  | div a b iha ihb =>
    intro h
    have := (iha h.1).div (ihb h.2.1) h.2.2
    refine this.congr_deriv ?_
    simp only [eval, diff, pow_two]
  | sqrt a iha =>
    intro h
    have := (iha h.1).sqrt h.2
    refine this.congr_deriv ?_
    simp only [eval, diff]; norm_num
  | exp a iha => intro h; exact (iha h).exp
  | log a iha => intro h; exact (iha h.1).log h.2
  | sin a iha => intro h; exact (iha h).sin
  | cos a iha =>
    intro h
    have := (iha h).cos
    refine this.congr_deriv ?_
    simp only [eval, diff]; ring
  | ifNe a b tE eE iha ihb iht _ =>
    intro h
    obtain ⟨ha, hb, hne, ht⟩ := h
    have hc : ContinuousAt (fun t => eval I (Function.update env i t) a - eval I (Function.update env i t) b) x0 :=
      ((iha ha).continuousAt).sub ((ihb hb).continuousAt)
    have hne0 : (fun t => eval I (Function.update env i t) a - eval I (Function.update env i t) b) x0 ≠ 0 := sub_ne_zero.mpr hne
    have hev := hc.eventually_ne hne0
    have heq : (fun t => eval I (Function.update env i t) (.ifNe a b tE eE)) =ᶠ[nhds x0] (fun t => eval I (Function.update env i t) tE) := by
      filter_upwards [hev] with t ht'
      have : eval I (Function.update env i t) a ≠ eval I (Function.update env i t) b := sub_ne_zero.mp ht'
      simp only [eval, this, ne_eq, not_false_eq_true, if_true]
    have hd := (iht ht).congr_of_eventuallyEq heq
    simpa only [eval, diff, hne, ne_eq, not_false_eq_true, if_true] using hd
  | call1 f a iha =>
    intro h
    obtain ⟨ha, _, hid⟩ := h
    have hA := iha ha
    have hf : HasDerivAt (I f) (eval I (Function.update env i x0) ((dsymE f).subst [a])) (eval I (Function.update env i x0) a) := by
      rw [eval_subst, env_subst1]; exact hid
    have := HasDerivAt.comp x0 hf hA
    refine this.congr_deriv ?_
    simp only [eval, diff]
  | call2 f a b _ _ => intro h; exact h.elim
  | call3 f a b c _ _ _ => intro h; exact h.elim

end MpVerif.C16

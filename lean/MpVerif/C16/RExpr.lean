/-!
# C16 — real-valued expressions of the derivative formulas in amplgsl.cc (syntax only, core Lean)

`translators/tr_gsl_formulas.py` translates, for the bindings whose value is an elementary closed form, the C
expressions stored into `al->derivs[i]` / `al->hes[k]` (locals inlined) and the expression handed to
`check_result` into terms of this type (`MpVerif/Gen/GslFormulas.lean`, regenerated on every run).  Their
meaning over ℝ and the derivative theorems are in the Mathlib files `RDiff.lean` / `DerivGen.lean`.
-/
namespace MpVerif.C16

inductive RExpr where
  | arg (i : Nat)                       -- al->ra[i]
  | lit (n : Int) (d : Nat)             -- the literal n/d (C integer and decimal floating literals are exact rationals)
  | neg (a : RExpr)
  | add (a b : RExpr)
  | sub (a b : RExpr)
  | mul (a b : RExpr)
  | div (a b : RExpr)
  | sqrt (a : RExpr)
  | exp (a : RExpr)
  | log (a : RExpr)
  | sin (a : RExpr)
  | cos (a : RExpr)
  | ifNe (a b t e : RExpr)              -- a != b ? t : e
  | call1 (f : String) (a : RExpr)      -- a GSL function of one / two / three real arguments
  | call2 (f : String) (a b : RExpr)
  | call3 (f : String) (a b c : RExpr)
  deriving DecidableEq, Repr, Inhabited

/-- what the translator extracts for one binding -/
structure Formulas where
  name : String                 -- AMPL name
  nargs : Nat
  value : RExpr                 -- the expression handed to check_result
  derivs : List RExpr           -- what is stored into derivs[0..n)
  hes : List RExpr              -- what is stored into hes[0..n(n+1)/2), in the order of the indices used by the binding
  deriving Repr

end MpVerif.C16

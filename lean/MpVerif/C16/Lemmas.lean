import MpVerif.C16.Analysis
/-!
# C16 — soundness of the discipline analysis (helper lemmas)
-/
namespace MpVerif.C16

/-! ### small facts -/

theorem anyBelow_false {n : Nat} {p : Nat → Bool} (h : anyBelow n p = false) : ∀ i, i < n → p i = false := by
  induction n with
  | zero => intro i hi; omega
  | succ k ih =>
    intro i hi
    simp only [anyBelow, Bool.or_eq_false_iff] at h
    by_cases hik : i = k
    · subst hik; exact h.1
    · exact ih h.2 i (by omega)

theorem anyBelow_true {n : Nat} {p : Nat → Bool} {i : Nat} (hi : i < n) (hp : p i = true) : anyBelow n p = true := by
  induction n with
  | zero => omega
  | succ k ih =>
    simp only [anyBelow, Bool.or_eq_true]
    by_cases hik : i = k
    · subst hik; exact Or.inl hp
    · exact Or.inr (ih (by omega))

theorem allBelow_true {n : Nat} {p : Nat → Bool} (h : allBelow n p = true) : ∀ i, i < n → p i = true := by
  intro i hi
  unfold allBelow at h
  have h' : anyBelow n (fun i => !p i) = false := by simpa using h
  have := anyBelow_false h' i hi
  simpa using this

def tri (k : Nat) : Nat := k * (k + 1) / 2

theorem tri_succ (k : Nat) : tri (k + 1) = tri k + (k + 1) := by
  unfold tri
  have h : (k + 1) * (k + 1 + 1) = k * (k + 1) + 2 * (k + 1) := by
    simp only [Nat.add_mul, Nat.mul_add]; omega
  rw [h, Nat.add_mul_div_left _ _ (by decide : 0 < 2)]

theorem tri_mono {a b : Nat} (h : a ≤ b) : tri a ≤ tri b := by
  induction b with
  | zero => have : a = 0 := by omega
            subst this; exact Nat.le_refl _
  | succ k ih =>
    by_cases hab : a = k + 1
    · subst hab; exact Nat.le_refl _
    · have := ih (by omega); rw [tri_succ]; omega

theorem hesIdx_lt {i j n : Nat} (hij : i ≤ j) (hj : j < n) : hesIdx i j < hesLen n := by
  have h1 : hesIdx i j = i + tri j := rfl
  have h2 : hesLen n = tri n := rfl
  have h3 : tri (j + 1) ≤ tri n := tri_mono (by omega)
  rw [tri_succ] at h3
  omega

/-! ### the simulation relation -/

/-- what the abstract point promises about the written slots of a concrete state -/
structure Facts (p : APt) (c : St) : Prop where
  wd : ∀ i, p.wd i = true → c.wd i = true
  wh : ∀ i, p.wh i = true → c.wh i = true

structure Rel (p : APt) (c : St) : Prop where
  err : p.errDef = true → c.err.isSome = true
  lb : ∀ x b, p.lb x = some b → c.lb x = b
  facts : c.err.isSome = true ∨ Facts p c

/-- a step that can only set/keep the error and advance oracle counters -/
structure ErrMono (c c' : St) : Prop where
  wd : c'.wd = c.wd
  wh : c'.wh = c.wh
  lb : c'.lb = c.lb
  ret : c'.ret = c.ret
  d : c'.d = c.d
  h : c'.h = c.h
  gf : c'.gf = c.gf
  err : c.err.isSome = true → c'.err.isSome = true

theorem ErrMono.refl (c : St) : ErrMono c c := ⟨rfl, rfl, rfl, rfl, rfl, rfl, rfl, id⟩

theorem ErrMono.trans {a b c : St} (h1 : ErrMono a b) (h2 : ErrMono b c) : ErrMono a c :=
  ⟨h2.wd.trans h1.wd, h2.wh.trans h1.wh, h2.lb.trans h1.lb, h2.ret.trans h1.ret, h2.d.trans h1.d, h2.h.trans h1.h, h2.gf.trans h1.gf,
   fun h => h2.err (h1.err h)⟩

theorem Rel.mono {p : APt} {c c' : St} (r : Rel p c) (m : ErrMono c c') : Rel p c' := by
  refine ⟨fun h => m.err (r.err h), ?_, ?_⟩
  · intro x b hx; rw [m.lb]; exact r.lb x b hx
  · cases r.facts with
    | inl h => exact Or.inl (m.err h)
    | inr f =>
      refine Or.inr ⟨?_, ?_⟩
      · intro i hi; rw [m.wd]; exact f.wd i hi
      · intro i hi; rw [m.wh]; exact f.wh i hi

theorem Rel.setErr {p : APt} {c c' : St} (r : Rel p c) (m : ErrMono c c') (he : c'.err.isSome = true) : Rel p.setErr c' :=
  ⟨fun _ => he, fun x b hx => by rw [m.lb]; exact r.lb x b hx, Or.inl he⟩

theorem rel_join_left {p q : APt} {c : St} (r : Rel p c) : Rel (joinPt p q) c := by
  refine ⟨?_, ?_, ?_⟩
  · intro h
    have h' : (p.errDef && q.errDef) = true := h
    rw [Bool.and_eq_true] at h'
    exact r.err h'.1
  · intro x b hx
    have hx' : (if p.lb x = q.lb x then p.lb x else none) = some b := hx
    split at hx'
    · exact r.lb x b hx'
    · cases hx'
  · by_cases he : c.err.isSome = true
    · exact Or.inl he
    · have hpe : p.errDef = false := by
        cases hp : p.errDef with
        | false => rfl
        | true => exact absurd (r.err hp) he
      cases r.facts with
      | inl h => exact absurd h he
      | inr f =>
        refine Or.inr ⟨?_, ?_⟩
        · intro i hi
          have hi' : ((p.errDef || p.wd i) && (q.errDef || q.wd i)) = true := hi
          rw [Bool.and_eq_true, hpe, Bool.false_or] at hi'
          exact f.wd i hi'.1
        · intro i hi
          have hi' : ((p.errDef || p.wh i) && (q.errDef || q.wh i)) = true := hi
          rw [Bool.and_eq_true, hpe, Bool.false_or] at hi'
          exact f.wh i hi'.1

theorem rel_join_right {p q : APt} {c : St} (r : Rel q c) : Rel (joinPt p q) c := by
  refine ⟨?_, ?_, ?_⟩
  · intro h
    have h' : (p.errDef && q.errDef) = true := h
    rw [Bool.and_eq_true] at h'
    exact r.err h'.2
  · intro x b hx
    have hx' : (if p.lb x = q.lb x then p.lb x else none) = some b := hx
    split at hx'
    · rename_i heq; rw [heq] at hx'; exact r.lb x b hx'
    · cases hx'
  · by_cases he : c.err.isSome = true
    · exact Or.inl he
    · have hqe : q.errDef = false := by
        cases hq : q.errDef with
        | false => rfl
        | true => exact absurd (r.err hq) he
      cases r.facts with
      | inl h => exact absurd h he
      | inr f =>
        refine Or.inr ⟨?_, ?_⟩
        · intro i hi
          have hi' : ((p.errDef || p.wd i) && (q.errDef || q.wd i)) = true := hi
          rw [Bool.and_eq_true, hqe, Bool.false_or] at hi'
          exact f.wd i hi'.2
        · intro i hi
          have hi' : ((p.errDef || p.wh i) && (q.errDef || q.wh i)) = true := hi
          rw [Bool.and_eq_true, hqe, Bool.false_or] at hi'
          exact f.wh i hi'.2

theorem joinO_left {a b : Option APt} {p : APt} {c : St} (h : a = some p) (r : Rel p c) :
    ∃ q, joinO a b = some q ∧ Rel q c := by
  subst h
  cases b with
  | none => exact ⟨p, rfl, r⟩
  | some q => exact ⟨joinPt p q, rfl, rel_join_left r⟩

theorem joinO_right {a b : Option APt} {p : APt} {c : St} (h : b = some p) (r : Rel p c) :
    ∃ q, joinO a b = some q ∧ Rel q c := by
  subst h
  cases a with
  | none => exact ⟨p, rfl, r⟩
  | some q => exact ⟨joinPt q p, rfl, rel_join_right r⟩

theorem anyBelow_exists {n : Nat} {p : Nat → Bool} (h : anyBelow n p = true) : ∃ i, i < n ∧ p i = true := by
  induction n with
  | zero => cases h
  | succ k ih =>
    simp only [anyBelow, Bool.or_eq_true] at h
    cases h with
    | inl h => exact ⟨k, by omega, h⟩
    | inr h => obtain ⟨i, hi, hp⟩ := ih h; exact ⟨i, by omega, hp⟩

end MpVerif.C16

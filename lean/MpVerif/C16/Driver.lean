import MpVerif.C16.Explain
import MpVerif.Gen.GslSkel
import Std.Data.HashMap
/-! Line driver for C16.
`call <name> <n> <v|d|h> <digp> <dig> <raNaN> <intOk> <uintOk> <ints> | <err> <ret> <wd> <wh> <dnan> <hnan>`
(`<ints>`: the values (int)ra[i], comma separated, 0 where not representable; `e` when n = 0)
↦ `ok` if the generated skeleton of `<name>` explains the observation, `unexplained` otherwise. -/
open MpVerif.C16 MpVerif.Gen.GslSkel

def table : Std.HashMap String Entry := registered.foldl (fun m e => m.insert e.name e) {}

def bitsOf (s : String) : Option (List Bool) :=
  if s == "e" then some [] else
  s.toList.mapM (fun c => if c == '1' then some true else if c == '0' then some false else none)

def intsOf (s : String) : Option (List Int) :=
  if s == "e" then some [] else (s.splitOn ",").mapM (·.toInt?)

def errOf : String → Option (Option ErrK)
  | "none" => some none
  | "eval" => some (some .eval)
  | "arg" => some (some .arg)
  | "deriv" => some (some .deriv)
  | "dnan" => some (some .dnan)
  | "hnan" => some (some .hnan)
  | _ => none

def modeOf : String → Option Mode
  | "v" => some ⟨false, false⟩
  | "d" => some ⟨true, false⟩
  | "h" => some ⟨true, true⟩
  | _ => none

def answer (ws : List String) : String :=
  match ws with
  | ["call", name, n, mode, digp, dig, ranan, iok, uok, ints, "|", err, ret, wd, wh, dnan, hnan] =>
    match table[name]?, n.toNat?, modeOf mode, bitsOf dig, bitsOf ranan, bitsOf iok, bitsOf uok, intsOf ints, errOf err,
          bitsOf wd, bitsOf wh, bitsOf dnan, bitsOf hnan with
    | some e, some n, some m, some dig, some ranan, some iok, some uok, some ints, some err, some wd, some wh, some dnan, some hnan =>
      if n != e.nargs then "bad-op" else
      let a : Args := { n := n, raNaN := fun i => ranan.getD i false, intOk := fun i => iok.getD i false,
                        uintOk := fun i => uok.getD i false, digp := digp == "1", dig := fun i => dig.getD i false,
                        d0 := fun _ => false, h0 := fun _ => false, raInt := fun i => ints.getD i 0 }
      let ob : Obs := { err := err, retNaN := ret == "n", wd := wd, wh := wh, dnan := dnan, hnan := hnan }
      if explained e.body a m ob then "ok" else "unexplained"
    | _, _, _, _, _, _, _, _, _, _, _, _, _ => "bad-op"
  | _ => "bad-op"

partial def loop (h : IO.FS.Stream) (out : IO.FS.Stream) : IO Unit := do
  let line ← h.getLine
  if line.isEmpty then return ()
  out.putStrLn (answer (line.trimAscii.toString.splitOn " "))
  loop h out

def main : IO Unit := do
  let out ← IO.getStdout
  loop (← IO.getStdin) out

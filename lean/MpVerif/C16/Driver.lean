/-! Line driver for C16 (stub; replaced when the model is written). -/
def main : IO Unit := pure ()

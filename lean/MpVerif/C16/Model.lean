/-!
# C16 — control skeleton of the `amplgsl_*` bindings and its semantics

Every function registered by `funcadd_ASL` in `src/gsl/amplgsl.cc` is translated
(`translators/tr_gsl.py`, clang AST) into a `Stmt` term.  Numeric sub-expressions
are *opaque*: the model only keeps what decides the NaN/error discipline:

* which `al->derivs[i]` / `al->hes[i]` slots are assigned,
* which of the file's checkers (`check_args`, `check_const_arg`, `check_int_arg`,
  `check_uint_arg`, `check_zero_func_args`, `check_deriv_arg`,
  `check_bessel_args`, `check_coupling_args`) and error setters (`eval_error`,
  `deriv_error`, `error`) are called, under which conditions,
* how the function returns: through `check_result`, `return 0`, or a raw value.

Doubles are abstracted to one bit, *is it NaN*.  Every opaque numeric value and
every opaque numeric comparison is supplied by an `Oracle`; theorems quantify over
all oracles, so they hold whatever GSL/libm compute.  The checkers themselves are
modelled by hand below, mirroring their C text; the translator pins their source by
a fingerprint of their AST, and the harness compares them with the real code.
-/
namespace MpVerif.C16

/-- an index into `ra`/`derivs`/`hes`: a literal or the loop variable number `x` -/
inductive Idx where
  | k (n : Nat)
  | v (x : Nat)
  deriving DecidableEq, Repr, Inhabited

/-- calls of the file's checkers (each returns an `int` used as a truth value) -/
inductive Chk where
  | args                 -- check_args(al)
  | constArg (i : Idx)   -- check_const_arg(al, i, name)
  | intArg (i : Idx)     -- check_int_arg(al, i, name)
  | uintArg (i : Idx)    -- check_uint_arg(al, i, name)
  | zeroFunc (i : Idx)   -- check_zero_func_args(al, i)
  | bessel (derivIntMin : Bool)   -- check_bessel_args(al, flags, name): about argument 0; the flag is `flags & DERIV_INT_MIN`
  | coupling             -- check_coupling_args(al, names)
  deriving DecidableEq, Repr, Inhabited

inductive Cond where
  | derivs               -- al->derivs
  | hes                  -- al->hes
  | digp                 -- al->dig
  | dig (i : Idx)        -- al->dig[i]
  | lb (x : Nat)         -- an int local that only ever holds such conditions (need_da, …)
  | lit (b : Bool)
  | opq                  -- any comparison between numbers: decided by the oracle
  | not (c : Cond)
  | and (a b : Cond)     -- short-circuit, left to right
  | or (a b : Cond)
  | chk (c : Chk)
  | gsl (k : Nat)        -- `status_k = gsl_…_e(…, &result)` / `if (gsl_…_e(…))`: true iff the status is not GSL_SUCCESS; the outcome is kept in local k
  deriving DecidableEq, Repr, Inhabited

inductive Stmt where
  | skip
  | num                                  -- numeric work on locals, calls into GSL/libm: no effect on `al`
  | setb (x : Nat) (c : Cond)            -- int local x = <condition>
  | wd (i : Idx)                         -- al->derivs[i] = <opaque>
  | wh (i : Idx)                         -- al->hes[i] = <opaque>
  | eval (c : Cond)                      -- expression statement (a checker called for its effect)
  | errEval                              -- eval_error(al)
  | errDeriv                             -- deriv_error(al, …)
  | errArg                               -- error(al, …)
  | ite (c : Cond) (t e : Stmt)
  | seq (a b : Stmt)
  | for_ (x start : Nat) (body : Stmt)   -- for (x = start; x < al->n; ++x) body
  | retCheck                             -- return check_result(al, <opaque>)
  | retCheckNaN                          -- return check_result(al, GSL_NAN)   (the `status ? GSL_NAN : result.val` idiom, failing arm)
  | ret0                                 -- return 0
  | retRaw                               -- return <opaque>   (no check_result)
  deriving DecidableEq, Repr, Inhabited

/-- kinds of `al->Errmsg` (first character / wording of the message) -/
inductive ErrK where
  | eval    -- "can't evaluate f(…)"                  (eval_error)
  | arg     -- "argument 'n' can't be represented…"   (error)
  | deriv   -- "'…"  derivative error                  (deriv_error)
  | dnan    -- "'can't evaluate f'(…)"                 (check_result: NaN in derivs)
  | hnan    -- "\"can't evaluate f''(…)"               (check_result: NaN in hes)
  deriving DecidableEq, Repr, Inhabited

/-- what the caller passes (doubles abstracted to NaN bits and representability bits) -/
structure Args where
  n : Nat
  raNaN : Nat → Bool      -- isnan(ra[i])
  intOk : Nat → Bool      -- INT_MIN <= ra[i] <= INT_MAX && (int)ra[i] == ra[i]   (range test first since fba410b)
  uintOk : Nat → Bool     -- 0 <= ra[i] <= UINT_MAX && (unsigned)ra[i] == ra[i]
  raInt : Nat → Int       -- (int)ra[i]   (meaningful when intOk i)
  digp : Bool             -- al->dig != NULL
  dig : Nat → Bool        -- al->dig[i] != 0
  d0 : Nat → Bool         -- NaN bits of what the caller left in derivs[]
  h0 : Nat → Bool         -- … in hes[]

structure Mode where
  derivs : Bool
  hes : Bool
  deriving DecidableEq, Repr

structure Oracle where
  dval : Nat → Nat → Bool   -- NaN bit of the value stored into derivs[slot] at tick
  hval : Nat → Nat → Bool   -- … hes[slot]
  rval : Nat → Bool         -- NaN bit of the value handed to check_result / returned raw, at tick
  cond : Nat → Bool         -- outcome of the k-th opaque comparison

inductive Ret where
  | zero                 -- `return 0`
  | val (nan : Bool)     -- a computed double
  deriving DecidableEq, Repr, Inhabited

structure St where
  err : Option ErrK
  d : Nat → Bool
  wd : Nat → Bool        -- derivs[i] has been assigned by the function
  h : Nat → Bool
  wh : Nat → Bool
  lb : Nat → Bool
  tv : Nat
  tc : Nat
  ret : Option Ret
  gf : Bool              -- some GSL `_e` routine called during this run reported a status other than GSL_SUCCESS

abbrev Env := List (Nat × Nat)   -- loop variables

def Env.get (e : Env) (x : Nat) : Nat :=
  match e with
  | [] => 0
  | (y, v) :: r => if y = x then v else Env.get r x

def Idx.val (e : Env) : Idx → Nat
  | .k n => n
  | .v x => e.get x

def upd (f : Nat → Bool) (i : Nat) (b : Bool) : Nat → Bool := fun j => if j = i then b else f j

/-- does `p` hold for some `i < n` -/
def anyBelow (n : Nat) (p : Nat → Bool) : Bool :=
  match n with
  | 0 => false
  | k + 1 => p k || anyBelow k p

/-- `al->dig && al->dig[i]` (dig has n entries): the caller will not use partials w.r.t. argument i -/
def Args.const (a : Args) (i : Nat) : Bool := decide (i < a.n) && (a.digp && a.dig i)

/-! ### the error setters -/
def St.evalError (s : St) : St := { s with err := some .eval }           -- overwrites
def St.argError (s : St) : St := { s with err := some .arg }             -- overwrites
def St.derivError (s : St) : St :=                                       -- first error wins
  match s.err with
  | some _ => s
  | none => { s with err := some .deriv }

/-! ### the checkers (hand models of the C functions of the same names) -/

def checkArgs (a : Args) (s : St) : Bool × St :=
  if anyBelow a.n a.raNaN then (false, s.evalError) else (true, s)

def checkConstArg (a : Args) (i : Nat) (s : St) : Bool × St :=
  if a.const i then (true, s) else (false, s.derivError)

/-- `if (!(arg >= INT_MIN && arg <= INT_MAX) || (int)arg != arg) { error(…); return 0; } if (al->derivs) check_const_arg(…); return 1;` -/
def checkIntArg (a : Args) (m : Mode) (i : Nat) (s : St) : Bool × St :=
  if !a.intOk i then (false, s.argError)
  else if m.derivs then (true, (checkConstArg a i s).2) else (true, s)

/-- same with `!(arg >= 0 && arg <= UINT_MAX) || (unsigned)arg != arg` -/
def checkUintArg (a : Args) (m : Mode) (i : Nat) (s : St) : Bool × St :=
  if !a.uintOk i then (false, s.argError)
  else if m.derivs then (true, (checkConstArg a i s).2) else (true, s)

/-- `if (!(arg >= 0 && arg <= UINT_MAX) || (unsigned)arg != arg) { error(…); return 0; }
    if (al->derivs && check_const_arg(al, s_index, "s")) deriv_error(al, DERIVS_NOT_PROVIDED); return 1;` -/
def checkZeroFuncArgs (a : Args) (m : Mode) (i : Nat) (s : St) : Bool × St :=
  if !a.uintOk i then (false, s.argError)
  else if m.derivs then
    let r := checkConstArg a i s
    (true, if r.1 then r.2.derivError else r.2)
  else (true, s)

def intMin : Int := -2147483648
def intMax : Int := 2147483647

/-- `check_deriv_arg(al, arg, min, max)`: `if (arg < min) {deriv_error; return 0;} if (arg > max) {deriv_error; return 0;} return 1;` -/
def checkDerivArg (arg lo hi : Int) (s : St) : Bool × St :=
  if arg < lo then (false, s.derivError)
  else if arg > hi then (false, s.derivError)
  else (true, s)

/-- `if (!r) return 0; …continue with k` -/
def thenChk (r : Bool × St) (k : St → Bool × St) : Bool × St := if r.1 then k r.2 else (false, r.2)

/-- `deriv_min = INT_MIN + ((flags & DERIV_INT_MIN) != 0 ? 0 : 1)` -/
def derivMin (flag : Bool) : Int := intMin + (if flag then 0 else 1)

/-- `check_bessel_args(al, flags, name)`: with n = (int)al->ra[0],
`if (!check_int_arg(al, 0, name)) return 0;
 if (al->derivs) { if ((al->hes && !check_deriv_arg(al, n, INT_MIN + 2, INT_MAX - 2)) || !check_deriv_arg(al, n, deriv_min, INT_MAX - 1)) return 0; } return 1;` -/
def checkBesselArgs (a : Args) (m : Mode) (flag : Bool) (s : St) : Bool × St :=
  thenChk (checkIntArg a m 0 s) fun s1 =>
    if m.derivs then
      if m.hes then
        thenChk (checkDerivArg (a.raInt 0) (intMin + 2) (intMax - 2) s1) fun s2 =>
          thenChk (checkDerivArg (a.raInt 0) (derivMin flag) (intMax - 1) s2) fun s3 => (true, s3)
      else thenChk (checkDerivArg (a.raInt 0) (derivMin flag) (intMax - 1) s1) fun s3 => (true, s3)
    else (true, s1)

/-- `for (i = from; i < n; ++i) if (!check_int_arg(al, i, …)) return 0; return 1;` -/
def checkCouplingFrom (a : Args) (m : Mode) (fuel i : Nat) (s : St) : Bool × St :=
  match fuel with
  | 0 => (true, s)
  | f + 1 => thenChk (checkIntArg a m i s) fun s1 => checkCouplingFrom a m f (i + 1) s1

def checkCouplingArgs (a : Args) (m : Mode) (s : St) : Bool × St := checkCouplingFrom a m a.n 0 s

def evalChk (o : Oracle) (a : Args) (m : Mode) (e : Env) (c : Chk) (s : St) : Bool × St :=
  match c with
  | .args => checkArgs a s
  | .constArg i => checkConstArg a (i.val e) s
  | .intArg i => checkIntArg a m (i.val e) s
  | .uintArg i => checkUintArg a m (i.val e) s
  | .zeroFunc i => checkZeroFuncArgs a m (i.val e) s
  | .bessel f => checkBesselArgs a m f s
  | .coupling => checkCouplingArgs a m s

def evalCond (o : Oracle) (a : Args) (m : Mode) (e : Env) : Cond → St → Bool × St
  | .derivs, s => (m.derivs, s)
  | .hes, s => (m.hes, s)
  | .digp, s => (a.digp, s)
  | .dig i, s => (a.const (i.val e), s)
  | .lb x, s => (s.lb x, s)
  | .lit b, s => (b, s)
  | .opq, s => (o.cond s.tc, { s with tc := s.tc + 1 })
  | .not c, s => let r := evalCond o a m e c s; (!r.1, r.2)
  | .and c1 c2, s =>
    let r := evalCond o a m e c1 s
    if r.1 then evalCond o a m e c2 r.2 else (false, r.2)
  | .or c1 c2, s =>
    let r := evalCond o a m e c1 s
    if r.1 then (true, r.2) else evalCond o a m e c2 r.2
  | .chk c, s => evalChk o a m e c s
  | .gsl k, s =>
    let bad := o.cond s.tc
    (bad, { s with lb := upd s.lb k bad, gf := s.gf || bad, tc := s.tc + 1 })

/-- number of entries of the packed upper triangle -/
def hesLen (n : Nat) : Nat := n * (n + 1) / 2

/-- `check_result(al, result)` -/
def checkResult (a : Args) (m : Mode) (rnan : Bool) (s : St) : St :=
  if rnan then { s.evalError with ret := some .zero }
  else if anyBelow a.n a.raNaN then { s.evalError with ret := some .zero }
  else if m.derivs && s.err.isNone then
    if anyBelow a.n s.d then { s with err := some .dnan, ret := some .zero }
    else if m.hes && anyBelow (hesLen a.n) s.h then { s with err := some .hnan, ret := some .zero }
    else { s with ret := some (.val rnan) }
  else { s with ret := some (.val rnan) }

/-- sequencing: nothing runs after a `return` -/
def thenSt (s' : St) (k : St → St) : St := if s'.ret.isSome then s' else k s'

/-- iterate `body` for x = i, i+1, … while x < n and the function has not returned -/
def loopFrom (step : Env → St → St) (e : Env) (x n : Nat) (fuel i : Nat) (s : St) : St :=
  match fuel with
  | 0 => s
  | f + 1 =>
    if i < n then thenSt (step ((x, i) :: e) s) (fun s' => loopFrom step e x n f (i + 1) s')
    else s

def exec (o : Oracle) (a : Args) (m : Mode) : Stmt → Env → St → St
  | .skip, _, s => s
  | .num, _, s => s
  | .setb x c, e, s => let r := evalCond o a m e c s; { r.2 with lb := upd r.2.lb x r.1 }
  | .wd i, e, s =>
    let j := i.val e
    { s with d := upd s.d j (o.dval j s.tv), wd := upd s.wd j true, tv := s.tv + 1 }
  | .wh i, e, s =>
    let j := i.val e
    { s with h := upd s.h j (o.hval j s.tv), wh := upd s.wh j true, tv := s.tv + 1 }
  | .eval c, e, s => (evalCond o a m e c s).2
  | .errEval, _, s => s.evalError
  | .errDeriv, _, s => s.derivError
  | .errArg, _, s => s.argError
  | .ite c t f, e, s =>
    let r := evalCond o a m e c s
    if r.1 then exec o a m t e r.2 else exec o a m f e r.2
  | .seq p q, e, s => thenSt (exec o a m p e s) (fun s' => exec o a m q e s')
  | .for_ x start body, e, s => loopFrom (exec o a m body) e x a.n a.n start s
  | .retCheck, _, s => checkResult a m (o.rval s.tv) { s with tv := s.tv + 1 }
  | .retCheckNaN, _, s => checkResult a m true s
  | .ret0, _, s => { s with ret := some .zero }
  | .retRaw, _, s => { s with ret := some (.val (o.rval s.tv)), tv := s.tv + 1 }

def St.init (a : Args) : St :=
  { err := none, d := a.d0, wd := fun _ => false, h := a.h0, wh := fun _ => false,
    lb := fun _ => false, tv := 0, tc := 0, ret := none, gf := false }

/-- run a binding: ASL clears `Errmsg` before the call -/
def run (body : Stmt) (o : Oracle) (a : Args) (m : Mode) : St := exec o a m body [] (St.init a)

/-- index of entry (i, j), i ≤ j, in the packed upper triangle `al->hes` -/
def hesIdx (i j : Nat) : Nat := i + j * (j + 1) / 2

end MpVerif.C16

import MpVerif.C16.Model
/-!
# C16 — correspondence helper: is an observed call explained by the skeleton?

The harness observes, for one call of a real binding, the request mode, `dig`, the NaN /
integer-representability bits of the arguments, and afterwards: the kind of `Errmsg`,
which `derivs`/`hes` slots were written, and which hold NaN.  `explained` searches the
finitely many oracles that matter (the opaque comparisons along the executed path, the
NaN bit of the returned value; stored values take the observed NaN bits) for one under
which `run` reproduces the observation exactly.
-/
namespace MpVerif.C16

structure Obs where
  err : Option ErrK
  retNaN : Bool
  wd : List Bool
  wh : List Bool
  dnan : List Bool
  hnan : List Bool

def matchesObs (n : Nat) (m : Mode) (ob : Obs) (s : St) : Bool :=
  s.err == ob.err &&
  (match s.ret with
   | none => false
   | some .zero => !ob.retNaN
   | some (.val b) => b == ob.retNaN) &&
  (!m.derivs || (List.range n).all (fun i => s.wd i == ob.wd.getD i false && s.d i == ob.dnan.getD i false)) &&
  (!(m.derivs && m.hes) || (List.range (hesLen n)).all (fun i => s.wh i == ob.wh.getD i false && s.h i == ob.hnan.getD i false))

def oracleOf (ob : Obs) (rnan : Bool) (bits : List Bool) : Oracle :=
  { dval := fun slot _ => ob.dnan.getD slot false,
    hval := fun slot _ => ob.hnan.getD slot false,
    rval := fun _ => rnan,
    cond := fun k => bits.getD k false }

/-- depth-first search over the outcomes of the opaque comparisons actually evaluated -/
def searchBits (body : Stmt) (a : Args) (m : Mode) (ob : Obs) (rnan : Bool) : Nat → List Bool → Bool
  | 0, _ => false
  | fuel + 1, bits =>
    let s := run body (oracleOf ob rnan bits) a m
    if s.tc ≤ bits.length then matchesObs a.n m ob s
    else searchBits body a m ob rnan fuel (bits ++ [false]) || searchBits body a m ob rnan fuel (bits ++ [true])

def explained (body : Stmt) (a : Args) (m : Mode) (ob : Obs) : Bool :=
  searchBits body a m ob false 64 [] || searchBits body a m ob true 64 []

end MpVerif.C16

import MpVerif.C16.LemmasFinal
import MpVerif.C16.LemmasStatus
import MpVerif.C16.LemmasGen
import MpVerif.Gen.GslSkel
/-!
# C16 — GSL bindings return consistent derivatives or an explicit error

Property theorems only.  `MpVerif.Gen.GslSkel` is *generated on every run* from
`src/gsl/amplgsl.cc` (clang AST): one control skeleton per function registered by
`funcadd_ASL`, and the registration table.  `run` (Model.lean) is the semantics of a
skeleton: doubles are abstracted to their NaN bit, every numeric sub-expression and
comparison is supplied by an oracle, the file's checkers are modelled one to one.

## Full statement of the property (NOT proved in full; see `…_partial`)

    for every registered f, every argument vector and request mode, the call returns,
    deterministically, and when Errmsg is not set: the value is not NaN, every requested
    first/second partial is not NaN **and agrees with the derivative of the function the
    binding computes**; whenever the value or a requested derivative does not exist an
    error is set.

What is proved, for all 342 real-valued registered functions, all oracles (so whatever GSL
and libm return), all argument vectors of the registered length, all modes and all `dig`:

* the function returns (`ret ≠ none`), never through a raw `return v`, and `return 0` only
  after an error has been set;
* no error ⇒ the value is not NaN, every requested `derivs[i]` / `hes[i,j]` **has been
  assigned by the function** (not left as whatever the caller had there) and is not NaN.

What is missing from the full statement: agreement of the assigned numbers with the true
derivatives (special-function identities are not available in Mathlib) — explored
numerically by `harness/h_gsl.cc` only; termination/safety of GSL itself (outside the model).
-/
namespace MpVerif.C16
open MpVerif.Gen.GslSkel MpVerif.Gen.GslHelpers

/-- the conclusion of the discipline theorem for one finished call -/
def NoSilentNaN (a : Args) (m : Mode) (s : St) : Prop :=
  s.ret ≠ none ∧
  (s.err = none →
    s.ret = some (.val false) ∧
    (m.derivs = true → ∀ i, i < a.n → a.const i = false → s.wd i = true ∧ s.d i = false) ∧
    (m.derivs = true → m.hes = true → ∀ i j, i ≤ j → j < a.n → a.const i = false → a.const j = false →
      s.wh (hesIdx i j) = true ∧ s.h (hesIdx i j) = false))

/-- **Soundness of the analysis**, for every skeleton: if `disciplined body n` then every call with n
arguments — any oracle, any arguments, any mode — ends without a silent NaN or an unassigned
requested partial. -/
theorem C16_discipline_sound (body : Stmt) (n : Nat) (h : disciplined body n = true)
    (o : Oracle) (a : Args) (m : Mode) (hn : a.n = n) : NoSilentNaN a m (run body o a m) := by
  obtain ⟨hsome, post⟩ := aRun_sound o a m (disciplined_aRun h a m hn)
  refine ⟨fun hnone => (by rw [hnone] at hsome; cases hsome), fun herr => ?_⟩
  obtain ⟨hret, hrest⟩ := post.good herr
  refine ⟨hret, ?_, ?_⟩
  · intro hd i hi hci
    obtain ⟨hdn, hw, _⟩ := hrest hd
    exact ⟨hw i hi hci, anyBelow_false hdn i hi⟩
  · intro hd hh i j hij hj hci hcj
    obtain ⟨_, _, hhes⟩ := hrest hd
    obtain ⟨hhn, hw⟩ := hhes hh
    exact ⟨hw i j hij hj hci hcj, anyBelow_false hhn _ (hesIdx_lt hij hj)⟩

set_option maxRecDepth 100000 in
/-- every function `funcadd_ASL` registers passes the analysis (the whole generated table is evaluated
by the kernel: a finite table, so this is a proof, re-done whenever amplgsl.cc changes) -/
theorem C16_all_registered_disciplined :
    registered.all (fun e => disciplined e.body e.nargs) = true := by decide +kernel

/-- **The discipline part of C16** for the code as it is now (partial: see the header). -/
theorem C16_registered_no_silent_nan_partial (e : Entry) (he : e ∈ registered)
    (o : Oracle) (a : Args) (m : Mode) (hn : a.n = e.nargs) : NoSilentNaN a m (run e.body o a m) := by
  have h := C16_all_registered_disciplined
  rw [List.all_eq_true] at h
  exact C16_discipline_sound e.body e.nargs (h e he) o a m hn

/-- `funcadd_ASL` switches the GSL error handler off before anything else, so GSL errors surface as
status codes / NaN (which `check_result` turns into `Errmsg`) instead of `abort()` -/
theorem C16_error_handler_off_first : errorHandlerOffFirst = true := by decide

/-- a derivative w.r.t. an integer-valued argument is an error: when `check_int_arg` accepts the
argument and derivatives are requested although the caller did not declare it constant, `Errmsg` is set -/
theorem C16_int_arg_derivative_is_error (a : Args) (m : Mode) (i : Nat) (s : St)
    (hd : m.derivs = true) (hc : a.const i = false) :
    ((checkIntArg a m i s).1 = true → (checkIntArg a m i s).2.err.isSome = true) ∧
    ((checkUintArg a m i s).1 = true → (checkUintArg a m i s).2.err.isSome = true) :=
  ⟨fun h => checkIntArg_deriv a m i s h hd hc, fun h => checkUintArg_deriv a m i s h hd hc⟩

/-- the zero functions (`gsl_sf_airy_zero_*`, `gsl_sf_bessel_zero_*`) never provide derivatives silently -/
theorem C16_zero_func_derivative_is_error (a : Args) (m : Mode) (i : Nat) (s : St) (hd : m.derivs = true)
    (h : (checkZeroFuncArgs a m i s).1 = true) : (checkZeroFuncArgs a m i s).2.err.isSome = true :=
  checkZeroFuncArgs_deriv a m i s hd h

/-- every checker that fails leaves an error behind (so `if (!check…) return 0;` is never silent) -/
theorem C16_failed_check_sets_error (o : Oracle) (a : Args) (m : Mode) (e : Env) (ck : Chk) (s : St)
    (h : (evalChk o a m e ck s).1 = false) : (evalChk o a m e ck s).2.err.isSome = true := by
  cases ck with
  | args => exact (checkArgs_ok a s).fail h
  | constArg i => exact (checkConstArg_ok a _ s).fail h
  | intArg i => exact (checkIntArg_ok a m _ s).fail h
  | uintArg i => exact (checkUintArg_ok a m _ s).fail h
  | zeroFunc i => exact (checkZeroFuncArgs_ok a m _ s).fail h
  | bessel f => exact (checkBesselArgs_ok a m f s).fail h
  | coupling => exact (checkCouplingFrom_ok a m a.n 0 s).fail h


/-! ### every GSL status is checked against GSL_SUCCESS -/

/-- **Soundness of the status-guard analysis**, for every skeleton: if `guarded body`, then in every run in which
some GSL `_e` routine reported a status other than GSL_SUCCESS, `Errmsg` is set when the binding returns. -/
theorem C16_status_guard_sound (body : Stmt) (h : guarded body = true) (o : Oracle) (a : Args) (m : Mode) :
    (run body o a m).gf = true → (run body o a m).err ≠ none := by
  intro hg herr
  have : (run body o a m).err.isSome = true := guarded_sound o a m body h [] (St.init a) rfl (fun hgf => (nomatch hgf)) hg
  rw [herr] at this
  cases this

set_option maxRecDepth 100000 in
/-- every registered binding tests every GSL status in one of the three accepted shapes, i.e. against GSL_SUCCESS
(a weakened test such as `status == GSL_EDOM || …` is translated to an opaque comparison and fails this) -/
theorem C16_all_registered_status_guarded : registered.all (fun e => guarded e.body) = true := by decide +kernel

/-- **C16_status_checked**: for every registered binding that calls a `_e` GSL routine, a non-success status sets an error -/
theorem C16_status_checked (e : Entry) (he : e ∈ registered) (o : Oracle) (a : Args) (m : Mode) :
    (run e.body o a m).gf = true → (run e.body o a m).err ≠ none := by
  have h := C16_all_registered_status_guarded
  rw [List.all_eq_true] at h
  exact C16_status_guard_sound e.body (h e he) o a m


/-! ### the helper bodies, translated from the source, are the hand models (`C16_gen_*`)

`MpVerif.Gen.GslHelpers.h_*` are regenerated on every run from the C bodies of the twelve helpers.  Each theorem says:
running the translated body (`hrun`) gives exactly (return value, resulting arglist state) of the hand model used by
`run`, the analysis and every theorem above — so those theorems are about the helpers as they are in the source now. -/

theorem C16_gen_error (a : Args) (m : Mode) (pr : HPar) (s : St) : hrun h_error a m pr s = (true, s.argError) := gen_error a m pr s
theorem C16_gen_eval_error (a : Args) (m : Mode) (pr : HPar) (s : St) : hrun h_eval_error a m pr s = (true, s.evalError) := gen_eval_error a m pr s
theorem C16_gen_deriv_error (a : Args) (m : Mode) (pr : HPar) (s : St) : hrun h_deriv_error a m pr s = (true, s.derivError) := gen_deriv_error a m pr s
theorem C16_gen_check_deriv_arg (a : Args) (m : Mode) (arg lo hi : Int) (s : St) :
    hrun h_check_deriv_arg a m (parDeriv arg lo hi) s = checkDerivArg arg lo hi s := gen_check_deriv_arg a m arg lo hi s
theorem C16_gen_check_args (a : Args) (m : Mode) (pr : HPar) (s : St) : hrun h_check_args a m pr s = checkArgs a s := gen_check_args a m pr s
/-- (the C code indexes `al->dig[index]` without a bound; the equality is for indices of existing arguments) -/
theorem C16_gen_check_const_arg (a : Args) (m : Mode) (i : Nat) (hi : i < a.n) (s : St) :
    hrun h_check_const_arg a m (parIdx i) s = checkConstArg a i s := gen_check_const_arg a m i hi s
theorem C16_gen_check_int_arg (a : Args) (m : Mode) (i : Nat) (s : St) :
    hrun h_check_int_arg a m (parIdx i) s = checkIntArg a m i s := gen_check_int_arg a m i s
theorem C16_gen_check_uint_arg (a : Args) (m : Mode) (i : Nat) (s : St) :
    hrun h_check_uint_arg a m (parIdx i) s = checkUintArg a m i s := gen_check_uint_arg a m i s
theorem C16_gen_check_zero_func_args (a : Args) (m : Mode) (i : Nat) (s : St) :
    hrun h_check_zero_func_args a m (parIdx i) s = checkZeroFuncArgs a m i s := gen_check_zero_func_args a m i s
theorem C16_gen_check_bessel_args (a : Args) (m : Mode) (flag : Bool) (s : St) :
    hrun h_check_bessel_args a m (parFlag flag) s = checkBesselArgs a m flag s := gen_check_bessel_args a m flag s
theorem C16_gen_check_coupling_args (a : Args) (m : Mode) (pr : HPar) (s : St) :
    hrun h_check_coupling_args a m pr s = checkCouplingArgs a m s := gen_check_coupling_args a m pr s
theorem C16_gen_check_result (a : Args) (m : Mode) (rnan : Bool) (s : St) :
    hrun h_check_result a m (parRes rnan) s = (true, checkResult a m rnan s) := gen_check_result a m rnan s

theorem checkDerivArg_true {x lo hi : Int} {s : St} (h : (checkDerivArg x lo hi s).1 = true) : lo ≤ x ∧ x ≤ hi := by
  unfold checkDerivArg at h
  split at h
  · cases h
  · split at h
    · cases h
    · constructor <;> omega

/-- **Integer range logic of `check_bessel_args`**: when it accepts and derivatives are requested, the order n = (int)ra[0]
satisfies deriv_min ≤ n ≤ INT_MAX − 1 (so n + 1, and n − 1 unless DERIV_INT_MIN was given, are ints), and with the
Hessian requested INT_MIN + 2 ≤ n ≤ INT_MAX − 2 (so n ± 2 are ints): the Bessel derivative formulas cannot overflow. -/
theorem C16_bessel_order_in_range (a : Args) (m : Mode) (flag : Bool) (s : St)
    (h : (checkBesselArgs a m flag s).1 = true) (hd : m.derivs = true) :
    derivMin flag ≤ a.raInt 0 ∧ a.raInt 0 ≤ intMax - 1 ∧ (m.hes = true → intMin + 2 ≤ a.raInt 0 ∧ a.raInt 0 ≤ intMax - 2) := by
  unfold checkBesselArgs at h
  obtain ⟨_, heq⟩ := thenChk_true h
  rw [heq, hd] at h
  simp only [if_true] at h
  cases hh : m.hes with
  | false =>
    rw [hh] at h
    simp only [Bool.false_eq_true, if_false] at h
    obtain ⟨h1, _⟩ := thenChk_true h
    have := checkDerivArg_true h1
    exact ⟨this.1, this.2, fun hc => by cases hc⟩
  | true =>
    rw [hh] at h
    simp only [if_true] at h
    obtain ⟨h1, heq1⟩ := thenChk_true h
    rw [heq1] at h
    obtain ⟨h2, _⟩ := thenChk_true h
    have b1 := checkDerivArg_true h1
    have b2 := checkDerivArg_true h2
    exact ⟨b2.1, b2.2, fun _ => b1⟩

/-- loop variables used as indices are always bound by an enclosing `for` (so `Env.get`'s default is never what decides) -/
def Idx.scoped (bound : List Nat) : Idx → Bool
  | .k _ => true
  | .v x => bound.contains x
def Chk.scoped (bound : List Nat) : Chk → Bool
  | .constArg i | .intArg i | .uintArg i | .zeroFunc i => i.scoped bound
  | _ => true
def Cond.scoped (bound : List Nat) : Cond → Bool
  | .dig i => i.scoped bound
  | .not c => c.scoped bound
  | .and a b | .or a b => a.scoped bound && b.scoped bound
  | .chk c => c.scoped bound
  | _ => true
def Stmt.scoped (bound : List Nat) : Stmt → Bool
  | .wd i | .wh i => i.scoped bound
  | .setb _ c | .eval c => c.scoped bound
  | .ite c t f => c.scoped bound && t.scoped bound && f.scoped bound
  | .seq a b => a.scoped bound && b.scoped bound
  | .for_ x _ body => body.scoped (x :: bound)
  | _ => true
set_option maxRecDepth 100000 in
theorem C16_all_registered_well_scoped : registered.all (fun e => e.body.scoped []) = true := by decide +kernel

/-! ### non-vacuity -/

private def argsN (n : Nat) : Args :=
  { n := n, raNaN := fun _ => false, intOk := fun _ => true, uintOk := fun _ => true, digp := false,
    dig := fun _ => false, d0 := fun _ => false, h0 := fun _ => false, raInt := fun _ => 2 }
private def quiet : Oracle := { dval := fun _ _ => false, hval := fun _ _ => false, rval := fun _ => false, cond := fun _ => false }
private def nanHes : Oracle := { quiet with hval := fun _ _ => true }
private def gslFails : Oracle := { quiet with cond := fun _ => true }

/-- the hypotheses are satisfiable: a real skeleton run that ends without error, with all partials assigned -/
example : (run sk_amplgsl_hypot quiet (argsN 2) ⟨true, true⟩).err = none ∧
          (run sk_amplgsl_hypot quiet (argsN 2) ⟨true, true⟩).wd 1 = true ∧
          (run sk_amplgsl_hypot quiet (argsN 2) ⟨true, true⟩).wh 2 = true := by decide
/-- … and a NaN second partial is reported through `check_result` -/
example : (run sk_amplgsl_hypot nanHes (argsN 2) ⟨true, true⟩).err = some .hnan := by decide
/-- Bessel J_n: derivative requested w.r.t. the integer order ⇒ error, although the value is fine -/
example : (run sk_amplgsl_sf_bessel_Jn { quiet with cond := fun _ => true } (argsN 2) ⟨true, false⟩).err = some .deriv := by decide

/-- a GSL failure really is observable in the model (Bessel Y_n through CHECK_CALL) and ends in an evaluation error -/
example : (run sk_amplgsl_sf_bessel_Yn gslFails (argsN 2) ⟨false, false⟩).gf = true ∧
          (run sk_amplgsl_sf_bessel_Yn gslFails (argsN 2) ⟨false, false⟩).err = some .eval := by decide
/-- the weakened CHECK_CALL (`status == GSL_EDOM || (status != GSL_SUCCESS && !gsl_finite(result.val))`) as the translator renders it
is rejected, and there is a run where GSL failed and no error is set -/
private def weakened : Stmt :=
  .seq (.eval (.gsl 0)) (.seq (.ite (.or .opq (.and (.lb 0) (.not .opq))) (.seq .errEval .ret0) .skip) .retCheck)
example : guarded weakened = false := by decide
example : (run weakened { quiet with cond := fun k => k == 0 || k == 2 } (argsN 1) ⟨false, false⟩).gf = true ∧
          (run weakened { quiet with cond := fun k => k == 0 || k == 2 } (argsN 1) ⟨false, false⟩).err = none := by decide
/-- a status that is dropped on the floor is rejected -/
example : guarded (.seq (.eval (.gsl 0)) .retCheck) = false := by decide

/-- the analysis is not trivially true: a binding that forgets `derivs[1]` … -/
private def forgetful : Stmt :=
  .seq (.ite .derivs (.wd (.k 0)) .skip) .retCheck
example : disciplined forgetful 2 = false := by decide
/-- … really does return without error and with `derivs[1]` untouched -/
example : (run forgetful quiet (argsN 2) ⟨true, false⟩).err = none ∧
          (run forgetful quiet (argsN 2) ⟨true, false⟩).wd 1 = false := by decide
/-- a binding that bypasses `check_result` is rejected, and really returns NaN silently -/
example : disciplined (.seq (.ite (.not (.chk .args)) .ret0 .skip) .retRaw) 1 = false := by decide
example : (run (.seq (.ite (.not (.chk .args)) .ret0 .skip) .retRaw) { quiet with rval := fun _ => true } (argsN 1) ⟨false, false⟩).ret
            = some (.val true) := by decide
/-- a binding that returns 0 without having set an error is rejected -/
example : disciplined (.seq (.ite .opq .ret0 .skip) .retCheck) 1 = false := by decide
/-- a binding that drops `check_const_arg` (writes only d/dx of f(nu, x)) is rejected -/
example : disciplined (.seq (.ite .derivs (.wd (.k 1)) .skip) .retCheck) 2 = false := by decide
example : disciplined (.seq (.ite (.and .derivs (.chk (.constArg (.k 0)))) (.seq (.wd (.k 1)) (.ite .hes (.wh (.k 2)) .skip)) .skip) .retCheck) 2 = true := by decide

/-! #### one concrete, non-trivial instance of the hypotheses of every theorem above -/
-- C16_discipline_sound / C16_registered_no_silent_nan_partial: a registered entry, disciplined, a.n = nargs, and a run without error
example : disciplined sk_amplgsl_hypot 2 = true := by decide
example : (⟨"gsl_hypot", 2, false, sk_amplgsl_hypot⟩ : Entry) ∈ registered := by decide
example : (argsN 2).n = 2 ∧ (run sk_amplgsl_hypot quiet (argsN 2) ⟨true, true⟩).err = none ∧ (argsN 2).const 0 = false := by decide
-- … and one with a constant argument declared through dig (Bessel J_n: order constant, derivative w.r.t. x delivered)
private def argsDig : Args := { argsN 2 with digp := true, dig := fun i => i == 0 }
example : argsDig.const 0 = true ∧ argsDig.const 1 = false ∧
    (run sk_amplgsl_sf_bessel_Jn { quiet with cond := fun _ => true } argsDig ⟨true, true⟩).err = none ∧
    (run sk_amplgsl_sf_bessel_Jn { quiet with cond := fun _ => true } argsDig ⟨true, true⟩).wd 1 = true ∧
    (run sk_amplgsl_sf_bessel_Jn { quiet with cond := fun _ => true } argsDig ⟨true, true⟩).wh (hesIdx 1 1) = true := by decide
-- C16_int_arg_derivative_is_error: accepted integer argument, derivatives requested, not constant
example : (checkIntArg (argsN 2) ⟨true, false⟩ 0 (St.init (argsN 2))).1 = true ∧
          (checkIntArg (argsN 2) ⟨true, false⟩ 0 (St.init (argsN 2))).2.err = some .deriv := by decide
-- C16_zero_func_derivative_is_error
example : (checkZeroFuncArgs argsDig ⟨true, false⟩ 0 (St.init argsDig)).1 = true ∧
          (checkZeroFuncArgs argsDig ⟨true, false⟩ 0 (St.init argsDig)).2.err = some .deriv := by decide
-- C16_failed_check_sets_error: a failing check (NaN argument)
example : (evalChk quiet { argsN 2 with raNaN := fun i => i == 1 } ⟨false, false⟩ [] .args (St.init (argsN 2))).1 = false := by decide
-- C16_status_checked: a registered binding that calls a `_e` routine
example : (⟨"gsl_sf_bessel_Yn", 2, false, sk_amplgsl_sf_bessel_Yn⟩ : Entry) ∈ registered := by decide
-- C16_gen_check_const_arg: the index hypothesis; C16_bessel_order_in_range: an accepted order with the Hessian requested, and rejected extremes
example : (1 : Nat) < (argsN 2).n := by decide
example : (checkBesselArgs argsDig ⟨true, true⟩ false (St.init argsDig)).1 = true := by decide
example : (checkBesselArgs { argsDig with raInt := fun _ => intMax } ⟨true, false⟩ false (St.init argsDig)).1 = false ∧
          (checkBesselArgs { argsDig with raInt := fun _ => intMax - 1 } ⟨true, true⟩ false (St.init argsDig)).1 = false ∧
          (checkBesselArgs { argsDig with raInt := fun _ => intMin } ⟨true, false⟩ true (St.init argsDig)).1 = true ∧
          (checkBesselArgs { argsDig with raInt := fun _ => intMin } ⟨true, false⟩ false (St.init argsDig)).1 = false := by decide
-- the generated helper bodies really run: check_result on a state with a NaN Hessian entry, check_args on a NaN argument
example : (hrun h_check_result (argsN 2) ⟨true, true⟩ (parRes false) { St.init (argsN 2) with h := fun i => i == 2 }).2.err = some .hnan := by decide
example : (hrun h_check_args { argsN 3 with raNaN := fun i => i == 2 } ⟨false, false⟩ {} (St.init (argsN 3))).1 = false ∧
          (hrun h_check_args { argsN 3 with raNaN := fun i => i == 2 } ⟨false, false⟩ {} (St.init (argsN 3))).2.err = some .eval := by decide

end MpVerif.C16

import MpVerif.C20.ModelExporter
/-! # C20: invariants of the exporter transition system, for every event sequence -/
namespace MpVerif.C20

def isStatus : Rec → Bool
  | .conStatus _ _ _ _ _ _ => true
  | _ => false

theorem md_append : ∀ (a b : List Rec), markedDelivered (a ++ b) = markedDelivered a ++ markedDelivered b
  | [], b => rfl
  | r :: a, b => by
    cases r with
    | conStatus ty i nm u bb f => cases f <;> simp [markedDelivered, md_append a b]
    | _ => simp [markedDelivered, md_append a b]

theorem md_nostatus : ∀ (a : List Rec), (∀ r, r ∈ a → isStatus r = false) → markedDelivered a = []
  | [], _ => rfl
  | r :: a, h => by
    have hr := h r (by simp)
    have ha := md_nostatus a (fun x hx => h x (by simp [hx]))
    cases r <;> simp [isStatus] at hr <;> simp [markedDelivered, ha]

/-! ### one keeper -/

theorem kf_status (cfg : Cfg) (ty : Str) : ∀ (l : List CStat) (i : Nat) (r : Rec),
    r ∈ (keeperFinish cfg ty i l).1 → isStatusTy ty r = true ∧ isStatus r = true ∧ (∀ t, isNew t r = false)
  | [], _, r, h => by simp [keeperFinish] at h
  | st :: l, i, r, h => by
    simp only [keeperFinish, List.mem_cons] at h
    rcases h with h | h
    · subst h; simp [isStatusTy, isStatus, isNew]
    · exact kf_status cfg ty l (i + 1) r h

/-- the status records of a keeper: one per stored constraint, in index order -/
theorem kf_records (cfg : Cfg) (ty : Str) : ∀ (l : List CStat) (i : Nat),
    (keeperFinish cfg ty i l).1 =
      (List.range l.length).map (fun k => Rec.conStatus ty (i + k) (cfg.name ty (i + k))
        (l.getD k .fresh == .unused) (l.getD k .fresh != .fresh) (l.getD k .fresh == .fresh))
  | [], _ => by simp [keeperFinish]
  | st :: l, i => by
    have ih := kf_records cfg ty l (i + 1)
    simp only [keeperFinish, ih, List.length_cons, List.range_succ_eq_map, List.map_cons, List.map_map]
    simp only [Nat.add_zero, List.getD_cons_zero, List.cons.injEq, true_and]
    apply List.map_congr_left
    intro k _
    simp only [Function.comp, List.getD_cons_succ]
    rw [show i + 1 + k = i + (k + 1) by omega]

/-- a keeper hands over exactly its non-bridged constraints, and marks exactly those `final` -/
theorem kf_delivered (cfg : Cfg) (ty : Str) : ∀ (l : List CStat) (i : Nat),
    markedDelivered (keeperFinish cfg ty i l).1 = (keeperFinish cfg ty i l).2.map (fun c => (c.ty, c.name))
  | [], _ => by simp [keeperFinish, markedDelivered]
  | st :: l, i => by
    have ih := kf_delivered cfg ty l (i + 1)
    cases st <;> simp [keeperFinish, markedDelivered, ih]

/-! ### all keepers -/

theorem af_status (cfg : Cfg) (cons : Str → List CStat) : ∀ (tys : List Str) (r : Rec),
    r ∈ (allFinish cfg cons tys).1 → isStatus r = true ∧ (∀ t, isNew t r = false)
  | [], r, h => by simp [allFinish] at h
  | ty :: tys, r, h => by
    simp only [allFinish, List.mem_append] at h
    rcases h with h | h
    · have := kf_status cfg ty _ _ r h; exact ⟨this.2.1, this.2.2⟩
    · exact af_status cfg cons tys r h

theorem af_filter (cfg : Cfg) (cons : Str → List CStat) (ty : Str) : ∀ (tys : List Str), tys.Nodup →
    (allFinish cfg cons tys).1.filter (isStatusTy ty) = if ty ∈ tys then (keeperFinish cfg ty 0 (cons ty)).1 else []
  | [], _ => by simp [allFinish]
  | t :: tys, hn => by
    have hn' := (List.nodup_cons.mp hn)
    have ih := af_filter cfg cons ty tys hn'.2
    simp only [allFinish, List.filter_append, ih]
    by_cases e : ty = t
    · subst e
      have h1 : (keeperFinish cfg ty 0 (cons ty)).1.filter (isStatusTy ty) = (keeperFinish cfg ty 0 (cons ty)).1 :=
        List.filter_eq_self.mpr (fun r hr => (kf_status cfg ty _ _ r hr).1)
      simp [h1, hn'.1]
    · have h1 : (keeperFinish cfg t 0 (cons t)).1.filter (isStatusTy ty) = [] := by
        apply List.filter_eq_nil_iff.mpr
        intro r hr
        have := (kf_status cfg t _ _ r hr).1
        cases r <;> simp [isStatusTy] at this ⊢
        subst this; exact fun h => e h.symm
      have : (ty ∈ t :: tys) ↔ ty ∈ tys := by simp [e]
      simp [h1, this]

theorem af_delivered (cfg : Cfg) (cons : Str → List CStat) : ∀ (tys : List Str),
    markedDelivered (allFinish cfg cons tys).1 = (allFinish cfg cons tys).2.map (fun c => (c.ty, c.name))
  | [] => by simp [allFinish, markedDelivered]
  | t :: tys => by
    simp only [allFinish, md_append, List.map_append, kf_delivered, af_delivered cfg cons tys]

/-! ### sizes of value nodes only grow -/

def SLe (s s' : XState) : Prop :=
  s.vars.length ≤ s'.vars.length ∧ (∀ ty, (s.cons ty).length ≤ (s'.cons ty).length) ∧
  (∀ g, (s.delivered.filter (fun c => c.grp == g)).length ≤ (s'.delivered.filter (fun c => c.grp == g)).length) ∧
  (∀ t, s.extra t ≤ s'.extra t)

theorem SLe_refl (s : XState) : SLe s s := ⟨Nat.le_refl _, fun _ => Nat.le_refl _, fun _ => Nat.le_refl _, fun _ => Nat.le_refl _⟩

theorem refIn_of_le (cfg : Cfg) (s s' : XState) (h : SLe s s') (r : NodeRef) (hr : refIn cfg s r = true) :
    refIn cfg s' r = true := by
  unfold refIn at hr ⊢
  unfold sizeNow at hr ⊢
  by_cases h1 : r.node = cl!"dest_vars()"
  · simp only [h1, if_true, Bool.and_eq_true, decide_eq_true_eq] at hr ⊢
    exact ⟨hr.1, Nat.lt_of_lt_of_le hr.2 h.1⟩
  · simp only [h1, if_false] at hr ⊢
    by_cases hl : cfg.addNodes.contains r.node = true
    · rw [if_pos hl] at hr ⊢
      simp only [Bool.and_eq_true, decide_eq_true_eq] at hr ⊢
      exact ⟨hr.1, Nat.lt_of_lt_of_le hr.2 (h.2.2.2 r.node)⟩
    · rw [if_neg hl] at hr ⊢
      cases hg : destConsGroup? r.node with
      | some g =>
        simp only [hg, Bool.and_eq_true, decide_eq_true_eq] at hr ⊢
        exact ⟨hr.1, Nat.lt_of_lt_of_le hr.2 (h.2.2.1 g)⟩
      | none =>
        simp only [hg] at hr ⊢
        by_cases hc : cfg.types.contains r.node = true
        · simp only [hc, if_true, Bool.and_eq_true, decide_eq_true_eq] at hr ⊢
          exact ⟨hr.1, Nat.lt_of_lt_of_le hr.2 (h.2.1 r.node)⟩
        · rw [if_neg hc] at hr; exact absurd hr (by simp)

theorem updCons_len_le (f : Str → List CStat) (ty : Str) (l : List CStat) (h : (f ty).length ≤ l.length) :
    ∀ t, (f t).length ≤ (updCons f ty l t).length := by
  intro t; unfold updCons; split
  · rename_i e; subst e; exact h
  · exact Nat.le_refl _

theorem xev_le (cfg : Cfg) (s : XState) (e : Ev) (hd : s.finished = false → s.delivered = []) : SLe s (xev cfg s e) := by
  cases e with
  | addVar b info =>
    simp only [xev]; split
    · exact SLe_refl s
    · exact ⟨by simp [addVarState], fun _ => Nat.le_refl _, fun _ => Nat.le_refl _, fun _ => Nat.le_refl _⟩
  | setVar i info =>
    simp only [xev]; split
    · exact SLe_refl s
    · split
      · exact ⟨by simp [setAt], fun _ => Nat.le_refl _, fun _ => Nat.le_refl _, fun _ => Nat.le_refl _⟩
      · exact SLe_refl s
  | store ty =>
    simp only [xev]; split
    · exact SLe_refl s
    · exact ⟨Nat.le_refl _, updCons_len_le _ _ _ (by simp), fun _ => Nat.le_refl _, fun _ => Nat.le_refl _⟩
  | bridge ty i =>
    simp only [xev]; split
    · exact SLe_refl s
    · exact ⟨Nat.le_refl _, updCons_len_le _ _ _ (by simp [setAt]), fun _ => Nat.le_refl _, fun _ => Nat.le_refl _⟩
  | unuse ty i =>
    simp only [xev]; split
    · exact SLe_refl s
    · exact ⟨Nat.le_refl _, updCons_len_le _ _ _ (by simp [setAt]), fun _ => Nat.le_refl _, fun _ => Nat.le_refl _⟩
  | addItems node n =>
    simp only [xev]; split
    · exact SLe_refl s
    · refine ⟨Nat.le_refl _, fun _ => Nat.le_refl _, fun _ => Nat.le_refl _, fun t => ?_⟩
      simp only [addItemsState]; split
      · rename_i e; subst e; omega
      · exact Nat.le_refl _
  | nlObj => simp only [xev]; split <;> exact ⟨Nat.le_refl _, fun _ => Nat.le_refl _, fun _ => Nat.le_refl _, fun _ => Nat.le_refl _⟩
  | nlCon l => simp only [xev]; split <;> exact ⟨Nat.le_refl _, fun _ => Nat.le_refl _, fun _ => Nat.le_refl _, fun _ => Nat.le_refl _⟩
  | nlDefVar => simp only [xev]; split <;> exact ⟨Nat.le_refl _, fun _ => Nat.le_refl _, fun _ => Nat.le_refl _, fun _ => Nat.le_refl _⟩
  | addObj info => simp only [xev]; split <;> exact ⟨Nat.le_refl _, fun _ => Nat.le_refl _, fun _ => Nat.le_refl _, fun _ => Nat.le_refl _⟩
  | setObj i info => simp only [xev]; split <;> exact ⟨Nat.le_refl _, fun _ => Nat.le_refl _, fun _ => Nat.le_refl _, fun _ => Nat.le_refl _⟩
  | link lty en src dst =>
    simp only [xev]; split
    · exact ⟨Nat.le_refl _, fun _ => Nat.le_refl _, fun _ => Nat.le_refl _, fun _ => Nat.le_refl _⟩
    · exact SLe_refl s
  | finish =>
    simp only [xev]; split
    · exact SLe_refl s
    · rename_i hf
      have : s.delivered = [] := hd (by simpa using hf)
      exact ⟨Nat.le_refl _, fun _ => Nat.le_refl _, fun g => by simp [finishState, this], fun _ => Nat.le_refl _⟩

/-! ### the invariant -/

/-- the configuration is sane: keeper types are distinct and are not names of the other value nodes -/
structure CfgOk (cfg : Cfg) : Prop where
  nodup : cfg.types.Nodup
  tyRes : ∀ ty, cfg.types.contains ty = true →
    ty ≠ cl!"dest_vars()" ∧ cfg.addNodes.contains ty = false ∧ destConsGroup? ty = none
  addRes : ∀ n, cfg.addNodes.contains n = true → n ≠ cl!"dest_vars()"

theorem size_vars (cfg : Cfg) (s : XState) : sizeNow cfg s cl!"dest_vars()" = some s.vars.length := by simp [sizeNow]

theorem size_add (cfg : Cfg) (ok : CfgOk cfg) (s : XState) (n : Str) (h : cfg.addNodes.contains n = true) :
    sizeNow cfg s n = some (s.extra n) := by
  have h1 := ok.addRes n h
  unfold sizeNow
  rw [if_neg h1, if_pos h]

theorem size_ty (cfg : Cfg) (ok : CfgOk cfg) (s : XState) (ty : Str) (h : cfg.types.contains ty = true) :
    sizeNow cfg s ty = some (s.cons ty).length := by
  obtain ⟨h1, h2, h3⟩ := ok.tyRes ty h
  unfold sizeNow
  rw [if_neg h1, if_neg (by rw [h2]; simp), h3]
  simp only [h, if_true]

structure EInv (cfg : Cfg) (s : XState) : Prop where
  /-- the creation records of type `ty` are exactly `0 .. n-1`, in order, `n` = number of stored constraints -/
  news : ∀ ty, s.out.filter (isNew ty) = (List.range (s.cons ty).length).map (Rec.conNew ty)
  /-- no status record and no delivery before the push -/
  nostat : s.finished = false → ∀ r, r ∈ s.out → isStatus r = false
  nodeliv : s.finished = false → s.delivered = []
  /-- every exported link endpoint lies inside the current size of its value node -/
  links : ∀ lty e src dst, Rec.link lty e src dst ∈ s.out → ∀ r, (r ∈ src ∨ r ∈ dst) → refIn cfg s r = true
  /-- every `NodeRange` handed out by `Select`/`Add` lies inside the item count of its class ("node size ≤ item count") -/
  createdIn : ∀ a, a ∈ s.created → refIn cfg s a = true
  /-- every flat variable has a record, and no record names a variable that does not exist -/
  vars1 : ∀ i, i < s.vars.length → ∃ b info, Rec.var i b info ∈ s.out
  vars2 : ∀ i b info, Rec.var i b info ∈ s.out → i < s.vars.length
  /-- after the push: the status records of each type are exactly those `AddAllUnbridged` writes for the stored
      constraints, and the records marked `final` are exactly what was handed to the ModelAPI -/
  fin : s.finished = true →
    (∀ ty, ty ∈ cfg.types → s.out.filter (isStatusTy ty) = (keeperFinish cfg ty 0 (s.cons ty)).1) ∧
    markedDelivered s.out = s.delivered.map (fun c => (c.ty, c.name)) ∧
    s.delivered = (allFinish cfg s.cons cfg.types).2

theorem varRecs_mem : ∀ (l : List (Bool × VarInfo)) (i0 : Nat) (r : Rec), r ∈ varRecs i0 l →
    ∃ k b info, r = Rec.var (i0 + k) b info ∧ k < l.length
  | [], _, r, h => by simp [varRecs] at h
  | (b, info) :: l, i0, r, h => by
    simp only [varRecs, List.mem_cons] at h
    rcases h with h | h
    · exact ⟨0, b, info, by simpa using h, by simp⟩
    · obtain ⟨k, b', info', e, hk⟩ := varRecs_mem l (i0 + 1) r h
      exact ⟨k + 1, b', info', by rw [e]; congr 1; omega, by simp; omega⟩

theorem filter_append_nil {α : Type} (p : α → Bool) (a b : List α) (h : ∀ x, x ∈ b → p x = false) :
    (a ++ b).filter p = a.filter p := by
  have hb : b.filter p = [] := List.filter_eq_nil_iff.mpr (fun x hx => by simp [h x hx])
  rw [List.filter_append, hb, List.append_nil]

theorem einv_init (cfg : Cfg) : EInv cfg {} := by
  refine ⟨fun ty => by simp, fun _ r hr => by simp at hr, fun _ => rfl, ?_, fun a h => by simp at h, ?_, ?_, fun h => by simp at h⟩
  · intro lty e src dst h; simp at h
  · intro i h; simp at h
  · intro i b info h; simp at h

/-- a state that differs from `s` only in fields the invariant reads monotonically / not at all -/
theorem einv_reject (cfg : Cfg) (s : XState) (h : EInv cfg s) : EInv cfg (reject s) :=
  ⟨h.news, h.nostat, h.nodeliv, h.links, h.createdIn, h.vars1, h.vars2, h.fin⟩

theorem isStatusTy_isStatus (ty : Str) (r : Rec) (h : isStatus r = false) : isStatusTy ty r = false := by
  cases r <;> simp [isStatus] at h <;> simp [isStatusTy]

theorem updCons_same (f : Str → List CStat) (ty : Str) (l : List CStat) : updCons f ty l ty = l := by simp [updCons]
theorem updCons_other (f : Str → List CStat) (ty t : Str) (l : List CStat) (h : t ≠ ty) : updCons f ty l t = f t := by
  simp [updCons, h]

theorem einv_addVar (cfg : Cfg) (s : XState) (h : EInv cfg s) (b : Bool) (info : VarInfo) (hf : s.finished = false) :
    EInv cfg (addVarState s b info) := by
  have hle : SLe s (addVarState s b info) :=
    ⟨by simp [addVarState], fun _ => Nat.le_refl _, fun _ => Nat.le_refl _, fun _ => Nat.le_refl _⟩
  unfold addVarState at hle ⊢
  refine ⟨?_, ?_, h.nodeliv, ?_, ?_, ?_, ?_, fun hfin => by simp [hf] at hfin⟩
  · intro ty; simp only []; rw [filter_append_nil _ _ _ (by intro x hx; simp at hx; subst hx; rfl)]; exact h.news ty
  · intro _ r hr; simp only [List.mem_append, List.mem_singleton] at hr
    rcases hr with hr | hr
    · exact h.nostat hf r hr
    · subst hr; rfl
  · intro lty e src dst hm r hr
    simp only [List.mem_append, List.mem_singleton] at hm
    rcases hm with hm | hm
    · exact refIn_of_le cfg s _ hle r (h.links lty e src dst hm r hr)
    · cases hm
  · intro a ha
    simp only [List.mem_append, List.mem_singleton] at ha
    rcases ha with ha | ha
    · exact refIn_of_le cfg s _ hle a (h.createdIn a ha)
    · subst ha; simp [refIn, size_vars]
  · intro i hi
    simp only [List.length_append, List.length_singleton] at hi
    by_cases e : i < s.vars.length
    · obtain ⟨b', info', hm⟩ := h.vars1 i e
      exact ⟨b', info', by simp [hm]⟩
    · have : i = s.vars.length := by omega
      subst this; exact ⟨b, info, by simp⟩
  · intro i b' info' hm
    simp only [List.mem_append, List.mem_singleton] at hm
    simp only [List.length_append, List.length_singleton]
    rcases hm with hm | hm
    · have := h.vars2 i b' info' hm; omega
    · cases hm; omega

theorem einv_sameOut (cfg : Cfg) (s s' : XState) (h : EInv cfg s) (hle : SLe s s') (ho : s'.out = s.out)
    (hv : s'.vars.length = s.vars.length) (hc : ∀ ty, (s'.cons ty).length = (s.cons ty).length)
    (hd : s'.delivered = s.delivered) (hf : s'.finished = s.finished) (hnf : s.finished = false)
    (hcr : s'.created = s.created) : EInv cfg s' := by
  refine ⟨?_, ?_, ?_, ?_, ?_, ?_, ?_, fun hfin => by rw [hf, hnf] at hfin; cases hfin⟩
  · intro ty; rw [ho, hc]; exact h.news ty
  · intro _ r hr; rw [ho] at hr; exact h.nostat hnf r hr
  · intro _; rw [hd]; exact h.nodeliv hnf
  · intro lty e src dst hm r hr; rw [ho] at hm
    exact refIn_of_le cfg s s' hle r (h.links lty e src dst hm r hr)
  · intro a ha; rw [hcr] at ha; exact refIn_of_le cfg s s' hle a (h.createdIn a ha)
  · intro i hi; rw [hv] at hi; rw [ho]; exact h.vars1 i hi
  · intro i b info hm; rw [ho] at hm; rw [hv]; exact h.vars2 i b info hm

theorem einv_store (cfg : Cfg) (ok : CfgOk cfg) (s : XState) (h : EInv cfg s) (ty0 : Str) (hf : s.finished = false)
    (hty : cfg.types.contains ty0 = true) :
    EInv cfg (storeState s ty0) := by
  have hle : SLe s (storeState s ty0) :=
    ⟨Nat.le_refl _, updCons_len_le _ _ _ (by simp), fun _ => Nat.le_refl _, fun _ => Nat.le_refl _⟩
  unfold storeState at hle ⊢
  refine ⟨?_, ?_, h.nodeliv, ?_, ?_, ?_, ?_, fun hfin => by simp [hf] at hfin⟩
  · intro ty
    simp only []
    by_cases e : ty = ty0
    · subst e
      rw [updCons_same, List.filter_append, h.news ty]
      simp [isNew, List.range_succ]
    · rw [updCons_other _ _ _ _ e, filter_append_nil _ _ _ (by
        intro x hx; simp at hx; subst hx; simp [isNew]; exact fun h => e h.symm)]
      exact h.news ty
  · intro _ r hr; simp only [List.mem_append, List.mem_singleton] at hr
    rcases hr with hr | hr
    · exact h.nostat hf r hr
    · subst hr; rfl
  · intro lty e src dst hm r hr
    simp only [List.mem_append, List.mem_singleton] at hm
    rcases hm with hm | hm
    · exact refIn_of_le cfg s _ hle r (h.links lty e src dst hm r hr)
    · cases hm
  · intro a ha
    simp only [List.mem_append, List.mem_singleton] at ha
    rcases ha with ha | ha
    · exact refIn_of_le cfg s _ hle a (h.createdIn a ha)
    · subst ha
      simp [refIn, size_ty cfg ok _ ty0 hty, updCons_same]
  · intro i hi
    obtain ⟨b', info', hm⟩ := h.vars1 i hi
    exact ⟨b', info', by simp [hm]⟩
  · intro i b' info' hm
    simp only [List.mem_append, List.mem_singleton] at hm
    rcases hm with hm | hm
    · exact h.vars2 i b' info' hm
    · cases hm

theorem covered_refIn (cfg : Cfg) (s : XState) (h : EInv cfg s) (r : NodeRef) (hc : covered cfg s r = true) :
    refIn cfg s r = true := by
  unfold covered at hc
  simp only [Bool.and_eq_true, decide_eq_true_eq] at hc
  obtain ⟨hle, hc⟩ := hc
  cases hg : destConsGroup? r.node with
  | some g =>
    simp only [hg, Bool.and_eq_true, Bool.not_eq_true', decide_eq_false_iff_not, decide_eq_true_eq] at hc
    obtain ⟨⟨h1, h2⟩, h3⟩ := hc
    unfold refIn sizeNow
    rw [if_neg h1, if_neg (by rw [h2]; simp)]
    simp only [hg, Bool.and_eq_true, decide_eq_true_eq]
    exact ⟨hle, h3⟩
  | none =>
    simp only [hg, List.any_eq_true, Bool.and_eq_true, decide_eq_true_eq] at hc
    obtain ⟨a, ha, hn, hl⟩ := hc
    have hr := h.createdIn a ha
    unfold refIn at hr ⊢
    rw [hn] at hr
    cases hs : sizeNow cfg s r.node with
    | none => simp [hs] at hr
    | some sz =>
      simp only [hs, Bool.and_eq_true, decide_eq_true_eq] at hr ⊢
      exact ⟨hle, by omega⟩

theorem einv_link (cfg : Cfg) (s : XState) (h : EInv cfg s) (lty : Str) (en : Nat) (src dst : List NodeRef)
    (hg : (src.all (covered cfg s) && dst.all (covered cfg s)) = true) :
    EInv cfg { s with out := s.out ++ [Rec.link lty en src dst] } := by
  simp only [Bool.and_eq_true, List.all_eq_true] at hg
  refine ⟨?_, ?_, h.nodeliv, ?_, h.createdIn, ?_, ?_, ?_⟩
  · intro ty; simp only []; rw [filter_append_nil _ _ _ (by intro x hx; simp at hx; subst hx; rfl)]; exact h.news ty
  · intro hf r hr; simp only [List.mem_append, List.mem_singleton] at hr
    rcases hr with hr | hr
    · exact h.nostat hf r hr
    · subst hr; rfl
  · intro lty' e' src' dst' hm r hr
    simp only [List.mem_append, List.mem_singleton] at hm
    rcases hm with hm | hm
    · exact h.links lty' e' src' dst' hm r hr
    · cases hm
      rcases hr with hr | hr
      · exact covered_refIn cfg s h r (hg.1 r hr)
      · exact covered_refIn cfg s h r (hg.2 r hr)
  · intro i hi
    obtain ⟨b', info', hm⟩ := h.vars1 i hi
    exact ⟨b', info', by simp [hm]⟩
  · intro i b' info' hm
    simp only [List.mem_append, List.mem_singleton] at hm
    rcases hm with hm | hm
    · exact h.vars2 i b' info' hm
    · cases hm
  · intro hfin
    obtain ⟨f1, f2, f3⟩ := h.fin hfin
    refine ⟨?_, ?_, f3⟩
    · intro ty hty; simp only []
      rw [filter_append_nil _ _ _ (by intro x hx; simp at hx; subst hx; rfl)]; exact f1 ty hty
    · simp only [md_append]; rw [f2]; simp [markedDelivered]

theorem objRecs_mem : ∀ (l : List ObjInfo) (i0 : Nat) (r : Rec), r ∈ objRecs i0 l →
    ∃ k o, r = Rec.obj (i0 + k) o ∧ l[k]? = some o
  | [], _, r, h => by simp [objRecs] at h
  | o :: l, i0, r, h => by
    simp only [objRecs, List.mem_cons] at h
    rcases h with h | h
    · exact ⟨0, o, by simpa using h, by simp⟩
    · obtain ⟨k, o', e, hk⟩ := objRecs_mem l (i0 + 1) r h
      exact ⟨k + 1, o', by rw [e]; congr 1; omega, by simpa using hk⟩

/-- an event that appends one record which is neither a creation, status, link nor variable record and leaves the
    variables, keepers, deliveries, node sizes and handed-out ranges alone -/
theorem einv_append1 (cfg : Cfg) (s s' : XState) (h : EInv cfg s) (r : Rec)
    (ho : s'.out = s.out ++ [r]) (hv : s'.vars = s.vars) (hc : s'.cons = s.cons) (hd : s'.delivered = s.delivered)
    (hf : s'.finished = s.finished) (he : s'.extra = s.extra) (hcr : s'.created = s.created) (hnf : s.finished = false)
    (k1 : ∀ ty, isNew ty r = false) (k2 : isStatus r = false) (k3 : ∀ lty e a b, r ≠ Rec.link lty e a b)
    (k4 : ∀ i b info, r ≠ Rec.var i b info) : EInv cfg s' := by
  have hle : SLe s s' := ⟨by rw [hv]; exact Nat.le_refl _, fun t => by rw [hc]; exact Nat.le_refl _,
    fun g => by rw [hd]; exact Nat.le_refl _, fun t => by rw [he]; exact Nat.le_refl _⟩
  refine ⟨?_, ?_, ?_, ?_, ?_, ?_, ?_, fun hfin => by rw [hf, hnf] at hfin; cases hfin⟩
  · intro ty; rw [ho, hc, filter_append_nil _ _ _ (by intro x hx; simp at hx; subst hx; exact k1 ty)]; exact h.news ty
  · intro _ x hx; rw [ho] at hx; simp only [List.mem_append, List.mem_singleton] at hx
    rcases hx with hx | hx
    · exact h.nostat hnf x hx
    · subst hx; exact k2
  · intro _; rw [hd]; exact h.nodeliv hnf
  · intro lty e src dst hm x hx; rw [ho] at hm; simp only [List.mem_append, List.mem_singleton] at hm
    rcases hm with hm | hm
    · exact refIn_of_le cfg s s' hle x (h.links lty e src dst hm x hx)
    · exact absurd hm.symm (k3 lty e src dst)
  · intro a ha; rw [hcr] at ha; exact refIn_of_le cfg s s' hle a (h.createdIn a ha)
  · intro i hi; rw [hv] at hi; obtain ⟨b, info, hm⟩ := h.vars1 i hi; exact ⟨b, info, by rw [ho]; simp [hm]⟩
  · intro i b info hm; rw [ho] at hm; simp only [List.mem_append, List.mem_singleton] at hm
    rw [hv]
    rcases hm with hm | hm
    · exact h.vars2 i b info hm
    · exact absurd hm.symm (k4 i b info)

theorem einv_finish (cfg : Cfg) (hn : cfg.types.Nodup) (s : XState) (h : EInv cfg s) (hf : s.finished = false) :
    EInv cfg (finishState cfg s) := by
  have hd := h.nodeliv hf
  have hle : SLe s (finishState cfg s) :=
    ⟨Nat.le_refl _, fun _ => Nat.le_refl _, fun g => by simp [finishState, hd], fun _ => Nat.le_refl _⟩
  -- classification of the appended records
  have hvar : ∀ r, r ∈ varRecs 0 s.vars → ∃ k b info, r = Rec.var k b info ∧ k < s.vars.length := by
    intro r hr; obtain ⟨k, b, info, e, hk⟩ := varRecs_mem s.vars 0 r hr
    exact ⟨k, b, info, by simpa using e, hk⟩
  have hobj : ∀ r, r ∈ objRecs 0 s.objs → ∃ k o, r = Rec.obj k o := by
    intro r hr; obtain ⟨k, o, e, _⟩ := objRecs_mem s.objs 0 r hr; exact ⟨_, o, e⟩
  have hgrp : ∀ r, r ∈ cfg.types.map (fun ty => Rec.conGroup ty (cfg.grp ty)) → ∃ t g, r = Rec.conGroup t g := by
    intro r hr; simp only [List.mem_map] at hr; obtain ⟨t, _, e⟩ := hr; exact ⟨t, _, e.symm⟩
  have hmem : ∀ r, r ∈ finishRecs cfg s → (∃ k b info, r = Rec.var k b info ∧ k < s.vars.length) ∨ (∃ k o, r = Rec.obj k o) ∨
      r ∈ (allFinish cfg s.cons cfg.types).1 ∨ (∃ t g, r = Rec.conGroup t g) := by
    intro r hr
    simp only [finishRecs, List.mem_append] at hr
    rcases hr with hr | hr | hr | hr
    · exact Or.inl (hvar r hr)
    · exact Or.inr (Or.inl (hobj r hr))
    · exact Or.inr (Or.inr (Or.inl hr))
    · exact Or.inr (Or.inr (Or.inr (hgrp r hr)))
  have hnotnew : ∀ ty r, r ∈ finishRecs cfg s → isNew ty r = false := by
    intro ty r hr
    rcases hmem r hr with ⟨k, b, info, e, _⟩ | ⟨k, o, e⟩ | hr' | ⟨t, g, e⟩
    · subst e; rfl
    · subst e; rfl
    · exact (af_status cfg s.cons cfg.types r hr').2 ty
    · subst e; rfl
  refine ⟨?_, fun hfin => by simp [finishState] at hfin, fun hfin => by simp [finishState] at hfin, ?_,
    fun a ha => refIn_of_le cfg s _ hle a (h.createdIn a ha), ?_, ?_, ?_⟩
  · intro ty; simp only [finishState]; rw [filter_append_nil _ _ _ (hnotnew ty)]; exact h.news ty
  · intro lty e src dst hm r hr
    simp only [finishState, List.mem_append] at hm
    rcases hm with hm | hm
    · exact refIn_of_le cfg s _ hle r (h.links lty e src dst hm r hr)
    · rcases hmem _ hm with ⟨k, b, info, e', _⟩ | ⟨k, o, e'⟩ | hr' | ⟨t, g, e'⟩
      · cases e'
      · cases e'
      · have := (af_status cfg s.cons cfg.types _ hr').1; simp [isStatus] at this
      · cases e'
  · intro i hi
    obtain ⟨b', info', hm⟩ := h.vars1 i hi
    exact ⟨b', info', by simp [finishState, hm]⟩
  · intro i b' info' hm
    simp only [finishState, List.mem_append] at hm
    rcases hm with hm | hm
    · exact h.vars2 i b' info' hm
    · rcases hmem _ hm with ⟨k, b, info, e', hk⟩ | ⟨k, o, e'⟩ | hr' | ⟨t, g, e'⟩
      · cases e'; exact hk
      · cases e'
      · have := (af_status cfg s.cons cfg.types _ hr').1; simp [isStatus] at this
      · cases e'
  · intro _
    have hold : ∀ r, r ∈ s.out → isStatus r = false := h.nostat hf
    have hvs : ∀ r, r ∈ varRecs 0 s.vars → isStatus r = false := by
      intro r hr; obtain ⟨k, b, info, e, _⟩ := hvar r hr; subst e; rfl
    have hos : ∀ r, r ∈ objRecs 0 s.objs → isStatus r = false := by
      intro r hr; obtain ⟨k, o, e⟩ := hobj r hr; subst e; rfl
    have hgs : ∀ r, r ∈ cfg.types.map (fun ty => Rec.conGroup ty (cfg.grp ty)) → isStatus r = false := by
      intro r hr; obtain ⟨t, g, e⟩ := hgrp r hr; subst e; rfl
    refine ⟨?_, ?_, rfl⟩
    · intro ty hty
      simp only [finishState, finishRecs, List.filter_append]
      have e1 : s.out.filter (isStatusTy ty) = [] :=
        List.filter_eq_nil_iff.mpr (fun r hr => by simp [isStatusTy_isStatus ty r (hold r hr)])
      have e2 : (varRecs 0 s.vars).filter (isStatusTy ty) = [] :=
        List.filter_eq_nil_iff.mpr (fun r hr => by simp [isStatusTy_isStatus ty r (hvs r hr)])
      have e4 : (objRecs 0 s.objs).filter (isStatusTy ty) = [] :=
        List.filter_eq_nil_iff.mpr (fun r hr => by simp [isStatusTy_isStatus ty r (hos r hr)])
      have e3 : (cfg.types.map (fun ty => Rec.conGroup ty (cfg.grp ty))).filter (isStatusTy ty) = [] :=
        List.filter_eq_nil_iff.mpr (fun r hr => by simp [isStatusTy_isStatus ty r (hgs r hr)])
      rw [e1, e2, e3, e4, af_filter cfg s.cons ty cfg.types hn]
      simp [hty]
    · simp only [finishState, finishRecs, md_append, md_nostatus _ hold, md_nostatus _ hvs, md_nostatus _ hos, md_nostatus _ hgs, af_delivered]
      simp

theorem einv_step (cfg : Cfg) (ok : CfgOk cfg) (s : XState) (h : EInv cfg s) (e : Ev) : EInv cfg (xev cfg s e) := by
  have hn := ok.nodup
  cases e with
  | addVar b info =>
    simp only [xev]; split
    · exact einv_reject cfg s h
    · rename_i hf; exact einv_addVar cfg s h b info (by simpa using hf)
  | setVar i info =>
    simp only [xev]; split
    · exact einv_reject cfg s h
    · rename_i hf
      split
      · exact einv_sameOut cfg s _ h ⟨by simp [setAt], fun _ => Nat.le_refl _, fun _ => Nat.le_refl _, fun _ => Nat.le_refl _⟩ rfl (by simp [setAt])
          (fun _ => rfl) rfl rfl (by simpa using hf) rfl
      · exact einv_reject cfg s h
  | store ty =>
    simp only [xev]; split
    · exact einv_reject cfg s h
    · rename_i hf
      simp only [Bool.or_eq_true, Bool.not_eq_true', not_or] at hf
      exact einv_store cfg ok s h ty (by simpa using hf.1) (by simpa using hf.2)
  | bridge ty i =>
    simp only [xev]; split
    · exact einv_reject cfg s h
    · rename_i hf
      simp only [Bool.or_eq_true, Bool.not_eq_true', not_or] at hf
      have hlen : ∀ t, (updCons s.cons ty (setAt (s.cons ty) i .bridged) t).length = (s.cons t).length := by
        intro t; unfold updCons; split
        · rename_i e; subst e; simp [setAt]
        · rfl
      exact einv_sameOut cfg s _ h ⟨Nat.le_refl _, fun t => by rw [hlen t]; exact Nat.le_refl _, fun _ => Nat.le_refl _, fun _ => Nat.le_refl _⟩ rfl rfl hlen rfl rfl
        (by simpa using hf.1.1) rfl
  | unuse ty i =>
    simp only [xev]; split
    · exact einv_reject cfg s h
    · rename_i hf
      simp only [Bool.or_eq_true, Bool.not_eq_true', not_or] at hf
      have hlen : ∀ t, (updCons s.cons ty (setAt (s.cons ty) i .unused) t).length = (s.cons t).length := by
        intro t; unfold updCons; split
        · rename_i e; subst e; simp [setAt]
        · rfl
      exact einv_sameOut cfg s _ h ⟨Nat.le_refl _, fun t => by rw [hlen t]; exact Nat.le_refl _, fun _ => Nat.le_refl _, fun _ => Nat.le_refl _⟩ rfl rfl hlen rfl rfl
        (by simpa using hf.1.1) rfl
  | addItems node n =>
    simp only [xev]; split
    · exact einv_reject cfg s h
    · rename_i hf
      simp only [Bool.or_eq_true, Bool.not_eq_true', decide_eq_true_eq, not_or] at hf
      obtain ⟨⟨hf1, hf2⟩, hf3⟩ := hf
      have hnode : cfg.addNodes.contains node = true := by simpa using hf2
      have hle : SLe s (addItemsState s node n) := by
        refine ⟨Nat.le_refl _, fun _ => Nat.le_refl _, fun _ => Nat.le_refl _, fun t => ?_⟩
        simp only [addItemsState]; split
        · rename_i e; subst e; omega
        · exact Nat.le_refl _
      refine ⟨h.news, h.nostat, h.nodeliv, ?_, ?_, h.vars1, h.vars2, fun hfin => by simp [addItemsState, hf1] at hfin⟩
      · intro lty e src dst hm r hr
        exact refIn_of_le cfg s _ hle r (h.links lty e src dst hm r hr)
      · intro a ha
        have ha' : a ∈ s.created ++ [⟨node, s.extra node, s.extra node + n - 1⟩] := ha
        simp only [List.mem_append, List.mem_singleton] at ha'
        rcases ha' with ha' | ha'
        · exact refIn_of_le cfg s _ hle a (h.createdIn a ha')
        · subst ha'
          have hs := size_add cfg ok (addItemsState s node n) node hnode
          have he : (addItemsState s node n).extra node = s.extra node + n := by simp [addItemsState]
          rw [he] at hs
          simp only [refIn, hs, Bool.and_eq_true, decide_eq_true_eq]
          omega
  | nlObj =>
    simp only [xev]; split
    · exact einv_reject cfg s h
    · rename_i hf
      exact einv_append1 cfg s _ h (Rec.nlObj s.nlObjs) rfl rfl rfl rfl rfl rfl rfl (by simpa using hf)
        (fun _ => rfl) rfl (fun _ _ _ _ e => by cases e) (fun _ _ _ e => by cases e)
  | nlCon l =>
    simp only [xev]; split
    · exact einv_reject cfg s h
    · rename_i hf
      exact einv_append1 cfg s _ h (Rec.nlCon s.nlCons.length l) rfl rfl rfl rfl rfl rfl rfl (by simpa using hf)
        (fun _ => rfl) rfl (fun _ _ _ _ e => by cases e) (fun _ _ _ e => by cases e)
  | nlDefVar =>
    simp only [xev]; split
    · exact einv_reject cfg s h
    · rename_i hf
      exact einv_append1 cfg s _ h (Rec.nlDefVar s.nlDefs) rfl rfl rfl rfl rfl rfl rfl (by simpa using hf)
        (fun _ => rfl) rfl (fun _ _ _ _ e => by cases e) (fun _ _ _ e => by cases e)
  | addObj info =>
    simp only [xev]; split
    · exact einv_reject cfg s h
    · rename_i hf
      exact einv_append1 cfg s _ h (Rec.obj s.objs.length info) rfl rfl rfl rfl rfl rfl rfl (by simpa using hf)
        (fun _ => rfl) rfl (fun _ _ _ _ e => by cases e) (fun _ _ _ e => by cases e)
  | setObj i info =>
    simp only [xev]; split
    · exact einv_reject cfg s h
    · rename_i hf
      simp only [Bool.or_eq_true, Bool.not_eq_true', not_or] at hf
      exact einv_sameOut cfg s _ h (SLe_refl s) rfl rfl (fun _ => rfl) rfl rfl (by simpa using hf.1) rfl
  | link lty en src dst =>
    simp only [xev]; split
    · rename_i hg; exact einv_link cfg s h lty en src dst hg
    · exact einv_reject cfg s h
  | finish =>
    simp only [xev]; split
    · exact einv_reject cfg s h
    · rename_i hf; exact einv_finish cfg hn s h (by simpa using hf)

theorem einv_run (cfg : Cfg) (hn : CfgOk cfg) : ∀ (evs : List Ev) (s : XState), EInv cfg s → EInv cfg (xevs cfg s evs)
  | [], _, h => h
  | e :: evs, s, h => einv_run cfg hn evs (xev cfg s e) (einv_step cfg hn s h e)

/-! ### count form (`countStatus`, `countNew`, `classSize` are the functions `WellFormed` is stated with) -/

theorem filter_range_eq (i : Nat) : ∀ n, (List.range n).filter (fun k => decide (k = i)) = if i < n then [i] else []
  | 0 => by simp
  | n + 1 => by
    rw [List.range_succ, List.filter_append, filter_range_eq i n]
    by_cases h : i < n
    · have : ¬ n = i := by omega
      simp [h, this, Nat.lt_succ_of_lt h]
    · by_cases e : n = i
      · subst e; simp
      · have : ¬ i < n + 1 := by omega
        simp [h, e, this]

theorem count_in_range_map (p : Rec → Bool) (f : Nat → Rec) (n i : Nat) (hi : i < n)
    (hp : ∀ k, p (f k) = decide (k = i)) : (((List.range n).map f).filter p).length = 1 := by
  rw [List.filter_map]
  have : (p ∘ f) = (fun k => decide (k = i)) := funext hp
  rw [this, filter_range_eq i n]
  simp [hi]

theorem filter_refine (p q : Rec → Bool) (g : List Rec) (h : ∀ r, p r = true → q r = true) :
    g.filter p = (g.filter q).filter p := by
  rw [List.filter_filter]
  apply List.filter_congr
  intro r _
  cases hp : p r with
  | false => simp
  | true => simp [h r hp]

end MpVerif.C20

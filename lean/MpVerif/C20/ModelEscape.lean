import MpVerif.C20.GenBase
/-!
# C20 model: `MiniJSONWriter::EscapeJSON` on **byte strings** (after /repo b8ae903)

A byte string is a `List Nat` with all entries `< 256` (`Bytes`).  `escapeB` consumes the input from the front:
one step looks at the first byte `c` and at most three following bytes.

* `"`, `\`, LF, CR, TAB → two-character escapes; other bytes `< 0x20` → `\u00XY`; other ASCII verbatim;
* a byte `≥ 0x80` that starts a *well-formed* UTF-8 sequence (length from the lead byte, all continuation bytes
  `10xxxxxx`, the four second-byte restrictions of RFC 3629) → the sequence is copied;
* any other byte `≥ 0x80` → `\u00XY` (the byte read as Latin-1).

The RFC 3629 predicate `wfUtf8` and the byte-level JSON string-body grammar `bodyOk` (RFC 8259 §7) are defined
independently of the escaper.
-/
namespace MpVerif.C20
open GenBase

def Bytes (s : List Nat) : Prop := ∀ b, b ∈ s → b < 256

/-- continuation byte `10xxxxxx` -/
def isCont (b : Nat) : Bool := decide (b &&& 192 = 128)

/-- number of continuation bytes announced by lead byte `c` (0: not a lead byte of a multi-byte sequence) -/
def seqLen (c : Nat) : Nat :=
  if 194 ≤ c ∧ c ≤ 223 then 1 else if 224 ≤ c ∧ c ≤ 239 then 2 else if 240 ≤ c ∧ c ≤ 244 then 3 else 0

/-- second bytes excluded by RFC 3629 (overlong forms, surrogates, beyond U+10FFFF) -/
def badSecond (c c1 : Nat) : Bool :=
  ((((decide (c = 224)) && (decide (c1 < 160))) || ((decide (c = 237)) && (decide (c1 > 159)))) || ((decide (c = 240)) && (decide (c1 < 144)))) || ((decide (c = 244)) && (decide (c1 > 143)))

/-- does `c :: t` start with a well-formed multi-byte sequence, as `EscapeJSON` decides it? -/
def seqOk (c : Nat) (t : List Nat) : Bool :=
  decide (seqLen c > 0) && decide (seqLen c ≤ t.length) && (t.take (seqLen c)).all isCont && !badSecond c (t.headD 0)

/-- one loop iteration on the remaining input `c :: t`: (bytes written, number of *additional* bytes consumed) -/
def escStep (c : Nat) (t : List Nat) : List Nat × Nat :=
  if c = 34 then ([92, 34], 0)
  else if c = 92 then ([92, 92], 0)
  else if c = 10 then ([92, 110], 0)
  else if c = 13 then ([92, 114], 0)
  else if c = 9 then ([92, 116], 0)
  else if c < 32 then (fmtU4 c, 0)
  else if c < 128 then ([c], 0)
  else if seqOk c t then (c :: t.take (seqLen c), seqLen c)
  else (fmtU4 c, 0)

def escapeBF : Nat → List Nat → List Nat
  | 0, _ => []
  | _, [] => []
  | f + 1, c :: t => (escStep c t).1 ++ escapeBF f (t.drop (escStep c t).2)

/-- `EscapeJSON(s)` -/
def escapeB (s : List Nat) : List Nat := escapeBF s.length s

/-! ## RFC 3629: well-formed UTF-8 (Table 3-7 of Unicode / the ABNF of RFC 3629 §4) -/

def inR (lo hi b : Nat) : Bool := decide (lo ≤ b) && decide (b ≤ hi)

def wfUtf8F : Nat → List Nat → Bool
  | 0, s => s == []
  | _, [] => true
  | f + 1, b :: s =>
    if b < 128 then wfUtf8F f s                                                   -- UTF8-1
    else match s with
      | b1 :: s1 =>
        if inR 194 223 b && inR 128 191 b1 then wfUtf8F f s1                      -- UTF8-2
        else match s1 with
          | b2 :: s2 =>
            if ((b == 224 && inR 160 191 b1) || (inR 225 236 b && inR 128 191 b1) ||
                (b == 237 && inR 128 159 b1) || (inR 238 239 b && inR 128 191 b1)) && inR 128 191 b2 then wfUtf8F f s2   -- UTF8-3
            else match s2 with
              | b3 :: s3 =>
                if ((b == 240 && inR 144 191 b1) || (inR 241 243 b && inR 128 191 b1) || (b == 244 && inR 128 143 b1))
                    && inR 128 191 b2 && inR 128 191 b3 then wfUtf8F f s3         -- UTF8-4
                else false
              | [] => false
          | [] => false
      | [] => false

/-- the byte string is a sequence of well-formed UTF-8 encoded scalar values -/
def wfUtf8 (s : List Nat) : Bool := wfUtf8F s.length s

/-! ## RFC 8259 §7 on bytes: the body of a string literal (what may stand between the quotes) -/

def isHexB (b : Nat) : Bool := inR 48 57 b || inR 97 102 b || inR 65 70 b

def bodyOkF : Nat → List Nat → Bool
  | 0, s => s == []
  | _, [] => true
  | f + 1, b :: s =>
    if b = 34 then false                       -- an unescaped quote would end the string
    else if b < 32 then false                  -- control characters must be escaped
    else if b = 92 then
      match s with
      | e :: s1 =>
        if e = 34 || e = 92 || e = 47 || e = 98 || e = 102 || e = 110 || e = 114 || e = 116 then bodyOkF f s1
        else if e = 117 then
          match s1 with
          | h1 :: h2 :: h3 :: h4 :: s2 => isHexB h1 && isHexB h2 && isHexB h3 && isHexB h4 && bodyOkF f s2
          | _ => false
        else false
      | [] => false
    else bodyOkF f s

def bodyOk (s : List Nat) : Bool := bodyOkF s.length s

end MpVerif.C20

import MpVerif.C20.ModelGraph
namespace MpVerif.C20
theorem C20_stub : True := trivial
end MpVerif.C20

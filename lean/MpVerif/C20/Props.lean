import MpVerif.C20.ModelGraph
import MpVerif.C20.LemmasGraph
import MpVerif.C20.Lemmas
import MpVerif.C20.LemmasExport
import MpVerif.C20.LemmasEscape
import MpVerif.C20.LemmasGen
import MpVerif.C20.LemmasUtf8
import MpVerif.C20.LemmasExporter
import MpVerif.C20.LemmasExporterNL
import MpVerif.C20.LemmasExporterVar
/-!
# C20 — The exported reformulation graph is well-formed and complete

Property theorems only.  Three groups:

* (a) `MiniJSONWriter` (op machine `run`, faithful to the production build: asserts off, `EscapeJSON`,
  non-finite scalars as strings): `C20_writer_text`, `C20_json_roundtrip` (all strings), `C20_any_name_roundtrip`.
* (c) the graph validator: `C20_validator_sound`, `C20_file_sound`.
* (b) the lazy link-export protocol: see the end of the file.
-/
namespace MpVerif.C20

/-! ## (a) the JSON writer -/

/-- Well-nested writes produce exactly the intended text (`", "`/`": "` separators, `[]` for an empty
    sequence, strings and keys escaped) — for every value whose scalars are JSON numbers and that has no
    empty dictionary (which the writer cannot express: an untouched node closes as `[]`, see
    `C20_counterexample_empty_dict`). -/
theorem C20_writer_text (v : Json) (hw : NoEmptyObj v) (hv : Valid v) : writeText v = render v :=
  writeText_eq_render v hw hv

/-- The intended text parses back to the value: **all** strings and keys (any characters), scalars that are
    JSON number tokens. -/
theorem C20_render_parses (v : Json) (hv : Valid v) : parse (render v) = some v :=
  parse_render v hv

/-- **The writer emits valid JSON that denotes the intended value** — at full strength since /repo fffb19f:
    no hypothesis on strings or keys (`Valid` only asks that scalar tokens are JSON numbers, i.e. the
    finite numbers `fmt` prints). -/
theorem C20_json_roundtrip (v : Json) (hv : Valid v) (hw : NoEmptyObj v) : parse (writeText v) = some v := by
  rw [writeText_eq_render v hw hv]; exact parse_render v hv

/-- in particular every name, however hostile, survives -/
theorem C20_any_name_roundtrip (key name : Str) :
    parse (writeText (.obj (.cons key (.str name) .nil))) = some (.obj (.cons key (.str name) .nil)) :=
  C20_json_roundtrip _ (by simp [Valid, ValidM]) (by simp [NoEmptyObj, NoEmptyObjM])

/-- the string lexer inverts `EscapeJSON` on every string -/
theorem C20_escape_inverted (s rest : Str) : lexString (escape s ++ '"' :: rest) = some (s, rest) :=
  lexString_append s rest

/- The former negation witnesses (names with a quote, a trailing backslash, a TAB, `\n`; a key with a quote)
   were true of the code before fffb19f; they are now instances of the theorem: -/
example : (parse (writeText (.obj (.cons cl!"name" (.str cl!"c\"lin") .nil)))).map canon
    = some (canon (.obj (.cons cl!"name" (.str cl!"c\"lin") .nil))) := by decide
example : writeText (.obj (.cons cl!"a\"b" (.str cl!"end\\") .nil)) = cl!"{\"a\\\"b\": \"end\\\\\"}" := by decide
example : writeText (.str ['t', '\t', Char.ofNat 1]) = cl!"\"t\\t\\u0001\"" := by decide

/-- non-finite scalars (`fmt` prints `inf`, `-inf`, `nan`) are written as strings: the line stays valid JSON -/
theorem C20_nonfinite_scalar_is_string :
    (parse (writeText (.obj (.cons cl!"coefs" (.arr (.cons (.num cl!"inf") (.cons (.num cl!"-inf")
        (.cons (.num cl!"nan") .nil)))) .nil)))).map canon
      = some (canon (.obj (.cons cl!"coefs" (.arr (.cons (.str cl!"inf") (.cons (.str cl!"-inf")
        (.cons (.str cl!"nan") .nil)))) .nil))) := by decide

/-- an empty dictionary cannot be written: the node closes as `[]` -/
theorem C20_counterexample_empty_dict : writeText (.obj .nil) = cl!"[]" := by decide

/-- non-vacuity: a record of the shape the exporter writes -/
example : parse (writeText (.obj (.cons cl!"VAR_index" (.num cl!"3")
      (.cons cl!"bounds" (.arr (.cons (.num cl!"-1.79769e+308") (.cons (.num cl!"1e+30") .nil))) .nil))))
    = some (.obj (.cons cl!"VAR_index" (.num cl!"3")
      (.cons cl!"bounds" (.arr (.cons (.num cl!"-1.79769e+308") (.cons (.num cl!"1e+30") .nil))) .nil))) :=
  C20_json_roundtrip _ (by simp [Valid, ValidM, ValidL]; decide) (by simp [NoEmptyObj, NoEmptyObjM, NoEmptyObjL])

/-! ## (c) the graph validator -/

/-- What the property statement says about a decoded export `g` (one record per line) and the independent
    record `d` (NL model sizes; what the ModelAPI received). -/
structure WellFormed (g : List Rec) (d : Delivered) : Prop where
  /-- every variable of the NL model appears (flagged as coming from NL) -/
  nl_vars : ∀ i, i < d.nlVars → ∃ info, Rec.var i true info ∈ g
  /-- every (selected) objective of the NL model appears -/
  nl_objs : ∀ i, i < d.nlObjs → Rec.nlObj i ∈ g
  /-- every common expression (defined variable) of the NL model appears, and no other -/
  nl_defvars : ∀ i, i < d.nlDefVars → Rec.nlDefVar i ∈ g
  nldefvars_exist : ∀ i, Rec.nlDefVar i ∈ g → i < d.nlDefVars
  /-- every algebraic constraint of the NL model appears -/
  nl_alg : ∀ i, i < d.nlAlgCons → Rec.nlCon i false ∈ g
  /-- every logical constraint of the NL model appears (indexed after the algebraic ones) -/
  nl_log : ∀ i, d.nlAlgCons ≤ i → i < d.nlAlgCons + d.nlLogCons → Rec.nlCon i true ∈ g
  /-- every delivered variable appears -/
  dl_vars : ∀ i, i < d.nVars → ∃ b info, Rec.var i b info ∈ g
  /-- every delivered objective appears -/
  dl_objs : ∀ i, i < d.nObjs → ∃ info, Rec.obj i info ∈ g
  /-- the **last** record of each delivered variable describes the variable the ModelAPI received
      (type; which bounds are infinite) -/
  dl_var_last : ∀ i v, d.vars[i]? = some v →
      ∃ pre post b, g = pre ++ Rec.var i b v :: post ∧ ∀ b' v', Rec.var i b' v' ∉ post
  /-- the **last** record of each delivered objective describes the objective the ModelAPI received
      (sense, variables of the linear terms, variable pairs of the quadratic terms, numbers of terms) -/
  dl_obj_last : ∀ i o, d.objs[i]? = some o →
      ∃ pre post, g = pre ++ Rec.obj i o :: post ∧ ∀ o', Rec.obj i o' ∉ post
  /-- variable/objective/NL records mention only items that exist -/
  vars_exist : ∀ i b info, Rec.var i b info ∈ g → i < d.nVars ∧ (b = true ↔ i < d.nlVars)
  objs_exist : ∀ i info, Rec.obj i info ∈ g → i < d.nObjs
  nlobjs_exist : ∀ i, Rec.nlObj i ∈ g → i < d.nlObjs
  nlcons_exist : ∀ i l, Rec.nlCon i l ∈ g → i < d.nlAlgCons + d.nlLogCons ∧ (l = true ↔ d.nlAlgCons ≤ i)
  /-- stored constraints of a type are numbered 0..n-1 without repetition -/
  con_index : ∀ ty i, Rec.conNew ty i ∈ g → i < classSize g ty ∧ countNew g ty i = 1
  /-- each stored constraint has exactly one final status record -/
  one_status : ∀ ty i, Rec.conNew ty i ∈ g → countStatus g ty i = 1
  /-- a status record belongs to a stored constraint and is exactly one of
      delivered (`final`), or not delivered: reformulated / unused (`bridged`) -/
  status_kind : ∀ ty i nm u b f, Rec.conStatus ty i nm u b f ∈ g →
      Rec.conNew ty i ∈ g ∧ ((f = true ∧ b = false ∧ u = false) ∨ (f = false ∧ b = true))
  /-- every link endpoint names an existing item class and its index range lies inside the class size -/
  links : ∀ ty e src dst, Rec.link ty e src dst ∈ g → ∀ r, r ∈ src ∨ r ∈ dst →
      ∃ sz, nodeSize g d r.node = some sz ∧ r.beg ≤ r.last ∧ r.last < sz
  /-- every link record has the shape of its link type (one-to-one ranges of equal length, one item to one range, …) -/
  link_shape : ∀ ty e src dst, Rec.link ty e src dst ∈ g → linkShapeOk ty src dst = true
  /-- the constraints marked delivered are exactly those handed to the ModelAPI (type and name, in order) -/
  delivered : markedDelivered g = d.cons.map (fun c => (c.ty, c.name))
  /-- and the export states the constraint group the ModelAPI uses for each delivered type -/
  groups : ∀ c, c ∈ d.cons → Rec.conGroup c.ty c.grp ∈ g

theorem C20_validator_sound (g : List Rec) (d : Delivered) (h : checkGraph g d = true) : WellFormed g d := by
  unfold checkGraph at h
  simp only [Bool.and_eq_true, List.all_eq_true, List.mem_range, List.contains_iff_mem, beq_iff_eq] at h
  obtain ⟨⟨⟨⟨⟨⟨⟨⟨⟨⟨h1, h2⟩, hdv⟩, h3⟩, h4⟩, h5⟩, h6⟩, hv⟩, ho⟩, h7⟩, h8⟩ := h
  refine ⟨fun i hi => hasVar_spec g i true (h1 i hi), h2, hdv, ?_, ?_, ?_, ?_, fun i hi => hasObj_spec g i (h5 i hi),
    ?_, ?_, ?_, ?_, ?_, ?_, ?_, ?_, ?_, ?_, ?_, h7, h8⟩
  · intro i hm
    have := h6 _ hm
    simpa [recOk] using this
  · intro i hi
    have := h3 i (by omega)
    simpa [show ¬ d.nlAlgCons ≤ i by omega] using this
  · intro i hi1 hi2
    have := h3 i hi2
    simpa [hi1] using this
  · intro i hi
    exact ⟨_, hasVar_spec g i _ (h4 i hi)⟩
  · intro i v hi
    have := allIdx_spec _ d.vars 0 hv i v hi
    simp only [Nat.zero_add, beq_iff_eq] at this
    exact lastVar_spec g i v this
  · intro i o hi
    have := allIdx_spec _ d.objs 0 ho i o hi
    simp only [Nat.zero_add, beq_iff_eq] at this
    exact lastObj_spec g i o this
  · intro i b info hm
    have := h6 _ hm
    simp only [recOk, Bool.and_eq_true, decide_eq_true_eq, beq_iff_eq] at this
    refine ⟨this.1, ?_⟩
    rw [this.2]; simp
  · intro i info hm
    have := h6 _ hm
    simpa [recOk] using this
  · intro i hm
    have := h6 _ hm
    simpa [recOk] using this
  · intro i l hm
    have := h6 _ hm
    simp only [recOk, Bool.and_eq_true, decide_eq_true_eq, beq_iff_eq] at this
    refine ⟨this.1, ?_⟩
    rw [this.2]; simp
  · intro ty i hm
    have := h6 _ hm
    simp only [recOk, Bool.and_eq_true, decide_eq_true_eq, beq_iff_eq] at this
    exact ⟨this.1.1, this.1.2⟩
  · intro ty i hm
    have := h6 _ hm
    simp only [recOk, Bool.and_eq_true, decide_eq_true_eq, beq_iff_eq] at this
    exact this.2
  · intro ty i nm u b f hm
    have := h6 _ hm
    simp only [recOk, statusOk, Bool.and_eq_true, Bool.or_eq_true, Bool.not_eq_true', List.contains_iff_mem] at this
    refine ⟨this.2, ?_⟩
    rcases this.1 with ⟨⟨hf, hb⟩, hu⟩ | ⟨hf, hb⟩
    · exact Or.inl ⟨hf, hb, hu⟩
    · exact Or.inr ⟨hf, hb⟩
  · intro ty e src dst hm r hr
    have := h6 _ hm
    simp only [recOk, Bool.and_eq_true, List.all_eq_true] at this
    have hk : refOk g d r = true := by
      rcases hr with hr | hr
      · exact this.1.1 r hr
      · exact this.1.2 r hr
    unfold refOk at hk
    cases hsz : nodeSize g d r.node with
    | none => simp [hsz] at hk
    | some sz =>
      simp only [hsz, Bool.and_eq_true, decide_eq_true_eq] at hk
      exact ⟨sz, rfl, hk.1, hk.2⟩
  · intro ty e src dst hm
    have := h6 _ hm
    simp only [recOk, Bool.and_eq_true] at this
    exact this.2

/-- Decoding a file: every line is a JSON object of a known record shape. -/
def Decodes : List Str → List Rec → Prop
  | [], [] => True
  | l :: ls, r :: rs => (∃ ms, parseLine l = some ms ∧ classify ms = some r) ∧ Decodes ls rs
  | _, _ => False

theorem decodeLines_spec : ∀ (lines : List Str) (g : List Rec), decodeLines lines = some g → Decodes lines g
  | [], g, h => by
    simp [decodeLines] at h; subst h; exact True.intro
  | l :: ls, g, h => by
    unfold decodeLines at h
    cases hp : parseLine l with
    | none => simp [hp] at h
    | some ms =>
      cases hc : classify ms with
      | none => simp [hp, hc] at h
      | some r =>
        cases hd : decodeLines ls with
        | none => simp [hp, hc, hd] at h
        | some rs =>
          simp [hp, hc, hd] at h
          subst h
          exact ⟨⟨ms, hp, hc⟩, decodeLines_spec ls rs hd⟩

/-- The property for a file: each line is a valid JSON object (decoding to a record), and the
    records are well-formed and complete w.r.t. the independent record `d`. -/
def WellFormedFile (lines : List Str) (d : Delivered) : Prop :=
  ∃ g, Decodes lines g ∧ WellFormed g d

/-- **Validator soundness on files** — what the compiled driver evaluates on every real export. -/
theorem C20_file_sound (lines : List Str) (d : Delivered) (h : checkFile lines d = true) :
    WellFormedFile lines d := by
  unfold checkFile at h
  cases hd : decodeLines lines with
  | none => simp [hd] at h
  | some g =>
    simp [hd] at h
    exact ⟨g, decodeLines_spec lines g hd, C20_validator_sound g d h⟩

/-- a line that decodes is in particular valid JSON (`parse` succeeds with an object) -/
theorem C20_decoded_line_is_json_object (l : Str) (ms : JMems) (h : parseLine l = some ms) :
    parse l = some (.obj ms) := by
  unfold parseLine at h
  cases hp : parse l with
  | none => simp [hp] at h
  | some v =>
    cases v <;> simp [hp] at h
    subst h; rfl

/-- consequence spelled out: the stored constraints split into exactly three final classes -/
theorem C20_status_trichotomy (g : List Rec) (d : Delivered) (h : WellFormed g d)
    (ty : Str) (i : Nat) (nm : Str) (u b f : Bool) (hm : Rec.conStatus ty i nm u b f ∈ g) :
    (f = true ∧ b = false ∧ u = false) ∨ (f = false ∧ b = true ∧ u = true) ∨ (f = false ∧ b = true ∧ u = false) := by
  rcases (h.status_kind ty i nm u b f hm).2 with ⟨hf, hb, hu⟩ | ⟨hf, hb⟩
  · exact Or.inl ⟨hf, hb, hu⟩
  · cases u
    · exact Or.inr (Or.inr ⟨hf, hb, rfl⟩)
    · exact Or.inr (Or.inl ⟨hf, hb, rfl⟩)

/-- non-vacuity: a tiny export that passes, and the same export with a dangling link index that fails -/
def exG (last : Nat) : List Rec :=
  [.comment, .var 0 true ⟨0, true, true⟩, .nlObj 0, .obj 0 ⟨0, [], [0], [0]⟩, .nlCon 0 false, .conNew cl!"_linrange" 0,
   .link cl!"CopyLink" 0 [⟨cl!"src_vars()", 0, 0⟩] [⟨cl!"dest_vars()", 0, 0⟩],
   .link cl!"CopyLink" 1 [⟨cl!"src_cons()", 0, 0⟩] [⟨cl!"_linrange", 0, last⟩],
   .var 0 true ⟨0, false, true⟩, .obj 0 ⟨0, [0], [], []⟩, .conStatus cl!"_linrange" 0 cl!"c" false false true,
   .conGroup cl!"_linrange" 3,
   .link cl!"CopyLink" 2 [⟨cl!"_linrange", 0, 0⟩] [⟨cl!"dest_cons(3)", 0, 0⟩]]
def exD : Delivered := ⟨1, 1, 1, 0, 0, [⟨0, false, true⟩], [⟨0, [0], [], []⟩], [⟨cl!"_linrange", 3, cl!"c"⟩]⟩
/-- the delivered objective is linear in variable 0, but the *last* objective record still shows the quadratic one (seeded change C20-4) -/
def exGstaleObj : List Rec := (exG 0).erase (.obj 0 ⟨0, [0], [], []⟩)
example : checkGraph (exG 0) exD = true := by decide
example : checkGraph (exG 1) exD = false := by decide
example : checkGraph exGstaleObj exD = false := by decide
example : checkGraph ((exG 0).erase (.conStatus cl!"_linrange" 0 cl!"c" false false true)) exD = false := by decide

/-! ## (b) the lazy link-export protocol -/

/-- **The completeness assertion in `FinishModelInput` cannot fail**: after `FinishExportingLinkEntries`,
    for every sequence of `AddEntry` calls on the three link kinds, `AllEntriesExported()` holds
    (every registered range – hence every registered entry index – has been exported). -/
theorem C20_export_all_ranges_exported (ops : List XOp) :
    allEntriesExported (xrun {} (ops ++ [.finish])) = true := by
  have h := xrun_inv ops {} (by simp)
  simp only [xrun, List.foldl_append, List.foldl_cons, List.foldl_nil, xstep, allEntriesExported, beq_iff_eq]
  have := iExp_le_exportRemaining (xrun {} ops)
  simp only [xrun] at h this
  simp only [exportRemaining] at this ⊢
  omega

/-- **Export completeness** (DESIGN `C20_export_complete`, full strength since /repo 5f9dc1e): for every sequence
    of `AddEntry` calls on the three link kinds followed by `FinishExportingLinkEntries`, every exported link
    record shows the extent its entry has at the end, refers to an existing entry, and no entry was ever
    extended after its export. -/
theorem C20_export_complete (l : List (LKind × Entry)) :
    let s := xrun {} (addsOf l ++ [.finish])
    (∀ x, x ∈ s.out → (x.src, x.dst) = extentOf s x.link x.entry ∧ x.entry < (s.ents x.link).length)
      ∧ s.late = false ∧ allEntriesExported s = true := by
  intro s
  have h := export_complete l
  refine ⟨fun x hx => ⟨h.1.cons h.2 x hx, h.1.ent x hx⟩, h.2, ?_⟩
  have := C20_export_all_ranges_exported (addsOf l)
  exact this

/-- The same for arbitrary op sequences (including a `Finish` in the middle), under the decidable side
    condition that no entry was extended in place after its export. -/
theorem C20_export_complete_partial (ops : List XOp) (h : (xrun {} ops).late = false) :
    ∀ x, x ∈ (xrun {} ops).out →
      (x.src, x.dst) = extentOf (xrun {} ops) x.link x.entry ∧ x.entry < ((xrun {} ops).ents x.link).length :=
  fun x hx => ⟨(xrun_xinv ops {} xinv_init).cons h x hx, (xrun_xinv ops {} xinv_init).ent x hx⟩

/-- every registered range refers to existing entries of its link (so no export record is made up) -/
theorem C20_export_ranges_exist (ops : List XOp) :
    ∀ r, r ∈ (xrun {} ops).brl → r.end_ ≤ ((xrun {} ops).ents r.link).length :=
  (xrun_xinv ops {} xinv_init).rng

/-- regression witness for the former finding C20-stale-link-entry (two objectives, the first one non-linear):
    the second objective's CopyLink entry is now a new entry (#2) instead of an in-place extension of the
    exported entry #1. -/
def staleOps : List XOp :=
  [.add .copy (⟨cl!"src_vars()", 0, 3⟩, ⟨cl!"dest_vars()", 0, 3⟩),
   .add .copy (⟨cl!"src_objs()", 0, 1⟩, ⟨cl!"dest_objs()", 0, 1⟩),
   .add .one2many (⟨cl!"src_objs()", 0, 1⟩, ⟨cl!"dest_vars()", 3, 4⟩),
   .add .copy (⟨cl!"src_objs()", 1, 2⟩, ⟨cl!"dest_objs()", 1, 2⟩),
   .finish]

theorem C20_regression_multiobj_links :
    let s := xrun {} staleOps
    s.out.map (fun x => (x.link, x.entry, x.src.beg, x.src.end_)) =
      [(.copy, 0, 0, 3), (.copy, 1, 0, 1), (.one2many, 0, 0, 1), (.copy, 2, 1, 2)] ∧
    (extentOf s .copy 1).1.end_ = 1 ∧ s.late = false ∧ allEntriesExported s = true := by decide

/-- why `Finish` has to come last (it does: `CloseGraphExporter` is the last step of `FinishModelInput`):
    an `AddEntry` after `Finish` may still extend the – now exported – last entry. -/
theorem C20_counterexample_extend_after_finish :
    let s := xrun {} [.add .copy (⟨cl!"A", 0, 1⟩, ⟨cl!"B", 0, 1⟩), .finish,
                      .add .copy (⟨cl!"A", 1, 2⟩, ⟨cl!"B", 1, 2⟩)]
    s.late = true ∧ s.out.map (fun x => x.src.end_) = [1] ∧ (extentOf s .copy 0).1.end_ = 2 := by decide

/-! ## (d) `EscapeJSON` on byte strings (after /repo b8ae903), and the definitions generated from the source

`MpVerif/Gen/C20Json.lean` is regenerated on every run by `translators/gen_c20json.py` from clang's typed AST of
`MiniJSONWriter<fmt::MemoryWriter>`: the state/comma/nesting methods and one iteration of the `EscapeJSON` loop.
The `C20_gen_*` theorems state that the hand model equals the generated definitions, so the theorems of (a) and the
validity theorem below speak about the code as it is now; a change of the C++ breaks these proofs. -/

open MpVerif.Gen.C20Json in
/-- **Validity at full strength**: for EVERY byte string `s` the escaped text is well-formed UTF-8 (RFC 3629,
    `WfUtf8`) and a valid JSON string body (RFC 8259 §7 on the UTF-8 bytes, `BodyOk`): no unescaped quote,
    backslash or control character, only legal escapes. -/
theorem C20_escape_valid (s : List Nat) (h : Bytes s) : WfUtf8 (escapeB s) ∧ BodyOk (escapeB s) :=
  valid_escapeBF s.length s h

/-- the same for `EscapeJSON` as assembled from the generated loop body -/
theorem C20_gen_escape_valid (s : List Nat) (h : Bytes s) : WfUtf8 (genEscape s) ∧ BodyOk (genEscape s) := by
  rw [genEscape_eq]; exact C20_escape_valid s h

theorem C20_gen_escape (s : List Nat) : genEscape s = escapeB s := genEscape_eq s

/-- one iteration of the loop, generated from the source, equals the hand model's step -/
theorem C20_gen_escBody (pre : List Nat) (c : Nat) (t : List Nat) :
    (MpVerif.Gen.C20Json.escBody (pre ++ c :: t) pre.length).1 = (escStep c t).1 ∧
    (MpVerif.Gen.C20Json.escBody (pre ++ c :: t) pre.length).2.1 = pre.length + (escStep c t).2 :=
  gen_escBody pre c t

theorem C20_gen_EnsureArray (nd : Node) : MpVerif.Gen.C20Json.EnsureArray nd = ensureArr nd := gen_EnsureArray nd
theorem C20_gen_EnsureDictionary (nd : Node) : MpVerif.Gen.C20Json.EnsureDictionary nd = ensureDict nd := gen_EnsureDictionary nd
theorem C20_gen_MakeScalarIfUnset (nd : Node) : MpVerif.Gen.C20Json.MakeScalarIfUnset nd = ([], makeScalar nd) :=
  gen_MakeScalarIfUnset nd
theorem C20_gen_InsertElementSeparator (nd : Node) : MpVerif.Gen.C20Json.InsertElementSeparator nd = (sep nd.n, nd) :=
  gen_InsertElementSeparator nd
theorem C20_gen_Close (nd : Node) : MpVerif.Gen.C20Json.Close nd = (closeText nd.kind, { nd with kind := .closed }) :=
  gen_Close nd
/-- under NDEBUG the two assertion-only methods do nothing -/
theorem C20_gen_EnsureUnset_EnsureCanWrite (nd : Node) :
    MpVerif.Gen.C20Json.EnsureUnset nd = ([], nd) ∧ MpVerif.Gen.C20Json.EnsureCanWrite nd = ([], nd) :=
  ⟨gen_EnsureUnset nd, gen_EnsureCanWrite nd⟩
/-- `operator[]`, `operator++` and `Close` as generated are exactly the `key`, `elem`, `close` arms of the op machine -/
theorem C20_gen_step_key (out : Str) (nd : Node) (rest : List Node) (k : Str) :
    step ⟨out, nd :: rest⟩ (.key k)
      = ⟨out ++ (MpVerif.Gen.C20Json.opIndex k nd).1, ⟨.unset, 0⟩ :: (MpVerif.Gen.C20Json.opIndex k nd).2 :: rest⟩ :=
  gen_step_key out nd rest k
theorem C20_gen_step_elem (out : Str) (nd : Node) (rest : List Node) :
    step ⟨out, nd :: rest⟩ .elem
      = ⟨out ++ (MpVerif.Gen.C20Json.opIncr nd).1, ⟨.unset, 0⟩ :: (MpVerif.Gen.C20Json.opIncr nd).2 :: rest⟩ :=
  gen_step_elem out nd rest
theorem C20_gen_step_close (out : Str) (nd : Node) (rest : List Node) :
    step ⟨out, nd :: rest⟩ .close = ⟨out ++ (MpVerif.Gen.C20Json.Close nd).1, rest⟩ :=
  gen_step_close out nd rest

/-! instances: a Latin-1 byte, a well-formed two-byte character, an overlong form, a surrogate, a truncated
    sequence at the end of the string, a value beyond U+10FFFF, a NUL byte and a quote -/
example : escapeB [99, 233] = [99, 92, 117, 48, 48, 101, 57] := by decide                 -- "c\u00e9"
example : escapeB [195, 169, 34] = [195, 169, 92, 34] := by decide                        -- é copied, quote escaped
example : escapeB [192, 128] = [92, 117, 48, 48, 99, 48, 92, 117, 48, 48, 56, 48] := by decide
example : escapeB [237, 160, 128] = [92, 117, 48, 48, 101, 100, 92, 117, 48, 48, 97, 48, 92, 117, 48, 48, 56, 48] := by decide
example : escapeB [226, 130] = [92, 117, 48, 48, 101, 50, 92, 117, 48, 48, 56, 50] := by decide
example : escapeB [244, 144, 128, 128] = [92, 117, 48, 48, 102, 52, 92, 117, 48, 48, 57, 48, 92, 117, 48, 48, 56, 48, 92, 117, 48, 48, 56, 48] := by decide
example : escapeB [240, 159, 152, 128, 0] = [240, 159, 152, 128, 92, 117, 48, 48, 48, 48] := by decide
/-- the two predicates are not vacuous: a lone Latin-1 byte is not UTF-8, a bare quote or control byte is not a string body -/
example : ¬ WfUtf8 [233] := by
  intro h; cases h with
  | one hb _ => exact absurd hb (by decide)
example : ¬ WfUtf8 [237, 160, 128] := by
  intro h; cases h with
  | one hb _ => exact absurd hb (by decide)
  | two h1 _ _ => exact absurd h1 (by decide)
  | three h1 _ _ => exact absurd h1 (by decide)
example : ¬ BodyOk [34] := by
  intro h; cases h with
  | plain h1 _ _ _ => exact h1 rfl
example : ¬ BodyOk [9] := by
  intro h; cases h with
  | plain _ _ h3 _ => exact absurd h3 (by decide)
example : Bytes [240, 159, 152, 128, 0] := by intro b hb; simp at hb; omega

/-! ## statement audit (round 4): non-trivial instances of the hypotheses used above -/

/-- `Valid` and `NoEmptyObj` hold for a nested value with hostile strings, an empty array and extreme numbers -/
example : Valid (.obj (.cons cl!"a\"b" (.arr (.cons (.num cl!"-1.79769e+308") (.cons (.str cl!"x\\y\n") (.cons (.arr .nil) .nil))))
            (.cons cl!"k" (.obj (.cons cl!"z" (.num cl!"0") .nil)) .nil)))
        ∧ NoEmptyObj (.obj (.cons cl!"a\"b" (.arr (.cons (.num cl!"-1.79769e+308") (.cons (.str cl!"x\\y\n") (.cons (.arr .nil) .nil))))
            (.cons cl!"k" (.obj (.cons cl!"z" (.num cl!"0") .nil)) .nil))) := by
  simp [Valid, ValidM, ValidL, NoEmptyObj, NoEmptyObjM, NoEmptyObjL]; decide

/-- `checkFile` accepts a real (tiny) export text, so `C20_file_sound` is not vacuous at the level of lines -/
example : checkFile
    [cl!"{\"COMMENT\": \"Initial model information.\"}",
     cl!"{\"VAR_index\": 0, \"bounds\": [-1.79769e+308, 5], \"type\": 0, \"is_from_nl\": 1}",
     cl!"{\"VAR_index\": 0, \"name\": \"x\\\"q\", \"bounds\": [0, 5], \"type\": 1, \"is_from_nl\": 1}"]
    ⟨1, 0, 0, 0, 0, [⟨1, false, false⟩], [], []⟩ = true := by decide
/-- … and rejects it when the last record of the variable does not describe what the API received -/
example : checkFile
    [cl!"{\"VAR_index\": 0, \"bounds\": [0, 5], \"type\": 1, \"is_from_nl\": 1}",
     cl!"{\"VAR_index\": 0, \"bounds\": [-1.79769e+308, 5], \"type\": 0, \"is_from_nl\": 1}"]
    ⟨1, 0, 0, 0, 0, [⟨1, false, false⟩], [], []⟩ = false := by decide

/-! ## (f) the Char-level `escape` is the byte-level `escapeB` on valid Unicode strings (audit, round 5) -/

/-- `escape` (used by `C20_writer_text` / `C20_json_roundtrip`) is exactly the restriction of the byte-level model of
    `EscapeJSON` (tied to the source by `C20_gen_escape`) to UTF-8 encodings of Unicode strings -/
theorem C20_escape_is_restriction (s : Str) : escapeB (utf8 s) = utf8 (escape s) := escapeB_utf8 s

/-- … hence also of `EscapeJSON` as generated from the source -/
theorem C20_gen_escape_on_unicode (s : Str) : genEscape (utf8 s) = utf8 (escape s) := by
  rw [genEscape_eq]; exact escapeB_utf8 s

example : utf8 cl!"aé€😀" = [97, 195, 169, 226, 130, 172, 240, 159, 152, 128] := by decide
example : (String.utf8EncodeChar 'é').map (·.toNat) = utf8Char 'é' ∧ (String.utf8EncodeChar '😀').map (·.toNat) = utf8Char '😀'
    ∧ (String.utf8EncodeChar '\uFFFF').map (·.toNat) = utf8Char '\uFFFF' := by decide

/-! ## (e) the EXPORTER as a transition system (audit [HIGH], round 5)

`ModelExporter.lean`: events = variable added / updated, constraint stored in a keeper (`ExportConstraint`), constraint
marked reformulated or unused (guard `check_index`, an `assert` in the C++), items `Add()`ed to an append-only value node,
link record exported, and the push (`ExportVars` of all variables, `AddAllUnbridged` + `ExportConStatus` per keeper, group
records).  The C++ `ExportLinkEntry` has NO range check and the model has none: a link event is accepted iff each endpoint is
made of `NodeRange`s that were handed out (`covered`); that these lie inside the item counts is the proved invariant
`EInv.createdIn` ("node size ≤ item count": ranges are handed out only for the item just created).  `CfgOk`: keeper types are
distinct and differ from the names of the other value nodes.  The clauses are proved of the records this system writes,
for EVERY event sequence. -/

/-- the invariant holds after every event sequence -/
theorem C20_exporter_invariant (cfg : Cfg) (hn : CfgOk cfg) (evs : List Ev) : EInv cfg (xevs cfg {} evs) :=
  einv_run cfg hn evs {} (einv_init cfg)

/-- **every stored constraint appears**, numbered 0..n-1 in order: the creation records of a type are exactly these -/
theorem C20_exporter_stored_appear (cfg : Cfg) (hn : CfgOk cfg) (evs : List Ev) (ty : Str) :
    (xevs cfg {} evs).out.filter (isNew ty)
      = (List.range ((xevs cfg {} evs).cons ty).length).map (Rec.conNew ty) :=
  (C20_exporter_invariant cfg hn evs).news ty

/-- **exactly one final status per stored constraint**: after the push the status records of a type are exactly one per
    stored constraint, in index order, saying delivered (`final`) iff it was neither reformulated nor unused -/
theorem C20_exporter_status_records (cfg : Cfg) (hn : CfgOk cfg) (evs : List Ev) (ty : Str)
    (hfin : (xevs cfg {} evs).finished = true) (hty : ty ∈ cfg.types) :
    (xevs cfg {} evs).out.filter (isStatusTy ty)
      = (List.range ((xevs cfg {} evs).cons ty).length).map (fun k =>
          Rec.conStatus ty k (cfg.name ty k) (((xevs cfg {} evs).cons ty).getD k .fresh == .unused)
            (((xevs cfg {} evs).cons ty).getD k .fresh != .fresh) (((xevs cfg {} evs).cons ty).getD k .fresh == .fresh)) := by
  rw [((C20_exporter_invariant cfg hn evs).fin hfin).1 ty hty, kf_records]
  simp

/-- the same in the vocabulary of `WellFormed`: `countStatus = 1`, `countNew = 1`, index below `classSize` -/
theorem C20_exporter_exactly_one_status (cfg : Cfg) (hn : CfgOk cfg) (evs : List Ev) (ty : Str) (i : Nat)
    (hfin : (xevs cfg {} evs).finished = true) (hty : ty ∈ cfg.types) (hi : i < ((xevs cfg {} evs).cons ty).length) :
    countStatus (xevs cfg {} evs).out ty i = 1 ∧ countNew (xevs cfg {} evs).out ty i = 1
      ∧ i < classSize (xevs cfg {} evs).out ty := by
  have h1 := C20_exporter_status_records cfg hn evs ty hfin hty
  have h2 := C20_exporter_stored_appear cfg hn evs ty
  refine ⟨?_, ?_, ?_⟩
  · unfold countStatus
    rw [filter_refine (isStatusOf ty i) (isStatusTy ty) _ (by
      intro r hr
      cases r with
      | conStatus t j nm u b f => simp only [isStatusOf, Bool.and_eq_true, decide_eq_true_eq] at hr; simp [isStatusTy, hr.1]
      | _ => simp [isStatusOf] at hr), h1]
    exact count_in_range_map _ _ _ i hi (by intro k; simp [isStatusOf])
  · unfold countNew
    rw [filter_refine (· == Rec.conNew ty i) (isNew ty) _ (by
      intro r hr; have : r = Rec.conNew ty i := by simpa using hr
      subst this; simp [isNew]), h2]
    exact count_in_range_map _ _ _ i hi (by
      intro k
      show (Rec.conNew ty k == Rec.conNew ty i) = decide (k = i)
      by_cases e : k = i <;> simp [e])
  · unfold classSize; rw [h2]; simpa using hi

/-- **the set marked delivered = the set handed to the ModelAPI**: the records marked `final` are, in order, exactly the
    constraints `AddAllUnbridged` passed on, and these are exactly the stored constraints that are neither reformulated
    nor unused -/
theorem C20_exporter_delivered (cfg : Cfg) (hn : CfgOk cfg) (evs : List Ev) (hfin : (xevs cfg {} evs).finished = true) :
    markedDelivered (xevs cfg {} evs).out = (xevs cfg {} evs).delivered.map (fun c => (c.ty, c.name)) ∧
    (xevs cfg {} evs).delivered = (allFinish cfg (xevs cfg {} evs).cons cfg.types).2 :=
  ((C20_exporter_invariant cfg hn evs).fin hfin).2

/-- **link ranges lie inside the sizes of the item classes**: not by a guard (the C++ has none) but because every endpoint
    is made of handed-out `NodeRange`s, each handed out for an item that exists (`EInv.createdIn`), and item counts only grow:
    every exported link endpoint lies inside the item count of its class at export time and at any later time -/
theorem C20_exporter_links_inside (cfg : Cfg) (hn : CfgOk cfg) (evs : List Ev) (lty : Str) (e : Nat) (src dst : List NodeRef)
    (hm : Rec.link lty e src dst ∈ (xevs cfg {} evs).out) (r : NodeRef) (hr : r ∈ src ∨ r ∈ dst) :
    ∃ sz, sizeNow cfg (xevs cfg {} evs) r.node = some sz ∧ r.beg ≤ r.last ∧ r.last < sz := by
  have h := (C20_exporter_invariant cfg hn evs).links lty e src dst hm r hr
  unfold refIn at h
  cases hs : sizeNow cfg (xevs cfg {} evs) r.node with
  | none => simp [hs] at h
  | some sz =>
    simp only [hs, Bool.and_eq_true, decide_eq_true_eq] at h
    exact ⟨sz, rfl, h.1, h.2⟩

/-- **every flat variable appears and no record names a non-existing one** -/
theorem C20_exporter_vars (cfg : Cfg) (hn : CfgOk cfg) (evs : List Ev) :
    (∀ i, i < (xevs cfg {} evs).vars.length → ∃ b info, Rec.var i b info ∈ (xevs cfg {} evs).out) ∧
    (∀ i b info, Rec.var i b info ∈ (xevs cfg {} evs).out → i < (xevs cfg {} evs).vars.length) :=
  ⟨(C20_exporter_invariant cfg hn evs).vars1, (C20_exporter_invariant cfg hn evs).vars2⟩

/-- every `NodeRange` ever handed out lies inside the item count of its class (node size ≤ item count) -/
theorem C20_exporter_node_size_le_item_count (cfg : Cfg) (hn : CfgOk cfg) (evs : List Ev) (a : NodeRef)
    (ha : a ∈ (xevs cfg {} evs).created) :
    ∃ sz, sizeNow cfg (xevs cfg {} evs) a.node = some sz ∧ a.beg ≤ a.last ∧ a.last < sz := by
  have h := (C20_exporter_invariant cfg hn evs).createdIn a ha
  unfold refIn at h
  cases hs : sizeNow cfg (xevs cfg {} evs) a.node with
  | none => simp [hs] at h
  | some sz =>
    simp only [hs, Bool.and_eq_true, decide_eq_true_eq] at h
    exact ⟨sz, rfl, h.1, h.2⟩

/-! ### NL item records and objective records (round 7) -/

/-- **every NL objective, NL constraint and NL common expression appears**: the records `ExportObj` / `ExportAlgCon` /
    `ExportLogCon` / `ExportCommonExpr` write are exactly `0 .. n-1` of each kind, in order, for every event sequence
    (`n` = number of items flattened; algebraic/logical flag as exported) -/
theorem C20_exporter_nl_items (cfg : Cfg) (evs : List Ev) :
    let s := xevs cfg {} evs
    s.out.filter isNlObj = (List.range s.nlObjs).map Rec.nlObj ∧
    s.out.filter isNlCon = (List.range s.nlCons.length).map (fun k => Rec.nlCon k (s.nlCons.getD k false)) ∧
    s.out.filter isNlDef = (List.range s.nlDefs).map Rec.nlDefVar := by
  intro s
  have h := ninv_run cfg evs {} ninv_init
  exact ⟨h.nlobjs, h.nlcons, h.nldefs⟩

/-- **every flat objective appears and none beyond; after the push the LAST record of each objective shows the objective as
    it is at that time**, i.e. what `PushObjectivesTo` hands to the ModelAPI — also when it was rewritten in place after its
    creation (`Ev.setObj`, the conic reformulation of seeded change C20-4) -/
theorem C20_exporter_objectives (cfg : Cfg) (evs : List Ev) :
    let s := xevs cfg {} evs
    (∀ i, i < s.objs.length → ∃ o, Rec.obj i o ∈ s.out) ∧ (∀ i o, Rec.obj i o ∈ s.out → i < s.objs.length) ∧
    (s.finished = true → ∀ i o, s.objs[i]? = some o → lastObj s.out i = some o) := by
  intro s
  have h := ninv_run cfg evs {} ninv_init
  exact ⟨h.objs1, h.objs2, h.objfin⟩

/-- in the vocabulary of `WellFormed.dl_obj_last`: the file splits as `pre ++ obj i o :: post` with no later record of `i` -/
theorem C20_exporter_objective_last_record (cfg : Cfg) (evs : List Ev) (i : Nat) (o : ObjInfo)
    (hfin : (xevs cfg {} evs).finished = true) (hio : (xevs cfg {} evs).objs[i]? = some o) :
    ∃ pre post, (xevs cfg {} evs).out = pre ++ Rec.obj i o :: post ∧ ∀ o', Rec.obj i o' ∉ post :=
  lastObj_spec _ i o ((C20_exporter_objectives cfg evs).2.2 hfin i o hio)

/-- a concrete history: two keepers, `_abs 0` reformulated into two `_linge`, one `_linrange` delivered; the event with a bad
    index and the link whose endpoint `_linge [0,1]` is not (yet) made of handed-out ranges are rejected -/
def exCfg : Cfg := ⟨[cl!"_linrange", cl!"_linge", cl!"_abs"], fun _ => 3, fun ty i => ty ++ (toString i).toList, [cl!"src_cons()"]⟩
def exEvs : List Ev :=
  [.addVar true ⟨0, false, false⟩, .addVar false ⟨0, false, true⟩, .addItems cl!"src_cons()" 1, .store cl!"_abs", .store cl!"_linrange",
   .link cl!"One2ManyLink" 0 [⟨cl!"src_cons()", 0, 0⟩] [⟨cl!"_abs", 0, 0⟩],
   .link cl!"One2ManyLink" 1 [⟨cl!"_abs", 0, 0⟩] [⟨cl!"_linge", 0, 1⟩],        -- rejected: `_linge` is still empty
   .store cl!"_linge", .store cl!"_linge", .bridge cl!"_abs" 0, .bridge cl!"_abs" 7,  -- the second one is rejected
   .link cl!"One2ManyLink" 1 [⟨cl!"_abs", 0, 0⟩] [⟨cl!"_linge", 0, 1⟩], .finish,
   .link cl!"CopyLink" 0 [⟨cl!"_linge", 0, 1⟩] [⟨cl!"dest_cons(3)", 1, 2⟩]]
example : (xevs exCfg {} exEvs).rejected = 2 ∧ (xevs exCfg {} exEvs).finished = true
    ∧ (xevs exCfg {} exEvs).delivered.map (·.name) = [cl!"_linrange0", cl!"_linge0", cl!"_linge1"]
    ∧ markedDelivered (xevs exCfg {} exEvs).out = [(cl!"_linrange", cl!"_linrange0"), (cl!"_linge", cl!"_linge0"), (cl!"_linge", cl!"_linge1")]
    ∧ countStatus (xevs exCfg {} exEvs).out cl!"_abs" 0 = 1 := by decide
example : CfgOk exCfg := by
  refine ⟨by decide, ?_, ?_⟩
  · intro ty h; simp [exCfg] at h; rcases h with h | h | h <;> subst h <;> decide
  · intro n h; simp [exCfg] at h; subst h; decide

/-- non-vacuity (round 7): a quadratic objective rewritten to a linear one before the push; NL items of all kinds -/
def exEvs2 : List Ev :=
  [.nlDefVar, .nlObj, .addObj ⟨0, [], [0, 1], [0, 1]⟩, .nlCon false, .nlCon true,
   .setObj 0 ⟨0, [3], [], []⟩, .setObj 5 ⟨0, [], [], []⟩, .finish]
example : (xevs exCfg {} exEvs2).rejected = 1 ∧ lastObj (xevs exCfg {} exEvs2).out 0 = some ⟨0, [3], [], []⟩
    ∧ (xevs exCfg {} exEvs2).out.filter isNlCon = [.nlCon 0 false, .nlCon 1 true]
    ∧ (xevs exCfg {} exEvs2).out.filter isObj = [.obj 0 ⟨0, [], [0, 1], [0, 1]⟩, .obj 0 ⟨0, [3], [], []⟩] := by decide

/-! ### variable records (round 8) -/

/-- **variable records of the exporter, for every event sequence**: every variable record names an existing flat variable and
    carries its from-NL flag; every flat variable has a record carrying its flag; after the push the LAST record of every flat
    variable shows its type / bounds class as they are then (what `PushVariablesTo` hands to the ModelAPI), also when bounds or
    type were updated after the variable was created (`Ev.setVar`) -/
theorem C20_exporter_var_records (cfg : Cfg) (evs : List Ev) :
    (∀ i b info, Rec.var i b info ∈ (xevs cfg {} evs).out → ∃ info', (xevs cfg {} evs).vars[i]? = some (b, info')) ∧
    (∀ i b info', (xevs cfg {} evs).vars[i]? = some (b, info') → ∃ info, Rec.var i b info ∈ (xevs cfg {} evs).out) ∧
    ((xevs cfg {} evs).finished = true → ∀ i b info, (xevs cfg {} evs).vars[i]? = some (b, info) →
      lastVar (xevs cfg {} evs).out i = some info) :=
  have h := vinv_run cfg evs {} vinv_init
  ⟨h.flag, h.has, h.fin⟩

/-- **every NL variable appears, flagged as coming from NL** -/
theorem C20_exporter_nl_vars_appear (cfg : Cfg) (evs : List Ev) (i : Nat) (info' : VarInfo)
    (h : (xevs cfg {} evs).vars[i]? = some (true, info')) : ∃ info, Rec.var i true info ∈ (xevs cfg {} evs).out :=
  (C20_exporter_var_records cfg evs).2.1 i true info' h

/-- the final-data clause in the `pre ++ var i b v :: post` form of `WellFormed.dl_var_last` -/
theorem C20_exporter_var_last_record (cfg : Cfg) (evs : List Ev) (i : Nat) (b : Bool) (v : VarInfo)
    (hfin : (xevs cfg {} evs).finished = true) (hi : (xevs cfg {} evs).vars[i]? = some (b, v)) :
    ∃ pre post b', (xevs cfg {} evs).out = pre ++ Rec.var i b' v :: post ∧ ∀ b'' v', Rec.var i b'' v' ∉ post :=
  lastVar_spec _ i v ((C20_exporter_var_records cfg evs).2.2 hfin i b v hi)

/-- non-vacuity: an NL variable and an auxiliary one whose bounds are tightened before the push; a bad `setVar` is rejected -/
def exEvs3 : List Ev :=
  [.addVar true ⟨0, true, true⟩, .addVar false ⟨0, false, true⟩, .setVar 1 ⟨1, false, false⟩, .setVar 9 ⟨0, false, false⟩, .finish]
example : (xevs exCfg {} exEvs3).rejected = 1 ∧ (xevs exCfg {} exEvs3).vars = [(true, ⟨0, true, true⟩), (false, ⟨1, false, false⟩)]
    ∧ lastVar (xevs exCfg {} exEvs3).out 1 = some ⟨1, false, false⟩
    ∧ (xevs exCfg {} exEvs3).out.filter isVarRec
        = [.var 0 true ⟨0, true, true⟩, .var 1 false ⟨0, false, true⟩, .var 0 true ⟨0, true, true⟩, .var 1 false ⟨1, false, false⟩] := by decide

end MpVerif.C20

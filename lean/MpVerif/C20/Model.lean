/-!
# C20 model, part (a): JSON values, the intended text, `MiniJSONWriter` as an op machine, a JSON parser

Everything is over `List Char` (`Str`) so that the proofs stay elementary; the driver converts.

* `Json` – JSON values; numbers keep their raw token (the validator only needs indices and the
  export prints doubles with 6 significant digits, so numeric values are never compared).
* `render` – the text the writer is *meant* to produce for a value (`", "` and `": "` separators,
  exactly as `include/mp/util-json-write.hpp` emits them).
* `WState`/`Op`/`step`/`run` – `MiniJSONWriter<fmt::MemoryWriter>` as it behaves in a production
  build (`assert`s compiled out): a stack of nodes `(kind, n_written)`; `key`/`elem` address the
  top node and push a fresh child, `scalar`/`string` write into the top node, `close` = `Close()`
  followed by destruction of the top node.  Strings and keys are written through `EscapeJSON`
  (quote, backslash, `\n`, `\r`, `\t`, other control characters as `\u00XY`; /repo fffb19f), non-finite
  scalars (`fmt` prints `inf`, `-inf`, `nan`) as strings.
* `parse` – an RFC 8259 parser (whitespace, escapes, `\uXXXX`, number grammar); it is the
  definition of "valid JSON" used by the graph validator.
-/
namespace MpVerif.C20

abbrev Str := List Char

/- `cl!"abc"` = `['a','b','c']` (a literal list, so that the kernel can evaluate definitions using it) -/
open Lean in
macro:max "cl!" s:str : term => do
  let cs := s.getString.toList
  let elems : Array (TSyntax `term) := cs.toArray.map (fun c => ⟨Syntax.mkCharLit c⟩)
  `([$elems,*])

mutual
inductive Json where
  | null
  | bool (b : Bool)
  | num (tok : Str)
  | str (s : Str)
  | arr (xs : JList)
  | obj (ms : JMems)
inductive JList where
  | nil
  | cons (x : Json) (xs : JList)
inductive JMems where
  | nil
  | cons (k : Str) (v : Json) (ms : JMems)
end

deriving instance Inhabited for Json
deriving instance Inhabited for JList
deriving instance Inhabited for JMems

def JList.toList : JList → List Json
  | .nil => []
  | .cons x xs => x :: xs.toList

def JMems.toList : JMems → List (Str × Json)
  | .nil => []
  | .cons k v ms => (k, v) :: ms.toList

def JMems.get? : JMems → Str → Option Json
  | .nil, _ => none
  | .cons k v ms, q => if k = q then some v else ms.get? q

def JMems.keys : JMems → List Str
  | .nil => []
  | .cons k _ ms => k :: ms.keys

/-! ## the intended text -/

/-- lower-case hex digit (`%x`) -/
def hexDigit (n : Nat) : Char := if n < 10 then Char.ofNat (48 + n) else Char.ofNat (87 + n)

/-- `MiniJSONWriter::EscapeJSON`, one character -/
def escChar (c : Char) : Str :=
  if c = '"' then ['\\', '"']
  else if c = '\\' then ['\\', '\\']
  else if c = '\n' then ['\\', 'n']
  else if c = '\r' then ['\\', 'r']
  else if c = '\t' then ['\\', 't']
  else if c.toNat < 32 then ['\\', 'u', '0', '0', hexDigit (c.toNat / 16), hexDigit (c.toNat % 16)]
  else [c]

def escape : Str → Str
  | [] => []
  | c :: s => escChar c ++ escape s

/-- a string literal as the writer emits it -/
def quote (s : Str) : Str := '"' :: (escape s ++ ['"'])

/-- what `fmt` prints for a non-finite double -/
def isNonFinite (tok : Str) : Bool := tok = cl!"inf" || tok = cl!"-inf" || tok = cl!"nan"

/-- `DoWriteScalar`: non-finite doubles are written as strings -/
def scalarText (tok : Str) : Str := if isNonFinite tok then '"' :: (tok ++ ['"']) else tok

mutual
def render : Json → Str
  | .null => cl!"null"
  | .bool true => cl!"true"
  | .bool false => cl!"false"
  | .num t => t
  | .str s => quote s
  | .arr .nil => cl!"[]"
  | .arr (.cons x xs) => '[' :: (render x ++ (renderTail xs ++ [']']))
  | .obj .nil => cl!"{}"
  | .obj (.cons k v ms) => '{' :: (quote k ++ (':' :: ' ' :: (render v ++ (renderMTail ms ++ ['}']))))
def renderTail : JList → Str
  | .nil => []
  | .cons x xs => ',' :: ' ' :: (render x ++ renderTail xs)
def renderMTail : JMems → Str
  | .nil => []
  | .cons k v ms => ',' :: ' ' :: (quote k ++ (':' :: ' ' :: (render v ++ renderMTail ms)))
end

/-- `x1, x2, …` (the inside of a non-empty array) -/
def renderElems : JList → Str
  | .nil => []
  | .cons x xs => render x ++ renderTail xs

/-- `"k1": v1, "k2": v2, …` (the inside of a non-empty object) -/
def renderMems : JMems → Str
  | .nil => []
  | .cons k v ms => quote k ++ (':' :: ' ' :: (render v ++ renderMTail ms))

/-! ## `MiniJSONWriter` as an op machine (production build: asserts are no-ops) -/

inductive Kind where
  | unset | scalar | array | dict | closed
  deriving DecidableEq, Repr, Inhabited

structure Node where
  kind : Kind
  n : Nat
  deriving DecidableEq, Repr, Inhabited

structure WState where
  out : Str
  stack : List Node
  deriving DecidableEq, Repr, Inhabited

inductive Op where
  | key (k : Str)        -- `node[key]`  (operator[]) : child of the top node
  | elem                 -- `++node`     (operator++) : child of the top node
  | scalar (tok : Str)   -- `Write(arithmetic)`; `tok` is what `fmt` prints for the value
  | string (s : Str)     -- `Write(string)`
  | close                -- `Close()` + end of lifetime of the top node
  deriving DecidableEq, Repr, Inhabited

def WState.init : WState := ⟨[], [⟨.unset, 0⟩]⟩

/-- `InsertElementSeparator` -/
def sep (n : Nat) : Str := if n = 0 then [] else [',', ' ']

/-- `EnsureDictionary`: opens `{` only if the node is unset (otherwise only an `assert`) -/
def ensureDict (nd : Node) : Str × Node :=
  if nd.kind = .unset then (['{'], { nd with kind := .dict }) else ([], nd)

/-- `EnsureArray` -/
def ensureArr (nd : Node) : Str × Node :=
  if nd.kind = .unset then (['['], { nd with kind := .array }) else ([], nd)

/-- `MakeScalarIfUnset` -/
def makeScalar (nd : Node) : Node :=
  if nd.kind = .unset then { nd with kind := .scalar } else nd

/-- text written by `Close()` for a node of the given kind -/
def closeText : Kind → Str
  | .unset => ['[', ']']      -- "empty array. Is this ok to default to?"
  | .scalar => []
  | .array => [']']
  | .dict => ['}']
  | .closed => []

def step (s : WState) : Op → WState
  | .key k =>
    match s.stack with
    | [] => s
    | nd :: rest =>
      let (t, nd1) := ensureDict nd
      ⟨s.out ++ (t ++ (sep nd1.n ++ (quote k ++ [':', ' ']))),
       ⟨.unset, 0⟩ :: { nd1 with n := nd1.n + 1 } :: rest⟩
  | .elem =>
    match s.stack with
    | [] => s
    | nd :: rest =>
      let (t, nd1) := ensureArr nd
      ⟨s.out ++ (t ++ sep nd1.n), ⟨.unset, 0⟩ :: { nd1 with n := nd1.n + 1 } :: rest⟩
  | .scalar tok =>
    match s.stack with
    | [] => s
    | nd :: rest =>
      let nd1 := makeScalar nd
      ⟨s.out ++ scalarText tok, { nd1 with n := nd1.n + 1 } :: rest⟩
  | .string str =>
    match s.stack with
    | [] => s
    | nd :: rest =>
      let nd1 := makeScalar nd
      ⟨s.out ++ quote str, { nd1 with n := nd1.n + 1 } :: rest⟩
  | .close =>
    match s.stack with
    | [] => s
    | nd :: rest => ⟨s.out ++ closeText nd.kind, rest⟩

def run (s : WState) (ops : List Op) : WState := ops.foldl step s

/- the op sequence by which the library writes value `v` into a fresh node, including the
   final `Close()` (`jw[k] = scalar`, `jw << x`, `WriteSequence`, nested `jw[k]`/`++jw`) -/
mutual
def opsOf : Json → List Op
  | .null => [.scalar cl!"null", .close]
  | .bool true => [.scalar cl!"true", .close]
  | .bool false => [.scalar cl!"false", .close]
  | .num t => [.scalar t, .close]
  | .str s => [.string s, .close]
  | .arr xs => opsOfList xs ++ [.close]
  | .obj ms => opsOfMems ms ++ [.close]
def opsOfList : JList → List Op
  | .nil => []
  | .cons x xs => .elem :: (opsOf x ++ opsOfList xs)
def opsOfMems : JMems → List Op
  | .nil => []
  | .cons k v ms => .key k :: (opsOf v ++ opsOfMems ms)
end

/-- text produced by writing `v` with a fresh root writer -/
def writeText (v : Json) : Str := (run WState.init (opsOf v)).out

/-! ## JSON parser -/

def isWs (c : Char) : Bool := c = ' ' || c = '\t' || c = '\n' || c = '\r'

def skipWs : Str → Str
  | [] => []
  | c :: r => if isWs c then skipWs r else c :: r

def isDigit (c : Char) : Bool := 48 ≤ c.toNat && c.toNat ≤ 57

def numChar (c : Char) : Bool :=
  isDigit c || c = '-' || c = '+' || c = '.' || c = 'e' || c = 'E'

/-- maximal prefix of number characters -/
def takeNum : Str → Str × Str
  | [] => ([], [])
  | c :: r => if numChar c then ((takeNum r).1.cons c, (takeNum r).2) else ([], c :: r)

def allDigits : Str → Bool
  | [] => true
  | c :: r => isDigit c && allDigits r

/-- `[eE][+-]?[0-9]+` or nothing -/
def validExp : Str → Bool
  | [] => true
  | c :: r =>
    if c = 'e' || c = 'E' then
      match r with
      | [] => false
      | s :: r' => if s = '+' || s = '-' then (r' != [] && allDigits r') else allDigits (s :: r')
    else false

/-- after the integer part: `(\.[0-9]+)?` then exponent -/
def validFracExp (cs : Str) : Bool :=
  match cs with
  | [] => true
  | c :: r =>
    if c = '.' then
      let ds := r.takeWhile isDigit
      let rest := r.dropWhile isDigit
      ds != [] && validExp rest
    else validExp (c :: r)

/-- `(0|[1-9][0-9]*)` followed by frac/exp -/
def validUnsigned (cs : Str) : Bool :=
  match cs with
  | [] => false
  | c :: r =>
    if c = '0' then validFracExp r
    else if isDigit c then validFracExp (r.dropWhile isDigit)
    else false

/-- RFC 8259 number grammar -/
def validNumTok (cs : Str) : Bool :=
  match cs with
  | [] => false
  | c :: r => if c = '-' then validUnsigned r else validUnsigned (c :: r)

def isNumTok (t : Str) : Bool := t.all numChar && validNumTok t

def lexNumber (cs : Str) : Option (Str × Str) :=
  let p := takeNum cs
  if validNumTok p.1 then some p else none

def hexVal (c : Char) : Option Nat :=
  if isDigit c then some (c.toNat - 48)
  else if 97 ≤ c.toNat && c.toNat ≤ 102 then some (c.toNat - 87)
  else if 65 ≤ c.toNat && c.toNat ≤ 70 then some (c.toNat - 55)
  else none

def simpleEsc (c : Char) : Option Char :=
  if c = '"' then some '"' else if c = '\\' then some '\\' else if c = '/' then some '/'
  else if c = 'b' then some (Char.ofNat 8) else if c = 'f' then some (Char.ofNat 12)
  else if c = 'n' then some '\n' else if c = 'r' then some '\r' else if c = 't' then some '\t'
  else none

/-- body of a string literal after the opening quote: returns the decoded string and the rest
    after the closing quote -/
def lexString : Str → Option (Str × Str)
  | [] => none
  | c :: r =>
    if c = '"' then some ([], r)
    else if c = '\\' then
      match r with
      | [] => none
      | e :: r1 =>
        if e = 'u' then
          match r1 with
          | a :: b :: c2 :: d :: r2 =>
            match hexVal a, hexVal b, hexVal c2, hexVal d with
            | some x, some y, some z, some w =>
              match lexString r2 with
              | some (s, r3) => some (Char.ofNat (((x * 16 + y) * 16 + z) * 16 + w) :: s, r3)
              | none => none
            | _, _, _, _ => none
          | _ => none
        else
          match simpleEsc e with
          | some ch =>
            match lexString r1 with
            | some (s, r3) => some (ch :: s, r3)
            | none => none
          | none => none
    else if c.toNat < 32 then none
    else
      match lexString r with
      | some (s, r') => some (c :: s, r')
      | none => none

def dropPrefix : Str → Str → Option Str
  | [], s => some s
  | _ :: _, [] => none
  | p :: ps, c :: s => if p = c then dropPrefix ps s else none

mutual
/-- one value (leading whitespace allowed); returns the rest after the value -/
def pValue : Nat → Str → Option (Json × Str)
  | 0, _ => none
  | f + 1, cs =>
    match skipWs cs with
    | [] => none
    | c :: r =>
      if c = '{' then
        match skipWs r with
        | [] => none
        | c2 :: r2 =>
          if c2 = '}' then some (.obj .nil, r2)
          else match pMems f (c2 :: r2) with
            | some (ms, r3) => some (.obj ms, r3)
            | none => none
      else if c = '[' then
        match skipWs r with
        | [] => none
        | c2 :: r2 =>
          if c2 = ']' then some (.arr .nil, r2)
          else match pElems f (c2 :: r2) with
            | some (xs, r3) => some (.arr xs, r3)
            | none => none
      else if c = '"' then
        match lexString r with
        | some (s, r2) => some (.str s, r2)
        | none => none
      else if c = 't' then
        match dropPrefix cl!"true" (c :: r) with
        | some r2 => some (.bool true, r2)
        | none => none
      else if c = 'f' then
        match dropPrefix cl!"false" (c :: r) with
        | some r2 => some (.bool false, r2)
        | none => none
      else if c = 'n' then
        match dropPrefix cl!"null" (c :: r) with
        | some r2 => some (.null, r2)
        | none => none
      else
        match lexNumber (c :: r) with
        | some (t, r2) => some (.num t, r2)
        | none => none
/-- `value (, value)* ]` -/
def pElems : Nat → Str → Option (JList × Str)
  | 0, _ => none
  | f + 1, cs =>
    match pValue f cs with
    | none => none
    | some (v, r) =>
      match skipWs r with
      | [] => none
      | c :: r2 =>
        if c = ',' then
          match pElems f r2 with
          | some (vs, r3) => some (.cons v vs, r3)
          | none => none
        else if c = ']' then some (.cons v .nil, r2)
        else none
/-- `"key" : value (, "key" : value)* }` -/
def pMems : Nat → Str → Option (JMems × Str)
  | 0, _ => none
  | f + 1, cs =>
    match skipWs cs with
    | [] => none
    | q :: r =>
      if q = '"' then
        match lexString r with
        | none => none
        | some (k, r1) =>
          match skipWs r1 with
          | [] => none
          | c :: r2 =>
            if c = ':' then
              match pValue f r2 with
              | none => none
              | some (v, r3) =>
                match skipWs r3 with
                | [] => none
                | c3 :: r4 =>
                  if c3 = ',' then
                    match pMems f r4 with
                    | some (ms, r5) => some (.cons k v ms, r5)
                    | none => none
                  else if c3 = '}' then some (.cons k v .nil, r4)
                  else none
            else none
      else none
end

/-- a complete JSON text: one value, then only whitespace -/
def parse (s : Str) : Option Json :=
  match pValue (2 * s.length + 2) s with
  | some (v, rest) => if skipWs rest = [] then some v else none
  | none => none

/-- a JSON-lines record: the line must be an object -/
def parseLine (s : Str) : Option JMems :=
  match parse s with
  | some (.obj ms) => some ms
  | _ => none

/-! ## canonical one-line form of a value (driver output for the parser cross-check) -/

def natStr (n : Nat) : Str := (toString n).toList

def canonStr (s : Str) : Str := s.flatMap (fun c => natStr c.toNat ++ ['.'])

mutual
def canon : Json → Str
  | .null => ['n']
  | .bool true => ['t']
  | .bool false => ['f']
  | .num t => '#' :: t
  | .str s => '$' :: canonStr s
  | .arr xs => '[' :: (canonList xs ++ [']'])
  | .obj ms => '{' :: (canonMems ms ++ ['}'])
def canonList : JList → Str
  | .nil => []
  | .cons x xs => canon x ++ (',' :: canonList xs)
def canonMems : JMems → Str
  | .nil => []
  | .cons k v ms => '$' :: (canonStr k ++ (':' :: (canon v ++ (',' :: canonMems ms))))
end

end MpVerif.C20

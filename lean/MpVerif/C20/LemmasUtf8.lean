import MpVerif.C20.ModelEscape
/-!
# C20: the Char-level `escape` (used by `C20_json_roundtrip`) is the restriction of the byte-level `escapeB`
to valid Unicode strings:  `escapeB (utf8 s) = utf8 (escape s)`  for every `s : List Char`.
-/
namespace MpVerif.C20
open GenBase

/-- UTF-8 encoding of a Unicode scalar value (RFC 3629 §3) -/
def utf8Char (c : Char) : List Nat :=
  if c.toNat < 128 then [c.toNat]
  else if c.toNat < 2048 then [192 + c.toNat / 64, 128 + c.toNat % 64]
  else if c.toNat < 65536 then [224 + c.toNat / 4096, 128 + c.toNat / 64 % 64, 128 + c.toNat % 64]
  else [240 + c.toNat / 262144, 128 + c.toNat / 4096 % 64, 128 + c.toNat / 64 % 64, 128 + c.toNat % 64]

def utf8 (s : Str) : List Nat := s.flatMap utf8Char

theorem utf8_cons (c : Char) (s : Str) : utf8 (c :: s) = utf8Char c ++ utf8 s := by simp [utf8]
theorem utf8_append (a b : Str) : utf8 (a ++ b) = utf8 a ++ utf8 b := by simp [utf8]

theorem char_valid (c : Char) : c.toNat < 55296 ∨ (57343 < c.toNat ∧ c.toNat < 1114112) := c.valid

theorem char_eq_of_toNat (c d : Char) (h : c.toNat = d.toNat) : c = d := by
  apply Char.ext
  apply UInt32.toNat_inj.mp
  exact h

set_option maxRecDepth 100000 in
theorem cont_of_range : ∀ b, b < 256 → 128 ≤ b → b < 192 → isCont b = true := by decide

theorem hexDigit_utf8 : ∀ n, n < 16 → utf8Char (hexDigit n) = [hexLo n] := by decide

/-- what one step writes for an ASCII byte (independent of the rest of the input) -/
def asciiOut (v : Nat) : List Nat :=
  if v = 34 then [92, 34] else if v = 92 then [92, 92] else if v = 10 then [92, 110] else if v = 13 then [92, 114]
  else if v = 9 then [92, 116] else if v < 32 then fmtU4 v else [v]

theorem escStep_ascii (v : Nat) (t : List Nat) (h : v < 128) : escStep v t = (asciiOut v, 0) := by
  unfold escStep asciiOut
  repeat' split
  all_goals first | rfl | omega

theorem escChar_ascii (c : Char) (h : c.toNat < 128) : utf8 (escChar c) = asciiOut c.toNat := by
  unfold escChar asciiOut
  by_cases h1 : c = '"'
  · subst h1; decide
  by_cases h2 : c = '\\'
  · subst h2; decide
  by_cases h3 : c = '\n'
  · subst h3; decide
  by_cases h4 : c = '\r'
  · subst h4; decide
  by_cases h5 : c = '\t'
  · subst h5; decide
  have n1 : c.toNat ≠ 34 := fun e => h1 (char_eq_of_toNat c '"' e)
  have n2 : c.toNat ≠ 92 := fun e => h2 (char_eq_of_toNat c '\\' e)
  have n3 : c.toNat ≠ 10 := fun e => h3 (char_eq_of_toNat c '\n' e)
  have n4 : c.toNat ≠ 13 := fun e => h4 (char_eq_of_toNat c '\r' e)
  have n5 : c.toNat ≠ 9 := fun e => h5 (char_eq_of_toNat c '\t' e)
  simp only [h1, h2, h3, h4, h5, n1, n2, n3, n4, n5, if_false]
  by_cases h6 : c.toNat < 32
  · simp only [h6, if_true]
    have a1 := hexDigit_utf8 (c.toNat / 16) (by omega)
    have a2 := hexDigit_utf8 (c.toNat % 16) (by omega)
    have z1 : c.toNat / 4096 % 16 = 0 := by omega
    have z2 : c.toNat / 256 % 16 = 0 := by omega
    have z3 : c.toNat / 16 % 16 = c.toNat / 16 := by omega
    have e0 : utf8Char '\\' = [92] := by decide
    have e1 : utf8Char 'u' = [117] := by decide
    have e2 : utf8Char '0' = [48] := by decide
    have e3 : hexLo 0 = 48 := by decide
    simp [utf8, a1, a2, fmtU4, z1, z2, z3, e0, e1, e2, e3]
  · simp only [h6, if_false]
    simp [utf8, utf8Char, h]

theorem escChar_nonascii (c : Char) (h : ¬ c.toNat < 128) : escChar c = [c] := by
  unfold escChar
  have n1 : c ≠ '"' := by intro e; subst e; exact h (by decide)
  have n2 : c ≠ '\\' := by intro e; subst e; exact h (by decide)
  have n3 : c ≠ '\n' := by intro e; subst e; exact h (by decide)
  have n4 : c ≠ '\r' := by intro e; subst e; exact h (by decide)
  have n5 : c ≠ '\t' := by intro e; subst e; exact h (by decide)
  have n6 : ¬ c.toNat < 32 := by omega
  simp [n1, n2, n3, n4, n5, n6]

theorem escStep_high (l : Nat) (t : List Nat) (h : 128 ≤ l) :
    escStep l t = if seqOk l t then (l :: t.take (seqLen l), seqLen l) else (fmtU4 l, 0) := by
  unfold escStep
  have n1 : l ≠ 34 := by omega
  have n2 : l ≠ 92 := by omega
  have n3 : l ≠ 10 := by omega
  have n4 : l ≠ 13 := by omega
  have n5 : l ≠ 9 := by omega
  have n6 : ¬ l < 32 := by omega
  have n7 : ¬ l < 128 := by omega
  simp only [n1, n2, n3, n4, n5, n6, n7, if_false]

theorem badSecond_false (l b : Nat) (h1 : l = 224 → 160 ≤ b) (h2 : l = 237 → b ≤ 159) (h3 : l = 240 → 144 ≤ b) (h4 : l = 244 → b ≤ 143) :
    badSecond l b = false := by
  simp only [badSecond, Bool.or_eq_false_iff, Bool.and_eq_false_iff, decide_eq_false_iff_not]
  refine ⟨⟨⟨?_, ?_⟩, ?_⟩, ?_⟩
  · by_cases e : l = 224
    · right; have := h1 e; omega
    · left; exact e
  · by_cases e : l = 237
    · right; have := h2 e; omega
    · left; exact e
  · by_cases e : l = 240
    · right; have := h3 e; omega
    · left; exact e
  · by_cases e : l = 244
    · right; have := h4 e; omega
    · left; exact e

/-- one step of `escapeB` on the encoding of a non-ASCII character copies exactly that encoding -/
theorem escStep_utf8Char (c : Char) (h : ¬ c.toNat < 128) (rest : List Nat) :
    ∃ l conts, utf8Char c = l :: conts ∧ escStep l (conts ++ rest) = (l :: conts, conts.length) := by
  have hv := char_valid c
  unfold utf8Char
  simp only [h, if_false]
  by_cases h2 : c.toNat < 2048
  · simp only [h2, if_true]
    refine ⟨_, _, rfl, ?_⟩
    have hl : 194 ≤ 192 + c.toNat / 64 ∧ 192 + c.toNat / 64 ≤ 223 := by omega
    have hs : seqLen (192 + c.toNat / 64) = 1 := by simp [seqLen, hl]
    have hc := cont_of_range (128 + c.toNat % 64) (by omega) (by omega) (by omega)
    have hb := badSecond_false (192 + c.toNat / 64) (128 + c.toNat % 64) (by omega) (by omega) (by omega) (by omega)
    rw [escStep_high _ _ (by omega)]
    simp [seqOk, hs, hc, hb]
  by_cases h3 : c.toNat < 65536
  · simp only [h2, h3, if_true, if_false]
    refine ⟨_, _, rfl, ?_⟩
    have hl : 224 ≤ 224 + c.toNat / 4096 ∧ 224 + c.toNat / 4096 ≤ 239 := by omega
    have hs : seqLen (224 + c.toNat / 4096) = 2 := by
      unfold seqLen
      have : ¬ (194 ≤ 224 + c.toNat / 4096 ∧ 224 + c.toNat / 4096 ≤ 223) := by omega
      simp only [this, if_false, hl, and_self, if_true]
    have hc1 := cont_of_range (128 + c.toNat / 64 % 64) (by omega) (by omega) (by omega)
    have hc2 := cont_of_range (128 + c.toNat % 64) (by omega) (by omega) (by omega)
    have hb := badSecond_false (224 + c.toNat / 4096) (128 + c.toNat / 64 % 64) (by omega) (by omega) (by omega) (by omega)
    rw [escStep_high _ _ (by omega)]
    simp [seqOk, hs, hc1, hc2, hb]
  · simp only [h2, h3, if_false]
    refine ⟨_, _, rfl, ?_⟩
    have hl : 240 ≤ 240 + c.toNat / 262144 ∧ 240 + c.toNat / 262144 ≤ 244 := by omega
    have hs : seqLen (240 + c.toNat / 262144) = 3 := by
      unfold seqLen
      have a : ¬ (194 ≤ 240 + c.toNat / 262144 ∧ 240 + c.toNat / 262144 ≤ 223) := by omega
      have b : ¬ (224 ≤ 240 + c.toNat / 262144 ∧ 240 + c.toNat / 262144 ≤ 239) := by omega
      simp only [a, b, if_false, hl, and_self, if_true]
    have hc1 := cont_of_range (128 + c.toNat / 4096 % 64) (by omega) (by omega) (by omega)
    have hc2 := cont_of_range (128 + c.toNat / 64 % 64) (by omega) (by omega) (by omega)
    have hc3 := cont_of_range (128 + c.toNat % 64) (by omega) (by omega) (by omega)
    have hb := badSecond_false (240 + c.toNat / 262144) (128 + c.toNat / 4096 % 64) (by omega) (by omega) (by omega) (by omega)
    rw [escStep_high _ _ (by omega)]
    simp [seqOk, hs, hc1, hc2, hc3, hb]

theorem utf8Char_length (c : Char) : 1 ≤ (utf8Char c).length := by
  unfold utf8Char; repeat' split
  all_goals simp

/-- **the Char-level `escape` is the restriction of `escapeB` to valid Unicode strings** -/
theorem escapeBF_utf8 : ∀ (s : Str) (f : Nat), (utf8 s).length ≤ f → escapeBF f (utf8 s) = utf8 (escape s)
  | [], f, _ => by cases f <;> simp [utf8, escapeBF, escape]
  | c :: s, f, hf => by
    rw [utf8_cons] at hf ⊢
    have hlen := utf8Char_length c
    obtain ⟨f, rfl⟩ : ∃ g, f = g + 1 := ⟨f - 1, by simp only [List.length_append] at hf; omega⟩
    simp only [escape, utf8_append]
    by_cases h : c.toNat < 128
    · have hu : utf8Char c = [c.toNat] := by simp [utf8Char, h]
      rw [hu] at hf ⊢
      simp only [List.cons_append, List.nil_append, escapeBF, escStep_ascii _ _ h, List.drop_zero]
      rw [escChar_ascii c h, escapeBF_utf8 s f (by simp at hf; omega)]
    · obtain ⟨l, conts, hu, hst⟩ := escStep_utf8Char c h (utf8 s)
      rw [hu] at hf ⊢
      simp only [List.cons_append, escapeBF, hst, List.drop_left']
      rw [escChar_nonascii c h]
      have : utf8 [c] = l :: conts := by simp [utf8, hu]
      rw [this, escapeBF_utf8 s f (by simp at hf; omega)]
      simp

theorem escapeB_utf8 (s : Str) : escapeB (utf8 s) = utf8 (escape s) :=
  escapeBF_utf8 s _ (Nat.le_refl _)

end MpVerif.C20

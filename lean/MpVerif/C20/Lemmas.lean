import MpVerif.C20.Model
/-!
# C20 lemmas: the writer machine produces `render v`; `parse (render v) = some v`
-/
namespace MpVerif.C20

/-! ## predicates -/

mutual
/-- every number token is a JSON number (strings and keys are arbitrary) -/
def Valid : Json → Prop
  | .null => True
  | .bool _ => True
  | .num t => isNumTok t = true
  | .str _ => True
  | .arr xs => ValidL xs
  | .obj ms => ValidM ms
def ValidL : JList → Prop
  | .nil => True
  | .cons x xs => Valid x ∧ ValidL xs
def ValidM : JMems → Prop
  | .nil => True
  | .cons _ v ms => Valid v ∧ ValidM ms
end

mutual
/-- no empty dictionary anywhere (an unset node is closed as `[]`, so `{}` cannot be written) -/
def NoEmptyObj : Json → Prop
  | .arr xs => NoEmptyObjL xs
  | .obj .nil => False
  | .obj (.cons _ v ms) => NoEmptyObj v ∧ NoEmptyObjM ms
  | _ => True
def NoEmptyObjL : JList → Prop
  | .nil => True
  | .cons x xs => NoEmptyObj x ∧ NoEmptyObjL xs
def NoEmptyObjM : JMems → Prop
  | .nil => True
  | .cons _ v ms => NoEmptyObj v ∧ NoEmptyObjM ms
end

mutual
def need : Json → Nat
  | .arr xs => 1 + needL xs
  | .obj ms => 1 + needM ms
  | _ => 1
def needL : JList → Nat
  | .nil => 0
  | .cons x xs => 1 + need x + needL xs
def needM : JMems → Nat
  | .nil => 0
  | .cons _ v ms => 1 + need v + needM ms
end

def JList.length : JList → Nat
  | .nil => 0
  | .cons _ xs => 1 + xs.length

def JMems.length : JMems → Nat
  | .nil => 0
  | .cons _ _ ms => 1 + ms.length

/-! ## the writer machine -/

theorem run_append (s : WState) (a b : List Op) : run s (a ++ b) = run (run s a) b := by
  simp [run, List.foldl_append]

theorem run_cons (s : WState) (a : Op) (b : List Op) : run s (a :: b) = run (step s a) b := rfl

theorem run_nil (s : WState) : run s [] = s := rfl

theorem numTok_finite (t : Str) (h : isNumTok t = true) : scalarText t = t := by
  have : isNonFinite t = false := by
    cases hf : isNonFinite t with
    | false => rfl
    | true =>
      simp only [isNonFinite, Bool.or_eq_true, decide_eq_true_eq] at hf
      rcases hf with (hf | hf) | hf <;> (subst hf; revert h; decide)
  simp [scalarText, this]

mutual
theorem run_value : ∀ (v : Json), NoEmptyObj v → Valid v → ∀ (out : Str) (stk : List Node),
    run ⟨out, ⟨.unset, 0⟩ :: stk⟩ (opsOf v) = ⟨out ++ render v, stk⟩
  | .null, _, _, out, stk => by
    have : scalarText cl!"null" = cl!"null" := by decide
    simp [opsOf, run, step, makeScalar, closeText, render, this]
  | .bool true, _, _, out, stk => by
    have : scalarText cl!"true" = cl!"true" := by decide
    simp [opsOf, run, step, makeScalar, closeText, render, this]
  | .bool false, _, _, out, stk => by
    have : scalarText cl!"false" = cl!"false" := by decide
    simp [opsOf, run, step, makeScalar, closeText, render, this]
  | .num t, _, hv, out, stk => by
    have := numTok_finite t hv
    simp [opsOf, run, step, makeScalar, closeText, render, this]
  | .str s, _, _, out, stk => by simp [opsOf, run, step, makeScalar, closeText, render]
  | .arr .nil, _, _, out, stk => by simp [opsOf, opsOfList, run, step, closeText, render]
  | .arr (.cons x xs), h, hv, out, stk => by
    have hx : NoEmptyObj x := by simp [NoEmptyObj, NoEmptyObjL] at h; exact h.1
    have hxs : NoEmptyObjL xs := by simp [NoEmptyObj, NoEmptyObjL] at h; exact h.2
    have hvl : ValidL (.cons x xs) := hv
    simp only [opsOf, opsOfList, run_append, run_cons, run_nil]
    have e1 : step ⟨out, ⟨.unset, 0⟩ :: stk⟩ .elem = ⟨out ++ ['['], ⟨.unset, 0⟩ :: ⟨.array, 1⟩ :: stk⟩ := by
      simp [step, ensureArr, sep]
    rw [e1, run_value x hx hvl.1, run_list xs hxs hvl.2]
    simp [step, closeText, render]
  | .obj .nil, h, _, _, _ => by simp [NoEmptyObj] at h
  | .obj (.cons k v ms), h, hv, out, stk => by
    have hv1 : NoEmptyObj v := by simp [NoEmptyObj] at h; exact h.1
    have hms : NoEmptyObjM ms := by simp [NoEmptyObj] at h; exact h.2
    have hvm : ValidM (.cons k v ms) := hv
    simp only [opsOf, opsOfMems, run_append, run_cons, run_nil]
    have e1 : step ⟨out, ⟨.unset, 0⟩ :: stk⟩ (.key k)
        = ⟨out ++ ('{' :: (quote k ++ [':', ' '])), ⟨.unset, 0⟩ :: ⟨.dict, 1⟩ :: stk⟩ := by
      simp [step, ensureDict, sep]
    rw [e1, run_value v hv1 hvm.1, run_mems ms hms hvm.2]
    simp [step, closeText, render]
theorem run_list : ∀ (xs : JList), NoEmptyObjL xs → ValidL xs → ∀ (out : Str) (n : Nat) (stk : List Node),
    run ⟨out, ⟨.array, n + 1⟩ :: stk⟩ (opsOfList xs) = ⟨out ++ renderTail xs, ⟨.array, n + 1 + xs.length⟩ :: stk⟩
  | .nil, _, _, out, n, stk => by simp [opsOfList, run, renderTail, JList.length]
  | .cons x xs, h, hv, out, n, stk => by
    have hx : NoEmptyObj x := h.1
    have hxs : NoEmptyObjL xs := h.2
    simp only [opsOfList, run_append, run_cons]
    have e1 : step ⟨out, ⟨.array, n + 1⟩ :: stk⟩ .elem
        = ⟨out ++ [',', ' '], ⟨.unset, 0⟩ :: ⟨.array, n + 1 + 1⟩ :: stk⟩ := by
      simp [step, ensureArr, sep]
    rw [e1, run_value x hx hv.1, run_list xs hxs hv.2]
    simp [renderTail, JList.length]
    omega
theorem run_mems : ∀ (ms : JMems), NoEmptyObjM ms → ValidM ms → ∀ (out : Str) (n : Nat) (stk : List Node),
    run ⟨out, ⟨.dict, n + 1⟩ :: stk⟩ (opsOfMems ms) = ⟨out ++ renderMTail ms, ⟨.dict, n + 1 + ms.length⟩ :: stk⟩
  | .nil, _, _, out, n, stk => by simp [opsOfMems, run, renderMTail, JMems.length]
  | .cons k v ms, h, hv, out, n, stk => by
    have hv1 : NoEmptyObj v := h.1
    have hms : NoEmptyObjM ms := h.2
    simp only [opsOfMems, run_append, run_cons]
    have e1 : step ⟨out, ⟨.dict, n + 1⟩ :: stk⟩ (.key k)
        = ⟨out ++ (',' :: ' ' :: (quote k ++ [':', ' '])), ⟨.unset, 0⟩ :: ⟨.dict, n + 1 + 1⟩ :: stk⟩ := by
      simp [step, ensureDict, sep]
    rw [e1, run_value v hv1 hv.1, run_mems ms hms hv.2]
    simp [renderMTail, JMems.length]
    omega
end

theorem writeText_eq_render (v : Json) (h : NoEmptyObj v) (hv : Valid v) : writeText v = render v := by
  simp [writeText, WState.init, run_value v h hv]

/-! ## the parser on rendered text -/

/-- what may follow a value inside rendered text -/
def Delim (rest : Str) : Prop := rest = [] ∨ ∃ c r, rest = c :: r ∧ (c = ',' ∨ c = ']' ∨ c = '}')

theorem numChar_props (c : Char) (h : numChar c = true) :
    isWs c = false ∧ c ≠ '{' ∧ c ≠ '[' ∧ c ≠ '"' ∧ c ≠ 't' ∧ c ≠ 'f' ∧ c ≠ 'n' ∧ c ≠ ']' ∧ c ≠ '}' := by
  refine ⟨?_, ?_, ?_, ?_, ?_, ?_, ?_, ?_, ?_⟩
  · cases hw : isWs c with
    | false => rfl
    | true =>
      simp only [isWs, Bool.or_eq_true, decide_eq_true_eq] at hw
      rcases hw with ((hw | hw) | hw) | hw <;> (subst hw; revert h; decide)
  all_goals (intro hc; subst hc; revert h; decide)

theorem delim_not_numChar (rest : Str) (h : Delim rest) :
    rest = [] ∨ ∃ c r, rest = c :: r ∧ numChar c = false := by
  rcases h with h | ⟨c, r, h, hc⟩
  · exact Or.inl h
  · refine Or.inr ⟨c, r, h, ?_⟩
    rcases hc with hc | hc | hc <;> (subst hc; decide)

theorem takeNum_append (t rest : Str) (ht : t.all numChar = true)
    (hr : rest = [] ∨ ∃ c r, rest = c :: r ∧ numChar c = false) : takeNum (t ++ rest) = (t, rest) := by
  induction t with
  | nil =>
    rcases hr with hr | ⟨c, r, hr, hc⟩
    · subst hr; rfl
    · subst hr; simp [takeNum, hc]
  | cons a t ih =>
    simp only [List.all_cons, Bool.and_eq_true] at ht
    simp [takeNum, ht.1, ih ht.2]

theorem lexNumber_append (t rest : Str) (ht : isNumTok t = true) (hd : Delim rest) :
    lexNumber (t ++ rest) = some (t, rest) := by
  simp only [isNumTok, Bool.and_eq_true] at ht
  simp [lexNumber, takeNum_append t rest ht.1 (delim_not_numChar rest hd), ht.2]

theorem lexString_plain (c : Char) (r : Str) (h1 : c ≠ '"') (h2 : c ≠ '\\') (h3 : ¬ c.toNat < 32) :
    lexString (c :: r) = (lexString r).map (fun p => (c :: p.1, p.2)) := by
  rw [lexString.eq_def]
  simp only [h1, h2, h3, if_false]
  cases lexString r with
  | none => rfl
  | some p => cases p; rfl

theorem lexString_simple (e ch : Char) (r : Str) (hu : e ≠ 'u') (hs : simpleEsc e = some ch) :
    lexString ('\\' :: e :: r) = (lexString r).map (fun p => (ch :: p.1, p.2)) := by
  rw [lexString.eq_def]
  have h0 : ('\\' : Char) ≠ '"' := by decide
  simp only [h0, if_false, if_true, hu, hs]
  cases lexString r with
  | none => rfl
  | some p => cases p; rfl

theorem lexString_u (a b c d : Char) (r : Str) (x y z w : Nat)
    (ha : hexVal a = some x) (hb : hexVal b = some y) (hc : hexVal c = some z) (hd : hexVal d = some w) :
    lexString ('\\' :: 'u' :: a :: b :: c :: d :: r)
      = (lexString r).map (fun p => (Char.ofNat (((x * 16 + y) * 16 + z) * 16 + w) :: p.1, p.2)) := by
  rw [lexString.eq_def]
  have h0 : ('\\' : Char) ≠ '"' := by decide
  simp only [h0, if_false, if_true, ha, hb, hc, hd]
  cases lexString r with
  | none => rfl
  | some p => cases p; rfl

theorem hex_small : ∀ n, n < 32 →
    hexVal '0' = some 0 ∧ hexVal (hexDigit (n / 16)) = some (n / 16) ∧ hexVal (hexDigit (n % 16)) = some (n % 16) := by
  decide

/-- the string lexer inverts `EscapeJSON` on **every** string -/
theorem lexString_append (s rest : Str) : lexString (escape s ++ '"' :: rest) = some (s, rest) := by
  induction s with
  | nil => rw [escape, List.nil_append, lexString.eq_def]; simp
  | cons c s ih =>
    simp only [escape, escChar]
    by_cases h1 : c = '"'
    · rw [if_pos h1]; subst h1
      simp only [List.cons_append, List.nil_append]
      rw [lexString_simple '"' '"' _ (by decide) (by decide), ih]; rfl
    rw [if_neg h1]
    by_cases h2 : c = '\\'
    · rw [if_pos h2]; subst h2
      simp only [List.cons_append, List.nil_append]
      rw [lexString_simple '\\' '\\' _ (by decide) (by decide), ih]; rfl
    rw [if_neg h2]
    by_cases h3 : c = '\n'
    · rw [if_pos h3]; subst h3
      simp only [List.cons_append, List.nil_append]
      rw [lexString_simple 'n' '\n' _ (by decide) (by decide), ih]; rfl
    rw [if_neg h3]
    by_cases h4 : c = '\r'
    · rw [if_pos h4]; subst h4
      simp only [List.cons_append, List.nil_append]
      rw [lexString_simple 'r' '\r' _ (by decide) (by decide), ih]; rfl
    rw [if_neg h4]
    by_cases h5 : c = '\t'
    · rw [if_pos h5]; subst h5
      simp only [List.cons_append, List.nil_append]
      rw [lexString_simple 't' '\t' _ (by decide) (by decide), ih]; rfl
    rw [if_neg h5]
    by_cases h6 : c.toNat < 32
    · rw [if_pos h6]
      simp only [List.cons_append, List.nil_append]
      have hh := hex_small c.toNat h6
      rw [lexString_u '0' '0' _ _ _ 0 0 _ _ hh.1 hh.1 hh.2.1 hh.2.2, ih]
      have : ((0 * 16 + 0) * 16 + c.toNat / 16) * 16 + c.toNat % 16 = c.toNat := by omega
      rw [this, Char.ofNat_toNat]; rfl
    · rw [if_neg h6]
      simp only [List.cons_append, List.nil_append]
      rw [lexString_plain c _ h1 h2 h6, ih]; rfl

theorem skipWs_of_not_ws (c : Char) (r : Str) (h : isWs c = false) : skipWs (c :: r) = c :: r := by
  simp [skipWs, h]

theorem pValue_space (f : Nat) (cs : Str) : pValue f (' ' :: cs) = pValue f cs := by
  cases f with
  | zero => simp [pValue]
  | succ f => simp [pValue, skipWs, isWs]

theorem pElems_space (f : Nat) (cs : Str) : pElems f (' ' :: cs) = pElems f cs := by
  cases f with
  | zero => simp [pElems]
  | succ f => simp [pElems, pValue_space]

theorem pMems_space (f : Nat) (cs : Str) : pMems f (' ' :: cs) = pMems f cs := by
  cases f with
  | zero => simp [pMems]
  | succ f => simp [pMems, skipWs, isWs]

/-- first character of rendered text: never whitespace, never a closing bracket -/
def isStart (c : Char) : Prop := isWs c = false ∧ c ≠ ']' ∧ c ≠ '}'

theorem render_head : ∀ (v : Json), Valid v → ∃ c r, render v = c :: r ∧ isStart c
  | .null, _ => ⟨'n', _, rfl, by unfold isStart; decide⟩
  | .bool true, _ => ⟨'t', _, rfl, by unfold isStart; decide⟩
  | .bool false, _ => ⟨'f', _, rfl, by unfold isStart; decide⟩
  | .num t, h => by
    simp only [Valid, isNumTok, Bool.and_eq_true] at h
    cases t with
    | nil => simp [validNumTok] at h
    | cons c r =>
      simp only [List.all_cons, Bool.and_eq_true] at h
      have := numChar_props c h.1.1
      exact ⟨c, r, rfl, this.1, this.2.2.2.2.2.2.2.1, this.2.2.2.2.2.2.2.2⟩
  | .str s, _ => ⟨'"', _, rfl, by unfold isStart; decide⟩
  | .arr .nil, _ => ⟨'[', _, rfl, by unfold isStart; decide⟩
  | .arr (.cons _ _), _ => ⟨'[', _, by rw [render], by unfold isStart; decide⟩
  | .obj .nil, _ => ⟨'{', _, rfl, by unfold isStart; decide⟩
  | .obj (.cons _ _ _), _ => ⟨'{', _, by rw [render], by unfold isStart; decide⟩

theorem pValue_arr_nonempty (f : Nat) (c : Char) (r : Str) (hc : isStart c) :
    pValue (f + 1) ('[' :: c :: r) = (pElems f (c :: r)).map (fun p => (Json.arr p.1, p.2)) := by
  have h0 : skipWs ('[' :: c :: r) = '[' :: c :: r := skipWs_of_not_ws _ _ (by decide)
  have h1 : skipWs (c :: r) = c :: r := skipWs_of_not_ws _ _ hc.1
  simp only [pValue, h0, h1]
  simp [hc.2.1]
  cases pElems f (c :: r) with
  | none => rfl
  | some p => cases p; rfl

theorem pValue_obj_nonempty (f : Nat) (r : Str) :
    pValue (f + 1) ('{' :: '"' :: r) = (pMems f ('"' :: r)).map (fun p => (Json.obj p.1, p.2)) := by
  have h0 : skipWs ('{' :: '"' :: r) = '{' :: '"' :: r := skipWs_of_not_ws _ _ (by decide)
  have h1 : skipWs ('"' :: r) = '"' :: r := skipWs_of_not_ws _ _ (by decide)
  simp only [pValue, h0, h1]
  simp
  cases pMems f ('"' :: r) with
  | none => rfl
  | some p => cases p; rfl

theorem pValue_num (f : Nat) (c : Char) (r : Str) (hc : numChar c = true) :
    pValue (f + 1) (c :: r) = (lexNumber (c :: r)).map (fun p => (Json.num p.1, p.2)) := by
  have h := numChar_props c hc
  have h0 : skipWs (c :: r) = c :: r := skipWs_of_not_ws _ _ h.1
  simp only [pValue, h0]
  simp [h.2.1, h.2.2.1, h.2.2.2.1, h.2.2.2.2.1, h.2.2.2.2.2.1, h.2.2.2.2.2.2.1]
  cases lexNumber (c :: r) with
  | none => rfl
  | some p => cases p; rfl

theorem delim_skipWs (rest : Str) (h : Delim rest) : skipWs rest = rest := by
  rcases h with h | ⟨c, r, h, hc⟩
  · subst h; rfl
  · subst h
    rcases hc with hc | hc | hc <;> (subst hc; simp [skipWs, isWs])

mutual
theorem rt_value : ∀ (v : Json) (f : Nat) (rest : Str), Valid v → need v ≤ f → Delim rest →
    pValue f (render v ++ rest) = some (v, rest)
  | .null, f, rest, _, hf, _ => by
    obtain ⟨f, rfl⟩ : ∃ g, f = g + 1 := ⟨f - 1, by simp [need] at hf; omega⟩
    simp [render, pValue, skipWs, isWs, dropPrefix]
  | .bool true, f, rest, _, hf, _ => by
    obtain ⟨f, rfl⟩ : ∃ g, f = g + 1 := ⟨f - 1, by simp [need] at hf; omega⟩
    simp [render, pValue, skipWs, isWs, dropPrefix]
  | .bool false, f, rest, _, hf, _ => by
    obtain ⟨f, rfl⟩ : ∃ g, f = g + 1 := ⟨f - 1, by simp [need] at hf; omega⟩
    simp [render, pValue, skipWs, isWs, dropPrefix]
  | .num t, f, rest, hv, hf, hd => by
    obtain ⟨f, rfl⟩ : ∃ g, f = g + 1 := ⟨f - 1, by simp [need] at hf; omega⟩
    have hv' : isNumTok t = true := hv
    have hl := lexNumber_append t rest hv' hd
    simp only [isNumTok, Bool.and_eq_true] at hv'
    cases t with
    | nil => simp [validNumTok] at hv'
    | cons c r =>
      simp only [List.all_cons, Bool.and_eq_true] at hv'
      simp only [render, List.cons_append] at hl ⊢
      rw [pValue_num f c _ hv'.1.1, hl]; rfl
  | .str s, f, rest, _, hf, _ => by
    obtain ⟨f, rfl⟩ : ∃ g, f = g + 1 := ⟨f - 1, by simp [need] at hf; omega⟩
    have := lexString_append s rest
    simp [render, quote, pValue, skipWs, isWs, this]
  | .arr .nil, f, rest, _, hf, _ => by
    obtain ⟨f, rfl⟩ : ∃ g, f = g + 1 := ⟨f - 1, by simp [need] at hf; omega⟩
    simp [render, pValue, skipWs, isWs]
  | .arr (.cons x xs), f, rest, hv, hf, _ => by
    obtain ⟨f, rfl⟩ : ∃ g, f = g + 1 := ⟨f - 1, by simp [need] at hf; omega⟩
    have hvl : ValidL (.cons x xs) := hv
    have hfl : needL (.cons x xs) ≤ f := by simp [need] at hf; omega
    have ih := rt_elems (.cons x xs) f rest hvl hfl (by simp)
    obtain ⟨c, r, hr, hc⟩ := render_head x hvl.1
    simp only [renderElems, hr, List.cons_append] at ih
    simp only [render, hr, List.cons_append, List.append_assoc]
    rw [pValue_arr_nonempty f c _ hc]
    simp only [List.append_assoc, List.cons_append, List.nil_append] at ih ⊢
    rw [ih]; rfl
  | .obj .nil, f, rest, _, hf, _ => by
    obtain ⟨f, rfl⟩ : ∃ g, f = g + 1 := ⟨f - 1, by simp [need] at hf; omega⟩
    simp [render, pValue, skipWs, isWs]
  | .obj (.cons k v ms), f, rest, hv, hf, _ => by
    obtain ⟨f, rfl⟩ : ∃ g, f = g + 1 := ⟨f - 1, by simp [need] at hf; omega⟩
    have hvm : ValidM (.cons k v ms) := hv
    have hfm : needM (.cons k v ms) ≤ f := by simp [need] at hf; omega
    have ih := rt_mems (.cons k v ms) f rest hvm hfm (by simp)
    simp only [renderMems, quote, List.cons_append] at ih
    simp only [render, quote, List.cons_append, List.append_assoc]
    rw [pValue_obj_nonempty f]
    simp only [List.append_assoc, List.cons_append, List.nil_append] at ih ⊢
    rw [ih]; rfl
theorem rt_elems : ∀ (l : JList) (f : Nat) (rest : Str), ValidL l → needL l ≤ f → l ≠ .nil →
    pElems f (renderElems l ++ ']' :: rest) = some (l, rest)
  | .nil, _, _, _, _, hne => absurd rfl hne
  | .cons x xs, f, rest, hv, hf, _ => by
    obtain ⟨f, rfl⟩ : ∃ g, f = g + 1 := ⟨f - 1, by simp [needL] at hf; omega⟩
    have hx : Valid x := hv.1
    have hxs : ValidL xs := hv.2
    have ihx := fun rest hd => rt_value x f rest hx (by simp [needL] at hf; omega) hd
    have ihxs := fun rest hne => rt_elems xs f rest hxs (by simp [needL] at hf; omega) hne
    cases xs with
    | nil =>
      have := ihx (']' :: rest) (Or.inr ⟨']', rest, rfl, Or.inr (Or.inl rfl)⟩)
      simp only [renderElems, renderTail, List.append_nil]
      simp [pElems, this, skipWs, isWs]
    | cons y ys =>
      have h1 := ihx (',' :: ' ' :: (renderElems (.cons y ys) ++ ']' :: rest))
        (Or.inr ⟨',', _, rfl, Or.inl rfl⟩)
      have h2 := ihxs rest (by simp)
      simp only [renderElems, renderTail, List.append_assoc, List.cons_append] at h1 h2 ⊢
      simp [pElems, h1, skipWs, isWs, pElems_space, h2]
theorem rt_mems : ∀ (m : JMems) (f : Nat) (rest : Str), ValidM m → needM m ≤ f → m ≠ .nil →
    pMems f (renderMems m ++ '}' :: rest) = some (m, rest)
  | .nil, _, _, _, _, hne => absurd rfl hne
  | .cons k v ms, f, rest, hv, hf, _ => by
    obtain ⟨f, rfl⟩ : ∃ g, f = g + 1 := ⟨f - 1, by simp [needM] at hf; omega⟩
    have hvv : Valid v := hv.1
    have hms : ValidM ms := hv.2
    have ihv := fun rest hd => rt_value v f rest hvv (by simp [needM] at hf; omega) hd
    have ihms := fun rest hne => rt_mems ms f rest hms (by simp [needM] at hf; omega) hne
    cases ms with
    | nil =>
      have h1 := ihv ('}' :: rest) (Or.inr ⟨'}', rest, rfl, Or.inr (Or.inr rfl)⟩)
      have hk' := lexString_append k (':' :: ' ' :: (render v ++ '}' :: rest))
      simp only [renderMems, renderMTail, quote, List.append_nil, List.append_assoc, List.cons_append,
        List.nil_append] at hk' ⊢
      simp [pMems, skipWs, isWs, hk', pValue_space, h1]
    | cons k2 v2 ms2 =>
      have h1 := ihv (',' :: ' ' :: (renderMems (.cons k2 v2 ms2) ++ '}' :: rest))
        (Or.inr ⟨',', _, rfl, Or.inl rfl⟩)
      have h2 := ihms rest (by simp)
      have hk' := lexString_append k
        (':' :: ' ' :: (render v ++ ',' :: ' ' :: (renderMems (.cons k2 v2 ms2) ++ '}' :: rest)))
      simp only [renderMems, renderMTail, quote, List.append_assoc, List.cons_append, List.nil_append]
        at h1 h2 hk' ⊢
      simp [pMems, skipWs, isWs, hk', pValue_space, h1, pMems_space, h2]
end

/-! ## fuel bound and the top-level round trip -/

theorem numTok_length (t : Str) (h : isNumTok t = true) : 1 ≤ t.length := by
  cases t with
  | nil => simp [isNumTok, validNumTok] at h
  | cons c r => simp

mutual
theorem need_le : ∀ (v : Json), Valid v → need v ≤ 2 * (render v).length
  | .null, _ => by simp [need, render]
  | .bool true, _ => by simp [need, render]
  | .bool false, _ => by simp [need, render]
  | .num t, h => by
    have := numTok_length t h
    simp only [need, render]; omega
  | .str s, _ => by simp [need, render, quote]; omega
  | .arr .nil, _ => by simp [need, needL, render]
  | .arr (.cons x xs), h => by
    have h1 := need_le x h.1
    have h2 := needL_le xs h.2
    simp only [need, needL, render, List.length_cons, List.length_append, List.length_nil]
    omega
  | .obj .nil, _ => by simp [need, needM, render]
  | .obj (.cons k v ms), h => by
    have h1 := need_le v h.1
    have h2 := needM_le ms h.2
    simp only [need, needM, render, quote, List.length_cons, List.length_append, List.length_nil]
    omega
theorem needL_le : ∀ (xs : JList), ValidL xs → needL xs ≤ 2 * (renderTail xs).length
  | .nil, _ => by simp [needL]
  | .cons x xs, h => by
    have h1 := need_le x h.1
    have h2 := needL_le xs h.2
    simp only [needL, renderTail, List.length_cons, List.length_append]
    omega
theorem needM_le : ∀ (ms : JMems), ValidM ms → needM ms ≤ 2 * (renderMTail ms).length
  | .nil, _ => by simp [needM]
  | .cons k v ms, h => by
    have h1 := need_le v h.1
    have h2 := needM_le ms h.2
    simp only [needM, renderMTail, quote, List.length_cons, List.length_append, List.length_nil]
    omega
end

theorem parse_render (v : Json) (hv : Valid v) : parse (render v) = some v := by
  have hn := need_le v hv
  have h := rt_value v (2 * (render v).length + 2) [] hv (by omega) (Or.inl rfl)
  rw [List.append_nil] at h
  simp [parse, h, skipWs]

end MpVerif.C20

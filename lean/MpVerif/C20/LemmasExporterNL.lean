import MpVerif.C20.LemmasExporter
/-! # C20: the NL item records and the objective records of the exporter transition system -/
namespace MpVerif.C20

def isNlObj : Rec → Bool | .nlObj _ => true | _ => false
def isNlCon : Rec → Bool | .nlCon _ _ => true | _ => false
def isNlDef : Rec → Bool | .nlDefVar _ => true | _ => false
def isObj : Rec → Bool | .obj _ _ => true | _ => false

/-- none of the four kinds -/
def isPlain (r : Rec) : Prop := isNlObj r = false ∧ isNlCon r = false ∧ isNlDef r = false ∧ isObj r = false

theorem lastObj_append : ∀ (a b : List Rec) (i : Nat),
    lastObj (a ++ b) i = match lastObj b i with | some x => some x | none => lastObj a i
  | [], b, i => by simp [lastObj]; cases lastObj b i <;> rfl
  | r :: a, b, i => by
    simp only [List.cons_append, lastObj, lastObj_append a b i]
    cases lastObj b i with
    | some x => rfl
    | none => rfl

theorem lastObj_noobj : ∀ (b : List Rec) (i : Nat), (∀ r, r ∈ b → isObj r = false) → lastObj b i = none
  | [], _, _ => rfl
  | r :: b, i, h => by
    have hr := h r (by simp)
    simp only [lastObj, lastObj_noobj b i (fun x hx => h x (by simp [hx]))]
    cases r <;> simp [isObj] at hr <;> rfl

theorem lastObj_objRecs : ∀ (l : List ObjInfo) (i0 i : Nat),
    lastObj (objRecs i0 l) i = if i0 ≤ i then l[i - i0]? else none
  | [], i0, i => by simp [objRecs, lastObj]
  | o :: l, i0, i => by
    simp only [objRecs, lastObj, lastObj_objRecs l (i0 + 1) i]
    by_cases h1 : i0 + 1 ≤ i
    · have h2 : i0 ≤ i := by omega
      have h3 : i - i0 = (i - (i0 + 1)) + 1 := by omega
      simp only [h1, h2, if_true, h3, List.getElem?_cons_succ]
      cases l[i - (i0 + 1)]? with
      | some x => rfl
      | none => simp; omega
    · by_cases h2 : i0 = i
      · subst h2; simp [h1]
      · have h3 : ¬ i0 ≤ i := by omega
        simp [h1, h2, h3]

structure NInv (s : XState) : Prop where
  /-- the NL objective records are exactly `0 .. n-1`, `n` = number of `ExportObj` calls -/
  nlobjs : s.out.filter isNlObj = (List.range s.nlObjs).map Rec.nlObj
  /-- the NL constraint records are exactly `0 .. n-1` (algebraic / logical as exported) -/
  nlcons : s.out.filter isNlCon = (List.range s.nlCons.length).map (fun k => Rec.nlCon k (s.nlCons.getD k false))
  /-- the NL common-expression records are exactly `0 .. n-1` -/
  nldefs : s.out.filter isNlDef = (List.range s.nlDefs).map Rec.nlDefVar
  /-- every flat objective has a record, none beyond -/
  objs1 : ∀ i, i < s.objs.length → ∃ o, Rec.obj i o ∈ s.out
  objs2 : ∀ i o, Rec.obj i o ∈ s.out → i < s.objs.length
  /-- after the push the LAST record of every flat objective shows the objective as it is then (what the API received) -/
  objfin : s.finished = true → ∀ i o, s.objs[i]? = some o → lastObj s.out i = some o

theorem ninv_init : NInv {} :=
  ⟨by simp, by simp, by simp, fun i h => by simp at h, fun i o h => by simp at h, fun h => by simp at h⟩

/-- appending records of other kinds, counters and objectives untouched -/
theorem ninv_plain (s s' : XState) (h : NInv s) (rs : List Rec) (ho : s'.out = s.out ++ rs)
    (hk : ∀ r, r ∈ rs → isPlain r) (h1 : s'.nlObjs = s.nlObjs) (h2 : s'.nlCons = s.nlCons) (h3 : s'.nlDefs = s.nlDefs)
    (h4 : s'.objs = s.objs) (hf : s'.finished = s.finished) : NInv s' := by
  refine ⟨?_, ?_, ?_, ?_, ?_, ?_⟩
  · rw [ho, h1, filter_append_nil _ _ _ (fun x hx => (hk x hx).1)]; exact h.nlobjs
  · rw [ho, h2, filter_append_nil _ _ _ (fun x hx => (hk x hx).2.1)]; exact h.nlcons
  · rw [ho, h3, filter_append_nil _ _ _ (fun x hx => (hk x hx).2.2.1)]; exact h.nldefs
  · intro i hi; rw [h4] at hi; obtain ⟨o, hm⟩ := h.objs1 i hi; exact ⟨o, by rw [ho]; simp [hm]⟩
  · intro i o hm; rw [ho] at hm; rw [h4]
    rcases List.mem_append.mp hm with hm | hm
    · exact h.objs2 i o hm
    · have := (hk _ hm).2.2.2; simp [isObj] at this
  · intro hfin i o hio
    rw [hf] at hfin; rw [h4] at hio
    rw [ho, lastObj_append, lastObj_noobj rs i (fun r hr => (hk r hr).2.2.2)]
    exact h.objfin hfin i o hio

theorem plain_var (i : Nat) (b : Bool) (info : VarInfo) : isPlain (Rec.var i b info) := ⟨rfl, rfl, rfl, rfl⟩
theorem plain_new (ty : Str) (i : Nat) : isPlain (Rec.conNew ty i) := ⟨rfl, rfl, rfl, rfl⟩
theorem plain_link (l : Str) (e : Nat) (a b : List NodeRef) : isPlain (Rec.link l e a b) := ⟨rfl, rfl, rfl, rfl⟩

theorem ninv_reject (s : XState) (h : NInv s) : NInv (reject s) :=
  ⟨h.nlobjs, h.nlcons, h.nldefs, h.objs1, h.objs2, h.objfin⟩

theorem ninv_step (cfg : Cfg) (s : XState) (h : NInv s) (e : Ev) : NInv (xev cfg s e) := by
  cases e with
  | addVar b info =>
    simp only [xev]; split
    · exact ninv_reject s h
    · exact ninv_plain s _ h [Rec.var s.vars.length b info] rfl (by intro r hr; simp at hr; subst hr; exact plain_var _ _ _) rfl rfl rfl rfl rfl
  | setVar i info =>
    simp only [xev]; split
    · exact ninv_reject s h
    · split
      · exact ninv_plain s _ h [] (by simp) (by intro r hr; simp at hr) rfl rfl rfl rfl rfl
      · exact ninv_reject s h
  | store ty =>
    simp only [xev]; split
    · exact ninv_reject s h
    · exact ninv_plain s _ h [Rec.conNew ty (s.cons ty).length] rfl (by intro r hr; simp at hr; subst hr; exact plain_new _ _) rfl rfl rfl rfl rfl
  | bridge ty i =>
    simp only [xev]; split
    · exact ninv_reject s h
    · exact ninv_plain s _ h [] (by simp) (by intro r hr; simp at hr) rfl rfl rfl rfl rfl
  | unuse ty i =>
    simp only [xev]; split
    · exact ninv_reject s h
    · exact ninv_plain s _ h [] (by simp) (by intro r hr; simp at hr) rfl rfl rfl rfl rfl
  | addItems node n =>
    simp only [xev]; split
    · exact ninv_reject s h
    · exact ninv_plain s _ h [] (by simp [addItemsState]) (by intro r hr; simp at hr) rfl rfl rfl rfl rfl
  | link lty en src dst =>
    simp only [xev]; split
    · exact ninv_plain s _ h [Rec.link lty en src dst] rfl (by intro r hr; simp at hr; subst hr; exact plain_link _ _ _ _) rfl rfl rfl rfl rfl
    · exact ninv_reject s h
  | nlObj =>
    simp only [xev]; split
    · exact ninv_reject s h
    · rename_i hf
      refine ⟨?_, ?_, ?_, ?_, ?_, fun hfin => by simp at hfin; simp [hfin] at hf⟩
      · simp only []; rw [List.filter_append, h.nlobjs]; simp [isNlObj, List.range_succ]
      · simp only []; rw [filter_append_nil _ _ _ (by intro x hx; simp at hx; subst hx; rfl)]; exact h.nlcons
      · simp only []; rw [filter_append_nil _ _ _ (by intro x hx; simp at hx; subst hx; rfl)]; exact h.nldefs
      · intro i hi; obtain ⟨o, hm⟩ := h.objs1 i hi; exact ⟨o, by simp [hm]⟩
      · intro i o hm; simp only [List.mem_append, List.mem_singleton] at hm
        rcases hm with hm | hm
        · exact h.objs2 i o hm
        · cases hm
  | nlCon l =>
    simp only [xev]; split
    · exact ninv_reject s h
    · rename_i hf
      refine ⟨?_, ?_, ?_, ?_, ?_, fun hfin => by simp at hfin; simp [hfin] at hf⟩
      · simp only []; rw [filter_append_nil _ _ _ (by intro x hx; simp at hx; subst hx; rfl)]; exact h.nlobjs
      · simp only []; rw [List.filter_append, h.nlcons]
        simp only [List.length_append, List.length_singleton, List.range_succ, List.map_append, List.map_cons, List.map_nil]
        have e1 : (List.range s.nlCons.length).map (fun k => Rec.nlCon k ((s.nlCons ++ [l]).getD k false))
            = (List.range s.nlCons.length).map (fun k => Rec.nlCon k (s.nlCons.getD k false)) := by
          apply List.map_congr_left
          intro k hk
          have : k < s.nlCons.length := List.mem_range.mp hk
          simp [List.getD_eq_getElem?_getD, List.getElem?_append_left this]
        have e2 : (s.nlCons ++ [l]).getD s.nlCons.length false = l := by simp [List.getD_eq_getElem?_getD]
        rw [e1, e2]; simp [isNlCon]
      · simp only []; rw [filter_append_nil _ _ _ (by intro x hx; simp at hx; subst hx; rfl)]; exact h.nldefs
      · intro i hi; obtain ⟨o, hm⟩ := h.objs1 i hi; exact ⟨o, by simp [hm]⟩
      · intro i o hm; simp only [List.mem_append, List.mem_singleton] at hm
        rcases hm with hm | hm
        · exact h.objs2 i o hm
        · cases hm
  | nlDefVar =>
    simp only [xev]; split
    · exact ninv_reject s h
    · rename_i hf
      refine ⟨?_, ?_, ?_, ?_, ?_, fun hfin => by simp at hfin; simp [hfin] at hf⟩
      · simp only []; rw [filter_append_nil _ _ _ (by intro x hx; simp at hx; subst hx; rfl)]; exact h.nlobjs
      · simp only []; rw [filter_append_nil _ _ _ (by intro x hx; simp at hx; subst hx; rfl)]; exact h.nlcons
      · simp only []; rw [List.filter_append, h.nldefs]; simp [isNlDef, List.range_succ]
      · intro i hi; obtain ⟨o, hm⟩ := h.objs1 i hi; exact ⟨o, by simp [hm]⟩
      · intro i o hm; simp only [List.mem_append, List.mem_singleton] at hm
        rcases hm with hm | hm
        · exact h.objs2 i o hm
        · cases hm
  | addObj info =>
    simp only [xev]; split
    · exact ninv_reject s h
    · rename_i hf
      refine ⟨?_, ?_, ?_, ?_, ?_, fun hfin => by simp at hfin; simp [hfin] at hf⟩
      · simp only []; rw [filter_append_nil _ _ _ (by intro x hx; simp at hx; subst hx; rfl)]; exact h.nlobjs
      · simp only []; rw [filter_append_nil _ _ _ (by intro x hx; simp at hx; subst hx; rfl)]; exact h.nlcons
      · simp only []; rw [filter_append_nil _ _ _ (by intro x hx; simp at hx; subst hx; rfl)]; exact h.nldefs
      · intro i hi
        simp only [List.length_append, List.length_singleton] at hi
        by_cases e : i < s.objs.length
        · obtain ⟨o, hm⟩ := h.objs1 i e; exact ⟨o, by simp [hm]⟩
        · have : i = s.objs.length := by omega
          subst this; exact ⟨info, by simp⟩
      · intro i o hm; simp only [List.mem_append, List.mem_singleton] at hm
        simp only [List.length_append, List.length_singleton]
        rcases hm with hm | hm
        · have := h.objs2 i o hm; omega
        · cases hm; omega
  | setObj i info =>
    simp only [xev]; split
    · exact ninv_reject s h
    · rename_i hf
      simp only [Bool.or_eq_true, Bool.not_eq_true', not_or] at hf
      refine ⟨h.nlobjs, h.nlcons, h.nldefs, ?_, ?_, fun hfin => by simp at hfin; simp [hfin] at hf⟩
      · intro k hk; simp only [setAt, List.length_set] at hk; exact h.objs1 k hk
      · intro k o hm; simp only [setAt, List.length_set]; exact h.objs2 k o hm
  | finish =>
    simp only [xev]; split
    · exact ninv_reject s h
    · have hplain : ∀ r, r ∈ finishRecs cfg s → isNlObj r = false ∧ isNlCon r = false ∧ isNlDef r = false := by
        intro r hr
        simp only [finishRecs, List.mem_append] at hr
        rcases hr with hr | hr | hr | hr
        · obtain ⟨k, b, info, e, _⟩ := varRecs_mem s.vars 0 r hr; subst e; exact ⟨rfl, rfl, rfl⟩
        · obtain ⟨k, o, e, _⟩ := objRecs_mem s.objs 0 r hr; subst e; exact ⟨rfl, rfl, rfl⟩
        · have := (af_status cfg s.cons cfg.types r hr).1
          cases r <;> simp [isStatus] at this; exact ⟨rfl, rfl, rfl⟩
        · simp only [List.mem_map] at hr; obtain ⟨t, _, e⟩ := hr; subst e; exact ⟨rfl, rfl, rfl⟩
      refine ⟨?_, ?_, ?_, ?_, ?_, ?_⟩
      · simp only [finishState]; rw [filter_append_nil _ _ _ (fun x hx => (hplain x hx).1)]; exact h.nlobjs
      · simp only [finishState]; rw [filter_append_nil _ _ _ (fun x hx => (hplain x hx).2.1)]; exact h.nlcons
      · simp only [finishState]; rw [filter_append_nil _ _ _ (fun x hx => (hplain x hx).2.2)]; exact h.nldefs
      · intro i hi; obtain ⟨o, hm⟩ := h.objs1 i hi; exact ⟨o, by simp [finishState, hm]⟩
      · intro i o hm
        simp only [finishState, finishRecs, List.mem_append] at hm
        rcases hm with hm | hm | hm | hm | hm
        · exact h.objs2 i o hm
        · obtain ⟨k, b, info, e, _⟩ := varRecs_mem s.vars 0 _ hm; cases e
        · obtain ⟨k, o', e, hk⟩ := objRecs_mem s.objs 0 _ hm
          cases e
          obtain ⟨hlt, _⟩ := List.getElem?_eq_some_iff.mp hk
          show 0 + k < s.objs.length
          omega
        · have := (af_status cfg s.cons cfg.types _ hm).1; simp [isStatus] at this
        · simp only [List.mem_map] at hm; obtain ⟨t, _, e⟩ := hm; cases e
      · intro _ i o hio
        have hio' : s.objs[i]? = some o := hio
        have hrest : ∀ r, r ∈ (allFinish cfg s.cons cfg.types).1 ++ cfg.types.map (fun ty => Rec.conGroup ty (cfg.grp ty)) → isObj r = false := by
          intro r hr
          rcases List.mem_append.mp hr with hr | hr
          · have := (af_status cfg s.cons cfg.types r hr).1
            cases r <;> simp [isStatus] at this; rfl
          · simp only [List.mem_map] at hr; obtain ⟨t, _, e⟩ := hr; subst e; rfl
        simp only [finishState, finishRecs]
        rw [lastObj_append, lastObj_append (varRecs 0 s.vars), lastObj_append (objRecs 0 s.objs), lastObj_noobj _ i hrest,
            lastObj_objRecs]
        simp [hio']

theorem ninv_run (cfg : Cfg) : ∀ (evs : List Ev) (s : XState), NInv s → NInv (xevs cfg s evs)
  | [], _, h => h
  | e :: evs, s, h => ninv_run cfg evs (xev cfg s e) (ninv_step cfg s h e)

end MpVerif.C20

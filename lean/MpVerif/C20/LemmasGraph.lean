import MpVerif.C20.ModelGraph
/-! # C20 lemmas for the validator: what `hasVar`, `hasObj`, `lastVar`, `lastObj`, `allIdx` compute -/
namespace MpVerif.C20

theorem hasVar_spec (g : List Rec) (i : Nat) (b : Bool) (h : hasVar g i b = true) :
    ∃ info, Rec.var i b info ∈ g := by
  simp only [hasVar, List.any_eq_true] at h
  obtain ⟨r, hr, hp⟩ := h
  cases r <;> simp at hp
  rename_i j b' info
  obtain ⟨rfl, rfl⟩ := hp
  exact ⟨info, hr⟩

theorem hasObj_spec (g : List Rec) (i : Nat) (h : hasObj g i = true) : ∃ info, Rec.obj i info ∈ g := by
  simp only [hasObj, List.any_eq_true] at h
  obtain ⟨r, hr, hp⟩ := h
  cases r <;> simp at hp
  rename_i j info
  subst hp
  exact ⟨info, hr⟩

theorem lastObj_none : ∀ (g : List Rec) (i : Nat), lastObj g i = none → ∀ o, Rec.obj i o ∉ g
  | [], _, _, _ => by simp
  | r :: g, i, h, o => by
    unfold lastObj at h
    cases hl : lastObj g i with
    | some x => simp [hl] at h
    | none =>
      simp only [hl] at h
      have ih := lastObj_none g i hl o
      intro hm
      rcases List.mem_cons.mp hm with hm | hm
      · subst hm; simp at h
      · exact ih hm

/-- `lastObj g i = some o`: the file has a record of objective `i` carrying `o`, and no later record of objective `i` -/
theorem lastObj_spec : ∀ (g : List Rec) (i : Nat) (o : ObjInfo), lastObj g i = some o →
    ∃ pre post, g = pre ++ Rec.obj i o :: post ∧ ∀ o', Rec.obj i o' ∉ post
  | [], _, _, h => by simp [lastObj] at h
  | r :: g, i, o, h => by
    unfold lastObj at h
    cases hl : lastObj g i with
    | some x =>
      simp only [hl, Option.some.injEq] at h
      subst h
      obtain ⟨pre, post, hg, hp⟩ := lastObj_spec g i x hl
      exact ⟨r :: pre, post, by simp [hg], hp⟩
    | none =>
      simp only [hl] at h
      cases r <;> simp at h
      rename_i j info
      obtain ⟨rfl, rfl⟩ := h
      exact ⟨[], g, by simp, lastObj_none g j hl⟩

theorem lastVar_none : ∀ (g : List Rec) (i : Nat), lastVar g i = none → ∀ b v, Rec.var i b v ∉ g
  | [], _, _, _, _ => by simp
  | r :: g, i, h, b, v => by
    unfold lastVar at h
    cases hl : lastVar g i with
    | some x => simp [hl] at h
    | none =>
      simp only [hl] at h
      have ih := lastVar_none g i hl b v
      intro hm
      rcases List.mem_cons.mp hm with hm | hm
      · subst hm; simp at h
      · exact ih hm

theorem lastVar_spec : ∀ (g : List Rec) (i : Nat) (v : VarInfo), lastVar g i = some v →
    ∃ pre post b, g = pre ++ Rec.var i b v :: post ∧ ∀ b' v', Rec.var i b' v' ∉ post
  | [], _, _, h => by simp [lastVar] at h
  | r :: g, i, v, h => by
    unfold lastVar at h
    cases hl : lastVar g i with
    | some x =>
      simp only [hl, Option.some.injEq] at h
      subst h
      obtain ⟨pre, post, b, hg, hp⟩ := lastVar_spec g i x hl
      exact ⟨r :: pre, post, b, by simp [hg], hp⟩
    | none =>
      simp only [hl] at h
      cases r <;> simp at h
      rename_i j b info
      obtain ⟨rfl, rfl⟩ := h
      exact ⟨[], g, b, by simp, lastVar_none g j hl⟩

theorem allIdx_spec {α : Type} (p : Nat → α → Bool) : ∀ (l : List α) (i0 : Nat), allIdx p i0 l = true →
    ∀ j a, l[j]? = some a → p (i0 + j) a = true
  | [], _, _, j, a, h => by simp at h
  | x :: l, i0, h, j, a, hj => by
    simp only [allIdx, Bool.and_eq_true] at h
    cases j with
    | zero => simp at hj; subst hj; simpa using h.1
    | succ j =>
      simp only [List.getElem?_cons_succ] at hj
      have := allIdx_spec p l (i0 + 1) h.2 j a hj
      rw [show i0 + (j + 1) = i0 + 1 + j by omega]; exact this

end MpVerif.C20

/-! Line driver for C20 (stub; replaced when the model is written). -/
def main : IO Unit := pure ()

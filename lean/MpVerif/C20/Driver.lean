import MpVerif.C20.ModelGraph
import MpVerif.C20.ModelExport
import MpVerif.C20.ModelEscape
import MpVerif.C20.ModelExporter
/-! Line driver for C20.  One op per line, one answer line per op; no logic of its own.

  W <op>*            writer machine: ops `k:<hex>` `e` `s:<hex>` `t:<hex>` `c`  ->  hex of the text written
  P <hex>            parse a text -> `some <canonical form>` | `none`
  reset              forget graph lines and delivered log
  L <hex>            one line of the export (raw bytes, hex) -> `rec <tag>` | `nojson` | `noobj` | `unknown` | `badutf8`
  N a b c d e        NL sizes: vars objs algebraic-cons logical-cons common-expressions
  v ty lbInf ubInf   one delivered variable (type 0/1, bound-is-infinite flags 0/1), in index order
  o sense lin q1 q2  one delivered objective (sense 0/1; comma-separated variable lists or `-`), in index order
  C <hexty> g <hexname>   one delivered constraint (short type name, group, name)
  check              -> `ok` | `fail <reasons>`
  EX <sub> …         exporter transition system (ModelExporter): `reset`, `types <hexty>*`, `grp <hexty> n`, `name <hexty> i <hexname>`,
                     `addnodes <hexnode>*`, events `a <hexnode> n` (ValueNode::Add), `v b ty li ui`, `sv i ty li ui`, `s <hexty>`, `b <hexty> i`, `u <hexty> i`,
                     `no` / `nc <0|1>` / `nd` (NL objective / constraint / common-expression record), `ao sense lin q1 q2`, `so i sense lin q1 q2` (flat objective added / rewritten),
                     `l <hexlty> entry <src> <dst>` (endpoints `hexnode:beg:last` joined by `,`, or `-`), `f`;
                     `dump` -> `rej=<n> fin=<0|1> | <non-link records> | <delivered> | links=<n>`
  EB <hex>           byte-level `EscapeJSON` model: hex of `escapeB` of the given bytes
  WA <op>* / XA <op>*  which arms of `step`/`escChar` resp. `addEntry`/`addRange` the sequence takes (coverage note only)
  X <op>*            link-export protocol: ops `a:<c|o|m>:<src>:<sb>:<se>:<dst>:<db>:<de>` (AddEntry) and `f` (finish)
                     -> `<hex of the exported text> <final entries by registered range> all=<0|1> late=<0|1>`
-/
open MpVerif.C20

def hexDig? (c : Char) : Option Nat := hexVal c

def unhexBytes (s : List Char) : Option ByteArray :=
  let rec go : List Char → ByteArray → Option ByteArray
    | [], acc => some acc
    | a :: b :: r, acc =>
      match hexDig? a, hexDig? b with
      | some x, some y => go r (acc.push (UInt8.ofNat (x * 16 + y)))
      | _, _ => none
    | _, _ => none
  go s ByteArray.empty

def unhexStr (s : String) : Option (Option Str) :=
  if s == "-" then some (some []) else
  match unhexBytes s.toList with
  | none => none
  | some b =>
    match String.fromUTF8? b with
    | some t => some (some t.toList)
    | none => some none

def hexOfStr (s : Str) : String :=
  let b := (String.ofList s).toUTF8
  let hd (n : Nat) : Char := if n < 10 then Char.ofNat (48 + n) else Char.ofNat (87 + n)
  if b.size == 0 then "-" else
  String.ofList (b.toList.flatMap (fun x => [hd (x.toNat / 16), hd (x.toNat % 16)]))

def parseOp (t : String) : Option Op :=
  if t == "e" then some .elem
  else if t == "c" then some .close
  else
    match t.splitOn ":" with
    | [k, h] =>
      match unhexStr h with
      | some (some s) =>
        if k == "k" then some (.key s) else if k == "s" then some (.scalar s)
        else if k == "t" then some (.string s) else none
      | _ => none
    | _ => none

def parseXOp (t : String) : Option XOp :=
  if t == "f" then some .finish else
  match t.splitOn ":" with
  | ["a", k, sn, sb, se, dn, db, de] =>
    let kind : Option LKind := if k == "c" then some .copy else if k == "o" then some .one2many
      else if k == "m" then some .many2one else none
    match kind, sb.toNat?, se.toNat?, db.toNat?, de.toNat? with
    | some kd, some sb, some se, some db, some de => some (.add kd (⟨sn.toList, sb, se⟩, ⟨dn.toList, db, de⟩))
    | _, _, _, _, _ => none
  | _ => none

def kindChar : LKind → String
  | .copy => "c" | .one2many => "o" | .many2one => "m"

def finalDump (s : PState) : String :=
  let rec go (i : Nat) : List LRange → String
    | [] => ""
    | r :: rs =>
      ((List.range' r.beg (r.end_ - r.beg)).foldl (fun acc j =>
        let e := extentOf s r.link j
        acc ++ s!"{i},{kindChar r.link},{j},{String.ofList e.1.node},{e.1.beg},{e.1.end_},{String.ofList e.2.node},{e.2.beg},{e.2.end_};") "")
      ++ go (i + 1) rs
  let d := go 0 s.brl
  if d == "" then "-" else d

def natCsv (s : String) : Option (List Nat) :=
  if s == "-" then some [] else (s.splitOn ",").mapM (·.toNat?)

structure XCfgS where
  types : List Str := []
  grp : List (Str × Nat) := []
  names : List ((Str × Nat) × Str) := []
  addNodes : List Str := []

def XCfgS.toCfg (c : XCfgS) : Cfg :=
  ⟨c.types, fun ty => (c.grp.lookup ty).getD 0, fun ty i => (c.names.lookup (ty, i)).getD [], c.addNodes⟩

def parseRefs (s : String) : Option (List NodeRef) :=
  if s == "-" then some [] else
  (s.splitOn ",").mapM (fun t =>
    match t.splitOn ":" with
    | [n, b, l] =>
      match unhexStr n, b.toNat?, l.toNat? with
      | some (some nd), some b, some l => some ⟨nd, b, l⟩
      | _, _, _ => none
    | _ => none)

def b01 (b : Bool) : String := if b then "1" else "0"

def csvNat (l : List Nat) : String := if l.isEmpty then "-" else ",".intercalate (l.map toString)

def recCanon : Rec → Option String
  | .var i b info => some s!"V {i} {b01 b} {info.ty} {b01 info.lbInf} {b01 info.ubInf}"
  | .conNew ty i => some s!"N {hexOfStr ty} {i}"
  | .conStatus ty i nm u b f => some s!"S {hexOfStr ty} {i} {hexOfStr nm} {b01 u} {b01 b} {b01 f}"
  | .conGroup ty g => some s!"G {hexOfStr ty} {g}"
  | .nlObj i => some s!"NO {i}"
  | .nlCon i l => some s!"NC {i} {b01 l}"
  | .nlDefVar i => some s!"ND {i}"
  | .obj i o => some s!"O {i} {o.sense} {csvNat o.lin} {csvNat o.q1} {csvNat o.q2}"
  | _ => none

structure DState where
  lines : List (Option Rec) := []      -- reversed
  bad : Bool := false
  xc : XCfgS := {}
  xs : XState := {}
  xevents : List Ev := []
  d : Delivered := ⟨0, 0, 0, 0, 0, [], [], []⟩

partial def loop (h : IO.FS.Stream) (out : IO.FS.Stream) (st : DState) : IO Unit := do
  let line ← h.getLine
  if line.isEmpty then return ()
  let toks := (line.trimAscii.toString.splitOn " ").filter (· != "")
  match toks with
  | "W" :: ops =>
    match ops.mapM parseOp with
    | some os => out.putStrLn (hexOfStr (run WState.init os).out); loop h out st
    | none => out.putStrLn "bad-op"; loop h out st
  | ["P", hx] =>
    match unhexStr hx with
    | some (some s) =>
      match parse s with
      | some v => out.putStrLn ("some " ++ String.ofList (canon v))
      | none => out.putStrLn "none"
      loop h out st
    | some none => out.putStrLn "badutf8"; loop h out st
    | none => out.putStrLn "bad-op"; loop h out st
  | "WA" :: ops =>
    match ops.mapM parseOp with
    | some os =>
      let strs := os.filterMap (fun o => match o with | .key k => some k | .string t => some t | _ => none)
      out.putStrLn (" ".intercalate (runArms WState.init os ++ (strs.flatMap (fun t => t.map (fun c => "esc:" ++ escArm c))).eraseDups))
      loop h out st
    | none => out.putStrLn "bad-op"; loop h out st
  | "XA" :: ops =>
    match ops.mapM parseXOp with
    | some os => out.putStrLn (" ".intercalate (xrunArms {} os)); loop h out st
    | none => out.putStrLn "bad-op"; loop h out st
  | "EX" :: sub =>
    let ev (e : Ev) : IO Unit := do out.putStrLn "ok"; loop h out { st with xevents := st.xevents ++ [e] }
    match sub with
    | ["reset"] => out.putStrLn "ok"; loop h out { st with xc := {}, xs := {}, xevents := [] }
    | "types" :: tys =>
      match tys.mapM (fun t => match unhexStr t with | some (some x) => some x | _ => none) with
      | some l => out.putStrLn "ok"; loop h out { st with xc := { st.xc with types := l } }
      | none => out.putStrLn "bad-op"; loop h out st
    | ["grp", ty, n] =>
      match unhexStr ty, n.toNat? with
      | some (some ty), some n => out.putStrLn "ok"; loop h out { st with xc := { st.xc with grp := st.xc.grp ++ [(ty, n)] } }
      | _, _ => out.putStrLn "bad-op"; loop h out st
    | ["name", ty, i, nm] =>
      match unhexStr ty, i.toNat?, unhexStr nm with
      | some (some ty), some i, some (some nm) =>
        out.putStrLn "ok"; loop h out { st with xc := { st.xc with names := st.xc.names ++ [((ty, i), nm)] } }
      | _, _, _ => out.putStrLn "bad-op"; loop h out st
    | "addnodes" :: nds =>
      match nds.mapM (fun t => match unhexStr t with | some (some x) => some x | _ => none) with
      | some l => out.putStrLn "ok"; loop h out { st with xc := { st.xc with addNodes := l } }
      | none => out.putStrLn "bad-op"; loop h out st
    | ["a", nd, n] =>
      match unhexStr nd, n.toNat? with
      | some (some nd), some n => ev (.addItems nd n)
      | _, _ => out.putStrLn "bad-op"; loop h out st
    | ["v", b, ty, li, ui] =>
      match b.toNat?, ty.toNat?, li.toNat?, ui.toNat? with
      | some b, some ty, some li, some ui => ev (.addVar (b != 0) ⟨ty, li != 0, ui != 0⟩)
      | _, _, _, _ => out.putStrLn "bad-op"; loop h out st
    | ["sv", i, ty, li, ui] =>
      match i.toNat?, ty.toNat?, li.toNat?, ui.toNat? with
      | some i, some ty, some li, some ui => ev (.setVar i ⟨ty, li != 0, ui != 0⟩)
      | _, _, _, _ => out.putStrLn "bad-op"; loop h out st
    | ["s", ty] =>
      match unhexStr ty with
      | some (some ty) => ev (.store ty)
      | _ => out.putStrLn "bad-op"; loop h out st
    | ["b", ty, i] =>
      match unhexStr ty, i.toNat? with
      | some (some ty), some i => ev (.bridge ty i)
      | _, _ => out.putStrLn "bad-op"; loop h out st
    | ["u", ty, i] =>
      match unhexStr ty, i.toNat? with
      | some (some ty), some i => ev (.unuse ty i)
      | _, _ => out.putStrLn "bad-op"; loop h out st
    | ["l", lty, e, src, dst] =>
      match unhexStr lty, e.toNat?, parseRefs src, parseRefs dst with
      | some (some lty), some e, some s1, some d1 => ev (.link lty e s1 d1)
      | _, _, _, _ => out.putStrLn "bad-op"; loop h out st
    | ["no"] => ev .nlObj
    | ["nc", l] => ev (.nlCon (l != "0"))
    | ["nd"] => ev .nlDefVar
    | ["ao", sn, l, q1, q2] =>
      match sn.toNat?, natCsv l, natCsv q1, natCsv q2 with
      | some sn, some l, some q1, some q2 => ev (.addObj ⟨sn, l, q1, q2⟩)
      | _, _, _, _ => out.putStrLn "bad-op"; loop h out st
    | ["so", i, sn, l, q1, q2] =>
      match i.toNat?, sn.toNat?, natCsv l, natCsv q1, natCsv q2 with
      | some i, some sn, some l, some q1, some q2 => ev (.setObj i ⟨sn, l, q1, q2⟩)
      | _, _, _, _, _ => out.putStrLn "bad-op"; loop h out st
    | ["f"] => ev .finish
    | ["dump"] =>
      let s := xevs st.xc.toCfg {} st.xevents
      let recs := s.out.filterMap recCanon
      let nlinks := (s.out.filter (fun r => match r with | .link _ _ _ _ => true | _ => false)).length
      let dl := s.delivered.map (fun c => s!"D {hexOfStr c.ty} {c.grp} {hexOfStr c.name}")
      out.putStrLn (s!"rej={s.rejected} fin={b01 s.finished} | " ++ ";".intercalate recs ++ " | " ++ ";".intercalate dl ++ s!" | links={nlinks}")
      loop h out st
    | _ => out.putStrLn "bad-op"; loop h out st
  | ["EB", hx] =>
    match (if hx == "-" then some ByteArray.empty else unhexBytes hx.toList) with
    | some b =>
      let o := escapeB (b.toList.map (·.toNat))
      let hd (n : Nat) : Char := if n < 10 then Char.ofNat (48 + n) else Char.ofNat (87 + n)
      out.putStrLn (if o.isEmpty then "-" else String.ofList (o.flatMap (fun x => [hd (x / 16), hd (x % 16)])))
      loop h out st
    | none => out.putStrLn "bad-op"; loop h out st
  | "X" :: ops =>
    match ops.mapM parseXOp with
    | some os =>
      let s := xrun {} os
      out.putStrLn (hexOfStr (exportText s) ++ " " ++ finalDump s ++ " all=" ++ (if allEntriesExported s then "1" else "0")
                    ++ " late=" ++ (if s.late then "1" else "0"))
      loop h out st
    | none => out.putStrLn "bad-op"; loop h out st
  | ["reset"] => out.putStrLn "ok"; loop h out {}
  | ["L", hx] =>
    match unhexStr hx with
    | some (some s) =>
      match parse s with
      | none => out.putStrLn "nojson"; loop h out { st with bad := true }
      | some (.obj ms) =>
        match classify ms with
        | some r => out.putStrLn ("rec " ++ recTag r); loop h out { st with lines := some r :: st.lines }
        | none => out.putStrLn "unknown"; loop h out { st with bad := true }
      | some _ => out.putStrLn "noobj"; loop h out { st with bad := true }
    | some none => out.putStrLn "badutf8"; loop h out { st with bad := true }
    | none => out.putStrLn "bad-op"; loop h out st
  | ["N", a, b, c, d, e] =>
    match a.toNat?, b.toNat?, c.toNat?, d.toNat?, e.toNat? with
    | some a, some b, some c, some d, some e =>
      out.putStrLn "ok"
      loop h out { st with d := { st.d with nlVars := a, nlObjs := b, nlAlgCons := c, nlLogCons := d, nlDefVars := e } }
    | _, _, _, _, _ => out.putStrLn "bad-op"; loop h out st
  | ["v", a, b, c] =>
    match a.toNat?, b.toNat?, c.toNat? with
    | some a, some b, some c =>
      out.putStrLn "ok"; loop h out { st with d := { st.d with vars := st.d.vars ++ [⟨a, b != 0, c != 0⟩] } }
    | _, _, _ => out.putStrLn "bad-op"; loop h out st
  | ["o", sn, l, q1, q2] =>
    match sn.toNat?, natCsv l, natCsv q1, natCsv q2 with
    | some sn, some l, some q1, some q2 =>
      out.putStrLn "ok"; loop h out { st with d := { st.d with objs := st.d.objs ++ [⟨sn, l, q1, q2⟩] } }
    | _, _, _, _ => out.putStrLn "bad-op"; loop h out st
  | ["C", ty, g, nm] =>
    match unhexStr ty, g.toNat?, unhexStr nm with
    | some (some ty), some g, some (some nm) =>
      out.putStrLn "ok"
      loop h out { st with d := { st.d with cons := st.d.cons ++ [⟨ty, g, nm⟩] } }
    | _, _, _ => out.putStrLn "bad-op"; loop h out st
  | ["check"] =>
    if st.bad then out.putStrLn "fail line-invalid"
    else
      let g := st.lines.reverse.filterMap id
      if checkGraph g st.d then out.putStrLn "ok"
      else out.putStrLn ("fail " ++ " ".intercalate (failReasons g st.d))
    loop h out st
  | _ => out.putStrLn "bad-op"; loop h out st

def main : IO Unit := do
  let out ← IO.getStdout
  loop (← IO.getStdin) out {}

import MpVerif.C20.ModelEscape
/-! # C20: `escapeB` always yields well-formed UTF-8 that is a valid JSON string body -/
namespace MpVerif.C20
open GenBase

/-- RFC 3629 §4 (`UTF8-octets = *( UTF8-char )`), one constructor per production -/
inductive WfUtf8 : List Nat → Prop
  | nil : WfUtf8 []
  | one {b : Nat} {s : List Nat} : b < 128 → WfUtf8 s → WfUtf8 (b :: s)
  | two {b b1 : Nat} {s : List Nat} : inR 194 223 b = true → inR 128 191 b1 = true → WfUtf8 s → WfUtf8 (b :: b1 :: s)
  | three {b b1 b2 : Nat} {s : List Nat} :
      ((b == 224 && inR 160 191 b1) || (inR 225 236 b && inR 128 191 b1) ||
       (b == 237 && inR 128 159 b1) || (inR 238 239 b && inR 128 191 b1)) = true →
      inR 128 191 b2 = true → WfUtf8 s → WfUtf8 (b :: b1 :: b2 :: s)
  | four {b b1 b2 b3 : Nat} {s : List Nat} :
      ((b == 240 && inR 144 191 b1) || (inR 241 243 b && inR 128 191 b1) || (b == 244 && inR 128 143 b1)) = true →
      inR 128 191 b2 = true → inR 128 191 b3 = true → WfUtf8 s → WfUtf8 (b :: b1 :: b2 :: b3 :: s)

/-- RFC 8259 §7 (`*char` between the quotation marks), on the UTF-8 bytes: `unescaped` bytes (everything except
    `"`, `\` and controls; bytes ≥ 0x80 belong to multi-byte characters), two-character escapes, `\uXXXX` -/
inductive BodyOk : List Nat → Prop
  | nil : BodyOk []
  | plain {b : Nat} {s : List Nat} : b ≠ 34 → b ≠ 92 → 32 ≤ b → BodyOk s → BodyOk (b :: s)
  | esc {e : Nat} {s : List Nat} : e ∈ [34, 92, 47, 98, 102, 110, 114, 116] → BodyOk s → BodyOk (92 :: e :: s)
  | uni {h1 h2 h3 h4 : Nat} {s : List Nat} : isHexB h1 = true → isHexB h2 = true → isHexB h3 = true → isHexB h4 = true →
      BodyOk s → BodyOk (92 :: 117 :: h1 :: h2 :: h3 :: h4 :: s)

/-- a valid JSON string body in UTF-8 -/
def ValidBody (s : List Nat) : Prop := WfUtf8 s ∧ BodyOk s

theorem hexLo_ok : ∀ x, x < 16 → isHexB (hexLo x) = true ∧ hexLo x < 128 := by decide

set_option maxRecDepth 100000 in
theorem cont_range : ∀ b, b < 256 → isCont b = true → inR 128 191 b = true := by decide

theorem len1 (t : List Nat) (h : 1 ≤ t.length) : ∃ b1 t', t = b1 :: t' := by
  cases t with
  | nil => simp at h
  | cons a t => exact ⟨a, t, rfl⟩

theorem len2 (t : List Nat) (h : 2 ≤ t.length) : ∃ b1 b2 t', t = b1 :: b2 :: t' := by
  obtain ⟨a, t1, rfl⟩ := len1 t (by omega)
  obtain ⟨b, t2, rfl⟩ := len1 t1 (by simp at h; omega)
  exact ⟨a, b, t2, rfl⟩

theorem len3 (t : List Nat) (h : 3 ≤ t.length) : ∃ b1 b2 b3 t', t = b1 :: b2 :: b3 :: t' := by
  obtain ⟨a, b, t2, rfl⟩ := len2 t (by omega)
  obtain ⟨c, t3, rfl⟩ := len1 t2 (by simp at h; omega)
  exact ⟨a, b, c, t3, rfl⟩

theorem valid_fmtU4 (c : Nat) (R : List Nat) (h : ValidBody R) : ValidBody (fmtU4 c ++ R) := by
  have a1 := hexLo_ok (c / 4096 % 16) (Nat.mod_lt _ (by decide))
  have a2 := hexLo_ok (c / 256 % 16) (Nat.mod_lt _ (by decide))
  have a3 := hexLo_ok (c / 16 % 16) (Nat.mod_lt _ (by decide))
  have a4 := hexLo_ok (c % 16) (Nat.mod_lt _ (by decide))
  simp only [fmtU4, List.cons_append, List.nil_append]
  exact ⟨.one (by decide) (.one (by decide) (.one a1.2 (.one a2.2 (.one a3.2 (.one a4.2 h.1))))),
         .uni a1.1 a2.1 a3.1 a4.1 h.2⟩

theorem valid_esc2 (e : Nat) (he : e ∈ [34, 92, 47, 98, 102, 110, 114, 116]) (R : List Nat) (h : ValidBody R) :
    ValidBody ([92, e] ++ R) := by
  have : e < 128 := by
    simp only [List.mem_cons, List.mem_nil_iff, or_false] at he
    omega
  exact ⟨.one (by decide) (.one this h.1), .esc he h.2⟩

theorem valid_copy (c : Nat) (t : List Nat) (hc : c < 256) (ht : Bytes t) (h128 : ¬ c < 128) (hok : seqOk c t = true)
    (R : List Nat) (h : ValidBody R) : ValidBody ((c :: t.take (seqLen c)) ++ R) := by
  simp only [seqOk, Bool.and_eq_true, decide_eq_true_eq, Bool.not_eq_true', List.all_eq_true] at hok
  obtain ⟨⟨⟨hpos, hlen⟩, hall⟩, hbad⟩ := hok
  have hcont : ∀ b, b ∈ t.take (seqLen c) → inR 128 191 b = true :=
    fun b hb => cont_range b (ht b (List.mem_of_mem_take hb)) (hall b hb)
  have hplain : ∀ b, inR 128 191 b = true → b ≠ 34 ∧ b ≠ 92 ∧ 32 ≤ b := by
    intro b hb; simp only [inR, Bool.and_eq_true, decide_eq_true_eq] at hb; omega
  have hcp : c ≠ 34 ∧ c ≠ 92 ∧ 32 ≤ c := by omega
  -- the lead byte announces 1, 2 or 3 continuation bytes
  have hn : seqLen c = 1 ∨ seqLen c = 2 ∨ seqLen c = 3 := by
    unfold seqLen at hpos ⊢; split <;> simp_all <;> split <;> simp_all <;> split <;> simp_all
  rcases hn with hn | hn | hn
  · rw [hn] at hlen hcont ⊢
    obtain ⟨b1, t', rfl⟩ := len1 t hlen
    · have h1 := hcont b1 (by simp)
      have hl : inR 194 223 c = true := by
        unfold seqLen at hn; simp only [inR, Bool.and_eq_true, decide_eq_true_eq]
        split at hn
        · assumption
        · split at hn <;> (try split at hn) <;> simp at hn
      simp only [List.take_succ_cons, List.take_zero, List.cons_append, List.nil_append]
      have p1 := hplain b1 h1
      exact ⟨.two hl h1 h.1, .plain hcp.1 hcp.2.1 hcp.2.2 (.plain p1.1 p1.2.1 p1.2.2 h.2)⟩
  · rw [hn] at hlen hcont ⊢
    obtain ⟨b1, b2, t', rfl⟩ := len2 t hlen
    · have h1 := hcont b1 (by simp)
      have h2 := hcont b2 (by simp)
      have hr : 224 ≤ c ∧ c ≤ 239 := by
        unfold seqLen at hn
        split at hn
        · simp at hn
        · split at hn
          · assumption
          · split at hn <;> simp at hn
      have hl : ((c == 224 && inR 160 191 b1) || (inR 225 236 c && inR 128 191 b1) ||
                 (c == 237 && inR 128 159 b1) || (inR 238 239 c && inR 128 191 b1)) = true := by
        have hb : badSecond c b1 = false := by simpa using hbad
        simp only [badSecond, Bool.or_eq_false_iff, Bool.and_eq_false_iff, beq_eq_false_iff_ne, decide_eq_false_iff_not] at hb
        simp only [inR, Bool.and_eq_true, decide_eq_true_eq] at h1
        simp only [inR, Bool.or_eq_true, Bool.and_eq_true, decide_eq_true_eq, beq_iff_eq]
        omega
      simp only [List.take_succ_cons, List.take_zero, List.cons_append, List.nil_append]
      have p1 := hplain b1 h1
      have p2 := hplain b2 h2
      exact ⟨.three hl h2 h.1,
             .plain hcp.1 hcp.2.1 hcp.2.2 (.plain p1.1 p1.2.1 p1.2.2 (.plain p2.1 p2.2.1 p2.2.2 h.2))⟩
  · rw [hn] at hlen hcont ⊢
    obtain ⟨b1, b2, b3, t', rfl⟩ := len3 t hlen
    · have h1 := hcont b1 (by simp)
      have h2 := hcont b2 (by simp)
      have h3 := hcont b3 (by simp)
      have hr : 240 ≤ c ∧ c ≤ 244 := by
        unfold seqLen at hn
        split at hn
        · simp at hn
        · split at hn
          · simp at hn
          · split at hn
            · assumption
            · simp at hn
      have hl : ((c == 240 && inR 144 191 b1) || (inR 241 243 c && inR 128 191 b1) || (c == 244 && inR 128 143 b1)) = true := by
        have hb : badSecond c b1 = false := by simpa using hbad
        simp only [badSecond, Bool.or_eq_false_iff, Bool.and_eq_false_iff, beq_eq_false_iff_ne, decide_eq_false_iff_not] at hb
        simp only [inR, Bool.and_eq_true, decide_eq_true_eq] at h1
        simp only [inR, Bool.or_eq_true, Bool.and_eq_true, decide_eq_true_eq, beq_iff_eq]
        omega
      simp only [List.take_succ_cons, List.take_zero, List.cons_append, List.nil_append]
      have p1 := hplain b1 h1
      have p2 := hplain b2 h2
      have p3 := hplain b3 h3
      exact ⟨.four hl h2 h3 h.1,
             .plain hcp.1 hcp.2.1 hcp.2.2 (.plain p1.1 p1.2.1 p1.2.2 (.plain p2.1 p2.2.1 p2.2.2 (.plain p3.1 p3.2.1 p3.2.2 h.2)))⟩

theorem valid_step (c : Nat) (t : List Nat) (hc : c < 256) (ht : Bytes t) (R : List Nat) (h : ValidBody R) :
    ValidBody ((escStep c t).1 ++ R) := by
  unfold escStep
  by_cases h1 : c = 34
  · simp only [h1, if_true]; exact valid_esc2 34 (by simp) R h
  by_cases h2 : c = 92
  · simp only [h1, h2, if_true, if_false]; exact valid_esc2 92 (by simp) R h
  by_cases h3 : c = 10
  · subst h3; exact valid_esc2 110 (by simp) R h
  by_cases h4 : c = 13
  · subst h4; exact valid_esc2 114 (by simp) R h
  by_cases h5 : c = 9
  · subst h5; exact valid_esc2 116 (by simp) R h
  simp only [h1, h2, h3, h4, h5, if_false]
  by_cases h6 : c < 32
  · simp only [h6, if_true]; exact valid_fmtU4 c R h
  by_cases h7 : c < 128
  · simp only [h6, h7, if_true, if_false, List.cons_append, List.nil_append]
    exact ⟨.one h7 h.1, .plain h1 h2 (by omega) h.2⟩
  simp only [h6, h7, if_false]
  by_cases h8 : seqOk c t = true
  · simp only [h8, if_true]; exact valid_copy c t hc ht h7 h8 R h
  · simp only [h8]; exact valid_fmtU4 c R h

theorem valid_escapeBF : ∀ (f : Nat) (s : List Nat), Bytes s → ValidBody (escapeBF f s)
  | 0, _, _ => by simp [escapeBF]; exact ⟨.nil, .nil⟩
  | _ + 1, [], _ => by simp [escapeBF]; exact ⟨.nil, .nil⟩
  | f + 1, c :: t, hs => by
    have hc : c < 256 := hs c (by simp)
    have ht : Bytes t := fun b hb => hs b (by simp [hb])
    have hd : Bytes (t.drop (escStep c t).2) := fun b hb => ht b (List.mem_of_mem_drop hb)
    simp only [escapeBF]
    exact valid_step c t hc ht _ (valid_escapeBF f _ hd)

end MpVerif.C20

import MpVerif.C20.LemmasExporterNL
/-! # C20: the variable records of the exporter transition system (from-NL flag, final data) -/
namespace MpVerif.C20

def isVarRec : Rec → Bool | .var _ _ _ => true | _ => false

theorem lastVar_append : ∀ (a b : List Rec) (i : Nat),
    lastVar (a ++ b) i = match lastVar b i with | some x => some x | none => lastVar a i
  | [], b, i => by simp [lastVar]; cases lastVar b i <;> rfl
  | r :: a, b, i => by
    simp only [List.cons_append, lastVar, lastVar_append a b i]
    cases lastVar b i with
    | some x => rfl
    | none => rfl

theorem lastVar_novar : ∀ (b : List Rec) (i : Nat), (∀ r, r ∈ b → isVarRec r = false) → lastVar b i = none
  | [], _, _ => rfl
  | r :: b, i, h => by
    have hr := h r (by simp)
    simp only [lastVar, lastVar_novar b i (fun x hx => h x (by simp [hx]))]
    cases r <;> simp [isVarRec] at hr <;> rfl

theorem lastVar_varRecs : ∀ (l : List (Bool × VarInfo)) (i0 i : Nat),
    lastVar (varRecs i0 l) i = if i0 ≤ i then (l[i - i0]?).map (·.2) else none
  | [], i0, i => by simp [varRecs, lastVar]
  | (b, info) :: l, i0, i => by
    simp only [varRecs, lastVar, lastVar_varRecs l (i0 + 1) i]
    by_cases h1 : i0 + 1 ≤ i
    · have h2 : i0 ≤ i := by omega
      have h3 : i - i0 = (i - (i0 + 1)) + 1 := by omega
      simp only [h1, h2, if_true, h3, List.getElem?_cons_succ]
      cases l[i - (i0 + 1)]? with
      | some x => rfl
      | none => simp; omega
    · by_cases h2 : i0 = i
      · subst h2; simp [h1]
      · have h3 : ¬ i0 ≤ i := by omega
        simp [h1, h2, h3]

theorem varRecs_mem2 : ∀ (l : List (Bool × VarInfo)) (i0 : Nat) (r : Rec), r ∈ varRecs i0 l →
    ∃ k b info, r = Rec.var (i0 + k) b info ∧ l[k]? = some (b, info)
  | [], _, r, h => by simp [varRecs] at h
  | (b, info) :: l, i0, r, h => by
    simp only [varRecs, List.mem_cons] at h
    rcases h with h | h
    · exact ⟨0, b, info, by simpa using h, by simp⟩
    · obtain ⟨k, b', info', e, hk⟩ := varRecs_mem2 l (i0 + 1) r h
      exact ⟨k + 1, b', info', by rw [e]; congr 1; omega, by simpa using hk⟩

structure VInv (s : XState) : Prop where
  /-- every variable record names an existing flat variable and carries its from-NL flag -/
  flag : ∀ i b info, Rec.var i b info ∈ s.out → ∃ info', s.vars[i]? = some (b, info')
  /-- every flat variable – in particular every NL variable – has a record carrying its from-NL flag -/
  has : ∀ i b info', s.vars[i]? = some (b, info') → ∃ info, Rec.var i b info ∈ s.out
  /-- after the push the LAST record of every flat variable shows its type/bounds class as they are then -/
  fin : s.finished = true → ∀ i b info, s.vars[i]? = some (b, info) → lastVar s.out i = some info

theorem vinv_init : VInv {} :=
  ⟨fun i b info h => by simp at h, fun i b info h => by simp at h, fun h => by simp at h⟩

theorem vinv_reject (s : XState) (h : VInv s) : VInv (reject s) := ⟨h.flag, h.has, h.fin⟩

/-- appending records that are not variable records; variables untouched -/
theorem vinv_novar (s s' : XState) (h : VInv s) (rs : List Rec) (ho : s'.out = s.out ++ rs)
    (hk : ∀ r, r ∈ rs → isVarRec r = false) (hv : s'.vars = s.vars) (hf : s'.finished = s.finished) : VInv s' := by
  refine ⟨?_, ?_, ?_⟩
  · intro i b info hm; rw [ho] at hm; rw [hv]
    rcases List.mem_append.mp hm with hm | hm
    · exact h.flag i b info hm
    · have := hk _ hm; simp [isVarRec] at this
  · intro i b info' hi; rw [hv] at hi; obtain ⟨info, hm⟩ := h.has i b info' hi; exact ⟨info, by rw [ho]; simp [hm]⟩
  · intro hfin i b info hi
    rw [hf] at hfin; rw [hv] at hi
    rw [ho, lastVar_append, lastVar_novar rs i hk]
    exact h.fin hfin i b info hi

theorem vinv_step (cfg : Cfg) (s : XState) (h : VInv s) (e : Ev) : VInv (xev cfg s e) := by
  cases e with
  | addVar b info =>
    simp only [xev]; split
    · exact vinv_reject s h
    · rename_i hf
      refine ⟨?_, ?_, fun hfin => by simp [addVarState] at hfin; simp [hfin] at hf⟩
      · intro i b' info' hm
        simp only [addVarState, List.mem_append, List.mem_singleton] at hm ⊢
        rcases hm with hm | hm
        · obtain ⟨x, hx⟩ := h.flag i b' info' hm
          have hlt : i < s.vars.length := (List.getElem?_eq_some_iff.mp hx).1
          exact ⟨x, by rw [List.getElem?_append_left hlt]; exact hx⟩
        · cases hm; exact ⟨info, by simp⟩
      · intro i b' info' hi
        simp only [addVarState] at hi ⊢
        by_cases hlt : i < s.vars.length
        · rw [List.getElem?_append_left hlt] at hi
          obtain ⟨x, hx⟩ := h.has i b' info' hi
          exact ⟨x, by simp [hx]⟩
        · have hlen : i < (s.vars ++ [(b, info)]).length := (List.getElem?_eq_some_iff.mp hi).1
          have : i = s.vars.length := by simp at hlen; omega
          subst this
          simp at hi
          exact ⟨info, by simp [hi.1]⟩
  | setVar i info =>
    simp only [xev]; split
    · exact vinv_reject s h
    · rename_i hf
      split
      · rename_i b0 x0 hget
        refine ⟨?_, ?_, fun hfin => by simp at hfin; simp [hfin] at hf⟩
        · intro j b' info' hm
          obtain ⟨x, hx⟩ := h.flag j b' info' hm
          simp only [setAt, List.getElem?_set]
          by_cases e : i = j
          · subst e
            have : (b', x) = (b0, x0) := by rw [hget] at hx; exact (Option.some.inj hx).symm
            have hb : b' = b0 := by cases this; rfl
            have hlt : i < s.vars.length := (List.getElem?_eq_some_iff.mp hx).1
            exact ⟨info, by simp [hlt, hb]⟩
          · exact ⟨x, by simp [e, hx]⟩
        · intro j b' info' hj
          simp only [setAt, List.getElem?_set] at hj
          by_cases e : i = j
          · subst e
            have hlt : i < s.vars.length := (List.getElem?_eq_some_iff.mp hget).1
            simp [hlt] at hj
            exact h.has i b' x0 (by rw [hget, hj.1])
          · simp [e] at hj; exact h.has j b' info' hj
      · exact vinv_reject s h
  | store ty =>
    simp only [xev]; split
    · exact vinv_reject s h
    · exact vinv_novar s _ h [Rec.conNew ty (s.cons ty).length] rfl (by intro r hr; simp at hr; subst hr; rfl) rfl rfl
  | bridge ty i =>
    simp only [xev]; split
    · exact vinv_reject s h
    · exact vinv_novar s _ h [] (by simp) (by intro r hr; simp at hr) rfl rfl
  | unuse ty i =>
    simp only [xev]; split
    · exact vinv_reject s h
    · exact vinv_novar s _ h [] (by simp) (by intro r hr; simp at hr) rfl rfl
  | addItems node n =>
    simp only [xev]; split
    · exact vinv_reject s h
    · exact vinv_novar s _ h [] (by simp [addItemsState]) (by intro r hr; simp at hr) rfl rfl
  | nlObj =>
    simp only [xev]; split
    · exact vinv_reject s h
    · exact vinv_novar s _ h [Rec.nlObj s.nlObjs] rfl (by intro r hr; simp at hr; subst hr; rfl) rfl rfl
  | nlCon l =>
    simp only [xev]; split
    · exact vinv_reject s h
    · exact vinv_novar s _ h [Rec.nlCon s.nlCons.length l] rfl (by intro r hr; simp at hr; subst hr; rfl) rfl rfl
  | nlDefVar =>
    simp only [xev]; split
    · exact vinv_reject s h
    · exact vinv_novar s _ h [Rec.nlDefVar s.nlDefs] rfl (by intro r hr; simp at hr; subst hr; rfl) rfl rfl
  | addObj info =>
    simp only [xev]; split
    · exact vinv_reject s h
    · exact vinv_novar s _ h [Rec.obj s.objs.length info] rfl (by intro r hr; simp at hr; subst hr; rfl) rfl rfl
  | setObj i info =>
    simp only [xev]; split
    · exact vinv_reject s h
    · exact vinv_novar s _ h [] (by simp) (by intro r hr; simp at hr) rfl rfl
  | link lty en src dst =>
    simp only [xev]; split
    · exact vinv_novar s _ h [Rec.link lty en src dst] rfl (by intro r hr; simp at hr; subst hr; rfl) rfl rfl
    · exact vinv_reject s h
  | finish =>
    simp only [xev]; split
    · exact vinv_reject s h
    · have hrest : ∀ r, r ∈ objRecs 0 s.objs ++ ((allFinish cfg s.cons cfg.types).1 ++ cfg.types.map (fun ty => Rec.conGroup ty (cfg.grp ty))) →
          isVarRec r = false := by
        intro r hr
        simp only [List.mem_append] at hr
        rcases hr with hr | hr | hr
        · obtain ⟨k, o, e, _⟩ := objRecs_mem s.objs 0 r hr; subst e; rfl
        · have := (af_status cfg s.cons cfg.types r hr).1
          cases r <;> simp [isStatus] at this; rfl
        · simp only [List.mem_map] at hr; obtain ⟨t, _, e⟩ := hr; subst e; rfl
      refine ⟨?_, ?_, ?_⟩
      · intro i b info hm
        simp only [finishState, finishRecs] at hm
        show ∃ info', s.vars[i]? = some (b, info')
        rcases List.mem_append.mp hm with hm | hm
        · exact h.flag i b info hm
        · rcases List.mem_append.mp hm with hm | hm
          · obtain ⟨k, b', info', e, hk⟩ := varRecs_mem2 s.vars 0 _ hm
            cases e
            exact ⟨info, by simpa using hk⟩
          · have := hrest _ hm; simp [isVarRec] at this
      · intro i b info' hi
        have hi' : s.vars[i]? = some (b, info') := hi
        obtain ⟨info, hm⟩ := h.has i b info' hi'
        exact ⟨info, by simp [finishState, hm]⟩
      · intro _ i b info hi
        have hi' : s.vars[i]? = some (b, info) := hi
        simp only [finishState, finishRecs]
        rw [lastVar_append, lastVar_append (varRecs 0 s.vars), lastVar_novar _ i hrest, lastVar_varRecs]
        simp [hi']

theorem vinv_run (cfg : Cfg) : ∀ (evs : List Ev) (s : XState), VInv s → VInv (xevs cfg s evs)
  | [], _, h => h
  | e :: evs, s, h => vinv_run cfg evs (xev cfg s e) (vinv_step cfg s h e)

end MpVerif.C20

import MpVerif.C20.ModelExport
/-! # C20 lemmas for the link-export protocol: `i_exported_ ≤ brl_.size()` is an invariant -/
namespace MpVerif.C20

theorem iExp_le_exportRemaining (s : PState) : (exportRemaining s).brl.length ≤ (exportRemaining s).iExp := by
  simp [exportRemaining]; omega

theorem addRange_inv (s : PState) (br : LRange) (h : s.iExp ≤ s.brl.length) :
    (addRange s br).iExp ≤ (addRange s br).brl.length := by
  unfold addRange
  cases hl : s.brl.getLast? with
  | none => simp [exportRemaining]; omega
  | some b =>
    by_cases hc : (b.link = br.link && b.end_ = br.beg) = true
    · have hne : s.brl ≠ [] := by intro h0; simp [h0] at hl
      have : (s.brl.dropLast ++ [{ b with end_ := br.end_ }]).length = s.brl.length := by
        simp [List.length_dropLast]
        cases hb : s.brl with
        | nil => exact absurd hb hne
        | cons a l => simp
      simp only [hc, if_true]
      simp only [this]; exact h
    · simp only [hc]
      simp [exportRemaining]; omega

theorem setEnts_brl (s : PState) (k : LKind) (l : List Entry) :
    (s.setEnts k l).brl = s.brl ∧ (s.setEnts k l).iExp = s.iExp := by
  cases k <;> simp [PState.setEnts]

theorem addEntry_inv (s : PState) (k : LKind) (e : Entry) (h : s.iExp ≤ s.brl.length) :
    (addEntry s k e).iExp ≤ (addEntry s k e).brl.length := by
  have hpush : (pushEntry s k e).iExp ≤ (pushEntry s k e).brl.length := by
    unfold pushEntry
    apply addRange_inv
    rw [(setEnts_brl s k _).1, (setEnts_brl s k _).2]; exact h
  have hrep : ∀ e', (replaceLast s k e').iExp ≤ (replaceLast s k e').brl.length := by
    intro e'
    unfold replaceLast
    simp only
    rw [(setEnts_brl s k _).1, (setEnts_brl s k _).2]; exact h
  unfold addEntry
  cases (s.ents k).getLast? with
  | none => exact hpush
  | some last =>
    cases k
    · simp only; split
      · exact hrep _
      · exact hpush
    · simp only; split
      · exact hrep _
      · split
        · exact hrep _
        · exact hpush
    · simp only; split
      · exact hrep _
      · split
        · exact hrep _
        · exact hpush

theorem xrun_inv : ∀ (ops : List XOp) (s : PState), s.iExp ≤ s.brl.length →
    (xrun s ops).iExp ≤ (xrun s ops).brl.length
  | [], s, h => h
  | op :: ops, s, h => by
    have : (xstep s op).iExp ≤ (xstep s op).brl.length := by
      cases op with
      | add k e => exact addEntry_inv s k e h
      | finish => simp [xstep, exportRemaining]; omega
    exact xrun_inv ops (xstep s op) this

end MpVerif.C20

import MpVerif.C20.ModelExport
/-! # C20 lemmas for the link-export protocol: `i_exported_ ≤ brl_.size()` is an invariant -/
namespace MpVerif.C20

theorem iExp_le_exportRemaining (s : PState) : (exportRemaining s).brl.length ≤ (exportRemaining s).iExp := by
  simp [exportRemaining]; omega

theorem addRange_inv (s : PState) (br : LRange) (h : s.iExp ≤ s.brl.length) :
    (addRange s br).iExp ≤ (addRange s br).brl.length := by
  unfold addRange
  cases hl : s.brl.getLast? with
  | none => simp [exportRemaining]; omega
  | some b =>
    by_cases hc : (b.link = br.link && b.end_ = br.beg) = true
    · have hne : s.brl ≠ [] := by intro h0; simp [h0] at hl
      have : (s.brl.dropLast ++ [{ b with end_ := br.end_ }]).length = s.brl.length := by
        simp [List.length_dropLast]
        cases hb : s.brl with
        | nil => exact absurd hb hne
        | cons a l => simp
      simp only [hc, if_true]
      simp only [this]; exact h
    · simp only [hc]
      simp [exportRemaining]; omega

theorem setEnts_brl (s : PState) (k : LKind) (l : List Entry) :
    (s.setEnts k l).brl = s.brl ∧ (s.setEnts k l).iExp = s.iExp := by
  cases k <;> simp [PState.setEnts]

theorem addEntry_inv (s : PState) (k : LKind) (e : Entry) (h : s.iExp ≤ s.brl.length) :
    (addEntry s k e).iExp ≤ (addEntry s k e).brl.length := by
  have hpush : (pushEntry s k e).iExp ≤ (pushEntry s k e).brl.length := by
    unfold pushEntry
    apply addRange_inv
    rw [(setEnts_brl s k _).1, (setEnts_brl s k _).2]; exact h
  have hrep : ∀ e', (replaceLast s k e').iExp ≤ (replaceLast s k e').brl.length := by
    intro e'
    unfold replaceLast
    simp only
    rw [(setEnts_brl s k _).1, (setEnts_brl s k _).2]; exact h
  unfold addEntry
  cases (s.ents k).getLast? with
  | none => exact hpush
  | some last =>
    cases k
    · simp only; split
      · exact hrep _
      · exact hpush
    · simp only; split
      · exact hrep _
      · split
        · exact hrep _
        · exact hpush
    · simp only; split
      · exact hrep _
      · split
        · exact hrep _
        · exact hpush

theorem xrun_inv : ∀ (ops : List XOp) (s : PState), s.iExp ≤ s.brl.length →
    (xrun s ops).iExp ≤ (xrun s ops).brl.length
  | [], s, h => h
  | op :: ops, s, h => by
    have : (xstep s op).iExp ≤ (xstep s op).brl.length := by
      cases op with
      | add k e => exact addEntry_inv s k e h
      | finish => simp [xstep, exportRemaining]; omega
    exact xrun_inv ops (xstep s op) this

/-! ## exported extents are final unless an entry is extended in place after its export -/

/-- every exported record shows the current extent of its entry -/
def Consistent (s : PState) : Prop := ∀ x, x ∈ s.out → (x.src, x.dst) = extentOf s x.link x.entry

structure XInv (s : PState) : Prop where
  cons : s.late = false → Consistent s
  rng : ∀ r, r ∈ s.brl → r.end_ ≤ (s.ents r.link).length
  ent : ∀ x, x ∈ s.out → x.entry < (s.ents x.link).length

theorem ents_setEnts (s : PState) (k k' : LKind) (l : List Entry) :
    (s.setEnts k l).ents k' = if k' = k then l else s.ents k' := by
  cases k <;> cases k' <;> simp [PState.setEnts, PState.ents]

theorem setEnts_fields (s : PState) (k : LKind) (l : List Entry) :
    (s.setEnts k l).out = s.out ∧ (s.setEnts k l).late = s.late ∧ (s.setEnts k l).brl = s.brl
      ∧ (s.setEnts k l).iExp = s.iExp := by
  cases k <;> simp [PState.setEnts]

theorem mem_exportFrom (s : PState) : ∀ (rs : List LRange) (i : Nat) (x : XRec),
    (∀ r, r ∈ rs → r.end_ ≤ (s.ents r.link).length) → x ∈ exportFrom s i rs →
    (x.src, x.dst) = extentOf s x.link x.entry ∧ x.entry < (s.ents x.link).length
  | [], _, _, _, hx => by simp [exportFrom] at hx
  | r :: rs, i, x, hr, hx => by
    simp only [exportFrom, List.mem_append] at hx
    rcases hx with hx | hx
    · simp only [exportRange, List.mem_map, List.mem_range'_1] at hx
      obtain ⟨j, hj, rfl⟩ := hx
      have := hr r (by simp)
      refine ⟨rfl, ?_⟩
      simp only
      omega
    · exact mem_exportFrom s rs (i + 1) x (fun r' h' => hr r' (by simp [h'])) hx

theorem exportRemaining_inv (s : PState) (h : XInv s) : XInv (exportRemaining s) := by
  have hdrop : ∀ r, r ∈ s.brl.drop s.iExp → r.end_ ≤ (s.ents r.link).length :=
    fun r hr => h.rng r (List.mem_of_mem_drop hr)
  refine ⟨?_, ?_, ?_⟩
  · intro hl x hx
    simp only [exportRemaining, List.mem_append] at hx
    rcases hx with hx | hx
    · exact h.cons hl x hx
    · exact (mem_exportFrom s _ _ x hdrop hx).1
  · intro r hr; exact h.rng r hr
  · intro x hx
    simp only [exportRemaining, List.mem_append] at hx
    rcases hx with hx | hx
    · exact h.ent x hx
    · exact (mem_exportFrom s _ _ x hdrop hx).2

theorem exportRemaining_ents (s : PState) (k : LKind) : (exportRemaining s).ents k = s.ents k := by
  cases k <;> rfl

theorem addRange_xinv (s : PState) (br : LRange) (h : XInv s) (hb : br.end_ ≤ (s.ents br.link).length) :
    XInv (addRange s br) := by
  unfold addRange
  have hnew : XInv { exportRemaining s with brl := (exportRemaining s).brl ++ [br] } := by
    have h1 := exportRemaining_inv s h
    refine ⟨h1.cons, ?_, h1.ent⟩
    intro r hr
    simp only [List.mem_append, List.mem_singleton] at hr
    rcases hr with hr | hr
    · exact h1.rng r hr
    · subst hr; exact hb
  cases hl : s.brl.getLast? with
  | none => exact hnew
  | some b =>
    simp only
    split
    · rename_i hc
      simp only [Bool.and_eq_true, decide_eq_true_eq] at hc
      refine ⟨h.cons, ?_, h.ent⟩
      intro r hr
      simp only [List.mem_append, List.mem_singleton] at hr
      rcases hr with hr | hr
      · exact h.rng r ((List.dropLast_sublist _).subset hr)
      · subst hr
        simp only
        have : (s.ents b.link) = s.ents br.link := by rw [hc.1]
        show br.end_ ≤ (s.ents b.link).length
        rw [this]; exact hb
    · exact hnew


theorem getD_append_left (l : List Entry) (e d : Entry) (j : Nat) (hj : j < l.length) :
    (l ++ [e]).getD j d = l.getD j d := by
  simp [List.getD_eq_getElem?_getD, List.getElem?_append_left hj]

theorem pushEntry_xinv (s : PState) (k : LKind) (e : Entry) (h : XInv s) : XInv (pushEntry s k e) := by
  unfold pushEntry
  apply addRange_xinv
  · have hf := setEnts_fields s k (s.ents k ++ [e])
    refine ⟨?_, ?_, ?_⟩
    · intro hl x hx
      rw [hf.1] at hx
      rw [hf.2.1] at hl
      have h1 := h.cons hl x hx
      have h2 := h.ent x hx
      rw [h1]
      simp only [extentOf, ents_setEnts]
      split
      · rename_i hk; rw [hk] at h2 ⊢; exact (getD_append_left _ _ _ _ h2).symm
      · rfl
    · intro r hr
      rw [hf.2.2.1] at hr
      have := h.rng r hr
      simp only [ents_setEnts]
      split
      · rename_i hk; rw [hk] at this; simp; omega
      · exact this
    · intro x hx
      rw [hf.1] at hx
      have := h.ent x hx
      simp only [ents_setEnts]
      split
      · rename_i hk; rw [hk] at this; simp; omega
      · exact this
  · simp [ents_setEnts]

theorem ents_late (t : PState) (b : Bool) (k : LKind) : ({ t with late := b } : PState).ents k = t.ents k := by
  cases k <;> rfl

theorem replaceLast_xinv (s : PState) (k : LKind) (e' : Entry) (h : XInv s) (hne : s.ents k ≠ []) :
    XInv (replaceLast s k e') := by
  have hf := setEnts_fields s k ((s.ents k).dropLast ++ [e'])
  have hlen : ((s.ents k).dropLast ++ [e']).length = (s.ents k).length := by
    have : 0 < (s.ents k).length := List.length_pos_iff.mpr hne
    simp; omega
  unfold replaceLast
  refine ⟨?_, ?_, ?_⟩
  · intro hl x hx
    simp only [Bool.or_eq_false_iff] at hl
    simp only at hx
    rw [hf.1] at hx
    have h1 := h.cons hl.1 x hx
    have h2 := h.ent x hx
    rw [h1]
    simp only [extentOf, ents_late, ents_setEnts]
    split
    · rename_i hk
      have hnot : ¬ (x.entry = (s.ents k).length - 1) := by
        intro he
        have : isExported s k ((s.ents k).length - 1) = true := by
          simp only [isExported, List.any_eq_true, Bool.and_eq_true, decide_eq_true_eq]
          exact ⟨x, hx, hk, he⟩
        rw [this] at hl; exact Bool.noConfusion hl.2
      rw [hk] at h2
      have hj : x.entry < (s.ents k).dropLast.length := by simp; omega
      rw [hk]
      simp only [List.getD_eq_getElem?_getD, List.getElem?_append_left hj, List.getElem?_dropLast]
      simp [show x.entry < (s.ents k).length - 1 by omega]
    · rfl
  · intro r hr
    simp only at hr
    rw [hf.2.2.1] at hr
    have := h.rng r hr
    simp only [ents_late, ents_setEnts]
    split
    · rename_i hk; rw [hk] at this; rw [hlen]; exact this
    · exact this
  · intro x hx
    simp only at hx
    rw [hf.1] at hx
    have := h.ent x hx
    simp only [ents_late, ents_setEnts]
    split
    · rename_i hk; rw [hk] at this; rw [hlen]; exact this
    · exact this

theorem addEntry_xinv (s : PState) (k : LKind) (e : Entry) (h : XInv s) : XInv (addEntry s k e) := by
  unfold addEntry
  cases hl : (s.ents k).getLast? with
  | none => exact pushEntry_xinv s k e h
  | some last =>
    have hne : s.ents k ≠ [] := by intro h0; simp [h0] at hl
    cases k
    · simp only; split
      · exact replaceLast_xinv s _ _ h hne
      · exact pushEntry_xinv s _ e h
    · simp only; split
      · exact replaceLast_xinv s _ _ h hne
      · split
        · exact replaceLast_xinv s _ _ h hne
        · exact pushEntry_xinv s _ e h
    · simp only; split
      · exact replaceLast_xinv s _ _ h hne
      · split
        · exact replaceLast_xinv s _ _ h hne
        · exact pushEntry_xinv s _ e h

theorem xrun_xinv : ∀ (ops : List XOp) (s : PState), XInv s → XInv (xrun s ops)
  | [], _, h => h
  | op :: ops, s, h => by
    have : XInv (xstep s op) := by
      cases op with
      | add k e => exact addEntry_xinv s k e h
      | finish => exact exportRemaining_inv s h
    exact xrun_xinv ops (xstep s op) this

theorem xinv_init : XInv {} := by
  refine ⟨?_, ?_, ?_⟩
  · intro _ x hx; simp at hx
  · intro r hr; simp at hr
  · intro x hx; simp at hx

end MpVerif.C20
